-- root of the SmVerif library: everything that `lake build` (default target) must check
import SmVerif.Props.C12
