-- root of the SmVerif library: everything that `lake build` (default target) must check
import SmVerif.Props.C01
import SmVerif.Props.C02
import SmVerif.Props.C12
