/-
  Line-protocol driver:  lake env lean --run Driver/Main.lean < requests > responses
    fn <name> <rational>*      evaluate generated definition `Gen.<name>` at ℚ with pseudoPrims
  Unknown names / wrong arity / malformed numbers answer `bad-op` (never a default).
-/
import SmVerif.Gen.Registry
import SmVerif.Logic.Driver

open SmVerif

def parseRat (s : String) : Option ℚ :=
  match s.splitOn "/" with
  | [n] => n.toInt?.map (fun z => (z : ℚ))
  | [n, d] => do
      let a ← n.toInt?
      let b ← d.toNat?
      if b = 0 then none else some ((a : ℚ) / (b : ℚ))
  | _ => none

def table : Std.HashMap String (Nat × (Prims ℚ → Array ℚ → String)) :=
  Std.HashMap.ofList (Gen.registry.map (fun (n, k, f) => (n, (k, f))))

def handle (line : String) : String :=
  let toks := (line.trimAscii.toString.splitOn " ").filter (· ≠ "")
  match toks with
  | "fn" :: name :: args =>
    match table.get? name with
    | none => "bad-op"
    | some (k, f) =>
      match args.mapM parseRat with
      | none => "bad-op"
      | some xs => if xs.length ≠ k then "bad-op" else f pseudoPrims xs.toArray
  | "logic" :: rest => Logic.handle rest
  | _ => "bad-op"

partial def loop (h : IO.FS.Stream) (out : IO.FS.Stream) : IO Unit := do
  let line ← h.getLine
  if line.isEmpty then return ()
  out.putStrLn (handle line)
  loop h out

def main : IO Unit := do
  let out ← IO.getStdout
  loop (← IO.getStdin) out
  out.flush
