/-
  SmVerif.Lin — small fixed-size linear algebra over `Fin n → R` with extensionality lemmas that
  produce *literal* indices (0, 1, 2, …), so that `simp` evaluates `(v3 a b c) 2` directly.
-/
import SmVerif.Basic
import Mathlib.Tactic.Ring
import Mathlib.Tactic.FinCases
import Mathlib.Algebra.BigOperators.Fin

namespace SmVerif
variable {R : Type}

theorem Vec.ext2 {a b : Vec 2 R} (h0 : a 0 = b 0) (h1 : a 1 = b 1) : a = b := by
  funext i; fin_cases i <;> assumption
theorem Vec.ext3 {a b : Vec 3 R} (h0 : a 0 = b 0) (h1 : a 1 = b 1) (h2 : a 2 = b 2) : a = b := by
  funext i; fin_cases i <;> assumption
theorem Vec.ext4 {a b : Vec 4 R} (h0 : a 0 = b 0) (h1 : a 1 = b 1) (h2 : a 2 = b 2) (h3 : a 3 = b 3) :
    a = b := by
  funext i; fin_cases i <;> assumption
theorem Vec.ext6 {a b : Vec 6 R} (h0 : a 0 = b 0) (h1 : a 1 = b 1) (h2 : a 2 = b 2) (h3 : a 3 = b 3)
    (h4 : a 4 = b 4) (h5 : a 5 = b 5) : a = b := by
  funext i; fin_cases i <;> assumption

theorem Mat.ext22 {A B : Mat 2 2 R} (h0 : A 0 = B 0) (h1 : A 1 = B 1) : A = B := Vec.ext2 h0 h1
theorem Mat.ext33 {A B : Mat 3 3 R} (h0 : A 0 = B 0) (h1 : A 1 = B 1) (h2 : A 2 = B 2) : A = B :=
  Vec.ext3 h0 h1 h2
theorem Mat.ext44 {A B : Mat 4 4 R} (h0 : A 0 = B 0) (h1 : A 1 = B 1) (h2 : A 2 = B 2)
    (h3 : A 3 = B 3) : A = B := Vec.ext4 h0 h1 h2 h3
theorem Mat.ext66 {A B : Mat 6 6 R} (h0 : A 0 = B 0) (h1 : A 1 = B 1) (h2 : A 2 = B 2)
    (h3 : A 3 = B 3) (h4 : A 4 = B 4) (h5 : A 5 = B 5) : A = B := Vec.ext6 h0 h1 h2 h3 h4 h5

/-- entrywise extensionality for 3×3 (9 goals with literal indices) -/
theorem Mat.ext33' {A B : Mat 3 3 R}
    (h00 : A 0 0 = B 0 0) (h01 : A 0 1 = B 0 1) (h02 : A 0 2 = B 0 2)
    (h10 : A 1 0 = B 1 0) (h11 : A 1 1 = B 1 1) (h12 : A 1 2 = B 1 2)
    (h20 : A 2 0 = B 2 0) (h21 : A 2 1 = B 2 1) (h22 : A 2 2 = B 2 2) : A = B :=
  Mat.ext33 (Vec.ext3 h00 h01 h02) (Vec.ext3 h10 h11 h12) (Vec.ext3 h20 h21 h22)

theorem Mat.ext22' {A B : Mat 2 2 R}
    (h00 : A 0 0 = B 0 0) (h01 : A 0 1 = B 0 1) (h10 : A 1 0 = B 1 0) (h11 : A 1 1 = B 1 1) : A = B :=
  Mat.ext22 (Vec.ext2 h00 h01) (Vec.ext2 h10 h11)

theorem Mat.ext44' {A B : Mat 4 4 R}
    (h00 : A 0 0 = B 0 0) (h01 : A 0 1 = B 0 1) (h02 : A 0 2 = B 0 2) (h03 : A 0 3 = B 0 3)
    (h10 : A 1 0 = B 1 0) (h11 : A 1 1 = B 1 1) (h12 : A 1 2 = B 1 2) (h13 : A 1 3 = B 1 3)
    (h20 : A 2 0 = B 2 0) (h21 : A 2 1 = B 2 1) (h22 : A 2 2 = B 2 2) (h23 : A 2 3 = B 2 3)
    (h30 : A 3 0 = B 3 0) (h31 : A 3 1 = B 3 1) (h32 : A 3 2 = B 3 2) (h33 : A 3 3 = B 3 3) : A = B :=
  Mat.ext44 (Vec.ext4 h00 h01 h02 h03) (Vec.ext4 h10 h11 h12 h13) (Vec.ext4 h20 h21 h22 h23)
    (Vec.ext4 h30 h31 h32 h33)

section
variable [CommRing R]

def mmul {n k m : Nat} (A : Mat n k R) (B : Mat k m R) : Mat n m R := fun i j => ∑ l, A i l * B l j
def mvec {n k : Nat} (A : Mat n k R) (v : Vec k R) : Vec n R := fun i => ∑ l, A i l * v l
def mT {n m : Nat} (A : Mat n m R) : Mat m n R := fun i j => A j i
def dot {n : Nat} (a b : Vec n R) : R := ∑ i, a i * b i
def one2 : Mat 2 2 R := (v2 ((v2 1 0)) ((v2 0 1)))
def one3 : Mat 3 3 R := (v3 ((v3 1 0 0)) ((v3 0 1 0)) ((v3 0 0 1)))
def one4 : Mat 4 4 R := (v4 ((v4 1 0 0 0)) ((v4 0 1 0 0)) ((v4 0 0 1 0)) ((v4 0 0 0 1)))
def cross3 (a b : Vec 3 R) : Vec 3 R :=
  (v3 (a 1 * b 2 - a 2 * b 1) (a 2 * b 0 - a 0 * b 2) (a 0 * b 1 - a 1 * b 0))
def det2 (A : Mat 2 2 R) : R := A 0 0 * A 1 1 - A 0 1 * A 1 0
def det3 (A : Mat 3 3 R) : R :=
  A 0 0 * (A 1 1 * A 2 2 - A 1 2 * A 2 1) - A 0 1 * (A 1 0 * A 2 2 - A 1 2 * A 2 0)
    + A 0 2 * (A 1 0 * A 2 1 - A 1 1 * A 2 0)
def skew3 (v : Vec 3 R) : Mat 3 3 R := (v3 ((v3 0 (-v 2) (v 1))) ((v3 (v 2) 0 (-v 0))) ((v3 (-v 1) (v 0) 0)))

/-- rotation block / translation of a homogeneous matrix -/
def rotOf3 (T : Mat 4 4 R) : Mat 3 3 R := (v3 ((v3 (T 0 0) (T 0 1) (T 0 2))) ((v3 (T 1 0) (T 1 1) (T 1 2))) ((v3 (T 2 0) (T 2 1) (T 2 2))))
def trOf3 (T : Mat 4 4 R) : Vec 3 R := (v3 (T 0 3) (T 1 3) (T 2 3))
def rt3 (M : Mat 3 3 R) (t : Vec 3 R) : Mat 4 4 R :=
  (v4 ((v4 (M 0 0) (M 0 1) (M 0 2) (t 0))) ((v4 (M 1 0) (M 1 1) (M 1 2) (t 1))) ((v4 (M 2 0) (M 2 1) (M 2 2) (t 2))) ((v4 0 0 0 1)))
def rotOf2 (T : Mat 3 3 R) : Mat 2 2 R := (v2 ((v2 (T 0 0) (T 0 1))) ((v2 (T 1 0) (T 1 1))))
def trOf2 (T : Mat 3 3 R) : Vec 2 R := (v2 (T 0 2) (T 1 2))
def rt2 (M : Mat 2 2 R) (t : Vec 2 R) : Mat 3 3 R :=
  (v3 ((v3 (M 0 0) (M 0 1) (t 0))) ((v3 (M 1 0) (M 1 1) (t 1))) ((v3 0 0 1)))

/-- special orthogonal -/
structure IsSO3 (M : Mat 3 3 R) : Prop where
  orth : mmul M (mT M) = one3
  det : det3 M = 1
structure IsSO2 (M : Mat 2 2 R) : Prop where
  orth : mmul M (mT M) = one2
  det : det2 M = 1
/-- rigid motion: rotation block special orthogonal and last row exactly [0 … 0 1] -/
structure IsSE3 (T : Mat 4 4 R) : Prop where
  rot : IsSO3 (rotOf3 T)
  r0 : T 3 0 = 0
  r1 : T 3 1 = 0
  r2 : T 3 2 = 0
  r3 : T 3 3 = 1
structure IsSE2 (T : Mat 3 3 R) : Prop where
  rot : IsSO2 (rotOf2 T)
  r0 : T 2 0 = 0
  r1 : T 2 1 = 0
  r2 : T 2 2 = 1

end
end SmVerif
