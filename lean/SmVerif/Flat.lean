/-
  SmVerif.Flat — canonical text form of model outputs (exact rationals) for the line-protocol
  driver, and the computable pseudo-primitives used to cross-check IR → Lean text.
-/
import SmVerif.Basic
import Mathlib.Algebra.Order.Ring.Rat
import Mathlib.Algebra.Field.Rat
import Mathlib.Algebra.Order.Floor.Ring
import Mathlib.Data.Rat.Floor

namespace SmVerif

def showRat (q : ℚ) : String :=
  if q.den = 1 then toString q.num else toString q.num ++ "/" ++ toString q.den

class Flat (α : Type) where
  flat : α → List String

instance : Flat ℚ := ⟨fun q => [showRat q]⟩
instance : Flat Bool := ⟨fun b => [if b then "T" else "F"]⟩
instance : Flat Unit := ⟨fun _ => []⟩
instance {n} : Flat (Vec n ℚ) := ⟨fun v => (List.finRange n).map (fun i => showRat (v i))⟩
instance {n m} : Flat (Mat n m ℚ) :=
  ⟨fun v => (List.finRange n).flatMap (fun i => (List.finRange m).map (fun j => showRat (v i j)))⟩
instance {α β} [Flat α] [Flat β] : Flat (α × β) := ⟨fun p => Flat.flat p.1 ++ Flat.flat p.2⟩

def Err.name : Err → String
  | .ValueError => "ValueError" | .TypeError => "TypeError" | .IndexError => "IndexError"
  | .AssertionError => "AssertionError" | .AttributeError => "AttributeError"
  | .NameError => "NameError" | .ZeroDivisionError => "ZeroDivisionError" | .Other => "Other"

def Flat.show {α} [Flat α] : Outcome α → String
  | .ok a => "ok " ++ " ".intercalate (Flat.flat a)
  | .raised e => "raised " ++ e.name
  | .none => "none"

/-- Arbitrary computable stand-ins for the primitives.  They have no mathematical meaning; the
Python IR evaluator (`smv.ir.PseudoPrims`) uses the same formulas, so literal equality of the
two evaluations checks that the emitted Lean text denotes the IR the tracer produced. -/
def pseudoPrims : Prims ℚ where
  pi := 22 / 7
  sqrt x := (x + 1) / 2
  sin x := x / (1 + x * x)
  cos x := (1 - x * x) / (1 + x * x)
  tan x := x / 3
  acos x := 1 - x
  asin x := x / 2
  atan x := x / (2 + x * x)
  atan2 y x := (y - x) / (1 + x * x + y * y)
  floor x := (⌊x⌋ : ℤ)

end SmVerif
