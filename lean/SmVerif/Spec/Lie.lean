/-
  Spec.Lie — so(3)/se(3) vector <-> matrix maps, the adjoint of a rigid motion and its laws.
-/
import SmVerif.Spec.SO3Facts

namespace SmVerif.Spec
open SmVerif Matrix
variable {R : Type} [CommRing R]

def madd {n m : Nat} (A B : Mat n m R) : Mat n m R := fun i j => A i j + B i j
def zero33 : Mat 3 3 R := fun _ _ => 0
theorem madd_eq {n m : Nat} (A B : Mat n m R) : madd A B = toM A + toM B := rfl

/-- 6×6 matrix from four 3×3 blocks -/
def blk (A B C D : Mat 3 3 R) : Mat 6 6 R :=
  v6 (v6 (A 0 0) (A 0 1) (A 0 2) (B 0 0) (B 0 1) (B 0 2))
     (v6 (A 1 0) (A 1 1) (A 1 2) (B 1 0) (B 1 1) (B 1 2))
     (v6 (A 2 0) (A 2 1) (A 2 2) (B 2 0) (B 2 1) (B 2 2))
     (v6 (C 0 0) (C 0 1) (C 0 2) (D 0 0) (D 0 1) (D 0 2))
     (v6 (C 1 0) (C 1 1) (C 1 2) (D 1 0) (D 1 1) (D 1 2))
     (v6 (C 2 0) (C 2 1) (C 2 2) (D 2 0) (D 2 1) (D 2 2))

set_option maxHeartbeats 2000000 in
theorem blk_mul (A B C D A' B' C' D' : Mat 3 3 R) :
    mmul (blk A B C D) (blk A' B' C' D') =
      blk (madd (mmul A A') (mmul B C')) (madd (mmul A B') (mmul B D'))
          (madd (mmul C A') (mmul D C')) (madd (mmul C B') (mmul D D')) := by
  apply Mat.ext66 <;> apply Vec.ext6 <;>
    simp [mmul, madd, blk, Fin.sum_univ_six, Fin.sum_univ_three] <;> ring

theorem blk_ext {A B C D A' B' C' D' : Mat 3 3 R} (ha : A = A') (hb : B = B') (hc : C = C') (hd : D = D') :
    blk A B C D = blk A' B' C' D' := by rw [ha, hb, hc, hd]

/-- adjoint of a homogeneous matrix: [R, skew(t)R; 0, R] -/
def Ad (T : Mat 4 4 R) : Mat 6 6 R :=
  blk (rotOf3 T) (mmul (skew3 (trOf3 T)) (rotOf3 T)) zero33 (rotOf3 T)

def one6 : Mat 6 6 R := blk one3 zero33 zero33 one3

theorem skew3_add (a b : Vec 3 R) : skew3 (fun i => a i + b i) = madd (skew3 a) (skew3 b) := by
  apply Mat.ext33' <;> simp [skew3, madd] <;> ring

theorem mmul_zero33 (A : Mat 3 3 R) : mmul A zero33 = zero33 := by
  apply Mat.ext33' <;> simp [mmul, zero33]
theorem zero33_mmul (A : Mat 3 3 R) : mmul zero33 A = zero33 := by
  apply Mat.ext33' <;> simp [mmul, zero33]
theorem madd_zero33 (A : Mat 3 3 R) : madd A zero33 = A := by
  apply Mat.ext33' <;> simp [madd, zero33]
theorem zero33_madd (A : Mat 3 3 R) : madd zero33 A = A := by
  apply Mat.ext33' <;> simp [madd, zero33]
theorem madd_mmul (A B C : Mat 3 3 R) : mmul (madd A B) C = madd (mmul A C) (mmul B C) := by
  funext i j; simp [mmul, madd, add_mul, Finset.sum_add_distrib]
theorem madd_comm (A B : Mat 3 3 R) : madd A B = madd B A := by
  funext i j; simp [madd, add_comm]

/-- Ad is a homomorphism on rigid motions (needs only that the first rotation block is special orthogonal) -/
theorem Ad_mul (M N : Mat 3 3 R) (s t : Vec 3 R) (hM : IsSO3 M) :
    Ad (mmul (rt3 M s) (rt3 N t)) = mmul (Ad (rt3 M s)) (Ad (rt3 N t)) := by
  rw [rt3_mul]
  simp only [Ad, rotOf3_rt3, trOf3_rt3]
  rw [blk_mul]
  apply blk_ext
  · rw [mmul_zero33, madd_zero33]
  · rw [skew3_add, madd_mmul, ← mmul_assoc (skew3 (mvec M t)), skew_rot hM, mmul_assoc, ← mmul_assoc (skew3 s)]
  · rw [mmul_zero33, madd_zero33, zero33_mmul]
  · rw [zero33_mmul, zero33_madd]

theorem Ad_mul_SE3 {A B : Mat 4 4 R} (ha : IsSE3 A) (hb : IsSE3 B) :
    Ad (mmul A B) = mmul (Ad A) (Ad B) := by
  rw [ha.eq_rt3, hb.eq_rt3]; exact Ad_mul _ _ _ _ ha.rot

theorem Ad_one : Ad (one4 : Mat 4 4 R) = one6 := by
  apply Mat.ext66 <;> apply Vec.ext6 <;>
    simp [Ad, blk, one6, one4, one3, zero33, rotOf3, trOf3, skew3, mmul, Fin.sum_univ_three]

/-- Ad(T⁻¹) is the two-sided inverse of Ad(T) -/
theorem Ad_inv {A : Mat 4 4 R} (ha : IsSE3 A) :
    mmul (Ad (seInv3 A)) (Ad A) = one6 ∧ mmul (Ad A) (Ad (seInv3 A)) = one6 := by
  constructor
  · rw [← Ad_mul_SE3 ha.inv ha, seInv3_mul ha, Ad_one]
  · rw [← Ad_mul_SE3 ha ha.inv, mul_seInv3 ha, Ad_one]

/-! ### conjugation of an se(3) element by a rigid motion -/

/-- 4×4 matrix [K v; 0 0] (an element of se(3) when K is skew) -/
def alg4 (K : Mat 3 3 R) (v : Vec 3 R) : Mat 4 4 R :=
  v4 (v4 (K 0 0) (K 0 1) (K 0 2) (v 0)) (v4 (K 1 0) (K 1 1) (K 1 2) (v 1)) (v4 (K 2 0) (K 2 1) (K 2 2) (v 2)) (v4 0 0 0 0)

theorem rt3_mul_alg4 (M K : Mat 3 3 R) (t v : Vec 3 R) :
    mmul (rt3 M t) (alg4 K v) = alg4 (mmul M K) (mvec M v) := by
  apply Mat.ext44' <;> simp [mmul, mvec, rt3, alg4, Fin.sum_univ_four, Fin.sum_univ_three]

theorem alg4_mul_rt3 (K N : Mat 3 3 R) (v s : Vec 3 R) :
    mmul (alg4 K v) (rt3 N s) = alg4 (mmul K N) (fun i => mvec K s i + v i) := by
  apply Mat.ext44' <;> simp [mmul, mvec, rt3, alg4, Fin.sum_univ_four, Fin.sum_univ_three]

/-- M·skew(w)·Mᵀ = skew(M w) for a rotation M -/
theorem conj_skew {M : Mat 3 3 R} (h : IsSO3 M) (w : Vec 3 R) :
    mmul (mmul M (skew3 w)) (mT M) = skew3 (mvec M w) := by
  rw [← skew_rot h, mmul_assoc, h.orth, mmul_one3]

theorem skew3_mvec (a t : Vec 3 R) : mvec (skew3 a) t = fun i => -(mvec (skew3 t) a i) := by
  apply Vec.ext3 <;> simp [mvec, skew3, Fin.sum_univ_three] <;> ring

theorem mvec_mmul {n k m : Nat} (A : Mat n k R) (B : Mat k m R) (v : Vec m R) :
    mvec (mmul A B) v = mvec A (mvec B v) := by
  show (toM A * toM B).mulVec v = (toM A).mulVec ((toM B).mulVec v)
  rw [Matrix.mulVec_mulVec]

theorem mvec_neg {n k : Nat} (A : Mat n k R) (v : Vec k R) :
    mvec A (fun i => -(v i)) = fun i => -(mvec A v i) := by
  funext i; simp [mvec, Finset.sum_neg_distrib]

/-- T [S] T⁻¹ for T = (M, t) ∈ SE(3) and [S] = [skew(w) v; 0 0] -/
theorem conj_alg4 {M : Mat 3 3 R} (h : IsSO3 M) (t v w : Vec 3 R) :
    mmul (mmul (rt3 M t) (alg4 (skew3 w) v)) (seInv3 (rt3 M t)) =
      alg4 (skew3 (mvec M w)) (fun i => mvec M v i + mvec (skew3 t) (mvec M w) i) := by
  rw [rt3_mul_alg4, seInv3, rotOf3_rt3, trOf3_rt3, alg4_mul_rt3, conj_skew h]
  congr 1
  funext i
  have key : mvec (mmul M (skew3 w)) (mvec (mT M) t) = mvec (skew3 (mvec M w)) t := by
    rw [← mvec_mmul, conj_skew h]
  rw [mvec_neg, key, skew3_mvec]
  simp; ring

end SmVerif.Spec
