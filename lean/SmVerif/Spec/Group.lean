/-
  Spec.Group — SO(2), SO(3), SE(2), SE(3) as predicates on explicit matrices, and their closure
  laws.  `Mat n m R` is definitionally `Matrix (Fin n) (Fin m) R`, so Mathlib's matrix algebra
  is used for the general facts (associativity, determinant of a product, transposes).
-/
import SmVerif.Lin
import SmVerif.Tactics
import Mathlib.LinearAlgebra.Matrix.Determinant.Basic
import Mathlib.LinearAlgebra.Matrix.NonsingularInverse
import Mathlib.Data.Matrix.Basic

namespace SmVerif.Spec
open SmVerif Matrix
variable {R : Type} [CommRing R]

/-- view as a Mathlib matrix -/
abbrev toM {n m : Nat} (A : Mat n m R) : Matrix (Fin n) (Fin m) R := A

theorem mmul_eq {n k m : Nat} (A : Mat n k R) (B : Mat k m R) : mmul A B = toM A * toM B := rfl
theorem mT_eq {n m : Nat} (A : Mat n m R) : mT A = (toM A)ᵀ := rfl
theorem mvec_eq {n k : Nat} (A : Mat n k R) (v : Vec k R) : mvec A v = (toM A).mulVec v := rfl
theorem one2_eq : (one2 : Mat 2 2 R) = (1 : Matrix (Fin 2) (Fin 2) R) := by
  apply Mat.ext22' <;> simp [one2]
theorem one3_eq : (one3 : Mat 3 3 R) = (1 : Matrix (Fin 3) (Fin 3) R) := by
  apply Mat.ext33' <;> simp [one3]
theorem one4_eq : (one4 : Mat 4 4 R) = (1 : Matrix (Fin 4) (Fin 4) R) := by
  apply Mat.ext44' <;> simp [one4]
theorem det2_eq (A : Mat 2 2 R) : det2 A = (toM A).det := by
  rw [Matrix.det_fin_two]; rfl
theorem det3_eq (A : Mat 3 3 R) : det3 A = (toM A).det := by
  rw [Matrix.det_fin_three]; simp only [det3]; ring

theorem mmul_assoc {n k l m : Nat} (A : Mat n k R) (B : Mat k l R) (C : Mat l m R) :
    mmul (mmul A B) C = mmul A (mmul B C) := by
  show toM A * toM B * toM C = toM A * (toM B * toM C)
  exact Matrix.mul_assoc _ _ _

theorem mmul_one3 (A : Mat 3 3 R) : mmul A one3 = A := by rw [mmul_eq, one3_eq]; exact Matrix.mul_one _
theorem one3_mmul (A : Mat 3 3 R) : mmul one3 A = A := by rw [mmul_eq, one3_eq]; exact Matrix.one_mul _
theorem mmul_one4 (A : Mat 4 4 R) : mmul A one4 = A := by rw [mmul_eq, one4_eq]; exact Matrix.mul_one _
theorem one4_mmul (A : Mat 4 4 R) : mmul one4 A = A := by rw [mmul_eq, one4_eq]; exact Matrix.one_mul _
theorem mmul_one2 (A : Mat 2 2 R) : mmul A one2 = A := by rw [mmul_eq, one2_eq]; exact Matrix.mul_one _
theorem one2_mmul (A : Mat 2 2 R) : mmul one2 A = A := by rw [mmul_eq, one2_eq]; exact Matrix.one_mul _

/-! ### SO(n) -/

theorem _root_.SmVerif.IsSO3.one : IsSO3 (one3 : Mat 3 3 R) := by
  constructor
  · apply Mat.ext33' <;> simp [mmul, mT, one3, Fin.sum_univ_three]
  · simp [det3, one3]

theorem _root_.SmVerif.IsSO3.transpose_mul {M : Mat 3 3 R} (h : IsSO3 M) : mmul (mT M) M = one3 := by
  have h1 := h.orth; rw [mmul_eq, mT_eq, one3_eq] at h1
  rw [mmul_eq, mT_eq, one3_eq]; exact (mul_eq_one_comm (M := Matrix (Fin 3) (Fin 3) R)).mp h1

theorem _root_.SmVerif.IsSO3.mul {A B : Mat 3 3 R} (ha : IsSO3 A) (hb : IsSO3 B) : IsSO3 (mmul A B) := by
  constructor
  · have h1 := ha.orth; have h2 := hb.orth
    rw [mmul_eq, mT_eq, one3_eq] at h1 h2
    rw [mmul_eq, mT_eq, one3_eq, mmul_eq]
    show (toM A * toM B) * (toM A * toM B)ᵀ = 1
    rw [Matrix.transpose_mul, Matrix.mul_assoc, ← Matrix.mul_assoc (toM B), h2, Matrix.one_mul, h1]
  · rw [det3_eq, mmul_eq]; show (toM A * toM B).det = 1
    rw [Matrix.det_mul, ← det3_eq, ← det3_eq, ha.det, hb.det, one_mul]

theorem _root_.SmVerif.IsSO3.transpose {A : Mat 3 3 R} (ha : IsSO3 A) : IsSO3 (mT A) := by
  constructor
  · exact ha.transpose_mul
  · rw [det3_eq, mT_eq]; show (toM A)ᵀ.det = 1; rw [Matrix.det_transpose, ← det3_eq, ha.det]

theorem _root_.SmVerif.IsSO2.one : IsSO2 (one2 : Mat 2 2 R) := by
  constructor
  · apply Mat.ext22' <;> simp [mmul, mT, one2, Fin.sum_univ_two]
  · simp [det2, one2]

theorem _root_.SmVerif.IsSO2.transpose_mul {M : Mat 2 2 R} (h : IsSO2 M) : mmul (mT M) M = one2 := by
  have h1 := h.orth; rw [mmul_eq, mT_eq, one2_eq] at h1
  rw [mmul_eq, mT_eq, one2_eq]; exact (mul_eq_one_comm (M := Matrix (Fin 2) (Fin 2) R)).mp h1

theorem _root_.SmVerif.IsSO2.mul {A B : Mat 2 2 R} (ha : IsSO2 A) (hb : IsSO2 B) : IsSO2 (mmul A B) := by
  constructor
  · have h1 := ha.orth; have h2 := hb.orth
    rw [mmul_eq, mT_eq, one2_eq] at h1 h2
    rw [mmul_eq, mT_eq, one2_eq, mmul_eq]
    show (toM A * toM B) * (toM A * toM B)ᵀ = 1
    rw [Matrix.transpose_mul, Matrix.mul_assoc, ← Matrix.mul_assoc (toM B), h2, Matrix.one_mul, h1]
  · rw [det2_eq, mmul_eq]; show (toM A * toM B).det = 1
    rw [Matrix.det_mul, ← det2_eq, ← det2_eq, ha.det, hb.det, one_mul]

theorem _root_.SmVerif.IsSO2.transpose {A : Mat 2 2 R} (ha : IsSO2 A) : IsSO2 (mT A) := by
  constructor
  · exact ha.transpose_mul
  · rw [det2_eq, mT_eq]; show (toM A)ᵀ.det = 1; rw [Matrix.det_transpose, ← det2_eq, ha.det]

/-! ### SE(3): structure of products and the structured inverse -/

/-- a homogeneous matrix with last row [0 0 0 1] is `rt3 R t` -/
theorem eq_rt3 {T : Mat 4 4 R} (h0 : T 3 0 = 0) (h1 : T 3 1 = 0) (h2 : T 3 2 = 0) (h3 : T 3 3 = 1) :
    T = rt3 (rotOf3 T) (trOf3 T) := by
  apply Mat.ext44' <;> simp [rt3, rotOf3, trOf3, h0, h1, h2, h3]

theorem _root_.SmVerif.IsSE3.eq_rt3 {T : Mat 4 4 R} (h : IsSE3 T) : T = rt3 (rotOf3 T) (trOf3 T) :=
  Spec.eq_rt3 h.r0 h.r1 h.r2 h.r3

theorem rotOf3_rt3 (M : Mat 3 3 R) (t : Vec 3 R) : rotOf3 (rt3 M t) = M := by
  apply Mat.ext33' <;> simp [rt3, rotOf3]
theorem trOf3_rt3 (M : Mat 3 3 R) (t : Vec 3 R) : trOf3 (rt3 M t) = t := by
  apply Vec.ext3 <;> simp [rt3, trOf3]

theorem isSE3_rt3 {M : Mat 3 3 R} (t : Vec 3 R) (h : IsSO3 M) : IsSE3 (rt3 M t) := by
  refine ⟨by rw [rotOf3_rt3]; exact h, ?_, ?_, ?_, ?_⟩ <;> simp [rt3]

/-- product of two homogeneous matrices: rotation R₁R₂, translation R₁t₂ + t₁ -/
theorem rt3_mul (M N : Mat 3 3 R) (s t : Vec 3 R) :
    mmul (rt3 M s) (rt3 N t) = rt3 (mmul M N) (fun i => mvec M t i + s i) := by
  apply Mat.ext44' <;> simp [mmul, mvec, rt3, Fin.sum_univ_four, Fin.sum_univ_three]

theorem _root_.SmVerif.IsSE3.mul {A B : Mat 4 4 R} (ha : IsSE3 A) (hb : IsSE3 B) : IsSE3 (mmul A B) := by
  rw [ha.eq_rt3, hb.eq_rt3, rt3_mul]
  exact isSE3_rt3 _ (ha.rot.mul hb.rot)

theorem _root_.SmVerif.IsSE3.one : IsSE3 (one4 : Mat 4 4 R) := by
  refine ⟨?_, by simp [one4], by simp [one4], by simp [one4], by simp [one4]⟩
  have : rotOf3 (one4 : Mat 4 4 R) = one3 := by apply Mat.ext33' <;> simp [rotOf3, one4, one3]
  rw [this]; exact IsSO3.one

/-- the structured inverse [Rᵀ, −Rᵀt] -/
def seInv3 (T : Mat 4 4 R) : Mat 4 4 R := rt3 (mT (rotOf3 T)) (fun i => -(mvec (mT (rotOf3 T)) (trOf3 T) i))

theorem _root_.SmVerif.IsSE3.inv {A : Mat 4 4 R} (ha : IsSE3 A) : IsSE3 (seInv3 A) := isSE3_rt3 _ ha.rot.transpose

theorem seInv3_mul {A : Mat 4 4 R} (ha : IsSE3 A) : mmul (seInv3 A) A = one4 := by
  have hR := ha.rot.transpose_mul
  conv_lhs => rw [ha.eq_rt3]
  rw [seInv3, rotOf3_rt3, trOf3_rt3, rt3_mul, hR]
  apply Mat.ext44' <;> simp [rt3, one3, one4]

theorem mul_seInv3 {A : Mat 4 4 R} (ha : IsSE3 A) : mmul A (seInv3 A) = one4 := by
  have h := seInv3_mul ha
  rw [mmul_eq, one4_eq] at h ⊢
  exact (mul_eq_one_comm (M := Matrix (Fin 4) (Fin 4) R)).mp h

/-! ### SE(2) -/

theorem eq_rt2 {T : Mat 3 3 R} (h0 : T 2 0 = 0) (h1 : T 2 1 = 0) (h2 : T 2 2 = 1) :
    T = rt2 (rotOf2 T) (trOf2 T) := by
  apply Mat.ext33' <;> simp [rt2, rotOf2, trOf2, h0, h1, h2]
theorem _root_.SmVerif.IsSE2.eq_rt2 {T : Mat 3 3 R} (h : IsSE2 T) : T = rt2 (rotOf2 T) (trOf2 T) :=
  Spec.eq_rt2 h.r0 h.r1 h.r2
theorem rotOf2_rt2 (M : Mat 2 2 R) (t : Vec 2 R) : rotOf2 (rt2 M t) = M := by
  apply Mat.ext22' <;> simp [rt2, rotOf2]
theorem trOf2_rt2 (M : Mat 2 2 R) (t : Vec 2 R) : trOf2 (rt2 M t) = t := by
  apply Vec.ext2 <;> simp [rt2, trOf2]
theorem isSE2_rt2 {M : Mat 2 2 R} (t : Vec 2 R) (h : IsSO2 M) : IsSE2 (rt2 M t) := by
  refine ⟨by rw [rotOf2_rt2]; exact h, ?_, ?_, ?_⟩ <;> simp [rt2]
theorem rt2_mul (M N : Mat 2 2 R) (s t : Vec 2 R) :
    mmul (rt2 M s) (rt2 N t) = rt2 (mmul M N) (fun i => mvec M t i + s i) := by
  apply Mat.ext33' <;> simp [mmul, mvec, rt2, Fin.sum_univ_three, Fin.sum_univ_two]
theorem _root_.SmVerif.IsSE2.mul {A B : Mat 3 3 R} (ha : IsSE2 A) (hb : IsSE2 B) : IsSE2 (mmul A B) := by
  rw [ha.eq_rt2, hb.eq_rt2, rt2_mul]
  exact isSE2_rt2 _ (ha.rot.mul hb.rot)
theorem _root_.SmVerif.IsSE2.one : IsSE2 (one3 : Mat 3 3 R) := by
  refine ⟨?_, by simp [one3], by simp [one3], by simp [one3]⟩
  have : rotOf2 (one3 : Mat 3 3 R) = one2 := by apply Mat.ext22' <;> simp [rotOf2, one3, one2]
  rw [this]; exact IsSO2.one
def seInv2 (T : Mat 3 3 R) : Mat 3 3 R := rt2 (mT (rotOf2 T)) (fun i => -(mvec (mT (rotOf2 T)) (trOf2 T) i))
theorem _root_.SmVerif.IsSE2.inv {A : Mat 3 3 R} (ha : IsSE2 A) : IsSE2 (seInv2 A) := isSE2_rt2 _ ha.rot.transpose
theorem seInv2_mul {A : Mat 3 3 R} (ha : IsSE2 A) : mmul (seInv2 A) A = one3 := by
  have hR := ha.rot.transpose_mul
  conv_lhs => rw [ha.eq_rt2]
  rw [seInv2, rotOf2_rt2, trOf2_rt2, rt2_mul, hR]
  apply Mat.ext33' <;> simp [rt2, one2, one3]
theorem mul_seInv2 {A : Mat 3 3 R} (ha : IsSE2 A) : mmul A (seInv2 A) = one3 := by
  have h := seInv2_mul ha
  rw [mmul_eq, one3_eq] at h ⊢
  exact (mul_eq_one_comm (M := Matrix (Fin 3) (Fin 3) R)).mp h

/-! ### elementary rotations from any (c, s) with c² + s² = 1 -/

def rotx (c s : R) : Mat 3 3 R := v3 (v3 1 0 0) (v3 0 c (-s)) (v3 0 s c)
def roty (c s : R) : Mat 3 3 R := v3 (v3 c 0 s) (v3 0 1 0) (v3 (-s) 0 c)
def rotz (c s : R) : Mat 3 3 R := v3 (v3 c (-s) 0) (v3 s c 0) (v3 0 0 1)
def rot2 (c s : R) : Mat 2 2 R := v2 (v2 c (-s)) (v2 s c)

theorem rotx_SO3 (c s : R) (h : c * c + s * s = 1) : IsSO3 (rotx c s) := by
  constructor
  · apply Mat.ext33' <;> simp [mmul, mT, rotx, one3, Fin.sum_univ_three] <;> first | ring1 | linear_combination h
  · simp [det3, rotx]; linear_combination h
theorem roty_SO3 (c s : R) (h : c * c + s * s = 1) : IsSO3 (roty c s) := by
  constructor
  · apply Mat.ext33' <;> simp [mmul, mT, roty, one3, Fin.sum_univ_three] <;> first | ring1 | linear_combination h
  · simp [det3, roty]; linear_combination h
theorem rotz_SO3 (c s : R) (h : c * c + s * s = 1) : IsSO3 (rotz c s) := by
  constructor
  · apply Mat.ext33' <;> simp [mmul, mT, rotz, one3, Fin.sum_univ_three] <;> first | ring1 | linear_combination h
  · simp [det3, rotz]; linear_combination h
theorem rot2_SO2 (c s : R) (h : c * c + s * s = 1) : IsSO2 (rot2 c s) := by
  constructor
  · apply Mat.ext22' <;> simp [mmul, mT, rot2, one2, Fin.sum_univ_two] <;> first | ring1 | linear_combination h
  · simp [det2, rot2]; linear_combination h

end SmVerif.Spec
