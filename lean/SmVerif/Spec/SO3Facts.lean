/-
  Spec.SO3Facts — consequences of R·Rᵀ = 1, det R = 1 for 3×3 matrices over a commutative ring:
  the cofactor relations (R equals its own cofactor matrix), R·skew(t)·Rᵀ = skew(R t), and the
  identities behind exp∘log on SO(3).
-/
import SmVerif.Spec.Group
import Mathlib.LinearAlgebra.Matrix.Adjugate
import Mathlib.LinearAlgebra.Matrix.Trace

namespace SmVerif.Spec
open SmVerif Matrix
variable {R : Type} [CommRing R]

/-- for a special orthogonal matrix the adjugate is the transpose -/
theorem adjugate_eq_transpose_of_SO (M : Matrix (Fin 3) (Fin 3) R) (h : M * Mᵀ = 1) (hd : M.det = 1) :
    adjugate M = Mᵀ := by
  have h2 : Mᵀ * M = 1 := (mul_eq_one_comm (M := Matrix (Fin 3) (Fin 3) R)).mp h
  have := mul_adjugate M
  rw [hd, one_smul] at this
  calc adjugate M = (Mᵀ * M) * adjugate M := by rw [h2, Matrix.one_mul]
    _ = Mᵀ * (M * adjugate M) := by rw [Matrix.mul_assoc]
    _ = Mᵀ := by rw [this, Matrix.mul_one]

/-- the nine cofactor relations of a special orthogonal matrix: each entry equals its cofactor -/
structure Cof (M : Mat 3 3 R) : Prop where
  c00 : M 0 0 = M 1 1 * M 2 2 - M 1 2 * M 2 1
  c01 : M 0 1 = M 1 2 * M 2 0 - M 1 0 * M 2 2
  c02 : M 0 2 = M 1 0 * M 2 1 - M 1 1 * M 2 0
  c10 : M 1 0 = M 0 2 * M 2 1 - M 0 1 * M 2 2
  c11 : M 1 1 = M 0 0 * M 2 2 - M 0 2 * M 2 0
  c12 : M 1 2 = M 0 1 * M 2 0 - M 0 0 * M 2 1
  c20 : M 2 0 = M 0 1 * M 1 2 - M 0 2 * M 1 1
  c21 : M 2 1 = M 0 2 * M 1 0 - M 0 0 * M 1 2
  c22 : M 2 2 = M 0 0 * M 1 1 - M 0 1 * M 1 0

theorem _root_.SmVerif.IsSO3.cof {M : Mat 3 3 R} (h : IsSO3 M) : Cof M := by
  have h1 := h.orth; rw [mmul_eq, mT_eq, one3_eq] at h1
  have hd : (toM M).det = 1 := by rw [← det3_eq]; exact h.det
  have ha := adjugate_eq_transpose_of_SO (toM M) h1 hd
  rw [adjugate_fin_three] at ha
  have e := fun i j => congrFun (congrFun ha i) j
  constructor
  · have := e 0 0; simp [Matrix.transpose_apply] at this; first | linear_combination this | linear_combination -this
  · have := e 1 0; simp [Matrix.transpose_apply] at this; first | linear_combination this | linear_combination -this
  · have := e 2 0; simp [Matrix.transpose_apply] at this; first | linear_combination this | linear_combination -this
  · have := e 0 1; simp [Matrix.transpose_apply] at this; first | linear_combination this | linear_combination -this
  · have := e 1 1; simp [Matrix.transpose_apply] at this; first | linear_combination this | linear_combination -this
  · have := e 2 1; simp [Matrix.transpose_apply] at this; first | linear_combination this | linear_combination -this
  · have := e 0 2; simp [Matrix.transpose_apply] at this; first | linear_combination this | linear_combination -this
  · have := e 1 2; simp [Matrix.transpose_apply] at this; first | linear_combination this | linear_combination -this
  · have := e 2 2; simp [Matrix.transpose_apply] at this; first | linear_combination this | linear_combination -this

/-- a rotation maps cross products to cross products: skew(M t)·M = M·skew(t) -/
theorem skew_rot {M : Mat 3 3 R} (h : IsSO3 M) (t : Vec 3 R) :
    mmul (skew3 (mvec M t)) M = mmul M (skew3 t) := by
  obtain ⟨c00, c01, c02, c10, c11, c12, c20, c21, c22⟩ := h.cof
  apply Mat.ext33' <;> simp [mmul, mvec, skew3, Fin.sum_univ_three]
  · linear_combination (t 1) * c02 - (t 2) * c01
  · linear_combination (t 2) * c00 - (t 0) * c02
  · linear_combination (t 0) * c01 - (t 1) * c00
  · linear_combination (t 1) * c12 - (t 2) * c11
  · linear_combination (t 2) * c10 - (t 0) * c12
  · linear_combination (t 0) * c11 - (t 1) * c10
  · linear_combination (t 1) * c22 - (t 2) * c21
  · linear_combination (t 2) * c20 - (t 0) * c22
  · linear_combination (t 0) * c21 - (t 1) * c20

end SmVerif.Spec
