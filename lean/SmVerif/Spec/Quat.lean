/-
  Spec.Quat — quaternions as 4-vectors (s, x, y, z), the readable mathematics against which
  the generated code is compared.  Everything here is over an arbitrary commutative ring.
-/
import SmVerif.Lin
import Mathlib.Tactic.Ring
import Mathlib.Tactic.FinCases
import Mathlib.Tactic.LinearCombination
import Mathlib.Algebra.BigOperators.Fin

namespace SmVerif.Spec
variable {R : Type} [CommRing R]

/-- Hamilton product -/
def qmul (a b : Vec 4 R) : Vec 4 R :=
  (v4 (a 0 * b 0 - a 1 * b 1 - a 2 * b 2 - a 3 * b 3) (a 0 * b 1 + a 1 * b 0 + a 2 * b 3 - a 3 * b 2) (a 0 * b 2 - a 1 * b 3 + a 2 * b 0 + a 3 * b 1) (a 0 * b 3 + a 1 * b 2 - a 2 * b 1 + a 3 * b 0))

def qconj (a : Vec 4 R) : Vec 4 R := (v4 (a 0) (-a 1) (-a 2) (-a 3))
def qone : Vec 4 R := (v4 1 0 0 0)
def qpure (v : Vec 3 R) : Vec 4 R := (v4 0 (v 0) (v 1) (v 2))
def qvec (a : Vec 4 R) : Vec 3 R := (v3 (a 1) (a 2) (a 3))
def qnormsq (a : Vec 4 R) : R := a 0 * a 0 + a 1 * a 1 + a 2 * a 2 + a 3 * a 3
def qinner (a b : Vec 4 R) : R := a 0 * b 0 + a 1 * b 1 + a 2 * b 2 + a 3 * b 3
def qadd (a b : Vec 4 R) : Vec 4 R := fun i => a i + b i
def qsmul (k : R) (a : Vec 4 R) : Vec 4 R := fun i => k * a i

/-- n-fold product (left fold, as `qpow` does: qr := qr * q starting from 1) -/
def qnpow (q : Vec 4 R) : Nat → Vec 4 R
  | 0 => qone
  | n + 1 => qmul (qnpow q n) q

/-- integer power: a negative power is the conjugate of the positive one -/
def qzpow (q : Vec 4 R) : Int → Vec 4 R
  | .ofNat n => qnpow q n
  | .negSucc n => qconj (qnpow q (n + 1))

/-- 4×4 matrix of left multiplication -/
def qmatrix (q : Vec 4 R) : Mat 4 4 R :=
  (v4 ((v4 (q 0) (-q 1) (-q 2) (-q 3))) ((v4 (q 1) (q 0) (-q 3) (q 2))) ((v4 (q 2) (q 3) (q 0) (-q 1))) ((v4 (q 3) (-q 2) (q 1) (q 0))))


/-- rotation matrix of a (unit) quaternion -/
def q2r (q : Vec 4 R) : Mat 3 3 R :=
  (v3 ((v3 (1 - 2 * (q 2 ^ 2 + q 3 ^ 2)) (2 * (q 1 * q 2 - q 0 * q 3)) (2 * (q 1 * q 3 + q 0 * q 2)))) ((v3 (2 * (q 1 * q 2 + q 0 * q 3)) (1 - 2 * (q 1 ^ 2 + q 3 ^ 2)) (2 * (q 2 * q 3 - q 0 * q 1)))) ((v3 (2 * (q 1 * q 3 - q 0 * q 2)) (2 * (q 2 * q 3 + q 0 * q 1)) (1 - 2 * (q 1 ^ 2 + q 2 ^ 2)))))

/-- sandwich product q v q* restricted to the vector part -/
def qvmul (q : Vec 4 R) (v : Vec 3 R) : Vec 3 R := qvec (qmul q (qmul (qpure v) (qconj q)))

@[simp] theorem qmul_0 (a b : Vec 4 R) : qmul a b 0 = a 0 * b 0 - a 1 * b 1 - a 2 * b 2 - a 3 * b 3 := rfl
@[simp] theorem qmul_1 (a b : Vec 4 R) : qmul a b 1 = a 0 * b 1 + a 1 * b 0 + a 2 * b 3 - a 3 * b 2 := rfl
@[simp] theorem qmul_2 (a b : Vec 4 R) : qmul a b 2 = a 0 * b 2 - a 1 * b 3 + a 2 * b 0 + a 3 * b 1 := rfl
@[simp] theorem qmul_3 (a b : Vec 4 R) : qmul a b 3 = a 0 * b 3 + a 1 * b 2 - a 2 * b 1 + a 3 * b 0 := rfl
@[simp] theorem qconj_0 (a : Vec 4 R) : qconj a 0 = a 0 := rfl
@[simp] theorem qconj_1 (a : Vec 4 R) : qconj a 1 = -a 1 := rfl
@[simp] theorem qconj_2 (a : Vec 4 R) : qconj a 2 = -a 2 := rfl
@[simp] theorem qconj_3 (a : Vec 4 R) : qconj a 3 = -a 3 := rfl
@[simp] theorem qone_0 : (qone : Vec 4 R) 0 = 1 := rfl
@[simp] theorem qone_1 : (qone : Vec 4 R) 1 = 0 := rfl
@[simp] theorem qone_2 : (qone : Vec 4 R) 2 = 0 := rfl
@[simp] theorem qone_3 : (qone : Vec 4 R) 3 = 0 := rfl

theorem qmul_assoc (a b c : Vec 4 R) : qmul (qmul a b) c = qmul a (qmul b c) := by
  apply Vec.ext4 <;> simp only [qmul_0, qmul_1, qmul_2, qmul_3] <;> ring

theorem qmul_one (a : Vec 4 R) : qmul a qone = a := by
  apply Vec.ext4 <;> simp
theorem one_qmul (a : Vec 4 R) : qmul qone a = a := by
  apply Vec.ext4 <;> simp

theorem qmul_add (a b c : Vec 4 R) : qmul a (qadd b c) = qadd (qmul a b) (qmul a c) := by
  apply Vec.ext4 <;> simp only [qmul_0, qmul_1, qmul_2, qmul_3, qadd] <;> ring
theorem add_qmul (a b c : Vec 4 R) : qmul (qadd a b) c = qadd (qmul a c) (qmul b c) := by
  apply Vec.ext4 <;> simp only [qmul_0, qmul_1, qmul_2, qmul_3, qadd] <;> ring

theorem qnormsq_mul (a b : Vec 4 R) : qnormsq (qmul a b) = qnormsq a * qnormsq b := by
  simp only [qnormsq, qmul_0, qmul_1, qmul_2, qmul_3]; ring

theorem qconj_mul (a b : Vec 4 R) : qconj (qmul a b) = qmul (qconj b) (qconj a) := by
  apply Vec.ext4 <;> simp <;> ring

theorem qmul_conj (a : Vec 4 R) : qmul a (qconj a) = (v4 (qnormsq a) 0 0 0) := by
  apply Vec.ext4 <;> simp [qnormsq] <;> ring

theorem qconj_conj (a : Vec 4 R) : qconj (qconj a) = a := by
  apply Vec.ext4 <;> simp

theorem qnormsq_conj (a : Vec 4 R) : qnormsq (qconj a) = qnormsq a := by
  simp [qnormsq]

theorem qmatrix_mulVec (a b : Vec 4 R) : mvec (qmatrix a) b = qmul a b := by
  apply Vec.ext4 <;> simp [mvec, qmatrix, Fin.sum_univ_four] <;> ring

theorem qnpow_succ' (q : Vec 4 R) (n : Nat) : qnpow q (n + 1) = qmul q (qnpow q n) := by
  induction n with
  | zero => simp [qnpow, qmul_one, one_qmul]
  | succ k ih => rw [qnpow, ih, qmul_assoc, ← ih]; rfl

theorem qnpow_add (q : Vec 4 R) (m n : Nat) : qnpow q (m + n) = qmul (qnpow q m) (qnpow q n) := by
  induction n with
  | zero => simp [qnpow, qmul_one]
  | succ k ih => rw [← Nat.add_assoc, qnpow, ih, qmul_assoc]; rfl

theorem qnormsq_npow (q : Vec 4 R) (n : Nat) : qnormsq (qnpow q n) = qnormsq q ^ n := by
  induction n with
  | zero => simp [qnpow, qnormsq]
  | succ k ih => rw [qnpow, qnormsq_mul, ih, pow_succ]

/-- for a unit quaternion the negative power is the two-sided inverse of the positive one -/
theorem qzpow_neg_mul (q : Vec 4 R) (h : qnormsq q = 1) (n : Nat) :
    qmul (qnpow q n) (qzpow q (-(n : Int))) = qone := by
  cases n with
  | zero => simp [qzpow, qnpow, qmul_one]
  | succ k =>
    have : (-((k + 1 : Nat) : Int)) = Int.negSucc k := rfl
    rw [this]; simp only [qzpow]
    rw [qmul_conj, qnormsq_npow, h, one_pow]; rfl

/-- universal polynomial identity behind "q2r is a homomorphism": no hypotheses -/
theorem q2r_mul_gen (a b : Vec 4 R) :
    q2r (qmul a b) = fun i j => mmul (q2r a) (q2r b) i j
      + (q2r b i j - one3 i j) * (qnormsq a - 1) + (q2r a i j - one3 i j) * (qnormsq b - 1) := by
  apply Mat.ext33' <;> simp [q2r, mmul, one3, Fin.sum_univ_three, qnormsq] <;> ring

/-- q2r is multiplicative on unit quaternions -/
theorem q2r_mul (a b : Vec 4 R) (ha : qnormsq a = 1) (hb : qnormsq b = 1) :
    q2r (qmul a b) = mmul (q2r a) (q2r b) := by
  rw [q2r_mul_gen, ha, hb]; funext i j; ring

/-- q2r of the conjugate is the transpose -/
theorem q2r_conj (a : Vec 4 R) : q2r (qconj a) = mT (q2r a) := by
  apply Mat.ext33' <;> simp [q2r, mT] <;> ring

/-- double cover: q and -q give the same matrix -/
theorem q2r_neg (a : Vec 4 R) : q2r (fun i => -a i) = q2r a := by
  apply Mat.ext33' <;> simp [q2r]

/-- q2r q · (q2r q)ᵀ = I + 4(|q|²−1)(|v|²I − v vᵀ): orthonormal when |q| = 1 -/
theorem q2r_orth_gen (a : Vec 4 R) :
    mmul (q2r a) (mT (q2r a)) = fun i j => one3 i j + 4 * (qnormsq a - 1) *
      ((v3 ((v3 (a 2 ^ 2 + a 3 ^ 2) (-(a 1 * a 2)) (-(a 1 * a 3)))) ((v3 (-(a 1 * a 2)) (a 1 ^ 2 + a 3 ^ 2) (-(a 2 * a 3)))) ((v3 (-(a 1 * a 3)) (-(a 2 * a 3)) (a 1 ^ 2 + a 2 ^ 2)))) : Mat 3 3 R) i j := by
  apply Mat.ext33' <;> simp [q2r, mmul, mT, one3, Fin.sum_univ_three, qnormsq] <;> ring

theorem q2r_orth (a : Vec 4 R) (h : qnormsq a = 1) : mmul (q2r a) (mT (q2r a)) = one3 := by
  rw [q2r_orth_gen, h]; funext i j; ring

theorem q2r_det_gen (a : Vec 4 R) :
    det3 (q2r a) = 1 + 4 * (a 1 ^ 2 + a 2 ^ 2 + a 3 ^ 2) * (qnormsq a - 1) := by
  simp [q2r, det3, qnormsq]; ring

theorem q2r_SO3 (a : Vec 4 R) (h : qnormsq a = 1) : IsSO3 (q2r a) :=
  ⟨q2r_orth a h, by rw [q2r_det_gen, h]; ring⟩

/-- the sandwich product equals the matrix action (exactly so on the unit sphere) -/
theorem qvmul_eq_gen (q : Vec 4 R) (v : Vec 3 R) :
    qvmul q v = fun i => mvec (q2r q) v i + (qnormsq q - 1) * v i := by
  apply Vec.ext3 <;> simp [qvmul, qvec, qpure, q2r, mvec, Fin.sum_univ_three, qnormsq] <;> ring

theorem qvmul_eq (q : Vec 4 R) (v : Vec 3 R) (h : qnormsq q = 1) : qvmul q v = mvec (q2r q) v := by
  rw [qvmul_eq_gen, h]; funext i; ring

end SmVerif.Spec
