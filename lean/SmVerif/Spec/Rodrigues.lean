/-
  Spec.Rodrigues — Rodrigues' formula R = I + s·K + (1−c)·K², K = skew(w), and the proof that it is
  special orthogonal whenever |w| = 1 and c² + s² = 1 (certificates found by sympy, checked here).
-/
import SmVerif.Spec.Group

namespace SmVerif.Spec
open SmVerif
variable {R : Type} [CommRing R]

def rodM (w : Vec 3 R) (c s : R) : Mat 3 3 R :=
  fun i j => one3 i j + s * skew3 w i j + (1 - c) * mmul (skew3 w) (skew3 w) i j

theorem rodM_SO3 (w : Vec 3 R) (c s : R) (hw : w 0 ^ 2 + w 1 ^ 2 + w 2 ^ 2 = 1)
    (hcs : c * c + s * s = 1) : IsSO3 (rodM w c s) := by
  constructor
  · apply Mat.ext33' <;> simp [rodM, mmul, mT, skew3, one3, Fin.sum_univ_three]
    · linear_combination (w 1^2 + w 2^2 + c^2*w 1^2 + c^2*w 2^2 - 2*c*w 1^2 - 2*c*w 2^2) * hw + (w 1^2 + w 2^2) * hcs
    · linear_combination (-w 0*w 1 - w 0*w 1*c^2 + 2*c*w 0*w 1) * hw + (-w 0*w 1) * hcs
    · linear_combination (-w 0*w 2 - w 0*w 2*c^2 + 2*c*w 0*w 2) * hw + (-w 0*w 2) * hcs
    · linear_combination (-w 0*w 1 - w 0*w 1*c^2 + 2*c*w 0*w 1) * hw + (-w 0*w 1) * hcs
    · linear_combination (-1 + c^2 + s^2 + w 0^2 + w 2^2 + c^2*w 0^2 + c^2*w 2^2 - 2*c*w 0^2 - 2*c*w 2^2) * hw + (1 - w 1^2) * hcs
    · linear_combination (-w 1*w 2 - w 1*w 2*c^2 + 2*c*w 1*w 2) * hw + (-w 1*w 2) * hcs
    · linear_combination (-w 0*w 2 - w 0*w 2*c^2 + 2*c*w 0*w 2) * hw + (-w 0*w 2) * hcs
    · linear_combination (-w 1*w 2 - w 1*w 2*c^2 + 2*c*w 1*w 2) * hw + (-w 1*w 2) * hcs
    · linear_combination (-1 + c^2 + s^2 + w 0^2 + w 1^2 + c^2*w 0^2 + c^2*w 1^2 - 2*c*w 0^2 - 2*c*w 1^2) * hw + (1 - w 2^2) * hcs
  · simp only [det3, rodM]
    simp [mmul, skew3, one3, Fin.sum_univ_three]
    linear_combination (w 0^2 + w 1^2 + w 2^2) * hcs + (w 0^2 + w 1^2 + w 2^2 + c^2*w 0^2 + c^2*w 1^2 + c^2*w 2^2 - 2*c*w 0^2 - 2*c*w 1^2 - 2*c*w 2^2) * hw

/-- rotation by angle 0 is the identity; the axis is kept fixed -/
theorem rodM_axis (w : Vec 3 R) (c s : R) : mvec (rodM w c s) w = w := by
  apply Vec.ext3 <;> simp [rodM, mvec, mmul, skew3, one3, Fin.sum_univ_three] <;> ring

theorem rodM_zero (w : Vec 3 R) : rodM w 1 0 = one3 := by
  apply Mat.ext33' <;> simp [rodM, mmul, skew3, one3, Fin.sum_univ_three]

end SmVerif.Spec
