/-
  Laws of the opaque primitives that theorems may assume.  Each is a fact about the real
  functions (proved for `Real` in Spec/RealPrims.lean); theorems name exactly the ones they use.
-/
import SmVerif.Basic

namespace SmVerif
variable {R : Type} [Field R] [LinearOrder R] [IsStrictOrderedRing R]

/-- sin² + cos² = 1 -/
def Prims.Trig (P : Prims R) : Prop := ∀ x, P.cos x * P.cos x + P.sin x * P.sin x = 1

/-- `sqrt` is the non-negative square root on non-negative arguments -/
structure Prims.Sqrt (P : Prims R) : Prop where
  nonneg : ∀ x, 0 ≤ P.sqrt x
  mul_self : ∀ x, 0 ≤ x → P.sqrt x * P.sqrt x = x

end SmVerif
