/-
  Spec.ExpLog — exp ∘ log = id on SO(3), general branch: for a rotation matrix M with
  c = (tr M − 1)/2 and k = vex(M) (so that |k| = s = sin θ), Rodrigues' formula about k/s with
  (cos, sin) = (c, s) reproduces M.  Heart of the proof: (M − Mᵀ)² = (tr M + 1)(M + Mᵀ − 2I) on SO(3).
-/
import SmVerif.Spec.SO3Facts
import SmVerif.Spec.Rodrigues
import Mathlib.Tactic.FieldSimp
import Mathlib.Tactic.Linarith
import Mathlib.Algebra.Order.Field.Basic

namespace SmVerif.Spec
open SmVerif Matrix

section ring
variable {R : Type} [CommRing R]

/-- universal 3×3 identity: A² − tr(A)·A + tr(adj A)·1 = adj A -/
theorem sq_sub_trace_smul_add (A : Matrix (Fin 3) (Fin 3) R) :
    A * A - A.trace • A + (adjugate A).trace • (1 : Matrix (Fin 3) (Fin 3) R) = adjugate A := by
  rw [adjugate_fin_three]
  ext i j
  fin_cases i <;> fin_cases j <;>
    simp [Matrix.mul_apply, Fin.sum_univ_three, Matrix.trace_fin_three] <;> ring

theorem SO3_sq (M : Matrix (Fin 3) (Fin 3) R) (h : M * Mᵀ = 1) (hd : M.det = 1) :
    M * M = M.trace • M - M.trace • (1 : Matrix (Fin 3) (Fin 3) R) + Mᵀ := by
  have key := sq_sub_trace_smul_add M
  rw [adjugate_eq_transpose_of_SO M h hd, Matrix.trace_transpose] at key
  have : M * M = Mᵀ + M.trace • M - M.trace • (1 : Matrix (Fin 3) (Fin 3) R) := by
    rw [← key]; abel
  rw [this]; abel

/-- the heart of exp∘log on SO(3) -/
theorem SO3_skewpart_sq (M : Matrix (Fin 3) (Fin 3) R) (h : M * Mᵀ = 1) (hd : M.det = 1) :
    (M - Mᵀ) * (M - Mᵀ) = (M.trace + 1) • (M + Mᵀ - (2 : R) • (1 : Matrix (Fin 3) (Fin 3) R)) := by
  have h2 : Mᵀ * M = 1 := (mul_eq_one_comm (M := Matrix (Fin 3) (Fin 3) R)).mp h
  have hT : Mᵀ * (Mᵀ)ᵀ = 1 := by rw [transpose_transpose]; exact h2
  have hdT : (Mᵀ).det = 1 := by rw [det_transpose]; exact hd
  have s1 := SO3_sq M h hd
  have s2 := SO3_sq Mᵀ hT hdT
  rw [transpose_transpose, trace_transpose] at s2
  have : (M - Mᵀ) * (M - Mᵀ) = M * M - M * Mᵀ - Mᵀ * M + Mᵀ * Mᵀ := by
    rw [Matrix.sub_mul, Matrix.mul_sub, Matrix.mul_sub]; abel
  rw [this, h, h2, s1, s2]
  ext i j
  simp [Matrix.smul_apply, Matrix.add_apply, Matrix.sub_apply]
  ring

/-- entry form for `Mat 3 3 R` -/
theorem _root_.SmVerif.IsSO3.skewpart_sq {M : Mat 3 3 R} (h : IsSO3 M) (i j : Fin 3) :
    (∑ k, (M i k - M k i) * (M k j - M j k)) = (M 0 0 + M 1 1 + M 2 2 + 1) * (M i j + M j i - 2 * one3 i j) := by
  have h1 := h.orth; rw [mmul_eq, mT_eq, one3_eq] at h1
  have hd : (toM M).det = 1 := by rw [← det3_eq]; exact h.det
  have key := congrFun (congrFun (SO3_skewpart_sq (toM M) h1 hd) i) j
  simp only [Matrix.mul_apply, Matrix.sub_apply, Matrix.transpose_apply, Matrix.smul_apply, Matrix.add_apply,
    Matrix.trace_fin_three, smul_eq_mul] at key
  rw [key, one3_eq]

end ring

section field
variable {R : Type} [Field R] [LinearOrder R] [IsStrictOrderedRing R]

/-- sin θ · axis of a rotation matrix: half the vex of its skew part -/
def sinAxis (M : Mat 3 3 R) : Vec 3 R := v3 ((M 2 1 - M 1 2) / 2) ((M 0 2 - M 2 0) / 2) ((M 1 0 - M 0 1) / 2)
/-- cos θ of a rotation matrix -/
def cosAngle (M : Mat 3 3 R) : R := (M 0 0 + M 1 1 + M 2 2 - 1) / 2

/-- |sinAxis|² + cosAngle² = 1 on SO(3) -/
theorem sin_sq_add_cos_sq {M : Mat 3 3 R} (h : IsSO3 M) : dot (sinAxis M) (sinAxis M) + cosAngle M * cosAngle M = 1 := by
  have k00 := h.skewpart_sq 0 0; have k11 := h.skewpart_sq 1 1; have k22 := h.skewpart_sq 2 2
  simp [Fin.sum_univ_three, one3] at k00 k11 k22
  have two : (2 : R) ≠ 0 := two_ne_zero
  simp only [dot, sinAxis, cosAngle, Fin.sum_univ_three, v3_0, v3_1, v3_2]
  linear_combination (-1/8) * k00 + (-1/8) * k11 + (-1/8) * k22

/-- exp ∘ log on the general branch: for a rotation matrix M, let c = (tr M − 1)/2, let s ≠ 0 with s² + c² = 1 and
let a be the axis with a·s = sinAxis M (the vex of the skew part).  Then Rodrigues' formula about a with
(cos, sin) = (c, s) reproduces M. -/
theorem rod_of_log {M : Mat 3 3 R} (h : IsSO3 M) (a : Vec 3 R) (s c : R) (hs0 : s ≠ 0)
    (ha0 : a 0 * s = (M 2 1 - M 1 2) / 2) (ha1 : a 1 * s = (M 0 2 - M 2 0) / 2) (ha2 : a 2 * s = (M 1 0 - M 0 1) / 2)
    (hc : 2 * c = M 0 0 + M 1 1 + M 2 2 - 1) (hsc : s * s + c * c = 1) :
    rodM a c s = M := by
  have hss : s * s ≠ 0 := mul_ne_zero hs0 hs0
  have k00 := h.skewpart_sq 0 0; have k01 := h.skewpart_sq 0 1; have k02 := h.skewpart_sq 0 2
  have k10 := h.skewpart_sq 1 0; have k11 := h.skewpart_sq 1 1; have k12 := h.skewpart_sq 1 2
  have k20 := h.skewpart_sq 2 0; have k21 := h.skewpart_sq 2 1; have k22 := h.skewpart_sq 2 2
  simp [Fin.sum_univ_three, one3] at k00 k01 k02 k10 k11 k12 k20 k21 k22
  apply Mat.ext33' <;> simp only [rodM, mmul, skew3, one3, Fin.sum_univ_three, v3_0, v3_1, v3_2]
  · apply mul_left_cancel₀ hss; linear_combination (1/4 - c/4) * k00 + (1 - M 0 0) * hsc + (M 2 0/2 - M 0 2/2 + c*M 0 2/2 - a 1*s - c*M 2 0/2 + a 1*c*s) * ha1 + (1/2 - c/2 - M 0 0/2 + c*M 0 0/2) * hc + (M 0 1/2 - M 1 0/2 + c*M 1 0/2 - a 2*s - c*M 0 1/2 + a 2*c*s) * ha2
  · apply mul_left_cancel₀ hss; linear_combination (a 1*s - a 1*c*s) * ha0 + (-M 0 1/2 - M 1 0/2) * hsc + (M 2 1/2 - M 1 2/2 + c*M 1 2/2 - c*M 2 1/2) * ha1 + (-M 0 1/4 - M 1 0/4 + c*M 0 1/4 + c*M 1 0/4) * hc + (1/4 - c/4) * k01 + (-s^2) * ha2
  · apply mul_left_cancel₀ hss; linear_combination (1/4 - c/4) * k20 + (a 0*s - a 0*c*s) * ha2 + (M 1 0/2 - M 0 1/2 + c*M 0 1/2 - c*M 1 0/2) * ha0 + (-M 0 2/4 - M 2 0/4 + c*M 0 2/4 + c*M 2 0/4) * hc + (s^2) * ha1 + (-M 0 2/2 - M 2 0/2) * hsc
  · apply mul_left_cancel₀ hss; linear_combination (a 1*s - a 1*c*s) * ha0 + (-M 0 1/2 - M 1 0/2) * hsc + (M 2 1/2 - M 1 2/2 + c*M 1 2/2 - c*M 2 1/2) * ha1 + (-M 0 1/4 - M 1 0/4 + c*M 0 1/4 + c*M 1 0/4) * hc + (1/4 - c/4) * k01 + (s^2) * ha2
  · apply mul_left_cancel₀ hss; linear_combination (M 1 2/2 - M 2 1/2 + c*M 2 1/2 - a 0*s - c*M 1 2/2 + a 0*c*s) * ha0 + (M 0 1/2 - M 1 0/2 + c*M 1 0/2 - a 2*s - c*M 0 1/2 + a 2*c*s) * ha2 + (1/4 - c/4) * k11 + (1/2 - c/2 - M 1 1/2 + c*M 1 1/2) * hc + (1 - M 1 1) * hsc
  · apply mul_left_cancel₀ hss; linear_combination (-s^2) * ha0 + (a 2*s - a 2*c*s) * ha1 + (M 0 2/2 - M 2 0/2 + c*M 2 0/2 - c*M 0 2/2) * ha2 + (1/4 - c/4) * k12 + (-M 1 2/4 - M 2 1/4 + c*M 1 2/4 + c*M 2 1/4) * hc + (-M 1 2/2 - M 2 1/2) * hsc
  · apply mul_left_cancel₀ hss; linear_combination (1/4 - c/4) * k20 + (a 0*s - a 0*c*s) * ha2 + (M 1 0/2 - M 0 1/2 + c*M 0 1/2 - c*M 1 0/2) * ha0 + (-M 0 2/4 - M 2 0/4 + c*M 0 2/4 + c*M 2 0/4) * hc + (-s^2) * ha1 + (-M 0 2/2 - M 2 0/2) * hsc
  · apply mul_left_cancel₀ hss; linear_combination (s^2) * ha0 + (a 2*s - a 2*c*s) * ha1 + (M 0 2/2 - M 2 0/2 + c*M 2 0/2 - c*M 0 2/2) * ha2 + (1/4 - c/4) * k12 + (-M 1 2/4 - M 2 1/4 + c*M 1 2/4 + c*M 2 1/4) * hc + (-M 1 2/2 - M 2 1/2) * hsc
  · apply mul_left_cancel₀ hss; linear_combination (M 1 2/2 - M 2 1/2 + c*M 2 1/2 - a 0*s - c*M 1 2/2 + a 0*c*s) * ha0 + (M 2 0/2 - M 0 2/2 + c*M 0 2/2 - a 1*s - c*M 2 0/2 + a 1*c*s) * ha1 + (1/4 - c/4) * k22 + (1/2 - c/2 - M 2 2/2 + c*M 2 2/2) * hc + (1 - M 2 2) * hsc

end field
end SmVerif.Spec
