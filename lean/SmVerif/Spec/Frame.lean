/-
  Spec.Frame — a matrix whose columns are three mutually orthogonal vectors divided by their lengths,
  with positive orientation, is special orthogonal (the algebra behind oa2r / trnorm).
-/
import SmVerif.Spec.Group
import Mathlib.Tactic.FieldSimp
import Mathlib.Tactic.Positivity
import Mathlib.Tactic.Linarith

namespace SmVerif.Spec
open SmVerif Matrix
variable {R : Type} [Field R]

/-- matrix with columns u/a, v/b, w/c -/
def colsDiv (u v w : Vec 3 R) (a b c : R) : Mat 3 3 R :=
  v3 (v3 (u 0 / a) (v 0 / b) (w 0 / c)) (v3 (u 1 / a) (v 1 / b) (w 1 / c)) (v3 (u 2 / a) (v 2 / b) (w 2 / c))

theorem colsDiv_SO3 (u v w : Vec 3 R) (a b c : R) (ha0 : a ≠ 0) (hb0 : b ≠ 0) (hc0 : c ≠ 0)
    (ha : a * a = dot u u) (hb : b * b = dot v v) (hc : c * c = dot w w)
    (huv : dot u v = 0) (huw : dot u w = 0) (hvw : dot v w = 0)
    (hdet : dot u (cross3 v w) = a * b * c) : IsSO3 (colsDiv u v w a b c) := by
  simp only [dot, cross3, Fin.sum_univ_three, v3_0, v3_1, v3_2] at ha hb hc huv huw hvw hdet
  have hT : mmul (mT (colsDiv u v w a b c)) (colsDiv u v w a b c) = one3 := by
    apply Mat.ext33' <;> simp [mmul, mT, colsDiv, one3, Fin.sum_univ_three] <;> field_simp
    · linear_combination -ha
    · linear_combination huv
    · linear_combination huw
    · linear_combination huv
    · linear_combination -hb
    · linear_combination hvw
    · linear_combination huw
    · linear_combination hvw
    · linear_combination -hc
  constructor
  · rw [mmul_eq, mT_eq, one3_eq] at hT ⊢
    exact (mul_eq_one_comm (M := Matrix (Fin 3) (Fin 3) R)).mp hT
  · simp [det3, colsDiv]; field_simp; linear_combination hdet

end SmVerif.Spec
