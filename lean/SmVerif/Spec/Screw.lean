/-
  Spec.Screw — closed-form exponential of a unit twist (w, v) scaled by θ:
      R = I + s K + (1−c) K²,   t = (θ I + (1−c) K + (θ−s) K²) v,    K = skew(w)
  and its geometry: group law of R in the angle, fixed axis, membership in SE(3).
-/
import SmVerif.Spec.Rodrigues
import SmVerif.Spec.Lie

namespace SmVerif.Spec
open SmVerif
variable {R : Type} [CommRing R]

def Vmat (w : Vec 3 R) (c s θ : R) : Mat 3 3 R :=
  fun i j => θ * one3 i j + (1 - c) * skew3 w i j + (θ - s) * mmul (skew3 w) (skew3 w) i j

def screwExp (w v : Vec 3 R) (c s θ : R) : Mat 4 4 R := rt3 (rodM w c s) (mvec (Vmat w c s θ) v)

theorem screwExp_SE3 (w v : Vec 3 R) (c s θ : R) (hw : w 0 ^ 2 + w 1 ^ 2 + w 2 ^ 2 = 1) (hcs : c * c + s * s = 1) :
    IsSE3 (screwExp w v c s θ) := isSE3_rt3 _ (rodM_SO3 w c s hw hcs)

/-- one-parameter group: rotation by a + b about w is the product of the rotations by a and by b
(angle addition expressed on (cos, sin) pairs) -/
theorem rodM_add (w : Vec 3 R) (c1 s1 c2 s2 : R) (hw : w 0 ^ 2 + w 1 ^ 2 + w 2 ^ 2 = 1) :
    rodM w (c1 * c2 - s1 * s2) (s1 * c2 + c1 * s2) = mmul (rodM w c1 s1) (rodM w c2 s2) := by
  apply Mat.ext33' <;> simp [rodM, mmul, skew3, one3, Fin.sum_univ_three]
  · linear_combination (-w 1^2 - w 2^2 + c1*w 1^2 + c1*w 2^2 + c2*w 1^2 + c2*w 2^2 - c1*c2*w 1^2 - c1*c2*w 2^2) * hw
  · linear_combination (w 0*w 1 - s1*w 2 - s2*w 2 + c1*s2*w 2 + c2*s1*w 2 - c1*w 0*w 1 - c2*w 0*w 1 + c1*c2*w 0*w 1) * hw
  · linear_combination (s1*w 1 + s2*w 1 + w 0*w 2 - c1*s2*w 1 - c1*w 0*w 2 - c2*s1*w 1 - c2*w 0*w 2 + c1*c2*w 0*w 2) * hw
  · linear_combination (s1*w 2 + s2*w 2 + w 0*w 1 - c1*s2*w 2 - c1*w 0*w 1 - c2*s1*w 2 - c2*w 0*w 1 + c1*c2*w 0*w 1) * hw
  · linear_combination (-w 0^2 - w 2^2 + c1*w 0^2 + c1*w 2^2 + c2*w 0^2 + c2*w 2^2 - c1*c2*w 0^2 - c1*c2*w 2^2) * hw
  · linear_combination (w 1*w 2 - s1*w 0 - s2*w 0 + c1*s2*w 0 + c2*s1*w 0 - c1*w 1*w 2 - c2*w 1*w 2 + c1*c2*w 1*w 2) * hw
  · linear_combination (w 0*w 2 - s1*w 1 - s2*w 1 + c1*s2*w 1 + c2*s1*w 1 - c1*w 0*w 2 - c2*w 0*w 2 + c1*c2*w 0*w 2) * hw
  · linear_combination (s1*w 0 + s2*w 0 + w 1*w 2 - c1*s2*w 0 - c1*w 1*w 2 - c2*s1*w 0 - c2*w 1*w 2 + c1*c2*w 1*w 2) * hw
  · linear_combination (-w 0^2 - w 1^2 + c1*w 0^2 + c1*w 1^2 + c2*w 0^2 + c2*w 1^2 - c1*c2*w 0^2 - c1*c2*w 1^2) * hw

/-- a revolute unit twist (w, v = −w × q) leaves every point q + λ w of its axis fixed -/
theorem screw_axis_fixed (w q : Vec 3 R) (c s θ lam : R) (hw : w 0 ^ 2 + w 1 ^ 2 + w 2 ^ 2 = 1) :
    (fun i => mvec (rodM w c s) (fun k => q k + lam * w k) i
        + mvec (Vmat w c s θ) (fun k => -(cross3 w q k)) i) = fun k => q k + lam * w k := by
  apply Vec.ext3 <;> simp [rodM, Vmat, mvec, mmul, skew3, one3, cross3, Fin.sum_univ_three]
  · linear_combination (q 1*s*w 2 + q 2*θ*w 1 - q 1*θ*w 2 - q 2*s*w 1) * hw
  · linear_combination (q 0*θ*w 2 + q 2*s*w 0 - q 0*s*w 2 - q 2*θ*w 0) * hw
  · linear_combination (q 0*s*w 1 + q 1*θ*w 0 - q 0*θ*w 1 - q 1*s*w 0) * hw

end SmVerif.Spec
