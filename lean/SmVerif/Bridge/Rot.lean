/-
  Bridge.Rot — generated axis rotations, angle-set constructors and their homogeneous versions in
  terms of Spec.Group.  (File written with the help of a script; checked by Lean like any other.)
-/
import SmVerif.Gen.Transforms3d
import SmVerif.Gen.Transforms2d
import SmVerif.Spec.Group
import SmVerif.Tactics

namespace SmVerif.Bridge
open SmVerif SmVerif.Spec
set_option linter.unusedSectionVars false
set_option linter.unusedTactic false
set_option linter.unreachableTactic false
variable {R : Type} [Field R] [LinearOrder R] [IsStrictOrderedRing R] (P : Prims R)

/-- degrees to radians as the library does it: `x * pi / 180` -/
def deg (P : Prims R) (x : R) : R := x * P.pi / 180

/-- 4×4 homogeneous matrix with a given rotation block and translation -/
abbrev hom (M : Mat 3 3 R) (t : Vec 3 R) : Mat 4 4 R := rt3 M t
def zero3 : Vec 3 R := v3 0 0 0
def zero2 : Vec 2 R := v2 0 0


theorem rotx_rad (th : R) : Gen.rotx_rad P th = .ok (rotx (P.cos th) (P.sin th)) := by
  unfold Gen.rotx_rad; (try simp only []); first | rfl | (congr 1 <;> ext_lit <;> (try simp [rotx]) <;> (try ring))

theorem rotx_deg (th : R) : Gen.rotx_deg P th = .ok (rotx (P.cos (deg P th)) (P.sin (deg P th))) := by
  unfold Gen.rotx_deg; (try simp only []); first | rfl | (congr 1 <;> ext_lit <;> (try simp [rotx, deg]) <;> (try ring))

theorem trotx_rad (th : R) : Gen.trotx_rad P th = .ok (rt3 (rotx (P.cos th) (P.sin th)) zero3) := by
  unfold Gen.trotx_rad; (try simp only []); first | rfl | (congr 1 <;> ext_lit <;> (try simp [rotx, rt3, zero3]) <;> (try ring))

theorem trotx_deg (th : R) : Gen.trotx_deg P th = .ok (rt3 (rotx (P.cos (deg P th)) (P.sin (deg P th))) zero3) := by
  unfold Gen.trotx_deg; (try simp only []); first | rfl | (congr 1 <;> ext_lit <;> (try simp [rotx, rt3, zero3, deg]) <;> (try ring))

theorem trotx_t (th : R) (t : Vec 3 R) : Gen.trotx_t P th t = .ok (rt3 (rotx (P.cos th) (P.sin th)) t) := by
  unfold Gen.trotx_t; (try simp only []); first | rfl | (congr 1 <;> ext_lit <;> (try simp [rotx, rt3]) <;> (try ring))

theorem roty_rad (th : R) : Gen.roty_rad P th = .ok (roty (P.cos th) (P.sin th)) := by
  unfold Gen.roty_rad; (try simp only []); first | rfl | (congr 1 <;> ext_lit <;> (try simp [roty]) <;> (try ring))

theorem roty_deg (th : R) : Gen.roty_deg P th = .ok (roty (P.cos (deg P th)) (P.sin (deg P th))) := by
  unfold Gen.roty_deg; (try simp only []); first | rfl | (congr 1 <;> ext_lit <;> (try simp [roty, deg]) <;> (try ring))

theorem troty_rad (th : R) : Gen.troty_rad P th = .ok (rt3 (roty (P.cos th) (P.sin th)) zero3) := by
  unfold Gen.troty_rad; (try simp only []); first | rfl | (congr 1 <;> ext_lit <;> (try simp [roty, rt3, zero3]) <;> (try ring))

theorem troty_deg (th : R) : Gen.troty_deg P th = .ok (rt3 (roty (P.cos (deg P th)) (P.sin (deg P th))) zero3) := by
  unfold Gen.troty_deg; (try simp only []); first | rfl | (congr 1 <;> ext_lit <;> (try simp [roty, rt3, zero3, deg]) <;> (try ring))

theorem troty_t (th : R) (t : Vec 3 R) : Gen.troty_t P th t = .ok (rt3 (roty (P.cos th) (P.sin th)) t) := by
  unfold Gen.troty_t; (try simp only []); first | rfl | (congr 1 <;> ext_lit <;> (try simp [roty, rt3]) <;> (try ring))

theorem rotz_rad (th : R) : Gen.rotz_rad P th = .ok (rotz (P.cos th) (P.sin th)) := by
  unfold Gen.rotz_rad; (try simp only []); first | rfl | (congr 1 <;> ext_lit <;> (try simp [rotz]) <;> (try ring))

theorem rotz_deg (th : R) : Gen.rotz_deg P th = .ok (rotz (P.cos (deg P th)) (P.sin (deg P th))) := by
  unfold Gen.rotz_deg; (try simp only []); first | rfl | (congr 1 <;> ext_lit <;> (try simp [rotz, deg]) <;> (try ring))

theorem trotz_rad (th : R) : Gen.trotz_rad P th = .ok (rt3 (rotz (P.cos th) (P.sin th)) zero3) := by
  unfold Gen.trotz_rad; (try simp only []); first | rfl | (congr 1 <;> ext_lit <;> (try simp [rotz, rt3, zero3]) <;> (try ring))

theorem trotz_deg (th : R) : Gen.trotz_deg P th = .ok (rt3 (rotz (P.cos (deg P th)) (P.sin (deg P th))) zero3) := by
  unfold Gen.trotz_deg; (try simp only []); first | rfl | (congr 1 <;> ext_lit <;> (try simp [rotz, rt3, zero3, deg]) <;> (try ring))

theorem trotz_t (th : R) (t : Vec 3 R) : Gen.trotz_t P th t = .ok (rt3 (rotz (P.cos th) (P.sin th)) t) := by
  unfold Gen.trotz_t; (try simp only []); first | rfl | (congr 1 <;> ext_lit <;> (try simp [rotz, rt3]) <;> (try ring))

theorem rot2_rad (th : R) : Gen.rot2_rad P th = .ok (rot2 (P.cos th) (P.sin th)) := by
  unfold Gen.rot2_rad; (try simp only []); first | rfl | (congr 1 <;> ext_lit <;> (try simp [rot2]) <;> (try ring))

theorem rot2_deg (th : R) : Gen.rot2_deg P th = .ok (rot2 (P.cos (deg P th)) (P.sin (deg P th))) := by
  unfold Gen.rot2_deg; (try simp only []); first | rfl | (congr 1 <;> ext_lit <;> (try simp [rot2, deg]) <;> (try ring))

theorem trot2_rad (th : R) : Gen.trot2_rad P th = .ok (rt2 (rot2 (P.cos th) (P.sin th)) zero2) := by
  unfold Gen.trot2_rad; (try simp only []); first | rfl | (congr 1 <;> ext_lit <;> (try simp [rot2, rt2, zero2]) <;> (try ring))

theorem trot2_deg (th : R) : Gen.trot2_deg P th = .ok (rt2 (rot2 (P.cos (deg P th)) (P.sin (deg P th))) zero2) := by
  unfold Gen.trot2_deg; (try simp only []); first | rfl | (congr 1 <;> ext_lit <;> (try simp [rot2, rt2, zero2, deg]) <;> (try ring))

theorem trot2_t (th : R) (t : Vec 2 R) : Gen.trot2_t P th t = .ok (rt2 (rot2 (P.cos th) (P.sin th)) t) := by
  unfold Gen.trot2_t; (try simp only []); first | rfl | (congr 1 <;> ext_lit <;> (try simp [rot2, rt2]) <;> (try ring))

theorem xyt2tr (v : Vec 3 R) : Gen.xyt2tr P v = .ok (rt2 (rot2 (P.cos (v 2)) (P.sin (v 2))) (v2 (v 0) (v 1))) := by
  unfold Gen.xyt2tr; (try simp only []); first | rfl | (congr 1 <;> ext_lit <;> (try simp [rot2, rt2]) <;> (try ring))

theorem xyt2tr_deg (v : Vec 3 R) : Gen.xyt2tr_deg P v = .ok (rt2 (rot2 (P.cos (deg P (v 2))) (P.sin (deg P (v 2)))) (v2 (v 0) (v 1))) := by
  unfold Gen.xyt2tr_deg; (try simp only []); first | rfl | (congr 1 <;> ext_lit <;> (try simp [rot2, rt2, deg]) <;> (try ring))

/-- documented axis orders, as functions of the three angles after unit conversion `u` -/
def rpyZYX (P : Prims R) (u : R → R) (v : Vec 3 R) : Mat 3 3 R :=
  mmul (mmul (rotz (P.cos (u (v 2))) (P.sin (u (v 2)))) (roty (P.cos (u (v 1))) (P.sin (u (v 1))))) (rotx (P.cos (u (v 0))) (P.sin (u (v 0))))
def rpyXYZ (P : Prims R) (u : R → R) (v : Vec 3 R) : Mat 3 3 R :=
  mmul (mmul (rotx (P.cos (u (v 2))) (P.sin (u (v 2)))) (roty (P.cos (u (v 1))) (P.sin (u (v 1))))) (rotz (P.cos (u (v 0))) (P.sin (u (v 0))))
def rpyYXZ (P : Prims R) (u : R → R) (v : Vec 3 R) : Mat 3 3 R :=
  mmul (mmul (roty (P.cos (u (v 2))) (P.sin (u (v 2)))) (rotx (P.cos (u (v 1))) (P.sin (u (v 1))))) (rotz (P.cos (u (v 0))) (P.sin (u (v 0))))
/-- ZYZ Euler: Rz(phi) Ry(theta) Rz(psi) -/
def eulZYZ (P : Prims R) (u : R → R) (v : Vec 3 R) : Mat 3 3 R :=
  mmul (mmul (rotz (P.cos (u (v 0))) (P.sin (u (v 0)))) (roty (P.cos (u (v 1))) (P.sin (u (v 1))))) (rotz (P.cos (u (v 2))) (P.sin (u (v 2))))

theorem rpy2r_zyx_rad (v : Vec 3 R) : Gen.rpy2r_zyx_rad P v = .ok (rpyZYX P id v) := by
  unfold Gen.rpy2r_zyx_rad; (try simp only []); congr 1 <;> ext_lit <;> (try simp [rpyZYX, mmul, rotx, roty, rotz, Fin.sum_univ_three, deg]) <;> (try ring)

theorem rpy2r_zyx_deg (v : Vec 3 R) : Gen.rpy2r_zyx_deg P v = .ok (rpyZYX P (deg P) v) := by
  unfold Gen.rpy2r_zyx_deg; (try simp only []); congr 1 <;> ext_lit <;> (try simp [rpyZYX, mmul, rotx, roty, rotz, Fin.sum_univ_three, deg]) <;> (try ring)

theorem rpy2r_zyx_scalars (r p y : R) : Gen.rpy2r_zyx_scalars P r p y = .ok (rpyZYX P id (v3 r p y)) := by
  unfold Gen.rpy2r_zyx_scalars; (try simp only []); congr 1 <;> ext_lit <;> (try simp [rpyZYX, mmul, rotx, roty, rotz, Fin.sum_univ_three, deg]) <;> (try ring)

theorem rpy2tr_zyx (v : Vec 3 R) : Gen.rpy2tr_zyx P v = .ok (rt3 (rpyZYX P id v) zero3) := by
  unfold Gen.rpy2tr_zyx; (try simp only []); congr 1 <;> ext_lit <;> (try simp [rpyZYX, rt3, zero3, mmul, rotx, roty, rotz, Fin.sum_univ_three, deg]) <;> (try ring)

theorem rpy2r_vehicle_rad (v : Vec 3 R) : Gen.rpy2r_vehicle_rad P v = .ok (rpyZYX P id v) := by
  unfold Gen.rpy2r_vehicle_rad; (try simp only []); congr 1 <;> ext_lit <;> (try simp [rpyZYX, mmul, rotx, roty, rotz, Fin.sum_univ_three, deg]) <;> (try ring)

theorem rpy2r_vehicle_deg (v : Vec 3 R) : Gen.rpy2r_vehicle_deg P v = .ok (rpyZYX P (deg P) v) := by
  unfold Gen.rpy2r_vehicle_deg; (try simp only []); congr 1 <;> ext_lit <;> (try simp [rpyZYX, mmul, rotx, roty, rotz, Fin.sum_univ_three, deg]) <;> (try ring)

theorem rpy2r_vehicle_scalars (r p y : R) : Gen.rpy2r_vehicle_scalars P r p y = .ok (rpyZYX P id (v3 r p y)) := by
  unfold Gen.rpy2r_vehicle_scalars; (try simp only []); congr 1 <;> ext_lit <;> (try simp [rpyZYX, mmul, rotx, roty, rotz, Fin.sum_univ_three, deg]) <;> (try ring)

theorem rpy2tr_vehicle (v : Vec 3 R) : Gen.rpy2tr_vehicle P v = .ok (rt3 (rpyZYX P id v) zero3) := by
  unfold Gen.rpy2tr_vehicle; (try simp only []); congr 1 <;> ext_lit <;> (try simp [rpyZYX, rt3, zero3, mmul, rotx, roty, rotz, Fin.sum_univ_three, deg]) <;> (try ring)

theorem rpy2r_xyz_rad (v : Vec 3 R) : Gen.rpy2r_xyz_rad P v = .ok (rpyXYZ P id v) := by
  unfold Gen.rpy2r_xyz_rad; (try simp only []); congr 1 <;> ext_lit <;> (try simp [rpyXYZ, mmul, rotx, roty, rotz, Fin.sum_univ_three, deg]) <;> (try ring)

theorem rpy2r_xyz_deg (v : Vec 3 R) : Gen.rpy2r_xyz_deg P v = .ok (rpyXYZ P (deg P) v) := by
  unfold Gen.rpy2r_xyz_deg; (try simp only []); congr 1 <;> ext_lit <;> (try simp [rpyXYZ, mmul, rotx, roty, rotz, Fin.sum_univ_three, deg]) <;> (try ring)

theorem rpy2r_xyz_scalars (r p y : R) : Gen.rpy2r_xyz_scalars P r p y = .ok (rpyXYZ P id (v3 r p y)) := by
  unfold Gen.rpy2r_xyz_scalars; (try simp only []); congr 1 <;> ext_lit <;> (try simp [rpyXYZ, mmul, rotx, roty, rotz, Fin.sum_univ_three, deg]) <;> (try ring)

theorem rpy2tr_xyz (v : Vec 3 R) : Gen.rpy2tr_xyz P v = .ok (rt3 (rpyXYZ P id v) zero3) := by
  unfold Gen.rpy2tr_xyz; (try simp only []); congr 1 <;> ext_lit <;> (try simp [rpyXYZ, rt3, zero3, mmul, rotx, roty, rotz, Fin.sum_univ_three, deg]) <;> (try ring)

theorem rpy2r_arm_rad (v : Vec 3 R) : Gen.rpy2r_arm_rad P v = .ok (rpyXYZ P id v) := by
  unfold Gen.rpy2r_arm_rad; (try simp only []); congr 1 <;> ext_lit <;> (try simp [rpyXYZ, mmul, rotx, roty, rotz, Fin.sum_univ_three, deg]) <;> (try ring)

theorem rpy2r_arm_deg (v : Vec 3 R) : Gen.rpy2r_arm_deg P v = .ok (rpyXYZ P (deg P) v) := by
  unfold Gen.rpy2r_arm_deg; (try simp only []); congr 1 <;> ext_lit <;> (try simp [rpyXYZ, mmul, rotx, roty, rotz, Fin.sum_univ_three, deg]) <;> (try ring)

theorem rpy2r_arm_scalars (r p y : R) : Gen.rpy2r_arm_scalars P r p y = .ok (rpyXYZ P id (v3 r p y)) := by
  unfold Gen.rpy2r_arm_scalars; (try simp only []); congr 1 <;> ext_lit <;> (try simp [rpyXYZ, mmul, rotx, roty, rotz, Fin.sum_univ_three, deg]) <;> (try ring)

theorem rpy2tr_arm (v : Vec 3 R) : Gen.rpy2tr_arm P v = .ok (rt3 (rpyXYZ P id v) zero3) := by
  unfold Gen.rpy2tr_arm; (try simp only []); congr 1 <;> ext_lit <;> (try simp [rpyXYZ, rt3, zero3, mmul, rotx, roty, rotz, Fin.sum_univ_three, deg]) <;> (try ring)

theorem rpy2r_yxz_rad (v : Vec 3 R) : Gen.rpy2r_yxz_rad P v = .ok (rpyYXZ P id v) := by
  unfold Gen.rpy2r_yxz_rad; (try simp only []); congr 1 <;> ext_lit <;> (try simp [rpyYXZ, mmul, rotx, roty, rotz, Fin.sum_univ_three, deg]) <;> (try ring)

theorem rpy2r_yxz_deg (v : Vec 3 R) : Gen.rpy2r_yxz_deg P v = .ok (rpyYXZ P (deg P) v) := by
  unfold Gen.rpy2r_yxz_deg; (try simp only []); congr 1 <;> ext_lit <;> (try simp [rpyYXZ, mmul, rotx, roty, rotz, Fin.sum_univ_three, deg]) <;> (try ring)

theorem rpy2r_yxz_scalars (r p y : R) : Gen.rpy2r_yxz_scalars P r p y = .ok (rpyYXZ P id (v3 r p y)) := by
  unfold Gen.rpy2r_yxz_scalars; (try simp only []); congr 1 <;> ext_lit <;> (try simp [rpyYXZ, mmul, rotx, roty, rotz, Fin.sum_univ_three, deg]) <;> (try ring)

theorem rpy2tr_yxz (v : Vec 3 R) : Gen.rpy2tr_yxz P v = .ok (rt3 (rpyYXZ P id v) zero3) := by
  unfold Gen.rpy2tr_yxz; (try simp only []); congr 1 <;> ext_lit <;> (try simp [rpyYXZ, rt3, zero3, mmul, rotx, roty, rotz, Fin.sum_univ_three, deg]) <;> (try ring)

theorem rpy2r_camera_rad (v : Vec 3 R) : Gen.rpy2r_camera_rad P v = .ok (rpyYXZ P id v) := by
  unfold Gen.rpy2r_camera_rad; (try simp only []); congr 1 <;> ext_lit <;> (try simp [rpyYXZ, mmul, rotx, roty, rotz, Fin.sum_univ_three, deg]) <;> (try ring)

theorem rpy2r_camera_deg (v : Vec 3 R) : Gen.rpy2r_camera_deg P v = .ok (rpyYXZ P (deg P) v) := by
  unfold Gen.rpy2r_camera_deg; (try simp only []); congr 1 <;> ext_lit <;> (try simp [rpyYXZ, mmul, rotx, roty, rotz, Fin.sum_univ_three, deg]) <;> (try ring)

theorem rpy2r_camera_scalars (r p y : R) : Gen.rpy2r_camera_scalars P r p y = .ok (rpyYXZ P id (v3 r p y)) := by
  unfold Gen.rpy2r_camera_scalars; (try simp only []); congr 1 <;> ext_lit <;> (try simp [rpyYXZ, mmul, rotx, roty, rotz, Fin.sum_univ_three, deg]) <;> (try ring)

theorem rpy2tr_camera (v : Vec 3 R) : Gen.rpy2tr_camera P v = .ok (rt3 (rpyYXZ P id v) zero3) := by
  unfold Gen.rpy2tr_camera; (try simp only []); congr 1 <;> ext_lit <;> (try simp [rpyYXZ, rt3, zero3, mmul, rotx, roty, rotz, Fin.sum_univ_three, deg]) <;> (try ring)

theorem eul2r_rad (v : Vec 3 R) : Gen.eul2r_rad P v = .ok (eulZYZ P id v) := by
  unfold Gen.eul2r_rad; (try simp only []); congr 1 <;> ext_lit <;> (try simp [eulZYZ, mmul, rotx, roty, rotz, Fin.sum_univ_three, deg]) <;> (try ring)

theorem eul2r_deg (v : Vec 3 R) : Gen.eul2r_deg P v = .ok (eulZYZ P (deg P) v) := by
  unfold Gen.eul2r_deg; (try simp only []); congr 1 <;> ext_lit <;> (try simp [eulZYZ, mmul, rotx, roty, rotz, Fin.sum_univ_three, deg]) <;> (try ring)

theorem eul2r_scalars (a b c : R) : Gen.eul2r_scalars P a b c = .ok (eulZYZ P id (v3 a b c)) := by
  unfold Gen.eul2r_scalars; (try simp only []); congr 1 <;> ext_lit <;> (try simp [eulZYZ, mmul, rotx, roty, rotz, Fin.sum_univ_three, deg]) <;> (try ring)

theorem eul2tr (v : Vec 3 R) : Gen.eul2tr P v = .ok (rt3 (eulZYZ P id v) zero3) := by
  unfold Gen.eul2tr; (try simp only []); congr 1 <;> ext_lit <;> (try simp [eulZYZ, rt3, zero3, mmul, rotx, roty, rotz, Fin.sum_univ_three, deg]) <;> (try ring)

theorem rpy2r_badorder (v : Vec 3 R) : Gen.rpy2r_badorder P v = .raised .ValueError := by
  unfold Gen.rpy2r_badorder; rfl

end SmVerif.Bridge
