/-
  Bridge.AngVec — axis-angle constructors (`angvec2r`, `rodrigues`) in terms of Spec.Rodrigues.
-/
import SmVerif.Gen.Transforms3d
import SmVerif.Gen.TransformsNd
import SmVerif.Spec.Rodrigues
import SmVerif.Spec.PrimLaws
import SmVerif.Tactics
import Mathlib.Tactic.NormNum
import Mathlib.Tactic.Positivity
import Mathlib.Tactic.Linarith

namespace SmVerif.Bridge
open SmVerif SmVerif.Spec
set_option linter.unusedSectionVars false
set_option linter.unusedTactic false
set_option linter.unreachableTactic false
variable {R : Type} [Field R] [LinearOrder R] [IsStrictOrderedRing R] (P : Prims R)

/-- Euclidean norm as the library computes it -/
def nrm3 (P : Prims R) (v : Vec 3 R) : R := P.sqrt (v 0 * v 0 + v 1 * v 1 + v 2 * v 2)

theorem unit_of_div (hS : P.Sqrt) (v : Vec 3 R) (hn : 0 < nrm3 P v) :
    (v 0 / nrm3 P v) ^ 2 + (v 1 / nrm3 P v) ^ 2 + (v 2 / nrm3 P v) ^ 2 = 1 := by
  have hx : 0 ≤ v 0 * v 0 + v 1 * v 1 + v 2 * v 2 :=
    add_nonneg (add_nonneg (mul_self_nonneg _) (mul_self_nonneg _)) (mul_self_nonneg _)
  have h : nrm3 P v * nrm3 P v = v 0 * v 0 + v 1 * v 1 + v 2 * v 2 := hS.mul_self _ hx
  have hne : nrm3 P v ≠ 0 := ne_of_gt hn
  generalize nrm3 P v = n at *
  field_simp
  first | linear_combination h | linear_combination -h

/-- every value returned by `angvec2r` is the identity or Rodrigues' formula on the normalised axis -/
theorem angvec2r_cases (th : R) (v : Vec 3 R) (M : Mat 3 3 R) (h : Gen.angvec2r P th v = .ok M) :
    M = one3 ∨ (0 < nrm3 P v ∧ M = rodM (fun i => v i / nrm3 P v) (P.cos th) (P.sin th)) := by
  unfold Gen.angvec2r at h
  simp only [] at h
  split_ifs at h with h1
  · left; injection h with h; rw [← h]; apply Mat.ext33' <;> simp [one3]
  · right
    have hn : 0 < nrm3 P v := lt_of_lt_of_le (by norm_num) (not_lt.mp h1)
    refine ⟨hn, ?_⟩
    injection h with h; rw [← h]
    apply Mat.ext33' <;> simp [rodM, mmul, skew3, one3, nrm3, Fin.sum_univ_three] <;> ring

theorem angvec2r_deg_cases (th : R) (v : Vec 3 R) (M : Mat 3 3 R) (h : Gen.angvec2r_deg P th v = .ok M) :
    M = one3 ∨ (0 < nrm3 P v ∧
      M = rodM (fun i => v i / nrm3 P v) (P.cos (th * P.pi / 180)) (P.sin (th * P.pi / 180))) := by
  unfold Gen.angvec2r_deg at h
  simp only [] at h
  split_ifs at h with h1
  · left; injection h with h; rw [← h]; apply Mat.ext33' <;> simp [one3]
  · right
    have hn : 0 < nrm3 P v := lt_of_lt_of_le (by norm_num) (not_lt.mp h1)
    refine ⟨hn, ?_⟩
    injection h with h; rw [← h]
    apply Mat.ext33' <;> simp [rodM, mmul, skew3, one3, nrm3, Fin.sum_univ_three] <;> ring

end SmVerif.Bridge
