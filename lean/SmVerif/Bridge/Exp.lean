/-
  Bridge.Exp — the generated exponentials `trexp` (3- and 6-vector forms) on their main paths are the
  closed forms of Spec.Rodrigues / Spec.Screw.
-/
import SmVerif.Gen.Transforms3d
import SmVerif.Spec.Screw
import SmVerif.Spec.PrimLaws
import SmVerif.Tactics
import Mathlib.Tactic.NormNum
import Mathlib.Tactic.Linarith
import Mathlib.Tactic.FieldSimp

namespace SmVerif.Bridge
open SmVerif SmVerif.Spec
set_option linter.unusedSectionVars false
set_option linter.unusedTactic false
set_option linter.unreachableTactic false
set_option maxHeartbeats 1000000
variable {R : Type} [Field R] [LinearOrder R] [IsStrictOrderedRing R] (P : Prims R)

theorem sq3_nonneg' (a b c : R) : 0 ≤ a * a + b * b + c * c :=
  add_nonneg (add_nonneg (mul_self_nonneg _) (mul_self_nonneg _)) (mul_self_nonneg _)

theorem sqrt_one' (hS : P.Sqrt) : P.sqrt 1 = 1 := by
  have h := hS.mul_self 1 (by norm_num)
  have h0 := hS.nonneg 1
  have : (P.sqrt 1 - 1) * (P.sqrt 1 + 1) = 0 := by linear_combination h
  rcases mul_eq_zero.mp this with h1 | h1 <;> linarith

/-- every value of trexp(3-vector): identity (|v| below the zero threshold) or Rodrigues about v/|v| by |v| -/
theorem trexp_3_cases (v : Vec 3 R) (M : Mat 3 3 R) (h : Gen.trexp_3 P v = .ok M) :
    M = one3 ∨ (0 < P.sqrt (v 0 * v 0 + v 1 * v 1 + v 2 * v 2) ∧
      M = rodM (fun i => v i / P.sqrt (v 0 * v 0 + v 1 * v 1 + v 2 * v 2))
            (P.cos (P.sqrt (v 0 * v 0 + v 1 * v 1 + v 2 * v 2))) (P.sin (P.sqrt (v 0 * v 0 + v 1 * v 1 + v 2 * v 2)))) := by
  unfold Gen.trexp_3 at h; simp only [] at h
  generalize P.sqrt (v 0 * v 0 + v 1 * v 1 + v 2 * v 2) = n at *
  split_ifs at h with h1 <;> cases h
  · left; apply Mat.ext33' <;> simp [one3]
  · right
    refine ⟨lt_of_lt_of_le (by norm_num) (not_lt.mp h1), ?_⟩
    apply Mat.ext33' <;> simp [rodM, mmul, skew3, one3, Fin.sum_univ_three] <;> ring

/-- the unit vector v/|v| has unit length -/
theorem unit_div (hS : P.Sqrt) (a b c : R) (hn : 0 < P.sqrt (a * a + b * b + c * c)) :
    (a / P.sqrt (a * a + b * b + c * c)) ^ 2 + (b / P.sqrt (a * a + b * b + c * c)) ^ 2 + (c / P.sqrt (a * a + b * b + c * c)) ^ 2 = 1 := by
  have h := hS.mul_self _ (sq3_nonneg' a b c)
  generalize P.sqrt (a * a + b * b + c * c) = n at *
  have hne : n ≠ 0 := ne_of_gt hn
  field_simp
  first | linear_combination h | linear_combination -h

theorem trexp_3_mem (hT : P.Trig) (hS : P.Sqrt) (v : Vec 3 R) (M : Mat 3 3 R) (h : Gen.trexp_3 P v = .ok M) : IsSO3 M := by
  rcases trexp_3_cases P v M h with rfl | ⟨hn, rfl⟩
  · exact IsSO3.one
  · exact rodM_SO3 _ _ _ (unit_div P hS _ _ _ hn) (hT _)

/-- trexp(6-vector) on its rotational path (|w| not below the zero threshold): the screw closed form with
θ = |w|, unit axis w/θ and v/θ -/
theorem trexp_6_rot (hS : P.Sqrt) (S : Vec 6 R) (T : Mat 4 4 R) (h : Gen.trexp_6 P S = .ok T)
    (hw : ¬ (P.sqrt (S 3 * S 3 + S 4 * S 4 + S 5 * S 5) < 5 / 2251799813685248)) :
    T = screwExp (fun i => v3 (S 3) (S 4) (S 5) i / P.sqrt (S 3 * S 3 + S 4 * S 4 + S 5 * S 5))
                 (fun i => v3 (S 0) (S 1) (S 2) i / P.sqrt (S 3 * S 3 + S 4 * S 4 + S 5 * S 5))
                 (P.cos (P.sqrt (S 3 * S 3 + S 4 * S 4 + S 5 * S 5))) (P.sin (P.sqrt (S 3 * S 3 + S 4 * S 4 + S 5 * S 5)))
                 (P.sqrt (S 3 * S 3 + S 4 * S 4 + S 5 * S 5)) := by
  have hθ0 := hS.nonneg (S 3 * S 3 + S 4 * S 4 + S 5 * S 5)
  have hθ := hS.mul_self _ (sq3_nonneg' (S 3) (S 4) (S 5))
  have htot0 := hS.nonneg (S 0 * S 0 + S 1 * S 1 + S 2 * S 2 + S 3 * S 3 + S 4 * S 4 + S 5 * S 5)
  have htot := hS.mul_self (S 0 * S 0 + S 1 * S 1 + S 2 * S 2 + S 3 * S 3 + S 4 * S 4 + S 5 * S 5)
    (by have := sq3_nonneg' (S 0) (S 1) (S 2); have := sq3_nonneg' (S 3) (S 4) (S 5); linarith)
  have pos : 0 < P.sqrt (S 3 * S 3 + S 4 * S 4 + S 5 * S 5) := lt_of_lt_of_le (by norm_num) (not_lt.mp hw)
  have hunit := unit_div P hS (S 3) (S 4) (S 5) pos
  unfold Gen.trexp_6 at h; simp only [] at h
  -- the reordered sum of squares used by the generated code
  have e1 : (S 3 * S 3 + S 4 * S 4 + S 5 * S 5) = S 3 * S 3 + S 4 * S 4 + S 5 * S 5 := rfl
  generalize hθdef : P.sqrt (S 3 * S 3 + S 4 * S 4 + S 5 * S 5) = θ at *
  have hne : θ ≠ 0 := ne_of_gt pos
  split_ifs at h with h5 h65
  · -- whole twist below the zero threshold although |w| is not: impossible, |S| ≥ |w|
    exfalso
    have : θ * θ ≤ P.sqrt (S 0 * S 0 + S 1 * S 1 + S 2 * S 2 + S 3 * S 3 + S 4 * S 4 + S 5 * S 5) * P.sqrt (S 0 * S 0 + S 1 * S 1 + S 2 * S 2 + S 3 * S 3 + S 4 * S 4 + S 5 * S 5) := by
      rw [htot, hθ]; have := sq3_nonneg' (S 0) (S 1) (S 2); linarith
    have hle := (mul_self_le_mul_self_iff hθ0 htot0).mpr this
    linarith [not_lt.mp hw]
  · -- the normalised axis has length 1, it cannot be below the zero threshold
    exfalso
    have e : S 3 / θ * (S 3 / θ) + S 4 / θ * (S 4 / θ) + S 5 / θ * (S 5 / θ) = 1 := by
      have := hunit; field_simp at this ⊢; linear_combination this
    rw [e, sqrt_one' P hS] at h65
    norm_num at h65
  · cases h
    apply Mat.ext44' <;> simp [screwExp, rt3, rodM, Vmat, mvec, mmul, skew3, one3, Fin.sum_univ_three] <;> ring

end SmVerif.Bridge
