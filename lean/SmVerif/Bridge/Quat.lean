/-
  Bridge.Quat — what the *generated* quaternion code (regenerated from /repo on every run)
  computes, expressed in the vocabulary of Spec.Quat.  If the library's formulas change,
  these equalities are re-checked against the new generated definitions.
-/
import SmVerif.Gen.Quaternions
import SmVerif.Spec.Quat
import SmVerif.Tactics

namespace SmVerif.Bridge
open SmVerif SmVerif.Spec
set_option linter.unusedSectionVars false
set_option linter.unusedTactic false
set_option linter.unreachableTactic false
variable {R : Type} [Field R] [LinearOrder R] [IsStrictOrderedRing R]

theorem qqmul (P : Prims R) (a b : Vec 4 R) : Gen.qqmul P a b = .ok (qmul a b) := by
  unfold Gen.qqmul; (try simp only []); first | rfl | (congr 1 <;> ext_lit <;> (try simp [qnpow]) <;> (try ring))

theorem qconj (P : Prims R) (a : Vec 4 R) : Gen.qconj P a = .ok (Spec.qconj a) := by
  unfold Gen.qconj; (try simp only []); first | rfl | (congr 1 <;> ext_lit <;> (try simp [Spec.qconj]) <;> (try ring))

theorem qinner (P : Prims R) (a b : Vec 4 R) : Gen.qinner P a b = .ok (Spec.qinner a b) := by
  unfold Gen.qinner; (try simp only []); first | rfl | (congr 1 <;> ext_lit <;> (try simp [Spec.qinner]) <;> (try ring))

theorem pure (P : Prims R) (v : Vec 3 R) : Gen.pure P v = .ok (qpure v) := by
  unfold Gen.pure; (try simp only []); first | rfl | (congr 1 <;> ext_lit <;> (try simp [qpure]) <;> (try ring))

theorem qmatrix (P : Prims R) (a : Vec 4 R) : Gen.qmatrix P a = .ok (Spec.qmatrix a) := by
  unfold Gen.qmatrix; (try simp only []); first | rfl | (congr 1 <;> ext_lit <;> (try simp [Spec.qmatrix]) <;> (try ring))

theorem q2r (P : Prims R) (a : Vec 4 R) : Gen.q2r P a = .ok (Spec.q2r a) := by
  unfold Gen.q2r; (try simp only []); first | rfl | (congr 1 <;> ext_lit <;> (try simp [Spec.q2r]) <;> (try ring))

theorem qvmul (P : Prims R) (q : Vec 4 R) (v : Vec 3 R) : Gen.qvmul P q v = .ok (Spec.qvmul q v) := by
  unfold Gen.qvmul; (try simp only []); first | rfl | (congr 1 <;> ext_lit <;> (try simp [Spec.qvmul, qvec, qpure]) <;> (try ring))

theorem qnorm (P : Prims R) (a : Vec 4 R) : Gen.qnorm P a = .ok (P.sqrt (qnormsq a)) := by
  unfold Gen.qnorm; simp only [qnormsq]

theorem qpow_0 (P : Prims R) (q : Vec 4 R) : Gen.qpow_0 P q = .ok (qnpow q 0) := by
  unfold Gen.qpow_0; (try simp only []); first | rfl | (congr 1 <;> ext_lit <;> (try simp [qnpow]) <;> (try ring))
theorem qpow_1 (P : Prims R) (q : Vec 4 R) : Gen.qpow_1 P q = .ok (qnpow q 1) := by
  unfold Gen.qpow_1; (try simp only []); first | rfl | (congr 1 <;> ext_lit <;> (try simp [qnpow]) <;> (try ring))
theorem qpow_2 (P : Prims R) (q : Vec 4 R) : Gen.qpow_2 P q = .ok (qnpow q 2) := by
  unfold Gen.qpow_2; (try simp only []); first | rfl | (congr 1 <;> ext_lit <;> (try simp [qnpow]) <;> (try ring))
theorem qpow_3 (P : Prims R) (q : Vec 4 R) : Gen.qpow_3 P q = .ok (qnpow q 3) := by
  unfold Gen.qpow_3; (try simp only []); first | rfl | (congr 1 <;> ext_lit <;> (try simp [qnpow]) <;> (try ring))
theorem qpow_4 (P : Prims R) (q : Vec 4 R) : Gen.qpow_4 P q = .ok (qnpow q 4) := by
  unfold Gen.qpow_4; (try simp only []); first | rfl | (congr 1 <;> ext_lit <;> (try simp [qnpow]) <;> (try ring))
theorem qpow_5 (P : Prims R) (q : Vec 4 R) : Gen.qpow_5 P q = .ok (qnpow q 5) := by
  unfold Gen.qpow_5; (try simp only []); first | rfl | (congr 1 <;> ext_lit <;> (try simp [qnpow]) <;> (try ring))
theorem qpow_6 (P : Prims R) (q : Vec 4 R) : Gen.qpow_6 P q = .ok (qnpow q 6) := by
  unfold Gen.qpow_6; (try simp only []); first | rfl | (congr 1 <;> ext_lit <;> (try simp [qnpow]) <;> (try ring))
theorem qpow_m1 (P : Prims R) (q : Vec 4 R) : Gen.qpow_m1 P q = .ok (Spec.qconj (qnpow q 1)) := by
  unfold Gen.qpow_m1; (try simp only []); first | rfl | (congr 1 <;> ext_lit <;> (try simp [qnpow]) <;> (try ring))
theorem qpow_m2 (P : Prims R) (q : Vec 4 R) : Gen.qpow_m2 P q = .ok (Spec.qconj (qnpow q 2)) := by
  unfold Gen.qpow_m2; (try simp only []); first | rfl | (congr 1 <;> ext_lit <;> (try simp [qnpow]) <;> (try ring))
theorem qpow_m3 (P : Prims R) (q : Vec 4 R) : Gen.qpow_m3 P q = .ok (Spec.qconj (qnpow q 3)) := by
  unfold Gen.qpow_m3; (try simp only []); first | rfl | (congr 1 <;> ext_lit <;> (try simp [qnpow]) <;> (try ring))
theorem qpow_m4 (P : Prims R) (q : Vec 4 R) : Gen.qpow_m4 P q = .ok (Spec.qconj (qnpow q 4)) := by
  unfold Gen.qpow_m4; (try simp only []); first | rfl | (congr 1 <;> ext_lit <;> (try simp [qnpow]) <;> (try ring))
theorem qpow_m5 (P : Prims R) (q : Vec 4 R) : Gen.qpow_m5 P q = .ok (Spec.qconj (qnpow q 5)) := by
  unfold Gen.qpow_m5; (try simp only []); first | rfl | (congr 1 <;> ext_lit <;> (try simp [qnpow]) <;> (try ring))
theorem qpow_m6 (P : Prims R) (q : Vec 4 R) : Gen.qpow_m6 P q = .ok (Spec.qconj (qnpow q 6)) := by
  unfold Gen.qpow_m6; (try simp only []); first | rfl | (congr 1 <;> ext_lit <;> (try simp [qnpow]) <;> (try ring))

theorem qdot (P : Prims R) (q : Vec 4 R) (w : Vec 3 R) :
    Gen.qdot P q w = .ok (fun i => (1 / 2) * qmul (qpure w) q i) := by
  unfold Gen.qdot; (try simp only []); congr 1 <;> ext_lit <;> (try simp [qpure]) <;> (try ring)

theorem qdotb (P : Prims R) (q : Vec 4 R) (w : Vec 3 R) :
    Gen.qdotb P q w = .ok (fun i => (1 / 2) * qmul q (qpure w) i) := by
  unfold Gen.qdotb; (try simp only []); congr 1 <;> ext_lit <;> (try simp [qpure]) <;> (try ring)

/-- the 3-vector product, in terms of the two reconstructed scalar parts -/
theorem vvmul (P : Prims R) (a b : Vec 3 R) :
    Gen.vvmul P a b = .ok (qvec (qmul
      (v4 (P.sqrt (1 - (a 0 ^ 2 + a 1 ^ 2 + a 2 ^ 2))) (a 0) (a 1) (a 2))
      (v4 (P.sqrt (1 - (b 0 ^ 2 + b 1 ^ 2 + b 2 ^ 2))) (b 0) (b 1) (b 2)))) := by
  unfold Gen.vvmul; (try simp only []); congr 1 <;> ext_lit <;> (try simp [qvec]) <;> (try ring)

end SmVerif.Bridge
