/-
  Negative powers (C02): whenever `X ** -k` returns M for a matrix with non-zero determinant, M is the inverse of the k-th
  power: M · Aᵏ = 1 (so in particular for every group element).  The generated model computes `np.linalg.matrix_power`
  for a negative exponent through the adjugate inverse (the tracer's stand-in for LAPACK) — the theorem is about that model;
  the float monitor compares the real `**` with repeated products of the real inverse.
-/
import SmVerif.Tactics
import SmVerif.Spec.Group
import SmVerif.Gen.Poses

namespace SmVerif.Props.NegPow
open SmVerif SmVerif.Spec
set_option linter.unusedSectionVars false
set_option linter.unreachableTactic false
set_option linter.unusedTactic false
set_option maxHeartbeats 1000000
variable {R : Type} [Field R] [LinearOrder R] [IsStrictOrderedRing R] (P : Prims R)


theorem SO2_pow_m1 (A M : Mat 2 2 R) (hd : det2 A ≠ 0) (h : Gen.SO2_pow_m1 P A = .ok M) : mmul M A = one2 := by
  unfold Gen.SO2_pow_m1 at h; simp only [] at h
  have hd' : A 0 0 * A 1 1 - A 0 1 * A 1 0 ≠ 0 := by
    intro e; apply hd; simp only [det2, det3]; linear_combination e
  generalize hD : A 0 0 * A 1 1 - A 0 1 * A 1 0 = D at *
  cases h
  apply Mat.ext22' <;> simp [mmul, one2, Fin.sum_univ_two] <;> field_simp <;>
    first | ring1 | (subst hD; ring1)

theorem SO2_pow_m2 (A M : Mat 2 2 R) (hd : det2 A ≠ 0) (h : Gen.SO2_pow_m2 P A = .ok M) : mmul (mmul M A) A = one2 := by
  unfold Gen.SO2_pow_m2 at h; simp only [] at h
  have hd' : A 0 0 * A 1 1 - A 0 1 * A 1 0 ≠ 0 := by
    intro e; apply hd; simp only [det2, det3]; linear_combination e
  generalize hD : A 0 0 * A 1 1 - A 0 1 * A 1 0 = D at *
  cases h
  apply Mat.ext22' <;> simp [mmul, one2, Fin.sum_univ_two] <;> field_simp <;>
    first | ring1 | (subst hD; ring1)

theorem SO2_pow_m3 (A M : Mat 2 2 R) (hd : det2 A ≠ 0) (h : Gen.SO2_pow_m3 P A = .ok M) : mmul (mmul (mmul M A) A) A = one2 := by
  unfold Gen.SO2_pow_m3 at h; simp only [] at h
  have hd' : A 0 0 * A 1 1 - A 0 1 * A 1 0 ≠ 0 := by
    intro e; apply hd; simp only [det2, det3]; linear_combination e
  generalize hD : A 0 0 * A 1 1 - A 0 1 * A 1 0 = D at *
  cases h
  apply Mat.ext22' <;> simp [mmul, one2, Fin.sum_univ_two] <;> field_simp <;>
    first | ring1 | (subst hD; ring1)

theorem SO3_pow_m1 (A M : Mat 3 3 R) (hd : det3 A ≠ 0) (h : Gen.SO3_pow_m1 P A = .ok M) : mmul M A = one3 := by
  unfold Gen.SO3_pow_m1 at h; simp only [] at h
  have hd' : A 0 0 * (A 1 1 * A 2 2 - A 1 2 * A 2 1) - A 0 1 * (A 1 0 * A 2 2 - A 1 2 * A 2 0) + A 0 2 * (A 1 0 * A 2 1 - A 1 1 * A 2 0) ≠ 0 := by
    intro e; apply hd; simp only [det2, det3]; linear_combination e
  generalize hD : A 0 0 * (A 1 1 * A 2 2 - A 1 2 * A 2 1) - A 0 1 * (A 1 0 * A 2 2 - A 1 2 * A 2 0) + A 0 2 * (A 1 0 * A 2 1 - A 1 1 * A 2 0) = D at *
  cases h
  apply Mat.ext33' <;> simp [mmul, one3, Fin.sum_univ_three] <;> field_simp <;>
    first | ring1 | (subst hD; ring1)

theorem SO3_pow_m2 (A M : Mat 3 3 R) (hd : det3 A ≠ 0) (h : Gen.SO3_pow_m2 P A = .ok M) : mmul (mmul M A) A = one3 := by
  unfold Gen.SO3_pow_m2 at h; simp only [] at h
  have hd' : A 0 0 * (A 1 1 * A 2 2 - A 1 2 * A 2 1) - A 0 1 * (A 1 0 * A 2 2 - A 1 2 * A 2 0) + A 0 2 * (A 1 0 * A 2 1 - A 1 1 * A 2 0) ≠ 0 := by
    intro e; apply hd; simp only [det2, det3]; linear_combination e
  generalize hD : A 0 0 * (A 1 1 * A 2 2 - A 1 2 * A 2 1) - A 0 1 * (A 1 0 * A 2 2 - A 1 2 * A 2 0) + A 0 2 * (A 1 0 * A 2 1 - A 1 1 * A 2 0) = D at *
  cases h
  apply Mat.ext33' <;> simp [mmul, one3, Fin.sum_univ_three] <;> field_simp <;>
    first | ring1 | (subst hD; ring1)

theorem SE2_pow_m1 (A M : Mat 3 3 R) (hd : det3 A ≠ 0) (h : Gen.SE2_pow_m1 P A = .ok M) : mmul M A = one3 := by
  unfold Gen.SE2_pow_m1 at h; simp only [] at h
  have hd' : A 0 0 * (A 1 1 * A 2 2 - A 1 2 * A 2 1) - A 0 1 * (A 1 0 * A 2 2 - A 1 2 * A 2 0) + A 0 2 * (A 1 0 * A 2 1 - A 1 1 * A 2 0) ≠ 0 := by
    intro e; apply hd; simp only [det2, det3]; linear_combination e
  generalize hD : A 0 0 * (A 1 1 * A 2 2 - A 1 2 * A 2 1) - A 0 1 * (A 1 0 * A 2 2 - A 1 2 * A 2 0) + A 0 2 * (A 1 0 * A 2 1 - A 1 1 * A 2 0) = D at *
  cases h
  apply Mat.ext33' <;> simp [mmul, one3, Fin.sum_univ_three] <;> field_simp <;>
    first | ring1 | (subst hD; ring1)

theorem SE2_pow_m2 (A M : Mat 3 3 R) (hd : det3 A ≠ 0) (h : Gen.SE2_pow_m2 P A = .ok M) : mmul (mmul M A) A = one3 := by
  unfold Gen.SE2_pow_m2 at h; simp only [] at h
  have hd' : A 0 0 * (A 1 1 * A 2 2 - A 1 2 * A 2 1) - A 0 1 * (A 1 0 * A 2 2 - A 1 2 * A 2 0) + A 0 2 * (A 1 0 * A 2 1 - A 1 1 * A 2 0) ≠ 0 := by
    intro e; apply hd; simp only [det2, det3]; linear_combination e
  generalize hD : A 0 0 * (A 1 1 * A 2 2 - A 1 2 * A 2 1) - A 0 1 * (A 1 0 * A 2 2 - A 1 2 * A 2 0) + A 0 2 * (A 1 0 * A 2 1 - A 1 1 * A 2 0) = D at *
  cases h
  apply Mat.ext33' <;> simp [mmul, one3, Fin.sum_univ_three] <;> field_simp <;>
    first | ring1 | (subst hD; ring1)

end SmVerif.Props.NegPow
