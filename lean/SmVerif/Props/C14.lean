/-
  C14 — normalisation projects onto the group and is idempotent.
  Exact statements over any ordered field with `sqrt` the non-negative square root and `floor` the integer
  floor; the 1e-12 float statement is explored by smv/props/c14.py.
-/
import SmVerif.Gen.Transforms3d
import SmVerif.Gen.Vectors
import SmVerif.Gen.Quaternions
import SmVerif.Spec.Frame
import SmVerif.Spec.SO3Facts
import SmVerif.Spec.Quat
import SmVerif.Spec.PrimLaws
import Mathlib.Tactic.NormNum
import Mathlib.Tactic.Linarith
import Mathlib.Tactic.FieldSimp

namespace SmVerif.Props.C14
open SmVerif SmVerif.Spec
set_option linter.unusedSectionVars false
set_option linter.unusedTactic false
set_option linter.unreachableTactic false
variable {R : Type} [Field R] [LinearOrder R] [IsStrictOrderedRing R] (P : Prims R)

theorem sq3_nonneg (a b c : R) : 0 ≤ a * a + b * b + c * c :=
  add_nonneg (add_nonneg (mul_self_nonneg _) (mul_self_nonneg _)) (mul_self_nonneg _)

theorem sqrt_one (hS : P.Sqrt) : P.sqrt 1 = 1 := by
  have h := hS.mul_self 1 (by norm_num)
  have h0 := hS.nonneg 1
  have : (P.sqrt 1 - 1) * (P.sqrt 1 + 1) = 0 := by linear_combination h
  rcases mul_eq_zero.mp this with h1 | h1
  · linarith
  · linarith

/-- two positive numbers with equal squares are equal -/
theorem eq_of_sq_eq {x y : R} (hx : 0 < x) (hy : 0 < y) (h : x * x = y * y) : x = y := by
  have : (x - y) * (x + y) = 0 := by linear_combination h
  rcases mul_eq_zero.mp this with h1 | h1
  · linarith
  · linarith

/-! ### matrix normalisation -/

/-- the vectors `trnorm` builds from the second (o) and third (a) columns -/
def nvec (m : Mat 3 3 R) : Vec 3 R := cross3 (v3 (m 0 1) (m 1 1) (m 2 1)) (v3 (m 0 2) (m 1 2) (m 2 2))
def avec (m : Mat 3 3 R) : Vec 3 R := v3 (m 0 2) (m 1 2) (m 2 2)
def ovec (m : Mat 3 3 R) : Vec 3 R := cross3 (avec m) (nvec m)

/-- every value returned by trnorm is the frame (n/|n|, o'/|o'|, a/|a|) with n = o × a, o' = a × n -/
theorem trnorm_R_value (m M : Mat 3 3 R) (h : Gen.trnorm_R P m = .ok M) :
    0 < P.sqrt (dot (nvec m) (nvec m)) ∧ 0 < P.sqrt (dot (ovec m) (ovec m)) ∧ 0 < P.sqrt (dot (avec m) (avec m)) ∧
    M = colsDiv (nvec m) (ovec m) (avec m) (P.sqrt (dot (nvec m) (nvec m))) (P.sqrt (dot (ovec m) (ovec m))) (P.sqrt (dot (avec m) (avec m))) := by
  unfold Gen.trnorm_R at h
  simp only [] at h
  have en : dot (nvec m) (nvec m) = (m 1 1 * m 2 2 - m 2 1 * m 1 2) * (m 1 1 * m 2 2 - m 2 1 * m 1 2)
      + (m 2 1 * m 0 2 - m 0 1 * m 2 2) * (m 2 1 * m 0 2 - m 0 1 * m 2 2) + (m 0 1 * m 1 2 - m 1 1 * m 0 2) * (m 0 1 * m 1 2 - m 1 1 * m 0 2) := by
    simp [dot, nvec, cross3, Fin.sum_univ_three]
  have ea : dot (avec m) (avec m) = m 0 2 * m 0 2 + m 1 2 * m 1 2 + m 2 2 * m 2 2 := by
    simp [dot, avec, Fin.sum_univ_three]
  have eo : dot (ovec m) (ovec m) =
      (m 1 2 * (m 0 1 * m 1 2 - m 1 1 * m 0 2) - m 2 2 * (m 2 1 * m 0 2 - m 0 1 * m 2 2)) * (m 1 2 * (m 0 1 * m 1 2 - m 1 1 * m 0 2) - m 2 2 * (m 2 1 * m 0 2 - m 0 1 * m 2 2))
      + (m 2 2 * (m 1 1 * m 2 2 - m 2 1 * m 1 2) - m 0 2 * (m 0 1 * m 1 2 - m 1 1 * m 0 2)) * (m 2 2 * (m 1 1 * m 2 2 - m 2 1 * m 1 2) - m 0 2 * (m 0 1 * m 1 2 - m 1 1 * m 0 2))
      + (m 0 2 * (m 2 1 * m 0 2 - m 0 1 * m 2 2) - m 1 2 * (m 1 1 * m 2 2 - m 2 1 * m 1 2)) * (m 0 2 * (m 2 1 * m 0 2 - m 0 1 * m 2 2) - m 1 2 * (m 1 1 * m 2 2 - m 2 1 * m 1 2)) := by
    simp [dot, ovec, avec, nvec, cross3, Fin.sum_univ_three]
  rw [en, eo, ea]
  split_ifs at h with h1 h2 h3
  · have p1 := lt_trans (by norm_num : (0 : R) < 25 / 1125899906842624) h1
    have p2 := lt_trans (by norm_num : (0 : R) < 25 / 1125899906842624) h2
    have p3 := lt_trans (by norm_num : (0 : R) < 25 / 1125899906842624) h3
    refine ⟨p1, p2, p3, ?_⟩
    injection h with h; rw [← h]
    apply Mat.ext33' <;> simp [colsDiv, nvec, ovec, avec, cross3]
  all_goals cases h

/-- trnorm returns a proper rotation matrix whenever it returns -/
theorem trnorm_R_mem (hS : P.Sqrt) (m M : Mat 3 3 R) (h : Gen.trnorm_R P m = .ok M) : IsSO3 M := by
  obtain ⟨pn, po, pa, rfl⟩ := trnorm_R_value P m M h
  have hn := hS.mul_self (dot (nvec m) (nvec m)) (by simp only [dot, Fin.sum_univ_three]; exact sq3_nonneg _ _ _)
  have ho := hS.mul_self (dot (ovec m) (ovec m)) (by simp only [dot, Fin.sum_univ_three]; exact sq3_nonneg _ _ _)
  have ha := hS.mul_self (dot (avec m) (avec m)) (by simp only [dot, Fin.sum_univ_three]; exact sq3_nonneg _ _ _)
  set a := P.sqrt (dot (nvec m) (nvec m)) with hadef
  set b := P.sqrt (dot (ovec m) (ovec m)) with hbdef
  set c := P.sqrt (dot (avec m) (avec m)) with hcdef
  -- |a × n| = |a| |n| because n ⟂ a
  have hna : dot (nvec m) (avec m) = 0 := by simp [dot, nvec, avec, cross3, Fin.sum_univ_three]; ring
  have hoo : dot (ovec m) (ovec m) = dot (nvec m) (nvec m) * dot (avec m) (avec m) := by
    simp [dot, ovec, nvec, avec, cross3, Fin.sum_univ_three]; ring
  have hb : b = a * c := by
    apply eq_of_sq_eq po (mul_pos pn pa)
    rw [ho, hoo, ← hn, ← ha]; ring
  apply colsDiv_SO3 _ _ _ _ _ _ (ne_of_gt pn) (ne_of_gt po) (ne_of_gt pa) hn ho ha
  · simp [dot, ovec, nvec, avec, cross3, Fin.sum_univ_three]; ring
  · exact hna
  · simp [dot, ovec, nvec, avec, cross3, Fin.sum_univ_three]; ring
  · have : dot (nvec m) (cross3 (ovec m) (avec m)) = dot (nvec m) (nvec m) * dot (avec m) (avec m) := by
      simp [dot, ovec, nvec, avec, cross3, Fin.sum_univ_three]; ring
    rw [this, hb, ← hn, ← ha]; ring

/-- the third (approach) axis keeps its direction; the second axis stays in the plane of the original second
and third axes (it is orthogonal to their cross product) -/
theorem trnorm_R_directions (m M : Mat 3 3 R) (h : Gen.trnorm_R P m = .ok M) :
    (∀ i, M i 2 * P.sqrt (dot (avec m) (avec m)) = m i 2) ∧
    (M 0 1 * nvec m 0 + M 1 1 * nvec m 1 + M 2 1 * nvec m 2 = 0) := by
  obtain ⟨pn, po, pa, rfl⟩ := trnorm_R_value P m M h
  generalize P.sqrt (dot (nvec m) (nvec m)) = a at *
  generalize P.sqrt (dot (ovec m) (ovec m)) = b at *
  generalize P.sqrt (dot (avec m) (avec m)) = c at *
  have hb : b ≠ 0 := ne_of_gt po
  have hc : c ≠ 0 := ne_of_gt pa
  constructor
  · intro i; fin_cases i <;> simp [colsDiv, avec] <;> field_simp
  · simp [colsDiv]; field_simp
    simp [ovec, nvec, avec, cross3]; ring

/-- conversely: when the three lengths exceed the library's threshold, trnorm returns that frame -/
theorem trnorm_R_eval (m : Mat 3 3 R)
    (p1 : P.sqrt (dot (nvec m) (nvec m)) > 25 / 1125899906842624) (p2 : P.sqrt (dot (ovec m) (ovec m)) > 25 / 1125899906842624)
    (p3 : P.sqrt (dot (avec m) (avec m)) > 25 / 1125899906842624) :
    Gen.trnorm_R P m = .ok (colsDiv (nvec m) (ovec m) (avec m) (P.sqrt (dot (nvec m) (nvec m)))
      (P.sqrt (dot (ovec m) (ovec m))) (P.sqrt (dot (avec m) (avec m)))) := by
  have en : dot (nvec m) (nvec m) = (m 1 1 * m 2 2 - m 2 1 * m 1 2) * (m 1 1 * m 2 2 - m 2 1 * m 1 2)
      + (m 2 1 * m 0 2 - m 0 1 * m 2 2) * (m 2 1 * m 0 2 - m 0 1 * m 2 2) + (m 0 1 * m 1 2 - m 1 1 * m 0 2) * (m 0 1 * m 1 2 - m 1 1 * m 0 2) := by
    simp [dot, nvec, cross3, Fin.sum_univ_three]
  have ea : dot (avec m) (avec m) = m 0 2 * m 0 2 + m 1 2 * m 1 2 + m 2 2 * m 2 2 := by
    simp [dot, avec, Fin.sum_univ_three]
  have eo : dot (ovec m) (ovec m) =
      (m 1 2 * (m 0 1 * m 1 2 - m 1 1 * m 0 2) - m 2 2 * (m 2 1 * m 0 2 - m 0 1 * m 2 2)) * (m 1 2 * (m 0 1 * m 1 2 - m 1 1 * m 0 2) - m 2 2 * (m 2 1 * m 0 2 - m 0 1 * m 2 2))
      + (m 2 2 * (m 1 1 * m 2 2 - m 2 1 * m 1 2) - m 0 2 * (m 0 1 * m 1 2 - m 1 1 * m 0 2)) * (m 2 2 * (m 1 1 * m 2 2 - m 2 1 * m 1 2) - m 0 2 * (m 0 1 * m 1 2 - m 1 1 * m 0 2))
      + (m 0 2 * (m 2 1 * m 0 2 - m 0 1 * m 2 2) - m 1 2 * (m 1 1 * m 2 2 - m 2 1 * m 1 2)) * (m 0 2 * (m 2 1 * m 0 2 - m 0 1 * m 2 2) - m 1 2 * (m 1 1 * m 2 2 - m 2 1 * m 1 2)) := by
    simp [dot, ovec, avec, nvec, cross3, Fin.sum_univ_three]
  rw [en] at p1; rw [eo] at p2; rw [ea] at p3
  rw [en, eo, ea]
  unfold Gen.trnorm_R
  simp only []
  rw [if_pos p1, if_pos p2, if_pos p3]
  first | rfl | (congr 1 <;> apply Mat.ext33' <;> simp [colsDiv, nvec, ovec, avec, cross3])

/-- an already valid rotation matrix is returned unchanged; hence normalising twice changes nothing -/
theorem trnorm_R_fix (hS : P.Sqrt) (m : Mat 3 3 R) (hm : IsSO3 m) : Gen.trnorm_R P m = .ok m := by
  obtain ⟨c00, c01, c02, c10, c11, c12, c20, c21, c22⟩ := hm.cof
  have o := hm.transpose_mul
  have o00 := congrFun (congrFun o 0) 0; have o11 := congrFun (congrFun o 1) 1; have o22 := congrFun (congrFun o 2) 2
  simp [mmul, mT, one3, Fin.sum_univ_three] at o00 o11 o22
  have s1 := sqrt_one P hS
  -- n = o × a is the first column, o' = a × n is the second column
  have hn : nvec m = v3 (m 0 0) (m 1 0) (m 2 0) := by
    apply Vec.ext3 <;> simp [nvec, cross3]
    · first | linear_combination c00 | linear_combination -c00
    · first | linear_combination c10 | linear_combination -c10
    · first | linear_combination c20 | linear_combination -c20
  have ho : ovec m = v3 (m 0 1) (m 1 1) (m 2 1) := by
    rw [ovec, hn]
    apply Vec.ext3 <;> simp [avec, cross3]
    · first | linear_combination c01 | linear_combination -c01
    · first | linear_combination c11 | linear_combination -c11
    · first | linear_combination c21 | linear_combination -c21
  have dn : dot (nvec m) (nvec m) = 1 := by rw [hn]; simp [dot, Fin.sum_univ_three]; linear_combination o00
  have d_o : dot (ovec m) (ovec m) = 1 := by rw [ho]; simp [dot, Fin.sum_univ_three]; linear_combination o11
  have da : dot (avec m) (avec m) = 1 := by simp [dot, avec, Fin.sum_univ_three]; linear_combination o22
  have big : (1 : R) > 25 / 1125899906842624 := by norm_num
  rw [trnorm_R_eval P m (by rw [dn, s1]; exact big) (by rw [d_o, s1]; exact big) (by rw [da, s1]; exact big)]
  congr 1
  rw [dn, d_o, da, s1, hn, ho]
  apply Mat.ext33' <;> simp [colsDiv, avec]

theorem trnorm_R_idempotent (hS : P.Sqrt) (m M : Mat 3 3 R) (h : Gen.trnorm_R P m = .ok M) :
    Gen.trnorm_R P M = .ok M :=
  trnorm_R_fix P hS M (trnorm_R_mem P hS m M h)

/-! ### vectors and quaternions -/

/-- unitvec: unit length, same direction, idempotent -/
theorem unitvec_unit (hS : P.Sqrt) (v u : Vec 3 R) (h : Gen.unitvec3 P v = .ok u) :
    dot u u = 1 ∧ ∃ k : R, 0 < k ∧ ∀ i, u i * k = v i := by
  unfold Gen.unitvec3 at h; simp only [] at h
  have hs := hS.mul_self _ (sq3_nonneg (v 0) (v 1) (v 2))
  generalize P.sqrt (v 0 * v 0 + v 1 * v 1 + v 2 * v 2) = n at *
  split_ifs at h with h1 <;> cases h
  have pos := lt_trans (by norm_num : (0 : R) < 25 / 1125899906842624) h1
  have hne : n ≠ 0 := ne_of_gt pos
  constructor
  · simp [dot, Fin.sum_univ_three]; field_simp; linear_combination -hs
  · refine ⟨n, pos, ?_⟩
    intro i; fin_cases i <;> simp <;> field_simp

theorem unitvec_fix (hS : P.Sqrt) (u : Vec 3 R) (hu : dot u u = 1) : Gen.unitvec3 P u = .ok u := by
  simp only [dot, Fin.sum_univ_three] at hu
  unfold Gen.unitvec3
  simp only [hu, sqrt_one P hS]
  have big : (1 : R) > 25 / 1125899906842624 := by norm_num
  simp only [big, if_true, div_one]
  congr 1; apply Vec.ext3 <;> simp

/-- quaternion unit(): norm 1, direction kept; already-unit quaternions unchanged -/
theorem qunit_unit (hS : P.Sqrt) (q u : Vec 4 R) (h : Gen.qunit P q = .ok u) :
    qnormsq u = 1 ∧ ∃ k : R, 0 < k ∧ ∀ i, u i * k = q i := by
  unfold Gen.qunit at h; simp only [] at h
  have nn : 0 ≤ q 0 * q 0 + q 1 * q 1 + q 2 * q 2 + q 3 * q 3 :=
    add_nonneg (sq3_nonneg _ _ _) (mul_self_nonneg _)
  have hs := hS.mul_self _ nn
  have h0 := hS.nonneg (q 0 * q 0 + q 1 * q 1 + q 2 * q 2 + q 3 * q 3)
  generalize P.sqrt (q 0 * q 0 + q 1 * q 1 + q 2 * q 2 + q 3 * q 3) = n at *
  split_ifs at h with h1 <;> cases h
  have hpos : 0 < n := by
    rcases lt_or_eq_of_le h0 with hlt | heq
    · exact hlt
    · exfalso; apply h1; rw [← heq]; simp
  have hne : n ≠ 0 := ne_of_gt hpos
  constructor
  · simp [qnormsq]; field_simp; linear_combination -hs
  · refine ⟨n, hpos, ?_⟩
    intro i; fin_cases i <;> simp <;> field_simp

theorem qunit_fix (hS : P.Sqrt) (q : Vec 4 R) (hq : qnormsq q = 1) : Gen.qunit P q = .ok q := by
  simp only [qnormsq] at hq
  unfold Gen.qunit
  simp only [hq, sqrt_one P hS]
  have : ¬ (|(1 : R)| < 5 / 2251799813685248) := by rw [abs_one]; norm_num
  simp only [this, if_false, div_one]
  congr 1; apply Vec.ext4 <;> simp

/-- trnorm on a 4×4 matrix normalises the rotation block exactly as on the 3×3 matrix, keeps the translation and sets the last row -/
theorem trnorm_T_value (T M : Mat 4 4 R) (h : Gen.trnorm_T P T = .ok M) :
    ∃ Rn, Gen.trnorm_R P (rotOf3 T) = .ok Rn ∧ M = rt3 Rn (trOf3 T) := by
  unfold Gen.trnorm_T at h; unfold Gen.trnorm_R; simp only [rotOf3, trOf3, v3_0, v3_1, v3_2] at *
  split_ifs at h with h1 h2 h3 <;> cases h
  simp only [h1, h2, h3, if_true]
  refine ⟨_, rfl, ?_⟩
  ext_lit <;> simp [rt3]

/-- the result is a rigid motion: rotation block in SO(3), last row (0 0 0 1), translation unchanged -/
theorem trnorm_T_mem (hS : P.Sqrt) (T M : Mat 4 4 R) (h : Gen.trnorm_T P T = .ok M) :
    IsSO3 (rotOf3 M) ∧ trOf3 M = trOf3 T ∧ M 3 0 = 0 ∧ M 3 1 = 0 ∧ M 3 2 = 0 ∧ M 3 3 = 1 := by
  obtain ⟨Rn, hR, rfl⟩ := trnorm_T_value P T M h
  have hm := trnorm_R_mem P hS _ Rn hR
  refine ⟨?_, ?_, by simp [rt3], by simp [rt3], by simp [rt3], by simp [rt3]⟩
  · have : rotOf3 (rt3 Rn (trOf3 T)) = Rn := by ext_lit <;> simp [rotOf3, rt3]
    rw [this]; exact hm
  · apply Vec.ext3 <;> simp [trOf3, rt3]

/-! ### unit twists: unit rotational part, or unit translational part when irrotational -/

theorem unittwist_cases (hS : P.Sqrt) (S U : Vec 6 R) (h : Gen.unittwist P S = .ok U) :
    (U 3 * U 3 + U 4 * U 4 + U 5 * U 5 = 1 ∨
      (P.sqrt (S 3 * S 3 + S 4 * S 4 + S 5 * S 5) < 5 / 2251799813685248 ∧ U 0 * U 0 + U 1 * U 1 + U 2 * U 2 = 1))
    ∧ ∃ k : R, 0 < k ∧ ∀ i, U i * k = S i := by
  unfold Gen.unittwist at h; simp only [] at h
  have hv := hS.mul_self _ (sq3_nonneg (S 0) (S 1) (S 2))
  have hw := hS.mul_self _ (sq3_nonneg (S 3) (S 4) (S 5))
  have hv0 := hS.nonneg (S 0 * S 0 + S 1 * S 1 + S 2 * S 2)
  split_ifs at h with h1 h2 <;> cases h
  · -- irrotational: normalised by |v|, which is positive because the whole twist is not (near) zero
    have pos : 0 < P.sqrt (S 0 * S 0 + S 1 * S 1 + S 2 * S 2) := by
      rcases lt_or_eq_of_le hv0 with hlt | heq
      · exact hlt
      · exfalso
        have z : S 0 * S 0 + S 1 * S 1 + S 2 * S 2 = 0 := by rw [← hv, ← heq]; ring
        apply h1
        have e : S 0 * S 0 + S 1 * S 1 + S 2 * S 2 + S 3 * S 3 + S 4 * S 4 + S 5 * S 5 = S 3 * S 3 + S 4 * S 4 + S 5 * S 5 := by
          linear_combination z
        rw [e]; exact h2
    generalize P.sqrt (S 0 * S 0 + S 1 * S 1 + S 2 * S 2) = n at *
    have hne : n ≠ 0 := ne_of_gt pos
    constructor
    · right; refine ⟨h2, ?_⟩
      simp; field_simp; linear_combination -hv
    · refine ⟨n, pos, ?_⟩
      intro i; fin_cases i <;> simp <;> field_simp
  · have pos : 0 < P.sqrt (S 3 * S 3 + S 4 * S 4 + S 5 * S 5) := lt_of_lt_of_le (by norm_num) (not_lt.mp h2)
    generalize P.sqrt (S 3 * S 3 + S 4 * S 4 + S 5 * S 5) = n at *
    have hne : n ≠ 0 := ne_of_gt pos
    constructor
    · left; simp; field_simp; linear_combination -hw
    · refine ⟨n, pos, ?_⟩
      intro i; fin_cases i <;> simp <;> field_simp

/-! ### angle wrapping -/

/-- `floor` is the integer floor -/
structure FloorLaw (P : Prims R) : Prop where
  le : ∀ x, P.floor x ≤ x
  lt : ∀ x, x < P.floor x + 1
  int : ∀ x, ∃ k : ℤ, P.floor x = (k : R)

/-- angdiff(a, b) ∈ [-π, π) and is congruent to a − b modulo 2π -/
theorem angdiff2_spec (hF : FloorLaw P) (hpi : 0 < P.pi) (a b r : R) (h : Gen.angdiff2 P a b = .ok r) :
    -P.pi ≤ r ∧ r < P.pi ∧ ∃ k : ℤ, r = a - b - 2 * P.pi * (k : R) := by
  unfold Gen.angdiff2 at h; simp only [] at h; cases h
  have h2 : (0 : R) < 2 * P.pi := by linarith
  have l1 := hF.le ((a - b + P.pi) / (2 * P.pi))
  have l2 := hF.lt ((a - b + P.pi) / (2 * P.pi))
  obtain ⟨k, hk⟩ := hF.int ((a - b + P.pi) / (2 * P.pi))
  generalize P.floor ((a - b + P.pi) / (2 * P.pi)) = f at *
  have m1 : 2 * P.pi * f ≤ a - b + P.pi := by
    have := mul_le_mul_of_nonneg_left l1 (le_of_lt h2)
    rwa [mul_div_cancel₀ _ (ne_of_gt h2)] at this
  have m2 : a - b + P.pi < 2 * P.pi * (f + 1) := by
    have := mul_lt_mul_of_pos_left l2 h2
    rwa [mul_div_cancel₀ _ (ne_of_gt h2)] at this
  refine ⟨by linarith, by linarith, k, ?_⟩
  rw [← hk]; ring

theorem angdiff1_spec (hF : FloorLaw P) (hpi : 0 < P.pi) (a r : R) (h : Gen.angdiff1 P a = .ok r) :
    -P.pi ≤ r ∧ r < P.pi ∧ ∃ k : ℤ, r = a - 2 * P.pi * (k : R) := by
  unfold Gen.angdiff1 at h; simp only [] at h; cases h
  have h2 : (0 : R) < 2 * P.pi := by linarith
  have l1 := hF.le ((a + P.pi) / (2 * P.pi))
  have l2 := hF.lt ((a + P.pi) / (2 * P.pi))
  obtain ⟨k, hk⟩ := hF.int ((a + P.pi) / (2 * P.pi))
  generalize P.floor ((a + P.pi) / (2 * P.pi)) = f at *
  have m1 : 2 * P.pi * f ≤ a + P.pi := by
    have := mul_le_mul_of_nonneg_left l1 (le_of_lt h2)
    rwa [mul_div_cancel₀ _ (ne_of_gt h2)] at this
  have m2 : a + P.pi < 2 * P.pi * (f + 1) := by
    have := mul_lt_mul_of_pos_left l2 h2
    rwa [mul_div_cancel₀ _ (ne_of_gt h2)] at this
  refine ⟨by linarith, by linarith, k, ?_⟩
  rw [← hk]; ring

end SmVerif.Props.C14
