/-
  C01 for the orientation/approach constructor: `oa2r(o, a)` builds the same frame as `trnorm` applied to a matrix whose
  second and third columns are o and a, so every value it returns is a proper rotation matrix (for any o, a — orthogonal or
  not, any lengths); the class constructors SO3.OA / SE3.OA delegate to it.
-/
import SmVerif.Props.C14
import SmVerif.Props.Delegation

namespace SmVerif.Props.OA
open SmVerif SmVerif.Spec SmVerif.Props.C14
set_option linter.unusedSectionVars false
variable {R : Type} [Field R] [LinearOrder R] [IsStrictOrderedRing R] (P : Prims R)

def oam (o a : Vec 3 R) : Mat 3 3 R := v3 (v3 0 (o 0) (a 0)) (v3 0 (o 1) (a 1)) (v3 0 (o 2) (a 2))

theorem oa2r_value (o a : Vec 3 R) (M : Mat 3 3 R) (h : Gen.oa2r P o a = .ok M) : Gen.trnorm_R P (oam o a) = .ok M := by
  unfold Gen.oa2r at h; unfold Gen.trnorm_R; simp only [oam, v3_0, v3_1, v3_2] at *
  split_ifs at h with h1 h2 h3 <;> cases h
  simp only [h1, h2, h3, if_true]

/-- closure: whatever oa2r returns is in SO(3) -/
theorem oa2r_mem (hS : P.Sqrt) (o a : Vec 3 R) (M : Mat 3 3 R) (h : Gen.oa2r P o a = .ok M) : IsSO3 M :=
  trnorm_R_mem P hS _ M (oa2r_value P o a M h)

/-- the third column is a / |a| (the approach direction is kept) -/
theorem oa2r_approach (o a : Vec 3 R) (M : Mat 3 3 R) (h : Gen.oa2r P o a = .ok M) :
    ∀ i, M i 2 * P.sqrt (a 0 * a 0 + a 1 * a 1 + a 2 * a 2) = a i := by
  have := (trnorm_R_directions P (oam o a) M (oa2r_value P o a M h)).1
  intro i
  have hi := this i
  simpa [oam, avec, dot, Fin.sum_univ_three] using (by fin_cases i <;> simpa [oam, avec, dot, Fin.sum_univ_three] using hi)

theorem SO3_OA_mem (hS : P.Sqrt) (o a : Vec 3 R) (M : Mat 3 3 R) (h : Gen.SO3_OA P o a = .ok M) : IsSO3 M := by
  rw [Delegation.SO3_OA_delegates] at h; exact oa2r_mem P hS o a M h

end SmVerif.Props.OA
