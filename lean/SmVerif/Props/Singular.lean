/-
  C05 — the exactly singular configurations: pitch = ±90° for the three roll-pitch-yaw orders and a middle Euler angle of
  0 or π.  There the extraction code sets the first angle to 0 and folds it into the last one; rebuilding reproduces R.
  (Inside the 10·eps band around the singularity but not on it the reconstruction is approximate — explored by the monitor.)
-/
import SmVerif.Props.C05

namespace SmVerif.Props.Singular
open SmVerif SmVerif.Spec SmVerif.Bridge SmVerif.Props.C05
set_option linter.unusedSectionVars false
set_option linter.unusedTactic false
set_option linter.unreachableTactic false
set_option linter.unusedVariables false
set_option maxHeartbeats 2000000
variable {R : Type} [Field R] [LinearOrder R] [IsStrictOrderedRing R] (P : Prims R)

/-- asin inverts sin on [-1, 1] -/
def AsinLaw (P : Prims R) : Prop := ∀ x : R, x * x ≤ 1 → P.sin (P.asin x) = x
/-- sin 0 = 0, cos 0 = 1 -/
def ZeroLaw (P : Prims R) : Prop := P.sin 0 = 0 ∧ P.cos 0 = 1

theorem cos_zero_of_sin_sq (hT : P.Trig) (a : R) (h : P.sin a * P.sin a = 1) : P.cos a = 0 := by
  have := hT a
  have h2 : P.cos a * P.cos a = 0 := by linarith
  exact mul_self_eq_zero.mp h2

/-- ZYX order, pitch = ±90° exactly (R[2,0] = ∓1): rpy2r(tr2rpy(R)) = R -/
theorem tr2rpy_zyx_singular (hT : P.Trig) (hZ : ZeroLaw P) (hAs : AsinLaw P) (hA : Atan2Circle P) (hN : NegLaw P)
    (M : Mat 3 3 R) (hM : IsSO3 M) (hs : M 2 0 = 1 ∨ M 2 0 = -1) (v : Vec 3 R) (h : Gen.tr2rpy_zyx P M = .ok v) :
    Gen.rpy2r_zyx_rad P v = .ok M := by
  obtain ⟨c00, c01, c02, c10, c11, c12, c20, c21, c22⟩ := hM.cof
  have col0 : M 0 0 * M 0 0 + M 1 0 * M 1 0 + M 2 0 * M 2 0 = 1 := by
    have e := congrFun (congrFun hM.transpose_mul 0) 0
    simpa [mmul, mT, one3, Fin.sum_univ_three] using e
  have row2 : M 2 0 * M 2 0 + M 2 1 * M 2 1 + M 2 2 * M 2 2 = 1 := by
    have e := congrFun (congrFun hM.orth 2) 2
    simpa [mmul, mT, one3, Fin.sum_univ_three] using e
  have row0 : M 0 0 * M 0 0 + M 0 1 * M 0 1 + M 0 2 * M 0 2 = 1 := by
    have e := congrFun (congrFun hM.orth 0) 0
    simpa [mmul, mT, one3, Fin.sum_univ_three] using e
  have sq1 : M 2 0 * M 2 0 = 1 := by rcases hs with e | e <;> rw [e] <;> ring
  have z00 : M 0 0 = 0 := by
    have : M 0 0 * M 0 0 + M 1 0 * M 1 0 = 0 := by linarith
    have h0 : M 0 0 * M 0 0 = 0 := le_antisymm (by nlinarith [mul_self_nonneg (M 1 0)]) (mul_self_nonneg _)
    exact mul_self_eq_zero.mp h0
  have z10 : M 1 0 = 0 := by
    have h0 : M 1 0 * M 1 0 = 0 := le_antisymm (by nlinarith [mul_self_nonneg (M 0 0)]) (mul_self_nonneg _)
    exact mul_self_eq_zero.mp h0
  have z21 : M 2 1 = 0 := by
    have h0 : M 2 1 * M 2 1 = 0 := le_antisymm (by nlinarith [mul_self_nonneg (M 2 2)]) (mul_self_nonneg _)
    exact mul_self_eq_zero.mp h0
  have z22 : M 2 2 = 0 := by
    have h0 : M 2 2 * M 2 2 = 0 := le_antisymm (by nlinarith [mul_self_nonneg (M 2 1)]) (mul_self_nonneg _)
    exact mul_self_eq_zero.mp h0
  have circ : M 0 2 * M 0 2 + M 0 1 * M 0 1 = 1 := by rw [z00] at row0; linarith
  have circ' : (-M 0 2) * (-M 0 2) + (-M 0 1) * (-M 0 1) = 1 := by linarith
  obtain ⟨ca, sa⟩ := hA (M 0 1) (M 0 2) circ
  obtain ⟨cb, sb⟩ := hA (-M 0 1) (-M 0 2) circ'
  have thr : |(|M 2 0| - 1)| < (5 : R) / 2251799813685248 := by
    have : |M 2 0| = 1 := by rcases hs with e | e <;> rw [e] <;> simp
    rw [this]; simp
  have f11 : M 1 1 = -(M 0 2 * M 2 0) := by rw [c11, z00]; ring
  have f12 : M 1 2 = M 0 1 * M 2 0 := by rw [c12, z00]; ring
  unfold Gen.tr2rpy_zyx at h; simp only [] at h
  rw [if_pos thr] at h
  rcases hs with e | e
  · -- R[2,0] = 1: pitch = -90°
    have s1 : P.sin (P.asin 1) = 1 := hAs 1 (by norm_num)
    have c1 : P.cos (P.asin 1) = 0 := cos_zero_of_sin_sq P hT _ (by rw [s1]; ring)
    rw [e] at h f11 f12
    rw [if_neg (by norm_num), if_neg (by norm_num), if_neg (by norm_num)] at h
    cases h
    rw [(rpy2r_zyx P _).1]; congr 1
    simp only [v3_0, v3_1, v3_2]
    apply Mat.ext33' <;> simp [mmul, rotz, roty, rotx, Fin.sum_univ_three, hZ.1, hZ.2, (hN _).1, (hN _).2, s1, c1, cb, sb, z00, z10, z21, z22, e]
    all_goals (first | linarith | nlinarith)
  · -- R[2,0] = -1: pitch = +90°
    have s1 : P.sin (P.asin (-1)) = -1 := hAs (-1) (by norm_num)
    have c1 : P.cos (P.asin (-1)) = 0 := cos_zero_of_sin_sq P hT _ (by rw [s1]; ring)
    rw [e] at h f11 f12
    rw [if_pos (by norm_num), if_neg (by norm_num), if_neg (by norm_num)] at h
    cases h
    rw [(rpy2r_zyx P _).1]; congr 1
    simp only [v3_0, v3_1, v3_2]
    apply Mat.ext33' <;> simp [mmul, rotz, roty, rotx, Fin.sum_univ_three, hZ.1, hZ.2, (hN _).1, (hN _).2, s1, c1, ca, sa, z00, z10, z21, z22, e]
    all_goals (first | linarith | nlinarith)

/-- a square that is bounded by zero -/
theorem zero_of_sq_add {a b : R} (h : a * a + b * b = 0) : a = 0 ∧ b = 0 := by
  constructor
  · exact mul_self_eq_zero.mp (le_antisymm (by nlinarith [mul_self_nonneg b]) (mul_self_nonneg _))
  · exact mul_self_eq_zero.mp (le_antisymm (by nlinarith [mul_self_nonneg a]) (mul_self_nonneg _))

/-- XYZ order, pitch = ±90° exactly (R[0,2] = ±1): rpy2r(tr2rpy(R), order='xyz') = R -/
theorem tr2rpy_xyz_singular (hT : P.Trig) (hZ : ZeroLaw P) (hAs : AsinLaw P) (hA : Atan2Circle P) (hN : NegLaw P)
    (M : Mat 3 3 R) (hM : IsSO3 M) (hs : M 0 2 = 1 ∨ M 0 2 = -1) (v : Vec 3 R) (h : Gen.tr2rpy_xyz P M = .ok v) :
    Gen.rpy2r_xyz_rad P v = .ok M := by
  obtain ⟨c00, c01, c02, c10, c11, c12, c20, c21, c22⟩ := hM.cof
  have col2 : M 0 2 * M 0 2 + M 1 2 * M 1 2 + M 2 2 * M 2 2 = 1 := by
    have e := congrFun (congrFun hM.transpose_mul 2) 2
    simpa [mmul, mT, one3, Fin.sum_univ_three] using e
  have col1 : M 0 1 * M 0 1 + M 1 1 * M 1 1 + M 2 1 * M 2 1 = 1 := by
    have e := congrFun (congrFun hM.transpose_mul 1) 1
    simpa [mmul, mT, one3, Fin.sum_univ_three] using e
  have col0 : M 0 0 * M 0 0 + M 1 0 * M 1 0 + M 2 0 * M 2 0 = 1 := by
    have e := congrFun (congrFun hM.transpose_mul 0) 0
    simpa [mmul, mT, one3, Fin.sum_univ_three] using e
  have row0 : M 0 0 * M 0 0 + M 0 1 * M 0 1 + M 0 2 * M 0 2 = 1 := by
    have e := congrFun (congrFun hM.orth 0) 0
    simpa [mmul, mT, one3, Fin.sum_univ_three] using e
  have sq1 : M 0 2 * M 0 2 = 1 := by rcases hs with e | e <;> rw [e] <;> ring
  obtain ⟨z00, z01⟩ := zero_of_sq_add (a := M 0 0) (b := M 0 1) (by linarith)
  obtain ⟨z12, z22⟩ := zero_of_sq_add (a := M 1 2) (b := M 2 2) (by linarith)
  have circ : M 1 1 * M 1 1 + M 2 1 * M 2 1 = 1 := by rw [z01] at col1; linarith
  have circ' : M 2 0 * M 2 0 + M 1 0 * M 1 0 = 1 := by rw [z00] at col0; linarith
  obtain ⟨ca, sa⟩ := hA (M 2 1) (M 1 1) circ
  obtain ⟨cb, sb⟩ := hA (M 1 0) (M 2 0) circ'
  have thr : |(|M 0 2| - 1)| < (5 : R) / 2251799813685248 := by
    have : |M 0 2| = 1 := by rcases hs with e | e <;> rw [e] <;> simp
    rw [this]; simp
  have f10 : M 1 0 = M 0 2 * M 2 1 := by rw [c10, z01]; ring
  have f20 : M 2 0 = -(M 0 2 * M 1 1) := by rw [c20, z01]; ring
  have f11 : M 1 1 = -(M 0 2 * M 2 0) := by rw [c11, z00]; ring
  have f21 : M 2 1 = M 0 2 * M 1 0 := by rw [c21, z00]; ring
  unfold Gen.tr2rpy_xyz at h; simp only [] at h
  rw [if_pos thr] at h
  rcases hs with e | e
  · have s1 : P.sin (P.asin 1) = 1 := hAs 1 (by norm_num)
    have c1 : P.cos (P.asin 1) = 0 := cos_zero_of_sin_sq P hT _ (by rw [s1]; ring)
    rw [e] at h f10 f20 f11 f21
    rw [if_pos (by norm_num), if_neg (by norm_num), if_neg (by norm_num)] at h
    cases h
    rw [(rpy2r_xyz P _).1]; congr 1
    simp only [v3_0, v3_1, v3_2]
    apply Mat.ext33' <;> simp [mmul, rotz, roty, rotx, Fin.sum_univ_three, hZ.1, hZ.2, (hN _).1, (hN _).2, s1, c1, ca, sa, z00, z01, z12, z22, e]
    all_goals (first | linarith | nlinarith)
  · have s1 : P.sin (P.asin (-1)) = -1 := hAs (-1) (by norm_num)
    have c1 : P.cos (P.asin (-1)) = 0 := cos_zero_of_sin_sq P hT _ (by rw [s1]; ring)
    rw [e] at h f10 f20 f11 f21
    rw [if_neg (by norm_num), if_neg (by norm_num), if_neg (by norm_num)] at h
    cases h
    rw [(rpy2r_xyz P _).1]; congr 1
    simp only [v3_0, v3_1, v3_2]
    apply Mat.ext33' <;> simp [mmul, rotz, roty, rotx, Fin.sum_univ_three, hZ.1, hZ.2, (hN _).1, (hN _).2, s1, c1, cb, sb, z00, z01, z12, z22, e]
    all_goals (first | linarith | nlinarith)

/-- YXZ order, pitch = ±90° exactly (R[1,2] = ∓1): rpy2r(tr2rpy(R), order='yxz') = R -/
theorem tr2rpy_yxz_singular (hT : P.Trig) (hZ : ZeroLaw P) (hAs : AsinLaw P) (hA : Atan2Circle P) (hN : NegLaw P)
    (M : Mat 3 3 R) (hM : IsSO3 M) (hs : M 1 2 = 1 ∨ M 1 2 = -1) (v : Vec 3 R) (h : Gen.tr2rpy_yxz P M = .ok v) :
    Gen.rpy2r_yxz_rad P v = .ok M := by
  obtain ⟨c00, c01, c02, c10, c11, c12, c20, c21, c22⟩ := hM.cof
  have col2 : M 0 2 * M 0 2 + M 1 2 * M 1 2 + M 2 2 * M 2 2 = 1 := by
    have e := congrFun (congrFun hM.transpose_mul 2) 2
    simpa [mmul, mT, one3, Fin.sum_univ_three] using e
  have col0 : M 0 0 * M 0 0 + M 1 0 * M 1 0 + M 2 0 * M 2 0 = 1 := by
    have e := congrFun (congrFun hM.transpose_mul 0) 0
    simpa [mmul, mT, one3, Fin.sum_univ_three] using e
  have row1 : M 1 0 * M 1 0 + M 1 1 * M 1 1 + M 1 2 * M 1 2 = 1 := by
    have e := congrFun (congrFun hM.orth 1) 1
    simpa [mmul, mT, one3, Fin.sum_univ_three] using e
  have row2 : M 2 0 * M 2 0 + M 2 1 * M 2 1 + M 2 2 * M 2 2 = 1 := by
    have e := congrFun (congrFun hM.orth 2) 2
    simpa [mmul, mT, one3, Fin.sum_univ_three] using e
  have sq1 : M 1 2 * M 1 2 = 1 := by rcases hs with e | e <;> rw [e] <;> ring
  obtain ⟨z10, z11⟩ := zero_of_sq_add (a := M 1 0) (b := M 1 1) (by linarith)
  obtain ⟨z02, z22⟩ := zero_of_sq_add (a := M 0 2) (b := M 2 2) (by linarith)
  have circ : M 0 0 * M 0 0 + M 2 0 * M 2 0 = 1 := by rw [z10] at col0; linarith
  have circ' : (-M 2 1) * (-M 2 1) + (-M 2 0) * (-M 2 0) = 1 := by rw [z22] at row2; linarith
  obtain ⟨ca, sa⟩ := hA (M 2 0) (M 0 0) circ
  obtain ⟨cb, sb⟩ := hA (-M 2 0) (-M 2 1) circ'
  have thr : |(|M 1 2| - 1)| < (5 : R) / 2251799813685248 := by
    have : |M 1 2| = 1 := by rcases hs with e | e <;> rw [e] <;> simp
    rw [this]; simp
  have f00 : M 0 0 = -(M 1 2 * M 2 1) := by rw [c00, z11]; ring
  have f01 : M 0 1 = M 1 2 * M 2 0 := by rw [c01, z10]; ring
  have f20 : M 2 0 = M 0 1 * M 1 2 := by rw [c20, z11]; ring
  have f21 : M 2 1 = -(M 0 0 * M 1 2) := by rw [c21, z10]; ring
  unfold Gen.tr2rpy_yxz at h; simp only [] at h
  rw [if_pos thr] at h
  rcases hs with e | e
  · have s1 : P.sin (P.asin 1) = 1 := hAs 1 (by norm_num)
    have c1 : P.cos (P.asin 1) = 0 := cos_zero_of_sin_sq P hT _ (by rw [s1]; ring)
    rw [e] at h f00 f01 f20 f21
    rw [if_neg (by norm_num), if_neg (by norm_num), if_neg (by norm_num)] at h
    cases h
    rw [(rpy2r_yxz P _).1]; congr 1
    simp only [v3_0, v3_1, v3_2]
    apply Mat.ext33' <;> simp [mmul, rotz, roty, rotx, Fin.sum_univ_three, hZ.1, hZ.2, (hN _).1, (hN _).2, s1, c1, cb, sb, z10, z11, z02, z22, e]
    all_goals (first | linarith | nlinarith)
  · have s1 : P.sin (P.asin (-1)) = -1 := hAs (-1) (by norm_num)
    have c1 : P.cos (P.asin (-1)) = 0 := cos_zero_of_sin_sq P hT _ (by rw [s1]; ring)
    rw [e] at h f00 f01 f20 f21
    rw [if_pos (by norm_num), if_neg (by norm_num), if_neg (by norm_num)] at h
    cases h
    rw [(rpy2r_yxz P _).1]; congr 1
    simp only [v3_0, v3_1, v3_2]
    apply Mat.ext33' <;> simp [mmul, rotz, roty, rotx, Fin.sum_univ_three, hZ.1, hZ.2, (hN _).1, (hN _).2, s1, c1, ca, sa, z10, z11, z02, z22, e]
    all_goals (first | linarith | nlinarith)

/-- ZYZ Euler angles with middle angle exactly 0 or π (R[0,2] = R[1,2] = 0): eul2r(tr2eul(R)) = R -/
theorem tr2eul_singular (hZ : ZeroLaw P) (hA : Atan2Circle P)
    (M : Mat 3 3 R) (hM : IsSO3 M) (h02 : M 0 2 = 0) (h12 : M 1 2 = 0) (v : Vec 3 R) (h : Gen.tr2eul P M = .ok v) :
    Gen.eul2r_rad P v = .ok M := by
  obtain ⟨c00, c01, c02, c10, c11, c12, c20, c21, c22⟩ := hM.cof
  have col2 : M 0 2 * M 0 2 + M 1 2 * M 1 2 + M 2 2 * M 2 2 = 1 := by
    have e := congrFun (congrFun hM.transpose_mul 2) 2
    simpa [mmul, mT, one3, Fin.sum_univ_three] using e
  have row1 : M 1 0 * M 1 0 + M 1 1 * M 1 1 + M 1 2 * M 1 2 = 1 := by
    have e := congrFun (congrFun hM.orth 1) 1
    simpa [mmul, mT, one3, Fin.sum_univ_three] using e
  have row2 : M 2 0 * M 2 0 + M 2 1 * M 2 1 + M 2 2 * M 2 2 = 1 := by
    have e := congrFun (congrFun hM.orth 2) 2
    simpa [mmul, mT, one3, Fin.sum_univ_three] using e
  have sq1 : M 2 2 * M 2 2 = 1 := by rw [h02, h12] at col2; linarith
  obtain ⟨z20, z21⟩ := zero_of_sq_add (a := M 2 0) (b := M 2 1) (by linarith)
  have circ : M 2 2 * M 2 2 + M 0 2 * M 0 2 = 1 := by rw [h02]; linarith
  have circ' : M 1 1 * M 1 1 + M 1 0 * M 1 0 = 1 := by rw [h12] at row1; linarith
  obtain ⟨ca, sa⟩ := hA (M 0 2) (M 2 2) circ
  obtain ⟨cb, sb⟩ := hA (M 1 0) (M 1 1) circ'
  rw [h02] at ca sa
  have f00 : M 0 0 = M 1 1 * M 2 2 := by rw [c00, h12]; ring
  have f01 : M 0 1 = -(M 1 0 * M 2 2) := by rw [c01, h12]; ring
  have t1 : |M 0 2| < (5 : R) / 2251799813685248 := by rw [h02]; simp
  have t2 : |M 1 2| < (5 : R) / 2251799813685248 := by rw [h12]; simp
  unfold Gen.tr2eul at h; simp only [] at h
  rw [if_pos t1, if_pos t2] at h
  cases h
  rw [eul2r_zyz]; congr 1
  simp only [v3_0, v3_1, v3_2]
  apply Mat.ext33' <;> simp [mmul, rotz, roty, rotx, Fin.sum_univ_three, hZ.1, hZ.2, ca, sa, cb, sb, h02, h12, z20, z21]
  all_goals (first | linarith | nlinarith)

/-- the same with flip=True (the singular branch does not depend on the flag) -/
theorem tr2eul_flip_singular (hZ : ZeroLaw P) (hA : Atan2Circle P)
    (M : Mat 3 3 R) (hM : IsSO3 M) (h02 : M 0 2 = 0) (h12 : M 1 2 = 0) (v : Vec 3 R) (h : Gen.tr2eul_flip P M = .ok v) :
    Gen.eul2r_rad P v = .ok M := by
  apply tr2eul_singular P hZ hA M hM h02 h12 v
  have t1 : |M 0 2| < (5 : R) / 2251799813685248 := by rw [h02]; simp
  have t2 : |M 1 2| < (5 : R) / 2251799813685248 := by rw [h12]; simp
  unfold Gen.tr2eul_flip at h; unfold Gen.tr2eul; simp only [] at h ⊢
  rw [if_pos t1, if_pos t2] at h ⊢; exact h

/-- non-vacuity: the laws are satisfiable together with a singular rotation (any P whose sin/cos/asin/atan2 satisfy them; the
    matrix [[0,0,1],[0,1,0],[-1,0,0]] is a rotation with R[2,0] = -1) -/
example : IsSO3 (R := ℚ) (fun i j => if (i, j) = (0, 2) then 1 else if (i, j) = (1, 1) then 1 else if (i, j) = (2, 0) then -1 else 0) := by
  constructor
  · apply Mat.ext33' <;> simp [mmul, mT, one3, Fin.sum_univ_three]
  · simp [det3]

end SmVerif.Props.Singular
