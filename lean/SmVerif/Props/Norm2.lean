/-
  C14 (2-D part) — `trnorm2` (behind `SO2.norm()` / `SE2.norm()`) projects onto SO(2) / SE(2).
  Proved over any ordered field with `sqrt` the non-negative square root: the result is a member of SO(2) (SE(2));
  its second column is the original second column divided by its length (the kept axis); translation and last row are
  kept; a member is returned unchanged, hence applying it twice changes nothing.
-/
import SmVerif.Gen.Transforms2d
import SmVerif.Spec.Group
import SmVerif.Spec.PrimLaws
import SmVerif.Props.C14
import Mathlib.Tactic.LinearCombination
import Mathlib.Tactic.FieldSimp

namespace SmVerif.Props.Norm2
open SmVerif SmVerif.Spec
set_option linter.unusedSectionVars false
set_option linter.unusedTactic false
set_option linter.unreachableTactic false
set_option maxHeartbeats 1000000
variable {R : Type} [Field R] [LinearOrder R] [IsStrictOrderedRing R] (P : Prims R)

/-- value: with n = |second column|, the result is [[m₁₁, m₀₁], [−m₀₁, m₁₁]] / n -/
theorem trnorm2_R_value (m M : Mat 2 2 R) (h : Gen.trnorm2_R P m = .ok M) :
    0 < P.sqrt (m 0 1 * m 0 1 + m 1 1 * m 1 1) ∧
    M = v2 (v2 (m 1 1 / P.sqrt (m 0 1 * m 0 1 + m 1 1 * m 1 1)) (m 0 1 / P.sqrt (m 0 1 * m 0 1 + m 1 1 * m 1 1)))
           (v2 (-(m 0 1 / P.sqrt (m 0 1 * m 0 1 + m 1 1 * m 1 1))) (m 1 1 / P.sqrt (m 0 1 * m 0 1 + m 1 1 * m 1 1))) := by
  unfold Gen.trnorm2_R at h; simp only [] at h
  split_ifs at h with h1 <;> cases h
  exact ⟨lt_trans (by norm_num) h1, rfl⟩

/-- the result is a rotation matrix -/
theorem trnorm2_R_mem (hS : P.Sqrt) (m M : Mat 2 2 R) (h : Gen.trnorm2_R P m = .ok M) : IsSO2 M := by
  obtain ⟨hpos, rfl⟩ := trnorm2_R_value P m M h
  have hss := hS.mul_self _ (add_nonneg (mul_self_nonneg (m 0 1)) (mul_self_nonneg (m 1 1)))
  generalize P.sqrt (m 0 1 * m 0 1 + m 1 1 * m 1 1) = n at *
  have hn : n ≠ 0 := ne_of_gt hpos
  constructor
  · funext i j; fin_cases i <;> fin_cases j <;> simp [mmul, mT, one2, Fin.sum_univ_two] <;> field_simp <;>
      first | ring1 | linear_combination hss | linear_combination -hss
  · simp [det2]; field_simp; first | linear_combination hss | linear_combination -hss

/-- the second column (the kept axis) is the original second column, normalised -/
theorem trnorm2_R_keeps_axis (m M : Mat 2 2 R) (h : Gen.trnorm2_R P m = .ok M) :
    M 0 1 * P.sqrt (m 0 1 * m 0 1 + m 1 1 * m 1 1) = m 0 1 ∧ M 1 1 * P.sqrt (m 0 1 * m 0 1 + m 1 1 * m 1 1) = m 1 1 := by
  obtain ⟨hpos, rfl⟩ := trnorm2_R_value P m M h
  generalize P.sqrt (m 0 1 * m 0 1 + m 1 1 * m 1 1) = n at *
  have hn : n ≠ 0 := ne_of_gt hpos
  constructor <;> simp <;> field_simp

/-- a rotation matrix is returned unchanged -/
theorem trnorm2_R_fix (hS : P.Sqrt) (m : Mat 2 2 R) (hm : IsSO2 m) : Gen.trnorm2_R P m = .ok m := by
  have o := hm.transpose_mul
  have o00 := congrFun (congrFun o 0) 0; have o01 := congrFun (congrFun o 0) 1; have o11 := congrFun (congrFun o 1) 1
  have d := hm.det
  simp [mmul, mT, one2, det2, Fin.sum_univ_two] at o00 o01 o11 d
  have e11 : m 1 1 = m 0 0 := by linear_combination (m 0 0) * d + (m 1 0) * o01 - (m 1 1) * o00
  have e01 : m 0 1 = -m 1 0 := by linear_combination (m 1 1) * o01 - (m 0 1) * d - (m 1 0) * o11
  have hn : P.sqrt (m 0 1 * m 0 1 + m 1 1 * m 1 1) = 1 := by
    have : m 0 1 * m 0 1 + m 1 1 * m 1 1 = 1 := by linear_combination o11
    rw [this]; exact C14.sqrt_one P hS
  unfold Gen.trnorm2_R; simp only []; rw [hn]
  have : ((1 : R) > 25 / 1125899906842624) := by norm_num
  rw [if_pos this]; congr 1
  funext i j; fin_cases i <;> fin_cases j <;> simp [e11, e01]

/-- … hence normalising twice is normalising once -/
theorem trnorm2_R_idempotent (hS : P.Sqrt) (m M : Mat 2 2 R) (h : Gen.trnorm2_R P m = .ok M) : Gen.trnorm2_R P M = .ok M :=
  trnorm2_R_fix P hS M (trnorm2_R_mem P hS m M h)

/-- 3×3 form: the rotation block is normalised as above, translation and last row are kept, the result is in SE(2) -/
theorem trnorm2_T_spec (hS : P.Sqrt) (T M : Mat 3 3 R) (h : Gen.trnorm2_T P T = .ok M) :
    IsSE2 M ∧ M 0 2 = T 0 2 ∧ M 1 2 = T 1 2 ∧ Gen.trnorm2_R P (rotOf2 T) = .ok (rotOf2 M) := by
  unfold Gen.trnorm2_T at h; simp only [] at h
  split_ifs at h with h1 <;> cases h
  have hR : Gen.trnorm2_R P (rotOf2 T) = .ok (v2 (v2 (T 1 1 / P.sqrt (T 0 1 * T 0 1 + T 1 1 * T 1 1)) (T 0 1 / P.sqrt (T 0 1 * T 0 1 + T 1 1 * T 1 1)))
      (v2 (-(T 0 1 / P.sqrt (T 0 1 * T 0 1 + T 1 1 * T 1 1))) (T 1 1 / P.sqrt (T 0 1 * T 0 1 + T 1 1 * T 1 1)))) := by
    unfold Gen.trnorm2_R; simp only [rotOf2, v2_0, v2_1, h1, if_true]
  refine ⟨⟨?_, rfl, rfl, rfl⟩, rfl, rfl, ?_⟩
  · have := trnorm2_R_mem P hS _ _ hR
    convert this using 1
    funext i j; fin_cases i <;> fin_cases j <;> simp [rotOf2]
  · rw [hR]; first | rfl | (congr 1; funext i j; fin_cases i <;> fin_cases j <;> simp [rotOf2])

end SmVerif.Props.Norm2
