/-
  C09 on the regenerated model: per-value methods and operators applied to a 2-valued object return, value by value, what the
  same method / operator returns on the single-valued object (same branches, same exceptions propagate as "no result").
  `!=` is the element-wise negation of `==`; theta(unit='deg') is theta · 180/π on every element.
-/
import SmVerif.Tactics
import SmVerif.Gen.Multi
import SmVerif.Gen.Poses
import SmVerif.Gen.Twists
import SmVerif.Gen.Quats

namespace SmVerif.Props.Multi
open SmVerif
set_option linter.unusedSectionVars false
set_option linter.unusedTactic false
set_option linter.unreachableTactic false
set_option maxHeartbeats 4000000
variable {R : Type} [Field R] [LinearOrder R] [IsStrictOrderedRing R] (P : Prims R)

/-- unfold both generated definitions, split the branches of the 2-valued one, resolve the single-valued one's branches with
the same conditions -/
macro "per_value" g:ident f:ident : tactic =>
  `(tactic| (intro M h; unfold $g at h; unfold $f; (try simp only [] at h); (try simp only []); (try split_ifs at h); all_goals (try cases h);
             all_goals (constructor <;> (first | rfl | (simp only [*, if_true, if_false, not_true_eq_false, not_false_eq_true]; done) | (simp [*]; done)))))


theorem SO2_inv_M (A B : Mat 2 2 R) : ∀ M, Gen.SO2_inv_M P A B = .ok M → Gen.SO2_inv P A = .ok M.1 ∧ Gen.SO2_inv P B = .ok M.2 := by
  per_value Gen.SO2_inv_M Gen.SO2_inv
theorem SO2_div_M1 (A B C : Mat 2 2 R) : ∀ M, Gen.SO2_div_M1 P A B C = .ok M → Gen.SO2_div P A C = .ok M.1 ∧ Gen.SO2_div P B C = .ok M.2 := by
  per_value Gen.SO2_div_M1 Gen.SO2_div
theorem SO2_div_1M (A B C : Mat 2 2 R) : ∀ M, Gen.SO2_div_1M P A B C = .ok M → Gen.SO2_div P A B = .ok M.1 ∧ Gen.SO2_div P A C = .ok M.2 := by
  per_value Gen.SO2_div_1M Gen.SO2_div
theorem SO2_pow2_M (A B : Mat 2 2 R) : ∀ M, Gen.SO2_pow2_M P A B = .ok M → Gen.SO2_pow_2 P A = .ok M.1 ∧ Gen.SO2_pow_2 P B = .ok M.2 := by
  per_value Gen.SO2_pow2_M Gen.SO2_pow_2
theorem SO2_R_M (A B : Mat 2 2 R) : ∀ M, Gen.SO2_R_M P A B = .ok M → Gen.SO2_R P A = .ok M.1 ∧ Gen.SO2_R P B = .ok M.2 := by
  per_value Gen.SO2_R_M Gen.SO2_R
/-- `!=` on a multi-valued object is the element-wise negation of `==` -/
theorem SO2_ne_M (A B C : Mat 2 2 R) : ∀ M, Gen.SO2_ne_M P A B C = .ok M → Gen.SO2_eq_M P A B C = .ok (!M.1, !M.2) := by
  intro M h; unfold Gen.SO2_ne_M at h; unfold Gen.SO2_eq_M; (try simp only [] at h); (try simp only [])
  split_ifs at h <;> cases h <;> (first | rfl | (simp only [*, if_true, if_false, not_true_eq_false, not_false_eq_true]; rfl) | (simp [*]; done))
theorem SE2_div_M1 (A B C : Mat 3 3 R) : ∀ M, Gen.SE2_div_M1 P A B C = .ok M → Gen.SE2_div P A C = .ok M.1 ∧ Gen.SE2_div P B C = .ok M.2 := by
  per_value Gen.SE2_div_M1 Gen.SE2_div
theorem SE2_pow2_M (A B : Mat 3 3 R) : ∀ M, Gen.SE2_pow2_M P A B = .ok M → Gen.SE2_pow_2 P A = .ok M.1 ∧ Gen.SE2_pow_2 P B = .ok M.2 := by
  per_value Gen.SE2_pow2_M Gen.SE2_pow_2
theorem SE2_R_M (A B : Mat 3 3 R) : ∀ M, Gen.SE2_R_M P A B = .ok M → Gen.SE2_R P A = .ok M.1 ∧ Gen.SE2_R P B = .ok M.2 := by
  per_value Gen.SE2_R_M Gen.SE2_R

theorem SO3_inv_M (A B : Mat 3 3 R) : ∀ M, Gen.SO3_inv_M P A B = .ok M → Gen.SO3_inv P A = .ok M.1 ∧ Gen.SO3_inv P B = .ok M.2 := by
  per_value Gen.SO3_inv_M Gen.SO3_inv
theorem SO3_div_M1 (A B C : Mat 3 3 R) : ∀ M, Gen.SO3_div_M1 P A B C = .ok M → Gen.SO3_div P A C = .ok M.1 ∧ Gen.SO3_div P B C = .ok M.2 := by
  per_value Gen.SO3_div_M1 Gen.SO3_div
theorem SO3_div_1M (A B C : Mat 3 3 R) : ∀ M, Gen.SO3_div_1M P A B C = .ok M → Gen.SO3_div P A B = .ok M.1 ∧ Gen.SO3_div P A C = .ok M.2 := by
  per_value Gen.SO3_div_1M Gen.SO3_div
theorem SO3_pow2_M (A B : Mat 3 3 R) : ∀ M, Gen.SO3_pow2_M P A B = .ok M → Gen.SO3_pow_2 P A = .ok M.1 ∧ Gen.SO3_pow_2 P B = .ok M.2 := by
  per_value Gen.SO3_pow2_M Gen.SO3_pow_2
theorem SO3_R_M (A B : Mat 3 3 R) : ∀ M, Gen.SO3_R_M P A B = .ok M → Gen.SO3_R P A = .ok M.1 ∧ Gen.SO3_R P B = .ok M.2 := by
  per_value Gen.SO3_R_M Gen.SO3_R

theorem SE3_inv_M (A B : Mat 4 4 R) : ∀ M, Gen.SE3_inv_M P A B = .ok M → Gen.SE3_inv P A = .ok M.1 ∧ Gen.SE3_inv P B = .ok M.2 := by
  per_value Gen.SE3_inv_M Gen.SE3_inv
theorem SE3_div_M1 (A B C : Mat 4 4 R) : ∀ M, Gen.SE3_div_M1 P A B C = .ok M → Gen.SE3_div P A C = .ok M.1 ∧ Gen.SE3_div P B C = .ok M.2 := by
  per_value Gen.SE3_div_M1 Gen.SE3_div
theorem SE3_div_1M (A B C : Mat 4 4 R) : ∀ M, Gen.SE3_div_1M P A B C = .ok M → Gen.SE3_div P A B = .ok M.1 ∧ Gen.SE3_div P A C = .ok M.2 := by
  per_value Gen.SE3_div_1M Gen.SE3_div
theorem SE3_pow2_M (A B : Mat 4 4 R) : ∀ M, Gen.SE3_pow2_M P A B = .ok M → Gen.SE3_pow_2 P A = .ok M.1 ∧ Gen.SE3_pow_2 P B = .ok M.2 := by
  per_value Gen.SE3_pow2_M Gen.SE3_pow_2
theorem SE3_R_M (A B : Mat 4 4 R) : ∀ M, Gen.SE3_R_M P A B = .ok M → Gen.SE3_R P A = .ok M.1 ∧ Gen.SE3_R P B = .ok M.2 := by
  per_value Gen.SE3_R_M Gen.SE3_R
theorem SO2_theta_M (A B : Mat 2 2 R) : ∀ M, Gen.SO2_theta_M P A B = .ok M → Gen.SO2_theta P A = .ok M.1 ∧ Gen.SO2_theta P B = .ok M.2 := by
  per_value Gen.SO2_theta_M Gen.SO2_theta
theorem SO2_theta_M_deg (A B : Mat 2 2 R) : ∀ M, Gen.SO2_theta_M_deg P A B = .ok M → Gen.SO2_theta_deg P A = .ok M.1 ∧ Gen.SO2_theta_deg P B = .ok M.2 := by
  per_value Gen.SO2_theta_M_deg Gen.SO2_theta_deg
/-- theta(unit='deg') = theta · 180/π -/
theorem SO2_theta_deg (A : Mat 2 2 R) : ∀ d, Gen.SO2_theta_deg P A = .ok d → ∃ r, Gen.SO2_theta P A = .ok r ∧ d = r * 180 / P.pi := by
  intro d h; unfold Gen.SO2_theta_deg at h; unfold Gen.SO2_theta; (try simp only [] at h); (try simp only [])
  (try split_ifs at h) <;> cases h <;> exact ⟨_, (by first | rfl | (simp only [*, if_true, if_false]; done)), (by ring)⟩
theorem SE3_t_M (A B : Mat 4 4 R) : ∀ M, Gen.SE3_t_M P A B = .ok M → Gen.SE3_t P A = .ok (M 0) ∧ Gen.SE3_t P B = .ok (M 1) := by
  intro M h; unfold Gen.SE3_t_M at h; unfold Gen.SE3_t; cases h; constructor <;> rfl
theorem SE2_t_M (A B : Mat 3 3 R) : ∀ M, Gen.SE2_t_M P A B = .ok M → Gen.SE2_t P A = .ok (M 0) ∧ Gen.SE2_t P B = .ok (M 1) := by
  intro M h; unfold Gen.SE2_t_M at h; unfold Gen.SE2_t; cases h; constructor <;> rfl
theorem Twist3_pitch_M (S T : Vec 6 R) : ∀ M, Gen.Twist3_pitch_M P S T = .ok M → Gen.Twist3_pitch P S = .ok M.1 ∧ Gen.Twist3_pitch P T = .ok M.2 := by
  per_value Gen.Twist3_pitch_M Gen.Twist3_pitch
theorem Twist3_v_M (S T : Vec 6 R) : ∀ M, Gen.Twist3_v_M P S T = .ok M → Gen.Twist3_v P S = .ok (M 0) ∧ Gen.Twist3_v P T = .ok (M 1) := by
  intro M h; unfold Gen.Twist3_v_M at h; unfold Gen.Twist3_v; cases h; constructor <;> rfl
theorem Twist3_w_M (S T : Vec 6 R) : ∀ M, Gen.Twist3_w_M P S T = .ok M → Gen.Twist3_w P S = .ok (M 0) ∧ Gen.Twist3_w P T = .ok (M 1) := by
  intro M h; unfold Gen.Twist3_w_M at h; unfold Gen.Twist3_w; cases h; constructor <;> rfl
theorem Twist3_inv_M (S T : Vec 6 R) : ∀ M, Gen.Twist3_inv_M P S T = .ok M → Gen.Twist3_inv P S = .ok M.1 ∧ Gen.Twist3_inv P T = .ok M.2 := by
  per_value Gen.Twist3_inv_M Gen.Twist3_inv
theorem Twist3_mul_scalar_M (S T : Vec 6 R) (k : R) : ∀ M, Gen.Twist3_mul_scalar_M P S T k = .ok M →
    Gen.Twist3_mul_scalar P S k = .ok M.1 ∧ Gen.Twist3_mul_scalar P T k = .ok M.2 := by
  per_value Gen.Twist3_mul_scalar_M Gen.Twist3_mul_scalar
theorem UQ_inv_M (q p : Vec 4 R) : ∀ M, Gen.UQ_inv_M P q p = .ok M → Gen.UQ_inv P q = .ok M.1 ∧ Gen.UQ_inv P p = .ok M.2 := by
  per_value Gen.UQ_inv_M Gen.UQ_inv
theorem Q_conj_M (q p : Vec 4 R) : ∀ M, Gen.Q_conj_M P q p = .ok M → Gen.Q_conj P q = .ok M.1 ∧ Gen.Q_conj P p = .ok M.2 := by
  per_value Gen.Q_conj_M Gen.Q_conj
theorem Q_norm_M (q p : Vec 4 R) : ∀ M, Gen.Q_norm_M P q p = .ok M → Gen.Q_norm P q = .ok M.1 ∧ Gen.Q_norm P p = .ok M.2 := by
  per_value Gen.Q_norm_M Gen.Q_norm
theorem Q_add_M1 (q p r : Vec 4 R) : ∀ M, Gen.Q_add_M1 P q p r = .ok M → Gen.Q_add P q r = .ok M.1 ∧ Gen.Q_add P p r = .ok M.2 := by
  per_value Gen.Q_add_M1 Gen.Q_add

/-! ### quaternion classes: powers, products (1×M, M×1, M×M), comparisons and the action on a vector, value by value -/
theorem Q_pow2_M (q p : Vec 4 R) : ∀ M, Gen.Q_pow2_M P q p = .ok M → Gen.Q_pow_2 P q = .ok M.1 ∧ Gen.Q_pow_2 P p = .ok M.2 := by
  per_value Gen.Q_pow2_M Gen.Q_pow_2
theorem Q_pow3_M (q p : Vec 4 R) : ∀ M, Gen.Q_pow3_M P q p = .ok M → Gen.Q_pow_3 P q = .ok M.1 ∧ Gen.Q_pow_3 P p = .ok M.2 := by
  per_value Gen.Q_pow3_M Gen.Q_pow_3
theorem Q_mul_M1 (q p r : Vec 4 R) : ∀ M, Gen.Q_mul_M1 P q p r = .ok M → Gen.Q_mul P q r = .ok M.1 ∧ Gen.Q_mul P p r = .ok M.2 := by
  per_value Gen.Q_mul_M1 Gen.Q_mul
theorem Q_mul_1M (q p r : Vec 4 R) : ∀ M, Gen.Q_mul_1M P q p r = .ok M → Gen.Q_mul P q p = .ok M.1 ∧ Gen.Q_mul P q r = .ok M.2 := by
  per_value Gen.Q_mul_1M Gen.Q_mul
theorem Q_mul_MM (q p r s : Vec 4 R) : ∀ M, Gen.Q_mul_MM P q p r s = .ok M → Gen.Q_mul P q r = .ok M.1 ∧ Gen.Q_mul P p s = .ok M.2 := by
  per_value Gen.Q_mul_MM Gen.Q_mul
theorem Q_inner_M (q p r : Vec 4 R) : ∀ M, Gen.Q_inner_M P q p r = .ok M → Gen.Q_inner P q r = .ok M.1 ∧ Gen.Q_inner P p r = .ok M.2 := by
  per_value Gen.Q_inner_M Gen.Q_inner

/-- `!=` between a single and a multi-valued unit quaternion (either order) is the element-wise negation of `==` -/
theorem UQ_ne_1M (q p r : Vec 4 R) : ∀ M, Gen.UQ_ne_1M P q p r = .ok M → Gen.UQ_eq_1M P q p r = .ok (!M.1, !M.2) := by
  intro M h; unfold Gen.UQ_ne_1M at h; unfold Gen.UQ_eq_1M; (try simp only [] at h); (try simp only [])
  split_ifs at h <;> cases h <;> (first | rfl | (simp only [*, if_true, if_false, not_true_eq_false, not_false_eq_true]; rfl) | (simp [*]; done))
theorem UQ_ne_M1 (q p r : Vec 4 R) : ∀ M, Gen.UQ_ne_M1 P q p r = .ok M → Gen.UQ_eq_M1 P q p r = .ok (!M.1, !M.2) := by
  intro M h; unfold Gen.UQ_ne_M1 at h; unfold Gen.UQ_eq_M1; (try simp only [] at h); (try simp only [])
  split_ifs at h <;> cases h <;> (first | rfl | (simp only [*, if_true, if_false, not_true_eq_false, not_false_eq_true]; rfl) | (simp [*]; done))
/-- `==` of a single against a multi-valued unit quaternion compares the single value with each element -/
theorem UQ_eq_1M (q p r : Vec 4 R) : ∀ M, Gen.UQ_eq_1M P q p r = .ok M → Gen.UQ_eq P q p = .ok M.1 ∧ Gen.UQ_eq P q r = .ok M.2 := by
  per_value Gen.UQ_eq_1M Gen.UQ_eq
theorem UQ_eq_M1 (q p r : Vec 4 R) : ∀ M, Gen.UQ_eq_M1 P q p r = .ok M → Gen.UQ_eq P q r = .ok M.1 ∧ Gen.UQ_eq P p r = .ok M.2 := by
  per_value Gen.UQ_eq_M1 Gen.UQ_eq
/-- a multi-valued unit quaternion times a 3-vector: column j is value j applied to the vector -/
theorem UQ_mul_vec_M (q p : Vec 4 R) (v : Vec 3 R) : ∀ M, Gen.UQ_mul_vec_M P q p v = .ok M →
    ∃ a b, Gen.UQ_mul_vec P q v = .ok a ∧ Gen.UQ_mul_vec P p v = .ok b ∧ ∀ i, M i 0 = a i ∧ M i 1 = b i := by
  intro M h; unfold Gen.UQ_mul_vec_M at h; unfold Gen.UQ_mul_vec; simp only [] at h ⊢; cases h
  refine ⟨_, _, rfl, rfl, ?_⟩
  intro i; fin_cases i <;> simp
theorem Q_inner_MM (q p r s : Vec 4 R) : ∀ M, Gen.Q_inner_MM P q p r s = .ok M → Gen.Q_inner P q r = .ok M.1 ∧ Gen.Q_inner P p s = .ok M.2 := by
  per_value Gen.Q_inner_MM Gen.Q_inner

/-! ### planar rigid motions: inverse and quotient of a sequence, value by value (the 2-D inverse no longer validates its own result) -/
theorem SE2_inv_M (A B : Mat 3 3 R) : ∀ M, Gen.SE2_inv_M P A B = .ok M → Gen.SE2_inv P A = .ok M.1 ∧ Gen.SE2_inv P B = .ok M.2 := by
  per_value Gen.SE2_inv_M Gen.SE2_inv
theorem SE2_div_1M (A B C : Mat 3 3 R) : ∀ M, Gen.SE2_div_1M P A B C = .ok M → Gen.SE2_div P A B = .ok M.1 ∧ Gen.SE2_div P A C = .ok M.2 := by
  per_value Gen.SE2_div_1M Gen.SE2_div

/-! ### twists: matrix forms, negation and scalar multiples of a sequence, value by value (order kept) -/
theorem Twist3_se3_M (S T : Vec 6 R) : ∀ M, Gen.Twist3_se3_M P S T = .ok M → Gen.Twist3_se3 P S = .ok M.1 ∧ Gen.Twist3_se3 P T = .ok M.2 := by
  per_value Gen.Twist3_se3_M Gen.Twist3_se3
theorem Twist3_rmul_scalar_M (S T : Vec 6 R) (k : R) : ∀ M, Gen.Twist3_rmul_scalar_M P S T k = .ok M →
    Gen.Twist3_rmul_scalar P S k = .ok M.1 ∧ Gen.Twist3_rmul_scalar P T k = .ok M.2 := by
  per_value Gen.Twist3_rmul_scalar_M Gen.Twist3_rmul_scalar
theorem Twist2_inv_M (S T : Vec 3 R) : ∀ M, Gen.Twist2_inv_M P S T = .ok M → Gen.Twist2_inv P S = .ok M.1 ∧ Gen.Twist2_inv P T = .ok M.2 := by
  per_value Gen.Twist2_inv_M Gen.Twist2_inv
theorem Twist2_mul_scalar_M (S T : Vec 3 R) (k : R) : ∀ M, Gen.Twist2_mul_scalar_M P S T k = .ok M →
    Gen.Twist2_mul_scalar P S k = .ok M.1 ∧ Gen.Twist2_mul_scalar P T k = .ok M.2 := by
  per_value Gen.Twist2_mul_scalar_M Gen.Twist2_mul_scalar
theorem Twist2_se2_M (S T : Vec 3 R) : ∀ M, Gen.Twist2_se2_M P S T = .ok M → Gen.Twist2_se2 P S = .ok M.1 ∧ Gen.Twist2_se2 P T = .ok M.2 := by
  per_value Gen.Twist2_se2_M Gen.Twist2_se2

end SmVerif.Props.Multi
