/-
  Class methods delegate to the base functions: for each pair below the generated model of the class-level call
  (`SO3.RPY`, `SE3.AngVec`, `Quaternion.__mul__`, `SE3.Exp`, …) is literally the generated model of the base function it is
  documented to wrap (same branches, same arithmetic, same exceptions) — so every theorem about the base function
  (closure C01, exp/log C03, representation agreement C04, Hamilton algebra C12) holds for the class-level call.
  A change in a class method that stops delegating (extra scaling, swapped arguments, lost unit conversion) breaks the
  corresponding equation here.
-/
import SmVerif.Tactics
import SmVerif.Gen.Poses
import SmVerif.Gen.Quats
import SmVerif.Gen.Quaternions
import SmVerif.Gen.Transforms3d
import SmVerif.Gen.Transforms2d
import SmVerif.Gen.TransformsNd

namespace SmVerif.Props.Delegation
open SmVerif

variable {R : Type} [Field R] [LinearOrder R] [IsStrictOrderedRing R] (P : Prims R)

macro "deleg" a:ident b:ident : tactic =>
  `(tactic| (unfold $a $b; first | rfl | (simp only []; rfl) | (congr 1 <;> ext_lit <;> (try simp) <;> ring1)))

theorem SO3_RPY_zyx_delegates (v : Vec 3 R) : Gen.SO3_RPY_zyx P v = Gen.rpy2r_zyx_rad P v := by deleg Gen.SO3_RPY_zyx Gen.rpy2r_zyx_rad
theorem SO3_RPY_xyz_delegates (v : Vec 3 R) : Gen.SO3_RPY_xyz P v = Gen.rpy2r_xyz_rad P v := by deleg Gen.SO3_RPY_xyz Gen.rpy2r_xyz_rad
theorem SO3_RPY_yxz_delegates (v : Vec 3 R) : Gen.SO3_RPY_yxz P v = Gen.rpy2r_yxz_rad P v := by deleg Gen.SO3_RPY_yxz Gen.rpy2r_yxz_rad
theorem SO3_Eul_delegates (v : Vec 3 R) : Gen.SO3_Eul P v = Gen.eul2r_rad P v := by deleg Gen.SO3_Eul Gen.eul2r_rad
theorem SO3_AngVec_delegates (th : R) (v : Vec 3 R) : Gen.SO3_AngVec P th v = Gen.angvec2r P th v := by deleg Gen.SO3_AngVec Gen.angvec2r
theorem SO3_OA_delegates (o a : Vec 3 R) : Gen.SO3_OA P o a = Gen.oa2r P o a := by deleg Gen.SO3_OA Gen.oa2r
theorem SE3_RPY_xyz_delegates (v : Vec 3 R) : Gen.SE3_RPY_xyz P v = Gen.rpy2tr_xyz P v := by deleg Gen.SE3_RPY_xyz Gen.rpy2tr_xyz
theorem SE3_RPY_yxz_delegates (v : Vec 3 R) : Gen.SE3_RPY_yxz P v = Gen.rpy2tr_yxz P v := by deleg Gen.SE3_RPY_yxz Gen.rpy2tr_yxz
theorem SE3_AngVec_delegates (th : R) (v : Vec 3 R) : Gen.SE3_AngVec P th v = Gen.angvec2tr P th v := by deleg Gen.SE3_AngVec Gen.angvec2tr
theorem SE3_OA_delegates (o a : Vec 3 R) : Gen.SE3_OA P o a = Gen.oa2tr P o a := by deleg Gen.SE3_OA Gen.oa2tr
theorem SO3_Exp_delegates (v : Vec 3 R) : Gen.SO3_Exp P v = Gen.trexp_3 P v := by deleg Gen.SO3_Exp Gen.trexp_3
theorem SE3_Exp_delegates (S : Vec 6 R) : Gen.SE3_Exp P S = Gen.trexp_6 P S := by deleg Gen.SE3_Exp Gen.trexp_6
theorem Q_mul_delegates (q p : Vec 4 R) : Gen.Q_mul P q p = Gen.qqmul P q p := by deleg Gen.Q_mul Gen.qqmul
theorem Q_conj_delegates (q : Vec 4 R) : Gen.Q_conj P q = Gen.qconj P q := by deleg Gen.Q_conj Gen.qconj
theorem Q_norm_delegates (q : Vec 4 R) : Gen.Q_norm P q = Gen.qnorm P q := by deleg Gen.Q_norm Gen.qnorm
theorem Q_inner_delegates (q p : Vec 4 R) : Gen.Q_inner P q p = Gen.qinner P q p := by deleg Gen.Q_inner Gen.qinner
theorem Q_matrix_delegates (q : Vec 4 R) : Gen.Q_matrix P q = Gen.qmatrix P q := by deleg Gen.Q_matrix Gen.qmatrix
theorem Q_mul_UQ_delegates (q p : Vec 4 R) : Gen.Q_mul_UQ P q p = Gen.qqmul P q p := by deleg Gen.Q_mul_UQ Gen.qqmul
theorem UQ_SO3_delegates (q : Vec 4 R) : Gen.UQ_SO3 P q = Gen.q2r P q := by deleg Gen.UQ_SO3 Gen.q2r
theorem UQ_ctor_norm_delegates (q : Vec 4 R) : Gen.UQ_ctor_norm P q = Gen.qunit P q := by deleg Gen.UQ_ctor_norm Gen.qunit
theorem Q_pow_2_delegates (q : Vec 4 R) : Gen.Q_pow_2 P q = Gen.qpow_2 P q := by deleg Gen.Q_pow_2 Gen.qpow_2
theorem Q_pow_m3_delegates (q : Vec 4 R) : Gen.Q_pow_m3 P q = Gen.qpow_m3 P q := by deleg Gen.Q_pow_m3 Gen.qpow_m3
theorem SE3_delta_delegates (A B : Mat 4 4 R) : Gen.SE3_delta P A B = Gen.tr2delta_2 P A B := by deleg Gen.SE3_delta Gen.tr2delta_2
theorem SE3_Ry_deg_delegates (th : R) : Gen.SE3_Ry_deg P th = Gen.SE3_Ry P (th * P.pi / 180) := by deleg Gen.SE3_Ry_deg Gen.SE3_Ry
theorem SE3_Rz_deg_delegates (th : R) : Gen.SE3_Rz_deg P th = Gen.SE3_Rz P (th * P.pi / 180) := by deleg Gen.SE3_Rz_deg Gen.SE3_Rz
theorem UQ_Ry_deg_delegates (th : R) : Gen.UQ_Ry_deg P th = Gen.UQ_Ry P (th * P.pi / 180) := by deleg Gen.UQ_Ry_deg Gen.UQ_Ry
theorem UQ_Rz_deg_delegates (th : R) : Gen.UQ_Rz_deg P th = Gen.UQ_Rz P (th * P.pi / 180) := by deleg Gen.UQ_Rz_deg Gen.UQ_Rz
theorem SO3_EulerVec_delegates (v : Vec 3 R) : Gen.SO3_EulerVec P v = Gen.trexp_3 P v := by deleg Gen.SO3_EulerVec Gen.trexp_3

theorem Q_pow_m2_delegates (q : Vec 4 R) : Gen.Q_pow_m2 P q = Gen.qpow_m2 P q := by deleg Gen.Q_pow_m2 Gen.qpow_m2
theorem Q_pow_m1_delegates (q : Vec 4 R) : Gen.Q_pow_m1 P q = Gen.qpow_m1 P q := by deleg Gen.Q_pow_m1 Gen.qpow_m1
theorem Q_pow_0_delegates (q : Vec 4 R) : Gen.Q_pow_0 P q = Gen.qpow_0 P q := by deleg Gen.Q_pow_0 Gen.qpow_0
theorem Q_pow_1_delegates (q : Vec 4 R) : Gen.Q_pow_1 P q = Gen.qpow_1 P q := by deleg Gen.Q_pow_1 Gen.qpow_1
theorem Q_pow_3_delegates (q : Vec 4 R) : Gen.Q_pow_3 P q = Gen.qpow_3 P q := by deleg Gen.Q_pow_3 Gen.qpow_3
theorem Q_sub_value (q p : Vec 4 R) : Gen.Q_sub P q p = .ok (fun i => q i - p i) := by unfold Gen.Q_sub; congr 1; ext_lit <;> simp
theorem Q_mul_scalar_value (q : Vec 4 R) (k : R) : Gen.Q_mul_scalar P q k = .ok (fun i => q i * k) := by unfold Gen.Q_mul_scalar; congr 1; ext_lit <;> simp <;> ring
theorem Q_rmul_scalar_value (q : Vec 4 R) (k : R) : Gen.Q_rmul_scalar P q k = .ok (fun i => q i * k) := by unfold Gen.Q_rmul_scalar; congr 1; ext_lit <;> simp <;> ring
theorem Q_add_value (q p : Vec 4 R) : Gen.Q_add P q p = .ok (fun i => q i + p i) := by unfold Gen.Q_add; congr 1; ext_lit <;> simp
theorem SE3_EulerVec_delegates (v : Vec 3 R) : Gen.SE3_EulerVec P v = (match Gen.trexp_3 P v with | .ok M => .ok (rt3 M (v3 0 0 0)) | .raised e => .raised e | .none => .none) := by
  unfold Gen.SE3_EulerVec Gen.trexp_3; simp only []; split_ifs <;> first | rfl | (congr 1; ext_lit <;> simp [rt3])
theorem UQ_SE3_delegates (q : Vec 4 R) : Gen.UQ_SE3 P q = (match Gen.q2r P q with | .ok M => .ok (rt3 M (v3 0 0 0)) | .raised e => .raised e | .none => .none) := by
  unfold Gen.UQ_SE3 Gen.q2r; simp only []; first | rfl | (congr 1; ext_lit <;> simp [rt3])

end SmVerif.Props.Delegation
