/-
  UnitQuaternion class operations (C02 / C04): `*`, `/`, `inv` on the class go through the constructor, which checks the
  norm and renormalises.  Whenever they return, the result is a positive multiple of the Hamilton product / quotient /
  conjugate of the stored 4-vectors, and (under the sqrt law) a unit quaternion.
-/
import SmVerif.Tactics
import SmVerif.Spec.Quat
import SmVerif.Spec.PrimLaws
import SmVerif.Gen.Quats
import Mathlib.Tactic.Linarith
import Mathlib.Tactic.Positivity

namespace SmVerif.Props.UQOps
open SmVerif SmVerif.Spec
set_option linter.unusedSectionVars false
set_option linter.unusedSimpArgs false
set_option linter.unusedTactic false
set_option linter.unreachableTactic false
variable {R : Type} [Field R] [LinearOrder R] [IsStrictOrderedRing R] (P : Prims R)

/-- M is v scaled by a positive factor -/
def PosMultiple (M v : Vec 4 R) : Prop := ∃ k : R, 0 < k ∧ ∀ i, M i * k = v i

theorem nn4 (a b c d : R) : 0 ≤ a * a + b * b + c * c + d * d :=
  add_nonneg (add_nonneg (add_nonneg (mul_self_nonneg _) (mul_self_nonneg _)) (mul_self_nonneg _)) (mul_self_nonneg _)

/-- dividing a 4-vector by the square root of its squared norm gives a unit vector (sqrt law) -/
theorem unit_of_div (hs : P.Sqrt) (a b c d n : R) (hn : n = P.sqrt (a * a + b * b + c * c + d * d)) (h0 : n ≠ 0) :
    (a / n) * (a / n) + (b / n) * (b / n) + (c / n) * (c / n) + (d / n) * (d / n) = 1 := by
  have h := hs.mul_self _ (nn4 a b c d)
  rw [← hn] at h
  field_simp
  linarith [h]

theorem UQ_mul_spec (hs : P.Sqrt) (q p M : Vec 4 R) (h : Gen.UQ_mul P q p = .ok M) :
    PosMultiple M (qmul q p) ∧ qnormsq M = 1 := by
  unfold Gen.UQ_mul at h; simp only [] at h
  split_ifs at h with h1 h2
  cases h
  set n := P.sqrt _ with hn
  have hn0 : 0 ≤ n := hs.nonneg _
  have hpos : 0 < n := by
    rcases lt_or_eq_of_le hn0 with hlt | heq
    · exact hlt
    · exfalso; apply h2; rw [← heq]; simp
  constructor
  · refine ⟨n, hpos, ?_⟩
    intro i; fin_cases i <;> simp [qmul] <;> field_simp <;> ring
  · simp only [qnormsq, v4_0, v4_1, v4_2, v4_3]
    exact unit_of_div P hs _ _ _ _ n hn (ne_of_gt hpos)

theorem UQ_div_spec (hs : P.Sqrt) (q p M : Vec 4 R) (h : Gen.UQ_div P q p = .ok M) :
    PosMultiple M (qmul q (qconj p)) ∧ qnormsq M = 1 := by
  unfold Gen.UQ_div at h; simp only [] at h
  split_ifs at h with h1 h2
  cases h
  set n := P.sqrt _ with hn
  have hn0 : 0 ≤ n := hs.nonneg _
  have hpos : 0 < n := by
    rcases lt_or_eq_of_le hn0 with hlt | heq
    · exact hlt
    · exfalso; apply h2; rw [← heq]; simp
  constructor
  · refine ⟨n, hpos, ?_⟩
    intro i; fin_cases i <;> simp [qmul, qconj] <;> field_simp <;> ring
  · simp only [qnormsq, v4_0, v4_1, v4_2, v4_3]
    exact unit_of_div P hs _ _ _ _ n hn (ne_of_gt hpos)

theorem pos_of_not_small (hs : P.Sqrt) (x : R) (h : ¬ |P.sqrt x| < 5 / 2251799813685248) : 0 < P.sqrt x := by
  rcases lt_or_eq_of_le (hs.nonneg x) with hlt | heq
  · exact hlt
  · exfalso; apply h; rw [← heq]; simp

theorem UQ_inv_spec (hs : P.Sqrt) (q M : Vec 4 R) (h : Gen.UQ_inv P q = .ok M) :
    PosMultiple M (qconj q) ∧ qnormsq M = 1 := by
  unfold Gen.UQ_inv at h; simp only [] at h
  split_ifs at h with h1 h2 h3 h4 h5 h6 h7 <;> cases h
  all_goals
    (first
      | (have p1 := pos_of_not_small P hs _ h2)
      | (have p1 := pos_of_not_small P hs _ h5))
  all_goals
    (first
      | (have p2 := pos_of_not_small P hs _ h4)
      | (have p2 := pos_of_not_small P hs _ h7))
  all_goals
    (refine ⟨?_, ?_⟩
     · generalize P.sqrt (q 0 * q 0 + q 1 * q 1 + q 2 * q 2 + q 3 * q 3) = a at *
       generalize P.sqrt _ = b at *
       refine ⟨b * a, mul_pos p2 p1, ?_⟩
       have ha := ne_of_gt p1; have hb := ne_of_gt p2
       intro i; fin_cases i <;> simp [qconj] <;> field_simp
     · simp only [qnormsq, v4_0, v4_1, v4_2, v4_3]
       exact unit_of_div P hs _ _ _ _ _ rfl (ne_of_gt p2))

end SmVerif.Props.UQOps
