/-
  C17 — operations never modify their inputs.

  The model: for every function and method of the library, smv/alias/astir.py translates the Python AST (of /repo's working
  tree, on every run) into an alias/effect program over `assign` / `write` statements, with calls expanded by per-function
  summaries, and a points-to certificate.  `Logic.AliasIR.check` re-checks the certificate against the program in Lean and
  `accepted_never_writes_params` proves that an accepted program never writes a buffer owned by a (non-allowed) parameter in
  any execution of the flow-insensitive semantics — any order, any number of repetitions of the statements.  The table check
  is by kernel evaluation over the whole generated table (no sample).
-/
import SmVerif.Logic.AliasIR
import SmVerif.Gen.AliasPrograms

namespace SmVerif.Props.C17
open SmVerif.Logic.Alias SmVerif.Gen

/-- every translated library function passes the checker with its certificate -/
theorem all_functions_pass : aliasPrograms.all checkRow = true := by
  have h : aliasChunks.all (fun c => c.all checkRow) = true := by decide +kernel
  simp only [aliasPrograms, List.all_flatten]
  exact h

/-- C17: for every translated function, from function entry with the parameters in distinct buffers, no execution of its
alias/effect program writes a buffer belonging to a parameter — other than the receiver of the documented list-mutation
methods (`allow`). -/
theorem no_input_modified (row) (hrow : row ∈ aliasPrograms) (pb : Nat → Buf) (hinj : Function.Injective pb)
    {t} (h : Exec pb row.2.2.1 (St.init pb) t) :
    ∀ b, b ∈ t.written → ∀ i, i ∉ row.2.1 → b ≠ pb i :=
  accepted_never_writes_params pb hinj row.2.1 (certOf row.2.2.2) row.2.2.1
    (List.all_eq_true.mp all_functions_pass row hrow) h

/-- the checker is not vacuous: it rejects a program that writes through an alias of a parameter … -/
example : check [] (certOf [(0, [.param 0]), (1, [.param 0])])
    [.assign 0 ⟨false, [], [0]⟩, .assign 1 ⟨false, [0], []⟩, .write 1] = false := by decide
/-- … and there is no certificate at all for it: any accepted certificate must put `param 0` in `A 1`, and then `write 1` fails -/
theorem reject_alias_write (A : Abs) :
    check [] A [.assign 0 ⟨false, [], [0]⟩, .assign 1 ⟨false, [0], []⟩, .write 1] = false := by
  by_contra hc
  have hc : check [] A [.assign 0 ⟨false, [], [0]⟩, .assign 1 ⟨false, [0], []⟩, .write 1] = true := by
    simpa using hc
  simp only [check, List.all_cons, List.all_nil, Bool.and_true, Bool.and_eq_true, okStmt, Bool.not_false,
    Bool.true_or, Bool.true_and] at hc
  obtain ⟨h0, h1, h2⟩ := hc
  have h00 : Org.param 0 ∈ A 0 := by simpa using h0
  have h01 : Org.param 0 ∈ A 1 := (by simpa using h1 : ∀ x ∈ A 0, x ∈ A 1) _ h00
  have := (List.all_eq_true.mp h2) (Org.param 0) h01
  simp at this

/-- … while it accepts the copy-then-write idiom -/
example : check [] (certOf [(0, [.param 0]), (1, [.fresh])])
    [.assign 0 ⟨false, [], [0]⟩, .assign 1 ⟨true, [], []⟩, .write 1] = true := by decide

end SmVerif.Props.C17
