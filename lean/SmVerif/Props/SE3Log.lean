/-
  C03 — the translational part of the SE(3) logarithm (general branch) inverts the translational part of the exponential.
  trlog(T) returns S = (v, w) with w the logarithm of the rotation block and v = G⁻¹ t,
      G⁻¹ = I − ½[w] + ((1/θ − cot(θ/2)/2)/θ)[w]²,   θ = ‖w‖,
  and trexp(S) rebuilds the translation as G v,  G = I + ((1 − cos θ)/θ²)[w] + ((θ − sin θ)/θ³)[w]².
  Proved here: G (G⁻¹ t) = t for every t, from tan(θ/2)(1 + cos θ) = sin θ and tan(θ/2) sin θ = 1 − cos θ; on every path of the
  traced `trlog(T, twist=True)` outside the identity bands the value is (G⁻¹ t, w) with w = trlog of the rotation block; hence
  exp(log T) = T (screw closed form = what `trexp` evaluates) for cos θ ≥ 0 and for cos θ < 0, sin θ > 0.
-/
import SmVerif.Props.C03

namespace SmVerif.Props.SE3Log
open SmVerif SmVerif.Spec SmVerif.Bridge
set_option linter.unusedSectionVars false
set_option linter.unusedTactic false
set_option linter.unreachableTactic false
set_option linter.unusedVariables false
set_option maxHeartbeats 2000000
variable {R : Type} [Field R] [LinearOrder R] [IsStrictOrderedRing R] (P : Prims R)

/-- u ↦ u + a (w × u) + b (w × (w × u)) -/
def Gmap (a b : R) (w u : Vec 3 R) : Vec 3 R := fun i => u i + a * cross3 w u i + b * cross3 w (cross3 w u) i

/-- the two maps are inverse to each other as soon as the scalar coefficients satisfy the two relations below (Q = ‖w‖²) -/
theorem G_Ginv (w t : Vec 3 R) (a b c Q : R) (hQ : Q = w 0 * w 0 + w 1 * w 1 + w 2 * w 2)
    (e1 : a - 1 / 2 - Q * (a * c - b / 2) = 0) (e2 : c + b - a / 2 - Q * b * c = 0) :
    Gmap a b w (Gmap (-(1 / 2)) c w t) = t := by
  funext i
  fin_cases i <;> simp [Gmap, cross3]
  · linear_combination (w 1 * t 2 - w 2 * t 1) * e1 + (w 1 * (w 0 * t 1 - w 1 * t 0) - w 2 * (w 2 * t 0 - w 0 * t 2)) * e2 +
      (-a*c*t 1*w 2 + a*c*t 2*w 1 - b*c*t 0*w 1^2 - b*c*t 0*w 2^2 + b*c*t 1*w 0*w 1 + b*c*t 2*w 0*w 2 + b*t 1*w 2/2 - b*t 2*w 1/2) * hQ
  · linear_combination (w 2 * t 0 - w 0 * t 2) * e1 + (w 2 * (w 1 * t 2 - w 2 * t 1) - w 0 * (w 0 * t 1 - w 1 * t 0)) * e2 +
      (a*c*t 0*w 2 - a*c*t 2*w 0 + b*c*t 0*w 0*w 1 - b*c*t 1*w 0^2 - b*c*t 1*w 2^2 + b*c*t 2*w 1*w 2 - b*t 0*w 2/2 + b*t 2*w 0/2) * hQ
  · linear_combination (w 0 * t 1 - w 1 * t 0) * e1 + (w 0 * (w 2 * t 0 - w 0 * t 2) - w 1 * (w 1 * t 2 - w 2 * t 1)) * e2 +
      (-a*c*t 0*w 1 + a*c*t 1*w 0 + b*c*t 0*w 0*w 2 + b*c*t 1*w 1*w 2 - b*c*t 2*w 0^2 - b*c*t 2*w 1^2 + b*t 0*w 1/2 - b*t 1*w 0/2) * hQ

/-- the two maps commute: G⁻¹(G v) = v as well -/
theorem Ginv_G (w v : Vec 3 R) (a b c Q : R) (hQ : Q = w 0 * w 0 + w 1 * w 1 + w 2 * w 2)
    (e1 : a - 1 / 2 - Q * (a * c - b / 2) = 0) (e2 : c + b - a / 2 - Q * b * c = 0) :
    Gmap (-(1 / 2)) c w (Gmap a b w v) = v := by
  funext i
  fin_cases i <;> simp [Gmap, cross3]
  · linear_combination (w 1 * v 2 - w 2 * v 1) * e1 + (w 1 * (w 0 * v 1 - w 1 * v 0) - w 2 * (w 2 * v 0 - w 0 * v 2)) * e2 +
      (-a*c*v 1*w 2 + a*c*v 2*w 1 - b*c*v 0*w 1^2 - b*c*v 0*w 2^2 + b*c*v 1*w 0*w 1 + b*c*v 2*w 0*w 2 + b*v 1*w 2/2 - b*v 2*w 1/2) * hQ
  · linear_combination (w 2 * v 0 - w 0 * v 2) * e1 + (w 2 * (w 1 * v 2 - w 2 * v 1) - w 0 * (w 0 * v 1 - w 1 * v 0)) * e2 +
      (a*c*v 0*w 2 - a*c*v 2*w 0 + b*c*v 0*w 0*w 1 - b*c*v 1*w 0^2 - b*c*v 1*w 2^2 + b*c*v 2*w 1*w 2 - b*v 0*w 2/2 + b*v 2*w 0/2) * hQ
  · linear_combination (w 0 * v 1 - w 1 * v 0) * e1 + (w 0 * (w 2 * v 0 - w 0 * v 2) - w 1 * (w 1 * v 2 - w 2 * v 1)) * e2 +
      (-a*c*v 0*w 1 + a*c*v 1*w 0 + b*c*v 0*w 0*w 2 + b*c*v 1*w 1*w 2 - b*c*v 2*w 0^2 - b*c*v 2*w 1^2 + b*v 0*w 1/2 - b*v 1*w 0/2) * hQ

/-- the half-angle tangent as the code uses it -/
def TanLaw (P : Prims R) : Prop := ∀ θ : R, P.tan (θ / 2) * (1 + P.cos θ) = P.sin θ ∧ P.tan (θ / 2) * P.sin θ = 1 - P.cos θ

/-- the coefficients of exponential and logarithm satisfy the two relations -/
theorem log_coeffs (θ s c Tn : R) (hθ : θ ≠ 0) (hTn : Tn ≠ 0) (h1 : Tn * (1 + c) = s) (h2 : Tn * s = 1 - c) :
    (1 - c) / (θ * θ) - 1 / 2 - θ * θ * ((1 - c) / (θ * θ) * ((1 / θ - 1 / Tn / 2) / θ) - (θ - s) / (θ * θ * θ) / 2) = 0 ∧
    (1 / θ - 1 / Tn / 2) / θ + (θ - s) / (θ * θ * θ) - (1 - c) / (θ * θ) / 2 - θ * θ * ((θ - s) / (θ * θ * θ)) * ((1 / θ - 1 / Tn / 2) / θ) = 0 := by
  constructor
  · field_simp
    linear_combination (-θ) * h2
  · field_simp
    linear_combination θ * h1

/-- value of the traced `trlog(T, twist=True)` where cos θ = (tr R − 1)/2 ≥ 0 and sin θ = ‖vex R‖ > 0 (outside the two identity
    bands, which return 0 and (t, 0)): the rotational part is vex(R)·θ/sin θ with θ = atan2(sin θ, cos θ), the translational part is
    t − ½ w × t + c·w × (w × t) with c = (1/n − cot(n/2)/2)/n, n = ‖w‖ -/
theorem trlog_T_general_value (T : Mat 4 4 R) (S : Vec 6 R) (h : Gen.trlog_T_twist P T = .ok S)
    (hc : (T 0 0 + T 1 1 + T 2 2 - 1) / 2 ≥ 0)
    (hs : P.sqrt ((T 2 1 - T 1 2) / 2 * ((T 2 1 - T 1 2) / 2) + (T 0 2 - T 2 0) / 2 * ((T 0 2 - T 2 0) / 2) + (T 1 0 - T 0 1) / 2 * ((T 1 0 - T 0 1) / 2)) > 0) :
    S = v6 0 0 0 0 0 0 ∨ S = v6 (T 0 3) (T 1 3) (T 2 3) 0 0 0 ∨
    ∃ (w : Vec 3 R) (k : R),
      k = P.atan2 (P.sqrt ((T 2 1 - T 1 2) / 2 * ((T 2 1 - T 1 2) / 2) + (T 0 2 - T 2 0) / 2 * ((T 0 2 - T 2 0) / 2) + (T 1 0 - T 0 1) / 2 * ((T 1 0 - T 0 1) / 2)))
            ((T 0 0 + T 1 1 + T 2 2 - 1) / 2) /
          P.sqrt ((T 2 1 - T 1 2) / 2 * ((T 2 1 - T 1 2) / 2) + (T 0 2 - T 2 0) / 2 * ((T 0 2 - T 2 0) / 2) + (T 1 0 - T 0 1) / 2 * ((T 1 0 - T 0 1) / 2)) ∧
      w = v3 ((T 2 1 - T 1 2) / 2 * k) ((T 0 2 - T 2 0) / 2 * k) ((T 1 0 - T 0 1) / 2 * k) ∧
      S 3 = w 0 ∧ S 4 = w 1 ∧ S 5 = w 2 ∧
      v3 (S 0) (S 1) (S 2) = Gmap (-(1 / 2))
        ((1 / P.sqrt (w 0 * w 0 + w 1 * w 1 + w 2 * w 2) - 1 / P.tan (P.sqrt (w 0 * w 0 + w 1 * w 1 + w 2 * w 2) / 2) / 2) / P.sqrt (w 0 * w 0 + w 1 * w 1 + w 2 * w 2))
        w (v3 (T 0 3) (T 1 3) (T 2 3)) := by
  unfold Gen.trlog_T_twist at h; simp only [] at h
  generalize hsdef : P.sqrt ((T 2 1 - T 1 2) / 2 * ((T 2 1 - T 1 2) / 2) + (T 0 2 - T 2 0) / 2 * ((T 0 2 - T 2 0) / 2) + (T 1 0 - T 0 1) / 2 * ((T 1 0 - T 0 1) / 2)) = s at *
  generalize hcdef : (T 0 0 + T 1 1 + T 2 2 - 1) / 2 = c at *
  split_ifs at h with h1 h2
  · left; cases h; rfl
  · right; left; cases h; rfl
  · right; right; cases h
    refine ⟨v3 ((T 2 1 - T 1 2) / 2 * (P.atan2 s c / s)) ((T 0 2 - T 2 0) / 2 * (P.atan2 s c / s)) ((T 1 0 - T 0 1) / 2 * (P.atan2 s c / s)), P.atan2 s c / s, rfl, rfl, ?_, ?_, ?_, ?_⟩
    · simp
    · simp
    · simp
    · simp only [v6_0, v6_1, v6_2, v3_0, v3_1, v3_2]
      have en : (((T 2 1 - T 1 2) / 2 * (P.atan2 s c / s) - -((T 2 1 - T 1 2) / 2 * (P.atan2 s c / s))) / 2 * (((T 2 1 - T 1 2) / 2 * (P.atan2 s c / s) - -((T 2 1 - T 1 2) / 2 * (P.atan2 s c / s))) / 2) +
          ((T 0 2 - T 2 0) / 2 * (P.atan2 s c / s) - -((T 0 2 - T 2 0) / 2 * (P.atan2 s c / s))) / 2 * (((T 0 2 - T 2 0) / 2 * (P.atan2 s c / s) - -((T 0 2 - T 2 0) / 2 * (P.atan2 s c / s))) / 2) +
          ((T 1 0 - T 0 1) / 2 * (P.atan2 s c / s) - -((T 1 0 - T 0 1) / 2 * (P.atan2 s c / s))) / 2 * (((T 1 0 - T 0 1) / 2 * (P.atan2 s c / s) - -((T 1 0 - T 0 1) / 2 * (P.atan2 s c / s))) / 2)) =
          (T 2 1 - T 1 2) / 2 * (P.atan2 s c / s) * ((T 2 1 - T 1 2) / 2 * (P.atan2 s c / s)) + (T 0 2 - T 2 0) / 2 * (P.atan2 s c / s) * ((T 0 2 - T 2 0) / 2 * (P.atan2 s c / s)) +
            (T 1 0 - T 0 1) / 2 * (P.atan2 s c / s) * ((T 1 0 - T 0 1) / 2 * (P.atan2 s c / s)) := by ring
      rw [en]
      funext i; fin_cases i <;> simp [Gmap, cross3] <;> ring

/-- on every path outside the two identity bands the translational part of `trlog(T, twist=True)` is
    t − ½ w × t + c·w × (w × t), c = (1/n − cot(n/2)/2)/n, n = ‖w‖, where w is the rotational part it returns -/
theorem trlog_T_translation_value (T : Mat 4 4 R) (S : Vec 6 R) (h : Gen.trlog_T_twist P T = .ok S) :
    S = v6 0 0 0 0 0 0 ∨ S = v6 (T 0 3) (T 1 3) (T 2 3) 0 0 0 ∨
    v3 (S 0) (S 1) (S 2) = Gmap (-(1 / 2))
        ((1 / P.sqrt (S 3 * S 3 + S 4 * S 4 + S 5 * S 5) - 1 / P.tan (P.sqrt (S 3 * S 3 + S 4 * S 4 + S 5 * S 5) / 2) / 2) / P.sqrt (S 3 * S 3 + S 4 * S 4 + S 5 * S 5))
        (v3 (S 3) (S 4) (S 5)) (v3 (T 0 3) (T 1 3) (T 2 3)) := by
  have e : ∀ a : R, (a - -a) / 2 = a := by intro a; ring
  unfold Gen.trlog_T_twist at h; simp only [] at h
  simp only [e] at h
  split_ifs at h <;> cases h
  · left; rfl
  · right; left; rfl
  all_goals (right; right; simp only [v6_0, v6_1, v6_2, v6_3, v6_4, v6_5]; funext i; fin_cases i <;> simp [Gmap, cross3] <;> ring)

/-- outside the two identity bands the rotational part of `trlog(T)` is `trlog` of the rotation block -/
theorem trlog_T_rot_eq (T : Mat 4 4 R) (S : Vec 6 R) (h : Gen.trlog_T_twist P T = .ok S) :
    S = v6 0 0 0 0 0 0 ∨ S = v6 (T 0 3) (T 1 3) (T 2 3) 0 0 0 ∨ Gen.trlog_R_twist P (rotOf3 T) = .ok (v3 (S 3) (S 4) (S 5)) := by
  have e : ∀ a : R, (a - -a) / 2 = a := by intro a; ring
  unfold Gen.trlog_T_twist at h; simp only [] at h
  simp only [e] at h
  unfold Gen.trlog_R_twist; simp only [rotOf3, v3_0, v3_1, v3_2]
  split_ifs at h <;> cases h
  · left; rfl
  · right; left; rfl
  all_goals (right; right; simp only [v6_3, v6_4, v6_5]; simp only [*, if_true, if_false, not_true_eq_false, ite_true, ite_false])

/-- atan2 of a positive sine is a positive angle -/
def Atan2Pos (P : Prims R) : Prop := ∀ y x : R, 0 < y → 0 < P.atan2 y x

/-- **the translational part of exp(log T) is the translation of T** (general branch of the SE(3) logarithm): with S = trlog(T) = (v, w),
    θ = ‖w‖ = atan2(sin θ, cos θ), the closed form of the exponential, v + ((1 − cos θ)/θ²) w × v + ((θ − sin θ)/θ³) w × (w × v),
    gives back (T₀₃, T₁₃, T₂₃).  (The rotational part is `C03.exp_log_SO3_general`; the closed form is what `trexp` evaluates,
    `C03.trexp_se3_value`.) -/
theorem exp_log_SE3_translation (hS : P.Sqrt) (hA : C03.Atan2Law P) (hPos : Atan2Pos P) (hTan : TanLaw P)
    (T : Mat 4 4 R) (hm : IsSO3 (rotOf3 T)) (S : Vec 6 R) (h : Gen.trlog_T_twist P T = .ok S)
    (hc : (T 0 0 + T 1 1 + T 2 2 - 1) / 2 ≥ 0)
    (hs : P.sqrt ((T 2 1 - T 1 2) / 2 * ((T 2 1 - T 1 2) / 2) + (T 0 2 - T 2 0) / 2 * ((T 0 2 - T 2 0) / 2) + (T 1 0 - T 0 1) / 2 * ((T 1 0 - T 0 1) / 2)) > 0) :
    S = v6 0 0 0 0 0 0 ∨ S = v6 (T 0 3) (T 1 3) (T 2 3) 0 0 0 ∨
    ∃ θ : R, 0 < θ ∧ θ * θ = S 3 * S 3 + S 4 * S 4 + S 5 * S 5 ∧
      Gmap ((1 - P.cos θ) / (θ * θ)) ((θ - P.sin θ) / (θ * θ * θ)) (v3 (S 3) (S 4) (S 5)) (v3 (S 0) (S 1) (S 2)) = v3 (T 0 3) (T 1 3) (T 2 3) := by
  rcases trlog_T_general_value P T S h hc hs with h0 | h0 | ⟨w, k, hk, hw, e3, e4, e5, hv⟩
  · left; exact h0
  · right; left; exact h0
  right; right
  have hss := hS.mul_self _ (sq3_nonneg' ((T 2 1 - T 1 2) / 2) ((T 0 2 - T 2 0) / 2) ((T 1 0 - T 0 1) / 2))
  have hsc := sin_sq_add_cos_sq hm
  simp only [dot, sinAxis, cosAngle, Fin.sum_univ_three, v3_0, v3_1, v3_2, rotOf3] at hsc
  generalize hsdef : P.sqrt ((T 2 1 - T 1 2) / 2 * ((T 2 1 - T 1 2) / 2) + (T 0 2 - T 2 0) / 2 * ((T 0 2 - T 2 0) / 2) + (T 1 0 - T 0 1) / 2 * ((T 1 0 - T 0 1) / 2)) = s at *
  generalize hcdef : (T 0 0 + T 1 1 + T 2 2 - 1) / 2 = c at *
  have hunit : c * c + s * s = 1 := by rw [hss]; linear_combination hsc
  obtain ⟨hcos, hsin⟩ := hA s c hs hunit
  have hθpos := hPos s c hs
  set θ := P.atan2 s c with hθ
  have hsne : s ≠ 0 := ne_of_gt hs
  have hθne : θ ≠ 0 := ne_of_gt hθpos
  have hkθ : k * s = θ := by rw [hk]; field_simp
  -- ‖w‖ = θ
  have hww : w 0 * w 0 + w 1 * w 1 + w 2 * w 2 = θ * θ := by
    rw [hw]; simp only [v3_0, v3_1, v3_2]
    linear_combination (k * k) * hss.symm + (k * s + θ) * hkθ
  have hsq : P.sqrt (w 0 * w 0 + w 1 * w 1 + w 2 * w 2) = θ := by
    rw [hww]
    have h1 := hS.mul_self _ (mul_self_nonneg θ)
    have h0 := hS.nonneg (θ * θ)
    have h2 : (P.sqrt (θ * θ) - θ) * (P.sqrt (θ * θ) + θ) = 0 := by linear_combination h1
    rcases mul_eq_zero.mp h2 with e | e
    · linarith
    · exfalso; linarith
  rw [hsq] at hv
  obtain ⟨t1, t2⟩ := hTan θ
  rw [hcos, hsin] at t1 t2
  have hTn : P.tan (θ / 2) ≠ 0 := by
    intro e; rw [e] at t1; apply hsne; linarith
  obtain ⟨c1, c2⟩ := log_coeffs θ s c (P.tan (θ / 2)) hθne hTn t1 t2
  refine ⟨θ, hθpos, ?_, ?_⟩
  · rw [e3, e4, e5, hww]
  · have hSw : (v3 (S 3) (S 4) (S 5) : Vec 3 R) = w := by rw [e3, e4, e5]; funext i; fin_cases i <;> rfl
    rw [hSw, hv, hcos, hsin]
    exact G_Ginv w _ _ _ _ (θ * θ) hww.symm c1 c2

/-- the closed form of the exponential written on the unit axis w/θ and the unit-twist moment v/θ is the map above -/
theorem Vmat_eq_Gmap (w v : Vec 3 R) (c s θ : R) (hθ : θ ≠ 0) :
    mvec (Vmat (fun i => w i / θ) c s θ) (fun i => v i / θ) = Gmap ((1 - c) / (θ * θ)) ((θ - s) / (θ * θ * θ)) w v := by
  funext i
  fin_cases i <;> simp [mvec, Vmat, Gmap, cross3, skew3, mmul, one3, Fin.sum_univ_three] <;> field_simp <;> ring

/-- **exp(log T) = T on the general branch of the SE(3) logarithm**: for a rigid motion T whose rotation has cos θ ≥ 0 and sin θ > 0,
    `trlog(T, twist=True)` returns 0 / (t, 0) inside the identity bands, or S = (v, w) with θ = ‖w‖ > 0 such that the screw closed
    form — the value `trexp` computes for S (`C03.trexp_se3_value`) — about the axis w/θ with moment v/θ through θ is T itself -/
theorem exp_log_SE3_general (hS : P.Sqrt) (hA : C03.Atan2Law P) (hPos : Atan2Pos P) (hTan : TanLaw P)
    (T : Mat 4 4 R) (hm : IsSO3 (rotOf3 T)) (hrow : T 3 0 = 0 ∧ T 3 1 = 0 ∧ T 3 2 = 0 ∧ T 3 3 = 1)
    (S : Vec 6 R) (h : Gen.trlog_T_twist P T = .ok S)
    (hc : (T 0 0 + T 1 1 + T 2 2 - 1) / 2 ≥ 0)
    (hs : P.sqrt ((T 2 1 - T 1 2) / 2 * ((T 2 1 - T 1 2) / 2) + (T 0 2 - T 2 0) / 2 * ((T 0 2 - T 2 0) / 2) + (T 1 0 - T 0 1) / 2 * ((T 1 0 - T 0 1) / 2)) > 0) :
    S = v6 0 0 0 0 0 0 ∨ S = v6 (T 0 3) (T 1 3) (T 2 3) 0 0 0 ∨
    ∃ θ : R, 0 < θ ∧ θ * θ = S 3 * S 3 + S 4 * S 4 + S 5 * S 5 ∧
      screwExp (fun i => v3 (S 3) (S 4) (S 5) i / θ) (fun i => v3 (S 0) (S 1) (S 2) i / θ) (P.cos θ) (P.sin θ) θ = T := by
  rcases trlog_T_general_value P T S h hc hs with h0 | h0 | ⟨w, k, hk, hw, e3, e4, e5, hv⟩
  · left; exact h0
  · right; left; exact h0
  rcases exp_log_SE3_translation P hS hA hPos hTan T hm S h hc hs with g0 | g0 | ⟨θ', hθ'pos, hθ'sq, hG⟩
  · left; exact g0
  · right; left; exact g0
  right; right
  have hss := hS.mul_self _ (sq3_nonneg' ((T 2 1 - T 1 2) / 2) ((T 0 2 - T 2 0) / 2) ((T 1 0 - T 0 1) / 2))
  have hsc := sin_sq_add_cos_sq hm
  simp only [dot, sinAxis, cosAngle, Fin.sum_univ_three, v3_0, v3_1, v3_2, rotOf3] at hsc
  generalize hsdef : P.sqrt ((T 2 1 - T 1 2) / 2 * ((T 2 1 - T 1 2) / 2) + (T 0 2 - T 2 0) / 2 * ((T 0 2 - T 2 0) / 2) + (T 1 0 - T 0 1) / 2 * ((T 1 0 - T 0 1) / 2)) = s at *
  generalize hcdef : (T 0 0 + T 1 1 + T 2 2 - 1) / 2 = c at *
  have hunit : c * c + s * s = 1 := by rw [hss]; linear_combination hsc
  have hunit' : s * s + c * c = 1 := by linear_combination hunit
  obtain ⟨hcos, hsin⟩ := hA s c hs hunit
  have hθpos := hPos s c hs
  set θ := P.atan2 s c with hθ
  have hsne : s ≠ 0 := ne_of_gt hs
  have hθne : θ ≠ 0 := ne_of_gt hθpos
  have hkθ : k * s = θ := by rw [hk]; field_simp
  have hww : w 0 * w 0 + w 1 * w 1 + w 2 * w 2 = θ * θ := by
    rw [hw]; simp only [v3_0, v3_1, v3_2]
    linear_combination (k * k) * hss.symm + (k * s + θ) * hkθ
  -- the angle of the translation theorem is the same θ (both positive with the same square)
  have hθeq : θ' = θ := by
    have e : θ' * θ' = θ * θ := by rw [hθ'sq, e3, e4, e5, hww]
    have : (θ' - θ) * (θ' + θ) = 0 := by linear_combination e
    rcases mul_eq_zero.mp this with e' | e'
    · linarith
    · exfalso; linarith
  subst hθeq
  refine ⟨θ, hθ'pos, hθ'sq, ?_⟩
  have hc2 : 2 * c = rotOf3 T 0 0 + rotOf3 T 1 1 + rotOf3 T 2 2 - 1 := by simp only [rotOf3, v3_0, v3_1, v3_2]; rw [← hcdef]; ring
  have hSw : (v3 (S 3) (S 4) (S 5) : Vec 3 R) = w := by rw [e3, e4, e5]; funext i; fin_cases i <;> rfl
  have hrot : rodM (fun i => v3 (S 3) (S 4) (S 5) i / θ) (P.cos θ) (P.sin θ) = rotOf3 T := by
    rw [hcos, hsin, hSw]
    refine rod_of_log hm _ s c hsne ?_ ?_ ?_ hc2 hunit'
    · simp only [rotOf3, v3_0, v3_1, v3_2]; rw [hw]; simp only [v3_0]; field_simp; linear_combination ((T 2 1 - T 1 2)) * hkθ
    · simp only [rotOf3, v3_0, v3_1, v3_2]; rw [hw]; simp only [v3_1]; field_simp; linear_combination ((T 0 2 - T 2 0)) * hkθ
    · simp only [rotOf3, v3_0, v3_1, v3_2]; rw [hw]; simp only [v3_2]; field_simp; linear_combination ((T 1 0 - T 0 1)) * hkθ
  unfold screwExp
  rw [hrot, Vmat_eq_Gmap _ _ _ _ _ hθne, hG]
  obtain ⟨r0, r1, r2, r3⟩ := hrow
  funext i j
  fin_cases i <;> fin_cases j <;> simp [rt3, rotOf3, r0, r1, r2, r3]

/-- assembling rotation and translation: if the rotational part of S is θ·a (unit a, θ > 0, sin θ ≠ 0) with Rodrigues(a, θ) the rotation
    block of T, and the translational part is G⁻¹t as the code computes it, then the screw closed form for S is T -/
theorem se3_assemble (hS : P.Sqrt) (hTan : TanLaw P) (T : Mat 4 4 R) (hrow : T 3 0 = 0 ∧ T 3 1 = 0 ∧ T 3 2 = 0 ∧ T 3 3 = 1)
    (S : Vec 6 R) (a : Vec 3 R) (θ : R) (hθpos : 0 < θ) (hsin : P.sin θ ≠ 0)
    (hL : ∀ i, (v3 (S 3) (S 4) (S 5) : Vec 3 R) i = a i * θ) (ha : a 0 ^ 2 + a 1 ^ 2 + a 2 ^ 2 = 1)
    (hrod : rodM a (P.cos θ) (P.sin θ) = rotOf3 T)
    (hv : v3 (S 0) (S 1) (S 2) = Gmap (-(1 / 2))
        ((1 / P.sqrt (S 3 * S 3 + S 4 * S 4 + S 5 * S 5) - 1 / P.tan (P.sqrt (S 3 * S 3 + S 4 * S 4 + S 5 * S 5) / 2) / 2) / P.sqrt (S 3 * S 3 + S 4 * S 4 + S 5 * S 5))
        (v3 (S 3) (S 4) (S 5)) (v3 (T 0 3) (T 1 3) (T 2 3))) :
    θ * θ = S 3 * S 3 + S 4 * S 4 + S 5 * S 5 ∧
    screwExp (fun i => v3 (S 3) (S 4) (S 5) i / θ) (fun i => v3 (S 0) (S 1) (S 2) i / θ) (P.cos θ) (P.sin θ) θ = T := by
  have hθne : θ ≠ 0 := ne_of_gt hθpos
  have l0 := hL 0; have l1 := hL 1; have l2 := hL 2
  simp only [v3_0, v3_1, v3_2] at l0 l1 l2
  have hww : S 3 * S 3 + S 4 * S 4 + S 5 * S 5 = θ * θ := by
    rw [l0, l1, l2]; linear_combination (θ * θ) * ha
  have hsq : P.sqrt (S 3 * S 3 + S 4 * S 4 + S 5 * S 5) = θ := by
    rw [hww]
    have h1 := hS.mul_self _ (mul_self_nonneg θ)
    have h0 := hS.nonneg (θ * θ)
    have h2 : (P.sqrt (θ * θ) - θ) * (P.sqrt (θ * θ) + θ) = 0 := by linear_combination h1
    rcases mul_eq_zero.mp h2 with e | e
    · linarith
    · exfalso; linarith
  rw [hsq] at hv
  obtain ⟨t1, t2⟩ := hTan θ
  have hTn : P.tan (θ / 2) ≠ 0 := by
    intro e; rw [e] at t1; apply hsin; linarith
  obtain ⟨c1, c2⟩ := log_coeffs θ (P.sin θ) (P.cos θ) (P.tan (θ / 2)) hθne hTn t1 t2
  refine ⟨hww.symm, ?_⟩
  have hax : (fun i => (v3 (S 3) (S 4) (S 5) : Vec 3 R) i / θ) = a := by
    funext i; rw [hL i]; field_simp
  unfold screwExp
  rw [Vmat_eq_Gmap _ _ _ _ _ hθne, hv, hax, hrod]
  have hG := G_Ginv (v3 (S 3) (S 4) (S 5)) (v3 (T 0 3) (T 1 3) (T 2 3)) _ _ _ (θ * θ) (by simp only [v3_0, v3_1, v3_2]; exact hww.symm) c1 c2
  rw [hG]
  obtain ⟨r0, r1, r2, r3⟩ := hrow
  funext i j
  fin_cases i <;> fin_cases j <;> simp [rt3, rotOf3, r0, r1, r2, r3]

/-- **exp(log T) = T on the obtuse branch of the SE(3) logarithm** (cos θ < 0, sin θ > 0; all eight paths of the axis selection) -/
theorem exp_log_SE3_obtuse (hS : P.Sqrt) (hA : C03.Atan2Law P) (hPos : Atan2Pos P) (hTan : TanLaw P)
    (T : Mat 4 4 R) (hm : IsSO3 (rotOf3 T)) (hrow : T 3 0 = 0 ∧ T 3 1 = 0 ∧ T 3 2 = 0 ∧ T 3 3 = 1)
    (S : Vec 6 R) (h : Gen.trlog_T_twist P T = .ok S)
    (hc : (T 0 0 + T 1 1 + T 2 2 - 1) / 2 < 0)
    (hs : P.sqrt ((T 2 1 - T 1 2) / 2 * ((T 2 1 - T 1 2) / 2) + (T 0 2 - T 2 0) / 2 * ((T 0 2 - T 2 0) / 2) + (T 1 0 - T 0 1) / 2 * ((T 1 0 - T 0 1) / 2)) > 0) :
    S = v6 0 0 0 0 0 0 ∨ S = v6 (T 0 3) (T 1 3) (T 2 3) 0 0 0 ∨ (S 3 = 0 ∧ S 4 = 0 ∧ S 5 = 0) ∨
    ∃ θ : R, 0 < θ ∧ θ * θ = S 3 * S 3 + S 4 * S 4 + S 5 * S 5 ∧
      screwExp (fun i => v3 (S 3) (S 4) (S 5) i / θ) (fun i => v3 (S 0) (S 1) (S 2) i / θ) (P.cos θ) (P.sin θ) θ = T := by
  rcases trlog_T_rot_eq P T S h with h0 | h0 | hR
  · left; exact h0
  · right; left; exact h0
  rcases trlog_T_translation_value P T S h with g0 | g0 | hv
  · left; exact g0
  · right; left; exact g0
  right; right
  have hc' : (rotOf3 T 0 0 + rotOf3 T 1 1 + rotOf3 T 2 2 - 1) / 2 < 0 := by simpa [rotOf3] using hc
  have hs' : P.sqrt ((rotOf3 T 2 1 - rotOf3 T 1 2) / 2 * ((rotOf3 T 2 1 - rotOf3 T 1 2) / 2) + (rotOf3 T 0 2 - rotOf3 T 2 0) / 2 * ((rotOf3 T 0 2 - rotOf3 T 2 0) / 2) + (rotOf3 T 1 0 - rotOf3 T 0 1) / 2 * ((rotOf3 T 1 0 - rotOf3 T 0 1) / 2)) > 0 := by
    simpa [rotOf3] using hs
  rcases C03.exp_log_SO3_obtuse P hS hA (rotOf3 T) hm _ hR hc' hs' with hz | ⟨a, θ, hθ, hL, ha, hrod⟩
  · left
    have z0 := congrFun hz 0; have z1 := congrFun hz 1; have z2 := congrFun hz 2
    simp only [v3_0, v3_1, v3_2] at z0 z1 z2
    exact ⟨z0, z1, z2⟩
  right
  have hss := hS.mul_self _ (sq3_nonneg' ((T 2 1 - T 1 2) / 2) ((T 0 2 - T 2 0) / 2) ((T 1 0 - T 0 1) / 2))
  have hsc := sin_sq_add_cos_sq hm
  simp only [dot, sinAxis, cosAngle, Fin.sum_univ_three, v3_0, v3_1, v3_2, rotOf3] at hsc hθ
  generalize hsdef : P.sqrt ((T 2 1 - T 1 2) / 2 * ((T 2 1 - T 1 2) / 2) + (T 0 2 - T 2 0) / 2 * ((T 0 2 - T 2 0) / 2) + (T 1 0 - T 0 1) / 2 * ((T 1 0 - T 0 1) / 2)) = s at *
  generalize hcdef : (T 0 0 + T 1 1 + T 2 2 - 1) / 2 = c at *
  have hunit : c * c + s * s = 1 := by rw [hss]; linear_combination hsc
  obtain ⟨hcos, hsin⟩ := hA s c hs hunit
  have hθpos : 0 < θ := by rw [hθ]; exact hPos s c hs
  have hsinne : P.sin θ ≠ 0 := by rw [hθ, hsin]; exact ne_of_gt hs
  obtain ⟨e1, e2⟩ := se3_assemble P hS hTan T hrow S a θ hθpos hsinne hL ha hrod hv
  exact ⟨θ, hθpos, e1, e2⟩

end SmVerif.Props.SE3Log
