/-
  C08 — operators are type-safe: only documented operand pairs produce a result.
  The dispatch model (Logic.Dispatch: every class's operator methods + Python's operator protocol) is proved to meet the
  three-valued documentation table in every cell: a documented pair returns the documented class, every pair the
  property lists as forbidden raises (never None, an identity or a foreign container), for all 16 × 16 × 6 cells.
  The model is tied to the real classes by the exhaustive enumeration in smv/props/c08.py (which also covers multi-valued
  operands, scalars and ==/!=).
-/
import SmVerif.Logic.Dispatch

namespace SmVerif.Props.C08
open SmVerif.Logic

/-- every (left class, right class, operator) cell of the model agrees with the documentation table -/
theorem dispatch_sound : ∀ l ∈ Cls.all, ∀ r ∈ Cls.all, ∀ op ∈ BOp.all, cellOk l r op = true := by
  decide +kernel

theorem all_classes (c : Cls) : c ∈ Cls.all := by cases c <;> decide
theorem all_ops (o : BOp) : o ∈ BOp.all := by cases o <;> decide

/-- … hence for every cell -/
theorem dispatch_sound' (l r : Cls) (op : BOp) : cellOk l r op = true :=
  dispatch_sound l (all_classes l) r (all_classes r) op (all_ops op)

/-- in particular: every forbidden pairing raises -/
theorem forbidden_raises (l r : Cls) (op : BOp) (h : documented l r op = .mustRaise) : binopCls l r op = .raises := by
  have := dispatch_sound' l r op
  simp only [cellOk, h] at this
  exact eq_of_beq this

/-- … and a documented pairing returns exactly the documented kind of value -/
theorem documented_result (l r : Cls) (op : BOp) (x : Res) (h : documented l r op = .result x) : binopCls l r op = x := by
  have := dispatch_sound' l r op
  simp only [cellOk, h] at this
  exact eq_of_beq this

/-- non-vacuity: the table has forbidden, documented and unspecified cells -/
example : documented .SE3 .SO3 .mul = .mustRaise ∧ documented .SE3 .Pl .mul = .result (.cls .Pl) ∧
    documented .Tw3 .Tw3 .add = .unspecified := by decide

/-- the model never produces `none` in any cell (no operator silently returns None) -/
theorem never_none : ∀ l ∈ Cls.all, ∀ r ∈ Cls.all, ∀ op ∈ BOp.all, binopCls l r op ≠ .none := by
  decide +kernel

end SmVerif.Props.C08
