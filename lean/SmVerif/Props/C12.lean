/-
  C12 — Quaternion arithmetic obeys the Hamilton algebra.
  Property theorems only.  Every statement is about `Gen.*`, the definitions regenerated from
  /repo's source on every run; helper lemmas live in Spec/ and Bridge/.
  Scope proved here: the base-package functions (product, conjugate, inner, powers −6…6, matrix,
  3-vector product, rates, q2r action).  Class-level wrappers: Props/C12cls.lean.
-/
import SmVerif.Bridge.Quat
import Mathlib.Tactic.NormNum

namespace SmVerif.Props.C12
open SmVerif SmVerif.Spec
set_option linter.unusedSectionVars false
variable {R : Type} [Field R] [LinearOrder R] [IsStrictOrderedRing R] (P : Prims R)

/-- the product never raises and is a polynomial map (total on all real 4-tuples) -/
theorem qqmul_total (a b : Vec 4 R) : ∃ r, Gen.qqmul P a b = .ok r := ⟨_, Bridge.qqmul P a b⟩

/-- associativity: (a*b)*c = a*(b*c) for all real components -/
theorem qqmul_assoc (a b c ab bc : Vec 4 R)
    (h1 : Gen.qqmul P a b = .ok ab) (h2 : Gen.qqmul P b c = .ok bc) :
    Gen.qqmul P ab c = Gen.qqmul P a bc := by
  rw [Bridge.qqmul] at h1 h2; cases h1; cases h2
  rw [Bridge.qqmul, Bridge.qqmul, qmul_assoc]

/-- distributivity over addition, both sides -/
theorem qqmul_add_right (a b c : Vec 4 R) :
    Gen.qqmul P a (fun i => b i + c i) = .ok (fun i => qmul a b i + qmul a c i) := by
  rw [Bridge.qqmul]; congr 1; exact qmul_add a b c
theorem qqmul_add_left (a b c : Vec 4 R) :
    Gen.qqmul P (fun i => a i + b i) c = .ok (fun i => qmul a c i + qmul b c i) := by
  rw [Bridge.qqmul]; congr 1; exact add_qmul a b c

/-- the norm is multiplicative (squared form: exact in every field) -/
theorem normsq_mul (a b ab : Vec 4 R) (h : Gen.qqmul P a b = .ok ab) :
    qnormsq ab = qnormsq a * qnormsq b := by
  rw [Bridge.qqmul] at h; cases h; exact qnormsq_mul a b

/-- `qnorm` is the square root of the sum of squares -/
theorem qnorm_def (a : Vec 4 R) : Gen.qnorm P a = .ok (P.sqrt (qnormsq a)) := Bridge.qnorm P a

/-- conjugation reverses products -/
theorem conj_mul_rev (a b ab ca cb : Vec 4 R) (h : Gen.qqmul P a b = .ok ab)
    (ha : Gen.qconj P a = .ok ca) (hb : Gen.qconj P b = .ok cb) :
    Gen.qconj P ab = Gen.qqmul P cb ca := by
  rw [Bridge.qqmul] at h; rw [Bridge.qconj] at ha hb; cases h; cases ha; cases hb
  rw [Bridge.qconj, Bridge.qqmul, qconj_mul]

/-- q * conj q = (|q|², 0, 0, 0) -/
theorem mul_conj (a ca : Vec 4 R) (ha : Gen.qconj P a = .ok ca) :
    Gen.qqmul P a ca = .ok (v4 (qnormsq a) 0 0 0) := by
  rw [Bridge.qconj] at ha; cases ha; rw [Bridge.qqmul, qmul_conj]

/-- integer powers −6…6 as traced equal the n-fold product; a negative power is the conjugate of
the positive one.  (`qnpow q n` is the left fold `((1*q)*q)*…`, n factors.) -/
theorem qpow_table (q : Vec 4 R) :
    Gen.qpow_0 P q = .ok (qnpow q 0) ∧ Gen.qpow_1 P q = .ok (qnpow q 1) ∧
    Gen.qpow_2 P q = .ok (qnpow q 2) ∧ Gen.qpow_3 P q = .ok (qnpow q 3) ∧
    Gen.qpow_4 P q = .ok (qnpow q 4) ∧ Gen.qpow_5 P q = .ok (qnpow q 5) ∧
    Gen.qpow_6 P q = .ok (qnpow q 6) ∧
    Gen.qpow_m1 P q = .ok (Spec.qconj (qnpow q 1)) ∧ Gen.qpow_m2 P q = .ok (Spec.qconj (qnpow q 2)) ∧
    Gen.qpow_m3 P q = .ok (Spec.qconj (qnpow q 3)) ∧ Gen.qpow_m4 P q = .ok (Spec.qconj (qnpow q 4)) ∧
    Gen.qpow_m5 P q = .ok (Spec.qconj (qnpow q 5)) ∧ Gen.qpow_m6 P q = .ok (Spec.qconj (qnpow q 6)) :=
  ⟨Bridge.qpow_0 P q, Bridge.qpow_1 P q, Bridge.qpow_2 P q, Bridge.qpow_3 P q, Bridge.qpow_4 P q,
   Bridge.qpow_5 P q, Bridge.qpow_6 P q, Bridge.qpow_m1 P q, Bridge.qpow_m2 P q, Bridge.qpow_m3 P q,
   Bridge.qpow_m4 P q, Bridge.qpow_m5 P q, Bridge.qpow_m6 P q⟩

/-- laws of the n-fold product for *every* n (induction): exponents add, and for a unit
quaternion the negative power inverts the positive one -/
theorem npow_add (q : Vec 4 R) (m n : Nat) : qnpow q (m + n) = qmul (qnpow q m) (qnpow q n) :=
  qnpow_add q m n
theorem npow_neg_inverse (q : Vec 4 R) (h : qnormsq q = 1) (n : Nat) :
    qmul (qnpow q n) (qzpow q (-(n : Int))) = qone := qzpow_neg_mul q h n

/-- the 4×4 matrix form reproduces left multiplication -/
theorem matrix_mulVec (a b : Vec 4 R) (M : Mat 4 4 R) (h : Gen.qmatrix P a = .ok M) :
    Gen.qqmul P a b = .ok (mvec M b) := by
  rw [Bridge.qmatrix] at h; cases h; rw [Bridge.qqmul, qmatrix_mulVec]

/-- the inner product is the Euclidean dot product -/
theorem inner_eq_dot (a b : Vec 4 R) : Gen.qinner P a b = .ok (∑ i, a i * b i) := by
  rw [Bridge.qinner]; congr 1; simp [Spec.qinner, Fin.sum_univ_four]

/-- kinematic rates: world frame ½·ω∘q, body frame ½·q∘ω -/
theorem dot_world (q : Vec 4 R) (w : Vec 3 R) (pw : Vec 4 R) (hp : Gen.pure P w = .ok pw) :
    Gen.qdot P q w = (Gen.qqmul P pw q).map (fun r i => (1 / 2) * r i) := by
  rw [Bridge.pure] at hp; cases hp; rw [Bridge.qdot, Bridge.qqmul]; rfl
theorem dot_body (q : Vec 4 R) (w : Vec 3 R) (pw : Vec 4 R) (hp : Gen.pure P w = .ok pw) :
    Gen.qdotb P q w = (Gen.qqmul P q pw).map (fun r i => (1 / 2) * r i) := by
  rw [Bridge.pure] at hp; cases hp; rw [Bridge.qdotb, Bridge.qqmul]; rfl

/-- the 3-vector form multiplies consistently with the full product: for unit quaternions a, b with
non-negative scalar parts, vvmul (vec a) (vec b) is the vector part of a*b.
Needs only `sqrt (x*x) = x` for `x ≥ 0`. -/
theorem vvmul_consistent (hsq : ∀ x : R, 0 ≤ x → P.sqrt (x * x) = x)
    (a b : Vec 4 R) (ha : qnormsq a = 1) (hb : qnormsq b = 1) (ha0 : 0 ≤ a 0) (hb0 : 0 ≤ b 0) :
    Gen.vvmul P (qvec a) (qvec b) = (Gen.qqmul P a b).map qvec := by
  rw [Bridge.vvmul, Bridge.qqmul]
  have e1 : (1 : R) - (qvec a 0 ^ 2 + qvec a 1 ^ 2 + qvec a 2 ^ 2) = a 0 * a 0 := by
    simp only [qnormsq] at ha; simp [qvec]; linear_combination -ha
  have e2 : (1 : R) - (qvec b 0 ^ 2 + qvec b 1 ^ 2 + qvec b 2 ^ 2) = b 0 * b 0 := by
    simp only [qnormsq] at hb; simp [qvec]; linear_combination -hb
  rw [e1, e2, hsq _ ha0, hsq _ hb0]
  have ea : (v4 (a 0) (qvec a 0) (qvec a 1) (qvec a 2) : Vec 4 R) = a := by
    apply Vec.ext4 <;> simp [qvec]
  have eb : (v4 (b 0) (qvec b 0) (qvec b 1) (qvec b 2) : Vec 4 R) = b := by
    apply Vec.ext4 <;> simp [qvec]
  rw [ea, eb]; rfl

/-- non-vacuity: the hypotheses of `vvmul_consistent` are met by a concrete pair -/
example : qnormsq (v4 (3/5 : ℚ) (4/5) 0 0) = 1 ∧ (0 : ℚ) ≤ (v4 (3/5 : ℚ) (4/5) 0 0 : Vec 4 ℚ) 0 := by
  constructor
  · norm_num [qnormsq]
  · norm_num

/-- rotating a vector by the sandwich product equals the rotation matrix acting on it (unit q) -/
theorem qvmul_eq_q2r (q : Vec 4 R) (v : Vec 3 R) (h : qnormsq q = 1) (M : Mat 3 3 R)
    (hM : Gen.q2r P q = .ok M) : Gen.qvmul P q v = .ok (mvec M v) := by
  rw [Bridge.q2r] at hM; cases hM; rw [Bridge.qvmul, qvmul_eq q v h]

end SmVerif.Props.C12
