/-
  C15 on the regenerated model, extraction side: asking for degrees multiplies every returned angle by 180/π — on every
  branch of the extraction code (singular ones included) — and a 4×4 argument gives what its rotation block gives.
-/
import SmVerif.Tactics
import SmVerif.Gen.Transforms3d
import SmVerif.Gen.Transforms2d

namespace SmVerif.Props.Units
open SmVerif
set_option linter.unusedSectionVars false
set_option linter.unusedTactic false
set_option linter.unreachableTactic false
set_option maxHeartbeats 4000000
variable {R : Type} [Field R] [LinearOrder R] [IsStrictOrderedRing R] (P : Prims R)

/-- degrees = radians · 180/π, for a function returning a 3-vector of angles -/
macro "deg_conv" gd:ident gr:ident : tactic =>
  `(tactic| (intro d h; unfold $gd at h; unfold $gr; (try simp only [] at h); (try simp only []); (try split_ifs at h); all_goals (try cases h);
             all_goals (refine ⟨?_, ?_, ?_⟩);
             any_goals (first | rfl | (simp only [*, if_true, if_false, not_true_eq_false, not_false_eq_true]; rfl));
             any_goals (intro i; fin_cases i <;> simp <;> ring)))

theorem tr2rpy_zyx_deg (m : Mat 3 3 R) : ∀ d, Gen.tr2rpy_zyx_deg P m = .ok d → ∃ r, Gen.tr2rpy_zyx P m = .ok r ∧ ∀ i, d i = r i * (180 / P.pi) := by
  deg_conv Gen.tr2rpy_zyx_deg Gen.tr2rpy_zyx
theorem tr2rpy_xyz_deg (m : Mat 3 3 R) : ∀ d, Gen.tr2rpy_xyz_deg P m = .ok d → ∃ r, Gen.tr2rpy_xyz P m = .ok r ∧ ∀ i, d i = r i * (180 / P.pi) := by
  deg_conv Gen.tr2rpy_xyz_deg Gen.tr2rpy_xyz
theorem tr2rpy_yxz_deg (m : Mat 3 3 R) : ∀ d, Gen.tr2rpy_yxz_deg P m = .ok d → ∃ r, Gen.tr2rpy_yxz P m = .ok r ∧ ∀ i, d i = r i * (180 / P.pi) := by
  deg_conv Gen.tr2rpy_yxz_deg Gen.tr2rpy_yxz
theorem tr2eul_deg (m : Mat 3 3 R) : ∀ d, Gen.tr2eul_deg P m = .ok d → ∃ r, Gen.tr2eul P m = .ok r ∧ ∀ i, d i = r i * (180 / P.pi) := by
  deg_conv Gen.tr2eul_deg Gen.tr2eul
theorem tr2xyt_deg (T : Mat 3 3 R) : ∀ d, Gen.tr2xyt_deg P T = .ok d → ∃ r, Gen.tr2xyt P T = .ok r ∧ d 0 = r 0 ∧ d 1 = r 1 ∧ d 2 = r 2 * (180 / P.pi) := by
  intro d h; unfold Gen.tr2xyt_deg at h; unfold Gen.tr2xyt; simp only [] at h ⊢; cases h
  exact ⟨_, rfl, by simp, by simp, by simp⟩

/-- a homogeneous 4×4 argument is reduced to its rotation block -/
theorem tr2rpy_zyx_T (T : Mat 4 4 R) : Gen.tr2rpy_zyx_T P T = Gen.tr2rpy_zyx P (rotOf3 T) := by
  unfold Gen.tr2rpy_zyx_T Gen.tr2rpy_zyx; simp only [rotOf3, v3_0, v3_1, v3_2]; rfl
theorem tr2eul_T (T : Mat 4 4 R) : Gen.tr2eul_T P T = Gen.tr2eul P (rotOf3 T) := by
  unfold Gen.tr2eul_T Gen.tr2eul; simp only [rotOf3, v3_0, v3_1, v3_2]; rfl

end SmVerif.Props.Units
