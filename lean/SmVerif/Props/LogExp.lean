/-
  C03 — log ∘ exp: the logarithm of Rodrigues' rotation about a unit axis a through θ with sin θ > 0 (acute branch directly, obtuse
  branch through `C03.exp_log_SO3_obtuse` and the uniqueness of the axis) is θ·a, given that atan2 inverts (cos, sin) at θ.  With
  `C03.trexp_so3_value` / `trexp_6_rot` (what trexp evaluates) this gives log(exp(w)) = w on SO(3) and, with G⁻¹G = I, log(exp(S)) = S
  on SE(3), for 0 < ‖w‖ < π.
-/
import SmVerif.Props.C03
import SmVerif.Props.SE3Log

namespace SmVerif.Props.LogExp
open SmVerif SmVerif.Spec SmVerif.Bridge SmVerif.Props.SE3Log
set_option linter.unusedSectionVars false
set_option linter.unusedTactic false
set_option linter.unreachableTactic false
set_option linter.unusedVariables false
set_option maxHeartbeats 2000000
variable {R : Type} [Field R] [LinearOrder R] [IsStrictOrderedRing R] (P : Prims R)

theorem log_of_rodM (hS : P.Sqrt) (a : Vec 3 R) (θ : R) (ha : a 0 ^ 2 + a 1 ^ 2 + a 2 ^ 2 = 1)
    (hpos : 0 < P.sin θ) (hc : 0 ≤ P.cos θ) (hinv : P.atan2 (P.sin θ) (P.cos θ) = θ)
    (L : Vec 3 R) (h : Gen.trlog_R_twist P (rodM a (P.cos θ) (P.sin θ)) = .ok L) :
    L = v3 0 0 0 ∨ ∀ i, L i = a i * θ := by
  generalize hcd : P.cos θ = c at *
  generalize hsd : P.sin θ = s at *
  have e0 : (rodM a c s 2 1 - rodM a c s 1 2) / 2 = s * a 0 := by simp [rodM, skew3, mmul, one3, Fin.sum_univ_three]; ring
  have e1 : (rodM a c s 0 2 - rodM a c s 2 0) / 2 = s * a 1 := by simp [rodM, skew3, mmul, one3, Fin.sum_univ_three]; ring
  have e2 : (rodM a c s 1 0 - rodM a c s 0 1) / 2 = s * a 2 := by simp [rodM, skew3, mmul, one3, Fin.sum_univ_three]; ring
  have ec : (rodM a c s 0 0 + rodM a c s 1 1 + rodM a c s 2 2 - 1) / 2 = c := by
    simp [rodM, skew3, mmul, one3, Fin.sum_univ_three]; linear_combination (c - 1) * ha
  have hsq : P.sqrt (s * a 0 * (s * a 0) + s * a 1 * (s * a 1) + s * a 2 * (s * a 2)) = s := by
    have : s * a 0 * (s * a 0) + s * a 1 * (s * a 1) + s * a 2 * (s * a 2) = s * s := by linear_combination (s * s) * ha
    rw [this]
    have h1 := hS.mul_self _ (mul_self_nonneg s)
    have h0 := hS.nonneg (s * s)
    have h2 : (P.sqrt (s * s) - s) * (P.sqrt (s * s) + s) = 0 := by linear_combination h1
    rcases mul_eq_zero.mp h2 with e | e
    · linarith
    · exfalso; linarith
  unfold Gen.trlog_R_twist at h; simp only [] at h
  rw [e0, e1, e2, ec, hsq] at h
  split_ifs at h with h1
  · left; cases h; rfl
  · right; cases h
    rw [hinv]
    have hs0 : s ≠ 0 := ne_of_gt hpos
    intro i; fin_cases i <;> simp <;> field_simp

/-- Rodrigues' rotation determines its unit axis when sin θ ≠ 0 -/
theorem rod_axis_unique (a a' : Vec 3 R) (c s : R) (hs : s ≠ 0) (h : rodM a c s = rodM a' c s) : a = a' := by
  have k0 : (rodM a c s 2 1 - rodM a c s 1 2) / 2 = s * a 0 := by simp [rodM, skew3, mmul, one3, Fin.sum_univ_three]; ring
  have k1 : (rodM a c s 0 2 - rodM a c s 2 0) / 2 = s * a 1 := by simp [rodM, skew3, mmul, one3, Fin.sum_univ_three]; ring
  have k2 : (rodM a c s 1 0 - rodM a c s 0 1) / 2 = s * a 2 := by simp [rodM, skew3, mmul, one3, Fin.sum_univ_three]; ring
  have k0' : (rodM a' c s 2 1 - rodM a' c s 1 2) / 2 = s * a' 0 := by simp [rodM, skew3, mmul, one3, Fin.sum_univ_three]; ring
  have k1' : (rodM a' c s 0 2 - rodM a' c s 2 0) / 2 = s * a' 1 := by simp [rodM, skew3, mmul, one3, Fin.sum_univ_three]; ring
  have k2' : (rodM a' c s 1 0 - rodM a' c s 0 1) / 2 = s * a' 2 := by simp [rodM, skew3, mmul, one3, Fin.sum_univ_three]; ring
  rw [h] at k0 k1 k2
  have q0 : a 0 = a' 0 := mul_left_cancel₀ hs (by rw [← k0, ← k0'])
  have q1 : a 1 = a' 1 := mul_left_cancel₀ hs (by rw [← k1, ← k1'])
  have q2 : a 2 = a' 2 := mul_left_cancel₀ hs (by rw [← k2, ← k2'])
  funext i; fin_cases i
  · exact q0
  · exact q1
  · exact q2

/-- the logarithm of Rodrigues' rotation about a unit axis a through θ with cos θ < 0, sin θ > 0 is θ·a (all eight paths of the obtuse
    branch), given that atan2 inverts (cos, sin) at θ -/
theorem log_of_rodM_obtuse (hS : P.Sqrt) (hA : C03.Atan2Law P) (a : Vec 3 R) (θ : R) (ha : a 0 ^ 2 + a 1 ^ 2 + a 2 ^ 2 = 1)
    (hcs : P.cos θ * P.cos θ + P.sin θ * P.sin θ = 1)
    (hpos : 0 < P.sin θ) (hc : P.cos θ < 0) (hinv : P.atan2 (P.sin θ) (P.cos θ) = θ)
    (L : Vec 3 R) (h : Gen.trlog_R_twist P (rodM a (P.cos θ) (P.sin θ)) = .ok L) :
    L = v3 0 0 0 ∨ ∀ i, L i = a i * θ := by
  have hm : IsSO3 (rodM a (P.cos θ) (P.sin θ)) := rodM_SO3 a _ _ ha hcs
  generalize hcd : P.cos θ = c at *
  generalize hsd : P.sin θ = s at *
  have e0 : (rodM a c s 2 1 - rodM a c s 1 2) / 2 = s * a 0 := by simp [rodM, skew3, mmul, one3, Fin.sum_univ_three]; ring
  have e1 : (rodM a c s 0 2 - rodM a c s 2 0) / 2 = s * a 1 := by simp [rodM, skew3, mmul, one3, Fin.sum_univ_three]; ring
  have e2 : (rodM a c s 1 0 - rodM a c s 0 1) / 2 = s * a 2 := by simp [rodM, skew3, mmul, one3, Fin.sum_univ_three]; ring
  have ec : (rodM a c s 0 0 + rodM a c s 1 1 + rodM a c s 2 2 - 1) / 2 = c := by
    simp [rodM, skew3, mmul, one3, Fin.sum_univ_three]; linear_combination (c - 1) * ha
  have hsq : P.sqrt ((rodM a c s 2 1 - rodM a c s 1 2) / 2 * ((rodM a c s 2 1 - rodM a c s 1 2) / 2) + (rodM a c s 0 2 - rodM a c s 2 0) / 2 * ((rodM a c s 0 2 - rodM a c s 2 0) / 2) + (rodM a c s 1 0 - rodM a c s 0 1) / 2 * ((rodM a c s 1 0 - rodM a c s 0 1) / 2)) = s := by
    rw [e0, e1, e2]
    have : s * a 0 * (s * a 0) + s * a 1 * (s * a 1) + s * a 2 * (s * a 2) = s * s := by linear_combination (s * s) * ha
    rw [this]
    have h1 := hS.mul_self _ (mul_self_nonneg s)
    have h0 := hS.nonneg (s * s)
    have h2 : (P.sqrt (s * s) - s) * (P.sqrt (s * s) + s) = 0 := by linear_combination h1
    rcases mul_eq_zero.mp h2 with e | e
    · linarith
    · exfalso; linarith
  rcases C03.exp_log_SO3_obtuse P hS hA (rodM a c s) hm L h (by rw [ec]; exact hc) (by rw [hsq]; exact hpos) with h0 | ⟨a', θ', hθ', hL, ha', hrod⟩
  · left; exact h0
  right
  rw [hsq, ec, hinv] at hθ'
  subst hθ'
  rw [hcd, hsd] at hrod
  have := rod_axis_unique a' a c s (ne_of_gt hpos) hrod
  intro i; rw [hL i, this]

/-- the same for every angle with sin θ > 0 -/
theorem log_of_rodM_pos (hS : P.Sqrt) (hA : C03.Atan2Law P) (a : Vec 3 R) (θ : R) (ha : a 0 ^ 2 + a 1 ^ 2 + a 2 ^ 2 = 1)
    (hcs : P.cos θ * P.cos θ + P.sin θ * P.sin θ = 1) (hpos : 0 < P.sin θ) (hinv : P.atan2 (P.sin θ) (P.cos θ) = θ)
    (L : Vec 3 R) (h : Gen.trlog_R_twist P (rodM a (P.cos θ) (P.sin θ)) = .ok L) :
    L = v3 0 0 0 ∨ ∀ i, L i = a i * θ := by
  rcases le_or_gt 0 (P.cos θ) with hc | hc
  · exact log_of_rodM P hS a θ ha hpos hc hinv L h
  · exact log_of_rodM_obtuse P hS hA a θ ha hcs hpos hc hinv L h

/-- **log(exp(w)) = w on SO(3)** for every rotation vector with sin‖w‖ > 0 (0 < ‖w‖ < π; acute and obtuse branch of the logarithm, outside
    its identity band), given that atan2 inverts (cos, sin) at ‖w‖ -/
theorem log_exp_SO3 (hS : P.Sqrt) (hT : P.Trig) (hA : C03.Atan2Law P) (w : Vec 3 R) (M : Mat 3 3 R) (hM : Gen.trexp_3 P w = .ok M)
    (hpos : 0 < P.sin (P.sqrt (w 0 * w 0 + w 1 * w 1 + w 2 * w 2)))
    (hinv : P.atan2 (P.sin (P.sqrt (w 0 * w 0 + w 1 * w 1 + w 2 * w 2))) (P.cos (P.sqrt (w 0 * w 0 + w 1 * w 1 + w 2 * w 2))) = P.sqrt (w 0 * w 0 + w 1 * w 1 + w 2 * w 2))
    (L : Vec 3 R) (hL : Gen.trlog_R_twist P M = .ok L) :
    M = one3 ∨ L = v3 0 0 0 ∨ L = w := by
  rcases C03.trexp_so3_value P w M hM with h1 | ⟨hn, hMv⟩
  · left; exact h1
  right
  set n := P.sqrt (w 0 * w 0 + w 1 * w 1 + w 2 * w 2) with hn_def
  have hnn : w 0 * w 0 + w 1 * w 1 + w 2 * w 2 = n * n := by
    have := hS.mul_self (w 0 * w 0 + w 1 * w 1 + w 2 * w 2) (by have := mul_self_nonneg (w 0); have := mul_self_nonneg (w 1); have := mul_self_nonneg (w 2); linarith)
    rw [← hn_def] at this; exact this.symm
  have hne : n ≠ 0 := ne_of_gt hn
  have ha : (fun i => w i / n) 0 ^ 2 + (fun i => w i / n) 1 ^ 2 + (fun i => w i / n) 2 ^ 2 = 1 := by
    simp only []; field_simp; linear_combination hnn
  rw [hMv] at hL
  rcases log_of_rodM_pos P hS hA (fun i => w i / n) n ha (hT n) hpos hinv L hL with h0 | h0
  · left; exact h0
  · right; funext i; rw [h0 i]; field_simp

/-- **log(exp(S)) = S on SE(3)** for every twist S = (v, w) on the rotational path of `trexp` with sin‖w‖ > 0 (outside the identity bands
    of the logarithm), given that atan2 inverts (cos, sin) at ‖w‖ and the half-angle tangent law -/
theorem log_exp_SE3 (hS : P.Sqrt) (hT' : P.Trig) (hA : C03.Atan2Law P) (hTan : TanLaw P) (S : Vec 6 R) (T : Mat 4 4 R) (hT : Gen.trexp_6 P S = .ok T)
    (hw : ¬ (P.sqrt (S 3 * S 3 + S 4 * S 4 + S 5 * S 5) < 5 / 2251799813685248))
    (hpos : 0 < P.sin (P.sqrt (S 3 * S 3 + S 4 * S 4 + S 5 * S 5)))
    (hinv : P.atan2 (P.sin (P.sqrt (S 3 * S 3 + S 4 * S 4 + S 5 * S 5))) (P.cos (P.sqrt (S 3 * S 3 + S 4 * S 4 + S 5 * S 5))) = P.sqrt (S 3 * S 3 + S 4 * S 4 + S 5 * S 5))
    (S' : Vec 6 R) (hL : Gen.trlog_T_twist P T = .ok S') :
    S' = v6 0 0 0 0 0 0 ∨ S' = v6 (T 0 3) (T 1 3) (T 2 3) 0 0 0 ∨ (S' 3 = 0 ∧ S' 4 = 0 ∧ S' 5 = 0) ∨ S' = S := by
  have hTv := trexp_6_rot P hS S T hT hw
  set n := P.sqrt (S 3 * S 3 + S 4 * S 4 + S 5 * S 5) with hn_def
  have hn0 : 0 < n := lt_of_lt_of_le (by norm_num) (not_lt.mp hw)
  have hne : n ≠ 0 := ne_of_gt hn0
  have hnn : S 3 * S 3 + S 4 * S 4 + S 5 * S 5 = n * n := by
    have := hS.mul_self (S 3 * S 3 + S 4 * S 4 + S 5 * S 5) (sq3_nonneg' (S 3) (S 4) (S 5))
    rw [← hn_def] at this; exact this.symm
  have ha : (fun i => v3 (S 3) (S 4) (S 5) i / n) 0 ^ 2 + (fun i => v3 (S 3) (S 4) (S 5) i / n) 1 ^ 2 + (fun i => v3 (S 3) (S 4) (S 5) i / n) 2 ^ 2 = 1 := by
    simp only [v3_0, v3_1, v3_2]; field_simp; linear_combination hnn
  -- rotation block and translation of T
  have hrot : rotOf3 T = rodM (fun i => v3 (S 3) (S 4) (S 5) i / n) (P.cos n) (P.sin n) := by
    rw [hTv]; funext i j; fin_cases i <;> fin_cases j <;> simp [screwExp, rt3, rotOf3]
  have htr : (v3 (T 0 3) (T 1 3) (T 2 3) : Vec 3 R) = Gmap ((1 - P.cos n) / (n * n)) ((n - P.sin n) / (n * n * n)) (v3 (S 3) (S 4) (S 5)) (v3 (S 0) (S 1) (S 2)) := by
    rw [← Vmat_eq_Gmap _ _ _ _ _ hne, hTv]; funext i; fin_cases i <;> simp [screwExp, rt3]
  rcases trlog_T_rot_eq P T S' hL with h0 | h0 | hR
  · left; exact h0
  · right; left; exact h0
  rcases trlog_T_translation_value P T S' hL with g0 | g0 | hv
  · left; exact g0
  · right; left; exact g0
  right; right
  rw [hrot] at hR
  rcases log_of_rodM_pos P hS hA _ n ha (hT' n) hpos hinv _ hR with hz | hLw
  · left
    have z0 := congrFun hz 0; have z1 := congrFun hz 1; have z2 := congrFun hz 2
    simp only [v3_0, v3_1, v3_2] at z0 z1 z2
    exact ⟨z0, z1, z2⟩
  right
  have w0 := hLw 0; have w1 := hLw 1; have w2 := hLw 2
  simp only [v3_0, v3_1, v3_2] at w0 w1 w2
  have e3 : S' 3 = S 3 := by rw [w0]; field_simp
  have e4 : S' 4 = S 4 := by rw [w1]; field_simp
  have e5 : S' 5 = S 5 := by rw [w2]; field_simp
  rw [e3, e4, e5, ← hn_def, htr] at hv
  obtain ⟨t1, t2⟩ := hTan n
  have hTn : P.tan (n / 2) ≠ 0 := by
    intro e; rw [e] at t1; linarith
  obtain ⟨c1, c2⟩ := log_coeffs n (P.sin n) (P.cos n) (P.tan (n / 2)) hne hTn t1 t2
  have hG := Ginv_G (v3 (S 3) (S 4) (S 5)) (v3 (S 0) (S 1) (S 2)) _ _ _ (n * n) (by simp only [v3_0, v3_1, v3_2]; exact hnn.symm) c1 c2
  rw [hG] at hv
  have v0 := congrFun hv 0; have v1 := congrFun hv 1; have v2 := congrFun hv 2
  simp only [v3_0, v3_1, v3_2] at v0 v1 v2
  funext i; fin_cases i <;> simp [v0, v1, v2, e3, e4, e5]

end SmVerif.Props.LogExp
