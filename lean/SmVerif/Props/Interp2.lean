/-
  C11 (2-D part) — planar interpolation.
  Proved on the regenerated `trinterp2` (3×3 with and without start, 2×2): the value is the rotation through the angle
  θ₀(1 − s) + s θ₁ (θᵢ = atan2 of the first column: the angle is *linear in s*) with translation t₀(1 − s) + s t₁ (linear in s);
  it is a member of SE(2) / SO(2) for every s; s = 0 returns the start and s = 1 the end exactly when they are members
  (law: atan2 inverts (cos, sin) on the unit circle); omitting the start is the same as starting from the identity
  whenever atan2(0, 1) = 0.
-/
import SmVerif.Gen.Transforms2d
import SmVerif.Spec.Group
import SmVerif.Spec.PrimLaws
import SmVerif.Props.C05
import Mathlib.Tactic.LinearCombination

namespace SmVerif.Props.Interp2
open SmVerif SmVerif.Spec
set_option linter.unusedSectionVars false
set_option linter.unusedTactic false
set_option linter.unreachableTactic false
set_option maxHeartbeats 1000000
variable {R : Type} [Field R] [LinearOrder R] [IsStrictOrderedRing R] (P : Prims R)

/-- the interpolated angle -/
def ang (T E : Mat 3 3 R) (s : R) : R := P.atan2 (T 1 0) (T 0 0) * (1 - s) + s * P.atan2 (E 1 0) (E 0 0)

/-- value: rotation through an angle linear in s, translation linear in s -/
theorem trinterp2_T_value (T E : Mat 3 3 R) (s : R) :
    Gen.trinterp2_T P T E s = .ok (rt2 (rot2 (P.cos (ang P T E s)) (P.sin (ang P T E s)))
      (v2 (T 0 2 * (1 - s) + s * E 0 2) (T 1 2 * (1 - s) + s * E 1 2))) := by
  unfold Gen.trinterp2_T; simp only []
  first | rfl | (congr 1; funext i j; fin_cases i <;> fin_cases j <;> (try simp [rt2, rot2, ang]))

/-- … a rigid motion of the plane for every s -/
theorem trinterp2_T_mem (hT : P.Trig) (T E M : Mat 3 3 R) (s : R) (h : Gen.trinterp2_T P T E s = .ok M) : IsSE2 M := by
  rw [trinterp2_T_value] at h; cases h
  exact isSE2_rt2 _ (rot2_SO2 _ _ (hT _))

/-- a member of SE(2) is [[c, −s, x], [s, c, y], [0, 0, 1]] with c² + s² = 1 -/
theorem se2_form {T : Mat 3 3 R} (h : IsSE2 T) :
    T 0 0 * T 0 0 + T 1 0 * T 1 0 = 1 ∧ T 1 1 = T 0 0 ∧ T 0 1 = -T 1 0 := by
  have o := h.rot.transpose_mul
  have o00 := congrFun (congrFun o 0) 0; have o01 := congrFun (congrFun o 0) 1; have o11 := congrFun (congrFun o 1) 1
  have d := h.rot.det
  simp [mmul, mT, one2, rotOf2, det2, Fin.sum_univ_two] at o00 o01 o11 d
  refine ⟨by linear_combination o00, ?_, ?_⟩
  · linear_combination (T 0 0) * d + (T 1 0) * o01 - (T 1 1) * o00
  · linear_combination (T 1 1) * o01 - (T 0 1) * d - (T 1 0) * o11

/-- s = 0 returns the start, s = 1 the end (for members of SE(2); atan2 inverts (cos, sin) on the unit circle) -/
theorem trinterp2_T_endpoints (hA : C05.Atan2Circle P) (T E : Mat 3 3 R) (hT : IsSE2 T) (hE : IsSE2 E) :
    Gen.trinterp2_T P T E 0 = .ok T ∧ Gen.trinterp2_T P T E 1 = .ok E := by
  obtain ⟨t1, t2, t3⟩ := se2_form hT; obtain ⟨e1, e2, e3⟩ := se2_form hE
  obtain ⟨tc, ts⟩ := hA (T 1 0) (T 0 0) t1; obtain ⟨ec, es⟩ := hA (E 1 0) (E 0 0) e1
  constructor
  · rw [trinterp2_T_value]; congr 1
    have : ang P T E 0 = P.atan2 (T 1 0) (T 0 0) := by unfold ang; ring
    rw [this, tc, ts]
    funext i j; fin_cases i <;> fin_cases j <;> simp [rt2, rot2, hT.r0, hT.r1, hT.r2, t2, t3]
  · rw [trinterp2_T_value]; congr 1
    have : ang P T E 1 = P.atan2 (E 1 0) (E 0 0) := by unfold ang; ring
    rw [this, ec, es]
    funext i j; fin_cases i <;> fin_cases j <;> simp [rt2, rot2, hE.r0, hE.r1, hE.r2, e2, e3]

/-- with the start omitted: the angle is s·θ₁ and the translation s·t₁ (the identity start when atan2(0, 1) = 0) -/
theorem trinterp2_nostart_value (E : Mat 3 3 R) (s : R) :
    Gen.trinterp2_T_nostart P E s = .ok (rt2 (rot2 (P.cos (s * P.atan2 (E 1 0) (E 0 0))) (P.sin (s * P.atan2 (E 1 0) (E 0 0))))
      (v2 (s * E 0 2) (s * E 1 2))) := by
  unfold Gen.trinterp2_T_nostart; simp only []
  first | rfl | (congr 1; funext i j; fin_cases i <;> fin_cases j <;> (try simp [rt2, rot2]))

theorem trinterp2_nostart_eq_identity_start (h0 : P.atan2 0 1 = 0) (E : Mat 3 3 R) (s : R) :
    Gen.trinterp2_T_nostart P E s = Gen.trinterp2_T P one3 E s := by
  rw [trinterp2_nostart_value, trinterp2_T_value]
  have : ang P one3 E s = s * P.atan2 (E 1 0) (E 0 0) := by unfold ang; simp [one3, h0]
  rw [this]; congr 2
  funext i; fin_cases i <;> simp [one3]

/-- 2×2 form: the rotation through θ₀(1 − s) + s θ₁, a member of SO(2) -/
theorem trinterp2_R_value (hT : P.Trig) (A B M : Mat 2 2 R) (s : R) (h : Gen.trinterp2_R P A B s = .ok M) :
    M = rot2 (P.cos (P.atan2 (A 1 0) (A 0 0) * (1 - s) + s * P.atan2 (B 1 0) (B 0 0))) (P.sin (P.atan2 (A 1 0) (A 0 0) * (1 - s) + s * P.atan2 (B 1 0) (B 0 0))) ∧ IsSO2 M := by
  unfold Gen.trinterp2_R at h; simp only [] at h; cases h
  refine ⟨?_, ?_⟩
  · funext i j; fin_cases i <;> fin_cases j <;> (try simp [rot2])
  · have e : (v2 (v2 (P.cos (P.atan2 (A 1 0) (A 0 0) * (1 - s) + s * P.atan2 (B 1 0) (B 0 0))) (-P.sin (P.atan2 (A 1 0) (A 0 0) * (1 - s) + s * P.atan2 (B 1 0) (B 0 0))))
        (v2 (P.sin (P.atan2 (A 1 0) (A 0 0) * (1 - s) + s * P.atan2 (B 1 0) (B 0 0))) (P.cos (P.atan2 (A 1 0) (A 0 0) * (1 - s) + s * P.atan2 (B 1 0) (B 0 0)))) : Mat 2 2 R)
        = rot2 (P.cos (P.atan2 (A 1 0) (A 0 0) * (1 - s) + s * P.atan2 (B 1 0) (B 0 0))) (P.sin (P.atan2 (A 1 0) (A 0 0) * (1 - s) + s * P.atan2 (B 1 0) (B 0 0))) := rfl
    rw [e]; exact rot2_SO2 _ _ (hT _)

/-- 2×2 form with the start omitted: the rotation through s·θ₁ (θ₁ = atan2 of the first column, any quadrant) -/
theorem trinterp2_R_nostart_value (B : Mat 2 2 R) (s : R) :
    Gen.trinterp2_R_nostart P B s = .ok (rot2 (P.cos (s * P.atan2 (B 1 0) (B 0 0))) (P.sin (s * P.atan2 (B 1 0) (B 0 0)))) := by
  unfold Gen.trinterp2_R_nostart; simp only []
  first | rfl | (congr 1; funext i j; fin_cases i <;> fin_cases j <;> (try simp [rot2]))

end SmVerif.Props.Interp2
