/-
  C03 (2-D part) — the planar exponential returns the closed form of the matrix exponential.
  Proved, over any ordered field with the stated laws of sqrt / sin / cos:
   * trexp2(θ) for a scalar (so(2)) is the rotation through θ — [[cos θ, −sin θ], [sin θ, cos θ]] — and a member of SO(2)
     (or the identity when |θ| is below the zero threshold); it never raises;
   * trexp2([vx, vy, ω]) (se(2)) with |ω| above the threshold is [[R(ω), t], [0, 1]] with ω·t = [[sin ω, −(1 − cos ω)],
     [1 − cos ω, sin ω]]·v, the closed form of exp of the se(2) matrix, and a member of SE(2).
  The identification of the closed forms with the power series is not proved (DESIGN.md §7).
-/
import SmVerif.Gen.Transforms2d
import SmVerif.Spec.Group
import SmVerif.Spec.PrimLaws
import SmVerif.Props.C05
import Mathlib.Tactic.LinearCombination
import Mathlib.Tactic.FieldSimp
import Mathlib.Tactic.Linarith

namespace SmVerif.Props.Exp2
open SmVerif SmVerif.Spec
set_option linter.unusedSectionVars false
set_option linter.unusedTactic false
set_option linter.unreachableTactic false
set_option maxHeartbeats 2000000
variable {R : Type} [Field R] [LinearOrder R] [IsStrictOrderedRing R] (P : Prims R)

theorem sqrt_sq_abs (hS : P.Sqrt) (w : R) : P.sqrt (w * w) = |w| := by
  have h1 := hS.mul_self (w * w) (mul_self_nonneg w); have h0 := hS.nonneg (w * w)
  have h2 : |w| * |w| = w * w := abs_mul_abs_self w
  have : (P.sqrt (w * w) - |w|) * (P.sqrt (w * w) + |w|) = 0 := by linear_combination h1 - h2
  rcases mul_eq_zero.mp this with h | h
  · linarith
  · have := abs_nonneg w; linarith

/-- cos |w| = cos w and sin |w| · sign w = sin w -/
theorem trig_abs (hN : C05.NegLaw P) (w : R) : P.cos |w| = P.cos w ∧ (0 ≤ w → P.sin |w| = P.sin w) ∧ (w < 0 → P.sin |w| = -P.sin w) := by
  rcases le_or_gt 0 w with h | h
  · rw [abs_of_nonneg h]; exact ⟨rfl, fun _ => rfl, fun h' => absurd h' (not_lt.mpr h)⟩
  · rw [abs_of_neg h]; obtain ⟨hc, hs⟩ := hN w
    exact ⟨hc, fun h' => absurd h (not_lt.mpr h'), fun _ => hs⟩

/-- so(2): trexp2(θ) is the rotation through θ (identity below the zero threshold); it never raises -/
theorem trexp2_so2_value (hS : P.Sqrt) (hN : C05.NegLaw P) (w : R) :
    (Gen.trexp2_1 P w = .ok one2 ∧ |w| < (5 : R) / 2251799813685248) ∨
    Gen.trexp2_1 P w = .ok (rot2 (P.cos w) (P.sin w)) := by
  unfold Gen.trexp2_1; simp only []
  rw [sqrt_sq_abs P hS w]
  by_cases h1 : |w| < (5 : R) / 2251799813685248
  · left; simp [h1, one2]
  · right
    have hpos : 0 < |w| := lt_of_lt_of_le (by norm_num) (not_lt.mp h1)
    simp only [h1, if_false]
    obtain ⟨hc, hsp, hsn⟩ := trig_abs P hN w
    rcases le_or_gt 0 w with h | h
    · have hw : w ≠ 0 := by
        intro e; rw [e] at hpos; simp at hpos
      have e1 : w / |w| = 1 := by rw [abs_of_nonneg h]; exact div_self hw
      rw [e1, hc, hsp h]; congr 1; unfold rot2
      funext i j; fin_cases i <;> fin_cases j <;> simp <;> ring
    · have hw : w ≠ 0 := ne_of_lt h
      have e1 : w / |w| = -1 := by rw [abs_of_neg h]; field_simp
      rw [e1, hc, hsn h]; congr 1; unfold rot2
      funext i j; fin_cases i <;> fin_cases j <;> simp <;> ring

/-- … hence a member of SO(2) -/
theorem trexp2_so2_mem (hT : P.Trig) (hS : P.Sqrt) (hN : C05.NegLaw P) (w : R) (M : Mat 2 2 R)
    (h : Gen.trexp2_1 P w = .ok M) : IsSO2 M := by
  rcases trexp2_so2_value P hS hN w with ⟨h1, _⟩ | h1
  · rw [h1] at h; cases h; exact IsSO2.one
  · rw [h1] at h; cases h; exact rot2_SO2 _ _ (hT w)

/-- se(2) with a rotational part above the zero threshold: trexp2([vx, vy, ω]) = [[R(ω), t], [0, 1]] with
    ω·t = [[sin ω, −(1 − cos ω)], [1 − cos ω, sin ω]]·[vx, vy] — the closed form of the exponential of the se(2) matrix -/
theorem trexp2_se2_value (hS : P.Sqrt) (hN : C05.NegLaw P) (v : Vec 3 R) (hω : ¬ |v 2| < (5 : R) / 2251799813685248)
    (T : Mat 3 3 R) (h : Gen.trexp2_3 P v = .ok T) :
    ∃ t : Vec 2 R, T = rt2 (rot2 (P.cos (v 2)) (P.sin (v 2))) t ∧
      v 2 * t 0 = P.sin (v 2) * v 0 - (1 - P.cos (v 2)) * v 1 ∧
      v 2 * t 1 = (1 - P.cos (v 2)) * v 0 + P.sin (v 2) * v 1 := by
  have hpos : 0 < |v 2| := lt_of_lt_of_le (by norm_num) (not_lt.mp hω)
  have hw : v 2 ≠ 0 := by intro e; rw [e] at hpos; simp at hpos
  have hbig : ¬ P.sqrt (v 0 * v 0 + v 1 * v 1 + v 2 * v 2) < (5 : R) / 2251799813685248 := by
    intro hlt
    have hnn := hS.nonneg (v 0 * v 0 + v 1 * v 1 + v 2 * v 2)
    have hsq := hS.mul_self (v 0 * v 0 + v 1 * v 1 + v 2 * v 2)
      (add_nonneg (add_nonneg (mul_self_nonneg _) (mul_self_nonneg _)) (mul_self_nonneg _))
    have h1 : |v 2| * |v 2| ≤ P.sqrt (v 0 * v 0 + v 1 * v 1 + v 2 * v 2) * P.sqrt (v 0 * v 0 + v 1 * v 1 + v 2 * v 2) := by
      rw [hsq, abs_mul_abs_self]; nlinarith [mul_self_nonneg (v 0), mul_self_nonneg (v 1)]
    have h2 : |v 2| ≤ P.sqrt (v 0 * v 0 + v 1 * v 1 + v 2 * v 2) := by
      by_contra hc; rw [not_le] at hc
      have := mul_self_lt_mul_self hnn hc; linarith
    exact hω (lt_of_le_of_lt h2 hlt)
  obtain ⟨hc, hsp, hsn⟩ := trig_abs P hN (v 2)
  unfold Gen.trexp2_3 at h; simp only [] at h
  rw [if_neg hbig, if_neg hω] at h
  rcases le_or_gt 0 (v 2) with hs | hs
  · have e1 : v 2 / |v 2| = 1 := by rw [abs_of_nonneg hs]; exact div_self hw
    have e2 : ¬ P.sqrt (v 2 / |v 2| * (v 2 / |v 2|)) < (5 : R) / 2251799813685248 := by
      rw [sqrt_sq_abs P hS, e1]; simp; norm_num
    rw [if_neg e2] at h
    rw [e1, hc, hsp hs, abs_of_nonneg hs] at h
    refine ⟨v2 (T 0 2) (T 1 2), ?_, ?_, ?_⟩ <;> cases h
    · unfold rt2 rot2; funext i j; fin_cases i <;> fin_cases j <;> simp <;> (try ring)
    all_goals (simp; field_simp; try ring)
  · have e1 : v 2 / |v 2| = -1 := by rw [abs_of_neg hs]; field_simp
    have e2 : ¬ P.sqrt (v 2 / |v 2| * (v 2 / |v 2|)) < (5 : R) / 2251799813685248 := by
      rw [sqrt_sq_abs P hS, e1]; simp; norm_num
    rw [if_neg e2] at h
    rw [e1, hc, hsn hs, abs_of_neg hs] at h
    refine ⟨v2 (T 0 2) (T 1 2), ?_, ?_, ?_⟩ <;> cases h
    · unfold rt2 rot2; funext i j; fin_cases i <;> fin_cases j <;> simp <;> (try ring)
    all_goals (simp; field_simp; try ring)

/-- … and it is a rigid motion of the plane -/
theorem trexp2_se2_mem (hT : P.Trig) (hS : P.Sqrt) (hN : C05.NegLaw P) (v : Vec 3 R) (hω : ¬ |v 2| < (5 : R) / 2251799813685248)
    (T : Mat 3 3 R) (h : Gen.trexp2_3 P v = .ok T) : IsSE2 T := by
  obtain ⟨t, rfl, _, _⟩ := trexp2_se2_value P hS hN v hω T h
  exact isSE2_rt2 t (rot2_SO2 _ _ (hT (v 2)))

end SmVerif.Props.Exp2
