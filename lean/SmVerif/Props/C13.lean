/-
  C13 — Lie-algebra maps, adjoint and differential motion are consistent.
  Property theorems about the generated definitions; exact in every ordered field.
  Explored only (smv/props/c13.py): exp(ad S) = Ad(exp S) and first-order agreement of tr2delta with the
  logarithm, which involve the matrix exponential of a general twist.
-/
import SmVerif.Gen.TransformsNd
import SmVerif.Gen.Transforms3d
import SmVerif.Gen.Vectors
import SmVerif.Gen.Poses
import SmVerif.Spec.Lie
import SmVerif.Bridge.Poses
import Mathlib.Tactic.FieldSimp
import Mathlib.Tactic.Linarith

namespace SmVerif.Props.C13
open SmVerif SmVerif.Spec SmVerif.Bridge
set_option linter.unusedSectionVars false
set_option linter.unusedTactic false
set_option linter.unreachableTactic false
variable {R : Type} [Field R] [LinearOrder R] [IsStrictOrderedRing R] (P : Prims R)

/-! ### vector <-> matrix maps are mutually inverse linear bijections -/

/-- so(3): skew of a 3-vector is `skew3` -/
theorem skew_3_eq (v : Vec 3 R) : Gen.skew_3 P v = .ok (skew3 v) := by
  unfold Gen.skew_3; congr 1
theorem skew_3_skewsym (v : Vec 3 R) : mT (skew3 v) = fun i j => -(skew3 v i j) := by
  apply Mat.ext33' <;> simp [mT, skew3]

/-- vex ∘ skew = id -/
theorem vex_skew (v : Vec 3 R) (S : Mat 3 3 R) (h : Gen.skew_3 P v = .ok S) : Gen.vex_3 P S = .ok v := by
  rw [skew_3_eq] at h; cases h
  unfold Gen.vex_3; congr 1
  apply Vec.ext3 <;> simp [skew3] <;> ring

/-- skew ∘ vex = id on skew-symmetric matrices -/
theorem skew_vex (S : Mat 3 3 R) (hS : ∀ i j, S i j = -(S j i)) (v : Vec 3 R) (h : Gen.vex_3 P S = .ok v) :
    Gen.skew_3 P v = .ok S := by
  unfold Gen.vex_3 at h; cases h
  rw [skew_3_eq]; congr 1
  have d0 : S 0 0 = 0 := by have := hS 0 0; linarith
  have d1 : S 1 1 = 0 := by have := hS 1 1; linarith
  have d2 : S 2 2 = 0 := by have := hS 2 2; linarith
  have h01 := hS 0 1; have h02 := hS 0 2; have h12 := hS 1 2
  apply Mat.ext33' <;> simp [skew3, d0, d1, d2] <;> linarith

/-- so(2) -/
theorem vex_skew_so2 (x : R) (S : Mat 2 2 R) (h : Gen.skew_1 P x = .ok S) : Gen.vex_2 P S = .ok (v1 x) := by
  unfold Gen.skew_1 at h; cases h
  unfold Gen.vex_2; congr 1
  funext i; fin_cases i; simp

/-- se(3): vexa ∘ skewa = id, and the matrix has the augmented skew form [skew(w) v; 0 0] -/
theorem skewa_6_form (S : Vec 6 R) :
    Gen.skewa_6 P S = .ok (v4 (v4 0 (-(S 5)) (S 4) (S 0)) (v4 (S 5) 0 (-(S 3)) (S 1)) (v4 (-(S 4)) (S 3) 0 (S 2)) (v4 0 0 0 0)) := by
  unfold Gen.skewa_6; rfl
theorem vexa_skewa_6 (S : Vec 6 R) (M : Mat 4 4 R) (h : Gen.skewa_6 P S = .ok M) : Gen.vexa_4 P M = .ok S := by
  unfold Gen.skewa_6 at h; cases h
  unfold Gen.vexa_4; congr 1
  apply Vec.ext6 <;> simp <;> ring
theorem vexa_skewa_3 (S : Vec 3 R) (M : Mat 3 3 R) (h : Gen.skewa_3 P S = .ok M) : Gen.vexa_3 P M = .ok S := by
  unfold Gen.skewa_3 at h; cases h
  unfold Gen.vexa_3; congr 1
  apply Vec.ext3 <;> simp <;> ring

/-- linearity of skew (hence of its inverse on skew matrices) -/
theorem skew_linear (a b : Vec 3 R) (k : R) :
    Gen.skew_3 P (fun i => a i + k * b i) = .ok (fun i j => skew3 a i j + k * skew3 b i j) := by
  rw [skew_3_eq]; congr 1
  apply Mat.ext33' <;> simp [skew3] <;> ring

/-- skew(a) b = a × b, with `cross` the library's own cross product -/
theorem skew_mul_eq_cross (a b : Vec 3 R) (S : Mat 3 3 R) (h : Gen.skew_3 P a = .ok S) :
    Gen.cross P a b = .ok (mvec S b) := by
  rw [skew_3_eq] at h; cases h
  unfold Gen.cross; congr 1
  apply Vec.ext3 <;> simp [mvec, skew3, Fin.sum_univ_three] <;> ring

/-- vector helpers agree with their definitions -/
theorem cross_def (a b : Vec 3 R) : Gen.cross P a b = .ok (cross3 a b) := by
  unfold Gen.cross; congr 1
theorem cross_anticomm (a b : Vec 3 R) : cross3 a b = fun i => -(cross3 b a i) := by
  apply Vec.ext3 <;> simp [cross3] <;> ring
theorem cross_orthogonal (a b : Vec 3 R) : dot a (cross3 a b) = 0 ∧ dot b (cross3 a b) = 0 := by
  constructor <;> simp [dot, cross3, Fin.sum_univ_three] <;> ring
theorem normsq_def (v : Vec 3 R) : Gen.normsq3 P v = .ok (dot v v) := by
  unfold Gen.normsq3; (try simp only []); congr 1; simp [dot, Fin.sum_univ_three]
theorem norm_def (v : Vec 3 R) : Gen.norm3 P v = .ok (P.sqrt (dot v v)) := by
  unfold Gen.norm3; (try simp only []); congr 1; simp [dot, Fin.sum_univ_three]

/-! ### adjoint of a rigid motion -/

theorem adjoint_eq (T : Mat 4 4 R) : Gen.adjoint_4 P T = .ok (Ad T) := by
  unfold Gen.adjoint_4; (try simp only []); congr 1
  apply Mat.ext66 <;> apply Vec.ext6 <;>
    simp [Ad, blk, zero33, mmul, skew3, rotOf3, trOf3, Fin.sum_univ_three] <;> ring

/-- SE3.Ad() is the base adjoint -/
theorem SE3_Ad_eq (T : Mat 4 4 R) : Gen.SE3_Ad P T = Gen.adjoint_4 P T := by
  rw [adjoint_eq]; unfold Gen.SE3_Ad; (try simp only []); congr 1
  apply Mat.ext66 <;> apply Vec.ext6 <;>
    simp [Ad, blk, zero33, mmul, skew3, rotOf3, trOf3, Fin.sum_univ_three] <;> ring

/-- Ad(T1 T2) = Ad(T1) Ad(T2) -/
theorem adjoint_mul (A B AB : Mat 4 4 R) (ha : IsSE3 A) (hb : IsSE3 B) (M N MN : Mat 6 6 R)
    (hAB : Gen.SE3_mul P A B = .ok AB)
    (h1 : Gen.adjoint_4 P A = .ok M) (h2 : Gen.adjoint_4 P B = .ok N) (h3 : Gen.adjoint_4 P AB = .ok MN) :
    MN = mmul M N := by
  rw [Bridge.SE3_mul] at hAB; rw [adjoint_eq] at h1 h2 h3; cases hAB; cases h1; cases h2; cases h3
  exact Ad_mul_SE3 ha hb

/-- Ad(T⁻¹) = Ad(T)⁻¹ (two-sided) -/
theorem adjoint_inv (A Ai : Mat 4 4 R) (ha : IsSE3 A) (M Mi : Mat 6 6 R)
    (hi : Gen.trinv P A = .ok Ai) (h1 : Gen.adjoint_4 P A = .ok M) (h2 : Gen.adjoint_4 P Ai = .ok Mi) :
    mmul Mi M = one6 ∧ mmul M Mi = one6 := by
  have e : Gen.trinv P A = .ok (seInv3 A) := by
    unfold Gen.trinv; (try simp only []); congr 1
    apply Mat.ext44' <;> simp [seInv3, rt3, mT, mvec, rotOf3, trOf3, Fin.sum_univ_three] <;> ring
  rw [e] at hi; rw [adjoint_eq] at h1 h2; cases hi; cases h1; cases h2
  exact Ad_inv ha

/-- Ad(T) S = vee(T [S] T⁻¹) for every twist S and every rigid motion T = (M, t) -/
theorem adjoint_conj (M : Mat 3 3 R) (t : Vec 3 R) (hM : IsSO3 M) (S : Vec 6 R) (SM : Mat 4 4 R)
    (hS : Gen.skewa_6 P S = .ok SM) :
    Gen.vexa_4 P (mmul (mmul (rt3 M t) SM) (seInv3 (rt3 M t))) = .ok (mvec (Ad (rt3 M t)) S) := by
  unfold Gen.skewa_6 at hS; cases hS
  have e : (v4 (v4 (0 : R) (-(S 5)) (S 4) (S 0)) (v4 (S 5) 0 (-(S 3)) (S 1)) (v4 (-(S 4)) (S 3) 0 (S 2)) (v4 0 0 0 0) : Mat 4 4 R)
      = alg4 (skew3 (v3 (S 3) (S 4) (S 5))) (v3 (S 0) (S 1) (S 2)) := by
    apply Mat.ext44' <;> simp [alg4, skew3]
  rw [e, conj_alg4 hM]
  unfold Gen.vexa_4; congr 1
  apply Vec.ext6 <;>
    simp [alg4, skew3, mvec, mmul, Ad, blk, zero33, rotOf3, trOf3, rt3, Fin.sum_univ_three, Fin.sum_univ_six] <;> ring

/-! ### velocity Jacobian -/

/-- tr2jac(T) = blockdiag(Rᵀ, Rᵀ) -/
theorem tr2jac_eq (T : Mat 4 4 R) : Gen.tr2jac P T = .ok (blk (mT (rotOf3 T)) zero33 zero33 (mT (rotOf3 T))) := by
  unfold Gen.tr2jac; first | rfl | (congr 1 <;> apply Mat.ext66 <;> apply Vec.ext6 <;> simp [blk, zero33, mT, rotOf3])

/-- tr2jac(T, samebody=True) = Ad(T⁻¹) on rigid motions -/
theorem tr2jac_samebody_eq (M : Mat 3 3 R) (t : Vec 3 R) (hM : IsSO3 M) :
    Gen.tr2jac_samebody P (rt3 M t) = .ok (Ad (seInv3 (rt3 M t))) := by
  unfold Gen.tr2jac_samebody; (try simp only []); congr 1
  have key : mmul (skew3 (fun i => -(mvec (mT M) t i))) (mT M) = fun i j => -(mmul (mT M) (skew3 t) i j) := by
    have h := skew_rot hM.transpose t
    have : skew3 (fun i => -(mvec (mT M) t i)) = fun i j => -(skew3 (mvec (mT M) t) i j) := by
      apply Mat.ext33' <;> simp [skew3]
    rw [this]; funext i j
    have := congrFun (congrFun h i) j
    simp only [mmul] at this ⊢
    rw [← this]; simp [Finset.sum_neg_distrib]
  have e2 : Ad (seInv3 (rt3 M t)) = blk (mT M) (fun i j => -(mmul (mT M) (skew3 t) i j)) zero33 (mT M) := by
    simp only [Ad, seInv3, rotOf3_rt3, trOf3_rt3, key]
  rw [e2]
  apply Mat.ext66 <;> apply Vec.ext6 <;>
    simp [blk, zero33, mT, mmul, skew3, rt3, Fin.sum_univ_three] <;> ring

/-! ### differential motion -/

/-- tr2delta(delta2tr(d)) = d -/
theorem tr2delta_delta2tr (d : Vec 6 R) (T : Mat 4 4 R) (h : Gen.delta2tr P d = .ok T) :
    Gen.tr2delta_1 P T = .ok d := by
  unfold Gen.delta2tr at h; cases h
  unfold Gen.tr2delta_1; congr 1
  apply Vec.ext6 <;> simp <;> ring

/-- tr2delta(T0, T1) = tr2delta(T0⁻¹ T1) with the structured inverse -/
theorem tr2delta_two (T0 T1 Ti Td : Mat 4 4 R) (hi : Gen.trinv P T0 = .ok Ti) (hm : Gen.SE3_mul P Ti T1 = .ok Td) :
    Gen.tr2delta_2 P T0 T1 = Gen.tr2delta_1 P Td := by
  unfold Gen.trinv at hi; cases hi
  rw [Bridge.SE3_mul] at hm; cases hm
  unfold Gen.tr2delta_2 Gen.tr2delta_1; (try simp only []); congr 1
  apply Vec.ext6 <;> simp [mmul, Fin.sum_univ_four] <;> ring

/-- delta2tr(d) = I + [d] -/
theorem delta2tr_eq (d : Vec 6 R) (S : Mat 4 4 R) (hS : Gen.skewa_6 P d = .ok S) :
    Gen.delta2tr P d = .ok (fun i j => one4 i j + S i j) := by
  unfold Gen.skewa_6 at hS; cases hS
  unfold Gen.delta2tr; congr 1
  apply Mat.ext44' <;> simp [one4]

end SmVerif.Props.C13
