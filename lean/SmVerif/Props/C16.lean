/-
  C16 — symbolic results agree with numeric results.

  Two models of every traced call whose API entry is marked `:SymPy: supported`, both regenerated from /repo on every run:
    `Gen.f`     — the numeric path (symbolic execution of the code on field elements, smv/tracer.py)
    `GenSym.f`  — the SymPy path   (the real code run on SymPy symbols; the expressions it returned, smv/symtrans.py)
  The theorems state that whenever the numeric path returns a value, it is the value of the symbolic expressions at the same
  arguments — for every argument in every ordered field and every interpretation of sin / cos / sqrt (so in particular at the
  special angles), exactly, with the structural 0 and 1 entries literally `0` and `1` on both sides.
  What is not covered here (SymPy's own evaluation of the expression tree at floats, `simplify`, mixed symbol/number call
  forms) is exercised by the monitor smv/props/c16.py.
-/
import SmVerif.Tactics
import SmVerif.Gen.Sym
import SmVerif.Gen.Transforms3d
import SmVerif.Gen.Transforms2d
import SmVerif.Gen.TransformsNd
import SmVerif.Gen.Vectors
import SmVerif.Gen.Quaternions
import SmVerif.Gen.Poses

namespace SmVerif.Props.C16
open SmVerif

variable {R : Type} [Field R] [LinearOrder R] [IsStrictOrderedRing R] (P : Prims R)

/-- numeric path returned `M` ⇒ `M` is the symbolic path's expression: unfold both generated definitions, split the numeric
path's branches, compare entry by entry with `ring` -/
macro "sym_agree" g:ident s:ident : tactic =>
  `(tactic| (intro M h; unfold $g at h; (try simp only [] at h); (try split_ifs at h); all_goals (try cases h);
             all_goals (unfold $s);
             all_goals (first | rfl | (ext_lit <;> (try simp) <;> (first | ring1 | (congr 1; ring1) | (field_simp; ring1))) | ring1 | (simp <;> ring1))))

theorem rotx (θ : R) : ∀ M, Gen.rotx_rad P θ = .ok M → M = GenSym.rotx_rad P θ := by sym_agree Gen.rotx_rad GenSym.rotx_rad
theorem roty (θ : R) : ∀ M, Gen.roty_rad P θ = .ok M → M = GenSym.roty_rad P θ := by sym_agree Gen.roty_rad GenSym.roty_rad
theorem rotz (θ : R) : ∀ M, Gen.rotz_rad P θ = .ok M → M = GenSym.rotz_rad P θ := by sym_agree Gen.rotz_rad GenSym.rotz_rad
theorem trotx (θ : R) : ∀ M, Gen.trotx_rad P θ = .ok M → M = GenSym.trotx_rad P θ := by sym_agree Gen.trotx_rad GenSym.trotx_rad
theorem troty (θ : R) : ∀ M, Gen.troty_rad P θ = .ok M → M = GenSym.troty_rad P θ := by sym_agree Gen.troty_rad GenSym.troty_rad
theorem trotz (θ : R) : ∀ M, Gen.trotz_rad P θ = .ok M → M = GenSym.trotz_rad P θ := by sym_agree Gen.trotz_rad GenSym.trotz_rad
theorem trotx_t (θ : R) (t : Vec 3 R) : ∀ M, Gen.trotx_t P θ t = .ok M → M = GenSym.trotx_t P θ t := by sym_agree Gen.trotx_t GenSym.trotx_t
theorem transl_xyz (x y z : R) : ∀ M, Gen.transl_xyz P x y z = .ok M → M = GenSym.transl_xyz P x y z := by sym_agree Gen.transl_xyz GenSym.transl_xyz
theorem transl_v (v : Vec 3 R) : ∀ M, Gen.transl_v P v = .ok M → M = GenSym.transl_v P v := by sym_agree Gen.transl_v GenSym.transl_v
theorem trinv (T : Mat 4 4 R) : ∀ M, Gen.trinv P T = .ok M → M = GenSym.trinv P T := by sym_agree Gen.trinv GenSym.trinv
theorem trinv2 (T : Mat 3 3 R) : ∀ M, Gen.trinv2 P T = .ok M → M = GenSym.trinv2 P T := by sym_agree Gen.trinv2 GenSym.trinv2
theorem eul2r (v : Vec 3 R) : ∀ M, Gen.eul2r_rad P v = .ok M → M = GenSym.eul2r_rad P v := by sym_agree Gen.eul2r_rad GenSym.eul2r_rad
theorem eul2r_scalars (a b c : R) : ∀ M, Gen.eul2r_scalars P a b c = .ok M → M = GenSym.eul2r_scalars P a b c := by
  sym_agree Gen.eul2r_scalars GenSym.eul2r_scalars
theorem eul2tr (v : Vec 3 R) : ∀ M, Gen.eul2tr P v = .ok M → M = GenSym.eul2tr P v := by sym_agree Gen.eul2tr GenSym.eul2tr
theorem delta2tr (d : Vec 6 R) : ∀ M, Gen.delta2tr P d = .ok M → M = GenSym.delta2tr P d := by sym_agree Gen.delta2tr GenSym.delta2tr
theorem tr2delta_1 (T : Mat 4 4 R) : ∀ M, Gen.tr2delta_1 P T = .ok M → M = GenSym.tr2delta_1 P T := by sym_agree Gen.tr2delta_1 GenSym.tr2delta_1
theorem tr2delta_2 (T E : Mat 4 4 R) : ∀ M, Gen.tr2delta_2 P T E = .ok M → M = GenSym.tr2delta_2 P T E := by
  sym_agree Gen.tr2delta_2 GenSym.tr2delta_2
theorem tr2jac (T : Mat 4 4 R) : ∀ M, Gen.tr2jac P T = .ok M → M = GenSym.tr2jac P T := by sym_agree Gen.tr2jac GenSym.tr2jac
theorem skew_3 (v : Vec 3 R) : ∀ M, Gen.skew_3 P v = .ok M → M = GenSym.skew_3 P v := by sym_agree Gen.skew_3 GenSym.skew_3
theorem skew_1 (v : R) : ∀ M, Gen.skew_1 P v = .ok M → M = GenSym.skew_1 P v := by sym_agree Gen.skew_1 GenSym.skew_1
theorem vex_3 (m : Mat 3 3 R) : ∀ M, Gen.vex_3 P m = .ok M → M = GenSym.vex_3 P m := by sym_agree Gen.vex_3 GenSym.vex_3
theorem vex_2 (m : Mat 2 2 R) : ∀ M, Gen.vex_2 P m = .ok M → M = GenSym.vex_2 P m := by sym_agree Gen.vex_2 GenSym.vex_2
theorem skewa_6 (v : Vec 6 R) : ∀ M, Gen.skewa_6 P v = .ok M → M = GenSym.skewa_6 P v := by sym_agree Gen.skewa_6 GenSym.skewa_6
theorem skewa_3 (v : Vec 3 R) : ∀ M, Gen.skewa_3 P v = .ok M → M = GenSym.skewa_3 P v := by sym_agree Gen.skewa_3 GenSym.skewa_3
theorem vexa_4 (T : Mat 4 4 R) : ∀ M, Gen.vexa_4 P T = .ok M → M = GenSym.vexa_4 P T := by sym_agree Gen.vexa_4 GenSym.vexa_4
theorem vexa_3 (T : Mat 3 3 R) : ∀ M, Gen.vexa_3 P T = .ok M → M = GenSym.vexa_3 P T := by sym_agree Gen.vexa_3 GenSym.vexa_3
theorem cross (u v : Vec 3 R) : ∀ M, Gen.cross P u v = .ok M → M = GenSym.cross P u v := by sym_agree Gen.cross GenSym.cross
theorem normsq3 (v : Vec 3 R) : ∀ M, Gen.normsq3 P v = .ok M → M = GenSym.normsq3 P v := by sym_agree Gen.normsq3 GenSym.normsq3
theorem norm3 (v : Vec 3 R) : ∀ M, Gen.norm3 P v = .ok M → M = GenSym.norm3 P v := by
  intro M h; unfold Gen.norm3 at h; cases h; unfold GenSym.norm3; congr 1; ring
theorem qconj (q : Vec 4 R) : ∀ M, Gen.qconj P q = .ok M → M = GenSym.qconj P q := by sym_agree Gen.qconj GenSym.qconj
theorem qpow_0 (q : Vec 4 R) : ∀ M, Gen.qpow_0 P q = .ok M → M = GenSym.qpow_0 P q := by sym_agree Gen.qpow_0 GenSym.qpow_0
theorem qpow_2 (q : Vec 4 R) : ∀ M, Gen.qpow_2 P q = .ok M → M = GenSym.qpow_2 P q := by sym_agree Gen.qpow_2 GenSym.qpow_2
theorem qpow_3 (q : Vec 4 R) : ∀ M, Gen.qpow_3 P q = .ok M → M = GenSym.qpow_3 P q := by sym_agree Gen.qpow_3 GenSym.qpow_3
theorem qpow_m2 (q : Vec 4 R) : ∀ M, Gen.qpow_m2 P q = .ok M → M = GenSym.qpow_m2 P q := by sym_agree Gen.qpow_m2 GenSym.qpow_m2

/-! ### pose classes on symbolic values: constructors, composition, inverse, action on points, adjoint -/
theorem SE3_Rx (θ : R) : ∀ M, Gen.SE3_Rx P θ = .ok M → M = GenSym.SE3_Rx P θ := by sym_agree Gen.SE3_Rx GenSym.SE3_Rx
theorem SE3_Ry (θ : R) : ∀ M, Gen.SE3_Ry P θ = .ok M → M = GenSym.SE3_Ry P θ := by sym_agree Gen.SE3_Ry GenSym.SE3_Ry
theorem SE3_Rz (θ : R) : ∀ M, Gen.SE3_Rz P θ = .ok M → M = GenSym.SE3_Rz P θ := by sym_agree Gen.SE3_Rz GenSym.SE3_Rz
theorem SE3_Tx (x : R) : ∀ M, Gen.SE3_Tx P x = .ok M → M = GenSym.SE3_Tx P x := by sym_agree Gen.SE3_Tx GenSym.SE3_Tx
theorem SE3_ctor_xyz (x y z : R) : ∀ M, Gen.SE3_ctor_xyz P x y z = .ok M → M = GenSym.SE3_ctor_xyz P x y z := by
  sym_agree Gen.SE3_ctor_xyz GenSym.SE3_ctor_xyz
theorem SE3_RPY (v : Vec 3 R) : ∀ M, Gen.SE3_RPY_zyx P v = .ok M → M = GenSym.SE3_RPY_zyx P v := by sym_agree Gen.SE3_RPY_zyx GenSym.SE3_RPY_zyx
theorem SE3_Eul (v : Vec 3 R) : ∀ M, Gen.SE3_Eul P v = .ok M → M = GenSym.SE3_Eul P v := by sym_agree Gen.SE3_Eul GenSym.SE3_Eul
theorem SE3_Delta (d : Vec 6 R) : ∀ M, Gen.SE3_Delta P d = .ok M → M = GenSym.SE3_Delta P d := by sym_agree Gen.SE3_Delta GenSym.SE3_Delta
theorem SE3_mul (A B : Mat 4 4 R) : ∀ M, Gen.SE3_mul P A B = .ok M → M = GenSym.SE3_mul P A B := by sym_agree Gen.SE3_mul GenSym.SE3_mul
theorem SE3_div (A B : Mat 4 4 R) : ∀ M, Gen.SE3_div P A B = .ok M → M = GenSym.SE3_div P A B := by sym_agree Gen.SE3_div GenSym.SE3_div
theorem SE3_inv (A : Mat 4 4 R) : ∀ M, Gen.SE3_inv P A = .ok M → M = GenSym.SE3_inv P A := by sym_agree Gen.SE3_inv GenSym.SE3_inv
theorem SO3_mul (A B : Mat 3 3 R) : ∀ M, Gen.SO3_mul P A B = .ok M → M = GenSym.SO3_mul P A B := by sym_agree Gen.SO3_mul GenSym.SO3_mul
theorem SO3_inv (A : Mat 3 3 R) : ∀ M, Gen.SO3_inv P A = .ok M → M = GenSym.SO3_inv P A := by sym_agree Gen.SO3_inv GenSym.SO3_inv
theorem SE3_mul_vec (A : Mat 4 4 R) (p : Vec 3 R) : ∀ M, Gen.SE3_mul_vec P A p = .ok M → M = GenSym.SE3_mul_vec P A p := by
  sym_agree Gen.SE3_mul_vec GenSym.SE3_mul_vec
theorem SE3_Ad (A : Mat 4 4 R) : ∀ M, Gen.SE3_Ad P A = .ok M → M = GenSym.SE3_Ad P A := by sym_agree Gen.SE3_Ad GenSym.SE3_Ad
theorem SE3_t (A : Mat 4 4 R) : ∀ M, Gen.SE3_t P A = .ok M → M = GenSym.SE3_t P A := by sym_agree Gen.SE3_t GenSym.SE3_t
theorem SO3_R (A : Mat 3 3 R) : ∀ M, Gen.SO3_R P A = .ok M → M = GenSym.SO3_R P A := by sym_agree Gen.SO3_R GenSym.SO3_R

/-- not vacuous: the numeric path does return (e.g. rotx at every angle) -/
example (θ : R) : ∃ M, Gen.rotx_rad P θ = .ok M := ⟨_, rfl⟩

end SmVerif.Props.C16
