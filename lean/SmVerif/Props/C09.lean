/-
  C09 — sequence broadcasting: element-wise results and strict length rules.
  Theorems about the model of `binop` / `_op2` / `unop` (Logic.Broadcast) for every element type, every element
  operation and every pair of lengths; tied to the real helpers by the exhaustive enumeration over lengths 1..5 with
  pairwise distinct elements in smv/props/c09.py.
-/
import SmVerif.Logic.Broadcast

namespace SmVerif.Props.C09
open SmVerif.Logic
variable {α β γ : Type} (op : α → β → γ)

/-- the element reused when one side holds a single value -/
def pick {δ : Type} (l : List δ) (i : Nat) : Option δ := if l.length = 1 then l[0]? else l[i]?

theorem binop_11 (a : α) (b : β) : binop op [a] [b] = .ok [op a b] := rfl

theorem binop_1M (a : α) (bs : List β) (h : bs.length ≠ 1) : binop op [a] bs = .ok (bs.map (op a)) := by
  match bs, h with
  | [], _ => rfl
  | [_], h => exact absurd rfl h
  | _ :: _ :: _, _ => rfl

theorem binop_M1 (as : List α) (b : β) (h : as.length ≠ 1) : binop op as [b] = .ok (as.map (fun a => op a b)) := by
  match as, h with
  | [], _ => rfl
  | [_], h => exact absurd rfl h
  | _ :: _ :: _, _ => rfl

theorem binop_MM (as : List α) (bs : List β) (ha : 1 < as.length) (hb : 1 < bs.length) :
    binop op as bs = if as.length = bs.length then .ok (List.zipWith op as bs) else .error .ValueError := by
  match as, bs, ha, hb with
  | _ :: _ :: _, _ :: _ :: _, _, _ => rfl

/-- operands of two different lengths, both greater than 1, raise ValueError -/
theorem binop_mismatch (as : List α) (bs : List β) (ha : 1 < as.length) (hb : 1 < bs.length) (hne : as.length ≠ bs.length) :
    binop op as bs = .error .ValueError := by
  rw [binop_MM op as bs ha hb, if_neg hne]

/-- length of the result: 1 op 1 → 1, 1 op M → M, M op 1 → M, M op M → M -/
theorem binop_length (as : List α) (bs : List β) (res : List γ) (ha : 0 < as.length) (hb : 0 < bs.length)
    (h : binop op as bs = .ok res) : res.length = max as.length bs.length := by
  match as, bs, ha, hb with
  | [a], [b], _, _ => cases h; rfl
  | [a], b1 :: b2 :: bs', _, _ => cases h; simp
  | a1 :: a2 :: as', [b], _, _ => cases h; simp
  | a1 :: a2 :: as', b1 :: b2 :: bs', _, _ =>
    simp only [binop] at h
    split at h
    · cases h; rename_i heq; simp at heq ⊢; omega
    · cases h

/-- element i of the result is the single-valued operation on the i-th elements, the lone value being reused when one
side has length 1 -/
theorem binop_get (as : List α) (bs : List β) (res : List γ) (ha : 0 < as.length) (hb : 0 < bs.length)
    (h : binop op as bs = .ok res) (i : Nat) (hi : i < res.length) :
    ∃ a b, pick as i = some a ∧ pick bs i = some b ∧ res[i]? = some (op a b) := by
  match as, bs, ha, hb with
  | [a], [b], _, _ =>
    cases h
    have : i = 0 := by simp at hi; omega
    subst this; exact ⟨a, b, by simp [pick], by simp [pick], rfl⟩
  | [a], b1 :: b2 :: bs', _, _ =>
    cases h
    simp at hi
    refine ⟨a, (b1 :: b2 :: bs')[i]'(by simp; omega), by simp [pick], ?_, ?_⟩
    · simp [pick]
    · have hib : i < (b1 :: b2 :: bs').length := by simp; omega
      show (List.map (op a) (b1 :: b2 :: bs'))[i]? = _
      rw [List.getElem?_map, List.getElem?_eq_getElem hib]; rfl
  | a1 :: a2 :: as', [b], _, _ =>
    cases h
    simp at hi
    refine ⟨(a1 :: a2 :: as')[i]'(by simp; omega), b, ?_, by simp [pick], ?_⟩
    · simp [pick]
    · have hia : i < (a1 :: a2 :: as').length := by simp; omega
      show (List.map (fun a => op a b) (a1 :: a2 :: as'))[i]? = _
      rw [List.getElem?_map, List.getElem?_eq_getElem hia]; rfl
  | a1 :: a2 :: as', b1 :: b2 :: bs', _, _ =>
    simp only [binop] at h
    split at h
    · cases h
      rename_i heq
      have hia : i < (a1 :: a2 :: as').length := by simp at hi ⊢; omega
      have hib : i < (b1 :: b2 :: bs').length := by simp at hi ⊢; omega
      refine ⟨(a1 :: a2 :: as')[i], (b1 :: b2 :: bs')[i], ?_, ?_, ?_⟩
      · simp [pick]
      · simp [pick]
      · rw [List.getElem?_eq_getElem (by simpa using hi), List.getElem_zipWith]
    · cases h

/-- unary helper and scalar right operand: one result per value, in order -/
theorem unop_map {δ : Type} (f : α → δ) (l : List α) : unop f l = l.map f := rfl
theorem unop_length {δ : Type} (f : α → δ) (l : List α) : (unop f l).length = l.length := by simp [unop]
theorem binopScalar_get (l : List α) (k : β) (i : Nat) (h : i < l.length) :
    (binopScalar op l k)[i]? = some (op l[i] k) := by
  simp [binopScalar, List.getElem?_map, List.getElem?_eq_getElem h]

end SmVerif.Props.C09
