/-
  C19 — Plücker lines: incidence, projection and rigid transformation are consistent.
  Theorems about the traced class methods of `Plucker` / `Plane`.  A line is the pair (v, w) stored as the
  6-vector L = (v, w) with v = w × p for every point p of the line.
  Explored only (smv/props/c19.py): predicates with absolute tolerances (contains, ==, isparallel), nearly parallel lines, the normalised reciprocal product.
-/
import SmVerif.Gen.Plucker
import SmVerif.Spec.Lie
import SmVerif.Spec.PrimLaws
import SmVerif.Tactics
import Mathlib.Tactic.NormNum
import Mathlib.Tactic.Linarith
import Mathlib.Tactic.FieldSimp
import Mathlib.Tactic.Positivity

namespace SmVerif.Props.C19
open SmVerif SmVerif.Spec
set_option linter.unusedSectionVars false
set_option linter.unusedSimpArgs false
set_option linter.unusedTactic false
set_option linter.unreachableTactic false
variable {R : Type} [Field R] [LinearOrder R] [IsStrictOrderedRing R] (P : Prims R)

def mom (L : Vec 6 R) : Vec 3 R := v3 (L 0) (L 1) (L 2)
def dir (L : Vec 6 R) : Vec 3 R := v3 (L 3) (L 4) (L 5)

/-- x lies on the line L  ⇔  w × x = v  (exact incidence) -/
def OnLine (L : Vec 6 R) (x : Vec 3 R) : Prop := cross3 (dir L) x = mom L

/-! ### constructors satisfy the Plücker constraint and contain their defining points -/

theorem PQ_spec (p q : Vec 3 R) (L : Vec 6 R) (h : Gen.Plucker_PQ P p q = .ok L) :
    dot (mom L) (dir L) = 0 ∧ OnLine L p ∧ OnLine L q ∧ dir L = fun i => p i - q i := by
  unfold Gen.Plucker_PQ at h; simp only [] at h; cases h
  refine ⟨?_, ?_, ?_, ?_⟩
  · simp [dot, mom, dir, Fin.sum_univ_three]; ring
  · apply Vec.ext3 <;> simp [OnLine, cross3, mom, dir] <;> ring
  · apply Vec.ext3 <;> simp [OnLine, cross3, mom, dir] <;> ring
  · apply Vec.ext3 <;> simp [dir]

theorem PointDir_spec (p d : Vec 3 R) (L : Vec 6 R) (h : Gen.Plucker_PointDir P p d = .ok L) :
    dot (mom L) (dir L) = 0 ∧ OnLine L p ∧ dir L = d := by
  unfold Gen.Plucker_PointDir at h; cases h
  refine ⟨?_, ?_, ?_⟩
  · simp [dot, mom, dir, Fin.sum_univ_three]; ring
  · apply Vec.ext3 <;> simp [OnLine, cross3, mom, dir]
  · apply Vec.ext3 <;> simp [dir]

/-- line of two planes a·x + a₃ = 0, b·x + b₃ = 0: Plücker constraint, and every point on the line is on both planes -/
theorem Planes_spec (a b : Vec 4 R) (L : Vec 6 R) (h : Gen.Plucker_Planes P a b = .ok L) :
    dot (mom L) (dir L) = 0 ∧
    ∀ x : Vec 3 R, OnLine L x →
      (dot (dir L) (dir L)) * (a 0 * x 0 + a 1 * x 1 + a 2 * x 2 + a 3) = 0 ∧
      (dot (dir L) (dir L)) * (b 0 * x 0 + b 1 * x 1 + b 2 * x 2 + b 3) = 0 := by
  unfold Gen.Plucker_Planes at h; cases h
  constructor
  · simp [dot, mom, dir, Fin.sum_univ_three]; ring
  · intro x hx
    have h0 := congrFun hx 0; have h1 := congrFun hx 1; have h2 := congrFun hx 2
    simp only [OnLine, cross3, mom, dir, v3_0, v3_1, v3_2, v6_0, v6_1, v6_2, v6_3, v6_4, v6_5] at h0 h1 h2
    constructor
    · simp only [dot, dir, Fin.sum_univ_three, v3_0, v3_1, v3_2, v6_3, v6_4, v6_5]
      linear_combination (b 0*a 1^2 + b 0*a 2^2 - a 0*a 1*b 1 - a 0*a 2*b 2) * h0 + (b 2*a 0^2 + b 2*a 1^2 - a 0*a 2*b 0 - a 1*a 2*b 1) * h2 + (b 1*a 0^2 + b 1*a 2^2 - a 0*a 1*b 0 - a 1*a 2*b 2) * h1
    · simp only [dot, dir, Fin.sum_univ_three, v3_0, v3_1, v3_2, v6_3, v6_4, v6_5]
      linear_combination (-a 0*b 1^2 - a 0*b 2^2 + a 1*b 0*b 1 + a 2*b 0*b 2) * h0 + (-a 2*b 0^2 - a 2*b 1^2 + a 0*b 0*b 2 + a 1*b 1*b 2) * h2 + (-a 1*b 0^2 - a 1*b 2^2 + a 0*b 0*b 1 + a 2*b 1*b 2) * h1

/-! ### principal point, point(λ), closest point -/

/-- pp is on the line and perpendicular to its direction (the point of the line closest to the origin) -/
theorem pp_spec (L : Vec 6 R) (hc : dot (mom L) (dir L) = 0) (hw : dot (dir L) (dir L) ≠ 0) (x : Vec 3 R)
    (h : Gen.Plucker_pp P L = .ok x) : OnLine L x ∧ dot x (dir L) = 0 := by
  unfold Gen.Plucker_pp at h; simp only [] at h
  simp only [dot, mom, dir, Fin.sum_univ_three, v3_0, v3_1, v3_2] at hc hw
  generalize hd : L 3 * L 3 + L 4 * L 4 + L 5 * L 5 = d at *
  cases h
  have k0 : L 1 * L 5 - L 2 * L 4 = ((L 1 * L 5 - L 2 * L 4) / d) * d := by field_simp
  have k1 : L 2 * L 3 - L 0 * L 5 = ((L 2 * L 3 - L 0 * L 5) / d) * d := by field_simp
  have k2 : L 0 * L 4 - L 1 * L 3 = ((L 0 * L 4 - L 1 * L 3) / d) * d := by field_simp
  generalize (L 1 * L 5 - L 2 * L 4) / d = x0 at *
  generalize (L 2 * L 3 - L 0 * L 5) / d = x1 at *
  generalize (L 0 * L 4 - L 1 * L 3) / d = x2 at *
  constructor
  · apply Vec.ext3 <;> simp only [OnLine, cross3, mom, dir, v3_0, v3_1, v3_2] <;> apply mul_right_cancel₀ hw
    · linear_combination (L 5) * k1 + (-L 4) * k2 + (-L 3) * hc + (L 0) * hd
    · linear_combination (-L 4) * hc + (-L 5) * k0 + (L 3) * k2 + (L 1) * hd
    · linear_combination (-L 3) * k1 + (-L 5) * hc + (L 2) * hd + (L 4) * k0
  · simp only [dot, dir, Fin.sum_univ_three, v3_0, v3_1, v3_2]
    apply mul_right_cancel₀ hw
    linear_combination (-L 5) * k2 + (-L 4) * k1 + (-L 3) * k0

/-- every point(λ) lies on the line -/
theorem point_on_line (hs : P.Sqrt) (L : Vec 6 R) (hc : dot (mom L) (dir L) = 0) (lam : R) (p : Mat 3 1 R)
    (h : Gen.Plucker_point P L lam = .ok p) : OnLine L (fun i => p i 0) := by
  unfold Gen.Plucker_point at h; simp only [] at h
  simp only [dot, mom, dir, Fin.sum_univ_three, v3_0, v3_1, v3_2] at hc
  have hd0 : 0 ≤ L 3 * L 3 + L 4 * L 4 + L 5 * L 5 := add_nonneg (add_nonneg (mul_self_nonneg _) (mul_self_nonneg _)) (mul_self_nonneg _)
  have hss := hs.mul_self _ hd0
  generalize hd : L 3 * L 3 + L 4 * L 4 + L 5 * L 5 = d at *
  generalize hsd : P.sqrt d = s at *
  split_ifs at h with hpos
  cases h
  have hs0 : s ≠ 0 := ne_of_gt (lt_trans (by positivity) hpos)
  have hd' : d ≠ 0 := by rw [← hss]; exact mul_ne_zero hs0 hs0
  apply Vec.ext3 <;> simp only [OnLine, cross3, mom, dir, v3_0, v3_1, v3_2, v1_0] <;> field_simp
  · linear_combination (-L 3 * s) * hc + (L 0 * s) * hd
  · linear_combination (-L 4 * s) * hc + (L 1 * s) * hd
  · linear_combination (-L 5 * s) * hc + (L 2 * s) * hd

/-- incidence is affine: moving a point of the line along a vector parallel to the direction stays on the line -/
theorem OnLine_add (L : Vec 6 R) (q u : Vec 3 R) (t : R) (hq : OnLine L q) (hu : cross3 (dir L) u = 0) :
    OnLine L (fun i => q i + u i * t) := by
  have h0 := congrFun hq 0; have h1 := congrFun hq 1; have h2 := congrFun hq 2
  have u0 := congrFun hu 0; have u1 := congrFun hu 1; have u2 := congrFun hu 2
  simp only [cross3, mom, dir, v3_0, v3_1, v3_2, Pi.zero_apply] at h0 h1 h2 u0 u1 u2
  apply Vec.ext3 <;> simp only [OnLine, cross3, mom, dir, v3_0, v3_1, v3_2]
  · linear_combination h0 + t * u0
  · linear_combination h1 + t * u1
  · linear_combination h2 + t * u2

/-- closest(x): the returned point is on the line, x − p is orthogonal to the direction (orthogonal projection), the
reported distance is ‖x − p‖ and the reported parameter places p at pp + λ·ŵ -/
theorem closest_spec (hs : P.Sqrt) (L : Vec 6 R) (hc : dot (mom L) (dir L) = 0) (x p : Vec 3 R) (dist lam : R)
    (h : Gen.Plucker_closest P L x = .ok (p, dist, lam)) :
    OnLine L p ∧ dot (fun i => x i - p i) (dir L) = 0 ∧ dist * dist = dot (fun i => x i - p i) (fun i => x i - p i) := by
  unfold Gen.Plucker_closest at h; simp only [] at h
  have hd0 : 0 ≤ L 3 * L 3 + L 4 * L 4 + L 5 * L 5 := add_nonneg (add_nonneg (mul_self_nonneg _) (mul_self_nonneg _)) (mul_self_nonneg _)
  have hss := hs.mul_self _ hd0
  split_ifs at h with hpos
  have hs0 : P.sqrt (L 3 * L 3 + L 4 * L 4 + L 5 * L 5) ≠ 0 := ne_of_gt (lt_trans (by positivity) hpos)
  have hd' : L 3 * L 3 + L 4 * L 4 + L 5 * L 5 ≠ 0 := by rw [← hss]; exact mul_ne_zero hs0 hs0
  -- the principal point is on the line
  obtain ⟨hq, _⟩ := pp_spec P L hc (by simpa [dot, dir, Fin.sum_univ_three] using hd') _ (by unfold Gen.Plucker_pp; rfl)
  injection h with h; injection h with hp h; injection h with hdist hlam
  refine ⟨?_, ?_, ?_⟩
  · rw [← hp]
    have := OnLine_add L _ (v3 (L 3 / P.sqrt (L 3 * L 3 + L 4 * L 4 + L 5 * L 5)) (L 4 / P.sqrt (L 3 * L 3 + L 4 * L 4 + L 5 * L 5)) (L 5 / P.sqrt (L 3 * L 3 + L 4 * L 4 + L 5 * L 5))) lam hq
      (by apply Vec.ext3 <;> simp [cross3, dir] <;> field_simp <;> ring)
    convert this using 1
    apply Vec.ext3 <;> simp [← hlam] <;> ring
  · rw [← hp]
    simp only [dot, dir, Fin.sum_univ_three, v3_0, v3_1, v3_2]
    generalize hsd : P.sqrt (L 3 * L 3 + L 4 * L 4 + L 5 * L 5) = s at *
    field_simp
    linear_combination (L 3 * x 0 + L 4 * x 1 + L 5 * x 2) * hss
  · rw [← hdist, ← hp]
    rw [hs.mul_self _ (add_nonneg (add_nonneg (mul_self_nonneg _) (mul_self_nonneg _)) (mul_self_nonneg _))]
    simp only [dot, Fin.sum_univ_three, v3_0, v3_1, v3_2]
    try ring

/-- intersect_plane: the returned point lies on the plane n·x + d = 0 and on the line -/
theorem intersect_plane_spec (L : Vec 6 R) (hc : dot (mom L) (dir L) = 0) (pl : Vec 4 R) (p : Vec 3 R) (lam : R)
    (h : Gen.Plucker_intersect_plane P L pl = .ok (p, lam)) :
    pl 0 * p 0 + pl 1 * p 1 + pl 2 * p 2 + pl 3 = 0 ∧ OnLine L p := by
  unfold Gen.Plucker_intersect_plane at h; simp only [] at h
  simp only [dot, mom, dir, Fin.sum_univ_three, v3_0, v3_1, v3_2] at hc
  split_ifs at h with hpos hw
  have hn : L 3 * pl 0 + L 4 * pl 1 + L 5 * pl 2 ≠ 0 := by
    intro e; rw [e] at hpos; simp at hpos; exact absurd hpos (not_lt.mpr (by positivity))
  injection h with h; injection h with hp hlam
  rw [← hp]
  clear hlam hp hpos
  generalize hD : L 3 * pl 0 + L 4 * pl 1 + L 5 * pl 2 = D at *
  constructor
  · simp only [v3_0, v3_1, v3_2]; field_simp; linear_combination (-pl 3) * hD
  · apply Vec.ext3 <;> simp only [OnLine, cross3, mom, dir, v3_0, v3_1, v3_2] <;> field_simp
    · linear_combination (-pl 0) * hc + (L 0) * hD
    · linear_combination (-pl 1) * hc + (L 1) * hD
    · linear_combination (-pl 2) * hc + (L 2) * hD

/-- reciprocal (raw) product of two lines: zero exactly when they are coplanar (meet or are parallel) -/
def recip (L M : Vec 6 R) : R := dot (mom L) (dir M) + dot (mom M) (dir L)

/-- the common perpendicular of two non-parallel lines is a line (Plücker constraint), is orthogonal to both and meets both -/
theorem commonperp_spec (hs : P.Sqrt) (L M C : Vec 6 R) (hcL : dot (mom L) (dir L) = 0) (hcM : dot (mom M) (dir M) = 0)
    (h : Gen.Plucker_commonperp P L M = .ok C) :
    dot (mom C) (dir C) = 0 ∧ dot (dir C) (dir L) = 0 ∧ dot (dir C) (dir M) = 0 ∧ recip C L = 0 ∧ recip C M = 0 ∧
    dir C = cross3 (dir L) (dir M) := by
  unfold Gen.Plucker_commonperp at h; simp only [] at h
  simp only [dot, mom, dir, Fin.sum_univ_three, v3_0, v3_1, v3_2] at hcL hcM
  set x1 := L 3 * M 4 - L 4 * M 3 with hx1
  set x2 := L 5 * M 3 - L 3 * M 5 with hx2
  set x3 := L 4 * M 5 - L 5 * M 4 with hx3
  have hd0 : 0 ≤ x3 * x3 + x2 * x2 + x1 * x1 := add_nonneg (add_nonneg (mul_self_nonneg _) (mul_self_nonneg _)) (mul_self_nonneg _)
  have hss := hs.mul_self _ hd0
  split_ifs at h with hbig hsmall hsmall
  all_goals (
    have hd' : x3 * x3 + x2 * x2 + x1 * x1 ≠ 0 := by
      intro e; rw [e] at hss hsmall
      have : P.sqrt 0 = 0 := mul_self_eq_zero.mp hss
      rw [this] at hsmall
      first | exact hsmall (by positivity) | exact hsmall (mul_pos (by norm_num) (lt_trans one_pos hbig))
    generalize hd : x3 * x3 + x2 * x2 + x1 * x1 = d at *
    set x6 := (L 0 * M 3 + L 1 * M 4 + L 2 * M 5 + (M 0 * L 3 + M 1 * L 4 + M 2 * L 5)) * (L 3 * M 3 + L 4 * M 4 + L 5 * M 5) with hx6
    have hk0 : x6 * x3 / d * d = x6 * x3 := by field_simp
    have hk1 : x6 * x2 / d * d = x6 * x2 := by field_simp
    have hk2 : x6 * x1 / d * d = x6 * x1 := by field_simp
    generalize x6 * x3 / d = k0 at *
    generalize x6 * x2 / d = k1 at *
    generalize x6 * x1 / d = k2 at *
    cases h
    simp only [recip, dot, mom, dir, Fin.sum_univ_three, v3_0, v3_1, v3_2, v6_0, v6_1, v6_2, v6_3, v6_4, v6_5]
    refine ⟨?_, ?_, ?_, ?_, ?_, ?_⟩
    · apply mul_right_cancel₀ hd'
      simp only [hx1, hx2, hx3, hx6] at *
      linear_combination x3 * hk0 + x2 * hk1 + x1 * hk2 + x6 * hd + d * ((M 3 ^ 2 + M 4 ^ 2 + M 5 ^ 2) * hcL + (L 3 ^ 2 + L 4 ^ 2 + L 5 ^ 2) * hcM)
    · simp only [hx1, hx2, hx3]; ring
    · simp only [hx1, hx2, hx3]; ring
    · apply mul_right_cancel₀ hd'
      simp only [hx1, hx2, hx3, hx6] at *
      linear_combination (L 5) * hk2 + (L 4) * hk1 + (L 3) * hk0
    · apply mul_right_cancel₀ hd'
      simp only [hx1, hx2, hx3, hx6] at *
      linear_combination (M 5) * hk2 + (M 4) * hk1 + (M 3) * hk0
    · apply Vec.ext3 <;> simp [cross3, hx1, hx2, hx3])

/-- the raw reciprocal product of two lines through p and q is the triple product (w₁ × w₂) · (q − p) -/
theorem recip_eq_triple (L M : Vec 6 R) (p q : Vec 3 R) (hp : OnLine L p) (hq : OnLine M q) :
    recip L M = dot (cross3 (dir L) (dir M)) (fun i => q i - p i) := by
  have p0 := congrFun hp 0; have p1 := congrFun hp 1; have p2 := congrFun hp 2
  have q0 := congrFun hq 0; have q1 := congrFun hq 1; have q2 := congrFun hq 2
  simp only [OnLine, cross3, mom, dir, v3_0, v3_1, v3_2] at p0 p1 p2 q0 q1 q2
  simp only [recip, dot, cross3, mom, dir, Fin.sum_univ_three, v3_0, v3_1, v3_2]
  linear_combination (-M 3) * p0 + (-M 4) * p1 + (-M 5) * p2 + (-L 3) * q0 + (-L 4) * q1 + (-L 5) * q2

/-- distance between two skew lines: |(w₁ × w₂) · (q − p)| / ‖w₁ × w₂‖ for any points p, q on them (or 0 when the code decides they meet);
    "not parallel" is the code's own test: ‖w₁ × w₂‖ ≥ tol · max(1, ‖w₁‖‖w₂‖) -/
theorem distance_skew (L M : Vec 6 R) (p q : Vec 3 R) (hp : OnLine L p) (hq : OnLine M q) (d : R)
    (h : Gen.Plucker_distance P L M = .ok d)
    (hnp : ¬ P.sqrt (dot (cross3 (dir L) (dir M)) (cross3 (dir L) (dir M))) <
        5 / 2251799813685248 * max 1 (P.sqrt (L 3 * L 3 + L 4 * L 4 + L 5 * L 5) * P.sqrt (M 3 * M 3 + M 4 * M 4 + M 5 * M 5))) :
    d = 0 ∨ d * P.sqrt (dot (cross3 (dir L) (dir M)) (cross3 (dir L) (dir M))) = |dot (cross3 (dir L) (dir M)) (fun i => q i - p i)| ∨
      P.sqrt (dot (cross3 (dir L) (dir M)) (cross3 (dir L) (dir M))) = 0 := by
  have hr := recip_eq_triple L M p q hp hq
  unfold Gen.Plucker_distance at h; simp only [] at h
  have e : dot (cross3 (dir L) (dir M)) (cross3 (dir L) (dir M)) =
      (L 4 * M 5 - L 5 * M 4) * (L 4 * M 5 - L 5 * M 4) + (L 5 * M 3 - L 3 * M 5) * (L 5 * M 3 - L 3 * M 5) + (L 3 * M 4 - L 4 * M 3) * (L 3 * M 4 - L 4 * M 3) := by
    simp [dot, cross3, dir, Fin.sum_univ_three]
  rw [e] at hnp ⊢
  have fin : ∀ d' : R, d' = |L 3 * M 0 + L 4 * M 1 + L 5 * M 2 + (M 3 * L 0 + M 4 * L 1 + M 5 * L 2)| /
      P.sqrt ((L 4 * M 5 - L 5 * M 4) * (L 4 * M 5 - L 5 * M 4) + (L 5 * M 3 - L 3 * M 5) * (L 5 * M 3 - L 3 * M 5) + (L 3 * M 4 - L 4 * M 3) * (L 3 * M 4 - L 4 * M 3)) →
      d' = 0 ∨ d' * P.sqrt ((L 4 * M 5 - L 5 * M 4) * (L 4 * M 5 - L 5 * M 4) + (L 5 * M 3 - L 3 * M 5) * (L 5 * M 3 - L 3 * M 5) + (L 3 * M 4 - L 4 * M 3) * (L 3 * M 4 - L 4 * M 3)) =
        |dot (cross3 (dir L) (dir M)) (fun i => q i - p i)| ∨
      P.sqrt ((L 4 * M 5 - L 5 * M 4) * (L 4 * M 5 - L 5 * M 4) + (L 5 * M 3 - L 3 * M 5) * (L 5 * M 3 - L 3 * M 5) + (L 3 * M 4 - L 4 * M 3) * (L 3 * M 4 - L 4 * M 3)) = 0 := by
    intro d' hd'
    by_cases hz : P.sqrt ((L 4 * M 5 - L 5 * M 4) * (L 4 * M 5 - L 5 * M 4) + (L 5 * M 3 - L 3 * M 5) * (L 5 * M 3 - L 3 * M 5) + (L 3 * M 4 - L 4 * M 3) * (L 3 * M 4 - L 4 * M 3)) = 0
    · right; right; exact hz
    · right; left
      rw [hd', div_mul_cancel₀ _ hz, ← hr]
      simp only [recip, dot, mom, dir, Fin.sum_univ_three, v3_0, v3_1, v3_2]
      congr 1; ring
  by_cases hbig : P.sqrt (L 3 * L 3 + L 4 * L 4 + L 5 * L 5) * P.sqrt (M 3 * M 3 + M 4 * M 4 + M 5 * M 5) > 1
  · rw [max_eq_right (le_of_lt hbig)] at hnp
    rw [if_pos hbig, if_neg hnp] at h
    split_ifs at h with h1 h2 h3 <;> cases h
    · left; rfl
    · exact fin _ rfl
  · rw [max_eq_left (not_lt.mp hbig), mul_one] at hnp
    rw [if_neg hbig, if_neg hnp] at h
    split_ifs at h with h1 h2 h3 <;> cases h
    · left; rfl
    · exact fin _ rfl

/-- distance between two parallel lines (w₂ = k·w₁, k ≠ 0) through p and q: the code returns d ≥ 0 with
    d²·‖w₁‖² = ‖w₁‖²‖p − q‖² − (w₁·(p − q))², i.e. d is the length of the component of p − q perpendicular to the common direction -/
theorem distance_parallel (hS : P.Sqrt) (L M : Vec 6 R) (p q : Vec 3 R) (hp : OnLine L p) (hq : OnLine M q) (k : R) (hk : k ≠ 0)
    (hpar : ∀ i, dir M i = k * dir L i) (hw : L 3 * L 3 + L 4 * L 4 + L 5 * L 5 ≠ 0) (d : R)
    (h : Gen.Plucker_distance P L M = .ok d) :
    0 ≤ d ∧ d * d * (L 3 * L 3 + L 4 * L 4 + L 5 * L 5) =
      (L 3 * L 3 + L 4 * L 4 + L 5 * L 5) * ((p 0 - q 0) * (p 0 - q 0) + (p 1 - q 1) * (p 1 - q 1) + (p 2 - q 2) * (p 2 - q 2))
        - (L 3 * (p 0 - q 0) + L 4 * (p 1 - q 1) + L 5 * (p 2 - q 2)) * (L 3 * (p 0 - q 0) + L 4 * (p 1 - q 1) + L 5 * (p 2 - q 2)) := by
  have p0 := congrFun hp 0; have p1 := congrFun hp 1; have p2 := congrFun hp 2
  have q0 := congrFun hq 0; have q1 := congrFun hq 1; have q2 := congrFun hq 2
  have m3 := hpar 0; have m4 := hpar 1; have m5 := hpar 2
  simp only [OnLine, cross3, mom, dir, v3_0, v3_1, v3_2] at p0 p1 p2 q0 q1 q2 m3 m4 m5
  set W := L 3 * L 3 + L 4 * L 4 + L 5 * L 5 with hW
  have hWpos : 0 < W := lt_of_le_of_ne (by have := mul_self_nonneg (L 3); have := mul_self_nonneg (L 4); have := mul_self_nonneg (L 5); linarith) (Ne.symm hw)
  have s0 : P.sqrt 0 = 0 := by
    have := hS.mul_self 0 (le_refl 0); exact mul_self_eq_zero.mp this
  -- the cross product of the directions vanishes
  have c0 : L 4 * M 5 - L 5 * M 4 = 0 := by rw [m4, m5]; ring
  have c1 : L 5 * M 3 - L 3 * M 5 = 0 := by rw [m3, m5]; ring
  have c2 : L 3 * M 4 - L 4 * M 3 = 0 := by rw [m3, m4]; ring
  have hcross : P.sqrt ((L 4 * M 5 - L 5 * M 4) * (L 4 * M 5 - L 5 * M 4) + (L 5 * M 3 - L 3 * M 5) * (L 5 * M 3 - L 3 * M 5) + (L 3 * M 4 - L 4 * M 3) * (L 3 * M 4 - L 4 * M 3)) = 0 := by
    rw [c0, c1, c2]; simpa using s0
  have hMM : M 3 * M 3 + M 4 * M 4 + M 5 * M 5 = k * k * W := by rw [m3, m4, m5, hW]; ring
  have hMMne : M 3 * M 3 + M 4 * M 4 + M 5 * M 5 ≠ 0 := by rw [hMM]; exact mul_ne_zero (mul_ne_zero hk hk) hw
  have hLM : L 3 * M 3 + L 4 * M 4 + L 5 * M 5 = k * W := by rw [m3, m4, m5, hW]; ring
  -- v₁ − v₂ (w₁·w₂)/(w₂·w₂) = w₁ × (p − q)
  have u0 : L 0 - M 0 * (L 3 * M 3 + L 4 * M 4 + L 5 * M 5) / (M 3 * M 3 + M 4 * M 4 + M 5 * M 5) = L 4 * (p 2 - q 2) - L 5 * (p 1 - q 1) := by
    rw [hLM, hMM, ← p0, ← q0, m4, m5]; field_simp; ring
  have u1 : L 1 - M 1 * (L 3 * M 3 + L 4 * M 4 + L 5 * M 5) / (M 3 * M 3 + M 4 * M 4 + M 5 * M 5) = L 5 * (p 0 - q 0) - L 3 * (p 2 - q 2) := by
    rw [hLM, hMM, ← p1, ← q1, m3, m5]; field_simp; ring
  have u2 : L 2 - M 2 * (L 3 * M 3 + L 4 * M 4 + L 5 * M 5) / (M 3 * M 3 + M 4 * M 4 + M 5 * M 5) = L 3 * (p 1 - q 1) - L 4 * (p 0 - q 0) := by
    rw [hLM, hMM, ← p2, ← q2, m3, m4]; field_simp; ring
  have fin : ∀ d' : R, d' = P.sqrt ((L 4 * (L 2 - M 2 * (L 3 * M 3 + L 4 * M 4 + L 5 * M 5) / (M 3 * M 3 + M 4 * M 4 + M 5 * M 5)) - L 5 * (L 1 - M 1 * (L 3 * M 3 + L 4 * M 4 + L 5 * M 5) / (M 3 * M 3 + M 4 * M 4 + M 5 * M 5))) * (L 4 * (L 2 - M 2 * (L 3 * M 3 + L 4 * M 4 + L 5 * M 5) / (M 3 * M 3 + M 4 * M 4 + M 5 * M 5)) - L 5 * (L 1 - M 1 * (L 3 * M 3 + L 4 * M 4 + L 5 * M 5) / (M 3 * M 3 + M 4 * M 4 + M 5 * M 5)))
        + (L 5 * (L 0 - M 0 * (L 3 * M 3 + L 4 * M 4 + L 5 * M 5) / (M 3 * M 3 + M 4 * M 4 + M 5 * M 5)) - L 3 * (L 2 - M 2 * (L 3 * M 3 + L 4 * M 4 + L 5 * M 5) / (M 3 * M 3 + M 4 * M 4 + M 5 * M 5))) * (L 5 * (L 0 - M 0 * (L 3 * M 3 + L 4 * M 4 + L 5 * M 5) / (M 3 * M 3 + M 4 * M 4 + M 5 * M 5)) - L 3 * (L 2 - M 2 * (L 3 * M 3 + L 4 * M 4 + L 5 * M 5) / (M 3 * M 3 + M 4 * M 4 + M 5 * M 5)))
        + (L 3 * (L 1 - M 1 * (L 3 * M 3 + L 4 * M 4 + L 5 * M 5) / (M 3 * M 3 + M 4 * M 4 + M 5 * M 5)) - L 4 * (L 0 - M 0 * (L 3 * M 3 + L 4 * M 4 + L 5 * M 5) / (M 3 * M 3 + M 4 * M 4 + M 5 * M 5))) * (L 3 * (L 1 - M 1 * (L 3 * M 3 + L 4 * M 4 + L 5 * M 5) / (M 3 * M 3 + M 4 * M 4 + M 5 * M 5)) - L 4 * (L 0 - M 0 * (L 3 * M 3 + L 4 * M 4 + L 5 * M 5) / (M 3 * M 3 + M 4 * M 4 + M 5 * M 5)))) / W →
      0 ≤ d' ∧ d' * d' * W = W * ((p 0 - q 0) * (p 0 - q 0) + (p 1 - q 1) * (p 1 - q 1) + (p 2 - q 2) * (p 2 - q 2))
        - (L 3 * (p 0 - q 0) + L 4 * (p 1 - q 1) + L 5 * (p 2 - q 2)) * (L 3 * (p 0 - q 0) + L 4 * (p 1 - q 1) + L 5 * (p 2 - q 2)) := by
    intro d' hd'
    rw [u0, u1, u2] at hd'
    generalize hA : (L 4 * (L 3 * (p 1 - q 1) - L 4 * (p 0 - q 0)) - L 5 * (L 5 * (p 0 - q 0) - L 3 * (p 2 - q 2))) * (L 4 * (L 3 * (p 1 - q 1) - L 4 * (p 0 - q 0)) - L 5 * (L 5 * (p 0 - q 0) - L 3 * (p 2 - q 2)))
        + (L 5 * (L 4 * (p 2 - q 2) - L 5 * (p 1 - q 1)) - L 3 * (L 3 * (p 1 - q 1) - L 4 * (p 0 - q 0))) * (L 5 * (L 4 * (p 2 - q 2) - L 5 * (p 1 - q 1)) - L 3 * (L 3 * (p 1 - q 1) - L 4 * (p 0 - q 0)))
        + (L 3 * (L 5 * (p 0 - q 0) - L 3 * (p 2 - q 2)) - L 4 * (L 4 * (p 2 - q 2) - L 5 * (p 1 - q 1))) * (L 3 * (L 5 * (p 0 - q 0) - L 3 * (p 2 - q 2)) - L 4 * (L 4 * (p 2 - q 2) - L 5 * (p 1 - q 1))) = A at hd'
    have hA0 : 0 ≤ A := by rw [← hA]; exact add_nonneg (add_nonneg (mul_self_nonneg _) (mul_self_nonneg _)) (mul_self_nonneg _)
    have hsq := hS.mul_self A hA0
    have hval : A = W * (W * ((p 0 - q 0) * (p 0 - q 0) + (p 1 - q 1) * (p 1 - q 1) + (p 2 - q 2) * (p 2 - q 2))
        - (L 3 * (p 0 - q 0) + L 4 * (p 1 - q 1) + L 5 * (p 2 - q 2)) * (L 3 * (p 0 - q 0) + L 4 * (p 1 - q 1) + L 5 * (p 2 - q 2))) := by
      rw [← hA, hW]; ring
    constructor
    · rw [hd']; exact div_nonneg (hS.nonneg A) (le_of_lt hWpos)
    · rw [hd']; field_simp; linear_combination hsq + hval
  unfold Gen.Plucker_distance at h; simp only [] at h
  rw [hcross] at h
  by_cases hbig : P.sqrt (L 3 * L 3 + L 4 * L 4 + L 5 * L 5) * P.sqrt (M 3 * M 3 + M 4 * M 4 + M 5 * M 5) > 1
  · rw [if_pos hbig, if_pos (by positivity)] at h
    cases h; exact fin _ rfl
  · rw [if_neg hbig, if_pos (by norm_num)] at h
    cases h; exact fin _ rfl

/-- transforming a line by a rigid motion gives the line through the transformed points, with rotated direction -/
theorem SE3_mul_line (M : Mat 3 3 R) (t : Vec 3 R) (hM : IsSO3 M) (L L' : Vec 6 R)
    (h : Gen.SE3_mul_Plucker P (rt3 M t) L = .ok L') (x : Vec 3 R) (hx : OnLine L x) :
    OnLine L' (fun i => mvec M x i + t i) ∧ dir L' = mvec M (dir L) := by
  unfold Gen.SE3_mul_Plucker at h; simp only [] at h; cases h
  obtain ⟨c00, c01, c02, c10, c11, c12, c20, c21, c22⟩ := hM.cof
  have h0 := congrFun hx 0; have h1 := congrFun hx 1; have h2 := congrFun hx 2
  simp only [OnLine, cross3, mom, dir, v3_0, v3_1, v3_2] at h0 h1 h2
  constructor
  · apply Vec.ext3 <;> simp [OnLine, cross3, mom, dir, mvec, rt3, Fin.sum_univ_three]
    · linear_combination (L 5*x 1 - L 4*x 2) * c00 + (L 3*x 2 - L 5*x 0) * c01 + (L 4*x 0 - L 3*x 1) * c02 + (M 0 0) * h0 + (M 0 1) * h1 + (M 0 2) * h2
    · linear_combination (L 5*x 1 - L 4*x 2) * c10 + (L 3*x 2 - L 5*x 0) * c11 + (L 4*x 0 - L 3*x 1) * c12 + (M 1 0) * h0 + (M 1 1) * h1 + (M 1 2) * h2
    · linear_combination (L 5*x 1 - L 4*x 2) * c20 + (L 3*x 2 - L 5*x 0) * c21 + (L 4*x 0 - L 3*x 1) * c22 + (M 2 0) * h0 + (M 2 1) * h1 + (M 2 2) * h2
  · apply Vec.ext3 <;> simp [dir, mvec, rt3, Fin.sum_univ_three]

/-- a plane built from a point and a normal contains that point: n·p + d = 0 -/
theorem Plane_PN_contains (p n : Vec 3 R) (pl : Vec 4 R) (h : Gen.Plane_PN P p n = .ok pl) :
    pl 0 * p 0 + pl 1 * p 1 + pl 2 * p 2 + pl 3 = 0 ∧ (pl 0 = n 0 ∧ pl 1 = n 1 ∧ pl 2 = n 2) := by
  unfold Gen.Plane_PN at h; cases h
  constructor
  · simp only [v4_0, v4_1, v4_2, v4_3]; ring
  · simp

/-- a plane through three points contains each of them -/
theorem Plane_P3_contains (m : Mat 3 3 R) (pl : Vec 4 R) (h : Gen.Plane_P3 P m = .ok pl) :
    ∀ j : Fin 3, pl 0 * m 0 j + pl 1 * m 1 j + pl 2 * m 2 j + pl 3 = 0 := by
  unfold Gen.Plane_P3 at h; simp only [] at h; cases h
  intro j; fin_cases j <;> simp <;> ring

end SmVerif.Props.C19
