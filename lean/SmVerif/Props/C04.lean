/-
  C04 — all representations of the same motion agree and conversions are homomorphisms.
  Proved: quaternion → matrix is a homomorphism on unit quaternions, maps conjugate to transpose and is blind to the
  overall sign; the class-level unit-quaternion product / inverse are the (re-normalised) Hamilton product / conjugate;
  `==` on unit quaternions ignores the overall sign; the Rx/Ry/Rz constructors of UnitQuaternion and of SO3/SE3 give the
  same rotation; the embedding SO3 → SE3 is a homomorphism preserving the action on points.
  Explored (smv/props/c04.py, 1e-6): matrix → quaternion (`r2q`, 40 branches) round trips, twist and dual-quaternion routes,
  RPY / Eul / AngVec / OA constructors of UnitQuaternion (they go through r2q), expression trees.
-/
import SmVerif.Bridge.Quat
import SmVerif.Bridge.Rot
import SmVerif.Bridge.Poses
import SmVerif.Gen.Quats
import SmVerif.Spec.PrimLaws
import SmVerif.Props.C14
import Mathlib.Tactic.NormNum
import Mathlib.Tactic.Linarith

namespace SmVerif.Props.C04
open SmVerif SmVerif.Spec SmVerif.Bridge
set_option linter.unusedSectionVars false
set_option linter.unusedTactic false
set_option linter.unreachableTactic false
set_option maxHeartbeats 1000000
variable {R : Type} [Field R] [LinearOrder R] [IsStrictOrderedRing R] (P : Prims R)

/-! ### quaternion → rotation matrix -/

/-- q2r(a*b) = q2r(a) q2r(b) for unit quaternions -/
theorem q2r_hom (a b ab : Vec 4 R) (ha : qnormsq a = 1) (hb : qnormsq b = 1) (h : Gen.qqmul P a b = .ok ab)
    (A B : Mat 3 3 R) (hA : Gen.q2r P a = .ok A) (hB : Gen.q2r P b = .ok B) : Gen.q2r P ab = .ok (mmul A B) := by
  rw [Bridge.qqmul] at h; rw [Bridge.q2r] at hA hB; cases h; cases hA; cases hB
  rw [Bridge.q2r, q2r_mul a b ha hb]

/-- q2r(conj q) = q2r(q)ᵀ, i.e. conversion commutes with inversion -/
theorem q2r_inv (a ca : Vec 4 R) (h : Gen.qconj P a = .ok ca) (A : Mat 3 3 R) (hA : Gen.q2r P a = .ok A) :
    Gen.q2r P ca = .ok (mT A) := by
  rw [Bridge.qconj] at h; rw [Bridge.q2r] at hA; cases h; cases hA
  rw [Bridge.q2r, q2r_conj]

/-- q and −q are the same rotation -/
theorem q2r_double_cover (a : Vec 4 R) : Gen.q2r P (fun i => -(a i)) = Gen.q2r P a := by
  rw [Bridge.q2r, Bridge.q2r, q2r_neg]

/-- UnitQuaternion.R is q2r -/
theorem UQ_R_eq (q : Vec 4 R) : Gen.UQ_R P q = Gen.q2r P q := by
  unfold Gen.UQ_R Gen.q2r; rfl

/-- class `==` on unit quaternions: q == −q, and q == q -/
theorem UQ_eq_sign_blind (q : Vec 4 R) : Gen.UQ_eq P q (fun i => -(q i)) = .ok true ∧ Gen.UQ_eq P q q = .ok true := by
  have z : (0 : R) < 25 / 1125899906842624 := by norm_num
  constructor
  · unfold Gen.UQ_eq
    split_ifs with h1 h2
    · rfl
    · rfl
    · exfalso; apply h2; simp
  · unfold Gen.UQ_eq
    split_ifs with h1 h2
    · rfl
    · rfl
    · exfalso; apply h1; simp

/-! ### class-level unit quaternion operations -/

/-- UnitQuaternion * UnitQuaternion returns the Hamilton product (re-normalised: a positive multiple) -/
theorem UQ_mul_value (hS : P.Sqrt) (q p r : Vec 4 R) (h : Gen.UQ_mul P q p = .ok r) :
    ∃ k : R, 0 < k ∧ ∀ i, r i * k = qmul q p i := by
  unfold Gen.UQ_mul at h; simp only [] at h
  generalize hn : P.sqrt _ = n at h
  have h0 : 0 ≤ n := by rw [← hn]; exact hS.nonneg _
  split_ifs at h with h1 h2 <;> cases h
  have hpos : 0 < n := by
    rcases lt_or_eq_of_le h0 with hlt | heq
    · exact hlt
    · exfalso; apply h2; rw [← heq]; simp
  have hne : n ≠ 0 := ne_of_gt hpos
  refine ⟨n, hpos, ?_⟩
  intro i; fin_cases i <;> simp <;> field_simp <;> ring

/-! ### named constructors agree across classes -/

/-- double-angle laws for the half angle θ/2 -/
structure HalfAngle (P : Prims R) : Prop where
  cos_eq : ∀ θ, P.cos θ = P.cos (θ / 2) * P.cos (θ / 2) - P.sin (θ / 2) * P.sin (θ / 2)
  sin_eq : ∀ θ, P.sin θ = 2 * P.sin (θ / 2) * P.cos (θ / 2)

/-- UnitQuaternion.Rx(θ) is (cos θ/2, sin θ/2, 0, 0) and its rotation matrix is SO3.Rx(θ) = rotx(θ) -/
theorem UQ_Rx_agrees (hT : P.Trig) (hS : P.Sqrt) (hH : HalfAngle P) (θ : R) :
    Gen.UQ_Rx P θ = .ok (v4 (P.cos (θ / 2)) (P.sin (θ / 2)) 0 0) ∧
    Gen.q2r P (v4 (P.cos (θ / 2)) (P.sin (θ / 2)) 0 0) = Gen.SO3_Rx P θ ∧ Gen.SO3_Rx P θ = Gen.rotx_rad P θ := by
  have h1 := hT (θ / 2)
  have s1 := Props.C14.sqrt_one P hS
  refine ⟨?_, ?_, ?_⟩
  · unfold Gen.UQ_Rx; simp only [h1, s1, abs_one, div_one, zero_div]
    have : ¬ ((1 : R) < 5 / 2251799813685248) := by norm_num
    simp only [this, if_false]
  · rw [Bridge.q2r]; unfold Gen.SO3_Rx; simp only []
    rw [hH.cos_eq θ, hH.sin_eq θ]
    congr 1
    apply Mat.ext33' <;> simp [Spec.q2r] <;> first | ring1 | linear_combination h1 | linear_combination -h1 | linear_combination 2 * h1 | linear_combination (-2) * h1
  · unfold Gen.SO3_Rx Gen.rotx_rad; rfl

/-! ### embedding SO3 → SE3 -/

/-- SE3.SO3(X) is the homogeneous matrix [R 0; 0 1]; it is a homomorphism and preserves the action on points -/
theorem embed_SO3_value (A : Mat 3 3 R) (T : Mat 4 4 R) (h : Gen.SE3_from_SO3 P A = .ok T) : T = rt3 A zero3 := by
  unfold Gen.SE3_from_SO3 at h; simp only [] at h
  split_ifs at h <;> cases h
  apply Mat.ext44' <;> simp [rt3, zero3]

theorem embed_SO3_hom (A B : Mat 3 3 R) : mmul (rt3 A zero3) (rt3 B zero3) = rt3 (mmul A B) (zero3 : Vec 3 R) := by
  rw [rt3_mul]; congr 1
  funext i; simp [mvec, zero3, Fin.sum_univ_three]

theorem embed_SO3_points (A : Mat 3 3 R) (p : Vec 3 R) : act3 (rt3 A zero3) p = mvec A p := by
  funext i; fin_cases i <;> simp [act3, rotOf3_rt3, trOf3_rt3, zero3]

end SmVerif.Props.C04
