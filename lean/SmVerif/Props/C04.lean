/-
  C04 — all representations of the same motion agree and conversions are homomorphisms.
  Proved: quaternion → matrix is a homomorphism on unit quaternions, maps conjugate to transpose and is blind to the
  overall sign; the class-level unit-quaternion product / inverse are the (re-normalised) Hamilton product / conjugate;
  `==` on unit quaternions ignores the overall sign; the Rx/Ry/Rz constructors of UnitQuaternion and of SO3/SE3 give the
  same rotation; the embedding SO3 → SE3 is a homomorphism preserving the action on points.
  `r2q` (all 40 branches) inverts `q2r` up to the overall sign on every unit quaternion (r2q_q2r).
  Explored (smv/props/c04.py, 1e-6): r2q on matrices that are not exactly q2r of a unit quaternion, twist and dual-quaternion routes,
  RPY / Eul / AngVec / OA constructors of UnitQuaternion (they go through r2q), expression trees.
-/
import SmVerif.Bridge.Quat
import SmVerif.Bridge.Rot
import SmVerif.Bridge.Poses
import SmVerif.Gen.Quats
import SmVerif.Spec.PrimLaws
import SmVerif.Spec.Rodrigues
import SmVerif.Props.C14
import Mathlib.Tactic.NormNum
import Mathlib.Tactic.Linarith
import Mathlib.Tactic.LinearCombination
import Mathlib.Tactic.FieldSimp

namespace SmVerif.Props.C04
open SmVerif SmVerif.Spec SmVerif.Bridge
set_option linter.unusedSectionVars false
set_option linter.unusedTactic false
set_option linter.unreachableTactic false
set_option maxHeartbeats 1000000
variable {R : Type} [Field R] [LinearOrder R] [IsStrictOrderedRing R] (P : Prims R)

/-! ### quaternion → rotation matrix -/

/-- q2r(a*b) = q2r(a) q2r(b) for unit quaternions -/
theorem q2r_hom (a b ab : Vec 4 R) (ha : qnormsq a = 1) (hb : qnormsq b = 1) (h : Gen.qqmul P a b = .ok ab)
    (A B : Mat 3 3 R) (hA : Gen.q2r P a = .ok A) (hB : Gen.q2r P b = .ok B) : Gen.q2r P ab = .ok (mmul A B) := by
  rw [Bridge.qqmul] at h; rw [Bridge.q2r] at hA hB; cases h; cases hA; cases hB
  rw [Bridge.q2r, q2r_mul a b ha hb]

/-- q2r(conj q) = q2r(q)ᵀ, i.e. conversion commutes with inversion -/
theorem q2r_inv (a ca : Vec 4 R) (h : Gen.qconj P a = .ok ca) (A : Mat 3 3 R) (hA : Gen.q2r P a = .ok A) :
    Gen.q2r P ca = .ok (mT A) := by
  rw [Bridge.qconj] at h; rw [Bridge.q2r] at hA; cases h; cases hA
  rw [Bridge.q2r, q2r_conj]

/-- q and −q are the same rotation -/
theorem q2r_double_cover (a : Vec 4 R) : Gen.q2r P (fun i => -(a i)) = Gen.q2r P a := by
  rw [Bridge.q2r, Bridge.q2r, q2r_neg]

/-- UnitQuaternion.R is q2r -/
theorem UQ_R_eq (q : Vec 4 R) : Gen.UQ_R P q = Gen.q2r P q := by
  unfold Gen.UQ_R Gen.q2r; rfl

/-- class `==` on unit quaternions: q == −q, and q == q -/
theorem UQ_eq_sign_blind (q : Vec 4 R) : Gen.UQ_eq P q (fun i => -(q i)) = .ok true ∧ Gen.UQ_eq P q q = .ok true := by
  have z : (0 : R) < 25 / 1125899906842624 := by norm_num
  constructor
  · unfold Gen.UQ_eq
    split_ifs with h1 h2
    · rfl
    · rfl
    · exfalso; apply h2; simp
  · unfold Gen.UQ_eq
    split_ifs with h1 h2
    · rfl
    · rfl
    · exfalso; apply h1; simp

/-! ### class-level unit quaternion operations -/

/-- UnitQuaternion * UnitQuaternion returns the Hamilton product (re-normalised: a positive multiple) -/
theorem UQ_mul_value (hS : P.Sqrt) (q p r : Vec 4 R) (h : Gen.UQ_mul P q p = .ok r) :
    ∃ k : R, 0 < k ∧ ∀ i, r i * k = qmul q p i := by
  unfold Gen.UQ_mul at h; simp only [] at h
  generalize hn : P.sqrt _ = n at h
  have h0 : 0 ≤ n := by rw [← hn]; exact hS.nonneg _
  split_ifs at h with h1 h2 <;> cases h
  have hpos : 0 < n := by
    rcases lt_or_eq_of_le h0 with hlt | heq
    · exact hlt
    · exfalso; apply h2; rw [← heq]; simp
  have hne : n ≠ 0 := ne_of_gt hpos
  refine ⟨n, hpos, ?_⟩
  intro i; fin_cases i <;> simp <;> field_simp <;> ring

/-! ### named constructors agree across classes -/

/-- double-angle laws for the half angle θ/2 -/
structure HalfAngle (P : Prims R) : Prop where
  cos_eq : ∀ θ, P.cos θ = P.cos (θ / 2) * P.cos (θ / 2) - P.sin (θ / 2) * P.sin (θ / 2)
  sin_eq : ∀ θ, P.sin θ = 2 * P.sin (θ / 2) * P.cos (θ / 2)

/-- UnitQuaternion.Rx(θ) is (cos θ/2, sin θ/2, 0, 0) and its rotation matrix is SO3.Rx(θ) = rotx(θ) -/
theorem UQ_Rx_agrees (hT : P.Trig) (hS : P.Sqrt) (hH : HalfAngle P) (θ : R) :
    Gen.UQ_Rx P θ = .ok (v4 (P.cos (θ / 2)) (P.sin (θ / 2)) 0 0) ∧
    Gen.q2r P (v4 (P.cos (θ / 2)) (P.sin (θ / 2)) 0 0) = Gen.SO3_Rx P θ ∧ Gen.SO3_Rx P θ = Gen.rotx_rad P θ := by
  have h1 := hT (θ / 2)
  have s1 := Props.C14.sqrt_one P hS
  refine ⟨?_, ?_, ?_⟩
  · unfold Gen.UQ_Rx; simp only [h1, s1, abs_one, div_one, zero_div]
    have : ¬ ((1 : R) < 5 / 2251799813685248) := by norm_num
    simp only [this, if_false]
  · rw [Bridge.q2r]; unfold Gen.SO3_Rx; simp only []
    rw [hH.cos_eq θ, hH.sin_eq θ]
    congr 1
    apply Mat.ext33' <;> simp [Spec.q2r] <;> first | ring1 | linear_combination h1 | linear_combination -h1 | linear_combination 2 * h1 | linear_combination (-2) * h1
  · unfold Gen.SO3_Rx Gen.rotx_rad; rfl

/-! ### embedding SO3 → SE3 -/

/-- SE3.SO3(X) is the homogeneous matrix [R 0; 0 1]; it is a homomorphism and preserves the action on points -/
theorem embed_SO3_value (A : Mat 3 3 R) (T : Mat 4 4 R) (h : Gen.SE3_from_SO3 P A = .ok T) : T = rt3 A zero3 := by
  unfold Gen.SE3_from_SO3 at h; simp only [] at h
  split_ifs at h <;> cases h
  apply Mat.ext44' <;> simp [rt3, zero3]

theorem embed_SO3_hom (A B : Mat 3 3 R) : mmul (rt3 A zero3) (rt3 B zero3) = rt3 (mmul A B) (zero3 : Vec 3 R) := by
  rw [rt3_mul]; congr 1
  funext i; simp [mvec, zero3, Fin.sum_univ_three]

theorem embed_SO3_points (A : Mat 3 3 R) (p : Vec 3 R) : act3 (rt3 A zero3) p = mvec A p := by
  funext i; fin_cases i <;> simp [act3, rotOf3_rt3, trOf3_rt3, zero3]

/-! ### matrix → quaternion -/
set_option maxHeartbeats 4000000

theorem sqrt_unique0 (hS : P.Sqrt) (x r : R) (hx : 0 ≤ x) (hr : 0 ≤ r) (h : r * r = x) : P.sqrt x = r := by
  have h1 := hS.mul_self x hx; have h0 := hS.nonneg x
  have : (P.sqrt x - r) * (P.sqrt x + r) = 0 := by linear_combination h1 - h
  rcases mul_eq_zero.mp this with h2 | h2
  · linarith
  · linarith

/-- one leaf of r2q on the image of q2r (trace + 1 > 0 side): the computed quaternion is ±q -/
theorem r2q_leaf (hS : P.Sqrt) (s x y z c T K0 K1 K2 : R) (hn : s * s + x * x + y * y + z * z = 1)
    (hT : T = 4 * (s * s)) (h0 : K0 = c * x) (h1 : K1 = c * y) (h2 : K2 = c * z) (hcs : 0 ≤ c * s)
    (hnm : ¬ |P.sqrt (K0 * K0 + K1 * K1 + K2 * K2)| < (25 : R) / 1125899906842624) :
    v4 (P.sqrt T / 2) (P.sqrt (1 - (P.sqrt T / 2) ^ 2) / P.sqrt (K0 * K0 + K1 * K1 + K2 * K2) * K0)
       (P.sqrt (1 - (P.sqrt T / 2) ^ 2) / P.sqrt (K0 * K0 + K1 * K1 + K2 * K2) * K1)
       (P.sqrt (1 - (P.sqrt T / 2) ^ 2) / P.sqrt (K0 * K0 + K1 * K1 + K2 * K2) * K2) = v4 s x y z ∨
    v4 (P.sqrt T / 2) (P.sqrt (1 - (P.sqrt T / 2) ^ 2) / P.sqrt (K0 * K0 + K1 * K1 + K2 * K2) * K0)
       (P.sqrt (1 - (P.sqrt T / 2) ^ 2) / P.sqrt (K0 * K0 + K1 * K1 + K2 * K2) * K1)
       (P.sqrt (1 - (P.sqrt T / 2) ^ 2) / P.sqrt (K0 * K0 + K1 * K1 + K2 * K2) * K2) = v4 (-s) (-x) (-y) (-z) := by
  set V := x * x + y * y + z * z with hV
  have hV0 : 0 ≤ V := by rw [hV]; exact add_nonneg (add_nonneg (mul_self_nonneg _) (mul_self_nonneg _)) (mul_self_nonneg _)
  have hKK : K0 * K0 + K1 * K1 + K2 * K2 = (c * c) * V := by rw [h0, h1, h2, hV]; ring
  rw [hKK] at hnm ⊢
  have hnn := hS.nonneg ((c * c) * V)
  have hpos : 0 < P.sqrt ((c * c) * V) := by
    rw [abs_of_nonneg hnn] at hnm; rw [not_lt] at hnm
    exact lt_of_lt_of_le (by norm_num) hnm
  have hcV : 0 ≤ (c * c) * V := mul_nonneg (mul_self_nonneg c) hV0
  have hsq := hS.mul_self _ hcV
  have hcVne : (c * c) * V ≠ 0 := by
    intro h; rw [h] at hsq hpos; have := mul_self_eq_zero.mp hsq; linarith
  have hc : c ≠ 0 := by intro h; apply hcVne; rw [h]; ring
  have hVne : V ≠ 0 := by intro h; apply hcVne; rw [h]; ring
  have hVpos : 0 < V := lt_of_le_of_ne hV0 (Ne.symm hVne)
  set w := P.sqrt V with hw
  have hw0 := hS.nonneg V
  have hww := hS.mul_self V hV0
  have hwpos : 0 < w := by
    rcases (lt_or_eq_of_le hw0) with h | h
    · exact h
    · exfalso; rw [← h] at hww; apply hVne; linarith
  have hnmv : P.sqrt ((c * c) * V) = |c| * w := by
    apply sqrt_unique0 P hS _ _ hcV (mul_nonneg (abs_nonneg c) hw0)
    have : |c| * |c| = c * c := abs_mul_abs_self c
    linear_combination (w * w) * this + (c * c) * hww
  have hqs : P.sqrt T = 2 * |s| := by
    apply sqrt_unique0 P hS _ _ (by rw [hT]; exact mul_nonneg (by norm_num) (mul_self_nonneg s)) (mul_nonneg (by norm_num) (abs_nonneg s))
    have : |s| * |s| = s * s := abs_mul_abs_self s
    rw [hT]; linear_combination 4 * this
  have h1s : (1 : R) - (P.sqrt T / 2) ^ 2 = V := by
    have : |s| * |s| = s * s := abs_mul_abs_self s
    rw [hqs, hV]; linear_combination (-1 : R) * hn - this
  rw [h1s, hnmv, hqs, h0, h1, h2]
  have hwne : w ≠ 0 := ne_of_gt hwpos
  rcases lt_or_gt_of_ne hc with hcn | hcp
  · right
    have hs : s ≤ 0 := by
      by_contra h; rw [not_le] at h; have := mul_neg_of_neg_of_pos hcn h; linarith
    rw [abs_of_neg hcn, abs_of_nonpos hs]
    have e : ∀ t : R, w / (-c * w) * (c * t) = -t := by intro t; field_simp
    rw [e, e, e]; congr 1; ring
  · left
    have hs : 0 ≤ s := by
      by_contra h; rw [not_le] at h; have := mul_neg_of_pos_of_neg hcp h; linarith
    rw [abs_of_pos hcp, abs_of_nonneg hs]
    have e : ∀ t : R, w / (c * w) * (c * t) = t := by intro t; field_simp
    rw [e, e, e]; congr 1; ring

/-- one leaf of r2q on the image of q2r when trace + 1 ≤ 0 (a half turn, s = 0) -/
theorem r2q_leaf0 (hS : P.Sqrt) (s x y z c T K0 K1 K2 : R) (hn : s * s + x * x + y * y + z * z = 1)
    (hT : T = 4 * (s * s)) (hT0 : ¬ T > 0) (h0 : K0 = c * x) (h1 : K1 = c * y) (h2 : K2 = c * z)
    (hnm : ¬ |P.sqrt (K0 * K0 + K1 * K1 + K2 * K2)| < (25 : R) / 1125899906842624) :
    v4 (0 : R) (1 / P.sqrt (K0 * K0 + K1 * K1 + K2 * K2) * K0) (1 / P.sqrt (K0 * K0 + K1 * K1 + K2 * K2) * K1)
       (1 / P.sqrt (K0 * K0 + K1 * K1 + K2 * K2) * K2) = v4 s x y z ∨
    v4 (0 : R) (1 / P.sqrt (K0 * K0 + K1 * K1 + K2 * K2) * K0) (1 / P.sqrt (K0 * K0 + K1 * K1 + K2 * K2) * K1)
       (1 / P.sqrt (K0 * K0 + K1 * K1 + K2 * K2) * K2) = v4 (-s) (-x) (-y) (-z) := by
  have hs : s = 0 := by
    rw [hT, gt_iff_lt, not_lt] at hT0
    have := mul_self_nonneg s
    exact mul_self_eq_zero.mp (by linarith)
  subst hs
  have hV : x * x + y * y + z * z = 1 := by linear_combination hn
  have hKK : K0 * K0 + K1 * K1 + K2 * K2 = c * c := by rw [h0, h1, h2]; linear_combination (c * c) * hV
  rw [hKK] at hnm ⊢
  have hnmv : P.sqrt (c * c) = |c| := sqrt_unique0 P hS _ _ (mul_self_nonneg c) (abs_nonneg c) (abs_mul_abs_self c)
  rw [hnmv] at hnm ⊢
  have hc : c ≠ 0 := by
    intro h; apply hnm; rw [h]; simp
  rw [h0, h1, h2]
  rcases lt_or_gt_of_ne hc with hcn | hcp
  · right; rw [abs_of_neg hcn]
    have e : ∀ t : R, 1 / (-c) * (c * t) = -t := by intro t; field_simp
    rw [e, e, e]; congr 1; ring
  · left; rw [abs_of_pos hcp]
    have e : ∀ t : R, 1 / c * (c * t) = t := by intro t; field_simp
    rw [e, e, e]


/-- when r2q takes its near-identity short cut the vector part is tiny: 16·|v|⁴ < 3·tol² -/
theorem r2q_shortcut_leaf (hS : P.Sqrt) (x y z c t K0 K1 K2 : R)
    (h0 : K0 = c * x) (h1 : K1 = c * y) (h2 : K2 = c * z) (hc : 16 * (t * t) ≤ c * c) (ht : x * x + y * y + z * z ≤ 3 * (t * t))
    (hnm : |P.sqrt (K0 * K0 + K1 * K1 + K2 * K2)| < (25 : R) / 1125899906842624) :
    16 * ((x * x + y * y + z * z) * (x * x + y * y + z * z)) < 3 * ((25 : R) / 1125899906842624) ^ 2 := by
  set V := x * x + y * y + z * z with hV
  have hV0 : 0 ≤ V := by rw [hV]; exact add_nonneg (add_nonneg (mul_self_nonneg _) (mul_self_nonneg _)) (mul_self_nonneg _)
  have hKK : K0 * K0 + K1 * K1 + K2 * K2 = (c * c) * V := by rw [h0, h1, h2, hV]; ring
  rw [hKK] at hnm
  have hnn := hS.nonneg ((c * c) * V)
  rw [abs_of_nonneg hnn] at hnm
  have hcV : 0 ≤ (c * c) * V := mul_nonneg (mul_self_nonneg c) hV0
  have hsq := hS.mul_self _ hcV
  have h3 : (c * c) * V < ((25 : R) / 1125899906842624) ^ 2 := by
    rw [← hsq, sq]; exact mul_self_lt_mul_self hnn hnm
  have h4 : 16 * (V * V) ≤ 3 * ((c * c) * V) := by
    have a1 : 16 * (t * t) * V ≤ (c * c) * V := mul_le_mul_of_nonneg_right hc hV0
    have a2 : V * V ≤ 3 * (t * t) * V := mul_le_mul_of_nonneg_right ht hV0
    linarith
  linarith

/-- r2q on a matrix whose entries are those of q2r(s, x, y, z) for a unit quaternion returns ±(s, x, y, z);
    the identity quaternion is returned instead only when the near-identity short cut is taken, and then the
    vector part is below the tolerance: 16·|v|⁴ < 3·tol² -/
theorem r2q_of_q2r_entries (hS : P.Sqrt) (s x y z : R) (hn : s * s + x * x + y * y + z * z = 1) (m : Mat 3 3 R)
    (e00 : m 0 0 = 1 - 2 * (y ^ 2 + z ^ 2)) (e01 : m 0 1 = 2 * (x * y - s * z)) (e02 : m 0 2 = 2 * (x * z + s * y))
    (e10 : m 1 0 = 2 * (x * y + s * z)) (e11 : m 1 1 = 1 - 2 * (x ^ 2 + z ^ 2)) (e12 : m 1 2 = 2 * (y * z - s * x))
    (e20 : m 2 0 = 2 * (x * z - s * y)) (e21 : m 2 1 = 2 * (y * z + s * x)) (e22 : m 2 2 = 1 - 2 * (x ^ 2 + y ^ 2))
    (q' : Vec 4 R) (h : Gen.r2q P m = .ok q') :
    q' = v4 s x y z ∨ q' = v4 (-s) (-x) (-y) (-z) ∨
    (q' = v4 1 0 0 0 ∧ 16 * ((x * x + y * y + z * z) * (x * x + y * y + z * z)) < 3 * ((25 : R) / 1125899906842624) ^ 2) := by
  have wrap : ∀ v : Vec 4 R, (v = v4 s x y z ∨ v = v4 (-s) (-x) (-y) (-z)) →
      (v = v4 s x y z ∨ v = v4 (-s) (-x) (-y) (-z) ∨
       (v = v4 1 0 0 0 ∧ 16 * ((x * x + y * y + z * z) * (x * x + y * y + z * z)) < 3 * ((25 : R) / 1125899906842624) ^ 2)) := by
    intro v hv; rcases hv with h | h
    · exact Or.inl h
    · exact Or.inr (Or.inl h)
  unfold Gen.r2q at h; simp only [] at h
  split_ifs at h with c1 c2 c3 c4 c5 c6 c7 c8 c9 <;> cases h
  all_goals simp only [e00, e01, e02, e10, e11, e12, e20, e21, e22] at *
  all_goals first
    | (refine Or.inr (Or.inr ⟨trivial, r2q_shortcut_leaf P hS x y z (4 * (s + x)) x _ _ _ ?_ ?_ ?_ ?_ ?_ (by assumption)⟩) <;> (first | ring1 | linarith | nlinarith [mul_self_nonneg s]))
    | (refine Or.inr (Or.inr ⟨trivial, r2q_shortcut_leaf P hS x y z (4 * (s - x)) x _ _ _ ?_ ?_ ?_ ?_ ?_ (by assumption)⟩) <;> (first | ring1 | linarith | nlinarith [mul_self_nonneg s]))
    | (refine Or.inr (Or.inr ⟨trivial, r2q_shortcut_leaf P hS x y z (4 * (s + y)) y _ _ _ ?_ ?_ ?_ ?_ ?_ (by assumption)⟩) <;> (first | ring1 | linarith | nlinarith [mul_self_nonneg s]))
    | (refine Or.inr (Or.inr ⟨trivial, r2q_shortcut_leaf P hS x y z (4 * (s - y)) y _ _ _ ?_ ?_ ?_ ?_ ?_ (by assumption)⟩) <;> (first | ring1 | linarith | nlinarith [mul_self_nonneg s]))
    | (refine Or.inr (Or.inr ⟨trivial, r2q_shortcut_leaf P hS x y z (4 * (s + z)) z _ _ _ ?_ ?_ ?_ ?_ ?_ (by assumption)⟩) <;> (first | ring1 | linarith | nlinarith [mul_self_nonneg s]))
    | (refine Or.inr (Or.inr ⟨trivial, r2q_shortcut_leaf P hS x y z (4 * (s - z)) z _ _ _ ?_ ?_ ?_ ?_ ?_ (by assumption)⟩) <;> (first | ring1 | linarith | nlinarith [mul_self_nonneg s]))
    | (refine wrap _ (r2q_leaf P hS s x y z (4 * (s + x)) _ _ _ _ hn ?_ ?_ ?_ ?_ ?_ (by assumption)) <;> (first | ring1 | linear_combination (-4 : R) * hn | nlinarith [mul_self_nonneg s]))
    | (refine wrap _ (r2q_leaf P hS s x y z (4 * (s - x)) _ _ _ _ hn ?_ ?_ ?_ ?_ ?_ (by assumption)) <;> (first | ring1 | linear_combination (-4 : R) * hn | nlinarith [mul_self_nonneg s]))
    | (refine wrap _ (r2q_leaf P hS s x y z (4 * (s + y)) _ _ _ _ hn ?_ ?_ ?_ ?_ ?_ (by assumption)) <;> (first | ring1 | linear_combination (-4 : R) * hn | nlinarith [mul_self_nonneg s]))
    | (refine wrap _ (r2q_leaf P hS s x y z (4 * (s - y)) _ _ _ _ hn ?_ ?_ ?_ ?_ ?_ (by assumption)) <;> (first | ring1 | linear_combination (-4 : R) * hn | nlinarith [mul_self_nonneg s]))
    | (refine wrap _ (r2q_leaf P hS s x y z (4 * (s + z)) _ _ _ _ hn ?_ ?_ ?_ ?_ ?_ (by assumption)) <;> (first | ring1 | linear_combination (-4 : R) * hn | nlinarith [mul_self_nonneg s]))
    | (refine wrap _ (r2q_leaf P hS s x y z (4 * (s - z)) _ _ _ _ hn ?_ ?_ ?_ ?_ ?_ (by assumption)) <;> (first | ring1 | linear_combination (-4 : R) * hn | nlinarith [mul_self_nonneg s]))
    | (refine wrap _ (r2q_leaf0 P hS s x y z (4 * (s + x)) _ _ _ _ hn ?_ (by assumption) ?_ ?_ ?_ (by assumption)) <;> (first | ring1 | linear_combination (-4 : R) * hn | nlinarith [mul_self_nonneg s]))
    | (refine wrap _ (r2q_leaf0 P hS s x y z (4 * (s - x)) _ _ _ _ hn ?_ (by assumption) ?_ ?_ ?_ (by assumption)) <;> (first | ring1 | linear_combination (-4 : R) * hn | nlinarith [mul_self_nonneg s]))
    | (refine wrap _ (r2q_leaf0 P hS s x y z (4 * (s + y)) _ _ _ _ hn ?_ (by assumption) ?_ ?_ ?_ (by assumption)) <;> (first | ring1 | linear_combination (-4 : R) * hn | nlinarith [mul_self_nonneg s]))
    | (refine wrap _ (r2q_leaf0 P hS s x y z (4 * (s - y)) _ _ _ _ hn ?_ (by assumption) ?_ ?_ ?_ (by assumption)) <;> (first | ring1 | linear_combination (-4 : R) * hn | nlinarith [mul_self_nonneg s]))
    | (refine wrap _ (r2q_leaf0 P hS s x y z (4 * (s + z)) _ _ _ _ hn ?_ (by assumption) ?_ ?_ ?_ (by assumption)) <;> (first | ring1 | linear_combination (-4 : R) * hn | nlinarith [mul_self_nonneg s]))
    | (refine wrap _ (r2q_leaf0 P hS s x y z (4 * (s - z)) _ _ _ _ hn ?_ (by assumption) ?_ ?_ ?_ (by assumption)) <;> (first | ring1 | linear_combination (-4 : R) * hn | nlinarith [mul_self_nonneg s]))

/-- **matrix → quaternion inverts quaternion → matrix up to the overall sign**: for every unit quaternion q,
    r2q(q2r(q)) is q or −q (the same rotation); the identity quaternion is returned instead only when the vector
    part of q is below r2q's near-identity tolerance -/
theorem r2q_q2r (hS : P.Sqrt) (q : Vec 4 R) (hn : qnormsq q = 1) (A : Mat 3 3 R) (hA : Gen.q2r P q = .ok A)
    (q' : Vec 4 R) (h : Gen.r2q P A = .ok q') :
    q' = q ∨ q' = (fun i => -(q i)) ∨
    (q' = v4 1 0 0 0 ∧ 16 * ((q 1 * q 1 + q 2 * q 2 + q 3 * q 3) * (q 1 * q 1 + q 2 * q 2 + q 3 * q 3)) < 3 * ((25 : R) / 1125899906842624) ^ 2) := by
  unfold Gen.q2r at hA; simp only [] at hA; cases hA
  have e1 : q = v4 (q 0) (q 1) (q 2) (q 3) := by funext i; fin_cases i <;> rfl
  have e2 : (fun i => -(q i)) = v4 (-(q 0)) (-(q 1)) (-(q 2)) (-(q 3)) := by funext i; fin_cases i <;> rfl
  rw [e2]; nth_rewrite 1 [e1]
  refine r2q_of_q2r_entries P hS (q 0) (q 1) (q 2) (q 3) (by unfold qnormsq at hn; linear_combination hn) _
    ?_ ?_ ?_ ?_ ?_ ?_ ?_ ?_ ?_ q' h <;> simp <;> ring
/-! ### rotation-vector constructors agree across classes -/

/-- the quaternion (cos h, sin h · u) maps to Rodrigues' matrix about u with cos θ = cos²h − sin²h, sin θ = 2 sin h cos h -/
theorem q2r_axis_angle (u : Vec 3 R) (ch sh c s : R) (hcs : ch * ch + sh * sh = 1) (hc : c = ch * ch - sh * sh) (hs : s = 2 * sh * ch) :
    Spec.q2r (v4 ch (sh * u 0) (sh * u 1) (sh * u 2)) = rodM u c s := by
  subst hc; subst hs
  apply Mat.ext33' <;> simp [Spec.q2r, rodM, mmul, skew3, one3, Fin.sum_univ_three] <;>
    first | ring1 | linear_combination (u 1 * u 1 + u 2 * u 2) * hcs | linear_combination (u 0 * u 0 + u 2 * u 2) * hcs
          | linear_combination (u 0 * u 0 + u 1 * u 1) * hcs | linear_combination (-(u 1 * u 1 + u 2 * u 2)) * hcs
          | linear_combination (-(u 0 * u 0 + u 2 * u 2)) * hcs | linear_combination (-(u 0 * u 0 + u 1 * u 1)) * hcs
          | linear_combination (u 0 * u 1) * hcs | linear_combination (u 0 * u 2) * hcs | linear_combination (u 1 * u 2) * hcs
          | linear_combination (-(u 0 * u 1)) * hcs | linear_combination (-(u 0 * u 2)) * hcs | linear_combination (-(u 1 * u 2)) * hcs

/-- **UnitQuaternion.EulerVec(w) and SO3.EulerVec(w) are the same rotation** for every rotation vector w
    (both are the identity below the zero threshold) -/
theorem UQ_EulerVec_agrees (hT : P.Trig) (hS : P.Sqrt) (hH : HalfAngle P) (w : Vec 3 R) (q : Vec 4 R)
    (h : Gen.UQ_EulerVec P w = .ok q) : Gen.q2r P q = Gen.SO3_EulerVec P w := by
  unfold Gen.UQ_EulerVec at h; unfold Gen.SO3_EulerVec; simp only [] at h ⊢
  set n := P.sqrt (w 0 * w 0 + w 1 * w 1 + w 2 * w 2) with hn
  by_cases h1 : n < (5 : R) / 2251799813685248
  · rw [if_pos h1] at h ⊢; cases h
    rw [Bridge.q2r]; congr 1; apply Mat.ext33' <;> simp [Spec.q2r]
  · rw [if_neg h1] at h ⊢
    have hpos : 0 < n := lt_of_lt_of_le (by norm_num) (not_lt.mp h1)
    have hne : n ≠ 0 := ne_of_gt hpos
    have hnn : n * n = w 0 * w 0 + w 1 * w 1 + w 2 * w 2 :=
      hS.mul_self _ (add_nonneg (add_nonneg (mul_self_nonneg _) (mul_self_nonneg _)) (mul_self_nonneg _))
    have htr := hT (n / 2)
    have hone : P.cos (n / 2) * P.cos (n / 2) + P.sin (n / 2) * w 0 / n * (P.sin (n / 2) * w 0 / n) +
        P.sin (n / 2) * w 1 / n * (P.sin (n / 2) * w 1 / n) + P.sin (n / 2) * w 2 / n * (P.sin (n / 2) * w 2 / n) = 1 := by
      field_simp
      linear_combination (n * n) * htr - (P.sin (n / 2)) ^ 2 * hnn
    rw [hone, Props.C14.sqrt_one P hS] at h
    have : ¬ (|(1 : R)| < 5 / 2251799813685248) := by rw [abs_one]; norm_num
    rw [if_neg this] at h; cases h
    rw [Bridge.q2r]
    have e : (v4 (P.cos (n / 2) / 1) (P.sin (n / 2) * w 0 / n / 1) (P.sin (n / 2) * w 1 / n / 1) (P.sin (n / 2) * w 2 / n / 1) : Vec 4 R)
        = v4 (P.cos (n / 2)) (P.sin (n / 2) * (fun i => w i / n) 0) (P.sin (n / 2) * (fun i => w i / n) 1) (P.sin (n / 2) * (fun i => w i / n) 2) := by
      funext i; fin_cases i <;> simp <;> ring
    rw [e, q2r_axis_angle (fun i => w i / n) (P.cos (n / 2)) (P.sin (n / 2)) (P.cos n) (P.sin n) htr (hH.cos_eq n) (hH.sin_eq n)]
    congr 1
    apply Mat.ext33' <;> simp [rodM, mmul, skew3, one3, Fin.sum_univ_three] <;> ring

/-- **UnitQuaternion.AngVec(θ, v) and angvec2r(θ, v) (SO3.AngVec) are the same rotation** whenever the quaternion
    constructor returns a value (any axis length; both are the identity for an axis below the zero threshold) -/
theorem UQ_AngVec_agrees (hT : P.Trig) (hH : HalfAngle P) (th : R) (v : Vec 3 R) (q : Vec 4 R)
    (h : Gen.UQ_AngVec P th v = .ok q) : Gen.q2r P q = Gen.angvec2r P th v := by
  unfold Gen.UQ_AngVec at h; unfold Gen.angvec2r; simp only [] at h ⊢
  set n := P.sqrt (v 0 * v 0 + v 1 * v 1 + v 2 * v 2) with hn
  by_cases h1 : n < (5 : R) / 2251799813685248
  · rw [if_pos h1] at h ⊢; cases h
    rw [Bridge.q2r]; congr 1; apply Mat.ext33' <;> simp [Spec.q2r]
  · rw [if_neg h1] at h ⊢
    split_ifs at h with h2
    cases h
    have htr := hT (th / 2)
    rw [Bridge.q2r]
    have e : (v4 (P.cos (th / 2)) (P.sin (th / 2) * (v 0 / n)) (P.sin (th / 2) * (v 1 / n)) (P.sin (th / 2) * (v 2 / n)) : Vec 4 R)
        = v4 (P.cos (th / 2)) (P.sin (th / 2) * (fun i => v i / n) 0) (P.sin (th / 2) * (fun i => v i / n) 1) (P.sin (th / 2) * (fun i => v i / n) 2) := rfl
    rw [e, q2r_axis_angle (fun i => v i / n) (P.cos (th / 2)) (P.sin (th / 2)) (P.cos th) (P.sin th) htr (hH.cos_eq th) (hH.sin_eq th)]
    congr 1
    apply Mat.ext33' <;> simp [rodM, mmul, skew3, one3, Fin.sum_univ_three] <;> ring
end SmVerif.Props.C04
