/-
  Twist class operations not covered in C18 proper: accessors, the prismatic predicates, the logarithm of the adjoint
  `ad`, scalar multiples and `Twist3.unit` (positive rescaling to a unit rotational part, or to a unit translational part
  when the twist is irrotational; the zero twist is returned unchanged).
-/
import SmVerif.Tactics
import SmVerif.Spec.PrimLaws
import SmVerif.Gen.Twists
import Mathlib.Tactic.Linarith
import Mathlib.Tactic.Positivity

namespace SmVerif.Props.TwistOps
open SmVerif
set_option linter.unusedSectionVars false
set_option linter.unusedSimpArgs false
variable {R : Type} [Field R] [LinearOrder R] [IsStrictOrderedRing R] (P : Prims R)

def tol10 : R := 5 / 2251799813685248

theorem Twist3_v (S : Vec 6 R) : Gen.Twist3_v P S = .ok (v3 (S 0) (S 1) (S 2)) := by unfold Gen.Twist3_v; rfl
theorem Twist3_w (S : Vec 6 R) : Gen.Twist3_w P S = .ok (v3 (S 3) (S 4) (S 5)) := by unfold Gen.Twist3_w; rfl
theorem Twist3_isprismatic (S : Vec 6 R) :
    Gen.Twist3_isprismatic P S = .ok (decide (P.sqrt (S 3 * S 3 + S 4 * S 4 + S 5 * S 5) < tol10)) := by
  unfold Gen.Twist3_isprismatic tol10; simp only []; split_ifs with h <;> simp [h]
theorem Twist2_isprismatic (S : Vec 3 R) : Gen.Twist2_isprismatic P S = .ok (decide (P.sqrt (S 2 * S 2) < tol10)) := by
  unfold Gen.Twist2_isprismatic tol10; simp only []; split_ifs with h <;> simp [h]
theorem Twist3_rmul_scalar (S : Vec 6 R) (k : R) (U : Vec 6 R) (h : Gen.Twist3_rmul_scalar P S k = .ok U) : ∀ i, U i = S i * k := by
  unfold Gen.Twist3_rmul_scalar at h; cases h; intro i; fin_cases i <;> simp

/-- ad(S) = [[skew w, skew v], [0, skew w]] -/
theorem Twist3_ad (S : Vec 6 R) (M : Mat 6 6 R) (h : Gen.Twist3_ad P S = .ok M) :
    (∀ i j : Fin 3, M (Fin.castAdd 3 i) (Fin.castAdd 3 j) = skew3 (v3 (S 3) (S 4) (S 5)) i j) ∧
    (∀ i j : Fin 3, M (Fin.castAdd 3 i) (Fin.natAdd 3 j) = skew3 (v3 (S 0) (S 1) (S 2)) i j) ∧
    (∀ i j : Fin 3, M (Fin.natAdd 3 i) (Fin.castAdd 3 j) = 0) ∧
    (∀ i j : Fin 3, M (Fin.natAdd 3 i) (Fin.natAdd 3 j) = skew3 (v3 (S 3) (S 4) (S 5)) i j) := by
  unfold Gen.Twist3_ad at h; simp only [] at h; cases h
  refine ⟨?_, ?_, ?_, ?_⟩ <;> intro i j <;> fin_cases i <;> fin_cases j <;> simp [skew3] <;> rfl

/-- Twist2.Prismatic(a): unit translational direction, no rotation; a zero direction is rejected -/
theorem Twist2_Prismatic (hs : P.Sqrt) (a : Vec 2 R) (U : Vec 3 R) (h : Gen.Twist2_Prismatic P a = .ok U) :
    U 2 = 0 ∧ U 0 * U 0 + U 1 * U 1 = 1 ∧ ∃ k : R, 0 < k ∧ U 0 * k = a 0 ∧ U 1 * k = a 1 := by
  unfold Gen.Twist2_Prismatic at h; simp only [] at h
  have hn := hs.mul_self _ (add_nonneg (mul_self_nonneg (a 0)) (mul_self_nonneg (a 1)))
  generalize P.sqrt (a 0 * a 0 + a 1 * a 1) = n at *
  split_ifs at h with hpos
  cases h
  have npos : 0 < n := lt_trans (by positivity) hpos
  refine ⟨by simp, ?_, n, npos, ?_, ?_⟩
  · simp only [v3_0, v3_1]; field_simp; linarith [hn]
  · simp only [v3_0]; field_simp
  · simp only [v3_1]; field_simp

/-- Twist3.unit: the zero twist stays zero; otherwise a positive rescaling with unit rotational part, or — when the
rotational part is below the zero threshold — unit translational part -/
theorem Twist3_unit (hs : P.Sqrt) (S U : Vec 6 R) (h : Gen.Twist3_unit P S = .ok U) :
    (∀ i, U i = 0) ∨
    ((U 3 * U 3 + U 4 * U 4 + U 5 * U 5 = 1 ∨
       (P.sqrt (S 3 * S 3 + S 4 * S 4 + S 5 * S 5) < tol10 ∧ U 0 * U 0 + U 1 * U 1 + U 2 * U 2 = 1)) ∧
     ∃ k : R, 0 < k ∧ ∀ i, U i * k = S i) := by
  unfold Gen.Twist3_unit at h; simp only [] at h
  have nn3 (a b c : R) : 0 ≤ a * a + b * b + c * c := add_nonneg (add_nonneg (mul_self_nonneg _) (mul_self_nonneg _)) (mul_self_nonneg _)
  have hv := hs.mul_self _ (nn3 (S 0) (S 1) (S 2))
  have hw := hs.mul_self _ (nn3 (S 3) (S 4) (S 5))
  have hv0 := hs.nonneg (S 0 * S 0 + S 1 * S 1 + S 2 * S 2)
  have hw0 := hs.nonneg (S 3 * S 3 + S 4 * S 4 + S 5 * S 5)
  split_ifs at h with h1 h2 <;> cases h
  · left; intro i; fin_cases i <;> simp
  · -- irrotational: divide by |v| > 0
    right
    have hall := hs.mul_self (S 0 * S 0 + S 1 * S 1 + S 2 * S 2 + S 3 * S 3 + S 4 * S 4 + S 5 * S 5)
      (by nlinarith [mul_self_nonneg (S 0), mul_self_nonneg (S 1), mul_self_nonneg (S 2), mul_self_nonneg (S 3), mul_self_nonneg (S 4), mul_self_nonneg (S 5)])
    have pos : 0 < P.sqrt (S 0 * S 0 + S 1 * S 1 + S 2 * S 2) := by
      rcases lt_or_eq_of_le hv0 with hlt | heq
      · exact hlt
      · exfalso
        -- |v| = 0 and |w| < tol  ⇒  the whole norm is below tol, contradicting ¬h1
        have v0 : S 0 * S 0 + S 1 * S 1 + S 2 * S 2 = 0 := by rw [← hv, ← heq]; ring
        apply h1
        have e : S 0 * S 0 + S 1 * S 1 + S 2 * S 2 + S 3 * S 3 + S 4 * S 4 + S 5 * S 5 = S 3 * S 3 + S 4 * S 4 + S 5 * S 5 := by linarith
        rw [e]; exact h2
    generalize P.sqrt (S 0 * S 0 + S 1 * S 1 + S 2 * S 2) = n at *
    refine ⟨Or.inr ⟨h2, ?_⟩, n, pos, ?_⟩
    · simp only [v6_0, v6_1, v6_2]; field_simp; linarith [hv]
    · intro i; fin_cases i <;> simp <;> field_simp
  · right
    have pos : 0 < P.sqrt (S 3 * S 3 + S 4 * S 4 + S 5 * S 5) := lt_of_lt_of_le (by positivity) (not_lt.mp h2)
    generalize P.sqrt (S 3 * S 3 + S 4 * S 4 + S 5 * S 5) = n at *
    refine ⟨Or.inl ?_, n, pos, ?_⟩
    · simp only [v6_3, v6_4, v6_5]; field_simp; linarith [hw]
    · intro i; fin_cases i <;> simp <;> field_simp

end SmVerif.Props.TwistOps
