/-
  C15 — argument forms and units are interchangeable.
  (1) the shape logic of `getvector` / `isvector` (Logic.ArgCheck) treats list, tuple, 1-D array, row and column forms of
  an n-vector identically and rejects every other length when a length is required; tied to the real functions by the
  enumeration over forms × lengths 0..8 in smv/props/c15.py.
  (2) separate-scalar and packed-vector call forms, and unit='deg' vs 'rad', are equalities between generated
  configurations (see also Props/C05).
-/
import SmVerif.Logic.ArgCheck
import SmVerif.Bridge.Rot
import SmVerif.Gen.Poses

namespace SmVerif.Props.C15
open SmVerif SmVerif.Logic SmVerif.Bridge

/-- all five container forms of an n-vector are accepted with the same result when n is the required length (or no
length is required) … -/
theorem forms_agree (n : Nat) (dim : Option Nat) (h : dim = none ∨ dim = some n) :
    ∀ f ∈ Form.vectorForms n, getvector f dim = .ok n := by
  intro f hf
  simp only [Form.vectorForms, List.mem_cons, List.mem_nil_iff, or_false] at hf
  rcases h with rfl | rfl <;> rcases hf with rfl | rfl | rfl | rfl | rfl <;> simp [getvector]

/-- … and a vector of any other length is rejected with ValueError in every form (never truncated, padded or None) -/
theorem wrong_length_rejected (n d : Nat) (hne : n ≠ d) (hd : 1 < d ∨ 1 < n ∨ n = 0) :
    ∀ f ∈ Form.vectorForms n, getvector f (some d) = .valueError := by
  intro f hf
  simp only [Form.vectorForms, List.mem_cons, List.mem_nil_iff, or_false] at hf
  rcases hf with rfl | rfl | rfl | rfl | rfl <;> simp [getvector, hne] <;> omega

/-- isvector agrees: exactly the right length in every form -/
theorem isvector_forms (n d : Nat) (hd : 1 < d) : ∀ f ∈ Form.vectorForms n, isvector f (some d) = (n == d) := by
  intro f hf
  simp only [Form.vectorForms, List.mem_cons, List.mem_nil_iff, or_false] at hf
  rcases hf with rfl | rfl | rfl | rfl | rfl <;> simp [isvector] <;> omega

/-- something that is not a sequence, array or scalar is a TypeError -/
theorem other_rejected (dim : Option Nat) : getvector .other dim = .typeError := rfl

/-! ### call forms and units as equalities between generated configurations -/

variable {R : Type} [Field R] [LinearOrder R] [IsStrictOrderedRing R] (P : Prims R)

/-- transl(x, y, z) ≡ transl([x, y, z]);  SE3(x, y, z) ≡ SE3([x, y, z]);  SE2(x, y, θ) ≡ SE2([x, y, θ]) -/
theorem scalars_vs_packed (x y z : R) :
    Gen.transl_xyz P x y z = Gen.transl_v P (v3 x y z) ∧ Gen.SE3_ctor_xyz P x y z = Gen.SE3_ctor_vec P (v3 x y z) ∧
    Gen.SE2_ctor_xyt P x y z = Gen.SE2_ctor_vec P (v3 x y z) ∧ Gen.transl2_xy P x y = Gen.transl2_v P (v2 x y) := by
  refine ⟨?_, ?_, ?_, ?_⟩
  · unfold Gen.transl_xyz Gen.transl_v; rfl
  · unfold Gen.SE3_ctor_xyz Gen.SE3_ctor_vec; rfl
  · unfold Gen.SE2_ctor_xyt Gen.SE2_ctor_vec; rfl
  · unfold Gen.transl2_xy Gen.transl2_v; rfl

/-- unit='deg' with angle a ≡ unit='rad' with a·π/180, class constructors -/
theorem class_units (a : R) :
    Gen.SO3_Rx_deg P a = Gen.SO3_Rx P (a * P.pi / 180) ∧ Gen.SE3_Rx_deg P a = Gen.SE3_Rx P (a * P.pi / 180) ∧
    Gen.SO3_Ry_deg P a = Gen.SO3_Ry P (a * P.pi / 180) ∧ Gen.SO3_Rz_deg P a = Gen.SO3_Rz P (a * P.pi / 180) ∧
    Gen.UQ_Rx_deg P a = Gen.UQ_Rx P (a * P.pi / 180) ∧ Gen.SO2_ctor_deg P a = Gen.SO2_ctor P (a * P.pi / 180) := by
  refine ⟨?_, ?_, ?_, ?_, ?_, ?_⟩
  · unfold Gen.SO3_Rx_deg Gen.SO3_Rx; rfl
  · unfold Gen.SE3_Rx_deg Gen.SE3_Rx; rfl
  · unfold Gen.SO3_Ry_deg Gen.SO3_Ry; rfl
  · unfold Gen.SO3_Rz_deg Gen.SO3_Rz; rfl
  · unfold Gen.UQ_Rx_deg Gen.UQ_Rx; rfl
  · unfold Gen.SO2_ctor_deg Gen.SO2_ctor; rfl

/-- an undocumented axis order is rejected -/
theorem unknown_order (v : Vec 3 R) : Gen.rpy2r_badorder P v = .raised .ValueError := Bridge.rpy2r_badorder P v

end SmVerif.Props.C15
