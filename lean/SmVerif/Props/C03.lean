/-
  C03 — exponential and logarithm are correct and mutually inverse.
  Proved (exact arithmetic, any ordered field with the stated laws of sqrt/sin/cos/atan2):
   * trexp(3-vector) and trexp(6-vector) return the closed forms (Rodrigues / screw), which are group members;
   * the closed form is a one-parameter group in the angle (R(a+b) = R(a)R(b), R(0) = 1) — the characterisation of
     the exponential used here; identification with the power series is not proved (DESIGN.md §7);
   * exp(log R) = R on the general branch of the SO(3) logarithm (cos θ ≥ 0, sin θ > 0) and the logarithm there is
     θ·axis with a unit axis;
  Explored (smv/props/c03.py, 60-digit reference exponential): the branch cos θ < 0 (axis from the symmetric part), the
  SE(3) logarithm (G⁻¹), 2-D, thresholds, rounding.
-/
import SmVerif.Bridge.Exp
import SmVerif.Spec.ExpLog

namespace SmVerif.Props.C03
open SmVerif SmVerif.Spec SmVerif.Bridge
set_option linter.unusedSectionVars false
set_option linter.unusedTactic false
set_option linter.unreachableTactic false
set_option maxHeartbeats 1000000
variable {R : Type} [Field R] [LinearOrder R] [IsStrictOrderedRing R] (P : Prims R)

/-- on the unit circle with positive sine, atan2 inverts (cos, sin) -/
def Atan2Law (P : Prims R) : Prop :=
  ∀ y x : R, 0 < y → x * x + y * y = 1 → P.cos (P.atan2 y x) = x ∧ P.sin (P.atan2 y x) = y

/-! ### exponential -/

/-- so(3): the value is Rodrigues' formula about v/|v| through the angle |v| (identity below the zero threshold) -/
theorem trexp_so3_value (v : Vec 3 R) (M : Mat 3 3 R) (h : Gen.trexp_3 P v = .ok M) :
    M = one3 ∨ (0 < P.sqrt (v 0 * v 0 + v 1 * v 1 + v 2 * v 2) ∧
      M = rodM (fun i => v i / P.sqrt (v 0 * v 0 + v 1 * v 1 + v 2 * v 2))
            (P.cos (P.sqrt (v 0 * v 0 + v 1 * v 1 + v 2 * v 2))) (P.sin (P.sqrt (v 0 * v 0 + v 1 * v 1 + v 2 * v 2)))) :=
  trexp_3_cases P v M h

theorem trexp_so3_mem (hT : P.Trig) (hS : P.Sqrt) (v : Vec 3 R) (M : Mat 3 3 R) (h : Gen.trexp_3 P v = .ok M) : IsSO3 M :=
  trexp_3_mem P hT hS v M h

/-- one-parameter group: for a unit axis the closed form satisfies R(a + b) = R(a) R(b) (angle addition on (cos, sin)
pairs) and R(0) = 1 -/
theorem rodrigues_group (w : Vec 3 R) (hw : w 0 ^ 2 + w 1 ^ 2 + w 2 ^ 2 = 1) (c1 s1 c2 s2 : R) :
    rodM w (c1 * c2 - s1 * s2) (s1 * c2 + c1 * s2) = mmul (rodM w c1 s1) (rodM w c2 s2) ∧ rodM w 1 0 = one3 :=
  ⟨rodM_add w c1 s1 c2 s2 hw, rodM_zero w⟩

/-- se(3): on the rotational path the value is the screw closed form with θ = |w|, and it is a rigid motion -/
theorem trexp_se3_value (hT : P.Trig) (hS : P.Sqrt) (S : Vec 6 R) (T : Mat 4 4 R) (h : Gen.trexp_6 P S = .ok T)
    (hw : ¬ (P.sqrt (S 3 * S 3 + S 4 * S 4 + S 5 * S 5) < 5 / 2251799813685248)) :
    T = screwExp (fun i => v3 (S 3) (S 4) (S 5) i / P.sqrt (S 3 * S 3 + S 4 * S 4 + S 5 * S 5))
                 (fun i => v3 (S 0) (S 1) (S 2) i / P.sqrt (S 3 * S 3 + S 4 * S 4 + S 5 * S 5))
                 (P.cos (P.sqrt (S 3 * S 3 + S 4 * S 4 + S 5 * S 5))) (P.sin (P.sqrt (S 3 * S 3 + S 4 * S 4 + S 5 * S 5)))
                 (P.sqrt (S 3 * S 3 + S 4 * S 4 + S 5 * S 5)) ∧ IsSE3 T := by
  have e := trexp_6_rot P hS S T h hw
  refine ⟨e, ?_⟩
  rw [e]
  have pos : 0 < P.sqrt (S 3 * S 3 + S 4 * S 4 + S 5 * S 5) := lt_of_lt_of_le (by norm_num) (not_lt.mp hw)
  apply screwExp_SE3 _ _ _ _ _ _ (hT _)
  simpa using unit_div P hS (S 3) (S 4) (S 5) pos

/-! ### logarithm of a rotation matrix, general branch -/

/-- For R ∈ SO(3) with cos θ = (tr R − 1)/2 ≥ 0 and sin θ = |vex R| > 0, `trlog` returns the zero vector (only inside the
identity band) or L = θ·a with a unit axis a, θ = atan2(sin θ, cos θ), and Rodrigues' formula about a through θ —
which is what `trexp` evaluates — reproduces R. -/
theorem exp_log_SO3_general (hS : P.Sqrt) (hA : Atan2Law P) (m : Mat 3 3 R) (hm : IsSO3 m) (L : Vec 3 R)
    (h : Gen.trlog_R_twist P m = .ok L)
    (hc : (m 0 0 + m 1 1 + m 2 2 - 1) / 2 ≥ 0)
    (hs : P.sqrt ((m 2 1 - m 1 2) / 2 * ((m 2 1 - m 1 2) / 2) + (m 0 2 - m 2 0) / 2 * ((m 0 2 - m 2 0) / 2) + (m 1 0 - m 0 1) / 2 * ((m 1 0 - m 0 1) / 2)) > 0) :
    L = v3 0 0 0 ∨ ∃ (a : Vec 3 R) (θ : R), (∀ i, L i = a i * θ) ∧ a 0 ^ 2 + a 1 ^ 2 + a 2 ^ 2 = 1 ∧
        rodM a (P.cos θ) (P.sin θ) = m := by
  have hss := hS.mul_self _ (sq3_nonneg' ((m 2 1 - m 1 2) / 2) ((m 0 2 - m 2 0) / 2) ((m 1 0 - m 0 1) / 2))
  have hsc := sin_sq_add_cos_sq hm
  simp only [dot, sinAxis, cosAngle, Fin.sum_univ_three, v3_0, v3_1, v3_2] at hsc
  unfold Gen.trlog_R_twist at h; simp only [] at h
  generalize hsdef : P.sqrt ((m 2 1 - m 1 2) / 2 * ((m 2 1 - m 1 2) / 2) + (m 0 2 - m 2 0) / 2 * ((m 0 2 - m 2 0) / 2) + (m 1 0 - m 0 1) / 2 * ((m 1 0 - m 0 1) / 2)) = s at *
  generalize hcdef : (m 0 0 + m 1 1 + m 2 2 - 1) / 2 = c at *
  split_ifs at h with h1
  · left; cases h; rfl
  · right
    cases h
    have hs0 : s ≠ 0 := ne_of_gt hs
    have hunit : c * c + s * s = 1 := by rw [hss]; linear_combination hsc
    obtain ⟨hcos, hsin⟩ := hA s c hs hunit
    refine ⟨fun i => v3 ((m 2 1 - m 1 2) / 2) ((m 0 2 - m 2 0) / 2) ((m 1 0 - m 0 1) / 2) i / s, P.atan2 s c, ?_, ?_, ?_⟩
    · intro i; fin_cases i <;> simp <;> field_simp
    · simp; field_simp
      first | linear_combination hss | linear_combination -hss | linear_combination 4 * hss | linear_combination (-4) * hss | linear_combination (1/4) * hss | linear_combination (-1/4) * hss
    · rw [hcos, hsin]
      apply rod_of_log hm _ s c hs0
      · simp; field_simp
      · simp; field_simp
      · simp; field_simp
      · rw [← hcdef]; field_simp
      · linear_combination hunit

end SmVerif.Props.C03
