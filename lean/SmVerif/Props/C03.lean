/-
  C03 — exponential and logarithm are correct and mutually inverse.
  Proved (exact arithmetic, any ordered field with the stated laws of sqrt/sin/cos/atan2):
   * trexp(3-vector) and trexp(6-vector) return the closed forms (Rodrigues / screw), which are group members;
   * the closed form is a one-parameter group in the angle (R(a+b) = R(a)R(b), R(0) = 1) — the characterisation of
     the exponential used here; identification with the power series is not proved (DESIGN.md §7);
   * exp(log R) = R on the general branch of the SO(3) logarithm (cos θ ≥ 0, sin θ > 0) and on the obtuse branch
     (cos θ < 0, sin θ > 0: axis from the largest column of the symmetric part, all eight paths); the logarithm is
     θ·axis with a unit axis;
  Explored (smv/props/c03.py, 60-digit reference exponential): the identity band (exact half turns: Props/Half), the
  SE(3) logarithm at exact half turns (sin θ > 0: Props/SE3Log), the 2-D logarithm, thresholds, rounding.  The 2-D exponential is in Props/Exp2.
-/
import SmVerif.Bridge.Exp
import SmVerif.Spec.ExpLog
import Mathlib.Tactic.LinearCombination

namespace SmVerif.Props.C03
open SmVerif SmVerif.Spec SmVerif.Bridge
set_option linter.unusedSectionVars false
set_option linter.unusedTactic false
set_option linter.unreachableTactic false
set_option maxHeartbeats 1000000
variable {R : Type} [Field R] [LinearOrder R] [IsStrictOrderedRing R] (P : Prims R)

/-- on the unit circle with positive sine, atan2 inverts (cos, sin) -/
def Atan2Law (P : Prims R) : Prop :=
  ∀ y x : R, 0 < y → x * x + y * y = 1 → P.cos (P.atan2 y x) = x ∧ P.sin (P.atan2 y x) = y

/-! ### exponential -/

/-- so(3): the value is Rodrigues' formula about v/|v| through the angle |v| (identity below the zero threshold) -/
theorem trexp_so3_value (v : Vec 3 R) (M : Mat 3 3 R) (h : Gen.trexp_3 P v = .ok M) :
    M = one3 ∨ (0 < P.sqrt (v 0 * v 0 + v 1 * v 1 + v 2 * v 2) ∧
      M = rodM (fun i => v i / P.sqrt (v 0 * v 0 + v 1 * v 1 + v 2 * v 2))
            (P.cos (P.sqrt (v 0 * v 0 + v 1 * v 1 + v 2 * v 2))) (P.sin (P.sqrt (v 0 * v 0 + v 1 * v 1 + v 2 * v 2)))) :=
  trexp_3_cases P v M h

theorem trexp_so3_mem (hT : P.Trig) (hS : P.Sqrt) (v : Vec 3 R) (M : Mat 3 3 R) (h : Gen.trexp_3 P v = .ok M) : IsSO3 M :=
  trexp_3_mem P hT hS v M h

/-- one-parameter group: for a unit axis the closed form satisfies R(a + b) = R(a) R(b) (angle addition on (cos, sin)
pairs) and R(0) = 1 -/
theorem rodrigues_group (w : Vec 3 R) (hw : w 0 ^ 2 + w 1 ^ 2 + w 2 ^ 2 = 1) (c1 s1 c2 s2 : R) :
    rodM w (c1 * c2 - s1 * s2) (s1 * c2 + c1 * s2) = mmul (rodM w c1 s1) (rodM w c2 s2) ∧ rodM w 1 0 = one3 :=
  ⟨rodM_add w c1 s1 c2 s2 hw, rodM_zero w⟩

/-- se(3): on the rotational path the value is the screw closed form with θ = |w|, and it is a rigid motion -/
theorem trexp_se3_value (hT : P.Trig) (hS : P.Sqrt) (S : Vec 6 R) (T : Mat 4 4 R) (h : Gen.trexp_6 P S = .ok T)
    (hw : ¬ (P.sqrt (S 3 * S 3 + S 4 * S 4 + S 5 * S 5) < 5 / 2251799813685248)) :
    T = screwExp (fun i => v3 (S 3) (S 4) (S 5) i / P.sqrt (S 3 * S 3 + S 4 * S 4 + S 5 * S 5))
                 (fun i => v3 (S 0) (S 1) (S 2) i / P.sqrt (S 3 * S 3 + S 4 * S 4 + S 5 * S 5))
                 (P.cos (P.sqrt (S 3 * S 3 + S 4 * S 4 + S 5 * S 5))) (P.sin (P.sqrt (S 3 * S 3 + S 4 * S 4 + S 5 * S 5)))
                 (P.sqrt (S 3 * S 3 + S 4 * S 4 + S 5 * S 5)) ∧ IsSE3 T := by
  have e := trexp_6_rot P hS S T h hw
  refine ⟨e, ?_⟩
  rw [e]
  have pos : 0 < P.sqrt (S 3 * S 3 + S 4 * S 4 + S 5 * S 5) := lt_of_lt_of_le (by norm_num) (not_lt.mp hw)
  apply screwExp_SE3 _ _ _ _ _ _ (hT _)
  simpa using unit_div P hS (S 3) (S 4) (S 5) pos

/-! ### logarithm of a rotation matrix, general branch -/

/-- For R ∈ SO(3) with cos θ = (tr R − 1)/2 ≥ 0 and sin θ = |vex R| > 0, `trlog` returns the zero vector (only inside the
identity band) or L = θ·a with a unit axis a, θ = atan2(sin θ, cos θ), and Rodrigues' formula about a through θ —
which is what `trexp` evaluates — reproduces R. -/
theorem exp_log_SO3_general (hS : P.Sqrt) (hA : Atan2Law P) (m : Mat 3 3 R) (hm : IsSO3 m) (L : Vec 3 R)
    (h : Gen.trlog_R_twist P m = .ok L)
    (hc : (m 0 0 + m 1 1 + m 2 2 - 1) / 2 ≥ 0)
    (hs : P.sqrt ((m 2 1 - m 1 2) / 2 * ((m 2 1 - m 1 2) / 2) + (m 0 2 - m 2 0) / 2 * ((m 0 2 - m 2 0) / 2) + (m 1 0 - m 0 1) / 2 * ((m 1 0 - m 0 1) / 2)) > 0) :
    L = v3 0 0 0 ∨ ∃ (a : Vec 3 R) (θ : R), θ = P.atan2 (P.sqrt ((m 2 1 - m 1 2) / 2 * ((m 2 1 - m 1 2) / 2) + (m 0 2 - m 2 0) / 2 * ((m 0 2 - m 2 0) / 2) + (m 1 0 - m 0 1) / 2 * ((m 1 0 - m 0 1) / 2))) ((m 0 0 + m 1 1 + m 2 2 - 1) / 2) ∧
        (∀ i, L i = a i * θ) ∧ a 0 ^ 2 + a 1 ^ 2 + a 2 ^ 2 = 1 ∧
        rodM a (P.cos θ) (P.sin θ) = m := by
  have hss := hS.mul_self _ (sq3_nonneg' ((m 2 1 - m 1 2) / 2) ((m 0 2 - m 2 0) / 2) ((m 1 0 - m 0 1) / 2))
  have hsc := sin_sq_add_cos_sq hm
  simp only [dot, sinAxis, cosAngle, Fin.sum_univ_three, v3_0, v3_1, v3_2] at hsc
  unfold Gen.trlog_R_twist at h; simp only [] at h
  generalize hsdef : P.sqrt ((m 2 1 - m 1 2) / 2 * ((m 2 1 - m 1 2) / 2) + (m 0 2 - m 2 0) / 2 * ((m 0 2 - m 2 0) / 2) + (m 1 0 - m 0 1) / 2 * ((m 1 0 - m 0 1) / 2)) = s at *
  generalize hcdef : (m 0 0 + m 1 1 + m 2 2 - 1) / 2 = c at *
  split_ifs at h with h1
  · left; cases h; rfl
  · right
    cases h
    have hs0 : s ≠ 0 := ne_of_gt hs
    have hunit : c * c + s * s = 1 := by rw [hss]; linear_combination hsc
    obtain ⟨hcos, hsin⟩ := hA s c hs hunit
    refine ⟨fun i => v3 ((m 2 1 - m 1 2) / 2) ((m 0 2 - m 2 0) / 2) ((m 1 0 - m 0 1) / 2) i / s, P.atan2 s c, rfl, ?_, ?_, ?_⟩
    · intro i; fin_cases i <;> simp <;> field_simp
    · simp; field_simp
      first | linear_combination hss | linear_combination -hss | linear_combination 4 * hss | linear_combination (-4) * hss | linear_combination (1/4) * hss | linear_combination (-1/4) * hss
    · rw [hcos, hsin]
      apply rod_of_log hm _ s c hs0
      · simp; field_simp
      · simp; field_simp
      · simp; field_simp
      · rw [← hcdef]; field_simp
      · linear_combination hunit

/-! ### logarithm of a rotation matrix, obtuse branch -/
set_option maxHeartbeats 2000000

/-- on SO(3) the symmetric part is c·I plus a rank-one term: u uᵀ = (1 + c)(sym M − c I) with u = vex of the skew part, c = cos θ -/
theorem sym_rank_one {M : Mat 3 3 R} (h : IsSO3 M) (i j : Fin 3) :
    sinAxis M i * sinAxis M j = (1 + cosAngle M) * ((M i j + M j i) / 2 - cosAngle M * one3 i j) := by
  have hsc := sin_sq_add_cos_sq h
  have k := h.skewpart_sq i j
  simp only [dot, sinAxis, cosAngle, Fin.sum_univ_three, v3_0, v3_1, v3_2] at hsc ⊢
  fin_cases i <;> fin_cases j <;> simp [Fin.sum_univ_three, one3] at k ⊢ <;>
    first | linear_combination (1/4) * k | linear_combination hsc + (1/4) * k


/-- the axis read from one column of the symmetric part: with u = vex(skew part), p = 1 + c, b = column k of (sym M − c I)
    (so that u_i u_k = p b_i), r = sqrt(b_k (1 − c)) and the sign chosen by the sign of (b/r)·u, the vector ±b/r times
    s = |u| is u itself -/
theorem axis_of_column (hS : P.Sqrt) (u0 u1 u2 b0 b1 b2 uk bk p c s dotv : R)
    (h0 : u0 * uk = p * b0) (h1 : u1 * uk = p * b1) (h2 : u2 * uk = p * b2) (hk : uk * uk = p * bk)
    (hs2 : u0 * u0 + u1 * u1 + u2 * u2 = s * s) (hp : p = 1 + c) (hsc : s * s + c * c = 1)
    (hs : 0 < s) (hpp : 0 < p) (hbk : 0 < bk) (hc1 : 0 < 1 - c)
    (hdot : dotv * P.sqrt (bk * (1 - c)) = b0 * u0 + b1 * u1 + b2 * u2) :
    0 < P.sqrt (bk * (1 - c)) ∧
    (dotv < 0 → (-(b0 / P.sqrt (bk * (1 - c)))) * s = u0 ∧ (-(b1 / P.sqrt (bk * (1 - c)))) * s = u1 ∧ (-(b2 / P.sqrt (bk * (1 - c)))) * s = u2) ∧
    (¬ dotv < 0 → (b0 / P.sqrt (bk * (1 - c))) * s = u0 ∧ (b1 / P.sqrt (bk * (1 - c))) * s = u1 ∧ (b2 / P.sqrt (bk * (1 - c))) * s = u2) := by
  have hD : 0 < bk * (1 - c) := mul_pos hbk hc1
  have hrr := hS.mul_self _ (le_of_lt hD)
  have hr0 := hS.nonneg (bk * (1 - c))
  set r := P.sqrt (bk * (1 - c)) with hr
  have hrpos : 0 < r := by
    rcases lt_or_eq_of_le hr0 with h | h
    · exact h
    · exfalso; rw [← h] at hrr; linarith
  have hukne : uk ≠ 0 := by
    intro e; rw [e] at hk; have := mul_pos hpp hbk; linarith
  -- (p r)² = (s |uk|)²
  have hsq : (p * r) * (p * r) = (s * |uk|) * (s * |uk|) := by
    have habs : |uk| * |uk| = uk * uk := abs_mul_abs_self uk
    have : (p * r) * (p * r) = p * (uk * uk) * (1 - c) := by rw [hk]; linear_combination (p * p) * hrr
    rw [this]
    have : (s * |uk|) * (s * |uk|) = (s * s) * (uk * uk) := by linear_combination (s * s) * habs
    rw [this, hp]; linear_combination (-(uk * uk)) * hsc
  have hpr : p * r = s * |uk| := by
    have h1' : 0 ≤ p * r := le_of_lt (mul_pos hpp hrpos)
    have h2' : 0 ≤ s * |uk| := mul_nonneg (le_of_lt hs) (abs_nonneg uk)
    have := mul_self_eq_mul_self_iff.mp hsq
    rcases this with e | e
    · exact e
    · have : p * r = 0 := by linarith
      have := mul_pos hpp hrpos; linarith
  have hrne : r ≠ 0 := ne_of_gt hrpos
  have hpne : p ≠ 0 := ne_of_gt hpp
  have hsne : s ≠ 0 := ne_of_gt hs
  -- b_i / r * s = u_i * uk / |uk|
  have key : ∀ ui bi : R, ui * uk = p * bi → bi / r * s * |uk| = ui * uk := by
    intro ui bi hi
    have hbi : bi = ui * uk / p := by field_simp; linear_combination -hi
    rw [hbi]; field_simp
    linear_combination (-ui) * hpr
  have hdv : dotv * (p * r) = uk * (s * s) := by
    have : dotv * r * p = (b0 * p) * u0 + (b1 * p) * u1 + (b2 * p) * u2 := by rw [hdot]; ring
    linear_combination this - u0 * h0 - u1 * h1 - u2 * h2 + uk * hs2
  refine ⟨hrpos, ?_, ?_⟩
  · intro hneg
    have hukneg : uk < 0 := by
      by_contra hcon; rw [not_lt] at hcon
      have : 0 ≤ dotv * (p * r) := by rw [hdv]; exact mul_nonneg hcon (mul_self_nonneg s)
      have h3 : dotv * (p * r) < 0 := mul_neg_of_neg_of_pos hneg (mul_pos hpp hrpos)
      linarith
    have habs : |uk| = -uk := abs_of_neg hukneg
    have k0 := key u0 b0 h0; have k1 := key u1 b1 h1; have k2 := key u2 b2 h2
    rw [habs] at k0 k1 k2
    refine ⟨?_, ?_, ?_⟩
    · apply mul_right_cancel₀ hukne; linear_combination k0
    · apply mul_right_cancel₀ hukne; linear_combination k1
    · apply mul_right_cancel₀ hukne; linear_combination k2
  · intro hnn
    have hukpos : 0 < uk := by
      rcases lt_or_gt_of_ne hukne with hlt | hgt
      · exfalso
        have h3 : dotv * (p * r) < 0 := by rw [hdv]; exact mul_neg_of_neg_of_pos hlt (mul_pos hs hs)
        have h4 : 0 ≤ dotv * (p * r) := mul_nonneg (not_lt.mp hnn) (le_of_lt (mul_pos hpp hrpos))
        linarith
      · exact hgt
    have habs : |uk| = uk := abs_of_pos hukpos
    have k0 := key u0 b0 h0; have k1 := key u1 b1 h1; have k2 := key u2 b2 h2
    rw [habs] at k0 k1 k2
    exact ⟨mul_right_cancel₀ hukne k0, mul_right_cancel₀ hukne k1, mul_right_cancel₀ hukne k2⟩

/-- from an axis A with A·s = vex(skew part) to the statement of exp ∘ log -/
theorem log_finish {M : Mat 3 3 R} (hm : IsSO3 M) (A0 A1 A2 s c θ : R)
    (e0 : A0 * s = (M 2 1 - M 1 2) / 2) (e1 : A1 * s = (M 0 2 - M 2 0) / 2) (e2 : A2 * s = (M 1 0 - M 0 1) / 2)
    (hs0 : s ≠ 0) (hc2 : 2 * c = M 0 0 + M 1 1 + M 2 2 - 1) (hunit : s * s + c * c = 1)
    (hs2 : (M 2 1 - M 1 2) / 2 * ((M 2 1 - M 1 2) / 2) + (M 0 2 - M 2 0) / 2 * ((M 0 2 - M 2 0) / 2) + (M 1 0 - M 0 1) / 2 * ((M 1 0 - M 0 1) / 2) = s * s)
    (hcos : P.cos θ = c) (hsin : P.sin θ = s) :
    ∃ (a : Vec 3 R) (θ' : R), θ' = θ ∧ (∀ i, (v3 (A0 * θ) (A1 * θ) (A2 * θ) : Vec 3 R) i = a i * θ') ∧ a 0 ^ 2 + a 1 ^ 2 + a 2 ^ 2 = 1 ∧
        rodM a (P.cos θ') (P.sin θ') = M := by
  refine ⟨v3 A0 A1 A2, θ, rfl, ?_, ?_, ?_⟩
  · intro i; fin_cases i <;> simp
  · simp only [v3_0, v3_1, v3_2]
    apply mul_right_cancel₀ (mul_ne_zero hs0 hs0)
    linear_combination (A0 * s + (M 2 1 - M 1 2) / 2) * e0 + (A1 * s + (M 0 2 - M 2 0) / 2) * e1 + (A2 * s + (M 1 0 - M 0 1) / 2) * e2 + hs2
  · rw [hcos, hsin]
    exact rod_of_log hm (v3 A0 A1 A2) s c hs0 (by simpa using e0) (by simpa using e1) (by simpa using e2) hc2 hunit

/-- one leaf of the obtuse branch of the logarithm, sign flipped -/
theorem obtuse_leaf_neg (hS : P.Sqrt) {M : Mat 3 3 R} (hm : IsSO3 M) (b0 b1 b2 uk bk c s dotv θ : R)
    (h0 : (M 2 1 - M 1 2) / 2 * uk = (1 + c) * b0) (h1 : (M 0 2 - M 2 0) / 2 * uk = (1 + c) * b1) (h2 : (M 1 0 - M 0 1) / 2 * uk = (1 + c) * b2)
    (hk : uk * uk = (1 + c) * bk)
    (hs2 : (M 2 1 - M 1 2) / 2 * ((M 2 1 - M 1 2) / 2) + (M 0 2 - M 2 0) / 2 * ((M 0 2 - M 2 0) / 2) + (M 1 0 - M 0 1) / 2 * ((M 1 0 - M 0 1) / 2) = s * s)
    (hunit : s * s + c * c = 1) (hs : 0 < s) (hc : c < 0) (hbk : 0 < bk) (hc2 : 2 * c = M 0 0 + M 1 1 + M 2 2 - 1)
    (hdot : dotv = b0 / P.sqrt (bk * (1 - c)) * ((M 2 1 - M 1 2) / 2) + b1 / P.sqrt (bk * (1 - c)) * ((M 0 2 - M 2 0) / 2) + b2 / P.sqrt (bk * (1 - c)) * ((M 1 0 - M 0 1) / 2))
    (hcos : P.cos θ = c) (hsin : P.sin θ = s) (hd : dotv < 0) :
    ∃ (a : Vec 3 R) (θ' : R), θ' = θ ∧ (∀ i, (v3 ((-(b0 / P.sqrt (bk * (1 - c)))) * θ) ((-(b1 / P.sqrt (bk * (1 - c)))) * θ) ((-(b2 / P.sqrt (bk * (1 - c)))) * θ) : Vec 3 R) i = a i * θ') ∧
        a 0 ^ 2 + a 1 ^ 2 + a 2 ^ 2 = 1 ∧ rodM a (P.cos θ') (P.sin θ') = M := by
  have hpp : 0 < 1 + c := by nlinarith [mul_pos hs hs]
  have hc1 : 0 < 1 - c := by linarith
  have hrpos : 0 < P.sqrt (bk * (1 - c)) := by
    have hD : 0 < bk * (1 - c) := mul_pos hbk hc1
    have hrr := hS.mul_self _ (le_of_lt hD)
    rcases lt_or_eq_of_le (hS.nonneg (bk * (1 - c))) with h | h
    · exact h
    · exfalso; rw [← h] at hrr; linarith
  have hdot' : dotv * P.sqrt (bk * (1 - c)) = b0 * ((M 2 1 - M 1 2) / 2) + b1 * ((M 0 2 - M 2 0) / 2) + b2 * ((M 1 0 - M 0 1) / 2) := by
    rw [hdot]; field_simp
  obtain ⟨_, hneg, hpos⟩ := axis_of_column P hS _ _ _ b0 b1 b2 uk bk (1 + c) c s dotv h0 h1 h2 hk hs2 rfl hunit hs hpp hbk hc1 hdot'
  obtain ⟨e0, e1, e2⟩ := hneg hd
  exact log_finish P hm _ _ _ s c θ e0 e1 e2 (ne_of_gt hs) hc2 hunit hs2 hcos hsin

/-- one leaf of the obtuse branch of the logarithm, sign kept -/
theorem obtuse_leaf_pos (hS : P.Sqrt) {M : Mat 3 3 R} (hm : IsSO3 M) (b0 b1 b2 uk bk c s dotv θ : R)
    (h0 : (M 2 1 - M 1 2) / 2 * uk = (1 + c) * b0) (h1 : (M 0 2 - M 2 0) / 2 * uk = (1 + c) * b1) (h2 : (M 1 0 - M 0 1) / 2 * uk = (1 + c) * b2)
    (hk : uk * uk = (1 + c) * bk)
    (hs2 : (M 2 1 - M 1 2) / 2 * ((M 2 1 - M 1 2) / 2) + (M 0 2 - M 2 0) / 2 * ((M 0 2 - M 2 0) / 2) + (M 1 0 - M 0 1) / 2 * ((M 1 0 - M 0 1) / 2) = s * s)
    (hunit : s * s + c * c = 1) (hs : 0 < s) (hc : c < 0) (hbk : 0 < bk) (hc2 : 2 * c = M 0 0 + M 1 1 + M 2 2 - 1)
    (hdot : dotv = b0 / P.sqrt (bk * (1 - c)) * ((M 2 1 - M 1 2) / 2) + b1 / P.sqrt (bk * (1 - c)) * ((M 0 2 - M 2 0) / 2) + b2 / P.sqrt (bk * (1 - c)) * ((M 1 0 - M 0 1) / 2))
    (hcos : P.cos θ = c) (hsin : P.sin θ = s) (hd : ¬ dotv < 0) :
    ∃ (a : Vec 3 R) (θ' : R), θ' = θ ∧ (∀ i, (v3 ((b0 / P.sqrt (bk * (1 - c))) * θ) ((b1 / P.sqrt (bk * (1 - c))) * θ) ((b2 / P.sqrt (bk * (1 - c))) * θ) : Vec 3 R) i = a i * θ') ∧
        a 0 ^ 2 + a 1 ^ 2 + a 2 ^ 2 = 1 ∧ rodM a (P.cos θ') (P.sin θ') = M := by
  have hpp : 0 < 1 + c := by nlinarith [mul_pos hs hs]
  have hc1 : 0 < 1 - c := by linarith
  have hrpos : 0 < P.sqrt (bk * (1 - c)) := by
    have hD : 0 < bk * (1 - c) := mul_pos hbk hc1
    have hrr := hS.mul_self _ (le_of_lt hD)
    rcases lt_or_eq_of_le (hS.nonneg (bk * (1 - c))) with h | h
    · exact h
    · exfalso; rw [← h] at hrr; linarith
  have hdot' : dotv * P.sqrt (bk * (1 - c)) = b0 * ((M 2 1 - M 1 2) / 2) + b1 * ((M 0 2 - M 2 0) / 2) + b2 * ((M 1 0 - M 0 1) / 2) := by
    rw [hdot]; field_simp
  obtain ⟨_, hneg, hpos⟩ := axis_of_column P hS _ _ _ b0 b1 b2 uk bk (1 + c) c s dotv h0 h1 h2 hk hs2 rfl hunit hs hpp hbk hc1 hdot'
  obtain ⟨e0, e1, e2⟩ := hpos hd
  exact log_finish P hm _ _ _ s c θ e0 e1 e2 (ne_of_gt hs) hc2 hunit hs2 hcos hsin

/-- **exp ∘ log on the obtuse branch**: for R ∈ SO(3) with cos θ = (tr R − 1)/2 < 0 and sin θ = |vex R| > 0 (every rotation by
more than a quarter turn except the exact half turns) `trlog` takes the axis from the largest column of the symmetric part,
fixes its sign against the skew part, and returns L = θ·a with a unit axis a such that Rodrigues' formula about a through θ
reproduces R — on each of the eight paths (three pivot columns in two arrangements × two signs). -/
theorem exp_log_SO3_obtuse (hS : P.Sqrt) (hA : Atan2Law P) (m : Mat 3 3 R) (hm : IsSO3 m) (L : Vec 3 R)
    (h : Gen.trlog_R_twist P m = .ok L)
    (hc : (m 0 0 + m 1 1 + m 2 2 - 1) / 2 < 0)
    (hs : P.sqrt ((m 2 1 - m 1 2) / 2 * ((m 2 1 - m 1 2) / 2) + (m 0 2 - m 2 0) / 2 * ((m 0 2 - m 2 0) / 2) + (m 1 0 - m 0 1) / 2 * ((m 1 0 - m 0 1) / 2)) > 0) :
    L = v3 0 0 0 ∨ ∃ (a : Vec 3 R) (θ : R), θ = P.atan2 (P.sqrt ((m 2 1 - m 1 2) / 2 * ((m 2 1 - m 1 2) / 2) + (m 0 2 - m 2 0) / 2 * ((m 0 2 - m 2 0) / 2) + (m 1 0 - m 0 1) / 2 * ((m 1 0 - m 0 1) / 2))) ((m 0 0 + m 1 1 + m 2 2 - 1) / 2) ∧
        (∀ i, L i = a i * θ) ∧ a 0 ^ 2 + a 1 ^ 2 + a 2 ^ 2 = 1 ∧
        rodM a (P.cos θ) (P.sin θ) = m := by
  have hss := hS.mul_self _ (sq3_nonneg' ((m 2 1 - m 1 2) / 2) ((m 0 2 - m 2 0) / 2) ((m 1 0 - m 0 1) / 2))
  have hsc := sin_sq_add_cos_sq hm
  simp only [dot, sinAxis, cosAngle, Fin.sum_univ_three, v3_0, v3_1, v3_2] at hsc
  have r00 := sym_rank_one hm 0 0; have r01 := sym_rank_one hm 0 1; have r02 := sym_rank_one hm 0 2
  have r11 := sym_rank_one hm 1 1; have r12 := sym_rank_one hm 1 2; have r22 := sym_rank_one hm 2 2
  have r10 := sym_rank_one hm 1 0; have r20 := sym_rank_one hm 2 0; have r21 := sym_rank_one hm 2 1
  simp only [sinAxis, cosAngle, v3_0, v3_1, v3_2, one3] at r00 r01 r02 r11 r12 r22 r10 r20 r21
  unfold Gen.trlog_R_twist at h; simp only [] at h
  generalize hsdef : P.sqrt ((m 2 1 - m 1 2) / 2 * ((m 2 1 - m 1 2) / 2) + (m 0 2 - m 2 0) / 2 * ((m 0 2 - m 2 0) / 2) + (m 1 0 - m 0 1) / 2 * ((m 1 0 - m 0 1) / 2)) = s at *
  generalize hcdef : (m 0 0 + m 1 1 + m 2 2 - 1) / 2 = c at *
  have hunit : s * s + c * c = 1 := by rw [hss]; linear_combination hsc
  have hunit' : c * c + s * s = 1 := by linear_combination hunit
  obtain ⟨hcos, hsin⟩ := hA s c hs hunit'
  have hc2 : 2 * c = m 0 0 + m 1 1 + m 2 2 - 1 := by rw [← hcdef]; ring
  split_ifs at h with h1 h2 h3 h4 h5 h6 h7 h8 h9
  all_goals (try (left; cases h; rfl))
  all_goals (try (exfalso; linarith))
  all_goals (right; cases h)
  all_goals first
    | (refine obtuse_leaf_neg P hS hm _ _ _ ((m 2 1 - m 1 2) / 2) _ c s _ _ ?_ ?_ ?_ ?_ hss.symm hunit hs hc ?_ hc2 ?_ hcos hsin (by first | exact h5 | exact h6 | exact h8 | exact h9) <;> (first | linear_combination r00 | linear_combination r01 | linear_combination r02 | linear_combination r10 | linear_combination r11 | linear_combination r12 | linear_combination r20 | linear_combination r21 | linear_combination r22 | linarith | ring1))
    | (refine obtuse_leaf_neg P hS hm _ _ _ ((m 0 2 - m 2 0) / 2) _ c s _ _ ?_ ?_ ?_ ?_ hss.symm hunit hs hc ?_ hc2 ?_ hcos hsin (by first | exact h5 | exact h6 | exact h8 | exact h9) <;> (first | linear_combination r00 | linear_combination r01 | linear_combination r02 | linear_combination r10 | linear_combination r11 | linear_combination r12 | linear_combination r20 | linear_combination r21 | linear_combination r22 | linarith | ring1))
    | (refine obtuse_leaf_neg P hS hm _ _ _ ((m 1 0 - m 0 1) / 2) _ c s _ _ ?_ ?_ ?_ ?_ hss.symm hunit hs hc ?_ hc2 ?_ hcos hsin (by first | exact h5 | exact h6 | exact h8 | exact h9) <;> (first | linear_combination r00 | linear_combination r01 | linear_combination r02 | linear_combination r10 | linear_combination r11 | linear_combination r12 | linear_combination r20 | linear_combination r21 | linear_combination r22 | linarith | ring1))
    | (refine obtuse_leaf_pos P hS hm _ _ _ ((m 2 1 - m 1 2) / 2) _ c s _ _ ?_ ?_ ?_ ?_ hss.symm hunit hs hc ?_ hc2 ?_ hcos hsin (by first | exact h5 | exact h6 | exact h8 | exact h9) <;> (first | linear_combination r00 | linear_combination r01 | linear_combination r02 | linear_combination r10 | linear_combination r11 | linear_combination r12 | linear_combination r20 | linear_combination r21 | linear_combination r22 | linarith | ring1))
    | (refine obtuse_leaf_pos P hS hm _ _ _ ((m 0 2 - m 2 0) / 2) _ c s _ _ ?_ ?_ ?_ ?_ hss.symm hunit hs hc ?_ hc2 ?_ hcos hsin (by first | exact h5 | exact h6 | exact h8 | exact h9) <;> (first | linear_combination r00 | linear_combination r01 | linear_combination r02 | linear_combination r10 | linear_combination r11 | linear_combination r12 | linear_combination r20 | linear_combination r21 | linear_combination r22 | linarith | ring1))
    | (refine obtuse_leaf_pos P hS hm _ _ _ ((m 1 0 - m 0 1) / 2) _ c s _ _ ?_ ?_ ?_ ?_ hss.symm hunit hs hc ?_ hc2 ?_ hcos hsin (by first | exact h5 | exact h6 | exact h8 | exact h9) <;> (first | linear_combination r00 | linear_combination r01 | linear_combination r02 | linear_combination r10 | linear_combination r11 | linear_combination r12 | linear_combination r20 | linear_combination r21 | linear_combination r22 | linarith | ring1))
set_option maxHeartbeats 4000000

/-- the matrix form of the logarithm is the skew matrix of the vector form (same eleven paths): what is proved about
    `trlog(R, twist=True)` holds for `trlog(R)` -/
theorem trlog_R_is_skew_of_twist (m L : Mat 3 3 R) (h : Gen.trlog_R P m = .ok L) :
    Gen.trlog_R_twist P m = .ok (v3 (L 2 1) (L 0 2) (L 1 0)) ∧ L = skew3 (v3 (L 2 1) (L 0 2) (L 1 0)) := by
  unfold Gen.trlog_R at h; unfold Gen.trlog_R_twist; simp only [] at h ⊢
  split_ifs at h <;> cases h <;> refine ⟨?_, ?_⟩
  all_goals first
    | (simp only [*, if_true, if_false, v3_0, v3_1, v3_2]; done)
    | (funext i j; fin_cases i <;> fin_cases j <;> simp [skew3] <;> (try ring1); done)
    | (simp only [*, if_true, if_false, v3_0, v3_1, v3_2]; congr 1; funext i; fin_cases i <;> simp <;> (try ring1); done)
end SmVerif.Props.C03
