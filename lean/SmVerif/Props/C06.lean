/-
  C06 — applying a pose to points is the rigid motion p ↦ R p + t.
  Statements about the traced class operators `X * p` (1-D point, d×N arrays for N = 1..4, multi-valued X),
  the unit-quaternion sandwich product and `homtrans`.  The traced N are instances of one column-wise
  specification (`act3 A (column j of p)`), which is what the theorems state.
-/
import SmVerif.Bridge.Poses
import SmVerif.Bridge.Quat
import SmVerif.Gen.Quats
import SmVerif.Gen.TransformsNd

namespace SmVerif.Props.C06
open SmVerif SmVerif.Spec SmVerif.Bridge
set_option linter.unusedSectionVars false
set_option linter.unusedTactic false
set_option linter.unreachableTactic false
variable {R : Type} [Field R] [LinearOrder R] [IsStrictOrderedRing R] (P : Prims R)

/-- SE3 * p = R p + t -/
theorem SE3_point (A : Mat 4 4 R) (ha : IsSE3 A) (p : Vec 3 R) :
    Gen.SE3_mul_vec P A p = .ok (fun i _ => act3 A p i) :=
  Bridge.SE3_mul_vec P A p ha.r0 ha.r1 ha.r2 ha.r3
/-- SO3 * p = R p -/
theorem SO3_point (A : Mat 3 3 R) (p : Vec 3 R) : Gen.SO3_mul_vec P A p = .ok (fun i _ => mvec A p i) :=
  Bridge.SO3_mul_vec P A p
theorem SE2_point (A : Mat 3 3 R) (ha : IsSE2 A) (p : Vec 2 R) :
    Gen.SE2_mul_vec P A p = .ok (fun i _ => act2 A p i) :=
  Bridge.SE2_mul_vec P A p ha.r0 ha.r1 ha.r2
theorem SO2_point (A : Mat 2 2 R) (p : Vec 2 R) : Gen.SO2_mul_vec P A p = .ok (fun i _ => mvec A p i) :=
  Bridge.SO2_mul_vec P A p

/-- an N-column array is transformed column by column, exactly as N separate calls (traced N = 1..4) -/
theorem SE3_columns (A : Mat 4 4 R) (ha : IsSE3 A) :
    (∀ p : Mat 3 1 R, Gen.SE3_mul_pts1 P A p = .ok (fun i j => act3 A (fun l => p l j) i)) ∧
    (∀ p : Mat 3 2 R, Gen.SE3_mul_pts2 P A p = .ok (fun i j => act3 A (fun l => p l j) i)) ∧
    (∀ p : Mat 3 3 R, Gen.SE3_mul_pts3 P A p = .ok (fun i j => act3 A (fun l => p l j) i)) ∧
    (∀ p : Mat 3 4 R, Gen.SE3_mul_pts4 P A p = .ok (fun i j => act3 A (fun l => p l j) i)) :=
  ⟨fun p => Bridge.SE3_mul_pts1 P A p ha.r0 ha.r1 ha.r2 ha.r3, fun p => Bridge.SE3_mul_pts2 P A p ha.r0 ha.r1 ha.r2 ha.r3,
   fun p => Bridge.SE3_mul_pts3 P A p ha.r0 ha.r1 ha.r2 ha.r3, fun p => Bridge.SE3_mul_pts4 P A p ha.r0 ha.r1 ha.r2 ha.r3⟩
theorem SO3_columns (A : Mat 3 3 R) :
    (∀ p : Mat 3 1 R, Gen.SO3_mul_pts1 P A p = .ok (fun i j => mvec A (fun l => p l j) i)) ∧
    (∀ p : Mat 3 2 R, Gen.SO3_mul_pts2 P A p = .ok (fun i j => mvec A (fun l => p l j) i)) ∧
    (∀ p : Mat 3 3 R, Gen.SO3_mul_pts3 P A p = .ok (fun i j => mvec A (fun l => p l j) i)) ∧
    (∀ p : Mat 3 4 R, Gen.SO3_mul_pts4 P A p = .ok (fun i j => mvec A (fun l => p l j) i)) :=
  ⟨Bridge.SO3_mul_pts1 P A, Bridge.SO3_mul_pts2 P A, Bridge.SO3_mul_pts3 P A, Bridge.SO3_mul_pts4 P A⟩
theorem SE2_columns (A : Mat 3 3 R) (ha : IsSE2 A) :
    (∀ p : Mat 2 1 R, Gen.SE2_mul_pts1 P A p = .ok (fun i j => act2 A (fun l => p l j) i)) ∧
    (∀ p : Mat 2 2 R, Gen.SE2_mul_pts2 P A p = .ok (fun i j => act2 A (fun l => p l j) i)) ∧
    (∀ p : Mat 2 3 R, Gen.SE2_mul_pts3 P A p = .ok (fun i j => act2 A (fun l => p l j) i)) ∧
    (∀ p : Mat 2 4 R, Gen.SE2_mul_pts4 P A p = .ok (fun i j => act2 A (fun l => p l j) i)) :=
  ⟨fun p => Bridge.SE2_mul_pts1 P A p ha.r0 ha.r1 ha.r2, fun p => Bridge.SE2_mul_pts2 P A p ha.r0 ha.r1 ha.r2,
   fun p => Bridge.SE2_mul_pts3 P A p ha.r0 ha.r1 ha.r2, fun p => Bridge.SE2_mul_pts4 P A p ha.r0 ha.r1 ha.r2⟩

/-- a multi-valued pose applied to one point gives one column per pose value -/
theorem SE3_multi_point (A B : Mat 4 4 R) (ha : IsSE3 A) (hb : IsSE3 B) (p : Vec 3 R) :
    Gen.SE3_mul_multi_vec P A B p = .ok (fun i j => act3 (v2 A B j) p i) :=
  Bridge.SE3_mul_multi_vec P A B p ha.r0 ha.r1 ha.r2 ha.r3 hb.r0 hb.r1 hb.r2 hb.r3
theorem SO3_multi_point (A B : Mat 3 3 R) (p : Vec 3 R) :
    Gen.SO3_mul_multi_vec P A B p = .ok (fun i j => mvec (v2 A B j) p i) :=
  Bridge.SO3_mul_multi_vec P A B p

/-! ### the action is a rigid motion -/

theorem act3_rt3 (M : Mat 3 3 R) (t p : Vec 3 R) : act3 (rt3 M t) p = fun i => mvec M p i + t i := by
  funext i; simp [act3, rotOf3_rt3, trOf3_rt3]

/-- (X*Y)*p = X*(Y*p) -/
theorem act3_mul (A B : Mat 4 4 R) (ha : IsSE3 A) (hb : IsSE3 B) (p : Vec 3 R) :
    act3 (mmul A B) p = act3 A (act3 B p) := by
  rw [ha.eq_rt3, hb.eq_rt3, rt3_mul, act3_rt3, act3_rt3, act3_rt3]
  funext i
  simp only [mvec, mmul]
  simp [Fin.sum_univ_three]; ring

theorem act3_one (p : Vec 3 R) : act3 (one4 : Mat 4 4 R) p = p := by
  apply Vec.ext3 <;> simp [act3, mvec, rotOf3, trOf3, one4, Fin.sum_univ_three]

/-- X.inv() * (X * p) = p -/
theorem act3_inv (A : Mat 4 4 R) (ha : IsSE3 A) (p : Vec 3 R) : act3 (seInv3 A) (act3 A p) = p := by
  rw [← act3_mul _ _ ha.inv ha, seInv3_mul ha, act3_one]

/-- squared distances between points are preserved -/
theorem act3_dist (A : Mat 4 4 R) (ha : IsSE3 A) (p q : Vec 3 R) :
    dot (fun i => act3 A p i - act3 A q i) (fun i => act3 A p i - act3 A q i) = dot (fun i => p i - q i) (fun i => p i - q i) := by
  have o := ha.rot.transpose_mul
  have o00 := congrFun (congrFun o 0) 0; have o01 := congrFun (congrFun o 0) 1; have o02 := congrFun (congrFun o 0) 2
  have o11 := congrFun (congrFun o 1) 1; have o12 := congrFun (congrFun o 1) 2; have o22 := congrFun (congrFun o 2) 2
  simp [mmul, mT, one3, rotOf3, Fin.sum_univ_three] at o00 o01 o02 o11 o12 o22
  simp [dot, act3, mvec, rotOf3, trOf3, Fin.sum_univ_three]
  linear_combination ((p 0 - q 0) ^ 2) * o00 + (2 * (p 0 - q 0) * (p 1 - q 1)) * o01 + (2 * (p 0 - q 0) * (p 2 - q 2)) * o02
    + ((p 1 - q 1) ^ 2) * o11 + (2 * (p 1 - q 1) * (p 2 - q 2)) * o12 + ((p 2 - q 2) ^ 2) * o22

/-- orientation (handedness) is preserved: the triple product of difference vectors is unchanged -/
theorem act3_triple (A : Mat 4 4 R) (ha : IsSE3 A) (o a b c : Vec 3 R) :
    dot (cross3 (fun i => act3 A a i - act3 A o i) (fun i => act3 A b i - act3 A o i)) (fun i => act3 A c i - act3 A o i)
      = dot (cross3 (fun i => a i - o i) (fun i => b i - o i)) (fun i => c i - o i) := by
  have hd := ha.rot.det
  simp only [det3, rotOf3, v3_0, v3_1, v3_2] at hd
  simp [dot, cross3, act3, mvec, rotOf3, trOf3, Fin.sum_univ_three]
  linear_combination (dot (cross3 (fun i => a i - o i) (fun i => b i - o i)) (fun i => c i - o i)) * hd
    - (dot (cross3 (fun i => a i - o i) (fun i => b i - o i)) (fun i => c i - o i)) * hd
    + ((a 0 - o 0) * ((b 1 - o 1) * (c 2 - o 2) - (b 2 - o 2) * (c 1 - o 1)) - (a 1 - o 1) * ((b 0 - o 0) * (c 2 - o 2) - (b 2 - o 2) * (c 0 - o 0))
       + (a 2 - o 2) * ((b 0 - o 0) * (c 1 - o 1) - (b 1 - o 1) * (c 0 - o 0))) * hd

/-! ### other routes give the same point -/

/-- unit quaternion: q * p (sandwich product) = q2r(q) p -/
theorem UQ_point (q : Vec 4 R) (hq : qnormsq q = 1) (p : Vec 3 R) (M : Mat 3 3 R) (hM : Gen.q2r P q = .ok M) :
    Gen.UQ_mul_vec P q p = .ok (mvec M p) := by
  rw [Bridge.q2r] at hM; cases hM
  rw [← qvmul_eq q p hq]
  unfold Gen.UQ_mul_vec; (try simp only []); congr 1
  apply Vec.ext3 <;> simp [Spec.qvmul, qvec, qpure] <;> ring

/-- homtrans(T, p) = R p + t for a rigid motion T -/
theorem homtrans_point (A : Mat 4 4 R) (ha : IsSE3 A) (p : Vec 3 R) :
    Gen.homtrans_3 P A p = .ok (fun i _ => act3 A p i) := by
  unfold Gen.homtrans_3; simp only [ha.r0, ha.r1, ha.r2, ha.r3]; congr 1
  funext i j; fin_cases i <;> fin_cases j <;> simp [act3, mvec, rotOf3, trOf3, Fin.sum_univ_three]

end SmVerif.Props.C06
