/-
  Dual quaternions (C12 second half): product, sum, conjugate and the dual-number norm of `DualQuaternion`, as traced from
  the class.  A dual quaternion r + ε d is stored as the 8-vector (r, d).
-/
import SmVerif.Tactics
import SmVerif.Spec.Quat
import SmVerif.Spec.PrimLaws
import SmVerif.Gen.DualQuat
import Mathlib.Tactic.Linarith

namespace SmVerif.Props.DualQuat
open SmVerif SmVerif.Spec
set_option linter.unusedSectionVars false
set_option linter.unusedTactic false
variable {R : Type} [Field R] [LinearOrder R] [IsStrictOrderedRing R] (P : Prims R)

def lo (M : Vec 8 R) : Vec 4 R := v4 (M 0) (M 1) (M 2) (M 3)
def hi (M : Vec 8 R) : Vec 4 R := v4 (M 4) (M 5) (M 6) (M 7)

/-- (r + εd)(s + εe) = rs + ε(re + ds) -/
theorem DQ_mul_spec (r d s e : Vec 4 R) (M : Vec 8 R) (h : Gen.DQ_mul P r d s e = .ok M) :
    lo M = qmul r s ∧ hi M = fun i => qmul r e i + qmul d s i := by
  unfold Gen.DQ_mul at h; cases h
  constructor
  · apply Vec.ext4 <;> (simp [lo, qmul]; try ring)
  · apply Vec.ext4 <;> (simp [hi, qmul]; try ring)

theorem DQ_add_spec (r d s e : Vec 4 R) (M : Vec 8 R) (h : Gen.DQ_add P r d s e = .ok M) :
    lo M = (fun i => r i + s i) ∧ hi M = fun i => d i + e i := by
  unfold Gen.DQ_add at h; cases h
  constructor
  · apply Vec.ext4 <;> simp [lo]
  · apply Vec.ext4 <;> simp [hi]

theorem DQ_conj_spec (r d : Vec 4 R) (M : Vec 8 R) (h : Gen.DQ_conj P r d = .ok M) :
    lo M = qconj r ∧ hi M = qconj d := by
  unfold Gen.DQ_conj at h; cases h
  constructor
  · apply Vec.ext4 <;> simp [lo, qconj]
  · apply Vec.ext4 <;> simp [hi, qconj]

/-- the product is associative and conjugation reverses it (consequences of the quaternion laws, on the stored pairs) -/
theorem DQ_mul_assoc (a b c d e f : Vec 4 R) :
    let re1 := qmul (qmul a c) e
    let du1 : Vec 4 R := fun i => qmul (qmul a c) f i + qmul (fun j => qmul a d j + qmul b c j) e i
    let re2 := qmul a (qmul c e)
    let du2 : Vec 4 R := fun i => qmul a (fun j => qmul c f j + qmul d e j) i + qmul b (qmul c e) i
    re1 = re2 ∧ du1 = du2 := by
  constructor
  · apply Vec.ext4 <;> simp [qmul] <;> ring
  · apply Vec.ext4 <;> simp [qmul] <;> ring

/-- norm of r + εd is the dual number ‖r‖ + ε ⟨r,d⟩/‖r‖ -/
theorem DQ_norm_spec (r d : Vec 4 R) (n : R × R) (h : Gen.DQ_norm P r d = .ok n) :
    n.1 = P.sqrt (r 0 * r 0 + r 1 * r 1 + r 2 * r 2 + r 3 * r 3) ∧
    n.2 * (2 * n.1) = 2 * (r 0 * d 0 + r 1 * d 1 + r 2 * d 2 + r 3 * d 3) ∨ n.1 = 0 := by
  unfold Gen.DQ_norm at h; simp only [] at h; cases h
  have e : r 0 * r 0 - (r 1 * -r 1 + r 2 * -r 2 + r 3 * -r 3) = r 0 * r 0 + r 1 * r 1 + r 2 * r 2 + r 3 * r 3 := by ring
  rw [e]
  generalize P.sqrt (r 0 * r 0 + r 1 * r 1 + r 2 * r 2 + r 3 * r 3) = s
  by_cases hz : s = 0
  · right; exact hz
  · left
    refine ⟨rfl, ?_⟩
    simp only; field_simp; ring

/-- the real part of the norm of a unit dual quaternion is 1 and its dual part vanishes exactly when r ⟂ d -/
theorem DQ_norm_unit (hs : P.Sqrt) (r d : Vec 4 R) (hr : r 0 * r 0 + r 1 * r 1 + r 2 * r 2 + r 3 * r 3 = 1)
    (hd : r 0 * d 0 + r 1 * d 1 + r 2 * d 2 + r 3 * d 3 = 0) (n : R × R) (h : Gen.DQ_norm P r d = .ok n) :
    n = (1, 0) := by
  unfold Gen.DQ_norm at h; simp only [] at h; cases h
  have e : r 0 * r 0 - (r 1 * -r 1 + r 2 * -r 2 + r 3 * -r 3) = 1 := by linear_combination hr
  have s1 : P.sqrt 1 = 1 := by
    have h1 := hs.mul_self 1 zero_le_one; have h0 := hs.nonneg 1
    have : (P.sqrt 1 - 1) * (P.sqrt 1 + 1) = 0 := by linear_combination h1
    rcases mul_eq_zero.mp this with h2 | h2 <;> linarith
  rw [e, s1]
  refine Prod.ext rfl ?_
  simp only
  have : r 0 * d 0 - (r 1 * -d 1 + r 2 * -d 2 + r 3 * -d 3) + (d 0 * r 0 - (d 1 * -r 1 + d 2 * -r 2 + d 3 * -r 3)) = 0 := by
    linear_combination 2 * hd
  rw [this]; simp

end SmVerif.Props.DualQuat
