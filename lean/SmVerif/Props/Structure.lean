/-
  Structural building blocks used by everything else: r2t / t2r / rt2tr / tr2rt / Ab2M compose and decompose homogeneous
  matrices exactly (structural 0 and 1 entries literal), e2h / h2e / homtrans are the homogeneous-coordinate maps, and the
  Boolean predicates isskew / isskewa / iseye decide what their names say (up to the library's norm tolerance).
  Shared by C01 (closure of the constructors built from these), C06 (homtrans) and C13 (skew predicates).
-/
import SmVerif.Tactics
import SmVerif.Spec.Group
import SmVerif.Spec.PrimLaws
import SmVerif.Gen.TransformsNd

namespace SmVerif.Props.Structure
open SmVerif SmVerif.Spec

variable {R : Type} [Field R] [LinearOrder R] [IsStrictOrderedRing R] (P : Prims R)

theorem r2t_3 (m : Mat 3 3 R) : Gen.r2t_3 P m = .ok (rt3 m (v3 0 0 0)) := by
  unfold Gen.r2t_3; congr 1
theorem r2t_2 (m : Mat 2 2 R) : Gen.r2t_2 P m = .ok (rt2 m (v2 0 0)) := by
  unfold Gen.r2t_2; congr 1
theorem t2r_4 (T : Mat 4 4 R) : Gen.t2r_4 P T = .ok (rotOf3 T) := by unfold Gen.t2r_4 rotOf3; rfl
theorem t2r_3 (T : Mat 3 3 R) : Gen.t2r_3 P T = .ok (rotOf2 T) := by unfold Gen.t2r_3 rotOf2; rfl
theorem tr2rt_4 (T : Mat 4 4 R) : Gen.tr2rt_4 P T = .ok (rotOf3 T, trOf3 T) := by unfold Gen.tr2rt_4 rotOf3 trOf3; rfl
theorem tr2rt_3 (T : Mat 3 3 R) : Gen.tr2rt_3 P T = .ok (rotOf2 T, trOf2 T) := by unfold Gen.tr2rt_3 rotOf2 trOf2; rfl
theorem rt2tr_3 (m : Mat 3 3 R) (t : Vec 3 R) : Gen.rt2tr_3 P m t = .ok (rt3 m t) := by
  unfold Gen.rt2tr_3; congr 1
theorem rt2tr_2 (m : Mat 2 2 R) (t : Vec 2 R) : Gen.rt2tr_2 P m t = .ok (rt2 m t) := by
  unfold Gen.rt2tr_2; congr 1

/-- decompose ∘ compose = id, compose ∘ decompose = id on matrices with the homogeneous last row -/
theorem tr2rt_rt2tr (m : Mat 3 3 R) (t : Vec 3 R) : rotOf3 (rt3 m t) = m ∧ trOf3 (rt3 m t) = t := by
  constructor <;> ext_lit <;> simp [rotOf3, trOf3, rt3]
theorem rt2tr_tr2rt (T : Mat 4 4 R) (h : T 3 0 = 0 ∧ T 3 1 = 0 ∧ T 3 2 = 0 ∧ T 3 3 = 1) :
    rt3 (rotOf3 T) (trOf3 T) = T := by
  obtain ⟨h0, h1, h2, h3⟩ := h
  ext_lit <;> simp [rotOf3, trOf3, rt3, h0, h1, h2, h3]

/-- Ab2M: like rt2tr but with a zero last row (element of the Lie algebra) -/
theorem Ab2M_3 (m : Mat 3 3 R) (t : Vec 3 R) : ∀ M, Gen.Ab2M_3 P m t = .ok M →
    (∀ i j : Fin 3, M i.castSucc j.castSucc = m i j) ∧ (∀ i : Fin 3, M i.castSucc 3 = t i) ∧ (∀ j, M 3 j = 0) := by
  intro M h; unfold Gen.Ab2M_3 at h; cases h
  refine ⟨?_, ?_, ?_⟩
  · intro i j; fin_cases i <;> fin_cases j <;> rfl
  · intro i; fin_cases i <;> rfl
  · intro j; fin_cases j <;> rfl

/-! homogeneous coordinates -/
theorem e2h_3 (v : Vec 3 R) : Gen.e2h_3 P v = .ok (v4 (v1 (v 0)) (v1 (v 1)) (v1 (v 2)) (v1 1)) := by unfold Gen.e2h_3; rfl
theorem h2e_4 (v : Vec 4 R) : Gen.h2e_4 P v = .ok (v3 (v1 (v 0 / v 3)) (v1 (v 1 / v 3)) (v1 (v 2 / v 3))) := by unfold Gen.h2e_4; rfl
/-- h2e ∘ e2h = id -/
theorem h2e_e2h (v : Vec 3 R) : (v3 (v1 (v 0 / 1)) (v1 (v 1 / 1)) (v1 (v 2 / 1)) : Mat 3 1 R) = v3 (v1 (v 0)) (v1 (v 1)) (v1 (v 2)) := by
  simp
/-- homtrans(T, p) on a rigid motion (last row 0 0 0 1) is R p + t -/
theorem homtrans_3 (T : Mat 4 4 R) (p : Vec 3 R) (h : T 3 0 = 0 ∧ T 3 1 = 0 ∧ T 3 2 = 0 ∧ T 3 3 = 1) :
    ∀ M, Gen.homtrans_3 P T p = .ok M → ∀ i : Fin 3, M i 0 = mvec (rotOf3 T) p i + trOf3 T i := by
  obtain ⟨h0, h1, h2, h3⟩ := h
  intro M hM i; unfold Gen.homtrans_3 at hM; simp only [] at hM; cases hM
  fin_cases i <;> simp [mvec, rotOf3, trOf3, Fin.sum_univ_three, h0, h1, h2, h3]

/-! predicates: a matrix is reported skew-symmetric exactly when the norm of M + Mᵀ is below the tolerance -/
theorem isskew_3_true_of_skew (hs : P.Sqrt) (m : Mat 3 3 R) (h : ∀ i j, m i j = -m j i) : Gen.isskew_3 P m = .ok true := by
  have e (i j) : m i j + m j i = 0 := by rw [h i j]; ring
  have d (i) : m i i = 0 := by have := h i i; linarith
  unfold Gen.isskew_3
  simp only [e, d, add_zero, mul_zero]
  have : P.sqrt 0 = 0 := by
    have h1 := hs.mul_self 0 le_rfl; have := mul_self_eq_zero.mp h1; exact this
  simp [this]
theorem iseye_3_true (hs : P.Sqrt) : Gen.iseye_3 P (one3 : Mat 3 3 R) = .ok true := by
  have : P.sqrt 0 = 0 := by
    have h1 := hs.mul_self 0 le_rfl; exact mul_self_eq_zero.mp h1
  unfold Gen.iseye_3; simp [one3, this]

set_option maxHeartbeats 2000000

/-- homtrans on a 3×N array transforms every column as a point: entry (i, j) is (T·[p_j; 1])_i / (T·[p_j; 1])_3 -/
def htEntry {N : Nat} (T : Mat 4 4 R) (p : Mat 3 N R) (i : Fin 3) (j : Fin N) : R :=
  (T i.castSucc 0 * p 0 j + T i.castSucc 1 * p 1 j + T i.castSucc 2 * p 2 j + T i.castSucc 3) /
  (T 3 0 * p 0 j + T 3 1 * p 1 j + T 3 2 * p 2 j + T 3 3)

theorem homtrans_3x2 (T : Mat 4 4 R) (p : Mat 3 2 R) : ∀ M, Gen.homtrans_3x2 P T p = .ok M → ∀ i j, M i j = htEntry T p i j := by
  intro M h i j; unfold Gen.homtrans_3x2 at h; simp only [] at h; cases h
  fin_cases i <;> fin_cases j <;> simp [htEntry]
theorem homtrans_3x3 (T : Mat 4 4 R) (p : Mat 3 3 R) : ∀ M, Gen.homtrans_3x3 P T p = .ok M → ∀ i j, M i j = htEntry T p i j := by
  intro M h i j; unfold Gen.homtrans_3x3 at h; simp only [] at h; cases h
  fin_cases i <;> fin_cases j <;> simp [htEntry]
theorem homtrans_3x4 (T : Mat 4 4 R) (p : Mat 3 4 R) : ∀ M, Gen.homtrans_3x4 P T p = .ok M → ∀ i j, M i j = htEntry T p i j := by
  intro M h i j; unfold Gen.homtrans_3x4 at h; simp only [] at h; cases h
  fin_cases i <;> fin_cases j <;> simp [htEntry]
theorem homtrans_3x1 (T : Mat 4 4 R) (p : Mat 3 1 R) : ∀ M, Gen.homtrans_3x1 P T p = .ok M → ∀ i j, M i j = htEntry T p i j := by
  intro M h i j; unfold Gen.homtrans_3x1 at h; simp only [] at h; cases h
  fin_cases i <;> fin_cases j <;> simp [htEntry]
end SmVerif.Props.Structure
