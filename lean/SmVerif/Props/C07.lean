/-
  C07 — invalid values are rejected: objects never hold non-members.
  (1) the membership predicates: `isR` accepts exactly when the Frobenius residual ‖RRᵀ − I‖ is below the threshold AND
  det R > 0; every member of SO(3) is accepted and every improper orthogonal matrix (reflection) is rejected — exact
  statements about the generated predicate.  The unit / zero / skew predicates are as defined.
  (2) the constructor argument handler (Logic.ArgCheck.arghandler, hand model of smuserlist.arghandler): with checking on,
  whatever container form is used, the object either is not built or holds only valid items, none of them missing.
  Explored (smv/props/c07.py): the 1e-6 band (residual small ⇔ close to the group), every class × form × defect.
-/
import SmVerif.Gen.TransformsNd
import SmVerif.Gen.Transforms3d
import SmVerif.Gen.Quaternions
import SmVerif.Gen.Vectors
import SmVerif.Logic.ArgCheck
import SmVerif.Spec.Group
import SmVerif.Spec.Quat
import SmVerif.Spec.PrimLaws
import Mathlib.Tactic.NormNum
import Mathlib.Tactic.Linarith

namespace SmVerif.Props.C07
open SmVerif SmVerif.Spec SmVerif.Logic
set_option linter.unusedSectionVars false
set_option linter.unusedTactic false
variable {R : Type} [Field R] [LinearOrder R] [IsStrictOrderedRing R] (P : Prims R)

theorem sqrt_zero (hS : P.Sqrt) : P.sqrt 0 = 0 := by
  have h := hS.mul_self 0 (le_refl 0)
  exact mul_self_eq_zero.mp h

/-- isR accepts a matrix only if its determinant is positive: reflections are rejected -/
theorem isR_det_pos (m : Mat 3 3 R) (h : Gen.isR_3 P m = .ok true) : 0 < det3 m := by
  unfold Gen.isR_3 at h; simp only [] at h
  split_ifs at h with h1 h2
  · simpa [det3] using h2
  · cases h
  · cases h

theorem isR_rejects_reflection (m : Mat 3 3 R) (hd : det3 m = -1) : Gen.isR_3 P m ≠ .ok true := by
  intro h
  have := isR_det_pos P m h
  rw [hd] at this; linarith

/-- isR accepts every member of SO(3) -/
theorem isR_accepts_SO3 (hS : P.Sqrt) (m : Mat 3 3 R) (hm : IsSO3 m) : Gen.isR_3 P m = .ok true := by
  have o := hm.orth
  have e := fun i j => congrFun (congrFun o i) j
  have e00 := e 0 0; have e01 := e 0 1; have e02 := e 0 2; have e10 := e 1 0; have e11 := e 1 1; have e12 := e 1 2
  have e20 := e 2 0; have e21 := e 2 1; have e22 := e 2 2
  simp [mmul, mT, one3, Fin.sum_univ_three] at e00 e01 e02 e10 e11 e12 e20 e21 e22
  have hd := hm.det; simp only [det3] at hd
  unfold Gen.isR_3
  simp only [e00, e01, e02, e10, e11, e12, e20, e21, e22, sub_self, mul_zero, add_zero, sqrt_zero P hS]
  have z : (0 : R) < 25 / 1125899906842624 := by norm_num
  rw [if_pos z]
  have : m 0 0 * (m 1 1 * m 2 2 - m 1 2 * m 2 1) - m 0 1 * (m 1 0 * m 2 2 - m 1 2 * m 2 0) + m 0 2 * (m 1 0 * m 2 1 - m 1 1 * m 2 0) > 0 := by
    rw [hd]; norm_num
  rw [if_pos this]

/-- isrot(check=True) is exactly isR on 3×3 arrays -/
theorem isrot_check_eq (m : Mat 3 3 R) : Gen.isrot_check P m = Gen.isR_3 P m := by
  unfold Gen.isrot_check Gen.isR_3; rfl

/-- ishom(check=True) demands the last row to be literally [0 0 0 1] -/
theorem ishom_last_row (T : Mat 4 4 R) (h : Gen.ishom_check P T = .ok true) :
    T 3 0 = 0 ∧ T 3 1 = 0 ∧ T 3 2 = 0 ∧ T 3 3 = 1 := by
  unfold Gen.ishom_check at h; simp only [] at h
  split_ifs at h with h1 h2 h3 h4 h5 h6 <;> first | exact ⟨h3, h4, h5, h6⟩ | cases h

/-- unit-norm predicate of base.quaternions (tolerance 100 eps around 1) -/
theorem qisunit_spec (q : Vec 4 R) :
    Gen.qisunit P q = .ok (decide (|P.sqrt (qnormsq q) - 1| < 25 / 1125899906842624)) := by
  unfold Gen.qisunit; simp only [qnormsq]
  split_ifs with h <;> simp [h]

theorem sqrt_one (hS : P.Sqrt) : P.sqrt 1 = 1 := by
  have h := hS.mul_self 1 (by norm_num)
  have h0 := hS.nonneg 1
  have : (P.sqrt 1 - 1) * (P.sqrt 1 + 1) = 0 := by linear_combination h
  rcases mul_eq_zero.mp this with h1 | h1 <;> linarith

theorem qisunit_accepts (hS : P.Sqrt) (q : Vec 4 R) (hq : qnormsq q = 1) : Gen.qisunit P q = .ok true := by
  rw [qisunit_spec, hq, sqrt_one P hS]
  simp

theorem qisunit_rejects_zero (hS : P.Sqrt) : Gen.qisunit P (v4 0 0 0 0) = .ok false := by
  rw [qisunit_spec]
  have : qnormsq (v4 (0 : R) 0 0 0) = 0 := by simp [qnormsq]
  rw [this, sqrt_zero P hS]
  simp; norm_num

/-! ### the constructor argument handler -/

variable {ι : Type} (valid : ι → Bool) (identity : ι)

/-- with checking on, a constructed object holds only valid items, whatever the container form; the identity (default
constructor) is assumed valid, and objects of the same class hold valid items (they were built by this very rule) -/
theorem arghandler_valid (hid : valid identity = true) (arg : CArg ι) (data : List ι)
    (hobj : ∀ xs, arg = .objects xs ∨ arg = .same xs → xs.all valid = true)
    (h : arghandler valid identity true arg = some data) : data.all valid = true := by
  cases arg with
  | nothing => simp [arghandler] at h; subst h; simp [hid]
  | array x =>
    simp only [arghandler, Bool.not_true, Bool.false_or] at h
    split at h
    · cases h; simp [*]
    · cases h
  | arrays xs =>
    simp only [arghandler, Bool.not_true, Bool.false_or] at h
    split at h
    · cases h; assumption
    · cases h
  | objects xs => simp [arghandler] at h; subst h; exact hobj xs (Or.inl rfl)
  | same xs => simp [arghandler] at h; subst h; exact hobj xs (Or.inr rfl)
  | unknown => simp [arghandler] at h

/-- a list containing an invalid array — in any position, mixed with valid ones — is rejected as a whole: no partially
built object, no missing element -/
theorem arghandler_rejects_mixed (xs ys : List ι) (bad : ι) (hb : valid bad = false) :
    arghandler valid identity true (.arrays (xs ++ bad :: ys)) = none := by
  simp [arghandler, hb]

/-- the stored list is exactly the supplied list (same length, same order) when it is accepted -/
theorem arghandler_keeps (xs data : List ι) (c : Bool) (h : arghandler valid identity c (.arrays xs) = some data) : data = xs := by
  simp only [arghandler] at h
  split at h <;> cases h; rfl

end SmVerif.Props.C07
