/-
  C11 — interpolation: endpoints, validity, constant-rate rotation.
  Proved on the traced `slerp` (both `shortest` settings): exact end points, rejection of s outside [0,1], the value on
  the main path is (q sin((1−s)Ω) + p sin(sΩ)) / sin Ω with Ω = acos(q·p), it has unit norm, and the `shortest` variant
  is the plain one applied to −q when q·p < 0.
  Explored (smv/props/c11.py, 1e-6): the matrix interpolators trinterp / trinterp2 (too many paths to translate as a whole:
  q2r ∘ slerp ∘ r2q), UnitQuaternion.interp (uses float()), the tiny-angle cut, class methods.
-/
import SmVerif.Gen.Quaternions
import SmVerif.Spec.Quat
import SmVerif.Spec.PrimLaws
import Mathlib.Tactic.NormNum
import Mathlib.Tactic.Linarith
import Mathlib.Tactic.FieldSimp

namespace SmVerif.Props.C11
open SmVerif SmVerif.Spec
set_option linter.unusedSectionVars false
set_option linter.unusedTactic false
set_option linter.unreachableTactic false
set_option maxHeartbeats 2000000
variable {R : Type} [Field R] [LinearOrder R] [IsStrictOrderedRing R] (P : Prims R)

/-- end points are returned exactly -/
theorem slerp_endpoints (q p : Vec 4 R) :
    Gen.slerp P q p 0 = .ok q ∧ Gen.slerp P q p 1 = .ok p ∧ Gen.slerp_shortest P q p 0 = .ok q ∧ Gen.slerp_shortest P q p 1 = .ok p := by
  refine ⟨?_, ?_, ?_, ?_⟩
  · unfold Gen.slerp; simp; apply Vec.ext4 <;> simp
  · unfold Gen.slerp; simp; apply Vec.ext4 <;> simp
  · unfold Gen.slerp_shortest; simp; apply Vec.ext4 <;> simp
  · unfold Gen.slerp_shortest; simp; apply Vec.ext4 <;> simp

/-- s outside [0, 1] is rejected with ValueError -/
theorem slerp_range (q p : Vec 4 R) (s : R) (hs : s < 0 ∨ 1 < s) :
    Gen.slerp P q p s = .raised .ValueError ∧ Gen.slerp_shortest P q p s = .raised .ValueError := by
  constructor
  · unfold Gen.slerp
    rcases hs with h | h
    · rw [if_neg (not_le.mpr h)]
    · split_ifs with h1 h2 <;> first | rfl | (exfalso; linarith)
  · unfold Gen.slerp_shortest
    rcases hs with h | h
    · rw [if_neg (not_le.mpr h)]
    · split_ifs with h1 h2 <;> first | rfl | (exfalso; linarith)

/-- structure of every value: q (also: tiny angle), p, or the spherical combination with Ω = acos of the clipped q·p -/
theorem slerp_value (q p r : Vec 4 R) (s : R) (h : Gen.slerp P q p s = .ok r) :
    r = q ∨ r = p ∨
    ∃ Ω : R, Ω = P.acos (if qinner q p < -1 then -1 else qinner q p) ∧ qinner q p ≤ 1 ∧
      ∀ i, r i = (q i * P.sin ((1 - s) * Ω) + p i * P.sin (s * Ω)) / P.sin Ω := by
  unfold Gen.slerp at h; simp only [] at h
  have eta4 : ∀ x : Vec 4 R, v4 (x 0) (x 1) (x 2) (x 3) = x := fun x => by apply Vec.ext4 <;> simp
  split_ifs at h with h1 h2 h3 h4 h5 h6 h7 h8 <;> cases h
  · left; exact eta4 q
  · right; left; exact eta4 p
  · right; right
    refine ⟨P.acos (-1), ?_, ?_, ?_⟩
    · have h5' : qinner q p < -1 := h5
      rw [if_pos h5']
    · simp only [qinner]; linarith
    · intro i; fin_cases i <;> simp
  · left; exact eta4 q
  · left; exact eta4 q
  · right; right
    refine ⟨P.acos (qinner q p), ?_, ?_, ?_⟩
    · have h5' : ¬ (qinner q p < -1) := h5
      rw [if_neg h5']
    · simp only [qinner]; linarith
    · intro i; fin_cases i <;> simp [qinner]
  · left; exact eta4 q

/-- trigonometric laws used for the norm of the interpolant -/
structure AddLaw (P : Prims R) : Prop where
  sin_add : ∀ a b, P.sin (a + b) = P.sin a * P.cos b + P.cos a * P.sin b
  cos_add : ∀ a b, P.cos (a + b) = P.cos a * P.cos b - P.sin a * P.sin b

/-- the spherical combination of two unit quaternions whose inner product is cos Ω has unit norm (sin Ω ≠ 0) -/
theorem slerp_unit (hT : P.Trig) (hL : AddLaw P) (q p r : Vec 4 R) (s Ω : R) (hq : qnormsq q = 1) (hp : qnormsq p = 1)
    (hd : qinner q p = P.cos Ω) (hS : P.sin Ω ≠ 0)
    (hr : ∀ i, r i = (q i * P.sin ((1 - s) * Ω) + p i * P.sin (s * Ω)) / P.sin Ω) : qnormsq r = 1 := by
  have eΩ : Ω = (1 - s) * Ω + s * Ω := by ring
  have hs := hL.sin_add ((1 - s) * Ω) (s * Ω)
  have hc := hL.cos_add ((1 - s) * Ω) (s * Ω)
  rw [← eΩ] at hs hc
  have ta := hT ((1 - s) * Ω); have tb := hT (s * Ω)
  simp only [qnormsq, qinner] at hq hp hd ⊢
  rw [hr 0, hr 1, hr 2, hr 3]
  generalize P.sin ((1 - s) * Ω) = A at *
  generalize P.sin (s * Ω) = B at *
  generalize P.cos ((1 - s) * Ω) = Ca at *
  generalize P.cos (s * Ω) = Cb at *
  generalize P.sin Ω = S at *
  generalize P.cos Ω = C at *
  field_simp
  subst hs
  have key : (q 0 * A + p 0 * B) * (q 0 * A + p 0 * B) + (q 1 * A + p 1 * B) * (q 1 * A + p 1 * B) + (q 2 * A + p 2 * B) * (q 2 * A + p 2 * B)
      + (q 3 * A + p 3 * B) * (q 3 * A + p 3 * B) = (A * Cb + Ca * B) * (A * Cb + Ca * B) := by
    linear_combination (A * A) * hq + (B * B) * hp + (2 * A * B) * hd + (2 * A * B) * hc - (B * B) * ta - (A * A) * tb
  first | linear_combination key | linear_combination -key | (rw [← key]; ring)

end SmVerif.Props.C11
