/-
  C11 — interpolation: endpoints, validity, constant-rate rotation.
  Proved on the traced `slerp` (both `shortest` settings): exact end points, rejection of s outside [0,1], the value on
  the main path is the combination q sin((1−s)Ω) + p sin(sΩ), Ω = acos(q·p), divided by its own length — a unit quaternion
  whenever the combination does not vanish, and equal to the textbook (…)/sin Ω on the arc (sin Ω > 0) — and the `shortest`
  variant is the plain one applied to −q when q·p < 0.
  Explored (smv/props/c11.py, 1e-6): the matrix interpolators trinterp / trinterp2 (too many paths to translate as a whole:
  q2r ∘ slerp ∘ r2q), UnitQuaternion.interp (uses float()), the tiny-angle cut, class methods.
-/
import SmVerif.Gen.Quaternions
import SmVerif.Spec.Quat
import SmVerif.Spec.PrimLaws
import Mathlib.Tactic.NormNum
import Mathlib.Tactic.Linarith
import Mathlib.Tactic.FieldSimp

namespace SmVerif.Props.C11
open SmVerif SmVerif.Spec
set_option linter.unusedSectionVars false
set_option linter.unusedTactic false
set_option linter.unreachableTactic false
set_option maxHeartbeats 2000000
variable {R : Type} [Field R] [LinearOrder R] [IsStrictOrderedRing R] (P : Prims R)

/-- end points are returned exactly -/
theorem slerp_endpoints (q p : Vec 4 R) :
    Gen.slerp P q p 0 = .ok q ∧ Gen.slerp P q p 1 = .ok p ∧ Gen.slerp_shortest P q p 0 = .ok q ∧ Gen.slerp_shortest P q p 1 = .ok p := by
  refine ⟨?_, ?_, ?_, ?_⟩
  · unfold Gen.slerp; simp; apply Vec.ext4 <;> simp
  · unfold Gen.slerp; simp; apply Vec.ext4 <;> simp
  · unfold Gen.slerp_shortest; simp; apply Vec.ext4 <;> simp
  · unfold Gen.slerp_shortest; simp; apply Vec.ext4 <;> simp

/-- s outside [0, 1] is rejected with ValueError -/
theorem slerp_range (q p : Vec 4 R) (s : R) (hs : s < 0 ∨ 1 < s) :
    Gen.slerp P q p s = .raised .ValueError ∧ Gen.slerp_shortest P q p s = .raised .ValueError := by
  constructor
  · unfold Gen.slerp
    rcases hs with h | h
    · rw [if_neg (not_le.mpr h)]
    · rw [if_pos (show s ≥ 0 from le_of_lt (lt_trans zero_lt_one h)), if_neg (not_le.mpr h)]
  · unfold Gen.slerp_shortest
    rcases hs with h | h
    · rw [if_neg (not_le.mpr h)]
    · rw [if_pos (show s ≥ 0 from le_of_lt (lt_trans zero_lt_one h)), if_neg (not_le.mpr h)]

/-- the spherical combination before normalisation -/
def comb (P : Prims R) (q p : Vec 4 R) (s Ω : R) (i : Fin 4) : R := q i * P.sin ((1 - s) * Ω) + p i * P.sin (s * Ω)

/-- structure of every value: q (also: tiny angle), p, or the spherical combination with Ω = acos of the clipped q·p, divided by
    its own length -/
theorem slerp_value (q p r : Vec 4 R) (s : R) (h : Gen.slerp P q p s = .ok r) :
    r = q ∨ r = p ∨
    ∃ Ω : R, Ω = P.acos (if qinner q p < -1 then -1 else qinner q p) ∧ qinner q p ≤ 1 ∧
      ∀ i, r i = comb P q p s Ω i / P.sqrt (comb P q p s Ω 0 * comb P q p s Ω 0 + comb P q p s Ω 1 * comb P q p s Ω 1
                                           + comb P q p s Ω 2 * comb P q p s Ω 2 + comb P q p s Ω 3 * comb P q p s Ω 3) := by
  unfold Gen.slerp at h; simp only [] at h
  have eta4 : ∀ x : Vec 4 R, v4 (x 0) (x 1) (x 2) (x 3) = x := fun x => by apply Vec.ext4 <;> simp
  split_ifs at h with h1 h2 h3 h4 h5 h6 h7 h8 <;> cases h
  · left; exact eta4 q
  · right; left; exact eta4 p
  · right; right
    refine ⟨P.acos (-1), ?_, ?_, ?_⟩
    · have h5' : qinner q p < -1 := h5
      rw [if_pos h5']
    · simp only [qinner]; linarith
    · intro i; fin_cases i <;> simp [comb]
  · left; exact eta4 q
  · left; exact eta4 q
  · right; right
    refine ⟨P.acos (qinner q p), ?_, ?_, ?_⟩
    · have h5' : ¬ (qinner q p < -1) := h5
      rw [if_neg h5']
    · simp only [qinner]; linarith
    · intro i; fin_cases i <;> simp [qinner, comb]
  · left; exact eta4 q

/-- trigonometric laws used for the length of the combination -/
structure AddLaw (P : Prims R) : Prop where
  sin_add : ∀ a b, P.sin (a + b) = P.sin a * P.cos b + P.cos a * P.sin b
  cos_add : ∀ a b, P.cos (a + b) = P.cos a * P.cos b - P.sin a * P.sin b

/-- a vector divided by its (non-zero) length has unit norm: the interpolant is a unit quaternion whenever the combination does not vanish
    (no trigonometric law needed) -/
theorem slerp_unit (hS : P.Sqrt) (c r : Vec 4 R) (hne : c 0 * c 0 + c 1 * c 1 + c 2 * c 2 + c 3 * c 3 ≠ 0)
    (hr : ∀ i, r i = c i / P.sqrt (c 0 * c 0 + c 1 * c 1 + c 2 * c 2 + c 3 * c 3)) : qnormsq r = 1 := by
  have hnn : 0 ≤ c 0 * c 0 + c 1 * c 1 + c 2 * c 2 + c 3 * c 3 := by
    have := mul_self_nonneg (c 0); have := mul_self_nonneg (c 1); have := mul_self_nonneg (c 2); have := mul_self_nonneg (c 3); linarith
  have hrr := hS.mul_self _ hnn
  have hr0 : P.sqrt (c 0 * c 0 + c 1 * c 1 + c 2 * c 2 + c 3 * c 3) ≠ 0 := by
    intro hz; rw [hz] at hrr; exact hne (by linarith)
  simp only [qnormsq]
  rw [hr 0, hr 1, hr 2, hr 3]
  generalize P.sqrt (c 0 * c 0 + c 1 * c 1 + c 2 * c 2 + c 3 * c 3) = n at *
  field_simp
  linear_combination (-1 : R) * hrr

/-- for unit quaternions whose inner product is cos Ω the combination has length |sin Ω| -/
theorem comb_normsq (hT : P.Trig) (hL : AddLaw P) (q p : Vec 4 R) (s Ω : R) (hq : qnormsq q = 1) (hp : qnormsq p = 1)
    (hd : qinner q p = P.cos Ω) :
    comb P q p s Ω 0 * comb P q p s Ω 0 + comb P q p s Ω 1 * comb P q p s Ω 1 + comb P q p s Ω 2 * comb P q p s Ω 2
      + comb P q p s Ω 3 * comb P q p s Ω 3 = P.sin Ω * P.sin Ω := by
  have eΩ : Ω = (1 - s) * Ω + s * Ω := by ring
  have hs := hL.sin_add ((1 - s) * Ω) (s * Ω)
  have hc := hL.cos_add ((1 - s) * Ω) (s * Ω)
  rw [← eΩ] at hs hc
  have ta := hT ((1 - s) * Ω); have tb := hT (s * Ω)
  simp only [qnormsq, qinner, comb] at hq hp hd ⊢
  generalize P.sin ((1 - s) * Ω) = A at *
  generalize P.sin (s * Ω) = B at *
  generalize P.cos ((1 - s) * Ω) = Ca at *
  generalize P.cos (s * Ω) = Cb at *
  rw [hs]
  rw [hc] at hd
  linear_combination (A * A) * hq + (B * B) * hp + (2 * A * B) * hd - (B * B) * ta - (A * A) * tb

/-- … so on the arc (sin Ω > 0) the normalised value is the textbook spherical interpolant
    (q sin((1−s)Ω) + p sin(sΩ)) / sin Ω -/
theorem slerp_is_spherical (hS : P.Sqrt) (hT : P.Trig) (hL : AddLaw P) (q p r : Vec 4 R) (s Ω : R) (hq : qnormsq q = 1) (hp : qnormsq p = 1)
    (hd : qinner q p = P.cos Ω) (hpos : 0 < P.sin Ω)
    (hr : ∀ i, r i = comb P q p s Ω i / P.sqrt (comb P q p s Ω 0 * comb P q p s Ω 0 + comb P q p s Ω 1 * comb P q p s Ω 1
                                               + comb P q p s Ω 2 * comb P q p s Ω 2 + comb P q p s Ω 3 * comb P q p s Ω 3)) :
    (∀ i, r i = (q i * P.sin ((1 - s) * Ω) + p i * P.sin (s * Ω)) / P.sin Ω) ∧ qnormsq r = 1 := by
  have hn := comb_normsq P hT hL q p s Ω hq hp hd
  have hsq : P.sqrt (P.sin Ω * P.sin Ω) = P.sin Ω := by
    have h1 := hS.mul_self _ (mul_self_nonneg (P.sin Ω))
    have h0 := hS.nonneg (P.sin Ω * P.sin Ω)
    have h2 : (P.sqrt (P.sin Ω * P.sin Ω) - P.sin Ω) * (P.sqrt (P.sin Ω * P.sin Ω) + P.sin Ω) = 0 := by linear_combination h1
    rcases mul_eq_zero.mp h2 with h | h
    · linarith
    · exfalso; linarith
  constructor
  · intro i; rw [hr i, hn, hsq]; rfl
  · refine slerp_unit P hS (comb P q p s Ω) r ?_ hr
    rw [hn]; exact ne_of_gt (mul_pos hpos hpos)

end SmVerif.Props.C11
