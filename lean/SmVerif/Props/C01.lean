/-
  C01 — Closure: every constructed or composed value is a valid group member.
  Property theorems only; all are about the generated definitions `Gen.*`.
  Exact-arithmetic statements: "orthonormal with determinant +1", "last row [0 … 0 1]", "norm 1"
  hold exactly in every ordered field given the stated laws of sin/cos/sqrt; the 1e-9 float
  tolerance of the property is explored by the monitor (smv/props/c01.py).
-/
import SmVerif.Bridge.Rot
import SmVerif.Bridge.AngVec
import SmVerif.Bridge.Poses
import SmVerif.Bridge.Quat
import SmVerif.Spec.PrimLaws

namespace SmVerif.Props.C01
open SmVerif SmVerif.Spec SmVerif.Bridge
set_option linter.unusedSectionVars false
variable {R : Type} [Field R] [LinearOrder R] [IsStrictOrderedRing R] (P : Prims R)

/-! ### axis rotations (either unit), 2-D and 3-D, with and without translation -/

theorem rotx_rad_mem (hT : P.Trig) (th : R) (M : Mat 3 3 R) (h : Gen.rotx_rad P th = .ok M) : IsSO3 M := by
  rw [Bridge.rotx_rad] at h; cases h; exact rotx_SO3 _ _ (hT _)

theorem trotx_rad_mem (hT : P.Trig) (th : R) (M : Mat 4 4 R) (h : Gen.trotx_rad P th = .ok M) : IsSE3 M := by
  rw [Bridge.trotx_rad] at h; cases h; exact isSE3_rt3 _ (rotx_SO3 _ _ (hT _))

theorem rotx_deg_mem (hT : P.Trig) (th : R) (M : Mat 3 3 R) (h : Gen.rotx_deg P th = .ok M) : IsSO3 M := by
  rw [Bridge.rotx_deg] at h; cases h; exact rotx_SO3 _ _ (hT _)

theorem trotx_deg_mem (hT : P.Trig) (th : R) (M : Mat 4 4 R) (h : Gen.trotx_deg P th = .ok M) : IsSE3 M := by
  rw [Bridge.trotx_deg] at h; cases h; exact isSE3_rt3 _ (rotx_SO3 _ _ (hT _))

theorem trotx_t_mem (hT : P.Trig) (th : R) (t : Vec 3 R) (M : Mat 4 4 R) (h : Gen.trotx_t P th t = .ok M) : IsSE3 M := by
  rw [Bridge.trotx_t] at h; cases h; exact isSE3_rt3 _ (rotx_SO3 _ _ (hT _))

theorem roty_rad_mem (hT : P.Trig) (th : R) (M : Mat 3 3 R) (h : Gen.roty_rad P th = .ok M) : IsSO3 M := by
  rw [Bridge.roty_rad] at h; cases h; exact roty_SO3 _ _ (hT _)

theorem troty_rad_mem (hT : P.Trig) (th : R) (M : Mat 4 4 R) (h : Gen.troty_rad P th = .ok M) : IsSE3 M := by
  rw [Bridge.troty_rad] at h; cases h; exact isSE3_rt3 _ (roty_SO3 _ _ (hT _))

theorem roty_deg_mem (hT : P.Trig) (th : R) (M : Mat 3 3 R) (h : Gen.roty_deg P th = .ok M) : IsSO3 M := by
  rw [Bridge.roty_deg] at h; cases h; exact roty_SO3 _ _ (hT _)

theorem troty_deg_mem (hT : P.Trig) (th : R) (M : Mat 4 4 R) (h : Gen.troty_deg P th = .ok M) : IsSE3 M := by
  rw [Bridge.troty_deg] at h; cases h; exact isSE3_rt3 _ (roty_SO3 _ _ (hT _))

theorem troty_t_mem (hT : P.Trig) (th : R) (t : Vec 3 R) (M : Mat 4 4 R) (h : Gen.troty_t P th t = .ok M) : IsSE3 M := by
  rw [Bridge.troty_t] at h; cases h; exact isSE3_rt3 _ (roty_SO3 _ _ (hT _))

theorem rotz_rad_mem (hT : P.Trig) (th : R) (M : Mat 3 3 R) (h : Gen.rotz_rad P th = .ok M) : IsSO3 M := by
  rw [Bridge.rotz_rad] at h; cases h; exact rotz_SO3 _ _ (hT _)

theorem trotz_rad_mem (hT : P.Trig) (th : R) (M : Mat 4 4 R) (h : Gen.trotz_rad P th = .ok M) : IsSE3 M := by
  rw [Bridge.trotz_rad] at h; cases h; exact isSE3_rt3 _ (rotz_SO3 _ _ (hT _))

theorem rotz_deg_mem (hT : P.Trig) (th : R) (M : Mat 3 3 R) (h : Gen.rotz_deg P th = .ok M) : IsSO3 M := by
  rw [Bridge.rotz_deg] at h; cases h; exact rotz_SO3 _ _ (hT _)

theorem trotz_deg_mem (hT : P.Trig) (th : R) (M : Mat 4 4 R) (h : Gen.trotz_deg P th = .ok M) : IsSE3 M := by
  rw [Bridge.trotz_deg] at h; cases h; exact isSE3_rt3 _ (rotz_SO3 _ _ (hT _))

theorem trotz_t_mem (hT : P.Trig) (th : R) (t : Vec 3 R) (M : Mat 4 4 R) (h : Gen.trotz_t P th t = .ok M) : IsSE3 M := by
  rw [Bridge.trotz_t] at h; cases h; exact isSE3_rt3 _ (rotz_SO3 _ _ (hT _))

theorem rot2_rad_mem (hT : P.Trig) (th : R) (M : Mat 2 2 R) (h : Gen.rot2_rad P th = .ok M) : IsSO2 M := by
  rw [Bridge.rot2_rad] at h; cases h; exact rot2_SO2 _ _ (hT _)

theorem trot2_rad_mem (hT : P.Trig) (th : R) (M : Mat 3 3 R) (h : Gen.trot2_rad P th = .ok M) : IsSE2 M := by
  rw [Bridge.trot2_rad] at h; cases h; exact isSE2_rt2 _ (rot2_SO2 _ _ (hT _))

theorem rot2_deg_mem (hT : P.Trig) (th : R) (M : Mat 2 2 R) (h : Gen.rot2_deg P th = .ok M) : IsSO2 M := by
  rw [Bridge.rot2_deg] at h; cases h; exact rot2_SO2 _ _ (hT _)

theorem trot2_deg_mem (hT : P.Trig) (th : R) (M : Mat 3 3 R) (h : Gen.trot2_deg P th = .ok M) : IsSE2 M := by
  rw [Bridge.trot2_deg] at h; cases h; exact isSE2_rt2 _ (rot2_SO2 _ _ (hT _))

theorem trot2_t_mem (hT : P.Trig) (th : R) (t : Vec 2 R) (M : Mat 3 3 R) (h : Gen.trot2_t P th t = .ok M) : IsSE2 M := by
  rw [Bridge.trot2_t] at h; cases h; exact isSE2_rt2 _ (rot2_SO2 _ _ (hT _))

theorem xyt2tr_mem (hT : P.Trig) (v : Vec 3 R) (M : Mat 3 3 R) (h : Gen.xyt2tr P v = .ok M) : IsSE2 M := by
  rw [Bridge.xyt2tr] at h; cases h; exact isSE2_rt2 _ (rot2_SO2 _ _ (hT _))

/-! ### roll-pitch-yaw (every order name and alias, either unit, packed or separate angles) and Euler -/

theorem rpyZYX_SO3 (hT : P.Trig) (u : R → R) (v : Vec 3 R) : IsSO3 (rpyZYX P u v) :=
  ((rotz_SO3 _ _ (hT _)).mul (roty_SO3 _ _ (hT _))).mul (rotx_SO3 _ _ (hT _))
theorem rpyXYZ_SO3 (hT : P.Trig) (u : R → R) (v : Vec 3 R) : IsSO3 (rpyXYZ P u v) :=
  ((rotx_SO3 _ _ (hT _)).mul (roty_SO3 _ _ (hT _))).mul (rotz_SO3 _ _ (hT _))
theorem rpyYXZ_SO3 (hT : P.Trig) (u : R → R) (v : Vec 3 R) : IsSO3 (rpyYXZ P u v) :=
  ((roty_SO3 _ _ (hT _)).mul (rotx_SO3 _ _ (hT _))).mul (rotz_SO3 _ _ (hT _))
theorem eulZYZ_SO3 (hT : P.Trig) (u : R → R) (v : Vec 3 R) : IsSO3 (eulZYZ P u v) :=
  ((rotz_SO3 _ _ (hT _)).mul (roty_SO3 _ _ (hT _))).mul (rotz_SO3 _ _ (hT _))

theorem rpy2r_zyx_rad_mem (hT : P.Trig) (v : Vec 3 R) (M : Mat 3 3 R) (h : Gen.rpy2r_zyx_rad P v = .ok M) : IsSO3 M := by
  rw [Bridge.rpy2r_zyx_rad] at h; cases h; exact rpyZYX_SO3 P hT _ _

theorem rpy2r_zyx_deg_mem (hT : P.Trig) (v : Vec 3 R) (M : Mat 3 3 R) (h : Gen.rpy2r_zyx_deg P v = .ok M) : IsSO3 M := by
  rw [Bridge.rpy2r_zyx_deg] at h; cases h; exact rpyZYX_SO3 P hT _ _

theorem rpy2r_zyx_scalars_mem (hT : P.Trig) (r p y : R) (M : Mat 3 3 R) (h : Gen.rpy2r_zyx_scalars P r p y = .ok M) : IsSO3 M := by
  rw [Bridge.rpy2r_zyx_scalars] at h; cases h; exact rpyZYX_SO3 P hT _ _

theorem rpy2tr_zyx_mem (hT : P.Trig) (v : Vec 3 R) (M : Mat 4 4 R) (h : Gen.rpy2tr_zyx P v = .ok M) : IsSE3 M := by
  rw [Bridge.rpy2tr_zyx] at h; cases h; exact isSE3_rt3 _ (rpyZYX_SO3 P hT _ _)

theorem rpy2r_vehicle_rad_mem (hT : P.Trig) (v : Vec 3 R) (M : Mat 3 3 R) (h : Gen.rpy2r_vehicle_rad P v = .ok M) : IsSO3 M := by
  rw [Bridge.rpy2r_vehicle_rad] at h; cases h; exact rpyZYX_SO3 P hT _ _

theorem rpy2r_vehicle_deg_mem (hT : P.Trig) (v : Vec 3 R) (M : Mat 3 3 R) (h : Gen.rpy2r_vehicle_deg P v = .ok M) : IsSO3 M := by
  rw [Bridge.rpy2r_vehicle_deg] at h; cases h; exact rpyZYX_SO3 P hT _ _

theorem rpy2r_vehicle_scalars_mem (hT : P.Trig) (r p y : R) (M : Mat 3 3 R) (h : Gen.rpy2r_vehicle_scalars P r p y = .ok M) : IsSO3 M := by
  rw [Bridge.rpy2r_vehicle_scalars] at h; cases h; exact rpyZYX_SO3 P hT _ _

theorem rpy2tr_vehicle_mem (hT : P.Trig) (v : Vec 3 R) (M : Mat 4 4 R) (h : Gen.rpy2tr_vehicle P v = .ok M) : IsSE3 M := by
  rw [Bridge.rpy2tr_vehicle] at h; cases h; exact isSE3_rt3 _ (rpyZYX_SO3 P hT _ _)

theorem rpy2r_xyz_rad_mem (hT : P.Trig) (v : Vec 3 R) (M : Mat 3 3 R) (h : Gen.rpy2r_xyz_rad P v = .ok M) : IsSO3 M := by
  rw [Bridge.rpy2r_xyz_rad] at h; cases h; exact rpyXYZ_SO3 P hT _ _

theorem rpy2r_xyz_deg_mem (hT : P.Trig) (v : Vec 3 R) (M : Mat 3 3 R) (h : Gen.rpy2r_xyz_deg P v = .ok M) : IsSO3 M := by
  rw [Bridge.rpy2r_xyz_deg] at h; cases h; exact rpyXYZ_SO3 P hT _ _

theorem rpy2r_xyz_scalars_mem (hT : P.Trig) (r p y : R) (M : Mat 3 3 R) (h : Gen.rpy2r_xyz_scalars P r p y = .ok M) : IsSO3 M := by
  rw [Bridge.rpy2r_xyz_scalars] at h; cases h; exact rpyXYZ_SO3 P hT _ _

theorem rpy2tr_xyz_mem (hT : P.Trig) (v : Vec 3 R) (M : Mat 4 4 R) (h : Gen.rpy2tr_xyz P v = .ok M) : IsSE3 M := by
  rw [Bridge.rpy2tr_xyz] at h; cases h; exact isSE3_rt3 _ (rpyXYZ_SO3 P hT _ _)

theorem rpy2r_arm_rad_mem (hT : P.Trig) (v : Vec 3 R) (M : Mat 3 3 R) (h : Gen.rpy2r_arm_rad P v = .ok M) : IsSO3 M := by
  rw [Bridge.rpy2r_arm_rad] at h; cases h; exact rpyXYZ_SO3 P hT _ _

theorem rpy2r_arm_deg_mem (hT : P.Trig) (v : Vec 3 R) (M : Mat 3 3 R) (h : Gen.rpy2r_arm_deg P v = .ok M) : IsSO3 M := by
  rw [Bridge.rpy2r_arm_deg] at h; cases h; exact rpyXYZ_SO3 P hT _ _

theorem rpy2r_arm_scalars_mem (hT : P.Trig) (r p y : R) (M : Mat 3 3 R) (h : Gen.rpy2r_arm_scalars P r p y = .ok M) : IsSO3 M := by
  rw [Bridge.rpy2r_arm_scalars] at h; cases h; exact rpyXYZ_SO3 P hT _ _

theorem rpy2tr_arm_mem (hT : P.Trig) (v : Vec 3 R) (M : Mat 4 4 R) (h : Gen.rpy2tr_arm P v = .ok M) : IsSE3 M := by
  rw [Bridge.rpy2tr_arm] at h; cases h; exact isSE3_rt3 _ (rpyXYZ_SO3 P hT _ _)

theorem rpy2r_yxz_rad_mem (hT : P.Trig) (v : Vec 3 R) (M : Mat 3 3 R) (h : Gen.rpy2r_yxz_rad P v = .ok M) : IsSO3 M := by
  rw [Bridge.rpy2r_yxz_rad] at h; cases h; exact rpyYXZ_SO3 P hT _ _

theorem rpy2r_yxz_deg_mem (hT : P.Trig) (v : Vec 3 R) (M : Mat 3 3 R) (h : Gen.rpy2r_yxz_deg P v = .ok M) : IsSO3 M := by
  rw [Bridge.rpy2r_yxz_deg] at h; cases h; exact rpyYXZ_SO3 P hT _ _

theorem rpy2r_yxz_scalars_mem (hT : P.Trig) (r p y : R) (M : Mat 3 3 R) (h : Gen.rpy2r_yxz_scalars P r p y = .ok M) : IsSO3 M := by
  rw [Bridge.rpy2r_yxz_scalars] at h; cases h; exact rpyYXZ_SO3 P hT _ _

theorem rpy2tr_yxz_mem (hT : P.Trig) (v : Vec 3 R) (M : Mat 4 4 R) (h : Gen.rpy2tr_yxz P v = .ok M) : IsSE3 M := by
  rw [Bridge.rpy2tr_yxz] at h; cases h; exact isSE3_rt3 _ (rpyYXZ_SO3 P hT _ _)

theorem rpy2r_camera_rad_mem (hT : P.Trig) (v : Vec 3 R) (M : Mat 3 3 R) (h : Gen.rpy2r_camera_rad P v = .ok M) : IsSO3 M := by
  rw [Bridge.rpy2r_camera_rad] at h; cases h; exact rpyYXZ_SO3 P hT _ _

theorem rpy2r_camera_deg_mem (hT : P.Trig) (v : Vec 3 R) (M : Mat 3 3 R) (h : Gen.rpy2r_camera_deg P v = .ok M) : IsSO3 M := by
  rw [Bridge.rpy2r_camera_deg] at h; cases h; exact rpyYXZ_SO3 P hT _ _

theorem rpy2r_camera_scalars_mem (hT : P.Trig) (r p y : R) (M : Mat 3 3 R) (h : Gen.rpy2r_camera_scalars P r p y = .ok M) : IsSO3 M := by
  rw [Bridge.rpy2r_camera_scalars] at h; cases h; exact rpyYXZ_SO3 P hT _ _

theorem rpy2tr_camera_mem (hT : P.Trig) (v : Vec 3 R) (M : Mat 4 4 R) (h : Gen.rpy2tr_camera P v = .ok M) : IsSE3 M := by
  rw [Bridge.rpy2tr_camera] at h; cases h; exact isSE3_rt3 _ (rpyYXZ_SO3 P hT _ _)

theorem eul2r_rad_mem (hT : P.Trig) (v : Vec 3 R) (M : Mat 3 3 R) (h : Gen.eul2r_rad P v = .ok M) : IsSO3 M := by
  rw [Bridge.eul2r_rad] at h; cases h; exact eulZYZ_SO3 P hT _ _

theorem eul2r_deg_mem (hT : P.Trig) (v : Vec 3 R) (M : Mat 3 3 R) (h : Gen.eul2r_deg P v = .ok M) : IsSO3 M := by
  rw [Bridge.eul2r_deg] at h; cases h; exact eulZYZ_SO3 P hT _ _

theorem eul2r_scalars_mem (hT : P.Trig) (a b c : R) (M : Mat 3 3 R) (h : Gen.eul2r_scalars P a b c = .ok M) : IsSO3 M := by
  rw [Bridge.eul2r_scalars] at h; cases h; exact eulZYZ_SO3 P hT _ _

theorem eul2tr_mem (hT : P.Trig) (v : Vec 3 R) (M : Mat 4 4 R) (h : Gen.eul2tr P v = .ok M) : IsSE3 M := by
  rw [Bridge.eul2tr] at h; cases h; exact isSE3_rt3 _ (eulZYZ_SO3 P hT _ _)

/-! ### axis-angle: any angle, any axis the library does not treat as zero -/

theorem angvec2r_mem (hT : P.Trig) (hS : P.Sqrt) (th : R) (v : Vec 3 R) (M : Mat 3 3 R)
    (h : Gen.angvec2r P th v = .ok M) : IsSO3 M := by
  rcases angvec2r_cases P th v M h with rfl | ⟨hn, rfl⟩
  · exact IsSO3.one
  · exact rodM_SO3 _ _ _ (unit_of_div P hS v hn) (hT _)

theorem angvec2r_deg_mem (hT : P.Trig) (hS : P.Sqrt) (th : R) (v : Vec 3 R) (M : Mat 3 3 R)
    (h : Gen.angvec2r_deg P th v = .ok M) : IsSO3 M := by
  rcases angvec2r_deg_cases P th v M h with rfl | ⟨hn, rfl⟩
  · exact IsSO3.one
  · exact rodM_SO3 _ _ _ (unit_of_div P hS v hn) (hT _)

/-- non-vacuity: over ℚ with an exact square root on the value met, the ok-path hypotheses hold -/
example : (v3 (3 / 5 : ℚ) (4 / 5) 0 0) ^ 2 + (v3 (3 / 5 : ℚ) (4 / 5) 0 1) ^ 2 + (v3 (3 / 5 : ℚ) (4 / 5) 0 2) ^ 2 = 1 := by
  norm_num

/-! ### unit quaternion → rotation matrix -/

theorem q2r_mem (q : Vec 4 R) (hq : qnormsq q = 1) (M : Mat 3 3 R) (h : Gen.q2r P q = .ok M) : IsSO3 M := by
  rw [Bridge.q2r] at h; cases h; exact q2r_SO3 q hq

/-! ### group operations of the pose classes (traced class operators) -/

theorem SO2_mul_mem (A B M : Mat 2 2 R) (ha : IsSO2 A) (hb : IsSO2 B) (h : Gen.SO2_mul P A B = .ok M) : IsSO2 M := by
  rw [Bridge.SO2_mul] at h; cases h; exact ha.mul hb

theorem SO2_identity_mem (M : Mat 2 2 R) (h : Gen.SO2_identity P = .ok M) : IsSO2 M := by
  rw [Bridge.SO2_identity] at h; cases h; exact IsSO2.one

theorem SO2_mpow_mem (A : Mat 2 2 R) (ha : IsSO2 A) (n : Nat) : IsSO2 (mpow2 A n) := by
  induction n with
  | zero => exact IsSO2.one
  | succ k ih => exact ih.mul ha

theorem SO2_pow_0_mem (A M : Mat 2 2 R) (ha : IsSO2 A) (h : Gen.SO2_pow_0 P A = .ok M) : IsSO2 M := by
  rw [Bridge.SO2_pow_0] at h; cases h; exact SO2_mpow_mem A ha 0

theorem SO2_pow_1_mem (A M : Mat 2 2 R) (ha : IsSO2 A) (h : Gen.SO2_pow_1 P A = .ok M) : IsSO2 M := by
  rw [Bridge.SO2_pow_1] at h; cases h; exact SO2_mpow_mem A ha 1

theorem SO2_pow_2_mem (A M : Mat 2 2 R) (ha : IsSO2 A) (h : Gen.SO2_pow_2 P A = .ok M) : IsSO2 M := by
  rw [Bridge.SO2_pow_2] at h; cases h; exact SO2_mpow_mem A ha 2

theorem SO2_pow_3_mem (A M : Mat 2 2 R) (ha : IsSO2 A) (h : Gen.SO2_pow_3 P A = .ok M) : IsSO2 M := by
  rw [Bridge.SO2_pow_3] at h; cases h; exact SO2_mpow_mem A ha 3

theorem SO2_mul_MM_mem (A B C D : Mat 2 2 R) (M : Mat 2 2 R × Mat 2 2 R) (ha : IsSO2 A) (hb : IsSO2 B) (hc : IsSO2 C) (hd : IsSO2 D)
    (h : Gen.SO2_mul_MM P A B C D = .ok M) : IsSO2 M.1 ∧ IsSO2 M.2 := by
  rw [Bridge.SO2_mul_MM] at h; cases h; exact ⟨ha.mul hc, hb.mul hd⟩

theorem SE2_mul_mem (A B M : Mat 3 3 R) (ha : IsSE2 A) (hb : IsSE2 B) (h : Gen.SE2_mul P A B = .ok M) : IsSE2 M := by
  rw [Bridge.SE2_mul] at h; cases h; exact ha.mul hb

theorem SE2_identity_mem (M : Mat 3 3 R) (h : Gen.SE2_identity P = .ok M) : IsSE2 M := by
  rw [Bridge.SE2_identity] at h; cases h; exact IsSE2.one

theorem SE2_mpow_mem (A : Mat 3 3 R) (ha : IsSE2 A) (n : Nat) : IsSE2 (mpow3 A n) := by
  induction n with
  | zero => exact IsSE2.one
  | succ k ih => exact ih.mul ha

theorem SE2_pow_0_mem (A M : Mat 3 3 R) (ha : IsSE2 A) (h : Gen.SE2_pow_0 P A = .ok M) : IsSE2 M := by
  rw [Bridge.SE2_pow_0] at h; cases h; exact SE2_mpow_mem A ha 0

theorem SE2_pow_1_mem (A M : Mat 3 3 R) (ha : IsSE2 A) (h : Gen.SE2_pow_1 P A = .ok M) : IsSE2 M := by
  rw [Bridge.SE2_pow_1] at h; cases h; exact SE2_mpow_mem A ha 1

theorem SE2_pow_2_mem (A M : Mat 3 3 R) (ha : IsSE2 A) (h : Gen.SE2_pow_2 P A = .ok M) : IsSE2 M := by
  rw [Bridge.SE2_pow_2] at h; cases h; exact SE2_mpow_mem A ha 2

theorem SE2_pow_3_mem (A M : Mat 3 3 R) (ha : IsSE2 A) (h : Gen.SE2_pow_3 P A = .ok M) : IsSE2 M := by
  rw [Bridge.SE2_pow_3] at h; cases h; exact SE2_mpow_mem A ha 3

theorem SE2_mul_MM_mem (A B C D : Mat 3 3 R) (M : Mat 3 3 R × Mat 3 3 R) (ha : IsSE2 A) (hb : IsSE2 B) (hc : IsSE2 C) (hd : IsSE2 D)
    (h : Gen.SE2_mul_MM P A B C D = .ok M) : IsSE2 M.1 ∧ IsSE2 M.2 := by
  rw [Bridge.SE2_mul_MM] at h; cases h; exact ⟨ha.mul hc, hb.mul hd⟩

theorem SO3_mul_mem (A B M : Mat 3 3 R) (ha : IsSO3 A) (hb : IsSO3 B) (h : Gen.SO3_mul P A B = .ok M) : IsSO3 M := by
  rw [Bridge.SO3_mul] at h; cases h; exact ha.mul hb

theorem SO3_identity_mem (M : Mat 3 3 R) (h : Gen.SO3_identity P = .ok M) : IsSO3 M := by
  rw [Bridge.SO3_identity] at h; cases h; exact IsSO3.one

theorem SO3_mpow_mem (A : Mat 3 3 R) (ha : IsSO3 A) (n : Nat) : IsSO3 (mpow3 A n) := by
  induction n with
  | zero => exact IsSO3.one
  | succ k ih => exact ih.mul ha

theorem SO3_pow_0_mem (A M : Mat 3 3 R) (ha : IsSO3 A) (h : Gen.SO3_pow_0 P A = .ok M) : IsSO3 M := by
  rw [Bridge.SO3_pow_0] at h; cases h; exact SO3_mpow_mem A ha 0

theorem SO3_pow_1_mem (A M : Mat 3 3 R) (ha : IsSO3 A) (h : Gen.SO3_pow_1 P A = .ok M) : IsSO3 M := by
  rw [Bridge.SO3_pow_1] at h; cases h; exact SO3_mpow_mem A ha 1

theorem SO3_pow_2_mem (A M : Mat 3 3 R) (ha : IsSO3 A) (h : Gen.SO3_pow_2 P A = .ok M) : IsSO3 M := by
  rw [Bridge.SO3_pow_2] at h; cases h; exact SO3_mpow_mem A ha 2

theorem SO3_pow_3_mem (A M : Mat 3 3 R) (ha : IsSO3 A) (h : Gen.SO3_pow_3 P A = .ok M) : IsSO3 M := by
  rw [Bridge.SO3_pow_3] at h; cases h; exact SO3_mpow_mem A ha 3

theorem SO3_mul_MM_mem (A B C D : Mat 3 3 R) (M : Mat 3 3 R × Mat 3 3 R) (ha : IsSO3 A) (hb : IsSO3 B) (hc : IsSO3 C) (hd : IsSO3 D)
    (h : Gen.SO3_mul_MM P A B C D = .ok M) : IsSO3 M.1 ∧ IsSO3 M.2 := by
  rw [Bridge.SO3_mul_MM] at h; cases h; exact ⟨ha.mul hc, hb.mul hd⟩

theorem SE3_mul_mem (A B M : Mat 4 4 R) (ha : IsSE3 A) (hb : IsSE3 B) (h : Gen.SE3_mul P A B = .ok M) : IsSE3 M := by
  rw [Bridge.SE3_mul] at h; cases h; exact ha.mul hb

theorem SE3_identity_mem (M : Mat 4 4 R) (h : Gen.SE3_identity P = .ok M) : IsSE3 M := by
  rw [Bridge.SE3_identity] at h; cases h; exact IsSE3.one

theorem SE3_mpow_mem (A : Mat 4 4 R) (ha : IsSE3 A) (n : Nat) : IsSE3 (mpow4 A n) := by
  induction n with
  | zero => exact IsSE3.one
  | succ k ih => exact ih.mul ha

theorem SE3_pow_0_mem (A M : Mat 4 4 R) (ha : IsSE3 A) (h : Gen.SE3_pow_0 P A = .ok M) : IsSE3 M := by
  rw [Bridge.SE3_pow_0] at h; cases h; exact SE3_mpow_mem A ha 0

theorem SE3_pow_1_mem (A M : Mat 4 4 R) (ha : IsSE3 A) (h : Gen.SE3_pow_1 P A = .ok M) : IsSE3 M := by
  rw [Bridge.SE3_pow_1] at h; cases h; exact SE3_mpow_mem A ha 1

theorem SE3_pow_2_mem (A M : Mat 4 4 R) (ha : IsSE3 A) (h : Gen.SE3_pow_2 P A = .ok M) : IsSE3 M := by
  rw [Bridge.SE3_pow_2] at h; cases h; exact SE3_mpow_mem A ha 2

theorem SE3_pow_3_mem (A M : Mat 4 4 R) (ha : IsSE3 A) (h : Gen.SE3_pow_3 P A = .ok M) : IsSE3 M := by
  rw [Bridge.SE3_pow_3] at h; cases h; exact SE3_mpow_mem A ha 3

theorem SE3_mul_MM_mem (A B C D : Mat 4 4 R) (M : Mat 4 4 R × Mat 4 4 R) (ha : IsSE3 A) (hb : IsSE3 B) (hc : IsSE3 C) (hd : IsSE3 D)
    (h : Gen.SE3_mul_MM P A B C D = .ok M) : IsSE3 M.1 ∧ IsSE3 M.2 := by
  rw [Bridge.SE3_mul_MM] at h; cases h; exact ⟨ha.mul hc, hb.mul hd⟩

theorem SO3_inv_mem (A M : Mat 3 3 R) (ha : IsSO3 A) (h : Gen.SO3_inv P A = .ok M) : IsSO3 M := by
  rw [Bridge.SO3_inv] at h; cases h; exact ha.transpose
theorem SO3_div_mem (A B M : Mat 3 3 R) (ha : IsSO3 A) (hb : IsSO3 B) (h : Gen.SO3_div P A B = .ok M) : IsSO3 M := by
  rw [Bridge.SO3_div] at h; cases h; exact ha.mul hb.transpose
theorem SE3_inv_mem (A M : Mat 4 4 R) (ha : IsSE3 A) (h : Gen.SE3_inv P A = .ok M) : IsSE3 M := by
  rw [Bridge.SE3_inv] at h; cases h; exact ha.inv
theorem SE3_div_mem (A B M : Mat 4 4 R) (ha : IsSE3 A) (hb : IsSE3 B) (h : Gen.SE3_div P A B = .ok M) : IsSE3 M := by
  rw [Bridge.SE3_div] at h; cases h; exact ha.mul hb.inv

/-! ### every expression built from members with *, /, inv, ** (n ≥ 0), prod stays a member
(structural induction: any depth, any exponent — not only the traced ones) -/

inductive GExpr where
  | leaf (i : Nat)
  | mul (a b : GExpr)
  | div (a b : GExpr)
  | inv (a : GExpr)
  | pow (a : GExpr) (n : Nat)
  | prod (l : List GExpr)

/-- evaluation with exactly the operations the traced operators were shown to compute:
`*` ↦ `mmul`, `inv` ↦ structured inverse, `/` ↦ `mmul a (inv b)`, `**` ↦ `mpow4`, `prod` ↦ left fold -/
def eval (env : Nat → Mat 4 4 R) : GExpr → Mat 4 4 R
  | .leaf i => env i
  | .mul a b => mmul (eval env a) (eval env b)
  | .div a b => mmul (eval env a) (seInv3 (eval env b))
  | .inv a => seInv3 (eval env a)
  | .pow a n => mpow4 (eval env a) n
  | .prod l => evalProd env l
where evalProd (env : Nat → Mat 4 4 R) : List GExpr → Mat 4 4 R
  | [] => one4
  | e :: es => mmul (eval env e) (evalProd env es)

mutual
theorem eval_mem (env : Nat → Mat 4 4 R) (henv : ∀ i, IsSE3 (env i)) : ∀ e : GExpr, IsSE3 (eval env e)
  | .leaf i => by simpa [eval] using henv i
  | .mul a b => by simpa [eval] using (eval_mem env henv a).mul (eval_mem env henv b)
  | .div a b => by simpa [eval] using (eval_mem env henv a).mul (eval_mem env henv b).inv
  | .inv a => by simpa [eval] using (eval_mem env henv a).inv
  | .pow a n => by simpa [eval] using SE3_mpow_mem _ (eval_mem env henv a) n
  | .prod l => by simpa [eval] using evalProd_mem env henv l
theorem evalProd_mem (env : Nat → Mat 4 4 R) (henv : ∀ i, IsSE3 (env i)) : ∀ l : List GExpr, IsSE3 (eval.evalProd env l)
  | [] => by simpa [eval.evalProd] using IsSE3.one
  | e :: es => by simpa [eval.evalProd] using (eval_mem env henv e).mul (evalProd_mem env henv es)
end

end SmVerif.Props.C01
