/-
  Vector helpers and predicates (base/vectors.py) that the normalisation and validity properties (C07, C14, C18) rest on:
  exact decision specifications of isunitvec / iszerovec / iszero / isunittwist2, the value of unitvec / unitvec_norm /
  unittwist2 on each branch, removesmall entry by entry, colvec.
-/
import SmVerif.Tactics
import Mathlib.Tactic.Linarith
import Mathlib.Tactic.Positivity
import SmVerif.Spec.PrimLaws
import SmVerif.Gen.Vectors

namespace SmVerif.Props.VecPreds
open SmVerif

variable {R : Type} [Field R] [LinearOrder R] [IsStrictOrderedRing R] (P : Prims R)

/-- 10·eps and 100·eps as the exact rationals the code compares against (eps = 2⁻⁵²) -/
def tol10 : R := 5 / 2251799813685248
def tol100 : R := 25 / 1125899906842624

def nrm3 (v : Vec 3 R) : R := P.sqrt (v 0 * v 0 + v 1 * v 1 + v 2 * v 2)
def nrm2 (v : Vec 2 R) : R := P.sqrt (v 0 * v 0 + v 1 * v 1)

theorem colvec3 (v : Vec 3 R) : Gen.colvec3 P v = .ok (v3 (v1 (v 0)) (v1 (v 1)) (v1 (v 2))) := by unfold Gen.colvec3; rfl

theorem isunitvec3_spec (v : Vec 3 R) : Gen.isunitvec3 P v = .ok (decide (|nrm3 P v - 1| < tol10)) := by
  unfold Gen.isunitvec3 nrm3 tol10; simp only []; split_ifs with h <;> simp [h]
theorem iszerovec3_spec (v : Vec 3 R) : Gen.iszerovec3 P v = .ok (decide (nrm3 P v < tol10)) := by
  unfold Gen.iszerovec3 nrm3 tol10; simp only []; split_ifs with h <;> simp [h]
theorem iszero_spec (a : R) : Gen.iszero P a = .ok (decide (|a| < tol10)) := by
  unfold Gen.iszero tol10; split_ifs with h <;> simp [h]

/-- unitvec: v / ‖v‖ when ‖v‖ > 100 eps, None otherwise (never a non-unit vector) -/
theorem unitvec2_spec (v : Vec 2 R) :
    Gen.unitvec2 P v = if nrm2 P v > tol100 then .ok (v2 (v 0 / nrm2 P v) (v 1 / nrm2 P v)) else .none := by
  unfold Gen.unitvec2 nrm2 tol100; rfl
theorem unitvec_norm3_spec (v : Vec 3 R) :
    Gen.unitvec_norm3 P v = if nrm3 P v > tol100 then .ok (v3 (v 0 / nrm3 P v) (v 1 / nrm3 P v) (v 2 / nrm3 P v), nrm3 P v) else .none := by
  unfold Gen.unitvec_norm3 nrm3 tol100; rfl
/-- under the sqrt law the returned vector has unit norm -/
theorem unitvec2_unit (hs : P.Sqrt) (v : Vec 2 R) (u : Vec 2 R) (h : Gen.unitvec2 P v = .ok u) : u 0 * u 0 + u 1 * u 1 = 1 := by
  rw [unitvec2_spec] at h
  split_ifs at h with hn
  cases h
  have hpos : 0 < nrm2 P v := lt_trans (by unfold tol100; positivity) hn
  have hsq : nrm2 P v * nrm2 P v = v 0 * v 0 + v 1 * v 1 := by
    unfold nrm2
    by_cases hx : 0 ≤ v 0 * v 0 + v 1 * v 1
    · exact hs.mul_self _ hx
    · exact absurd (add_nonneg (mul_self_nonneg _) (mul_self_nonneg _)) hx
  simp only [v2_0, v2_1]
  field_simp
  linarith [hsq]

/-- planar unit twist: divide by |w| when the twist rotates, by ‖v‖ when it does not -/
theorem unittwist2_spec (S : Vec 3 R) :
    Gen.unittwist2 P S = if |S 2| < tol10 then .ok (v3 (S 0 / nrm2 P (v2 (S 0) (S 1))) (S 1 / nrm2 P (v2 (S 0) (S 1))) (S 2 / nrm2 P (v2 (S 0) (S 1))))
                         else .ok (v3 (S 0 / |S 2|) (S 1 / |S 2|) (S 2 / |S 2|)) := by
  unfold Gen.unittwist2 nrm2 tol10; rfl
/-- … so the rotational part of a rotating planar twist becomes ±1 -/
theorem unittwist2_rot (S u : Vec 3 R) (hw : ¬ |S 2| < tol10) (h : Gen.unittwist2 P S = .ok u) : |u 2| = 1 := by
  rw [unittwist2_spec, if_neg hw] at h; cases h
  have : |S 2| ≠ 0 := by
    intro e; apply hw; rw [e]; unfold tol10; positivity
  simp only [v3_2]
  rw [abs_div, abs_abs, div_self this]

theorem isunittwist2_spec (S : Vec 3 R) :
    Gen.isunittwist2 P S = .ok (decide (|P.sqrt (S 2 * S 2) - 1| < tol10 ∨ (|S 2| < tol10 ∧ |nrm2 P (v2 (S 0) (S 1)) - 1| < tol10))) := by
  unfold Gen.isunittwist2 nrm2 tol10; simp only []
  split_ifs with h1 h2 h3 <;> simp [h1, *]

/-- isunittwist against its definition: |‖w‖ − 1| < 10 eps, or ‖w‖ < 10 eps and |‖v‖ − 1| < 10 eps — nothing else -/
theorem isunittwist_spec (S : Vec 6 R) :
    Gen.isunittwist P S = .ok (decide (|nrm3 P (v3 (S 3) (S 4) (S 5)) - 1| < tol10 ∨
      (nrm3 P (v3 (S 3) (S 4) (S 5)) < tol10 ∧ |nrm3 P (v3 (S 0) (S 1) (S 2)) - 1| < tol10))) := by
  unfold Gen.isunittwist nrm3 tol10; simp only [v3_0, v3_1, v3_2]
  split_ifs with h1 h2 h3 <;> simp [h1, *]

/-- a twist with unit translational part whose rotational part is neither (numerically) zero nor unit is not a unit twist -/
theorem isunittwist_unit_v_only (S : Vec 6 R) (hw1 : ¬ |nrm3 P (v3 (S 3) (S 4) (S 5)) - 1| < tol10) (hw0 : ¬ nrm3 P (v3 (S 3) (S 4) (S 5)) < tol10) :
    Gen.isunittwist P S = .ok false := by
  rw [isunittwist_spec]; simp [hw1, hw0]

/-- exact unit twists are accepted: ‖w‖ = 1, or w = 0 and ‖v‖ = 1 (under the square-root law) -/
theorem isunittwist_exact (hs : P.Sqrt) (S : Vec 6 R)
    (h : S 3 * S 3 + S 4 * S 4 + S 5 * S 5 = 1 ∨ (S 3 = 0 ∧ S 4 = 0 ∧ S 5 = 0 ∧ S 0 * S 0 + S 1 * S 1 + S 2 * S 2 = 1)) :
    Gen.isunittwist P S = .ok true := by
  have s1 : P.sqrt 1 = 1 := by
    have h1 := hs.mul_self 1 (by norm_num); have h0 := hs.nonneg 1
    have : (P.sqrt 1 - 1) * (P.sqrt 1 + 1) = 0 := by linear_combination h1
    rcases mul_eq_zero.mp this with e | e
    · linarith
    · exfalso; linarith
  have s0 : P.sqrt 0 = 0 := mul_self_eq_zero.mp (hs.mul_self 0 (le_refl 0))
  rw [isunittwist_spec]
  rcases h with h | ⟨a, b, c, hv⟩
  · have : nrm3 P (v3 (S 3) (S 4) (S 5)) = 1 := by unfold nrm3; simp only [v3_0, v3_1, v3_2]; rw [h, s1]
    simp [this, tol10]
  · have hw : nrm3 P (v3 (S 3) (S 4) (S 5)) = 0 := by unfold nrm3; simp only [v3_0, v3_1, v3_2]; rw [a, b, c]; simpa using s0
    have hvn : nrm3 P (v3 (S 0) (S 1) (S 2)) = 1 := by unfold nrm3; simp only [v3_0, v3_1, v3_2]; rw [hv, s1]
    simp [hw, hvn, tol10]

/-- removesmall zeroes exactly the entries below 100 eps and keeps the others -/
theorem removesmall3_spec (v u : Vec 3 R) (h : Gen.removesmall3 P v = .ok u) :
    ∀ i, u i = if |v i| < tol100 then 0 else v i := by
  unfold Gen.removesmall3 at h; simp only [] at h
  intro i
  split_ifs at h with h0 h1 h2 h2 h1 h2 h2 <;> cases h <;> fin_cases i <;> simp [tol100, *]

end SmVerif.Props.VecPreds
