/-
  C20 — spatial 6-vectors and inertia follow Featherstone's spatial algebra.
  Theorems about the traced class operators (values); the class / length guards ("mixed classes raise") are
  decision logic enumerated by smv/props/c20.py and covered by the dispatch model of C08.
  Spatial vectors are stored linear-part first: x = (v, w).
-/
import SmVerif.Gen.Spatial
import SmVerif.Spec.Lie
import SmVerif.Tactics

namespace SmVerif.Props.C20
open SmVerif SmVerif.Spec
set_option linter.unusedSectionVars false
set_option linter.unusedTactic false
set_option linter.unreachableTactic false
set_option maxHeartbeats 1000000
variable {R : Type} [Field R] [LinearOrder R] [IsStrictOrderedRing R] (P : Prims R)

def lin (x : Vec 6 R) : Vec 3 R := v3 (x 0) (x 1) (x 2)
def ang (x : Vec 6 R) : Vec 3 R := v3 (x 3) (x 4) (x 5)

/-- motion cross-product matrix crm(x) = [skew(w) skew(v); 0 skew(w)] -/
def crm (x : Vec 6 R) : Mat 6 6 R := blk (skew3 (ang x)) (skew3 (lin x)) zero33 (skew3 (ang x))
def mT6 (A : Mat 6 6 R) : Mat 6 6 R := fun i j => A j i

/-! ### element-wise + − neg inside each class -/
theorem add_sub_neg (a b : Vec 6 R) :
    Gen.SVel_add P a b = .ok (fun i => a i + b i) ∧ Gen.SVel_sub P a b = .ok (fun i => a i - b i) ∧ Gen.SVel_neg P a = .ok (fun i => -(a i)) ∧
    Gen.SAcc_add P a b = .ok (fun i => a i + b i) ∧ Gen.SAcc_sub P a b = .ok (fun i => a i - b i) ∧ Gen.SAcc_neg P a = .ok (fun i => -(a i)) ∧
    Gen.SFor_add P a b = .ok (fun i => a i + b i) ∧ Gen.SFor_sub P a b = .ok (fun i => a i - b i) ∧ Gen.SFor_neg P a = .ok (fun i => -(a i)) ∧
    Gen.SMom_add P a b = .ok (fun i => a i + b i) ∧ Gen.SMom_sub P a b = .ok (fun i => a i - b i) ∧ Gen.SMom_neg P a = .ok (fun i => -(a i)) := by
  refine ⟨?_, ?_, ?_, ?_, ?_, ?_, ?_, ?_, ?_, ?_, ?_, ?_⟩
  · unfold Gen.SVel_add; congr 1; apply Vec.ext6 <;> simp
  · unfold Gen.SVel_sub; congr 1; apply Vec.ext6 <;> simp
  · unfold Gen.SVel_neg; congr 1; apply Vec.ext6 <;> simp
  · unfold Gen.SAcc_add; congr 1; apply Vec.ext6 <;> simp
  · unfold Gen.SAcc_sub; congr 1; apply Vec.ext6 <;> simp
  · unfold Gen.SAcc_neg; congr 1; apply Vec.ext6 <;> simp
  · unfold Gen.SFor_add; congr 1; apply Vec.ext6 <;> simp
  · unfold Gen.SFor_sub; congr 1; apply Vec.ext6 <;> simp
  · unfold Gen.SFor_neg; congr 1; apply Vec.ext6 <;> simp
  · unfold Gen.SMom_add; congr 1; apply Vec.ext6 <;> simp
  · unfold Gen.SMom_sub; congr 1; apply Vec.ext6 <;> simp
  · unfold Gen.SMom_neg; congr 1; apply Vec.ext6 <;> simp

/-! ### cross products -/

/-- v × m = crm(v) m -/
theorem motion_cross (v m : Vec 6 R) : Gen.SVel_cross_SVel P v m = .ok (mvec (crm v) m) := by
  unfold Gen.SVel_cross_SVel; (try simp only []); congr 1
  apply Vec.ext6 <;> simp [mvec, crm, blk, skew3, lin, ang, zero33, Fin.sum_univ_six] <;> ring

/-- v ×* f = −crm(v)ᵀ f -/
theorem force_cross (v f : Vec 6 R) : Gen.SVel_cross_SFor P v f = .ok (fun i => -(mvec (mT6 (crm v)) f i)) := by
  unfold Gen.SVel_cross_SFor; (try simp only []); congr 1
  apply Vec.ext6 <;> simp [mvec, mT6, crm, blk, skew3, lin, ang, zero33, Fin.sum_univ_six] <;> ring

/-- duality: (v ×* f)·m = −f·(v × m) -/
theorem cross_duality (v f m vf vm : Vec 6 R) (h1 : Gen.SVel_cross_SFor P v f = .ok vf) (h2 : Gen.SVel_cross_SVel P v m = .ok vm) :
    dot vf m = -(dot f vm) := by
  rw [force_cross] at h1; rw [motion_cross] at h2; cases h1; cases h2
  simp [dot, mvec, mT6, crm, blk, skew3, lin, ang, zero33, Fin.sum_univ_six]; ring

/-- `@` between spatial velocities is the motion cross product -/
theorem matmul_is_cross (v m : Vec 6 R) : Gen.SVel_matmul_SVel P v m = Gen.SVel_cross_SVel P v m := by
  unfold Gen.SVel_matmul_SVel Gen.SVel_cross_SVel; rfl

/-! ### spatial inertia -/

/-- the parallel-axis matrix [m·1, m·Cᵀ; m·C, I + m·C·Cᵀ] with C = skew(c) -/
def inertiaM (m : R) (c : Vec 3 R) (I : Mat 3 3 R) : Mat 6 6 R :=
  blk (fun i j => m * one3 i j) (fun i j => m * skew3 c j i) (fun i j => m * skew3 c i j)
      (fun i j => I i j + m * mmul (skew3 c) (mT (skew3 c)) i j)

theorem inertia_ctor (m : R) (c : Vec 3 R) (I : Mat 3 3 R) : Gen.SIne_ctor P m c I = .ok (inertiaM m c I) := by
  unfold Gen.SIne_ctor; (try simp only []); congr 1
  apply Mat.ext66 <;> apply Vec.ext6 <;>
    simp [inertiaM, blk, skew3, one3, mmul, mT, Fin.sum_univ_three] <;> ring

/-- symmetric whenever the rotational inertia is -/
theorem inertia_symm (m : R) (c : Vec 3 R) (I : Mat 3 3 R) (hI : ∀ i j, I i j = I j i) :
    ∀ i j, inertiaM m c I i j = inertiaM m c I j i := by
  have h01 := hI 0 1; have h02 := hI 0 2; have h12 := hI 1 2
  intro i j; fin_cases i <;> fin_cases j <;>
    simp only [inertiaM, blk, skew3, one3, mmul, mT, Fin.sum_univ_three, v3_0, v3_1, v3_2, v6_0, v6_1, v6_2, v6_3, v6_4, v6_5,
      Fin.zero_eta, Fin.mk_one, Fin.reduceFinMk] <;> (try rw [h01]) <;> (try rw [h02]) <;> (try rw [h12]) <;> ring

/-- inertias of joined bodies add -/
theorem inertia_add (A B : Mat 6 6 R) : Gen.SIne_add P A B = .ok (fun i j => A i j + B i j) := by
  unfold Gen.SIne_add; (try simp only []); congr 1
  apply Mat.ext66 <;> apply Vec.ext6 <;> simp

/-- I·a and I·v are the matrix-vector products -/
theorem inertia_mul (A : Mat 6 6 R) (a : Vec 6 R) :
    Gen.SIne_mul_SAcc P A a = .ok (mvec A a) ∧ Gen.SIne_mul_SVel P A a = .ok (mvec A a) := by
  constructor
  · unfold Gen.SIne_mul_SAcc; (try simp only []); congr 1; apply Vec.ext6 <;> simp [mvec, Fin.sum_univ_six]
  · unfold Gen.SIne_mul_SVel; (try simp only []); congr 1; apply Vec.ext6 <;> simp [mvec, Fin.sum_univ_six]

/-! ### premultiplication by SE3: adjoint on motion vectors, its transpose on force vectors -/

theorem SE3_mul_motion (T : Mat 4 4 R) (x : Vec 6 R) :
    Gen.SE3_mul_SVel P T x = .ok (mvec (Ad T) x) ∧ Gen.SE3_mul_SAcc P T x = .ok (mvec (Ad T) x) := by
  constructor
  · unfold Gen.SE3_mul_SVel; (try simp only []); congr 1
    apply Vec.ext6 <;> simp [mvec, Ad, blk, zero33, mmul, skew3, rotOf3, trOf3, Fin.sum_univ_three, Fin.sum_univ_six] <;> ring
  · unfold Gen.SE3_mul_SAcc; (try simp only []); congr 1
    apply Vec.ext6 <;> simp [mvec, Ad, blk, zero33, mmul, skew3, rotOf3, trOf3, Fin.sum_univ_three, Fin.sum_univ_six] <;> ring

theorem SE3_mul_force (T : Mat 4 4 R) (x : Vec 6 R) :
    Gen.SE3_mul_SFor P T x = .ok (mvec (mT6 (Ad T)) x) ∧ Gen.SE3_mul_SMom P T x = .ok (mvec (mT6 (Ad T)) x) := by
  constructor
  · unfold Gen.SE3_mul_SFor; (try simp only []); congr 1
    apply Vec.ext6 <;> simp [mvec, mT6, Ad, blk, zero33, mmul, skew3, rotOf3, trOf3, Fin.sum_univ_three, Fin.sum_univ_six] <;> ring
  · unfold Gen.SE3_mul_SMom; (try simp only []); congr 1
    apply Vec.ext6 <;> simp [mvec, mT6, Ad, blk, zero33, mmul, skew3, rotOf3, trOf3, Fin.sum_univ_three, Fin.sum_univ_six] <;> ring

end SmVerif.Props.C20
