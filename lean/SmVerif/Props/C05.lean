/-
  C05 — angle-set and axis-angle extraction is a right inverse of construction.
  Proved: the constructors follow the documented axis orders (all six order names, both units, packed and separate
  angles), degrees = radians·π/180 for inputs and outputs, axis-angle = Rodrigues about the normalised axis, planar
  (x, y, θ) round trips.  Explored (smv/props/c05.py, 1e-6): rpy / Euler / axis-angle round trips on every branch incl.
  the singular bands.
-/
import SmVerif.Spec.SO3Facts
import Mathlib.Tactic.Positivity
import SmVerif.Bridge.Rot
import SmVerif.Bridge.AngVec
import SmVerif.Props.C01

namespace SmVerif.Props.C05
open SmVerif SmVerif.Spec SmVerif.Bridge
set_option linter.unusedSectionVars false
set_option linter.unusedTactic false
set_option linter.unreachableTactic false
set_option maxHeartbeats 2000000
variable {R : Type} [Field R] [LinearOrder R] [IsStrictOrderedRing R] (P : Prims R)

abbrev Rx (P : Prims R) (a : R) : Mat 3 3 R := rotx (P.cos a) (P.sin a)
abbrev Ry (P : Prims R) (a : R) : Mat 3 3 R := roty (P.cos a) (P.sin a)
abbrev Rz (P : Prims R) (a : R) : Mat 3 3 R := rotz (P.cos a) (P.sin a)

/-! ### documented axis orders; angles are (roll, pitch, yaw) = (v 0, v 1, v 2) -/

/-- zyx / vehicle: Rz(yaw) Ry(pitch) Rx(roll) -/
theorem rpy2r_zyx (v : Vec 3 R) :
    Gen.rpy2r_zyx_rad P v = .ok (mmul (mmul (Rz P (v 2)) (Ry P (v 1))) (Rx P (v 0))) ∧
    Gen.rpy2r_vehicle_rad P v = Gen.rpy2r_zyx_rad P v := by
  constructor
  · rw [Bridge.rpy2r_zyx_rad]; rfl
  · rw [Bridge.rpy2r_vehicle_rad, Bridge.rpy2r_zyx_rad]
/-- xyz / arm: Rx(yaw) Ry(pitch) Rz(roll) -/
theorem rpy2r_xyz (v : Vec 3 R) :
    Gen.rpy2r_xyz_rad P v = .ok (mmul (mmul (Rx P (v 2)) (Ry P (v 1))) (Rz P (v 0))) ∧
    Gen.rpy2r_arm_rad P v = Gen.rpy2r_xyz_rad P v := by
  constructor
  · rw [Bridge.rpy2r_xyz_rad]; rfl
  · rw [Bridge.rpy2r_arm_rad, Bridge.rpy2r_xyz_rad]
/-- yxz / camera: Ry(yaw) Rx(pitch) Rz(roll) -/
theorem rpy2r_yxz (v : Vec 3 R) :
    Gen.rpy2r_yxz_rad P v = .ok (mmul (mmul (Ry P (v 2)) (Rx P (v 1))) (Rz P (v 0))) ∧
    Gen.rpy2r_camera_rad P v = Gen.rpy2r_yxz_rad P v := by
  constructor
  · rw [Bridge.rpy2r_yxz_rad]; rfl
  · rw [Bridge.rpy2r_camera_rad, Bridge.rpy2r_yxz_rad]
/-- Euler ZYZ: Rz(φ) Ry(θ) Rz(ψ) -/
theorem eul2r_zyz (v : Vec 3 R) : Gen.eul2r_rad P v = .ok (mmul (mmul (Rz P (v 0)) (Ry P (v 1))) (Rz P (v 2))) := by
  rw [Bridge.eul2r_rad]; rfl
/-- an order name that is not documented is rejected -/
theorem rpy2r_unknown_order (v : Vec 3 R) : Gen.rpy2r_badorder P v = .raised .ValueError := Bridge.rpy2r_badorder P v

/-- separate angles ≡ packed vector -/
theorem rpy2r_scalars (r p y : R) :
    Gen.rpy2r_zyx_scalars P r p y = Gen.rpy2r_zyx_rad P (v3 r p y) ∧ Gen.rpy2r_xyz_scalars P r p y = Gen.rpy2r_xyz_rad P (v3 r p y) ∧
    Gen.rpy2r_yxz_scalars P r p y = Gen.rpy2r_yxz_rad P (v3 r p y) ∧ Gen.eul2r_scalars P r p y = Gen.eul2r_rad P (v3 r p y) := by
  refine ⟨?_, ?_, ?_, ?_⟩
  · rw [Bridge.rpy2r_zyx_scalars, Bridge.rpy2r_zyx_rad]
  · rw [Bridge.rpy2r_xyz_scalars, Bridge.rpy2r_xyz_rad]
  · rw [Bridge.rpy2r_yxz_scalars, Bridge.rpy2r_yxz_rad]
  · rw [Bridge.eul2r_scalars, Bridge.eul2r_rad]

/-! ### degrees: unit='deg' with angle a equals unit='rad' with a·π/180 -/

theorem deg_inputs (a : R) (v : Vec 3 R) :
    Gen.rotx_deg P a = Gen.rotx_rad P (a * P.pi / 180) ∧ Gen.roty_deg P a = Gen.roty_rad P (a * P.pi / 180) ∧
    Gen.rotz_deg P a = Gen.rotz_rad P (a * P.pi / 180) ∧ Gen.rot2_deg P a = Gen.rot2_rad P (a * P.pi / 180) ∧
    Gen.trotx_deg P a = Gen.trotx_rad P (a * P.pi / 180) ∧ Gen.trot2_deg P a = Gen.trot2_rad P (a * P.pi / 180) ∧
    Gen.rpy2r_zyx_deg P v = Gen.rpy2r_zyx_rad P (fun i => v i * P.pi / 180) ∧
    Gen.rpy2r_xyz_deg P v = Gen.rpy2r_xyz_rad P (fun i => v i * P.pi / 180) ∧
    Gen.rpy2r_yxz_deg P v = Gen.rpy2r_yxz_rad P (fun i => v i * P.pi / 180) ∧
    Gen.eul2r_deg P v = Gen.eul2r_rad P (fun i => v i * P.pi / 180) := by
  refine ⟨?_, ?_, ?_, ?_, ?_, ?_, ?_, ?_, ?_, ?_⟩
  · rw [Bridge.rotx_deg, Bridge.rotx_rad]; rfl
  · rw [Bridge.roty_deg, Bridge.roty_rad]; rfl
  · rw [Bridge.rotz_deg, Bridge.rotz_rad]; rfl
  · rw [Bridge.rot2_deg, Bridge.rot2_rad]; rfl
  · rw [Bridge.trotx_deg, Bridge.trotx_rad]; rfl
  · rw [Bridge.trot2_deg, Bridge.trot2_rad]; rfl
  · rw [Bridge.rpy2r_zyx_deg, Bridge.rpy2r_zyx_rad]; rfl
  · rw [Bridge.rpy2r_xyz_deg, Bridge.rpy2r_xyz_rad]; rfl
  · rw [Bridge.rpy2r_yxz_deg, Bridge.rpy2r_yxz_rad]; rfl
  · rw [Bridge.eul2r_deg, Bridge.eul2r_rad]; rfl

/-- axis-angle in degrees -/
theorem angvec2r_deg_eq (th : R) (v : Vec 3 R) : Gen.angvec2r_deg P th v = Gen.angvec2r P (th * P.pi / 180) v := by
  unfold Gen.angvec2r_deg Gen.angvec2r; rfl

/-- extracted angles in degrees are the radian results times 180/π (zyx) -/
theorem tr2eul_deg_eq (m : Mat 3 3 R) :
    Gen.tr2eul_deg P m = (Gen.tr2eul P m).map (fun v => v3 (v 0 * (180 / P.pi)) (v 1 * (180 / P.pi)) (v 2 * (180 / P.pi))) := by
  unfold Gen.tr2eul_deg Gen.tr2eul
  simp only []
  split_ifs <;> simp [Outcome.map]

/-! ### axis-angle: rotation by θ about the normalised axis -/

theorem angvec2r_value (th : R) (v : Vec 3 R) (M : Mat 3 3 R) (h : Gen.angvec2r P th v = .ok M) :
    M = one3 ∨ (0 < nrm3 P v ∧ M = rodM (fun i => v i / nrm3 P v) (P.cos th) (P.sin th)) :=
  angvec2r_cases P th v M h

/-! ### planar (x, y, θ) -/

/-- on the unit circle atan2 inverts (cos, sin) — all four quadrants -/
def Atan2Circle (P : Prims R) : Prop :=
  ∀ y x : R, x * x + y * y = 1 → P.cos (P.atan2 y x) = x ∧ P.sin (P.atan2 y x) = y

/-- xyt2tr(tr2xyt(T)) = T for every planar rigid motion T -/
theorem xyt2tr_tr2xyt (hA : Atan2Circle P) (T : Mat 3 3 R) (hT : IsSE2 T) (v : Vec 3 R) (h : Gen.tr2xyt P T = .ok v) :
    Gen.xyt2tr P v = .ok T := by
  unfold Gen.tr2xyt at h; simp only [] at h; cases h
  have o := hT.rot.transpose_mul
  have o00 := congrFun (congrFun o 0) 0; have o01 := congrFun (congrFun o 0) 1; have o11 := congrFun (congrFun o 1) 1
  simp [mmul, mT, one2, rotOf2, Fin.sum_univ_two] at o00 o01 o11
  have od := hT.rot.orth
  have p00 := congrFun (congrFun od 0) 0; have p01 := congrFun (congrFun od 0) 1; have p11 := congrFun (congrFun od 1) 1
  simp [mmul, mT, one2, rotOf2, Fin.sum_univ_two] at p00 p01 p11
  have hd := hT.rot.det
  simp [det2, rotOf2] at hd
  obtain ⟨hc, hs⟩ := hA (T 1 0) (T 0 0) (by linear_combination o00)
  rw [Bridge.xyt2tr]; congr 1
  simp only [v3_0, v3_1, v3_2, hc, hs]
  -- second column of a planar rotation is determined by the first: T01 = −T10, T11 = T00
  have e01 : T 0 1 = -(T 1 0) := by
    linear_combination -(T 0 1) * o00 + (T 0 0) * o01 - (T 1 0) * hd
  have e11 : T 1 1 = T 0 0 := by
    linear_combination -(T 1 1) * o00 + (T 0 0) * hd + (T 1 0) * o01
  apply Mat.ext33' <;> simp [rt2, rot2, hT.r0, hT.r1, hT.r2, e01, e11]

/-- tr2xyt(xyt2tr(v)) = v whenever atan2(sin θ, cos θ) = θ (i.e. θ ∈ (−π, π]) -/
theorem tr2xyt_xyt2tr (v : Vec 3 R) (hθ : P.atan2 (P.sin (v 2)) (P.cos (v 2)) = v 2) (T : Mat 3 3 R)
    (h : Gen.xyt2tr P v = .ok T) : Gen.tr2xyt P T = .ok v := by
  rw [Bridge.xyt2tr] at h; cases h
  unfold Gen.tr2xyt; simp only []; congr 1
  apply Vec.ext3 <;> simp [rt2, rot2, hθ]

/-! ### tr2rpy is a right inverse of rpy2r (ZYX), all non-singular branches -/

/-- the algebraic core of "rpy2r ∘ tr2rpy = id" (ZYX order): if the six trigonometric values are the ones read off the first
column and the last row of a rotation matrix, the product Rz(y)·Ry(p)·Rx(r) is that matrix -/
theorem zyx_core (M : Mat 3 3 R) (hM : IsSO3 M) (ρ cr sr cp sp cy sy : R) (hρ : ρ ≠ 0)
    (hρ2 : ρ * ρ = 1 - M 2 0 * M 2 0)
    (h1 : cr * ρ = M 2 2) (h2 : sr * ρ = M 2 1) (h3 : cp = ρ) (h4 : sp = -M 2 0) (h5 : cy * ρ = M 0 0) (h6 : sy * ρ = M 1 0) :
    mmul (mmul (rotz cy sy) (roty cp sp)) (rotx cr sr) = M := by
  obtain ⟨c00, c01, c02, c10, c11, c12, c20, c21, c22⟩ := hM.cof
  have o := hM.orth
  have col0 : M 0 0 * M 0 0 + M 1 0 * M 1 0 + M 2 0 * M 2 0 = 1 := by
    have := hM.transpose_mul
    have e := congrFun (congrFun this 0) 0
    simpa [mmul, mT, one3, Fin.sum_univ_three] using e
  have hρ2' : ρ * ρ ≠ 0 := mul_ne_zero hρ hρ
  apply Mat.ext33' <;> simp [mmul, rotz, roty, rotx, Fin.sum_univ_three, h3, h4] <;> apply mul_right_cancel₀ hρ2'
  · linear_combination (ρ * ρ) * h5
  · linear_combination (-1) * c01 + (-M 2 0*ρ*sr) * h5 + (-cr*ρ) * h6 + (-M 1 0) * h1 + (-M 0 0*M 2 0) * h2 + (-M 2 0) * c12 + (-M 0 1) * hρ2
  · linear_combination (-M 2 0*cr*ρ) * h5 + (ρ*sr) * h6 + (-M 0 0*M 2 0) * h1 + (M 1 0) * h2 + (-M 0 2) * hρ2 + (M 2 0) * c11 + (-1) * c02
  · linear_combination (ρ * ρ) * h6
  · linear_combination (cr*ρ) * h5 + (-M 2 0*ρ*sr) * h6 + (M 0 0) * h1 + (-M 1 0*M 2 0) * h2 + (-M 1 1) * hρ2 + (-1) * c11 + (M 2 0) * c02
  · linear_combination (-M 2 0) * c01 + (-ρ*sr) * h5 + (-M 2 0*cr*ρ) * h6 + (-M 1 0*M 2 0) * h1 + (-M 0 0) * h2 + (-1) * c12 + (-M 1 2) * hρ2
  · linear_combination (ρ * ρ) * h2
  · linear_combination (ρ * ρ) * h1

/-! laws of the inverse trigonometric functions used by the extraction code -/
/-- polar form of atan2 away from the origin -/
def Atan2Polar (P : Prims R) : Prop :=
  ∀ y x : R, (x ≠ 0 ∨ y ≠ 0) → P.cos (P.atan2 y x) * P.sqrt (x * x + y * y) = x ∧ P.sin (P.atan2 y x) * P.sqrt (x * x + y * y) = y
/-- atan as an angle: cos = 1/√(1+t²), sin = t/√(1+t²) -/
def AtanLaw (P : Prims R) : Prop :=
  ∀ t : R, P.cos (P.atan t) * P.sqrt (1 + t * t) = 1 ∧ P.sin (P.atan t) * P.sqrt (1 + t * t) = t
def NegLaw (P : Prims R) : Prop := ∀ x : R, P.cos (-x) = P.cos x ∧ P.sin (-x) = -P.sin x

/-- positive square roots are unique -/
theorem sqrt_unique (hS : P.Sqrt) (x r : R) (hx : 0 ≤ x) (hr : 0 < r) (h : r * r = x) : P.sqrt x = r := by
  have h1 := hS.mul_self x hx; have h0 := hS.nonneg x
  have : (P.sqrt x - r) * (P.sqrt x + r) = 0 := by linear_combination h1 - h
  rcases mul_eq_zero.mp this with h2 | h2
  · linarith
  · exfalso; linarith

/-- the pitch angle: with t = M20/ρ, cos(−atan t) = ρ and sin(−atan t) = −M20 -/
theorem pitch_of_atan (hS : P.Sqrt) (hA : AtanLaw P) (hN : NegLaw P) (m ρ t : R) (hρ : 0 < ρ) (hρ2 : ρ * ρ = 1 - m * m) (ht : t * ρ = m) :
    P.cos (-(P.atan t)) = ρ ∧ P.sin (-(P.atan t)) = -m := by
  obtain ⟨hc, hs⟩ := hA t
  have hne : ρ ≠ 0 := ne_of_gt hρ
  have hsq : P.sqrt (1 + t * t) = 1 / ρ := by
    apply sqrt_unique P hS _ _ (add_nonneg zero_le_one (mul_self_nonneg t)) (by positivity)
    field_simp
    have : t = m / ρ := by field_simp; exact ht
    rw [this]; field_simp; linarith [hρ2]
  rw [hsq] at hc hs
  obtain ⟨n1, n2⟩ := hN (P.atan t)
  rw [n1, n2]
  constructor
  · field_simp at hc; linarith [hc]
  · have : P.sin (P.atan t) = t * ρ := by field_simp at hs; linarith [hs]
    rw [this, ht]

theorem abs_gt_ne {a b : R} (h : |a| > |b|) : a ≠ 0 := by
  intro e; rw [e, abs_zero] at h; exact absurd h (not_lt.mpr (abs_nonneg b))

/-- **rpy2r(tr2rpy(R)) = R** for every rotation matrix away from the pitch = ±90° singularity (ZYX order), on every one of the
eight branches the extraction code chooses between -/
theorem tr2rpy_zyx_right_inverse (hS : P.Sqrt) (hP : Atan2Polar P) (hA : AtanLaw P) (hN : NegLaw P)
    (M : Mat 3 3 R) (hM : IsSO3 M) (v : Vec 3 R) (h : Gen.tr2rpy_zyx P M = .ok v)
    (hns : ¬ |(|M 2 0| - 1)| < 5 / 2251799813685248) : Gen.rpy2r_zyx_rad P v = .ok M := by
  have col0 : M 0 0 * M 0 0 + M 1 0 * M 1 0 + M 2 0 * M 2 0 = 1 := by
    have e := congrFun (congrFun hM.transpose_mul 0) 0
    simpa [mmul, mT, one3, Fin.sum_univ_three] using e
  have row2 : M 2 0 * M 2 0 + M 2 1 * M 2 1 + M 2 2 * M 2 2 = 1 := by
    have e := congrFun (congrFun hM.orth 2) 2
    simpa [mmul, mT, one3, Fin.sum_univ_three] using e
  -- away from the singularity 1 - M20² > 0
  have hlt : M 2 0 * M 2 0 < 1 := by
    rcases lt_or_eq_of_le (by nlinarith [mul_self_nonneg (M 0 0), mul_self_nonneg (M 1 0)] : M 2 0 * M 2 0 ≤ 1) with h1 | h1
    · exact h1
    · exfalso; apply hns
      have : |M 2 0| = 1 := by
        have h2 : |M 2 0| * |M 2 0| = 1 := by rw [abs_mul_abs_self]; exact h1
        have h3 : (|M 2 0| - 1) * (|M 2 0| + 1) = 0 := by linear_combination h2
        rcases mul_eq_zero.mp h3 with h4 | h4
        · linarith
        · exfalso; linarith [abs_nonneg (M 2 0)]
      rw [this]; simp
  set ρ := P.sqrt (1 - M 2 0 * M 2 0) with hρdef
  have hρ2 : ρ * ρ = 1 - M 2 0 * M 2 0 := hS.mul_self _ (by linarith)
  have hρpos : 0 < ρ := by
    rcases lt_or_eq_of_le (hS.nonneg (1 - M 2 0 * M 2 0)) with h1 | h1
    · exact h1
    · exfalso; rw [← hρdef] at h1; rw [← h1] at hρ2; linarith
  -- roll and yaw from atan2
  have er : M 2 2 * M 2 2 + M 2 1 * M 2 1 = 1 - M 2 0 * M 2 0 := by linarith
  have ey : M 0 0 * M 0 0 + M 1 0 * M 1 0 = 1 - M 2 0 * M 2 0 := by linarith
  have nzr : M 2 2 ≠ 0 ∨ M 2 1 ≠ 0 := by
    by_contra hc; push_neg at hc; rw [hc.1, hc.2] at er; linarith
  have nzy : M 0 0 ≠ 0 ∨ M 1 0 ≠ 0 := by
    by_contra hc; push_neg at hc; rw [hc.1, hc.2] at ey; linarith
  obtain ⟨hcr, hsr⟩ := hP (M 2 1) (M 2 2) nzr
  obtain ⟨hcy, hsy⟩ := hP (M 1 0) (M 0 0) nzy
  rw [er, ← hρdef] at hcr hsr
  rw [ey, ← hρdef] at hcy hsy
  have key : ∀ a : R, a * ρ = M 2 0 →
      mmul (mmul (Rz P (P.atan2 (M 1 0) (M 0 0))) (Ry P (-(P.atan a)))) (Rx P (P.atan2 (M 2 1) (M 2 2))) = M := by
    intro a ha
    obtain ⟨hcp, hsp⟩ := pitch_of_atan P hS hA hN (M 2 0) ρ a hρpos hρ2 ha
    exact zyx_core M hM ρ _ _ _ _ _ _ (ne_of_gt hρpos) hρ2 hcr hsr hcp hsp hcy hsy
  have hρne : ρ ≠ 0 := ne_of_gt hρpos
  unfold Gen.tr2rpy_zyx at h; simp only [] at h
  rw [if_neg hns] at h
  split_ifs at h with c1 c2 c3 c4 c5 c6 c7 <;> cases h <;> rw [(rpy2r_zyx P _).1] <;> congr 1 <;> simp only [v3_0, v3_1, v3_2] <;> apply key
  · have d : M 2 2 ≠ 0 := abs_gt_ne c3
    field_simp; linear_combination (M 2 0) * hcr
  · have d : M 2 1 ≠ 0 := abs_gt_ne c2
    field_simp; linear_combination (M 2 0) * hsr
  · have d : M 2 2 ≠ 0 := abs_gt_ne c4
    field_simp; linear_combination (M 2 0) * hcr
  · have d : M 1 0 ≠ 0 := abs_gt_ne c1
    field_simp; linear_combination (M 2 0) * hsy
  · have d : M 2 2 ≠ 0 := abs_gt_ne c6
    field_simp; linear_combination (M 2 0) * hcr
  · have d : M 2 1 ≠ 0 := abs_gt_ne c5
    field_simp; linear_combination (M 2 0) * hsr
  · have d : M 2 2 ≠ 0 := abs_gt_ne c7
    field_simp; linear_combination (M 2 0) * hcr
  · have d : M 0 0 ≠ 0 := by
      intro e
      have h10 : M 1 0 = 0 := by
        have : |M 1 0| ≤ |M 0 0| := not_lt.mp c1
        rw [e, abs_zero] at this; exact abs_eq_zero.mp (le_antisymm this (abs_nonneg _))
      rw [e, h10] at ey; linarith
    field_simp; linear_combination (M 2 0) * hcy

/-! ### tr2eul is a right inverse of eul2r (ZYZ), both non-singular branches -/

/-- algebraic core of "eul2r ∘ tr2eul = id" (ZYZ): φ from the third column, θ from its length and M22, ψ from the rotated first rows -/
theorem zyz_core (M : Mat 3 3 R) (hM : IsSO3 M) (ρ cf sf ct st cp sp : R) (hρ : ρ ≠ 0)
    (hρ2 : ρ * ρ = M 0 2 * M 0 2 + M 1 2 * M 1 2) (h1 : cf * ρ = M 0 2) (h2 : sf * ρ = M 1 2)
    (h3 : ct = M 2 2) (h4 : st = ρ) (h5 : cp = -sf * M 0 1 + cf * M 1 1) (h6 : sp = -sf * M 0 0 + cf * M 1 0) :
    mmul (mmul (rotz cf sf) (roty ct st)) (rotz cp sp) = M := by
  obtain ⟨c00, c01, c02, c10, c11, c12, c20, c21, c22⟩ := hM.cof
  have col2 : M 0 2 * M 0 2 + M 1 2 * M 1 2 + M 2 2 * M 2 2 = 1 := by
    have e := congrFun (congrFun hM.transpose_mul 2) 2
    simpa [mmul, mT, one3, Fin.sum_univ_three] using e
  have hρ2' : ρ * ρ ≠ 0 := mul_ne_zero hρ hρ
  subst h3 h5 h6
  rw [h4]
  apply Mat.ext33' <;> simp [mmul, rotz, roty, Fin.sum_univ_three]
  · apply mul_right_cancel₀ hρ2'
    linear_combination (-cf*sf*ρ^2) * c10 + (M 0 0*M 1 2 + M 0 0*ρ*sf - M 0 2*M 2 1*cf*ρ) * h2 + (-cf^2*ρ^2) * c00 + (M 0 0*M 0 2 + M 0 0*cf*ρ + M 1 2*M 2 1*cf*ρ) * h1 + (-M 0 0) * hρ2
  · apply mul_right_cancel₀ hρ2'
    linear_combination (-1) * c01 + (M 0 1*M 1 2 + M 0 1*ρ*sf - M 1 1*cf*ρ + M 0 0*M 2 2*cf*ρ) * h2 + (M 2 2) * c10 + (-M 1 2) * c20 + (M 2 2*cf*ρ) * c21 + (-M 1 1*M 1 2 - M 2 1*M 2 2 - M 1 0*M 2 2*cf*ρ) * h1 + (-M 0 1) * col2 + (-M 0 1) * hρ2
  · linear_combination h1
  · apply mul_right_cancel₀ hρ2'
    linear_combination (-ρ^2*sf^2) * c10 + (-cf*sf*ρ^2) * c00 + (-M 1 0) * hρ2 + (M 0 2*M 1 0 + M 1 0*cf*ρ + M 1 2*M 2 1*ρ*sf) * h1 + (M 1 0*M 1 2 + M 1 0*ρ*sf - M 0 2*M 2 1*ρ*sf) * h2
  · apply mul_right_cancel₀ hρ2'
    linear_combination (-ρ^2*sf^2) * c11 + (-M 1 1) * hρ2 + (-cf*sf*ρ^2) * c01 + (M 0 2*M 1 1 + M 1 1*cf*ρ - M 1 2*M 2 0*ρ*sf) * h1 + (M 1 1*M 1 2 + M 1 1*ρ*sf + M 0 2*M 2 0*ρ*sf) * h2
  · linear_combination h2
  · linear_combination (-1) * c20 + (-M 1 1) * h1 + (M 0 1) * h2
  · linear_combination (-1) * c21 + (M 1 0) * h1 + (-M 0 0) * h2

/-- **eul2r(tr2eul(R)) = R** for every rotation matrix whose third column is not (numerically) along z, i.e. on both
non-singular branches of the ZYZ extraction -/
theorem tr2eul_right_inverse (hS : P.Sqrt) (hP : Atan2Polar P) (M : Mat 3 3 R) (hM : IsSO3 M) (v : Vec 3 R)
    (h : Gen.tr2eul P M = .ok v) (hns : ¬ (|M 0 2| < 5 / 2251799813685248 ∧ |M 1 2| < 5 / 2251799813685248)) :
    Gen.eul2r_rad P v = .ok M := by
  have r00 : M 0 0 * M 0 0 + M 0 1 * M 0 1 + M 0 2 * M 0 2 = 1 := by
    have e := congrFun (congrFun hM.orth 0) 0; simpa [mmul, mT, one3, Fin.sum_univ_three] using e
  have r11 : M 1 0 * M 1 0 + M 1 1 * M 1 1 + M 1 2 * M 1 2 = 1 := by
    have e := congrFun (congrFun hM.orth 1) 1; simpa [mmul, mT, one3, Fin.sum_univ_three] using e
  have r01 : M 0 0 * M 1 0 + M 0 1 * M 1 1 + M 0 2 * M 1 2 = 0 := by
    have e := congrFun (congrFun hM.orth 0) 1; simpa [mmul, mT, one3, Fin.sum_univ_three] using e
  have col2 : M 0 2 * M 0 2 + M 1 2 * M 1 2 + M 2 2 * M 2 2 = 1 := by
    have e := congrFun (congrFun hM.transpose_mul 2) 2; simpa [mmul, mT, one3, Fin.sum_univ_three] using e
  have nz : M 0 2 ≠ 0 ∨ M 1 2 ≠ 0 := by
    by_contra hc; push_neg at hc; apply hns; rw [hc.1, hc.2]; simp
  obtain ⟨hcf, hsf⟩ := hP (M 1 2) (M 0 2) nz
  set ρ := P.sqrt (M 0 2 * M 0 2 + M 1 2 * M 1 2) with hρdef
  have hnn : 0 ≤ M 0 2 * M 0 2 + M 1 2 * M 1 2 := add_nonneg (mul_self_nonneg _) (mul_self_nonneg _)
  have hρ2 : ρ * ρ = M 0 2 * M 0 2 + M 1 2 * M 1 2 := hS.mul_self _ hnn
  have hpos : 0 < M 0 2 * M 0 2 + M 1 2 * M 1 2 := by
    rcases nz with h1 | h1
    · have := mul_self_pos.mpr h1; nlinarith [mul_self_nonneg (M 1 2)]
    · have := mul_self_pos.mpr h1; nlinarith [mul_self_nonneg (M 0 2)]
  have hρpos : 0 < ρ := by
    rcases lt_or_eq_of_le (hS.nonneg (M 0 2 * M 0 2 + M 1 2 * M 1 2)) with h1 | h1
    · exact h1
    · exfalso; rw [← hρdef] at h1; rw [← h1] at hρ2; linarith
  have hρne : ρ ≠ 0 := ne_of_gt hρpos
  set cf := P.cos (P.atan2 (M 1 2) (M 0 2)) with hcfd
  set sf := P.sin (P.atan2 (M 1 2) (M 0 2)) with hsfd
  -- θ: the first argument of atan2 is ρ itself
  have hy : cf * M 0 2 + sf * M 1 2 = ρ := by
    apply mul_right_cancel₀ hρne
    linear_combination (M 0 2) * hcf + (M 1 2) * hsf - hρ2
  have hθarg : M 2 2 * M 2 2 + ρ * ρ = 1 := by linear_combination col2 + hρ2
  obtain ⟨hct, hst⟩ := hP ρ (M 2 2) (Or.inr hρne)
  have s1 : P.sqrt 1 = 1 := sqrt_unique P hS 1 1 zero_le_one zero_lt_one (by ring)
  rw [hθarg, s1, mul_one] at hct hst
  -- ψ: its two arguments lie on the unit circle
  have hcirc : (-sf * M 0 1 + cf * M 1 1) * (-sf * M 0 1 + cf * M 1 1) + (-sf * M 0 0 + cf * M 1 0) * (-sf * M 0 0 + cf * M 1 0) = 1 := by
    have hρ2' : ρ * ρ ≠ 0 := mul_ne_zero hρne hρne
    have : ((-sf * M 0 1 + cf * M 1 1) * (-sf * M 0 1 + cf * M 1 1) + (-sf * M 0 0 + cf * M 1 0) * (-sf * M 0 0 + cf * M 1 0) - 1) * (ρ * ρ) = 0 := by
      linear_combination (-2*cf*sf*ρ^2) * r01 + (ρ^2*sf^2) * r00 + (M 0 2*M 1 0^2 + M 0 2*M 1 1^2 + cf*ρ*M 1 0^2 + cf*ρ*M 1 1^2 + 2*M 0 2*M 1 2*ρ*sf) * hcf + (M 0 2^2) * r11 + (M 1 2 + M 1 2*M 0 2^2 + ρ*sf - ρ*sf*M 0 2^2) * hsf + (-1) * hρ2
    have := (mul_eq_zero.mp this).resolve_right hρ2'
    linarith
  have nzψ : (-sf * M 0 1 + cf * M 1 1) ≠ 0 ∨ (-sf * M 0 0 + cf * M 1 0) ≠ 0 := by
    by_contra hc; push_neg at hc; rw [hc.1, hc.2] at hcirc; simp at hcirc
  obtain ⟨hcp, hsp⟩ := hP (-sf * M 0 0 + cf * M 1 0) (-sf * M 0 1 + cf * M 1 1) nzψ
  rw [hcirc, s1, mul_one] at hcp hsp
  have key := zyz_core M hM ρ cf sf _ _ _ _ hρne hρ2 hcf hsf hct hst hcp hsp
  unfold Gen.tr2eul at h; simp only [] at h
  split_ifs at h with c1 c2 <;> cases h
  · exact absurd ⟨c1, c2⟩ hns
  all_goals
    (rw [eul2r_zyz]; congr 1; simp only [v3_0, v3_1, v3_2, Rz, Ry]
     have hy' := hy; simp only [hcfd, hsfd] at hy'
     rw [hy']; convert key using 4 <;> ring_nf)

/-! ### tr2rpy is a right inverse of rpy2r (XYZ / arm order) -/

/-- with t = m/ρ: cos(atan t) = ρ and sin(atan t) = m -/
theorem pitch_of_atan_pos (hS : P.Sqrt) (hA : AtanLaw P) (m ρ t : R) (hρ : 0 < ρ) (hρ2 : ρ * ρ = 1 - m * m) (ht : t * ρ = m) :
    P.cos (P.atan t) = ρ ∧ P.sin (P.atan t) = m := by
  obtain ⟨hc, hs⟩ := hA t
  have hne : ρ ≠ 0 := ne_of_gt hρ
  have hsq : P.sqrt (1 + t * t) = 1 / ρ := by
    apply sqrt_unique P hS _ _ (add_nonneg zero_le_one (mul_self_nonneg t)) (by positivity)
    field_simp
    have : t = m / ρ := by field_simp; exact ht
    rw [this]; field_simp; linarith [hρ2]
  rw [hsq] at hc hs
  constructor
  · field_simp at hc; linarith [hc]
  · have : P.sin (P.atan t) = t * ρ := by field_simp at hs; linarith [hs]
    rw [this, ht]

/-- algebraic core for the XYZ order: R = Rx(yaw) Ry(pitch) Rz(roll) -/
theorem xyz_core (M : Mat 3 3 R) (hM : IsSO3 M) (ρ cr sr cp sp cy sy : R) (hρ : ρ ≠ 0)
    (hρ2 : ρ * ρ = 1 - M 0 2 * M 0 2)
    (h1 : cr * ρ = M 0 0) (h2 : sr * ρ = -M 0 1) (h3 : cp = ρ) (h4 : sp = M 0 2) (h5 : cy * ρ = M 2 2) (h6 : sy * ρ = -M 1 2) :
    mmul (mmul (rotx cy sy) (roty cp sp)) (rotz cr sr) = M := by
  obtain ⟨c00, c01, c02, c10, c11, c12, c20, c21, c22⟩ := hM.cof
  have hρ2' : ρ * ρ ≠ 0 := mul_ne_zero hρ hρ
  subst h4
  rw [h3]
  apply Mat.ext33' <;> simp [mmul, rotx, roty, rotz, Fin.sum_univ_three]
  · linear_combination h1
  · linear_combination (-1) * h2
  · apply mul_right_cancel₀ hρ2'
    linear_combination (-M 1 0) * hρ2 + (M 0 2*ρ*sy) * h1 + (-1) * c10 + (-M 0 2) * c21 + (cy*ρ) * h2 + (-M 0 1) * h5 + (M 0 0*M 0 2) * h6
  · apply mul_right_cancel₀ hρ2'
    linear_combination (M 0 2) * c20 + (-M 1 1) * hρ2 + (cy*ρ) * h1 + (-M 0 2*ρ*sy) * h2 + (-1) * c11 + (M 0 0) * h5 + (M 0 1*M 0 2) * h6
  · linear_combination (-1) * h6
  · apply mul_right_cancel₀ hρ2'
    linear_combination (-M 2 0) * hρ2 + (ρ*sr) * h6 + (-M 0 2*cr*ρ) * h5 + (-M 0 2*M 2 2) * h1 + (M 0 2) * c11 + (-M 1 2) * h2 + (-1) * c20
  · apply mul_right_cancel₀ hρ2'
    linear_combination (-M 2 1) * hρ2 + (ρ*sy) * h1 + (-M 0 2) * c10 + (-1) * c21 + (M 0 2*cy*ρ) * h2 + (-M 0 1*M 0 2) * h5 + (M 0 0) * h6
  · linear_combination h5

/-- **rpy2r(tr2rpy(R), 'xyz') = R** away from the pitch = ±90° singularity, on all eight branches (XYZ / arm order) -/
theorem tr2rpy_xyz_right_inverse (hS : P.Sqrt) (hP : Atan2Polar P) (hA : AtanLaw P) (hN : NegLaw P)
    (M : Mat 3 3 R) (hM : IsSO3 M) (v : Vec 3 R) (h : Gen.tr2rpy_xyz P M = .ok v)
    (hns : ¬ |(|M 0 2| - 1)| < 5 / 2251799813685248) : Gen.rpy2r_xyz_rad P v = .ok M := by
  have row0 : M 0 0 * M 0 0 + M 0 1 * M 0 1 + M 0 2 * M 0 2 = 1 := by
    have e := congrFun (congrFun hM.orth 0) 0; simpa [mmul, mT, one3, Fin.sum_univ_three] using e
  have col2 : M 0 2 * M 0 2 + M 1 2 * M 1 2 + M 2 2 * M 2 2 = 1 := by
    have e := congrFun (congrFun hM.transpose_mul 2) 2; simpa [mmul, mT, one3, Fin.sum_univ_three] using e
  have hlt : M 0 2 * M 0 2 < 1 := by
    rcases lt_or_eq_of_le (by nlinarith [mul_self_nonneg (M 0 0), mul_self_nonneg (M 0 1)] : M 0 2 * M 0 2 ≤ 1) with h1 | h1
    · exact h1
    · exfalso; apply hns
      have : |M 0 2| = 1 := by
        have h2 : |M 0 2| * |M 0 2| = 1 := by rw [abs_mul_abs_self]; exact h1
        have h3 : (|M 0 2| - 1) * (|M 0 2| + 1) = 0 := by linear_combination h2
        rcases mul_eq_zero.mp h3 with h4 | h4
        · linarith
        · exfalso; linarith [abs_nonneg (M 0 2)]
      rw [this]; simp
  set ρ := P.sqrt (1 - M 0 2 * M 0 2) with hρdef
  have hρ2 : ρ * ρ = 1 - M 0 2 * M 0 2 := hS.mul_self _ (by linarith)
  have hρpos : 0 < ρ := by
    rcases lt_or_eq_of_le (hS.nonneg (1 - M 0 2 * M 0 2)) with h1 | h1
    · exact h1
    · exfalso; rw [← hρdef] at h1; rw [← h1] at hρ2; linarith
  have hρne : ρ ≠ 0 := ne_of_gt hρpos
  have er : M 0 0 * M 0 0 + M 0 1 * M 0 1 = 1 - M 0 2 * M 0 2 := by linarith
  have ey : M 2 2 * M 2 2 + M 1 2 * M 1 2 = 1 - M 0 2 * M 0 2 := by linarith
  have nzr : M 0 0 ≠ 0 ∨ M 0 1 ≠ 0 := by
    by_contra hc; push_neg at hc; rw [hc.1, hc.2] at er; linarith
  have nzy : M 2 2 ≠ 0 ∨ M 1 2 ≠ 0 := by
    by_contra hc; push_neg at hc; rw [hc.1, hc.2] at ey; linarith
  obtain ⟨hcr0, hsr0⟩ := hP (M 0 1) (M 0 0) nzr
  obtain ⟨hcy0, hsy0⟩ := hP (M 1 2) (M 2 2) nzy
  rw [er, ← hρdef] at hcr0 hsr0
  rw [ey, ← hρdef] at hcy0 hsy0
  obtain ⟨nr1, nr2⟩ := hN (P.atan2 (M 0 1) (M 0 0))
  obtain ⟨ny1, ny2⟩ := hN (P.atan2 (M 1 2) (M 2 2))
  have hcr : P.cos (-(P.atan2 (M 0 1) (M 0 0))) * ρ = M 0 0 := by rw [nr1]; exact hcr0
  have hsr : P.sin (-(P.atan2 (M 0 1) (M 0 0))) * ρ = -M 0 1 := by rw [nr2]; linear_combination -hsr0
  have hcy : P.cos (-(P.atan2 (M 1 2) (M 2 2))) * ρ = M 2 2 := by rw [ny1]; exact hcy0
  have hsy : P.sin (-(P.atan2 (M 1 2) (M 2 2))) * ρ = -M 1 2 := by rw [ny2]; linear_combination -hsy0
  have keyp : ∀ a : R, a * ρ = M 0 2 →
      mmul (mmul (Rx P (-(P.atan2 (M 1 2) (M 2 2)))) (Ry P (P.atan a))) (Rz P (-(P.atan2 (M 0 1) (M 0 0)))) = M := by
    intro a ha
    obtain ⟨hcp, hsp⟩ := pitch_of_atan_pos P hS hA (M 0 2) ρ a hρpos hρ2 ha
    exact xyz_core M hM ρ _ _ _ _ _ _ hρne hρ2 hcr hsr hcp hsp hcy hsy
  have keyn : ∀ a : R, a * ρ = -M 0 2 →
      mmul (mmul (Rx P (-(P.atan2 (M 1 2) (M 2 2)))) (Ry P (-(P.atan a)))) (Rz P (-(P.atan2 (M 0 1) (M 0 0)))) = M := by
    intro a ha
    obtain ⟨hcp, hsp⟩ := pitch_of_atan P hS hA hN (-M 0 2) ρ a hρpos (by linear_combination hρ2) ha
    exact xyz_core M hM ρ _ _ _ _ _ _ hρne hρ2 hcr hsr hcp (by rw [hsp]; ring) hcy hsy
  unfold Gen.tr2rpy_xyz at h; simp only [] at h
  rw [if_neg hns] at h
  split_ifs at h with c1 c2 c3 c4 c5 c6 c7 <;> cases h <;> rw [(rpy2r_xyz P _).1] <;> congr 1 <;> simp only [v3_0, v3_1, v3_2]
  · apply keyp; have d : M 2 2 ≠ 0 := abs_gt_ne c3
    field_simp; linear_combination (M 0 2) * hcy
  · apply keyn; have d : M 1 2 ≠ 0 := abs_gt_ne c2
    field_simp; linear_combination (M 0 2) * hsy
  · apply keyp; have d : M 2 2 ≠ 0 := abs_gt_ne c4
    field_simp; linear_combination (M 0 2) * hcy
  · apply keyn; have d : M 0 1 ≠ 0 := abs_gt_ne c1
    field_simp; linear_combination (M 0 2) * hsr
  · apply keyp; have d : M 2 2 ≠ 0 := abs_gt_ne c6
    field_simp; linear_combination (M 0 2) * hcy
  · apply keyn; have d : M 1 2 ≠ 0 := abs_gt_ne c5
    field_simp; linear_combination (M 0 2) * hsy
  · apply keyp; have d : M 2 2 ≠ 0 := abs_gt_ne c7
    field_simp; linear_combination (M 0 2) * hcy
  · apply keyp
    have d : M 0 0 ≠ 0 := by
      intro e
      have h01 : M 0 1 = 0 := by
        have : |M 0 1| ≤ |M 0 0| := not_lt.mp c1
        rw [e, abs_zero] at this; exact abs_eq_zero.mp (le_antisymm this (abs_nonneg _))
      rw [e, h01] at er; linarith
    field_simp; linear_combination (M 0 2) * hcr

/-! ### tr2rpy is a right inverse of rpy2r (YXZ / camera order) -/

/-- algebraic core for the YXZ (camera) order: R = Ry(yaw) Rx(pitch) Rz(roll) -/
theorem yxz_core (M : Mat 3 3 R) (hM : IsSO3 M) (ρ cr sr cp sp cy sy : R) (hρ : ρ ≠ 0)
    (hρ2 : ρ * ρ = 1 - M 1 2 * M 1 2)
    (h1 : cr * ρ = M 1 1) (h2 : sr * ρ = M 1 0) (h3 : cp = ρ) (h4 : sp = -M 1 2) (h5 : cy * ρ = M 2 2) (h6 : sy * ρ = M 0 2) :
    mmul (mmul (roty cy sy) (rotx cp sp)) (rotz cr sr) = M := by
  obtain ⟨c00, c01, c02, c10, c11, c12, c20, c21, c22⟩ := hM.cof
  have hρ2' : ρ * ρ ≠ 0 := mul_ne_zero hρ hρ
  subst h4
  rw [h3]
  apply Mat.ext33' <;> simp [mmul, rotx, roty, rotz, Fin.sum_univ_three]
  · apply mul_right_cancel₀ hρ2'
    linear_combination (cy*ρ) * h1 + (-1) * c00 + (-M 1 2*ρ*sy) * h2 + (M 1 2) * c21 + (-M 0 0) * hρ2 + (-M 1 0*M 1 2) * h6 + (M 1 1) * h5
  · apply mul_right_cancel₀ hρ2'
    linear_combination (-M 1 2*cr*ρ) * h6 + (-M 1 2) * c20 + (-ρ*sr) * h5 + (M 1 1*M 1 2 - M 1 2*cr*ρ) * c02 + (-M 2 2) * h2 + (-M 0 1) * hρ2 + (M 1 1*M 1 2*M 2 0 - M 1 0*M 1 2*M 2 1) * h1 + (-1) * c01
  · linear_combination h6
  · linear_combination h2
  · linear_combination h1
  · apply mul_right_cancel₀ hρ2'
    linear_combination (-M 1 2) * c01 + (-ρ*sy) * h1 + (-1) * c20 + (-M 1 2*cy*ρ) * h2 + (-M 2 0) * hρ2 + (-M 1 1) * h6 + (-M 1 0*M 1 2) * h5
  · apply mul_right_cancel₀ hρ2'
    linear_combination (-M 2 1) * hρ2 + (-M 1 2*cy*ρ) * h1 + (-1) * c21 + (ρ*sy) * h2 + (M 1 2) * c00 + (-M 1 1*M 1 2) * h5 + (M 1 0) * h6
  · linear_combination h5

/-- **rpy2r(tr2rpy(R), 'yxz') = R** away from the pitch = ±90° singularity, on all eight branches (YXZ / camera order) -/
theorem tr2rpy_yxz_right_inverse (hS : P.Sqrt) (hP : Atan2Polar P) (hA : AtanLaw P) (hN : NegLaw P)
    (M : Mat 3 3 R) (hM : IsSO3 M) (v : Vec 3 R) (h : Gen.tr2rpy_yxz P M = .ok v)
    (hns : ¬ |(|M 1 2| - 1)| < 5 / 2251799813685248) : Gen.rpy2r_yxz_rad P v = .ok M := by
  have row1 : M 1 0 * M 1 0 + M 1 1 * M 1 1 + M 1 2 * M 1 2 = 1 := by
    have e := congrFun (congrFun hM.orth 1) 1; simpa [mmul, mT, one3, Fin.sum_univ_three] using e
  have col2 : M 0 2 * M 0 2 + M 1 2 * M 1 2 + M 2 2 * M 2 2 = 1 := by
    have e := congrFun (congrFun hM.transpose_mul 2) 2; simpa [mmul, mT, one3, Fin.sum_univ_three] using e
  have hlt : M 1 2 * M 1 2 < 1 := by
    rcases lt_or_eq_of_le (by nlinarith [mul_self_nonneg (M 1 0), mul_self_nonneg (M 1 1)] : M 1 2 * M 1 2 ≤ 1) with h1 | h1
    · exact h1
    · exfalso; apply hns
      have : |M 1 2| = 1 := by
        have h2 : |M 1 2| * |M 1 2| = 1 := by rw [abs_mul_abs_self]; exact h1
        have h3 : (|M 1 2| - 1) * (|M 1 2| + 1) = 0 := by linear_combination h2
        rcases mul_eq_zero.mp h3 with h4 | h4
        · linarith
        · exfalso; linarith [abs_nonneg (M 1 2)]
      rw [this]; simp
  set ρ := P.sqrt (1 - M 1 2 * M 1 2) with hρdef
  have hρ2 : ρ * ρ = 1 - M 1 2 * M 1 2 := hS.mul_self _ (by linarith)
  have hρpos : 0 < ρ := by
    rcases lt_or_eq_of_le (hS.nonneg (1 - M 1 2 * M 1 2)) with h1 | h1
    · exact h1
    · exfalso; rw [← hρdef] at h1; rw [← h1] at hρ2; linarith
  have hρne : ρ ≠ 0 := ne_of_gt hρpos
  have er : M 1 1 * M 1 1 + M 1 0 * M 1 0 = 1 - M 1 2 * M 1 2 := by linarith
  have ey : M 2 2 * M 2 2 + M 0 2 * M 0 2 = 1 - M 1 2 * M 1 2 := by linarith
  have nzr : M 1 1 ≠ 0 ∨ M 1 0 ≠ 0 := by
    by_contra hc; push_neg at hc; rw [hc.1, hc.2] at er; linarith
  have nzy : M 2 2 ≠ 0 ∨ M 0 2 ≠ 0 := by
    by_contra hc; push_neg at hc; rw [hc.1, hc.2] at ey; linarith
  obtain ⟨hcr, hsr⟩ := hP (M 1 0) (M 1 1) nzr
  obtain ⟨hcy, hsy⟩ := hP (M 0 2) (M 2 2) nzy
  rw [er, ← hρdef] at hcr hsr
  rw [ey, ← hρdef] at hcy hsy
  have key : ∀ a : R, a * ρ = M 1 2 →
      mmul (mmul (Ry P (P.atan2 (M 0 2) (M 2 2))) (Rx P (-(P.atan a)))) (Rz P (P.atan2 (M 1 0) (M 1 1))) = M := by
    intro a ha
    obtain ⟨hcp, hsp⟩ := pitch_of_atan P hS hA hN (M 1 2) ρ a hρpos hρ2 ha
    exact yxz_core M hM ρ _ _ _ _ _ _ hρne hρ2 hcr hsr hcp hsp hcy hsy
  unfold Gen.tr2rpy_yxz at h; simp only [] at h
  rw [if_neg hns] at h
  split_ifs at h with c1 c2 c3 c4 c5 c6 c7 <;> cases h <;> rw [(rpy2r_yxz P _).1] <;> congr 1 <;> simp only [v3_0, v3_1, v3_2] <;> apply key
  · have d : M 2 2 ≠ 0 := abs_gt_ne c3
    field_simp; linear_combination (M 1 2) * hcy
  · have d : M 0 2 ≠ 0 := abs_gt_ne c2
    field_simp; linear_combination (M 1 2) * hsy
  · have d : M 2 2 ≠ 0 := abs_gt_ne c4
    field_simp; linear_combination (M 1 2) * hcy
  · have d : M 1 1 ≠ 0 := abs_gt_ne c1
    field_simp; linear_combination (M 1 2) * hcr
  · have d : M 2 2 ≠ 0 := abs_gt_ne c6
    field_simp; linear_combination (M 1 2) * hcy
  · have d : M 0 2 ≠ 0 := abs_gt_ne c5
    field_simp; linear_combination (M 1 2) * hsy
  · have d : M 2 2 ≠ 0 := abs_gt_ne c7
    field_simp; linear_combination (M 1 2) * hcy
  · have d : M 1 0 ≠ 0 := by
      intro e
      have h11 : M 1 1 = 0 := by
        have : |M 1 1| ≤ |M 1 0| := not_lt.mp c1
        rw [e, abs_zero] at this; exact abs_eq_zero.mp (le_antisymm this (abs_nonneg _))
      rw [e, h11] at er; linarith
    field_simp; linear_combination (M 1 2) * hsr

/-- the alias order names use the same extraction code -/
theorem tr2rpy_aliases (M : Mat 3 3 R) :
    Gen.tr2rpy_vehicle P M = Gen.tr2rpy_zyx P M ∧ Gen.tr2rpy_arm P M = Gen.tr2rpy_xyz P M ∧ Gen.tr2rpy_camera P M = Gen.tr2rpy_yxz P M := by
  refine ⟨?_, ?_, ?_⟩
  · unfold Gen.tr2rpy_vehicle Gen.tr2rpy_zyx; rfl
  · unfold Gen.tr2rpy_arm Gen.tr2rpy_xyz; rfl
  · unfold Gen.tr2rpy_camera Gen.tr2rpy_yxz; rfl

end SmVerif.Props.C05
