/-
  C05 — angle-set and axis-angle extraction is a right inverse of construction.
  Proved: the constructors follow the documented axis orders (all six order names, both units, packed and separate
  angles), degrees = radians·π/180 for inputs and outputs, axis-angle = Rodrigues about the normalised axis, planar
  (x, y, θ) round trips.  Explored (smv/props/c05.py, 1e-6): rpy / Euler / axis-angle round trips on every branch incl.
  the singular bands.
-/
import SmVerif.Bridge.Rot
import SmVerif.Bridge.AngVec
import SmVerif.Props.C01

namespace SmVerif.Props.C05
open SmVerif SmVerif.Spec SmVerif.Bridge
set_option linter.unusedSectionVars false
set_option linter.unusedTactic false
set_option linter.unreachableTactic false
set_option maxHeartbeats 1000000
variable {R : Type} [Field R] [LinearOrder R] [IsStrictOrderedRing R] (P : Prims R)

abbrev Rx (P : Prims R) (a : R) : Mat 3 3 R := rotx (P.cos a) (P.sin a)
abbrev Ry (P : Prims R) (a : R) : Mat 3 3 R := roty (P.cos a) (P.sin a)
abbrev Rz (P : Prims R) (a : R) : Mat 3 3 R := rotz (P.cos a) (P.sin a)

/-! ### documented axis orders; angles are (roll, pitch, yaw) = (v 0, v 1, v 2) -/

/-- zyx / vehicle: Rz(yaw) Ry(pitch) Rx(roll) -/
theorem rpy2r_zyx (v : Vec 3 R) :
    Gen.rpy2r_zyx_rad P v = .ok (mmul (mmul (Rz P (v 2)) (Ry P (v 1))) (Rx P (v 0))) ∧
    Gen.rpy2r_vehicle_rad P v = Gen.rpy2r_zyx_rad P v := by
  constructor
  · rw [Bridge.rpy2r_zyx_rad]; rfl
  · rw [Bridge.rpy2r_vehicle_rad, Bridge.rpy2r_zyx_rad]
/-- xyz / arm: Rx(yaw) Ry(pitch) Rz(roll) -/
theorem rpy2r_xyz (v : Vec 3 R) :
    Gen.rpy2r_xyz_rad P v = .ok (mmul (mmul (Rx P (v 2)) (Ry P (v 1))) (Rz P (v 0))) ∧
    Gen.rpy2r_arm_rad P v = Gen.rpy2r_xyz_rad P v := by
  constructor
  · rw [Bridge.rpy2r_xyz_rad]; rfl
  · rw [Bridge.rpy2r_arm_rad, Bridge.rpy2r_xyz_rad]
/-- yxz / camera: Ry(yaw) Rx(pitch) Rz(roll) -/
theorem rpy2r_yxz (v : Vec 3 R) :
    Gen.rpy2r_yxz_rad P v = .ok (mmul (mmul (Ry P (v 2)) (Rx P (v 1))) (Rz P (v 0))) ∧
    Gen.rpy2r_camera_rad P v = Gen.rpy2r_yxz_rad P v := by
  constructor
  · rw [Bridge.rpy2r_yxz_rad]; rfl
  · rw [Bridge.rpy2r_camera_rad, Bridge.rpy2r_yxz_rad]
/-- Euler ZYZ: Rz(φ) Ry(θ) Rz(ψ) -/
theorem eul2r_zyz (v : Vec 3 R) : Gen.eul2r_rad P v = .ok (mmul (mmul (Rz P (v 0)) (Ry P (v 1))) (Rz P (v 2))) := by
  rw [Bridge.eul2r_rad]; rfl
/-- an order name that is not documented is rejected -/
theorem rpy2r_unknown_order (v : Vec 3 R) : Gen.rpy2r_badorder P v = .raised .ValueError := Bridge.rpy2r_badorder P v

/-- separate angles ≡ packed vector -/
theorem rpy2r_scalars (r p y : R) :
    Gen.rpy2r_zyx_scalars P r p y = Gen.rpy2r_zyx_rad P (v3 r p y) ∧ Gen.rpy2r_xyz_scalars P r p y = Gen.rpy2r_xyz_rad P (v3 r p y) ∧
    Gen.rpy2r_yxz_scalars P r p y = Gen.rpy2r_yxz_rad P (v3 r p y) ∧ Gen.eul2r_scalars P r p y = Gen.eul2r_rad P (v3 r p y) := by
  refine ⟨?_, ?_, ?_, ?_⟩
  · rw [Bridge.rpy2r_zyx_scalars, Bridge.rpy2r_zyx_rad]
  · rw [Bridge.rpy2r_xyz_scalars, Bridge.rpy2r_xyz_rad]
  · rw [Bridge.rpy2r_yxz_scalars, Bridge.rpy2r_yxz_rad]
  · rw [Bridge.eul2r_scalars, Bridge.eul2r_rad]

/-! ### degrees: unit='deg' with angle a equals unit='rad' with a·π/180 -/

theorem deg_inputs (a : R) (v : Vec 3 R) :
    Gen.rotx_deg P a = Gen.rotx_rad P (a * P.pi / 180) ∧ Gen.roty_deg P a = Gen.roty_rad P (a * P.pi / 180) ∧
    Gen.rotz_deg P a = Gen.rotz_rad P (a * P.pi / 180) ∧ Gen.rot2_deg P a = Gen.rot2_rad P (a * P.pi / 180) ∧
    Gen.trotx_deg P a = Gen.trotx_rad P (a * P.pi / 180) ∧ Gen.trot2_deg P a = Gen.trot2_rad P (a * P.pi / 180) ∧
    Gen.rpy2r_zyx_deg P v = Gen.rpy2r_zyx_rad P (fun i => v i * P.pi / 180) ∧
    Gen.rpy2r_xyz_deg P v = Gen.rpy2r_xyz_rad P (fun i => v i * P.pi / 180) ∧
    Gen.rpy2r_yxz_deg P v = Gen.rpy2r_yxz_rad P (fun i => v i * P.pi / 180) ∧
    Gen.eul2r_deg P v = Gen.eul2r_rad P (fun i => v i * P.pi / 180) := by
  refine ⟨?_, ?_, ?_, ?_, ?_, ?_, ?_, ?_, ?_, ?_⟩
  · rw [Bridge.rotx_deg, Bridge.rotx_rad]; rfl
  · rw [Bridge.roty_deg, Bridge.roty_rad]; rfl
  · rw [Bridge.rotz_deg, Bridge.rotz_rad]; rfl
  · rw [Bridge.rot2_deg, Bridge.rot2_rad]; rfl
  · rw [Bridge.trotx_deg, Bridge.trotx_rad]; rfl
  · rw [Bridge.trot2_deg, Bridge.trot2_rad]; rfl
  · rw [Bridge.rpy2r_zyx_deg, Bridge.rpy2r_zyx_rad]; rfl
  · rw [Bridge.rpy2r_xyz_deg, Bridge.rpy2r_xyz_rad]; rfl
  · rw [Bridge.rpy2r_yxz_deg, Bridge.rpy2r_yxz_rad]; rfl
  · rw [Bridge.eul2r_deg, Bridge.eul2r_rad]; rfl

/-- axis-angle in degrees -/
theorem angvec2r_deg_eq (th : R) (v : Vec 3 R) : Gen.angvec2r_deg P th v = Gen.angvec2r P (th * P.pi / 180) v := by
  unfold Gen.angvec2r_deg Gen.angvec2r; rfl

/-- extracted angles in degrees are the radian results times 180/π (zyx) -/
theorem tr2eul_deg_eq (m : Mat 3 3 R) :
    Gen.tr2eul_deg P m = (Gen.tr2eul P m).map (fun v => v3 (v 0 * (180 / P.pi)) (v 1 * (180 / P.pi)) (v 2 * (180 / P.pi))) := by
  unfold Gen.tr2eul_deg Gen.tr2eul
  simp only []
  split_ifs <;> simp [Outcome.map]

/-! ### axis-angle: rotation by θ about the normalised axis -/

theorem angvec2r_value (th : R) (v : Vec 3 R) (M : Mat 3 3 R) (h : Gen.angvec2r P th v = .ok M) :
    M = one3 ∨ (0 < nrm3 P v ∧ M = rodM (fun i => v i / nrm3 P v) (P.cos th) (P.sin th)) :=
  angvec2r_cases P th v M h

/-! ### planar (x, y, θ) -/

/-- on the unit circle atan2 inverts (cos, sin) — all four quadrants -/
def Atan2Circle (P : Prims R) : Prop :=
  ∀ y x : R, x * x + y * y = 1 → P.cos (P.atan2 y x) = x ∧ P.sin (P.atan2 y x) = y

/-- xyt2tr(tr2xyt(T)) = T for every planar rigid motion T -/
theorem xyt2tr_tr2xyt (hA : Atan2Circle P) (T : Mat 3 3 R) (hT : IsSE2 T) (v : Vec 3 R) (h : Gen.tr2xyt P T = .ok v) :
    Gen.xyt2tr P v = .ok T := by
  unfold Gen.tr2xyt at h; simp only [] at h; cases h
  have o := hT.rot.transpose_mul
  have o00 := congrFun (congrFun o 0) 0; have o01 := congrFun (congrFun o 0) 1; have o11 := congrFun (congrFun o 1) 1
  simp [mmul, mT, one2, rotOf2, Fin.sum_univ_two] at o00 o01 o11
  have od := hT.rot.orth
  have p00 := congrFun (congrFun od 0) 0; have p01 := congrFun (congrFun od 0) 1; have p11 := congrFun (congrFun od 1) 1
  simp [mmul, mT, one2, rotOf2, Fin.sum_univ_two] at p00 p01 p11
  have hd := hT.rot.det
  simp [det2, rotOf2] at hd
  obtain ⟨hc, hs⟩ := hA (T 1 0) (T 0 0) (by linear_combination o00)
  rw [Bridge.xyt2tr]; congr 1
  simp only [v3_0, v3_1, v3_2, hc, hs]
  -- second column of a planar rotation is determined by the first: T01 = −T10, T11 = T00
  have e01 : T 0 1 = -(T 1 0) := by
    linear_combination -(T 0 1) * o00 + (T 0 0) * o01 - (T 1 0) * hd
  have e11 : T 1 1 = T 0 0 := by
    linear_combination -(T 1 1) * o00 + (T 0 0) * hd + (T 1 0) * o01
  apply Mat.ext33' <;> simp [rt2, rot2, hT.r0, hT.r1, hT.r2, e01, e11]

/-- tr2xyt(xyt2tr(v)) = v whenever atan2(sin θ, cos θ) = θ (i.e. θ ∈ (−π, π]) -/
theorem tr2xyt_xyt2tr (v : Vec 3 R) (hθ : P.atan2 (P.sin (v 2)) (P.cos (v 2)) = v 2) (T : Mat 3 3 R)
    (h : Gen.xyt2tr P v = .ok T) : Gen.tr2xyt P T = .ok v := by
  rw [Bridge.xyt2tr] at h; cases h
  unfold Gen.tr2xyt; simp only []; congr 1
  apply Vec.ext3 <;> simp [rt2, rot2, hθ]

end SmVerif.Props.C05
