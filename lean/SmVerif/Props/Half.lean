/-
  C03 — the exact half turns of the SO(3) logarithm (sin θ = 0, cos θ = −1): exp(log R) = R on every path.
-/
import SmVerif.Props.C03

namespace SmVerif.Props.C03
open SmVerif SmVerif.Spec SmVerif.Bridge
set_option linter.unusedSectionVars false
set_option linter.unusedTactic false
set_option linter.unreachableTactic false
set_option linter.unusedVariables false
set_option maxHeartbeats 1000000
variable {R : Type} [Field R] [LinearOrder R] [IsStrictOrderedRing R] (P : Prims R)

/-- a half turn: with N = M + I = 2 a aᵀ, any vector A with 2 N_kk A_i A_j = N_ik N_jk is ± the axis and Rodrigues' formula about
    it through an angle with cos = -1, sin = 0 gives M -/
theorem half_core (M : Mat 3 3 R) (A0 A1 A2 n0 n1 n2 nk θ : R) (hk : nk ≠ 0)
    (q00 : 2 * nk * (A0 * A0) = n0 * n0) (q01 : 2 * nk * (A0 * A1) = n0 * n1) (q02 : 2 * nk * (A0 * A2) = n0 * n2)
    (q11 : 2 * nk * (A1 * A1) = n1 * n1) (q12 : 2 * nk * (A1 * A2) = n1 * n2) (q22 : 2 * nk * (A2 * A2) = n2 * n2)
    (r00 : n0 * n0 = nk * (M 0 0 + 1)) (r01 : n0 * n1 = nk * M 0 1) (r02 : n0 * n2 = nk * M 0 2)
    (r11 : n1 * n1 = nk * (M 1 1 + 1)) (r12 : n1 * n2 = nk * M 1 2) (r22 : n2 * n2 = nk * (M 2 2 + 1))
    (s01 : M 1 0 = M 0 1) (s02 : M 2 0 = M 0 2) (s12 : M 2 1 = M 1 2) (htr : M 0 0 + M 1 1 + M 2 2 = -1)
    (hcos : P.cos θ = -1) (hsin : P.sin θ = 0) :
    ∃ (a : Vec 3 R) (θ' : R), (∀ i, (v3 (A0 * θ) (A1 * θ) (A2 * θ) : Vec 3 R) i = a i * θ') ∧ a 0 ^ 2 + a 1 ^ 2 + a 2 ^ 2 = 1 ∧
        rodM a (P.cos θ') (P.sin θ') = M := by
  have hk2 : 2 * nk ≠ 0 := mul_ne_zero two_ne_zero hk
  refine ⟨v3 A0 A1 A2, θ, ?_, ?_, ?_⟩
  · intro i; fin_cases i <;> simp
  · simp only [v3_0, v3_1, v3_2]
    apply mul_left_cancel₀ hk2
    linear_combination q00 + q11 + q22 + r00 + r11 + r22 + nk * htr
  · rw [hcos, hsin]
    apply Mat.ext33' <;> simp [rodM, mmul, skew3, one3, Fin.sum_univ_three] <;> apply mul_left_cancel₀ hk2
    · linear_combination (-2) * q11 + (-2) * q22 + (-2) * r11 + (-2) * r22 + (-2 * nk) * htr
    · linear_combination 2 * q01 + 2 * r01
    · linear_combination 2 * q02 + 2 * r02
    · linear_combination 2 * q01 + 2 * r01 + (-2 * nk) * s01
    · linear_combination (-2) * q00 + (-2) * q22 + (-2) * r00 + (-2) * r22 + (-2 * nk) * htr
    · linear_combination 2 * q12 + 2 * r12
    · linear_combination 2 * q02 + 2 * r02 + (-2 * nk) * s02
    · linear_combination 2 * q12 + 2 * r12 + (-2 * nk) * s12
    · linear_combination (-2) * q00 + (-2) * q11 + (-2) * r00 + (-2) * r11 + (-2 * nk) * htr

/-- 2 nk (a/r)(b/r) = a b when r² = 2 nk -/
theorem q_of (a b r nk : R) (hr : r * r = 2 * nk) (hr0 : r ≠ 0) : 2 * nk * (a / r * (b / r)) = a * b := by
  field_simp; linear_combination (-(a * b)) * hr
theorem q_of_neg (a b r nk : R) (hr : r * r = 2 * nk) (hr0 : r ≠ 0) : 2 * nk * (-(a / r) * -(b / r)) = a * b := by
  field_simp; linear_combination (-(a * b)) * hr

/-- the angle the code computes for a half turn: atan2(0, -1) has cosine -1 and sine 0 -/
def Atan2Pi (P : Prims R) : Prop := P.cos (P.atan2 0 (-1)) = -1 ∧ P.sin (P.atan2 0 (-1)) = 0

/-- **exp(log R) = R at the exact half turns**: for a symmetric rotation matrix other than the identity (rotation by π, the skew
part vanishes) `trlog` reads the axis off the largest column of R + I, and the result is θ·a with a unit vector a, cos θ = −1,
sin θ = 0, such that Rodrigues' formula about a through θ reproduces R — on every path of the branch (three pivots, two
arrangements, either sign). -/
theorem exp_log_SO3_halfturn (hS : P.Sqrt) (hA : Atan2Pi P) (m : Mat 3 3 R) (hm : IsSO3 m)
    (s01 : m 1 0 = m 0 1) (s02 : m 2 0 = m 0 2) (s12 : m 2 1 = m 1 2) (htr : m 0 0 + m 1 1 + m 2 2 = -1)
    (L : Vec 3 R) (h : Gen.trlog_R_twist P m = .ok L) :
    ∃ (a : Vec 3 R) (θ : R), (∀ i, L i = a i * θ) ∧ a 0 ^ 2 + a 1 ^ 2 + a 2 ^ 2 = 1 ∧ rodM a (P.cos θ) (P.sin θ) = m := by
  obtain ⟨c00, c01, c02, c10, c11, c12, c20, c21, c22⟩ := hm.cof
  have hss := hS.mul_self _ (sq3_nonneg' ((m 2 1 - m 1 2) / 2) ((m 0 2 - m 2 0) / 2) ((m 1 0 - m 0 1) / 2))
  unfold Gen.trlog_R_twist at h; simp only [] at h
  generalize hsdef : P.sqrt ((m 2 1 - m 1 2) / 2 * ((m 2 1 - m 1 2) / 2) + (m 0 2 - m 2 0) / 2 * ((m 0 2 - m 2 0) / 2) + (m 1 0 - m 0 1) / 2 * ((m 1 0 - m 0 1) / 2)) = s at *
  generalize hcdef : (m 0 0 + m 1 1 + m 2 2 - 1) / 2 = c at *
  have hc1 : c = -1 := by rw [← hcdef, htr]; norm_num
  have hs0 : s = 0 := by
    have : s * s = 0 := by rw [hss, s01, s02, s12]; ring
    exact mul_self_eq_zero.mp this
  subst hc1; subst hs0
  obtain ⟨hcos, hsin⟩ := hA
  -- the distance from the identity is at least 4/√3: the first (identity) branch is not taken
  have hfar : ¬ P.sqrt ((m 0 0 - 1) * (m 0 0 - 1) + m 0 1 * m 0 1 + m 0 2 * m 0 2 + m 1 0 * m 1 0 + (m 1 1 - 1) * (m 1 1 - 1) + m 1 2 * m 1 2 + m 2 0 * m 2 0 + m 2 1 * m 2 1 + (m 2 2 - 1) * (m 2 2 - 1)) < (5 : R) / 2251799813685248 := by
    intro hlt
    have e4 : (m 0 0 - 1) + (m 1 1 - 1) + (m 2 2 - 1) = -4 := by linarith
    have e16 : ((m 0 0 - 1) + (m 1 1 - 1) + (m 2 2 - 1)) * ((m 0 0 - 1) + (m 1 1 - 1) + (m 2 2 - 1)) = 16 := by rw [e4]; norm_num
    have hdiag : (16 : R) / 3 ≤ (m 0 0 - 1) * (m 0 0 - 1) + (m 1 1 - 1) * (m 1 1 - 1) + (m 2 2 - 1) * (m 2 2 - 1) := by
      linarith [mul_self_nonneg ((m 0 0 - 1) - (m 1 1 - 1)), mul_self_nonneg ((m 0 0 - 1) - (m 2 2 - 1)), mul_self_nonneg ((m 1 1 - 1) - (m 2 2 - 1))]
    have hbig : (16 : R) / 3 ≤ (m 0 0 - 1) * (m 0 0 - 1) + m 0 1 * m 0 1 + m 0 2 * m 0 2 + m 1 0 * m 1 0 + (m 1 1 - 1) * (m 1 1 - 1) + m 1 2 * m 1 2 + m 2 0 * m 2 0 + m 2 1 * m 2 1 + (m 2 2 - 1) * (m 2 2 - 1) := by
      linarith [mul_self_nonneg (m 0 1), mul_self_nonneg (m 0 2), mul_self_nonneg (m 1 0), mul_self_nonneg (m 1 2), mul_self_nonneg (m 2 0), mul_self_nonneg (m 2 1)]
    have hsq := hS.mul_self _ (le_trans (by norm_num) hbig)
    have h0 := hS.nonneg ((m 0 0 - 1) * (m 0 0 - 1) + m 0 1 * m 0 1 + m 0 2 * m 0 2 + m 1 0 * m 1 0 + (m 1 1 - 1) * (m 1 1 - 1) + m 1 2 * m 1 2 + m 2 0 * m 2 0 + m 2 1 * m 2 1 + (m 2 2 - 1) * (m 2 2 - 1))
    generalize P.sqrt ((m 0 0 - 1) * (m 0 0 - 1) + m 0 1 * m 0 1 + m 0 2 * m 0 2 + m 1 0 * m 1 0 + (m 1 1 - 1) * (m 1 1 - 1) + m 1 2 * m 1 2 + m 2 0 * m 2 0 + m 2 1 * m 2 1 + (m 2 2 - 1) * (m 2 2 - 1)) = x at *
    have hx1 : x < 1 := lt_trans hlt (by norm_num)
    have hxx : x * x ≤ x := by nlinarith [mul_nonneg h0 (sub_nonneg.mpr (le_of_lt hx1))]
    linarith
  -- square roots used for the three possible pivots
  have hp0 : (-1 : R) / 3 ≤ m 0 0 → 0 < (m 0 0 + m 0 0) / 2 - (-1) := by intro h; linarith
  have hp1 : (-1 : R) / 3 ≤ m 1 1 → 0 < (m 1 1 + m 1 1) / 2 - (-1) := by intro h; linarith
  have hp2 : (-1 : R) / 3 ≤ m 2 2 → 0 < (m 2 2 + m 2 2) / 2 - (-1) := by intro h; linarith
  have hrk : ∀ x : R, (-1 : R) / 3 ≤ x → P.sqrt (((x + x) / 2 - (-1)) * (1 - (-1))) * P.sqrt (((x + x) / 2 - (-1)) * (1 - (-1))) = 2 * ((x + x) / 2 - (-1)) ∧ P.sqrt (((x + x) / 2 - (-1)) * (1 - (-1))) ≠ 0 := by
    intro x hx
    have hpos : 0 < ((x + x) / 2 - (-1)) * (1 - (-1)) := by nlinarith
    have e := hS.mul_self _ (le_of_lt hpos)
    refine ⟨by rw [e]; ring, ?_⟩
    intro hz; rw [hz] at e; linarith
  have hr0 := hrk (m 0 0); have hr1 := hrk (m 1 1); have hr2 := hrk (m 2 2)
  rw [if_neg hfar] at h
  split_ifs at h with h2 h3 h4 h5 h6 h7 h8 h9
  all_goals (try (exfalso; linarith))
  all_goals (cases h)
  · have hp := hp2 (by linarith)
    obtain ⟨hrr, hrne⟩ := hr2 (by linarith)
    refine half_core P m _ _ _ ((m 0 2 + m 2 0) / 2) ((m 1 2 + m 2 1) / 2) ((m 2 2 + m 2 2) / 2 - (-1)) ((m 2 2 + m 2 2) / 2 - (-1)) _ (ne_of_gt hp) (q_of_neg _ _ _ _ hrr hrne) (q_of_neg _ _ _ _ hrr hrne) (q_of_neg _ _ _ _ hrr hrne) (q_of_neg _ _ _ _ hrr hrne) (q_of_neg _ _ _ _ hrr hrne) (q_of_neg _ _ _ _ hrr hrne) ?_ ?_ ?_ ?_ ?_ ?_ s01 s02 s12 htr hcos hsin
    · linear_combination (1) * c11 + (-m 0 2/4 + m 2 0/4) * s02 + (-1) * htr
    · linear_combination (-1/2) * c01 + (-1/2) * c10 + (m 2 2/2 + 1/2) * s01 + (-m 1 2/4 + m 2 1/4) * s02
    · linear_combination (m 2 2/2 + 1/2) * s02
    · linear_combination (1) * c00 + (-m 1 2/4 + m 2 1/4) * s12 + (-1) * htr
    · linear_combination (m 2 2/2 + 1/2) * s12
    · ring1
  · have hp := hp2 (by linarith)
    obtain ⟨hrr, hrne⟩ := hr2 (by linarith)
    refine half_core P m _ _ _ ((m 0 2 + m 2 0) / 2) ((m 1 2 + m 2 1) / 2) ((m 2 2 + m 2 2) / 2 - (-1)) ((m 2 2 + m 2 2) / 2 - (-1)) _ (ne_of_gt hp) (q_of _ _ _ _ hrr hrne) (q_of _ _ _ _ hrr hrne) (q_of _ _ _ _ hrr hrne) (q_of _ _ _ _ hrr hrne) (q_of _ _ _ _ hrr hrne) (q_of _ _ _ _ hrr hrne) ?_ ?_ ?_ ?_ ?_ ?_ s01 s02 s12 htr hcos hsin
    · linear_combination (1) * c11 + (-m 0 2/4 + m 2 0/4) * s02 + (-1) * htr
    · linear_combination (-1/2) * c01 + (-1/2) * c10 + (m 2 2/2 + 1/2) * s01 + (-m 1 2/4 + m 2 1/4) * s02
    · linear_combination (m 2 2/2 + 1/2) * s02
    · linear_combination (1) * c00 + (-m 1 2/4 + m 2 1/4) * s12 + (-1) * htr
    · linear_combination (m 2 2/2 + 1/2) * s12
    · ring1
  · have hp := hp1 (by linarith)
    obtain ⟨hrr, hrne⟩ := hr1 (by linarith)
    refine half_core P m _ _ _ ((m 0 1 + m 1 0) / 2) ((m 1 1 + m 1 1) / 2 - (-1)) ((m 2 1 + m 1 2) / 2) ((m 1 1 + m 1 1) / 2 - (-1)) _ (ne_of_gt hp) (q_of_neg _ _ _ _ hrr hrne) (q_of_neg _ _ _ _ hrr hrne) (q_of_neg _ _ _ _ hrr hrne) (q_of_neg _ _ _ _ hrr hrne) (q_of_neg _ _ _ _ hrr hrne) (q_of_neg _ _ _ _ hrr hrne) ?_ ?_ ?_ ?_ ?_ ?_ s01 s02 s12 htr hcos hsin
    · linear_combination (1) * c22 + (-m 0 1/4 + m 1 0/4) * s01 + (-1) * htr
    · linear_combination (m 1 1/2 + 1/2) * s01
    · linear_combination (-1/2) * c02 + (-1/2) * c20 + (m 1 2/4 - m 2 1/4) * s01 + (m 1 1/2 + 1/2) * s02
    · ring1
    · linear_combination (m 1 1/2 + 1/2) * s12
    · linear_combination (1) * c00 + (-m 1 2/4 + m 2 1/4) * s12 + (-1) * htr
  · have hp := hp1 (by linarith)
    obtain ⟨hrr, hrne⟩ := hr1 (by linarith)
    refine half_core P m _ _ _ ((m 0 1 + m 1 0) / 2) ((m 1 1 + m 1 1) / 2 - (-1)) ((m 2 1 + m 1 2) / 2) ((m 1 1 + m 1 1) / 2 - (-1)) _ (ne_of_gt hp) (q_of _ _ _ _ hrr hrne) (q_of _ _ _ _ hrr hrne) (q_of _ _ _ _ hrr hrne) (q_of _ _ _ _ hrr hrne) (q_of _ _ _ _ hrr hrne) (q_of _ _ _ _ hrr hrne) ?_ ?_ ?_ ?_ ?_ ?_ s01 s02 s12 htr hcos hsin
    · linear_combination (1) * c22 + (-m 0 1/4 + m 1 0/4) * s01 + (-1) * htr
    · linear_combination (m 1 1/2 + 1/2) * s01
    · linear_combination (-1/2) * c02 + (-1/2) * c20 + (m 1 2/4 - m 2 1/4) * s01 + (m 1 1/2 + 1/2) * s02
    · ring1
    · linear_combination (m 1 1/2 + 1/2) * s12
    · linear_combination (1) * c00 + (-m 1 2/4 + m 2 1/4) * s12 + (-1) * htr
  · have hp := hp2 (by linarith)
    obtain ⟨hrr, hrne⟩ := hr2 (by linarith)
    refine half_core P m _ _ _ ((m 0 2 + m 2 0) / 2) ((m 1 2 + m 2 1) / 2) ((m 2 2 + m 2 2) / 2 - (-1)) ((m 2 2 + m 2 2) / 2 - (-1)) _ (ne_of_gt hp) (q_of_neg _ _ _ _ hrr hrne) (q_of_neg _ _ _ _ hrr hrne) (q_of_neg _ _ _ _ hrr hrne) (q_of_neg _ _ _ _ hrr hrne) (q_of_neg _ _ _ _ hrr hrne) (q_of_neg _ _ _ _ hrr hrne) ?_ ?_ ?_ ?_ ?_ ?_ s01 s02 s12 htr hcos hsin
    · linear_combination (1) * c11 + (-m 0 2/4 + m 2 0/4) * s02 + (-1) * htr
    · linear_combination (-1/2) * c01 + (-1/2) * c10 + (m 2 2/2 + 1/2) * s01 + (-m 1 2/4 + m 2 1/4) * s02
    · linear_combination (m 2 2/2 + 1/2) * s02
    · linear_combination (1) * c00 + (-m 1 2/4 + m 2 1/4) * s12 + (-1) * htr
    · linear_combination (m 2 2/2 + 1/2) * s12
    · ring1
  · have hp := hp2 (by linarith)
    obtain ⟨hrr, hrne⟩ := hr2 (by linarith)
    refine half_core P m _ _ _ ((m 0 2 + m 2 0) / 2) ((m 1 2 + m 2 1) / 2) ((m 2 2 + m 2 2) / 2 - (-1)) ((m 2 2 + m 2 2) / 2 - (-1)) _ (ne_of_gt hp) (q_of _ _ _ _ hrr hrne) (q_of _ _ _ _ hrr hrne) (q_of _ _ _ _ hrr hrne) (q_of _ _ _ _ hrr hrne) (q_of _ _ _ _ hrr hrne) (q_of _ _ _ _ hrr hrne) ?_ ?_ ?_ ?_ ?_ ?_ s01 s02 s12 htr hcos hsin
    · linear_combination (1) * c11 + (-m 0 2/4 + m 2 0/4) * s02 + (-1) * htr
    · linear_combination (-1/2) * c01 + (-1/2) * c10 + (m 2 2/2 + 1/2) * s01 + (-m 1 2/4 + m 2 1/4) * s02
    · linear_combination (m 2 2/2 + 1/2) * s02
    · linear_combination (1) * c00 + (-m 1 2/4 + m 2 1/4) * s12 + (-1) * htr
    · linear_combination (m 2 2/2 + 1/2) * s12
    · ring1
  · have hp := hp0 (by linarith)
    obtain ⟨hrr, hrne⟩ := hr0 (by linarith)
    refine half_core P m _ _ _ ((m 0 0 + m 0 0) / 2 - (-1)) ((m 1 0 + m 0 1) / 2) ((m 2 0 + m 0 2) / 2) ((m 0 0 + m 0 0) / 2 - (-1)) _ (ne_of_gt hp) (q_of_neg _ _ _ _ hrr hrne) (q_of_neg _ _ _ _ hrr hrne) (q_of_neg _ _ _ _ hrr hrne) (q_of_neg _ _ _ _ hrr hrne) (q_of_neg _ _ _ _ hrr hrne) (q_of_neg _ _ _ _ hrr hrne) ?_ ?_ ?_ ?_ ?_ ?_ s01 s02 s12 htr hcos hsin
    · ring1
    · linear_combination (m 0 0/2 + 1/2) * s01
    · linear_combination (m 0 0/2 + 1/2) * s02
    · linear_combination (1) * c22 + (-m 0 1/4 + m 1 0/4) * s01 + (-1) * htr
    · linear_combination (-1) * c21 + (-3*m 0 2/4 + m 2 0/4) * s01 + (m 0 1/2) * s02 + (1) * s12
    · linear_combination (1) * c11 + (-m 0 2/4 + m 2 0/4) * s02 + (-1) * htr
  · have hp := hp0 (by linarith)
    obtain ⟨hrr, hrne⟩ := hr0 (by linarith)
    refine half_core P m _ _ _ ((m 0 0 + m 0 0) / 2 - (-1)) ((m 1 0 + m 0 1) / 2) ((m 2 0 + m 0 2) / 2) ((m 0 0 + m 0 0) / 2 - (-1)) _ (ne_of_gt hp) (q_of _ _ _ _ hrr hrne) (q_of _ _ _ _ hrr hrne) (q_of _ _ _ _ hrr hrne) (q_of _ _ _ _ hrr hrne) (q_of _ _ _ _ hrr hrne) (q_of _ _ _ _ hrr hrne) ?_ ?_ ?_ ?_ ?_ ?_ s01 s02 s12 htr hcos hsin
    · ring1
    · linear_combination (m 0 0/2 + 1/2) * s01
    · linear_combination (m 0 0/2 + 1/2) * s02
    · linear_combination (1) * c22 + (-m 0 1/4 + m 1 0/4) * s01 + (-1) * htr
    · linear_combination (-1) * c21 + (-3*m 0 2/4 + m 2 0/4) * s01 + (m 0 1/2) * s02 + (1) * s12
    · linear_combination (1) * c11 + (-m 0 2/4 + m 2 0/4) * s02 + (-1) * htr

/-- non-vacuity: diag(1, -1, -1) is a symmetric rotation with trace -1 -/
example : IsSO3 (R := ℚ) (fun i j => if i = j then (if i = 0 then 1 else -1) else 0) ∧ ((1 : ℚ) + -1 + -1 = -1) := by
  refine ⟨⟨?_, ?_⟩, by norm_num⟩
  · apply Mat.ext33' <;> simp [mmul, mT, one3, Fin.sum_univ_three]
  · simp [det3]

end SmVerif.Props.C03
