/-
  C10 — list behaviour matches a Python list of the element values.
  Refinement: the model of SMUserList (Logic.UL, transcribed from smuserlist.py) behaves, on every operation and hence
  on every operation sequence, exactly like the Python-list specification (Logic.PyList) on the list of element values;
  foreign-class or multi-valued arguments raise and leave the object unchanged.  The specification is tied to CPython's
  list, and the model to the real classes, by the exhaustive small-scope correspondence in smv/props/c10.py.
-/
import SmVerif.Logic.PyList

namespace SmVerif.Props.C10
open SmVerif.Logic
variable {α : Type}

/-- one step: same new contents, same output -/
theorem step_refines (s : UL α) (op : Op α) :
    ((s.step op).1.data, (s.step op).2) = PyList.step s.data op := by
  cases op with
  | get i => simp only [UL.step, PyList.step]; split <;> rfl
  | slice a b c => simp only [UL.step, PyList.step]; split <;> rfl
  | iter => rfl
  | append x => cases x <;> rfl
  | extend x => cases x <;> rfl
  | insert i x => cases x <;> rfl
  | pop i =>
    simp only [UL.step, PyList.step]
    split
    · split <;> rfl
    · rfl
  | del i => simp only [UL.step, PyList.step]; split <;> rfl
  | set i x =>
    cases x with
    | single x => simp only [UL.step, PyList.step]; split <;> rfl
    | multi xs => rfl
    | foreign => rfl
  | reverse => rfl
  | clear => rfl

/-- every operation sequence (any length): the object's contents and every output equal those of a Python list
subjected to the same operations -/
theorem run_refines (s : UL α) (ops : List (Op α)) :
    ((UL.run s ops).1.data, (UL.run s ops).2) = PyList.run s.data ops := by
  induction ops generalizing s with
  | nil => rfl
  | cons op ops ih =>
    have h := step_refines s op
    have ih' := ih (s.step op).1
    simp only [UL.run, PyList.run]
    rw [← h]
    simp only []
    rw [← ih']

/-- an object of a different class, or a multi-valued object where a single value is required, raises and leaves the
object unchanged -/
theorem guards (s : UL α) (i : Int) (xs : List α) :
    s.step (.append .foreign) = (s, .raised .ValueError) ∧ s.step (.append (.multi xs)) = (s, .raised .ValueError) ∧
    s.step (.extend .foreign) = (s, .raised .ValueError) ∧
    s.step (.insert i .foreign) = (s, .raised .ValueError) ∧ s.step (.insert i (.multi xs)) = (s, .raised .ValueError) ∧
    s.step (.set i .foreign) = (s, .raised .ValueError) ∧ s.step (.set i (.multi xs)) = (s, .raised .ValueError) :=
  ⟨rfl, rfl, rfl, rfl, rfl, rfl, rfl⟩

/-! ### sanity of the specification itself (properties every Python list has) -/

theorem normIndex_nonneg (n : Nat) (i : Nat) (h : i < n) : normIndex n (i : Int) = some i := by
  simp only [normIndex]
  have h1 : ¬ ((i : Int) < 0) := by omega
  have h2 : (i : Int) < (n : Int) := by omega
  simp [h1, h2]
theorem normIndex_neg_one (n : Nat) (h : 0 < n) : normIndex n (-1) = some (n - 1) := by
  simp only [normIndex]
  have : (-1 : Int) < 0 := by omega
  simp only [this, if_true]
  have h2 : ¬ ((-1 : Int) + (n : Int) < 0) := by omega
  simp only [h2, if_false]
  congr 1; omega
theorem normIndex_out (n : Nat) (i : Int) (h : (n : Int) ≤ i) : normIndex n i = none := by
  simp only [normIndex]
  have h1 : ¬ (i < 0) := by omega
  have h2 : ¬ (i < (n : Int)) := by omega
  simp [h1, h2]

/-- append then pop() returns the appended element and restores the list -/
theorem pop_append (l : List α) (x : α) :
    PyList.run l [.append (.single x), .pop none] = (l, [.unit, .elem x]) := by
  simp only [PyList.run, PyList.step, Option.getD]
  have hn : normIndex (l.length + 1) (-1) = some l.length := by
    rw [normIndex_neg_one _ (by omega)]; simp
  have he : ∀ t : List α, (t ++ [x]).eraseIdx t.length = t := by
    intro t
    induction t with
    | nil => rfl
    | cons a t ih => simp [ih]
  simp [hn, he l]

theorem reverse_reverse (l : List α) : (PyList.run l [.reverse, .reverse]).1 = l := by
  simp [PyList.run, PyList.step]

theorem clear_len (l : List α) : (PyList.step l .clear).1.length = 0 := rfl

theorem append_len (l : List α) (x : α) : (PyList.step l (.append (.single x))).1.length = l.length + 1 := by
  simp [PyList.step]

/-- out-of-range indices raise IndexError for get / pop / del / set, and leave the list unchanged -/
theorem out_of_range (l : List α) (i : Int) (x : α) (h : (l.length : Int) ≤ i) :
    PyList.step l (.get i) = (l, .raised .IndexError) ∧ PyList.step l (.pop (some i)) = (l, .raised .IndexError) ∧
    PyList.step l (.del i) = (l, .raised .IndexError) ∧ PyList.step l (.set i (.single x)) = (l, .raised .IndexError) := by
  have hn := normIndex_out l.length i h
  simp [PyList.step, hn]

end SmVerif.Props.C10
