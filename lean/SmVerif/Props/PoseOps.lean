/-
  Pose-class operations not covered in C01/C02 proper: inverse and quotient of the planar classes, products of sequences,
  element-wise array results of `+`, `-`, `* scalar`, determinant, the R / t accessors and the embeddings SO2→SE2→SE3.
  Statements have the form "whenever the call returns a value M, M is <specification>" — the generated models carry the
  constructors' validity checks as branches, every returning branch is covered.
-/
import SmVerif.Tactics
import SmVerif.Spec.Group
import SmVerif.Gen.Poses

namespace SmVerif.Props.PoseOps
open SmVerif SmVerif.Spec

variable {R : Type} [Field R] [LinearOrder R] [IsStrictOrderedRing R] (P : Prims R)

/-- unfold the generated definition, split its branches, compare the returned value with the specification entry by entry -/
macro "agree" g:ident "with" defs:ident,* : tactic =>
  `(tactic| (intro M h; unfold $g at h; (try simp only [] at h); (try split_ifs at h); all_goals (try cases h);
             all_goals (first | rfl | (ext_lit <;> simp [$[$defs:ident],*] <;> (try ring1)))))

theorem SO2_inv (A : Mat 2 2 R) : ∀ M, Gen.SO2_inv P A = .ok M → M = mT A := by agree Gen.SO2_inv with mT
theorem SE2_inv (A : Mat 3 3 R) : ∀ M, Gen.SE2_inv P A = .ok M → M = seInv2 A := by
  agree Gen.SE2_inv with seInv2, rt2, mT, rotOf2, trOf2, mvec, Fin.sum_univ_two
theorem SO2_div (A B : Mat 2 2 R) : ∀ M, Gen.SO2_div P A B = .ok M → M = mmul A (mT B) := by
  agree Gen.SO2_div with mmul, mT, Fin.sum_univ_two
theorem SE2_div (A B : Mat 3 3 R) : ∀ M, Gen.SE2_div P A B = .ok M → M = mmul A (seInv2 B) := by
  agree Gen.SE2_div with mmul, seInv2, rt2, mT, rotOf2, trOf2, mvec, Fin.sum_univ_two, Fin.sum_univ_three

theorem SO2_prod2 (A B : Mat 2 2 R) : ∀ M, Gen.SO2_prod2 P A B = .ok M → M = mmul A B := by
  agree Gen.SO2_prod2 with mmul, Fin.sum_univ_two
theorem SE2_prod2 (A B : Mat 3 3 R) : ∀ M, Gen.SE2_prod2 P A B = .ok M → M = mmul A B := by
  agree Gen.SE2_prod2 with mmul, Fin.sum_univ_three
theorem SO3_prod2 (A B : Mat 3 3 R) : ∀ M, Gen.SO3_prod2 P A B = .ok M → M = mmul A B := by
  agree Gen.SO3_prod2 with mmul, Fin.sum_univ_three
theorem SE3_prod2 (A B : Mat 4 4 R) : ∀ M, Gen.SE3_prod2 P A B = .ok M → M = mmul A B := by
  agree Gen.SE3_prod2 with mmul, Fin.sum_univ_four
theorem SO2_prod3 (A B C : Mat 2 2 R) : ∀ M, Gen.SO2_prod3 P A B C = .ok M → M = mmul (mmul A B) C := by
  agree Gen.SO2_prod3 with mmul, Fin.sum_univ_two
theorem SE2_prod3 (A B C : Mat 3 3 R) : ∀ M, Gen.SE2_prod3 P A B C = .ok M → M = mmul (mmul A B) C := by
  agree Gen.SE2_prod3 with mmul, Fin.sum_univ_three
theorem SO3_prod3 (A B C : Mat 3 3 R) : ∀ M, Gen.SO3_prod3 P A B C = .ok M → M = mmul (mmul A B) C := by
  agree Gen.SO3_prod3 with mmul, Fin.sum_univ_three
theorem SE3_prod3 (A B C : Mat 4 4 R) : ∀ M, Gen.SE3_prod3 P A B C = .ok M → M = mmul (mmul A B) C := by
  agree Gen.SE3_prod3 with mmul, Fin.sum_univ_four

/-! element-wise array results -/
theorem SO2_add (A B : Mat 2 2 R) : ∀ M, Gen.SO2_add P A B = .ok M → M = fun i j => A i j + B i j := by agree Gen.SO2_add with mmul
theorem SE2_add (A B : Mat 3 3 R) : ∀ M, Gen.SE2_add P A B = .ok M → M = fun i j => A i j + B i j := by agree Gen.SE2_add with mmul
theorem SO3_add (A B : Mat 3 3 R) : ∀ M, Gen.SO3_add P A B = .ok M → M = fun i j => A i j + B i j := by agree Gen.SO3_add with mmul
theorem SE3_add (A B : Mat 4 4 R) : ∀ M, Gen.SE3_add P A B = .ok M → M = fun i j => A i j + B i j := by agree Gen.SE3_add with mmul
theorem SO2_sub (A B : Mat 2 2 R) : ∀ M, Gen.SO2_sub P A B = .ok M → M = fun i j => A i j - B i j := by agree Gen.SO2_sub with mmul
theorem SE2_sub (A B : Mat 3 3 R) : ∀ M, Gen.SE2_sub P A B = .ok M → M = fun i j => A i j - B i j := by agree Gen.SE2_sub with mmul
theorem SO3_sub (A B : Mat 3 3 R) : ∀ M, Gen.SO3_sub P A B = .ok M → M = fun i j => A i j - B i j := by agree Gen.SO3_sub with mmul
theorem SE3_sub (A B : Mat 4 4 R) : ∀ M, Gen.SE3_sub P A B = .ok M → M = fun i j => A i j - B i j := by agree Gen.SE3_sub with mmul
theorem SO2_mul_scalar (A : Mat 2 2 R) (k : R) : ∀ M, Gen.SO2_mul_scalar P A k = .ok M → M = fun i j => A i j * k := by agree Gen.SO2_mul_scalar with mmul
theorem SE2_mul_scalar (A : Mat 3 3 R) (k : R) : ∀ M, Gen.SE2_mul_scalar P A k = .ok M → M = fun i j => A i j * k := by agree Gen.SE2_mul_scalar with mmul
theorem SO3_mul_scalar (A : Mat 3 3 R) (k : R) : ∀ M, Gen.SO3_mul_scalar P A k = .ok M → M = fun i j => A i j * k := by agree Gen.SO3_mul_scalar with mmul
theorem SE3_mul_scalar (A : Mat 4 4 R) (k : R) : ∀ M, Gen.SE3_mul_scalar P A k = .ok M → M = fun i j => A i j * k := by agree Gen.SE3_mul_scalar with mmul

/-! determinant and accessors -/
theorem SO2_det (A : Mat 2 2 R) : Gen.SO2_det P A = .ok (det2 A) := by unfold Gen.SO2_det det2; rfl
theorem SE2_det (A : Mat 3 3 R) : Gen.SE2_det P A = .ok (det2 (rotOf2 A)) := by unfold Gen.SE2_det det2 rotOf2; rfl
theorem SO3_det (A : Mat 3 3 R) : ∀ d, Gen.SO3_det P A = .ok d → d = det3 A := by
  intro d h; unfold Gen.SO3_det at h; cases h; unfold det3; ring
theorem SE3_det (A : Mat 4 4 R) : ∀ d, Gen.SE3_det P A = .ok d → d = det3 (rotOf3 A) := by
  intro d h; unfold Gen.SE3_det at h; cases h; simp [det3, rotOf3]
theorem SO2_R (A : Mat 2 2 R) : ∀ M, Gen.SO2_R P A = .ok M → M = A := by agree Gen.SO2_R with mT
theorem SE2_R (A : Mat 3 3 R) : ∀ M, Gen.SE2_R P A = .ok M → M = rotOf2 A := by agree Gen.SE2_R with rotOf2
theorem SE3_R (A : Mat 4 4 R) : ∀ M, Gen.SE3_R P A = .ok M → M = rotOf3 A := by agree Gen.SE3_R with rotOf3
theorem SE2_t (A : Mat 3 3 R) : ∀ M, Gen.SE2_t P A = .ok M → M = trOf2 A := by agree Gen.SE2_t with trOf2

/-! embeddings and planar extraction -/
theorem SO2_SE2 (A : Mat 2 2 R) : ∀ M, Gen.SO2_SE2 P A = .ok M → M = rt2 A (v2 0 0) := by agree Gen.SO2_SE2 with rt2
theorem SE2_SE3 (A : Mat 3 3 R) : ∀ M, Gen.SE2_SE3 P A = .ok M →
    M = v4 (v4 (A 0 0) (A 0 1) 0 (A 0 2)) (v4 (A 1 0) (A 1 1) 0 (A 1 2)) (v4 0 0 1 0) (v4 0 0 0 1) := by
  agree Gen.SE2_SE3 with rt2
theorem SE2_xyt (A : Mat 3 3 R) : Gen.SE2_xyt P A = .ok (v3 (A 0 2) (A 1 2) (P.atan2 (A 1 0) (A 0 0))) := by
  unfold Gen.SE2_xyt; rfl
theorem SO2_theta (A : Mat 2 2 R) : Gen.SO2_theta P A = .ok (P.atan2 (A 1 0) (A 0 0)) := by unfold Gen.SO2_theta; rfl

end SmVerif.Props.PoseOps
