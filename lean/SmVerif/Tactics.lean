import SmVerif.Lin
import Mathlib.Tactic.LinearCombination
import Mathlib.Tactic.FieldSimp

namespace SmVerif

/-- split an equality of fixed-size vectors / matrices into entry goals with literal indices -/
macro "ext_lit" : tactic =>
  `(tactic| first
    | apply Mat.ext22' | apply Mat.ext33' | apply Mat.ext44'
    | (apply Mat.ext66 <;> apply Vec.ext6)
    | apply Vec.ext2 | apply Vec.ext3 | apply Vec.ext4 | apply Vec.ext6
    | skip)

/-- `Gen.f … = .ok (spec …)` for a straight-line generated definition: unfold (done by caller),
inline lets, compare entry by entry up to ring normalisation. -/
macro "bridge_ok" : tactic =>
  `(tactic| ((try simp only []); first | rfl | (congr 1 <;> ext_lit <;> (try simp) <;> (try ring))))

end SmVerif
