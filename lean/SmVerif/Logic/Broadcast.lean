/-
  Logic.Broadcast — model of the element-wise helpers of smuserlist.py / super_pose.py:
  `binop` (SMUserList), `_op2` (SMPose) and `unop`, over lists of arbitrary elements and an arbitrary element operation.
-/
namespace SmVerif.Logic

inductive BErr | ValueError
  deriving DecidableEq, Repr

/-- `binop(left, right, op)` for two objects holding `l` and `r` values (both non-empty in the library):
1 op 1, 1 op M, M op 1, M op M; different lengths both > 1 raise ValueError -/
def binop {α β γ : Type} (op : α → β → γ) (l : List α) (r : List β) : Except BErr (List γ) :=
  match l, r with
  | [a], [b] => .ok [op a b]
  | [a], bs => .ok (bs.map (op a))
  | as, [b] => .ok (as.map (fun a => op a b))
  | as, bs => if as.length = bs.length then .ok (List.zipWith op as bs) else .error .ValueError

/-- `binop(left, scalar, op)` -/
def binopScalar {α β γ : Type} (op : α → β → γ) (l : List α) (k : β) : List γ := l.map (fun a => op a k)

/-- `unop(op)` -/
def unop {α γ : Type} (op : α → γ) (l : List α) : List γ := l.map op

end SmVerif.Logic
