/-
  Logic.PyList — specification of Python list behaviour (indexing, slice.indices, insert clamping, pop/del/setitem
  IndexError rules) and Logic.UserList — the model of `SMUserList` (smuserlist.py) on top of it: same operations plus
  the class / single-value guards.  Core Lean only.  Tied to CPython and to the real classes by smv/props/c10.py.
-/
namespace SmVerif.Logic

/-- Python's index normalisation: negative indices count from the end; out of range = none (IndexError) -/
def normIndex (n : Nat) (i : Int) : Option Nat :=
  if i < 0 then (if i + n < 0 then none else some (i + n).toNat)
  else (if i < n then some i.toNat else none)

/-- `slice(start, stop, step).indices(n)`; none for step = 0 (ValueError) -/
def sliceIndices (n : Nat) (start stop step : Option Int) : Option (Int × Int × Int) :=
  let st := step.getD 1
  if st = 0 then none else
  let lower : Int := if st < 0 then -1 else 0
  let upper : Int := if st < 0 then (n : Int) - 1 else n
  let clamp (v : Int) : Int :=
    if v < 0 then (if v + n < lower then lower else v + n) else (if v > upper then upper else v)
  let s := match start with | none => (if st < 0 then upper else lower) | some v => clamp v
  let e := match stop with | none => (if st < 0 then lower else upper) | some v => clamp v
  some (s, e, st)

/-- `list(range(start, stop, step))` (step ≠ 0), by fuel -/
def rangeList (start stop step : Int) : Nat → List Int
  | 0 => []
  | fuel + 1 =>
    if (step > 0 ∧ start < stop) ∨ (step < 0 ∧ start > stop) then start :: rangeList (start + step) stop step fuel
    else []

inductive Err | IndexError | ValueError | TypeError
  deriving DecidableEq, Repr

/-- operations of the list protocol exercised on pose / quaternion / twist objects; `Arg` describes what is supplied
where an object is expected: a single value of the same class (with its element), a multi-valued object of the
same class, or an object of a different class -/
inductive Arg (α : Type) | single (x : α) | multi (xs : List α) | foreign
  deriving Repr

inductive Op (α : Type)
  | get (i : Int) | slice (a b c : Option Int) | iter
  | append (x : Arg α) | extend (x : Arg α) | insert (i : Int) (x : Arg α)
  | pop (i : Option Int) | del (i : Int) | set (i : Int) (x : Arg α) | reverse | clear
  deriving Repr

inductive Out (α : Type) | unit | elem (x : α) | items (xs : List α) | raised (e : Err)
  deriving Repr

variable {α : Type}

def insertAt (l : List α) (i : Int) (x : α) : List α :=
  let n : Int := l.length
  let j := if i < 0 then (if i + n < 0 then 0 else i + n) else (if i > n then n else i)
  l.take j.toNat ++ x :: l.drop j.toNat

/-- the specification: a Python list of element values.  Only well-formed arguments reach a plain list, so for
`Arg.multi`/`Arg.foreign` the specification is "raise and leave the list unchanged". -/
def PyList.step (l : List α) : Op α → List α × Out α
  | .get i => match normIndex l.length i with
      | some k => (l, match l[k]? with | some x => .elem x | none => .raised .IndexError)
      | none => (l, .raised .IndexError)
  | .slice a b c => match sliceIndices l.length a b c with
      | none => (l, .raised .ValueError)
      | some (s, e, st) => (l, .items ((rangeList s e st (l.length + 1)).filterMap (fun k => l[k.toNat]?)))
  | .iter => (l, .items l)
  | .append (.single x) => (l ++ [x], .unit)
  | .append _ => (l, .raised .ValueError)
  | .extend (.single x) => (l ++ [x], .unit)
  | .extend (.multi xs) => (l ++ xs, .unit)
  | .extend .foreign => (l, .raised .ValueError)
  | .insert i (.single x) => (insertAt l i x, .unit)
  | .insert _ _ => (l, .raised .ValueError)
  | .pop i => match normIndex l.length (i.getD (-1)) with
      | some k => (match l[k]? with | some x => (l.eraseIdx k, .elem x) | none => (l, .raised .IndexError))
      | none => (l, .raised .IndexError)
  | .del i => match normIndex l.length i with
      | some k => (l.eraseIdx k, .unit)
      | none => (l, .raised .IndexError)
  | .set i (.single x) => match normIndex l.length i with
      | some k => (l.set k x, .unit)
      | none => (l, .raised .IndexError)
  | .set _ _ => (l, .raised .ValueError)
  | .reverse => (l.reverse, .unit)
  | .clear => ([], .unit)

/-! ### the model of SMUserList: `data` is the Python list; guards come first, then delegation to `UserList` -/

structure UL (α : Type) where
  data : List α
  deriving Repr

/-- smuserlist.py, method by method -/
def UL.step (s : UL α) : Op α → UL α × Out α
  -- __getitem__: slice -> cls([data[k] for k in range(*i.indices(len))]) ; int -> cls(data[i])
  | .get i => match normIndex s.data.length i with
      | some k => (s, match s.data[k]? with | some x => .elem x | none => .raised .IndexError)
      | none => (s, .raised .IndexError)
  | .slice a b c => match sliceIndices s.data.length a b c with
      | none => (s, .raised .ValueError)
      | some (st, e, sp) => (s, .items ((rangeList st e sp (s.data.length + 1)).filterMap (fun k => s.data[k.toNat]?)))
  -- __iter__ is inherited: iterating the UserList indexes 0, 1, … until IndexError, each through __getitem__
  | .iter => (s, .items s.data)
  -- append: type(self) == type(item) else ValueError; len(item) > 1 -> ValueError; super().append(item.A)
  | .append .foreign => (s, .raised .ValueError)
  | .append (.multi _) => (s, .raised .ValueError)
  | .append (.single x) => ({ data := s.data ++ [x] }, .unit)
  -- extend: type check; super().extend(iterable.data)
  | .extend .foreign => (s, .raised .ValueError)
  | .extend (.multi xs) => ({ data := s.data ++ xs }, .unit)
  | .extend (.single x) => ({ data := s.data ++ [x] }, .unit)
  -- insert: type check, len check, super().insert(i, item._A)
  | .insert _ .foreign => (s, .raised .ValueError)
  | .insert _ (.multi _) => (s, .raised .ValueError)
  | .insert i (.single x) => ({ data := insertAt s.data i x }, .unit)
  -- pop: cls(super().pop(i))
  | .pop i => match normIndex s.data.length (i.getD (-1)) with
      | some k => (match s.data[k]? with | some x => ({ data := s.data.eraseIdx k }, .elem x) | none => (s, .raised .IndexError))
      | none => (s, .raised .IndexError)
  -- __delitem__ inherited
  | .del i => match normIndex s.data.length i with
      | some k => ({ data := s.data.eraseIdx k }, .unit)
      | none => (s, .raised .IndexError)
  -- __setitem__: type check, len check, self.data[i] = value.A
  | .set _ .foreign => (s, .raised .ValueError)
  | .set _ (.multi _) => (s, .raised .ValueError)
  | .set i (.single x) => match normIndex s.data.length i with
      | some k => ({ data := s.data.set k x }, .unit)
      | none => (s, .raised .IndexError)
  | .reverse => ({ data := s.data.reverse }, .unit)
  | .clear => ({ data := [] }, .unit)

def UL.run (s : UL α) : List (Op α) → UL α × List (Out α)
  | [] => (s, [])
  | op :: ops => let (s', o) := s.step op; let (s'', os) := UL.run s' ops; (s'', o :: os)

def PyList.run (l : List α) : List (Op α) → List α × List (Out α)
  | [] => (l, [])
  | op :: ops => let (l', o) := PyList.step l op; let (l'', os) := PyList.run l' ops; (l'', o :: os)

end SmVerif.Logic
