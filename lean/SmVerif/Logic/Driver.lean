/- dispatcher for the hand-written logic models (filled in as the models are added) -/
namespace SmVerif.Logic

def handle (_toks : List String) : String := "bad-op"

end SmVerif.Logic
