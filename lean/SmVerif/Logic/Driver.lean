/-
  Dispatcher of the line protocol for the hand-written logic models (tie T2).  One request per line, one answer per line;
  anything malformed answers `bad-op` (never a default).

    logic ul <data> <op>*         run the SMUserList model; data = `-` or comma separated naturals
    logic pylist <data> <op>*     run the Python-list specification
        ops: get:i  slice:a:b:c (`_` = None)  iter  append:ARG  extend:ARG  insert:i:ARG  pop:i|pop:_  del:i  set:i:ARG
             reverse  clear          ARG = s<k> (single value k) | m<k,k,..> (multi-valued) | f (foreign class)
        answer: <out>;<out>;...|<final data>
    logic disp <Cls> <BOp> <Cls>  operator dispatch model;  `logic doc <Cls> <BOp> <Cls>` documented table
    logic bcast <n> <m>           binop on lists of n and m elements: which (i,j) pairs are combined
    logic getvector <Form> <dim|_>   logic isvector <Form> <dim|_>
    logic arghandler <check:0|1> <CARG>   CARG = nothing | array:<0|1> | arrays:<0|1,..> | objects:<n> | same:<n> | unknown
-/
import SmVerif.Logic.PyList
import SmVerif.Logic.Broadcast
import SmVerif.Logic.Dispatch
import SmVerif.Logic.ArgCheck

namespace SmVerif.Logic

def parseNats (s : String) : Option (List Nat) :=
  if s = "-" ∨ s = "" then some [] else (s.splitOn ",").mapM String.toNat?

def parseOptInt (s : String) : Option (Option Int) :=
  if s = "_" then some none else s.toInt?.map some

def parseArg (s : String) : Option (Arg Nat) :=
  if s = "f" then some .foreign
  else if s.startsWith "s" then (s.drop 1).toString.toNat?.map .single
  else if s.startsWith "m" then (parseNats (s.drop 1).toString).map .multi
  else none

def parseOp (s : String) : Option (Op Nat) :=
  match s.splitOn ":" with
  | ["get", i] => i.toInt?.map .get
  | ["slice", a, b, c] => do
      let a ← parseOptInt a; let b ← parseOptInt b; let c ← parseOptInt c
      pure (.slice a b c)
  | ["iter"] => some .iter
  | ["append", x] => (parseArg x).map .append
  | ["extend", x] => (parseArg x).map .extend
  | ["insert", i, x] => do let i ← i.toInt?; let x ← parseArg x; pure (.insert i x)
  | ["pop", i] => (parseOptInt i).map .pop
  | ["del", i] => i.toInt?.map .del
  | ["set", i, x] => do let i ← i.toInt?; let x ← parseArg x; pure (.set i x)
  | ["reverse"] => some .reverse
  | ["clear"] => some .clear
  | _ => none

def showNats (l : List Nat) : String := if l.isEmpty then "-" else ",".intercalate (l.map toString)

def showErr : Err → String
  | .IndexError => "IndexError" | .ValueError => "ValueError" | .TypeError => "TypeError"

def showOut : Out Nat → String
  | .unit => "ok"
  | .elem x => s!"e{x}"
  | .items xs => s!"l{showNats xs}"
  | .raised e => showErr e

def showCls : Cls → String
  | .SO2 => "SO2" | .SE2 => "SE2" | .SO3 => "SO3" | .SE3 => "SE3" | .Q => "Q" | .UQ => "UQ" | .Tw2 => "Tw2" | .Tw3 => "Tw3"
  | .Pl => "Pl" | .SVel => "SVel" | .SAcc => "SAcc" | .SFor => "SFor" | .SMom => "SMom" | .SIne => "SIne" | .DQ => "DQ" | .UDQ => "UDQ"

def parseCls (s : String) : Option Cls := Cls.all.find? (fun c => showCls c = s)

def showBOp : BOp → String
  | .mul => "mul" | .div => "div" | .add => "add" | .sub => "sub" | .pow => "pow" | .matmul => "matmul"
def parseBOp (s : String) : Option BOp := BOp.all.find? (fun c => showBOp c = s)

def showRes : Res → String
  | .cls c => showCls c | .arr => "arr" | .scalar => "scalar" | .none => "none" | .raises => "raises"

def showSpec : Spec → String
  | .result r => showRes r | .mustRaise => "raises" | .unspecified => "unspecified"

def parseForm (s : String) : Option Form :=
  match s.splitOn ":" with
  | ["scalar"] => some .scalar
  | ["list", n] => n.toNat?.map .list
  | ["tuple", n] => n.toNat?.map .tuple
  | ["arr1", n] => n.toNat?.map .arr1
  | ["row", n] => n.toNat?.map .row
  | ["col", n] => n.toNat?.map .col
  | ["arr2", r, c] => do let r ← r.toNat?; let c ← c.toNat?; pure (.arr2 r c)
  | ["other"] => some .other
  | _ => none

def parseDim (s : String) : Option (Option Nat) := if s = "_" then some none else s.toNat?.map some

def showARes : ARes → String
  | .ok n => s!"ok{n}" | .valueError => "ValueError" | .typeError => "TypeError"

def parseCArg (s : String) : Option (CArg Nat) :=
  match s.splitOn ":" with
  | ["nothing"] => some .nothing
  | ["array", x] => x.toNat?.map .array
  | ["arrays", xs] => (parseNats xs).map .arrays
  | ["objects", xs] => (parseNats xs).map .objects
  | ["same", xs] => (parseNats xs).map .same
  | ["unknown"] => some .unknown
  | _ => none

def handle (toks : List String) : String :=
  match toks with
  | "ul" :: d :: ops =>
    (match parseNats d, ops.mapM parseOp with
     | some d, some ops =>
        let (s, outs) := UL.run ({ data := d } : UL Nat) ops
        ";".intercalate (outs.map showOut) ++ "|" ++ showNats s.data
     | _, _ => "bad-op")
  | "pylist" :: d :: ops =>
    (match parseNats d, ops.mapM parseOp with
     | some d, some ops =>
        let (s, outs) := PyList.run d ops
        ";".intercalate (outs.map showOut) ++ "|" ++ showNats s
     | _, _ => "bad-op")
  | ["disp", l, o, r] =>
    (match parseCls l, parseBOp o, parseCls r with
     | some l, some o, some r => showRes (binopCls l r o)
     | _, _, _ => "bad-op")
  | ["doc", l, o, r] =>
    (match parseCls l, parseBOp o, parseCls r with
     | some l, some o, some r => showSpec (documented l r o)
     | _, _, _ => "bad-op")
  | ["bcast", n, m] =>
    (match n.toNat?, m.toNat? with
     | some n, some m =>
        (match binop (fun (i j : Nat) => s!"{i}-{j}") (List.range n) (List.range m) with
         | .ok ps => if ps.isEmpty then "-" else ",".intercalate ps
         | .error _ => "ValueError")
     | _, _ => "bad-op")
  | ["getvector", f, d] =>
    (match parseForm f, parseDim d with
     | some f, some d => showARes (getvector f d)
     | _, _ => "bad-op")
  | ["isvector", f, d] =>
    (match parseForm f, parseDim d with
     | some f, some d => toString (isvector f d)
     | _, _ => "bad-op")
  | ["arghandler", c, a] =>
    (match c.toNat?, parseCArg a with
     | some c, some a =>
        -- items are naturals; odd = valid value, even = invalid; identity is 1
        (match arghandler (fun (x : Nat) => x % 2 == 1) 1 (c != 0) a with
         | some xs => showNats xs
         | none => "false")
     | _, _ => "bad-op")
  | _ => "bad-op"

end SmVerif.Logic
