/-
  Logic.Dispatch — model of binary-operator dispatch between the 16 public classes: each class's operator methods
  (super_pose.py, quaternion.py, twist.py, geom3d.py, spatialvector.py, DualQuaternion.py, smuserlist.py) transcribed as
  decision functions, combined by Python's protocol (`__op__`, NotImplemented, reflected `__rop__`).
  Tied to the real classes by the exhaustive enumeration in smv/props/c08.py (every ordered pair x every operator).
-/
namespace SmVerif.Logic

inductive Cls
  | SO2 | SE2 | SO3 | SE3 | Q | UQ | Tw2 | Tw3 | Pl | SVel | SAcc | SFor | SMom | SIne | DQ | UDQ
  deriving DecidableEq, Repr

def Cls.all : List Cls := [.SO2, .SE2, .SO3, .SE3, .Q, .UQ, .Tw2, .Tw3, .Pl, .SVel, .SAcc, .SFor, .SMom, .SIne, .DQ, .UDQ]

inductive BOp | mul | div | add | sub | pow | matmul
  deriving DecidableEq, Repr
def BOp.all : List BOp := [.mul, .div, .add, .sub, .pow, .matmul]

/-- what an operator application produces -/
inductive Res
  | cls (c : Cls) | arr | scalar | none | raises
  deriving DecidableEq, Repr

/-- result of one method call: a value, an exception, or NotImplemented (also: method absent) -/
inductive MRes | ret (r : Res) | notImpl
  deriving DecidableEq, Repr

def Cls.isPose : Cls → Bool | .SO2 | .SE2 | .SO3 | .SE3 => true | _ => false
def Cls.isQuat : Cls → Bool | .Q | .UQ => true | _ => false
def Cls.isSpatialVec : Cls → Bool | .SVel | .SAcc | .SFor | .SMom => true | _ => false
def Cls.isDQ : Cls → Bool | .DQ | .UDQ => true | _ => false
/-- `isinstance(x : a, b)` for the concrete classes -/
def Cls.sub (a b : Cls) : Bool :=
  a == b || (a == .SE2 && b == .SO2) || (a == .SE3 && b == .SO3) || (a == .UQ && b == .Q) || (a == .UDQ && b == .DQ)
/-- stored element shapes agree (used by `_op2` when the right operand is an instance of the left class) -/
def Cls.sameShape (a b : Cls) : Bool := a == b

/-- `left.__op__(right)` -/
def forward (l r : Cls) : BOp → MRes
  | .mul =>
    if l.isPose then (if l == r then .ret (.cls l) else .notImpl)               -- SMPose.__mul__
    else if l == .Q then (if r.isQuat then .ret (.cls .Q) else .ret .raises)     -- Quaternion.__mul__
    else if l == .UQ then (if r == .UQ then .ret (.cls .UQ) else if r == .Q then .ret (.cls .Q) else .ret .raises)
    else if l == .Tw3 then (if r == .Tw3 then .ret (.cls .Tw3) else if r == .SE3 then .ret (.cls .SE3) else .ret .raises)
    else if l == .Tw2 then (if r == .Tw2 then .ret (.cls .Tw2) else if r == .SE2 then .ret (.cls .SE2) else .ret .raises)
    else if l == .Pl then (if r == .Pl then .ret .scalar else .ret .raises)       -- Plucker.__mul__
    else if l.isSpatialVec then .notImpl            -- UserList.__mul__: list * object -> NotImplemented
    else if l == .SIne then (if r == .SAcc then .ret (.cls .SFor) else if r == .SVel then .ret (.cls .SMom) else .ret .raises)
    else (if r.isDQ then .ret (.cls l) else .ret .raises)                        -- DualQuaternion.__mul__
  | .div =>
    if l.isPose then (if l == r then .ret (.cls l) else .ret .raises)            -- SMPose.__truediv__
    -- UnitQuaternion.__truediv__: isinstance(left, type(right)) admits a plain Quaternion on the right, but the quotient
    -- is then passed to the UnitQuaternion constructor, which rejects a non-unit value (generic Quaternion operand)
    else if l == .UQ then (if r == .UQ then .ret (.cls .UQ) else .ret .raises)
    else .notImpl                                                                -- Quaternion: NotImplemented; others: absent
  | .add =>
    if l.isPose then (if r.sub l then (if l.sameShape r then .ret .arr else .ret .raises) else .ret .raises)   -- _op2
    else if l.isQuat then (if r.isQuat then .ret (.cls .Q) else .ret .raises)
    else if l == .Tw2 || l == .Tw3 || l == .Pl then (if l == r then .ret (.cls l) else .ret .raises)   -- SMUserList.__add__
    else if l.isSpatialVec then (if l == r then .ret (.cls l) else .ret .raises)
    else if l == .SIne then (if r == .SIne then .ret (.cls .SIne) else .ret .raises)
    else (if r.isDQ then .ret (.cls .DQ) else .ret .raises)
  | .sub =>
    if l.isPose then (if r.sub l then (if l.sameShape r then .ret .arr else .ret .raises) else .ret .raises)
    else if l.isQuat then (if r.isQuat then .ret (.cls .Q) else .ret .raises)
    else if l.isSpatialVec then (if l == r then .ret (.cls l) else .ret .raises)
    else if l.isDQ then (if r.isDQ then .ret (.cls .DQ) else .ret .raises)
    else .notImpl
  | .pow => if l.isPose || l.isQuat then .ret .raises else .notImpl
  | .matmul =>
    if l == .SVel then (if r == .SVel then .ret (.cls .SAcc) else if r == .SFor || r == .SMom then .ret (.cls .SFor) else .ret .raises)
    else .notImpl

/-- `right.__rop__(left)` — only reached when the forward method returned NotImplemented / is absent -/
def reflected (l r : Cls) : BOp → MRes
  | .mul =>
    if r.isPose then .notImpl                         -- SMPose.__rmul__: scalar only
    else if r.isQuat then .ret .raises                -- Quaternion.__rmul__: left * array raises for every class
    else if r == .Tw2 || r == .Tw3 then .ret .raises
    else if r == .Pl then (if l == .SE3 then .ret (.cls .Pl) else .ret .raises)
    else if r.isSpatialVec then (if l == .SE3 || l == .Tw3 then .ret (.cls r) else .ret .raises)
    else if r == .SIne then .ret .raises              -- __rmul__ = __mul__(left)
    else .notImpl
  | .add => if r.isPose then .ret .raises else if r == .Tw2 || r == .Tw3 || r == .Pl then .ret .raises else .notImpl
  | .sub => if r.isPose then .ret .raises else .notImpl
  | _ => .notImpl

/-- Python's binary operator protocol -/
def binopCls (l r : Cls) (op : BOp) : Res :=
  match forward l r op with
  | .ret x => x
  | .notImpl =>
    if l == r then .raises          -- same type: the reflected method is not tried
    else match reflected l r op with
      | .ret x => x
      | .notImpl => .raises         -- TypeError: unsupported operand type(s)

/-! ### the documented table (three-valued) -/

inductive Spec | result (r : Res) | mustRaise | unspecified
  deriving DecidableEq, Repr

def family : Cls → Nat
  | .SO2 | .SE2 => 0 | .SO3 | .SE3 => 1 | .Q | .UQ => 2 | .Tw2 => 3 | .Tw3 => 4 | .Pl => 5
  | .SVel | .SAcc | .SFor | .SMom | .SIne => 6 | .DQ | .UDQ => 7

def documented (l r : Cls) (op : BOp) : Spec :=
  if l.isPose && r.isPose then
    (if l == r then (match op with | .mul | .div => .result (.cls l) | .add | .sub => .result .arr | .pow | .matmul => .mustRaise)
     else .mustRaise)
  else if l.isQuat && r.isQuat then
    (match op with
     | .mul => .result (.cls (if l == .UQ && r == .UQ then .UQ else .Q))
     | .add | .sub => .result (.cls .Q)
     | .div => if l == .UQ && r == .UQ then .result (.cls .UQ) else .unspecified
     | .pow | .matmul => .mustRaise)
  else if l == r && (l == .Tw2 || l == .Tw3) then (if op == .mul then .result (.cls l) else .unspecified)
  else if (l == .Tw3 && r == .SE3 && op == .mul) || (l == .Tw2 && r == .SE2 && op == .mul) then .result (.cls r)
  else if l == .Pl && r == .Pl then (if op == .mul then .result .scalar else .unspecified)
  else if l == .SE3 && r == .Pl && op == .mul then .result (.cls .Pl)
  else if l == .SE3 && r.isSpatialVec && op == .mul then .result (.cls r)
  else if l == .Tw3 && r.isSpatialVec && op == .mul then .unspecified
  else if l.isSpatialVec && r.isSpatialVec then
    (if l == r && (op == .add || op == .sub) then .result (.cls l)
     else if op == .matmul then
       (if l == .SVel && r == .SVel then .result (.cls .SAcc) else if l == .SVel && r == .SFor then .result (.cls .SFor)
        else if l == .SVel then .unspecified else .mustRaise)      -- only a velocity has a cross product
     else .mustRaise)
  else if l == .SIne then
    (if r == .SIne then (if op == .add then .result (.cls .SIne) else .unspecified)
     else if op == .mul && r == .SAcc then .result (.cls .SFor)
     else if op == .mul && r == .SVel then .result (.cls .SMom)
     else .mustRaise)
  else if r == .SIne && l.isSpatialVec then (if op == .mul then .unspecified else .mustRaise)
  else if l.isDQ && r.isDQ then
    (match op with
     | .mul => if l == r then .result (.cls l) else .unspecified
     | .add | .sub => .result (.cls .DQ)
     | _ => .unspecified)
  else if family l != family r then .mustRaise
  else .unspecified

/-- the model meets the documentation in one cell -/
def cellOk (l r : Cls) (op : BOp) : Bool :=
  match documented l r op with
  | .result x => binopCls l r op == x
  | .mustRaise => binopCls l r op == .raises
  | .unspecified => true

end SmVerif.Logic
