/-
  Logic.AliasIR — the alias/effect intermediate representation for C17 ("operations never modify their inputs"), the
  flow-insensitive checker, and its soundness proof.  Programs are produced from the Python AST of every library function by
  smv/alias/astir.py (Gen/AliasPrograms.lean); the certificate (abstract points-to sets) is computed there and *checked* here.
-/
import Mathlib.Order.Basic
import Mathlib.Logic.Function.Basic
import Mathlib.Data.Nat.Find

namespace SmVerif.Logic.Alias

abbrev Var := Nat
abbrev Buf := Nat
inductive Org | fresh | param (i : Nat) deriving DecidableEq, Repr

structure Rhs where
  canFresh : Bool
  aliasOf : List Var
  params : List Nat

inductive Stmt
  | assign (x : Var) (r : Rhs)
  | write (x : Var)

abbrev Prog := List Stmt
abbrev Abs := Var → List Org

def okStmt (allow : List Nat) (A : Abs) : Stmt → Bool
  | .assign x r =>
      (!r.canFresh || (A x).contains .fresh)
      && r.aliasOf.all (fun y => (A y).all (fun o => (A x).contains o))
      && r.params.all (fun i => (A x).contains (.param i))
  | .write x => (A x).all (fun o => match o with | .fresh => true | .param i => allow.contains i)

def check (allow : List Nat) (A : Abs) (p : Prog) : Bool := p.all (okStmt allow A)

structure St where
  env : Var → Option Buf
  org : Buf → Option Org
  written : List Buf

def upd {α : Type} (f : Nat → α) (k : Nat) (v : α) : Nat → α := fun j => if j = k then v else f j

inductive Step (pb : Nat → Buf) : St → Stmt → St → Prop
  | fresh {s x r b} : r.canFresh = true → s.org b = none →
      Step pb s (.assign x r) { s with env := upd s.env x (some b), org := upd s.org b (some .fresh) }
  | viaAlias {s x r y b} : y ∈ r.aliasOf → s.env y = some b →
      Step pb s (.assign x r) { s with env := upd s.env x (some b) }
  | viaParam {s x r i} : i ∈ r.params →
      Step pb s (.assign x r) { s with env := upd s.env x (some (pb i)) }
  | write {s x b} : s.env x = some b → Step pb s (.write x) { s with written := b :: s.written }
  | writeNone {s x} : s.env x = none → Step pb s (.write x) s

inductive Exec (pb : Nat → Buf) (p : Prog) : St → St → Prop
  | refl (s) : Exec pb p s s
  | step {s t u st} : Exec pb p s t → st ∈ p → Step pb t st u → Exec pb p s u

def SInv (pb : Nat → Buf) (allow : List Nat) (A : Abs) (s : St) : Prop :=
  (∀ x b, s.env x = some b → ∃ o, s.org b = some o ∧ o ∈ A x) ∧
  (∀ i, s.org (pb i) = some (.param i)) ∧
  (∀ b, b ∈ s.written → s.org b = some .fresh ∨ ∃ i, i ∈ allow ∧ s.org b = some (.param i))

theorem step_inv (pb allow A p) (hc : check allow A p = true) {s st t} (hst : st ∈ p)
    (h : Step pb s st t) (hi : SInv pb allow A s) : SInv pb allow A t := by
  have hok : okStmt allow A st = true := (List.all_eq_true.mp hc) st hst
  obtain ⟨h1, h2, h3⟩ := hi
  cases h with
  | @fresh x r b hf hb =>
    simp only [okStmt, Bool.and_eq_true, Bool.or_eq_true, Bool.not_eq_true', hf] at hok
    have hfx : Org.fresh ∈ A x := by
      have := hok.1.1; simp at this; exact this
    refine ⟨?_, ?_, ?_⟩
    · intro y c hy
      by_cases hyx : y = x
      · subst hyx; simp [upd] at hy; subst hy; exact ⟨.fresh, by simp [upd], hfx⟩
      · simp [upd, hyx] at hy
        obtain ⟨o, ho, hoA⟩ := h1 y c hy
        have : c ≠ b := by intro e; subst e; rw [hb] at ho; cases ho
        exact ⟨o, by simp [upd, this, ho], hoA⟩
    · intro i
      have : pb i ≠ b := by
        intro e; have hh := h2 i; rw [e, hb] at hh; cases hh
      simp [upd, this, h2 i]
    · intro c hcw
      have hcf := h3 c hcw
      have : c ≠ b := by
        intro e; subst e; rw [hb] at hcf
        rcases hcf with h | ⟨i, _, h⟩ <;> cases h
      simpa [upd, this] using hcf
  | @viaAlias x r y b hy hb =>
    simp only [okStmt, Bool.and_eq_true] at hok
    have hsub := (List.all_eq_true.mp hok.1.2) y hy
    refine ⟨?_, h2, h3⟩
    intro z c hz
    by_cases hzx : z = x
    · subst hzx; simp [upd] at hz; subst hz
      obtain ⟨o, ho, hoA⟩ := h1 y b hb
      refine ⟨o, ho, ?_⟩
      have := (List.all_eq_true.mp hsub) o hoA
      simpa using this
    · simp [upd, hzx] at hz; exact h1 z c hz
  | @viaParam x r i hi' =>
    simp only [okStmt, Bool.and_eq_true] at hok
    have hp := (List.all_eq_true.mp hok.2) i hi'
    refine ⟨?_, h2, h3⟩
    intro z c hz
    by_cases hzx : z = x
    · subst hzx; simp [upd] at hz; subst hz
      exact ⟨.param i, h2 i, by simpa using hp⟩
    · simp [upd, hzx] at hz; exact h1 z c hz
  | @write x b hb =>
    simp only [okStmt] at hok
    refine ⟨h1, h2, ?_⟩
    intro c hcw
    simp at hcw
    rcases hcw with rfl | hcw
    · obtain ⟨o, ho, hoA⟩ := h1 x c hb
      have := (List.all_eq_true.mp hok) o hoA
      cases o with
      | fresh => exact Or.inl ho
      | param i => exact Or.inr ⟨i, by simpa using this, ho⟩
    · exact h3 c hcw
  | writeNone _ => exact ⟨h1, h2, h3⟩

theorem exec_inv (pb allow A p) (hc : check allow A p = true) {s t} (h : Exec pb p s t) (hi : SInv pb allow A s) :
    SInv pb allow A t := by
  induction h with
  | refl => exact hi
  | step _ hst hstep ih => exact step_inv pb allow A p hc hst hstep ih

/-- Soundness: if the checker accepts, every buffer an execution writes is either freshly allocated by the function
or belongs to a parameter on the `allow` list (the receiver of a documented list-mutation method). -/
theorem checker_sound (pb allow A p) (hc : check allow A p = true) {s t} (h : Exec pb p s t) (hi : SInv pb allow A s) :
    ∀ b, b ∈ t.written → ∀ i, i ∉ allow → b ≠ pb i := by
  intro b hb i hna e
  obtain ⟨_, h2, h3⟩ := exec_inv pb allow A p hc h hi
  rcases h3 b hb with h | ⟨j, hj, h⟩
  · rw [e, h2 i] at h; cases h
  · rw [e, h2 i] at h; cases h; exact hna hj

open Classical in
/-- the state at function entry: no variable bound yet, parameter `i` lives in buffer `pb i` (distinct buffers), nothing written -/
noncomputable def St.init (pb : Nat → Buf) : St :=
  { env := fun _ => none, org := fun b => if h : ∃ i, pb i = b then some (.param (Nat.find h)) else none, written := [] }

theorem init_inv (pb : Nat → Buf) (hinj : Function.Injective pb) (allow A) : SInv pb allow A (St.init pb) := by
  refine ⟨?_, ?_, ?_⟩
  · intro x b h; simp [St.init] at h
  · intro i
    have hex : ∃ j, pb j = pb i := ⟨i, rfl⟩
    simp only [St.init, dif_pos hex]
    congr 2
    exact hinj (Nat.find_spec hex)
  · intro b h; simp [St.init] at h

/-- end-to-end: for an accepted program, from function entry, no run writes a non-allowed parameter's buffer -/
theorem accepted_never_writes_params (pb : Nat → Buf) (hinj : Function.Injective pb) (allow A p)
    (hc : check allow A p = true) {t} (h : Exec pb p (St.init pb) t) :
    ∀ b, b ∈ t.written → ∀ i, i ∉ allow → b ≠ pb i :=
  checker_sound pb allow A p hc h (init_inv pb hinj allow A)

/-- certificate as an association list -/
def certOf (c : List (Var × List Org)) : Abs := fun x => (c.lookup x).getD []

def checkRow (row : String × List Nat × Prog × List (Var × List Org)) : Bool :=
  check row.2.1 (certOf row.2.2.2) row.2.2.1

end SmVerif.Logic.Alias
