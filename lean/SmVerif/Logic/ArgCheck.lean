/-
  Logic.ArgCheck — model of `getvector` / `isvector` (base/argcheck.py) over the *shape* of the argument, and of the
  constructor argument handler `arghandler` (smuserlist.py) over the validity of the supplied items.
-/
namespace SmVerif.Logic

/-- container forms of a vector argument -/
inductive Form
  | scalar | list (n : Nat) | tuple (n : Nat) | arr1 (n : Nat) | row (n : Nat) | col (n : Nat) | arr2 (r c : Nat) | other
  deriving DecidableEq, Repr

inductive ARes | ok (len : Nat) | valueError | typeError
  deriving DecidableEq, Repr

/-- `getvector(v, dim)` (length of the returned vector) -/
def getvector (v : Form) (dim : Option Nat) : ARes :=
  match v with
  | .scalar => (match dim with | some d => if 1 = d then .ok 1 else .valueError | none => .ok 1)
  | .list n | .tuple n => (match dim with | some d => if n = d then .ok n else .valueError | none => .ok n)
  | .arr1 n => (match dim with | some d => if n = d then .ok n else .valueError | none => .ok n)
  | .row n => (match dim with | some d => if n = d ∨ (1 = d ∧ n = 1) then .ok n else .valueError | none => .ok n)
  | .col n => (match dim with | some d => if n = d ∨ (1 = d ∧ n = 1) then .ok n else .valueError | none => .ok n)
  | .arr2 r c => (match dim with
      | some d => if (r = 1 ∧ c = d) ∨ (r = d ∧ c = 1) then .ok (r * c) else .valueError
      | none => .ok (r * c))
  | .other => .typeError

/-- `isvector(v, dim)` for arguments whose elements are scalars -/
def isvector (v : Form) (dim : Option Nat) : Bool :=
  match v with
  | .scalar => (match dim with | none => true | some d => d == 1)
  | .list n | .tuple n => (match dim with | none => true | some d => n == d)
  | .arr1 n => (match dim with | none => n > 0 | some d => n == d)
  | .row n => (match dim with | none => n > 0 | some d => n == d || (d == 1 && n == 1))
  | .col n => (match dim with | none => n > 0 | some d => n == d || (d == 1 && n == 1))
  | .arr2 r c => (match dim with
      | none => (r == 1 && c > 0) || (r > 0 && c == 1)
      | some d => (r == 1 && c == d) || (r == d && c == 1))
  | .other => false

/-- the five interchangeable forms of an n-vector -/
def Form.vectorForms (n : Nat) : List Form := [.list n, .tuple n, .arr1 n, .row n, .col n]

/-! ### constructor argument handler -/

/-- what is passed to a pose constructor: nothing, one array, a list/tuple of arrays (each valid or not), a list of
objects of the same class (each holding valid values), an object of the same class, or something else -/
inductive CArg (ι : Type)
  | nothing | array (x : ι) | arrays (xs : List ι) | objects (xs : List ι) | same (xs : List ι) | unknown

/-- `arghandler(arg, check)`; `none` = returned False (the class constructor then tries its own forms or raises) -/
def arghandler {ι : Type} (valid : ι → Bool) (identity : ι) (check : Bool) : CArg ι → Option (List ι)
  | .nothing => some [identity]
  | .array x => if !check || valid x then some [x] else none
  | .arrays xs => if xs.all (fun x => !check || valid x) then some xs else none
  | .objects xs => some xs
  | .same xs => some xs
  | .unknown => none

end SmVerif.Logic
