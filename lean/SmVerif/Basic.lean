/-
  SmVerif.Basic — vocabulary shared by generated code (`Gen`), specifications and the driver.
  No Mathlib here beyond what is needed to state `Field`/`LinearOrder` and `![..]` notation.
-/
import Mathlib.Algebra.Order.Field.Basic
import Mathlib.Data.Fin.VecNotation
import Mathlib.Algebra.Order.AbsoluteValue.Basic

namespace SmVerif

/-- Opaque real primitives used by the library (`math.sqrt`, `math.sin`, …).  Generated
definitions are parametric in them; theorems assume exactly the facts they use
(e.g. `sin²+cos²=1`), and `Real`'s instance is shown to satisfy those facts. -/
structure Prims (R : Type) where
  pi : R
  sqrt : R → R
  sin : R → R
  cos : R → R
  tan : R → R
  acos : R → R
  asin : R → R
  atan : R → R
  atan2 : R → R → R
  floor : R → R

/-- Python exception kinds that the model distinguishes. -/
inductive Err where
  | ValueError | TypeError | IndexError | AssertionError | AttributeError | NameError
  | ZeroDivisionError | Other
  deriving DecidableEq, Repr

/-- Result of running a library function: a value, an exception, or Python `None`
(the function fell off its end / returned `None`). -/
inductive Outcome (α : Type) where
  | ok (a : α)
  | raised (e : Err)
  | none
  deriving Repr

namespace Outcome
def isOk {α} : Outcome α → Bool
  | ok _ => true
  | _ => false
def isRaised {α} : Outcome α → Bool
  | raised _ => true
  | _ => false
def map {α β} (f : α → β) : Outcome α → Outcome β
  | ok a => ok (f a)
  | raised e => raised e
  | none => none
end Outcome

abbrev Vec (n : Nat) (R : Type) := Fin n → R
abbrev Mat (n m : Nat) (R : Type) := Fin n → Fin m → R

end SmVerif
