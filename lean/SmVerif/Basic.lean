/-
  SmVerif.Basic — vocabulary shared by generated code (`Gen`), specifications and the driver.
  No Mathlib here beyond what is needed to state `Field`/`LinearOrder` and `![..]` notation.
-/
import Mathlib.Algebra.Order.Field.Basic
import Mathlib.Data.Fin.VecNotation
import Mathlib.Algebra.Order.AbsoluteValue.Basic

namespace SmVerif

/-- Opaque real primitives used by the library (`math.sqrt`, `math.sin`, …).  Generated
definitions are parametric in them; theorems assume exactly the facts they use
(e.g. `sin²+cos²=1`), and `Real`'s instance is shown to satisfy those facts. -/
structure Prims (R : Type) where
  pi : R
  sqrt : R → R
  sin : R → R
  cos : R → R
  tan : R → R
  acos : R → R
  asin : R → R
  atan : R → R
  atan2 : R → R → R
  floor : R → R

/-- Python exception kinds that the model distinguishes. -/
inductive Err where
  | ValueError | TypeError | IndexError | AssertionError | AttributeError | NameError
  | ZeroDivisionError | Other
  deriving DecidableEq, Repr

/-- Result of running a library function: a value, an exception, or Python `None`
(the function fell off its end / returned `None`). -/
inductive Outcome (α : Type) where
  | ok (a : α)
  | raised (e : Err)
  | none
  deriving Repr

namespace Outcome
def isOk {α} : Outcome α → Bool
  | ok _ => true
  | _ => false
def isRaised {α} : Outcome α → Bool
  | raised _ => true
  | _ => false
def map {α β} (f : α → β) : Outcome α → Outcome β
  | ok a => ok (f a)
  | raised e => raised e
  | none => none
end Outcome

abbrev Vec (n : Nat) (R : Type) := Fin n → R
abbrev Mat (n m : Nat) (R : Type) := Fin n → Fin m → R

/-- explicit 1-vector (rows of matrices are vectors too) -/
def v1 {α : Type} (a : α) : Fin 1 → α := fun i => match i with | 0 => a
@[simp] theorem v1_0 {α : Type} (a : α) : v1 a 0 = a := rfl

/-- explicit 2-vector (rows of matrices are vectors too) -/
def v2 {α : Type} (a b : α) : Fin 2 → α := fun i => match i with | 0 => a | 1 => b
@[simp] theorem v2_0 {α : Type} (a b : α) : v2 a b 0 = a := rfl
@[simp] theorem v2_1 {α : Type} (a b : α) : v2 a b 1 = b := rfl

/-- explicit 3-vector (rows of matrices are vectors too) -/
def v3 {α : Type} (a b c : α) : Fin 3 → α := fun i => match i with | 0 => a | 1 => b | 2 => c
@[simp] theorem v3_0 {α : Type} (a b c : α) : v3 a b c 0 = a := rfl
@[simp] theorem v3_1 {α : Type} (a b c : α) : v3 a b c 1 = b := rfl
@[simp] theorem v3_2 {α : Type} (a b c : α) : v3 a b c 2 = c := rfl

/-- explicit 4-vector (rows of matrices are vectors too) -/
def v4 {α : Type} (a b c d : α) : Fin 4 → α := fun i => match i with | 0 => a | 1 => b | 2 => c | 3 => d
@[simp] theorem v4_0 {α : Type} (a b c d : α) : v4 a b c d 0 = a := rfl
@[simp] theorem v4_1 {α : Type} (a b c d : α) : v4 a b c d 1 = b := rfl
@[simp] theorem v4_2 {α : Type} (a b c d : α) : v4 a b c d 2 = c := rfl
@[simp] theorem v4_3 {α : Type} (a b c d : α) : v4 a b c d 3 = d := rfl

/-- explicit 6-vector (rows of matrices are vectors too) -/
def v6 {α : Type} (a b c d e f : α) : Fin 6 → α := fun i => match i with | 0 => a | 1 => b | 2 => c | 3 => d | 4 => e | 5 => f
@[simp] theorem v6_0 {α : Type} (a b c d e f : α) : v6 a b c d e f 0 = a := rfl
@[simp] theorem v6_1 {α : Type} (a b c d e f : α) : v6 a b c d e f 1 = b := rfl
@[simp] theorem v6_2 {α : Type} (a b c d e f : α) : v6 a b c d e f 2 = c := rfl
@[simp] theorem v6_3 {α : Type} (a b c d e f : α) : v6 a b c d e f 3 = d := rfl
@[simp] theorem v6_4 {α : Type} (a b c d e f : α) : v6 a b c d e f 4 = e := rfl
@[simp] theorem v6_5 {α : Type} (a b c d e f : α) : v6 a b c d e f 5 = f := rfl

end SmVerif
