#!/bin/sh
# tools/evalmut.sh <mutant dir (patch.diff, demo.py, meta.json)> <PID> [tier]
# applies the seeded change to /repo, runs the property's check, restores /repo.  Never commits in /repo.
set -u
D="$1"; PID="$2"; TIER="${3:-quick}"
cd /verif
git -C /repo diff --quiet || { echo "repo dirty"; exit 3; }
git -C /repo apply "$D/patch.diff" || { echo "patch does not apply"; exit 3; }
( cd /repo && /venv/bin/python "$D/demo.py" >/dev/null 2>&1 ); DEMO=$?
START=$(date +%s)
./check "$PID" --tier "$TIER" > "$D/check_$PID.out" 2>&1; RC=$?
END=$(date +%s)
git -C /repo checkout -- .
echo "$(basename $(dirname $D))/$(basename $D) $PID demo_exit=$DEMO check_exit=$RC secs=$((END-START)) $(grep -c VIOLATION $D/check_$PID.out) violation-lines; $(grep -m1 VIOLATION $D/check_$PID.out)"
