#!/bin/sh
# the repository's stable baseline without the two always-failing tests that hang until their 900 s timeout
cd /repo && MPLBACKEND=Agg /venv/bin/python -m pytest -q -p no:cacheprovider --timeout=900 \
  --deselect tests/base/test_transforms3d.py::Test3D::test_plot --deselect tests/test_pose2d.py::TestSE2::test_graphics "$@" 2>&1 | tail -${TAILN:-6}
