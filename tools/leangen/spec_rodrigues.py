import sys; sys.path.insert(0,'/verif')
import sympy as sp
from smv.certify import find, lean_expr
w0,w1,w2,c,s=sp.symbols('w0 w1 w2 c s')
K=sp.Matrix([[0,-w2,w1],[w2,0,-w0],[-w1,w0,0]])
R=sp.eye(3)+s*K+(1-c)*K*K
hw=w0**2+w1**2+w2**2-1; hcs=c*c+s*s-1
E=R*R.T-sp.eye(3)
gens=[w0,w1,w2,c,s]
def L(e): return lean_expr(e).replace('w0','w 0').replace('w1','w 1').replace('w2','w 2')
def fix(cert): return cert.replace('w0','w 0').replace('w1','w 1').replace('w2','w 2')
lines=[]
for i in range(3):
    for j in range(3):
        lines.append(f"    · linear_combination {fix(find(E[i,j],{'hw':hw,'hcs':hcs},gens))}")
det=fix(find(sp.expand(R.det()-1),{'hw':hw,'hcs':hcs},gens))
txt=f'''/-
  Spec.Rodrigues — Rodrigues' formula R = I + s·K + (1−c)·K², K = skew(w), and the proof that it is
  special orthogonal whenever |w| = 1 and c² + s² = 1 (certificates found by sympy, checked here).
-/
import SmVerif.Spec.Group

namespace SmVerif.Spec
open SmVerif
variable {{R : Type}} [CommRing R]

def rodM (w : Vec 3 R) (c s : R) : Mat 3 3 R :=
  fun i j => one3 i j + s * skew3 w i j + (1 - c) * mmul (skew3 w) (skew3 w) i j

theorem rodM_SO3 (w : Vec 3 R) (c s : R) (hw : w 0 ^ 2 + w 1 ^ 2 + w 2 ^ 2 = 1)
    (hcs : c * c + s * s = 1) : IsSO3 (rodM w c s) := by
  constructor
  · apply Mat.ext33' <;> simp [rodM, mmul, mT, skew3, one3, Fin.sum_univ_three]
{chr(10).join(lines)}
  · simp only [det3, rodM]
    simp [mmul, skew3, one3, Fin.sum_univ_three]
    linear_combination {det}

/-- rotation by angle 0 is the identity; the axis is kept fixed -/
theorem rodM_axis (w : Vec 3 R) (c s : R) : mvec (rodM w c s) w = w := by
  apply Vec.ext3 <;> simp [rodM, mvec, mmul, skew3, one3, Fin.sum_univ_three] <;> ring

theorem rodM_zero (w : Vec 3 R) : rodM w 1 0 = one3 := by
  apply Mat.ext33' <;> simp [rodM, mmul, skew3, one3, Fin.sum_univ_three]

end SmVerif.Spec
'''
open('/verif/lean/SmVerif/Spec/Rodrigues.lean','w').write(txt)
