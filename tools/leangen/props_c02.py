hdr='''/-
  C02 — Group laws: associativity, identity, inverse, division and integer powers.
  Statements are about the traced class operators (`Gen.SO3_mul`, `Gen.SE3_inv`, …) and the traced
  base functions; exact in every ordered field.  Float tolerance explored by smv/props/c02.py.
-/
import SmVerif.Bridge.Poses
import SmVerif.Bridge.Quat
import SmVerif.Gen.Quats
import SmVerif.Gen.Transforms3d

namespace SmVerif.Props.C02
open SmVerif SmVerif.Spec SmVerif.Bridge
set_option linter.unusedSectionVars false
variable {R : Type} [Field R] [LinearOrder R] [IsStrictOrderedRing R] (P : Prims R)

'''
out=[hdr]
cfg={'SO2':('IsSO2','mpow2','2 2','one2'),'SE2':('IsSE2','mpow3','3 3','one3'),'SO3':('IsSO3','mpow3','3 3','one3'),'SE3':('IsSE3','mpow4','4 4','one4')}
for c,(S,mp,sh,one) in cfg.items():
    n=sh[0]
    out.append(f'''/-- {c}: composition is associative (for all matrices, members or not) -/
theorem {c}_mul_assoc (A B C AB BC : Mat {sh} R) (h1 : Gen.{c}_mul P A B = .ok AB) (h2 : Gen.{c}_mul P B C = .ok BC) :
    Gen.{c}_mul P AB C = Gen.{c}_mul P A BC := by
  rw [Bridge.{c}_mul] at h1 h2; cases h1; cases h2
  rw [Bridge.{c}_mul, Bridge.{c}_mul, mmul_assoc]

/-- {c}: the default-constructed object is a two-sided identity -/
theorem {c}_identity_mul (A E : Mat {sh} R) (h : Gen.{c}_identity P = .ok E) :
    Gen.{c}_mul P E A = .ok A ∧ Gen.{c}_mul P A E = .ok A := by
  rw [Bridge.{c}_identity] at h; cases h
  rw [Bridge.{c}_mul, Bridge.{c}_mul, {one[:3]}{n}_mmul, mmul_{one[:3]}{n}]; exact ⟨rfl, rfl⟩

/-- {c}: X**0 is the identity, X**1 = X, X**(k+1) = X**k * X for the traced exponents; for every n, m:
X**(n+m) = X**n * X**m (induction) -/
theorem {c}_pow_zero (A : Mat {sh} R) : Gen.{c}_pow_0 P A = Gen.{c}_identity P := by
  rw [Bridge.{c}_pow_0, Bridge.{c}_identity]; rfl
theorem {c}_pow_one (A : Mat {sh} R) : Gen.{c}_pow_1 P A = .ok A := by
  rw [Bridge.{c}_pow_1]; simp [{mp}, {one[:3]}{n}_mmul]
theorem {c}_pow_two (A : Mat {sh} R) : Gen.{c}_pow_2 P A = Gen.{c}_mul P A A := by
  rw [Bridge.{c}_pow_2, Bridge.{c}_mul]; simp [{mp}, {one[:3]}{n}_mmul]
theorem {c}_pow_three (A AA : Mat {sh} R) (h : Gen.{c}_mul P A A = .ok AA) : Gen.{c}_pow_3 P A = Gen.{c}_mul P AA A := by
  rw [Bridge.{c}_mul] at h; cases h
  rw [Bridge.{c}_pow_3, Bridge.{c}_mul]; simp [{mp}, {one[:3]}{n}_mmul]
theorem {c}_mpow_add (A : Mat {sh} R) (m k : Nat) : {mp} A (m + k) = mmul ({mp} A m) ({mp} A k) := by
  induction k with
  | zero => simp [{mp}, mmul_{one[:3]}{n}]
  | succ j ih => rw [← Nat.add_assoc, {mp}, ih, mmul_assoc]; rfl
''')
out.append('''/-! ### inverses -/

/-- SO3: inv() is a two-sided inverse on members -/
theorem SO3_inv_mul (A Ai : Mat 3 3 R) (ha : IsSO3 A) (h : Gen.SO3_inv P A = .ok Ai) :
    Gen.SO3_mul P A Ai = .ok one3 ∧ Gen.SO3_mul P Ai A = .ok one3 := by
  rw [Bridge.SO3_inv] at h; cases h
  rw [Bridge.SO3_mul, Bridge.SO3_mul, ha.orth, ha.transpose_mul]; exact ⟨rfl, rfl⟩

/-- SE3: the structured inverse [Rᵀ, −Rᵀt] is a two-sided inverse on members (hence equals the true
matrix inverse, which is unique) -/
theorem SE3_inv_mul (A Ai : Mat 4 4 R) (ha : IsSE3 A) (h : Gen.SE3_inv P A = .ok Ai) :
    Gen.SE3_mul P A Ai = .ok one4 ∧ Gen.SE3_mul P Ai A = .ok one4 := by
  rw [Bridge.SE3_inv] at h; cases h
  rw [Bridge.SE3_mul, Bridge.SE3_mul, mul_seInv3 ha, seInv3_mul ha]; exact ⟨rfl, rfl⟩

/-- uniqueness of two-sided inverses: anything that inverts A equals the structured inverse -/
theorem SE3_inv_unique (A B : Mat 4 4 R) (ha : IsSE3 A) (hB : mmul A B = one4) : B = seInv3 A := by
  have : mmul (seInv3 A) (mmul A B) = mmul (seInv3 A) one4 := by rw [hB]
  rw [← mmul_assoc, seInv3_mul ha, one4_mmul, mmul_one4] at this; exact this

/-- (X*Y).inv() = Y.inv() * X.inv() -/
theorem SE3_inv_mul_rev (A B AB Ai Bi : Mat 4 4 R) (ha : IsSE3 A) (hb : IsSE3 B)
    (h : Gen.SE3_mul P A B = .ok AB) (hai : Gen.SE3_inv P A = .ok Ai) (hbi : Gen.SE3_inv P B = .ok Bi) :
    Gen.SE3_inv P AB = Gen.SE3_mul P Bi Ai := by
  rw [Bridge.SE3_mul] at h; rw [Bridge.SE3_inv] at hai hbi; cases h; cases hai; cases hbi
  rw [Bridge.SE3_inv, Bridge.SE3_mul]; congr 1
  symm; apply SE3_inv_unique _ _ (ha.mul hb)
  rw [mmul_assoc, ← mmul_assoc B, mul_seInv3 hb, one4_mmul, mul_seInv3 ha]

theorem SO3_inv_mul_rev (A B AB Ai Bi : Mat 3 3 R)
    (h : Gen.SO3_mul P A B = .ok AB) (hai : Gen.SO3_inv P A = .ok Ai) (hbi : Gen.SO3_inv P B = .ok Bi) :
    Gen.SO3_inv P AB = Gen.SO3_mul P Bi Ai := by
  rw [Bridge.SO3_mul] at h; rw [Bridge.SO3_inv] at hai hbi; cases h; cases hai; cases hbi
  rw [Bridge.SO3_inv, Bridge.SO3_mul]; congr 1
  rw [mT_eq, mmul_eq, mmul_eq]; exact Matrix.transpose_mul _ _

/-- X / Y = X * Y.inv() -/
theorem SE3_div_eq (A B Bi : Mat 4 4 R) (hbi : Gen.SE3_inv P B = .ok Bi) :
    Gen.SE3_div P A B = Gen.SE3_mul P A Bi := by
  rw [Bridge.SE3_inv] at hbi; cases hbi; rw [Bridge.SE3_div, Bridge.SE3_mul]
theorem SO3_div_eq (A B Bi : Mat 3 3 R) (hbi : Gen.SO3_inv P B = .ok Bi) :
    Gen.SO3_div P A B = Gen.SO3_mul P A Bi := by
  rw [Bridge.SO3_inv] at hbi; cases hbi; rw [Bridge.SO3_div, Bridge.SO3_mul]

/-- base `trinv`: the same structured inverse -/
theorem trinv_eq (A : Mat 4 4 R) : Gen.trinv P A = Gen.SE3_inv P A := by
  rw [Bridge.SE3_inv]; unfold Gen.trinv; (try simp only []); congr 1
  apply Mat.ext44' <;> simp [seInv3, rt3, mT, mvec, rotOf3, trOf3, Fin.sum_univ_three] <;> ring

/-! ### unit quaternions (laws hold exactly; class `==` is sign-blind, see C04) -/

theorem qqmul_assoc (a b c ab bc : Vec 4 R) (h1 : Gen.qqmul P a b = .ok ab) (h2 : Gen.qqmul P b c = .ok bc) :
    Gen.qqmul P ab c = Gen.qqmul P a bc := by
  rw [Bridge.qqmul] at h1 h2; cases h1; cases h2
  rw [Bridge.qqmul, Bridge.qqmul, qmul_assoc]

/-- conjugate is a two-sided inverse on unit quaternions -/
theorem qconj_inverse (a ca : Vec 4 R) (hu : qnormsq a = 1) (h : Gen.qconj P a = .ok ca) :
    Gen.qqmul P a ca = .ok qone ∧ Gen.qqmul P ca a = .ok qone := by
  rw [Bridge.qconj] at h; cases h
  rw [Bridge.qqmul, Bridge.qqmul]
  constructor
  · rw [qmul_conj, hu]; rfl
  · have := qmul_conj (Spec.qconj a); rw [qconj_conj, qnormsq_conj, hu] at this; rw [this]; rfl

end SmVerif.Props.C02
''')
open('/verif/lean/SmVerif/Props/C02.lean','w').write('\n'.join(out))
