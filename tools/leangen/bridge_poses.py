hdr='''/-
  Bridge.Poses — what the traced class operators of SO2 / SE2 / SO3 / SE3 compute, in the
  vocabulary of Spec.Group (matrix product, transpose, structured inverse, p ↦ R p + t).
-/
import SmVerif.Gen.Poses
import SmVerif.Spec.Group
import SmVerif.Tactics

namespace SmVerif.Bridge
open SmVerif SmVerif.Spec
set_option linter.unusedSectionVars false
set_option linter.unusedTactic false
set_option linter.unreachableTactic false
set_option maxHeartbeats 400000
variable {R : Type} [Field R] [LinearOrder R] [IsStrictOrderedRing R] (P : Prims R)

/-- n-fold matrix product (left fold from the identity, as `matrix_power` / `prod` do) -/
def mpow2 (A : Mat 2 2 R) : Nat → Mat 2 2 R | 0 => one2 | n + 1 => mmul (mpow2 A n) A
def mpow3 (A : Mat 3 3 R) : Nat → Mat 3 3 R | 0 => one3 | n + 1 => mmul (mpow3 A n) A
def mpow4 (A : Mat 4 4 R) : Nat → Mat 4 4 R | 0 => one4 | n + 1 => mmul (mpow4 A n) A

'''
out=[hdr]
cfg={'SO2':(2,'2 2','one2','mpow2','Fin.sum_univ_two'),'SE2':(3,'3 3','one3','mpow3','Fin.sum_univ_three'),'SO3':(3,'3 3','one3','mpow3','Fin.sum_univ_three'),'SE3':(4,'4 4','one4','mpow4','Fin.sum_univ_four')}
for c,(n,sh,one,mp,su) in cfg.items():
    tac=f"(try simp only []); congr 1 <;> ext_lit <;> (try simp [mmul, mT, {one}, {mp}, {su}]) <;> (try ring)"
    out.append(f"theorem {c}_mul (A B : Mat {sh} R) : Gen.{c}_mul P A B = .ok (mmul A B) := by\n  unfold Gen.{c}_mul; {tac}\n")
    out.append(f"theorem {c}_identity : Gen.{c}_identity P = .ok ({one} : Mat {sh} R) := by\n  unfold Gen.{c}_identity; {tac}\n")
    for k in (0,1,2,3):
        out.append(f"theorem {c}_pow_{k} (A : Mat {sh} R) : Gen.{c}_pow_{k} P A = .ok ({mp} A {k}) := by\n  unfold Gen.{c}_pow_{k}; {tac}\n")
    out.append(f"theorem {c}_mul_1M (A B C : Mat {sh} R) : Gen.{c}_mul_1M P A B C = .ok (mmul A B, mmul A C) := by\n  unfold Gen.{c}_mul_1M; (try simp only []); congr 1; refine Prod.ext ?_ ?_ <;> ext_lit <;> (try simp [mmul, {su}]) <;> (try ring)\n")
    out.append(f"theorem {c}_mul_M1 (A B C : Mat {sh} R) : Gen.{c}_mul_M1 P A B C = .ok (mmul A C, mmul B C) := by\n  unfold Gen.{c}_mul_M1; (try simp only []); congr 1; refine Prod.ext ?_ ?_ <;> ext_lit <;> (try simp [mmul, {su}]) <;> (try ring)\n")
    out.append(f"theorem {c}_mul_MM (A B C D : Mat {sh} R) : Gen.{c}_mul_MM P A B C D = .ok (mmul A C, mmul B D) := by\n  unfold Gen.{c}_mul_MM; (try simp only []); congr 1; refine Prod.ext ?_ ?_ <;> ext_lit <;> (try simp [mmul, {su}]) <;> (try ring)\n")
# inverses / division
out.append("theorem SO3_inv (A : Mat 3 3 R) : Gen.SO3_inv P A = .ok (mT A) := by\n  unfold Gen.SO3_inv; (try simp only []); congr 1 <;> ext_lit <;> (try simp [mT])\n")
out.append("theorem SO3_div (A B : Mat 3 3 R) : Gen.SO3_div P A B = .ok (mmul A (mT B)) := by\n  unfold Gen.SO3_div; (try simp only []); congr 1 <;> ext_lit <;> (try simp [mmul, mT, Fin.sum_univ_three]) <;> (try ring)\n")
out.append("theorem SE3_inv (A : Mat 4 4 R) : Gen.SE3_inv P A = .ok (seInv3 A) := by\n  unfold Gen.SE3_inv; (try simp only []); congr 1 <;> ext_lit <;> (try simp [seInv3, rt3, mT, mvec, rotOf3, trOf3, Fin.sum_univ_three]) <;> (try ring)\n")
out.append("theorem SE3_div (A B : Mat 4 4 R) : Gen.SE3_div P A B = .ok (mmul A (seInv3 B)) := by\n  unfold Gen.SE3_div; (try simp only []); congr 1 <;> ext_lit <;> (try simp [mmul, seInv3, rt3, mT, mvec, rotOf3, trOf3, Fin.sum_univ_three, Fin.sum_univ_four]) <;> (try ring)\n")
# pose * point
out.append('''/-- p ↦ R p + t read off a homogeneous matrix (assuming its last row is [0 0 0 1]) -/
def act3 (T : Mat 4 4 R) (p : Vec 3 R) : Vec 3 R := fun i => mvec (rotOf3 T) p i + trOf3 T i
def act2 (T : Mat 3 3 R) (p : Vec 2 R) : Vec 2 R := fun i => mvec (rotOf2 T) p i + trOf2 T i

theorem SO3_mul_vec (A : Mat 3 3 R) (p : Vec 3 R) :
    Gen.SO3_mul_vec P A p = .ok (fun i _ => mvec A p i) := by
  unfold Gen.SO3_mul_vec; (try simp only []); congr 1
  funext i j; fin_cases i <;> fin_cases j <;> simp [mvec, Fin.sum_univ_three]
theorem SO2_mul_vec (A : Mat 2 2 R) (p : Vec 2 R) :
    Gen.SO2_mul_vec P A p = .ok (fun i _ => mvec A p i) := by
  unfold Gen.SO2_mul_vec; (try simp only []); congr 1
  funext i j; fin_cases i <;> fin_cases j <;> simp [mvec, Fin.sum_univ_two]

theorem SE3_mul_vec (A : Mat 4 4 R) (p : Vec 3 R)
    (h0 : A 3 0 = 0) (h1 : A 3 1 = 0) (h2 : A 3 2 = 0) (h3 : A 3 3 = 1) :
    Gen.SE3_mul_vec P A p = .ok (fun i _ => act3 A p i) := by
  unfold Gen.SE3_mul_vec; simp only [h0, h1, h2, h3]; congr 1
  funext i j; fin_cases i <;> fin_cases j <;> simp [act3, mvec, rotOf3, trOf3, Fin.sum_univ_three]
theorem SE2_mul_vec (A : Mat 3 3 R) (p : Vec 2 R)
    (h0 : A 2 0 = 0) (h1 : A 2 1 = 0) (h2 : A 2 2 = 1) :
    Gen.SE2_mul_vec P A p = .ok (fun i _ => act2 A p i) := by
  unfold Gen.SE2_mul_vec; simp only [h0, h1, h2]; congr 1
  funext i j; fin_cases i <;> fin_cases j <;> simp [act2, mvec, rotOf2, trOf2, Fin.sum_univ_two]
''')
for k in (1,2,3,4):
    out.append(f'''theorem SE3_mul_pts{k} (A : Mat 4 4 R) (p : Mat 3 {k} R)
    (h0 : A 3 0 = 0) (h1 : A 3 1 = 0) (h2 : A 3 2 = 0) (h3 : A 3 3 = 1) :
    Gen.SE3_mul_pts{k} P A p = .ok (fun i j => act3 A (fun l => p l j) i) := by
  unfold Gen.SE3_mul_pts{k}; simp only [h0, h1, h2, h3]; congr 1
  funext i j; fin_cases i <;> fin_cases j <;> simp [act3, mvec, rotOf3, trOf3, Fin.sum_univ_three]
theorem SO3_mul_pts{k} (A : Mat 3 3 R) (p : Mat 3 {k} R) :
    Gen.SO3_mul_pts{k} P A p = .ok (fun i j => mvec A (fun l => p l j) i) := by
  unfold Gen.SO3_mul_pts{k}; (try simp only []); congr 1
  funext i j; fin_cases i <;> fin_cases j <;> simp [mvec, Fin.sum_univ_three]
theorem SE2_mul_pts{k} (A : Mat 3 3 R) (p : Mat 2 {k} R)
    (h0 : A 2 0 = 0) (h1 : A 2 1 = 0) (h2 : A 2 2 = 1) :
    Gen.SE2_mul_pts{k} P A p = .ok (fun i j => act2 A (fun l => p l j) i) := by
  unfold Gen.SE2_mul_pts{k}; simp only [h0, h1, h2]; congr 1
  funext i j; fin_cases i <;> fin_cases j <;> simp [act2, mvec, rotOf2, trOf2, Fin.sum_univ_two]
theorem SO2_mul_pts{k} (A : Mat 2 2 R) (p : Mat 2 {k} R) :
    Gen.SO2_mul_pts{k} P A p = .ok (fun i j => mvec A (fun l => p l j) i) := by
  unfold Gen.SO2_mul_pts{k}; (try simp only []); congr 1
  funext i j; fin_cases i <;> fin_cases j <;> simp [mvec, Fin.sum_univ_two]
''')
out.append('''theorem SE3_mul_multi_vec (A B : Mat 4 4 R) (p : Vec 3 R)
    (a0 : A 3 0 = 0) (a1 : A 3 1 = 0) (a2 : A 3 2 = 0) (a3 : A 3 3 = 1)
    (b0 : B 3 0 = 0) (b1 : B 3 1 = 0) (b2 : B 3 2 = 0) (b3 : B 3 3 = 1) :
    Gen.SE3_mul_multi_vec P A B p = .ok (fun i j => act3 (v2 A B j) p i) := by
  unfold Gen.SE3_mul_multi_vec; simp only [a0, a1, a2, a3, b0, b1, b2, b3]; congr 1
  funext i j; fin_cases i <;> fin_cases j <;> simp [act3, mvec, rotOf3, trOf3, Fin.sum_univ_three]
theorem SO3_mul_multi_vec (A B : Mat 3 3 R) (p : Vec 3 R) :
    Gen.SO3_mul_multi_vec P A B p = .ok (fun i j => mvec (v2 A B j) p i) := by
  unfold Gen.SO3_mul_multi_vec; (try simp only []); congr 1
  funext i j; fin_cases i <;> fin_cases j <;> simp [mvec, Fin.sum_univ_three]

end SmVerif.Bridge
''')
open('/verif/lean/SmVerif/Bridge/Poses.lean','w').write('\n'.join(out))
