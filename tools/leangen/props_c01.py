hdr='''/-
  C01 — Closure: every constructed or composed value is a valid group member.
  Property theorems only; all are about the generated definitions `Gen.*`.
  Exact-arithmetic statements: "orthonormal with determinant +1", "last row [0 … 0 1]", "norm 1"
  hold exactly in every ordered field given the stated laws of sin/cos/sqrt; the 1e-9 float
  tolerance of the property is explored by the monitor (smv/props/c01.py).
-/
import SmVerif.Bridge.Rot
import SmVerif.Bridge.AngVec
import SmVerif.Bridge.Poses
import SmVerif.Bridge.Quat
import SmVerif.Spec.PrimLaws

namespace SmVerif.Props.C01
open SmVerif SmVerif.Spec SmVerif.Bridge
set_option linter.unusedSectionVars false
variable {R : Type} [Field R] [LinearOrder R] [IsStrictOrderedRing R] (P : Prims R)

/-! ### axis rotations (either unit), 2-D and 3-D, with and without translation -/
'''
out=[hdr]
for ax in 'xyz':
    for u in ('rad','deg'):
        out.append(f"theorem rot{ax}_{u}_mem (hT : P.Trig) (th : R) (M : Mat 3 3 R) (h : Gen.rot{ax}_{u} P th = .ok M) : IsSO3 M := by\n  rw [Bridge.rot{ax}_{u}] at h; cases h; exact rot{ax}_SO3 _ _ (hT _)\n")
        out.append(f"theorem trot{ax}_{u}_mem (hT : P.Trig) (th : R) (M : Mat 4 4 R) (h : Gen.trot{ax}_{u} P th = .ok M) : IsSE3 M := by\n  rw [Bridge.trot{ax}_{u}] at h; cases h; exact isSE3_rt3 _ (rot{ax}_SO3 _ _ (hT _))\n")
    out.append(f"theorem trot{ax}_t_mem (hT : P.Trig) (th : R) (t : Vec 3 R) (M : Mat 4 4 R) (h : Gen.trot{ax}_t P th t = .ok M) : IsSE3 M := by\n  rw [Bridge.trot{ax}_t] at h; cases h; exact isSE3_rt3 _ (rot{ax}_SO3 _ _ (hT _))\n")
for u in ('rad','deg'):
    out.append(f"theorem rot2_{u}_mem (hT : P.Trig) (th : R) (M : Mat 2 2 R) (h : Gen.rot2_{u} P th = .ok M) : IsSO2 M := by\n  rw [Bridge.rot2_{u}] at h; cases h; exact rot2_SO2 _ _ (hT _)\n")
    out.append(f"theorem trot2_{u}_mem (hT : P.Trig) (th : R) (M : Mat 3 3 R) (h : Gen.trot2_{u} P th = .ok M) : IsSE2 M := by\n  rw [Bridge.trot2_{u}] at h; cases h; exact isSE2_rt2 _ (rot2_SO2 _ _ (hT _))\n")
out.append("theorem trot2_t_mem (hT : P.Trig) (th : R) (t : Vec 2 R) (M : Mat 3 3 R) (h : Gen.trot2_t P th t = .ok M) : IsSE2 M := by\n  rw [Bridge.trot2_t] at h; cases h; exact isSE2_rt2 _ (rot2_SO2 _ _ (hT _))\n")
out.append("theorem xyt2tr_mem (hT : P.Trig) (v : Vec 3 R) (M : Mat 3 3 R) (h : Gen.xyt2tr P v = .ok M) : IsSE2 M := by\n  rw [Bridge.xyt2tr] at h; cases h; exact isSE2_rt2 _ (rot2_SO2 _ _ (hT _))\n")
out.append("/-! ### roll-pitch-yaw (every order name and alias, either unit, packed or separate angles) and Euler -/\n")
spec={'zyx':'rpyZYX','vehicle':'rpyZYX','xyz':'rpyXYZ','arm':'rpyXYZ','yxz':'rpyYXZ','camera':'rpyYXZ'}
out.append('''theorem rpyZYX_SO3 (hT : P.Trig) (u : R → R) (v : Vec 3 R) : IsSO3 (rpyZYX P u v) :=
  ((rotz_SO3 _ _ (hT _)).mul (roty_SO3 _ _ (hT _))).mul (rotx_SO3 _ _ (hT _))
theorem rpyXYZ_SO3 (hT : P.Trig) (u : R → R) (v : Vec 3 R) : IsSO3 (rpyXYZ P u v) :=
  ((rotx_SO3 _ _ (hT _)).mul (roty_SO3 _ _ (hT _))).mul (rotz_SO3 _ _ (hT _))
theorem rpyYXZ_SO3 (hT : P.Trig) (u : R → R) (v : Vec 3 R) : IsSO3 (rpyYXZ P u v) :=
  ((roty_SO3 _ _ (hT _)).mul (rotx_SO3 _ _ (hT _))).mul (rotz_SO3 _ _ (hT _))
theorem eulZYZ_SO3 (hT : P.Trig) (u : R → R) (v : Vec 3 R) : IsSO3 (eulZYZ P u v) :=
  ((rotz_SO3 _ _ (hT _)).mul (roty_SO3 _ _ (hT _))).mul (rotz_SO3 _ _ (hT _))
''')
for o,sp in spec.items():
    for u in ('rad','deg'):
        out.append(f"theorem rpy2r_{o}_{u}_mem (hT : P.Trig) (v : Vec 3 R) (M : Mat 3 3 R) (h : Gen.rpy2r_{o}_{u} P v = .ok M) : IsSO3 M := by\n  rw [Bridge.rpy2r_{o}_{u}] at h; cases h; exact {sp}_SO3 P hT _ _\n")
    out.append(f"theorem rpy2r_{o}_scalars_mem (hT : P.Trig) (r p y : R) (M : Mat 3 3 R) (h : Gen.rpy2r_{o}_scalars P r p y = .ok M) : IsSO3 M := by\n  rw [Bridge.rpy2r_{o}_scalars] at h; cases h; exact {sp}_SO3 P hT _ _\n")
    out.append(f"theorem rpy2tr_{o}_mem (hT : P.Trig) (v : Vec 3 R) (M : Mat 4 4 R) (h : Gen.rpy2tr_{o} P v = .ok M) : IsSE3 M := by\n  rw [Bridge.rpy2tr_{o}] at h; cases h; exact isSE3_rt3 _ ({sp}_SO3 P hT _ _)\n")
for nm in ('eul2r_rad','eul2r_deg'):
    out.append(f"theorem {nm}_mem (hT : P.Trig) (v : Vec 3 R) (M : Mat 3 3 R) (h : Gen.{nm} P v = .ok M) : IsSO3 M := by\n  rw [Bridge.{nm}] at h; cases h; exact eulZYZ_SO3 P hT _ _\n")
out.append("theorem eul2r_scalars_mem (hT : P.Trig) (a b c : R) (M : Mat 3 3 R) (h : Gen.eul2r_scalars P a b c = .ok M) : IsSO3 M := by\n  rw [Bridge.eul2r_scalars] at h; cases h; exact eulZYZ_SO3 P hT _ _\n")
out.append("theorem eul2tr_mem (hT : P.Trig) (v : Vec 3 R) (M : Mat 4 4 R) (h : Gen.eul2tr P v = .ok M) : IsSE3 M := by\n  rw [Bridge.eul2tr] at h; cases h; exact isSE3_rt3 _ (eulZYZ_SO3 P hT _ _)\n")
out.append('''/-! ### axis-angle: any angle, any axis the library does not treat as zero -/

theorem angvec2r_mem (hT : P.Trig) (hS : P.Sqrt) (th : R) (v : Vec 3 R) (M : Mat 3 3 R)
    (h : Gen.angvec2r P th v = .ok M) : IsSO3 M := by
  rcases angvec2r_cases P th v M h with rfl | ⟨hn, rfl⟩
  · exact IsSO3.one
  · exact rodM_SO3 _ _ _ (unit_of_div P hS v hn) (hT _)

theorem angvec2r_deg_mem (hT : P.Trig) (hS : P.Sqrt) (th : R) (v : Vec 3 R) (M : Mat 3 3 R)
    (h : Gen.angvec2r_deg P th v = .ok M) : IsSO3 M := by
  rcases angvec2r_deg_cases P th v M h with rfl | ⟨hn, rfl⟩
  · exact IsSO3.one
  · exact rodM_SO3 _ _ _ (unit_of_div P hS v hn) (hT _)

/-- non-vacuity: over ℚ with an exact square root on the value met, the ok-path hypotheses hold -/
example : (v3 (3 / 5 : ℚ) (4 / 5) 0 0) ^ 2 + (v3 (3 / 5 : ℚ) (4 / 5) 0 1) ^ 2 + (v3 (3 / 5 : ℚ) (4 / 5) 0 2) ^ 2 = 1 := by
  norm_num

/-! ### unit quaternion → rotation matrix -/

theorem q2r_mem (q : Vec 4 R) (hq : qnormsq q = 1) (M : Mat 3 3 R) (h : Gen.q2r P q = .ok M) : IsSO3 M := by
  rw [Bridge.q2r] at h; cases h; exact q2r_SO3 q hq

/-! ### group operations of the pose classes (traced class operators) -/
''')
for c,(S,mp,sh) in {'SO2':('IsSO2','mpow2','2 2'),'SE2':('IsSE2','mpow3','3 3'),'SO3':('IsSO3','mpow3','3 3'),'SE3':('IsSE3','mpow4','4 4')}.items():
    out.append(f"theorem {c}_mul_mem (A B M : Mat {sh} R) (ha : {S} A) (hb : {S} B) (h : Gen.{c}_mul P A B = .ok M) : {S} M := by\n  rw [Bridge.{c}_mul] at h; cases h; exact ha.mul hb\n")
    out.append(f"theorem {c}_identity_mem (M : Mat {sh} R) (h : Gen.{c}_identity P = .ok M) : {S} M := by\n  rw [Bridge.{c}_identity] at h; cases h; exact {S}.one\n")
    out.append(f"theorem {c}_mpow_mem (A : Mat {sh} R) (ha : {S} A) (n : Nat) : {S} ({mp} A n) := by\n  induction n with\n  | zero => exact {S}.one\n  | succ k ih => exact ih.mul ha\n")
    for k in (0,1,2,3):
        out.append(f"theorem {c}_pow_{k}_mem (A M : Mat {sh} R) (ha : {S} A) (h : Gen.{c}_pow_{k} P A = .ok M) : {S} M := by\n  rw [Bridge.{c}_pow_{k}] at h; cases h; exact {c}_mpow_mem A ha {k}\n")
    out.append(f"theorem {c}_mul_MM_mem (A B C D : Mat {sh} R) (M : Mat {sh} R × Mat {sh} R) (ha : {S} A) (hb : {S} B) (hc : {S} C) (hd : {S} D)\n    (h : Gen.{c}_mul_MM P A B C D = .ok M) : {S} M.1 ∧ {S} M.2 := by\n  rw [Bridge.{c}_mul_MM] at h; cases h; exact ⟨ha.mul hc, hb.mul hd⟩\n")
out.append('''theorem SO3_inv_mem (A M : Mat 3 3 R) (ha : IsSO3 A) (h : Gen.SO3_inv P A = .ok M) : IsSO3 M := by
  rw [Bridge.SO3_inv] at h; cases h; exact ha.transpose
theorem SO3_div_mem (A B M : Mat 3 3 R) (ha : IsSO3 A) (hb : IsSO3 B) (h : Gen.SO3_div P A B = .ok M) : IsSO3 M := by
  rw [Bridge.SO3_div] at h; cases h; exact ha.mul hb.transpose
theorem SE3_inv_mem (A M : Mat 4 4 R) (ha : IsSE3 A) (h : Gen.SE3_inv P A = .ok M) : IsSE3 M := by
  rw [Bridge.SE3_inv] at h; cases h; exact ha.inv
theorem SE3_div_mem (A B M : Mat 4 4 R) (ha : IsSE3 A) (hb : IsSE3 B) (h : Gen.SE3_div P A B = .ok M) : IsSE3 M := by
  rw [Bridge.SE3_div] at h; cases h; exact ha.mul hb.inv

/-! ### every expression built from members with *, /, inv, ** (n ≥ 0), prod stays a member
(structural induction: any depth, any exponent — not only the traced ones) -/

inductive GExpr where
  | leaf (i : Nat)
  | mul (a b : GExpr)
  | div (a b : GExpr)
  | inv (a : GExpr)
  | pow (a : GExpr) (n : Nat)
  | prod (l : List GExpr)

/-- evaluation with exactly the operations the traced operators were shown to compute:
`*` ↦ `mmul`, `inv` ↦ structured inverse, `/` ↦ `mmul a (inv b)`, `**` ↦ `mpow4`, `prod` ↦ left fold -/
def eval (env : Nat → Mat 4 4 R) : GExpr → Mat 4 4 R
  | .leaf i => env i
  | .mul a b => mmul (eval env a) (eval env b)
  | .div a b => mmul (eval env a) (seInv3 (eval env b))
  | .inv a => seInv3 (eval env a)
  | .pow a n => mpow4 (eval env a) n
  | .prod l => evalProd env l
where evalProd (env : Nat → Mat 4 4 R) : List GExpr → Mat 4 4 R
  | [] => one4
  | e :: es => mmul (eval env e) (evalProd env es)

mutual
theorem eval_mem (env : Nat → Mat 4 4 R) (henv : ∀ i, IsSE3 (env i)) : ∀ e : GExpr, IsSE3 (eval env e)
  | .leaf i => by simpa [eval] using henv i
  | .mul a b => by simpa [eval] using (eval_mem env henv a).mul (eval_mem env henv b)
  | .div a b => by simpa [eval] using (eval_mem env henv a).mul (eval_mem env henv b).inv
  | .inv a => by simpa [eval] using (eval_mem env henv a).inv
  | .pow a n => by simpa [eval] using SE3_mpow_mem _ (eval_mem env henv a) n
  | .prod l => by simpa [eval] using evalProd_mem env henv l
theorem evalProd_mem (env : Nat → Mat 4 4 R) (henv : ∀ i, IsSE3 (env i)) : ∀ l : List GExpr, IsSE3 (eval.evalProd env l)
  | [] => by simpa [eval.evalProd] using IsSE3.one
  | e :: es => by simpa [eval.evalProd] using (eval_mem env henv e).mul (evalProd_mem env henv es)
end

end SmVerif.Props.C01
''')
open('/verif/lean/SmVerif/Props/C01.lean','w').write('\n'.join(out))
