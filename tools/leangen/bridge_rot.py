# generate Bridge/Rot.lean
hdr='''/-
  Bridge.Rot — generated axis rotations, angle-set constructors and their homogeneous versions in
  terms of Spec.Group.  (File written with the help of a script; checked by Lean like any other.)
-/
import SmVerif.Gen.Transforms3d
import SmVerif.Gen.Transforms2d
import SmVerif.Spec.Group
import SmVerif.Tactics

namespace SmVerif.Bridge
open SmVerif SmVerif.Spec
set_option linter.unusedSectionVars false
set_option linter.unusedTactic false
set_option linter.unreachableTactic false
variable {R : Type} [Field R] [LinearOrder R] [IsStrictOrderedRing R] (P : Prims R)

/-- degrees to radians as the library does it: `x * pi / 180` -/
def deg (P : Prims R) (x : R) : R := x * P.pi / 180

/-- 4×4 homogeneous matrix with a given rotation block and translation -/
abbrev hom (M : Mat 3 3 R) (t : Vec 3 R) : Mat 4 4 R := rt3 M t
def zero3 : Vec 3 R := v3 0 0 0
def zero2 : Vec 2 R := v2 0 0

'''
out=[hdr]
tac="(try simp only []); first | rfl | (congr 1 <;> ext_lit <;> (try simp [DEFS]) <;> (try ring))"
for ax in 'xyz':
    out.append(f"theorem rot{ax}_rad (th : R) : Gen.rot{ax}_rad P th = .ok (rot{ax} (P.cos th) (P.sin th)) := by\n  unfold Gen.rot{ax}_rad; {tac.replace('DEFS',f'rot{ax}')}\n")
    out.append(f"theorem rot{ax}_deg (th : R) : Gen.rot{ax}_deg P th = .ok (rot{ax} (P.cos (deg P th)) (P.sin (deg P th))) := by\n  unfold Gen.rot{ax}_deg; {tac.replace('DEFS',f'rot{ax}, deg')}\n")
    out.append(f"theorem trot{ax}_rad (th : R) : Gen.trot{ax}_rad P th = .ok (rt3 (rot{ax} (P.cos th) (P.sin th)) zero3) := by\n  unfold Gen.trot{ax}_rad; {tac.replace('DEFS',f'rot{ax}, rt3, zero3')}\n")
    out.append(f"theorem trot{ax}_deg (th : R) : Gen.trot{ax}_deg P th = .ok (rt3 (rot{ax} (P.cos (deg P th)) (P.sin (deg P th))) zero3) := by\n  unfold Gen.trot{ax}_deg; {tac.replace('DEFS',f'rot{ax}, rt3, zero3, deg')}\n")
    out.append(f"theorem trot{ax}_t (th : R) (t : Vec 3 R) : Gen.trot{ax}_t P th t = .ok (rt3 (rot{ax} (P.cos th) (P.sin th)) t) := by\n  unfold Gen.trot{ax}_t; {tac.replace('DEFS',f'rot{ax}, rt3')}\n")
# 2D
out.append(f"theorem rot2_rad (th : R) : Gen.rot2_rad P th = .ok (rot2 (P.cos th) (P.sin th)) := by\n  unfold Gen.rot2_rad; {tac.replace('DEFS','rot2')}\n")
out.append(f"theorem rot2_deg (th : R) : Gen.rot2_deg P th = .ok (rot2 (P.cos (deg P th)) (P.sin (deg P th))) := by\n  unfold Gen.rot2_deg; {tac.replace('DEFS','rot2, deg')}\n")
out.append(f"theorem trot2_rad (th : R) : Gen.trot2_rad P th = .ok (rt2 (rot2 (P.cos th) (P.sin th)) zero2) := by\n  unfold Gen.trot2_rad; {tac.replace('DEFS','rot2, rt2, zero2')}\n")
out.append(f"theorem trot2_deg (th : R) : Gen.trot2_deg P th = .ok (rt2 (rot2 (P.cos (deg P th)) (P.sin (deg P th))) zero2) := by\n  unfold Gen.trot2_deg; {tac.replace('DEFS','rot2, rt2, zero2, deg')}\n")
out.append(f"theorem trot2_t (th : R) (t : Vec 2 R) : Gen.trot2_t P th t = .ok (rt2 (rot2 (P.cos th) (P.sin th)) t) := by\n  unfold Gen.trot2_t; {tac.replace('DEFS','rot2, rt2')}\n")
out.append(f"theorem xyt2tr (v : Vec 3 R) : Gen.xyt2tr P v = .ok (rt2 (rot2 (P.cos (v 2)) (P.sin (v 2))) (v2 (v 0) (v 1))) := by\n  unfold Gen.xyt2tr; {tac.replace('DEFS','rot2, rt2')}\n")
out.append(f"theorem xyt2tr_deg (v : Vec 3 R) : Gen.xyt2tr_deg P v = .ok (rt2 (rot2 (P.cos (deg P (v 2))) (P.sin (deg P (v 2)))) (v2 (v 0) (v 1))) := by\n  unfold Gen.xyt2tr_deg; {tac.replace('DEFS','rot2, rt2, deg')}\n")
# rpy orders: documented: zyx: Rz(yaw)Ry(pitch)Rx(roll); xyz: Rx(yaw)Ry(pitch)Rz(roll); yxz: Ry(yaw)Rx(pitch)Rz(roll); angles = (roll,pitch,yaw) = v0 v1 v2
out.append('''/-- documented axis orders, as functions of the three angles after unit conversion `u` -/
def rpyZYX (P : Prims R) (u : R → R) (v : Vec 3 R) : Mat 3 3 R :=
  mmul (mmul (rotz (P.cos (u (v 2))) (P.sin (u (v 2)))) (roty (P.cos (u (v 1))) (P.sin (u (v 1))))) (rotx (P.cos (u (v 0))) (P.sin (u (v 0))))
def rpyXYZ (P : Prims R) (u : R → R) (v : Vec 3 R) : Mat 3 3 R :=
  mmul (mmul (rotx (P.cos (u (v 2))) (P.sin (u (v 2)))) (roty (P.cos (u (v 1))) (P.sin (u (v 1))))) (rotz (P.cos (u (v 0))) (P.sin (u (v 0))))
def rpyYXZ (P : Prims R) (u : R → R) (v : Vec 3 R) : Mat 3 3 R :=
  mmul (mmul (roty (P.cos (u (v 2))) (P.sin (u (v 2)))) (rotx (P.cos (u (v 1))) (P.sin (u (v 1))))) (rotz (P.cos (u (v 0))) (P.sin (u (v 0))))
/-- ZYZ Euler: Rz(phi) Ry(theta) Rz(psi) -/
def eulZYZ (P : Prims R) (u : R → R) (v : Vec 3 R) : Mat 3 3 R :=
  mmul (mmul (rotz (P.cos (u (v 0))) (P.sin (u (v 0)))) (roty (P.cos (u (v 1))) (P.sin (u (v 1))))) (rotz (P.cos (u (v 2))) (P.sin (u (v 2))))
''')
spec={'zyx':'rpyZYX','vehicle':'rpyZYX','xyz':'rpyXYZ','arm':'rpyXYZ','yxz':'rpyYXZ','camera':'rpyYXZ'}
rtac="(try simp only []); congr 1 <;> ext_lit <;> (try simp [SPEC, mmul, rotx, roty, rotz, Fin.sum_univ_three, deg]) <;> (try ring)"
for o,sp in spec.items():
    out.append(f"theorem rpy2r_{o}_rad (v : Vec 3 R) : Gen.rpy2r_{o}_rad P v = .ok ({sp} P id v) := by\n  unfold Gen.rpy2r_{o}_rad; {rtac.replace('SPEC',sp)}\n")
    out.append(f"theorem rpy2r_{o}_deg (v : Vec 3 R) : Gen.rpy2r_{o}_deg P v = .ok ({sp} P (deg P) v) := by\n  unfold Gen.rpy2r_{o}_deg; {rtac.replace('SPEC',sp)}\n")
    out.append(f"theorem rpy2r_{o}_scalars (r p y : R) : Gen.rpy2r_{o}_scalars P r p y = .ok ({sp} P id (v3 r p y)) := by\n  unfold Gen.rpy2r_{o}_scalars; {rtac.replace('SPEC',sp)}\n")
    out.append(f"theorem rpy2tr_{o} (v : Vec 3 R) : Gen.rpy2tr_{o} P v = .ok (rt3 ({sp} P id v) zero3) := by\n  unfold Gen.rpy2tr_{o}; {rtac.replace('SPEC',sp+', rt3, zero3')}\n")
out.append(f"theorem eul2r_rad (v : Vec 3 R) : Gen.eul2r_rad P v = .ok (eulZYZ P id v) := by\n  unfold Gen.eul2r_rad; {rtac.replace('SPEC','eulZYZ')}\n")
out.append(f"theorem eul2r_deg (v : Vec 3 R) : Gen.eul2r_deg P v = .ok (eulZYZ P (deg P) v) := by\n  unfold Gen.eul2r_deg; {rtac.replace('SPEC','eulZYZ')}\n")
out.append(f"theorem eul2r_scalars (a b c : R) : Gen.eul2r_scalars P a b c = .ok (eulZYZ P id (v3 a b c)) := by\n  unfold Gen.eul2r_scalars; {rtac.replace('SPEC','eulZYZ')}\n")
out.append(f"theorem eul2tr (v : Vec 3 R) : Gen.eul2tr P v = .ok (rt3 (eulZYZ P id v) zero3) := by\n  unfold Gen.eul2tr; {rtac.replace('SPEC','eulZYZ, rt3, zero3')}\n")
out.append("theorem rpy2r_badorder (v : Vec 3 R) : Gen.rpy2r_badorder P v = .raised .ValueError := by\n  unfold Gen.rpy2r_badorder; rfl\n")
out.append("end SmVerif.Bridge\n")
open('/verif/lean/SmVerif/Bridge/Rot.lean','w').write('\n'.join(out))
