#!/usr/bin/env python3
"""Summarise an evaluation log of the seeded changes (lines written by tools/evalmut.sh or its isolated twin):
per round and per property: detected / total, and how (broken proof or correspondence with witness, broken only, monitor only)."""
import re, sys, json, collections, os
logs = sys.argv[1:]
rows = {}
for lg in logs:
    for l in open(lg):
        m = re.match(r'(C\d\d)/(\d+) (C\d\d) demo_exit=(\d+) check_exit=(\d+) secs=(\d+) (\d+) violation-lines; (.*)', l)
        if not m: continue
        pid, k = m.group(1), int(m.group(2))
        tail = m.group(8)
        m2 = re.search(r'obligations=(\d+) discharged=(\d+) broken=(\d+) monitor_cases=(\d+) violations=(\d+)', tail)
        rows[(pid, k)] = dict(demo=int(m.group(4)), det=m.group(5) == '1', nf='no-failing-input-found' in tail,
                              broken=int(m2.group(3)) if m2 else None, viol=int(m2.group(5)) if m2 else None, secs=int(m.group(6)))
rounds = collections.defaultdict(lambda: collections.Counter())
for (pid, k), r in sorted(rows.items()):
    rd = (k - 1) // 3 + 1
    c = rounds[rd]
    c['total'] += 1
    try: sup = 'superseded' in json.load(open(os.path.join(os.path.dirname(os.path.abspath(__file__)), '..', 'seeded', pid, str(k), 'meta.json')))
    except Exception: sup = False
    if sup: c['superseded'] += 1; continue
    if not r['det']: c['missed'] += 1; c.setdefault('missed_ids', 0); continue
    c['detected'] += 1
    if r['broken'] and r['nf']: c['proof/correspondence only'] += 1
    elif r['broken']: c['proof/correspondence + witness'] += 1
    else: c['monitor witness only'] += 1
print('| round | changes | detected | broken proof or tie + witness | broken proof or tie only | monitor witness only | not reported | superseded |')
print('|---|---|---|---|---|---|---|---|')
tot = collections.Counter()
for rd in sorted(rounds):
    c = rounds[rd]; tot.update(c)
    print(f"| {rd} | {c['total']} | {c['detected']} | {c['proof/correspondence + witness']} | {c['proof/correspondence only']} | {c['monitor witness only']} | {c['missed']} | {c['superseded']} |")
print(f"| all | {tot['total']} | {tot['detected']} | {tot['proof/correspondence + witness']} | {tot['proof/correspondence only']} | {tot['monitor witness only']} | {tot['missed']} | {tot['superseded']} |")
missed = [f'{p}/{k}' for (p, k), r in sorted(rows.items()) if not r['det']]
print('\nnot reported:', ', '.join(missed) or 'none')
print('proof/tie only:', ', '.join(f'{p}/{k}' for (p, k), r in sorted(rows.items()) if r['det'] and r['broken'] and r['nf']) or 'none')
