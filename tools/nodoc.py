#!/usr/bin/env python3
"""print a python file without docstrings (keeps line numbers as prefixes)"""
import ast, sys
src=open(sys.argv[1]).read()
tree=ast.parse(src)
skip=set()
for node in ast.walk(tree):
    if isinstance(node,(ast.FunctionDef,ast.ClassDef,ast.Module,ast.AsyncFunctionDef)):
        b=node.body
        if b and isinstance(b[0],ast.Expr) and isinstance(getattr(b[0],'value',None),ast.Constant) and isinstance(b[0].value.value,str):
            for l in range(b[0].lineno,b[0].end_lineno+1): skip.add(l)
lo=int(sys.argv[2]) if len(sys.argv)>2 else 1
hi=int(sys.argv[3]) if len(sys.argv)>3 else 10**9
for i,l in enumerate(src.splitlines(),1):
    if i in skip or i<lo or i>hi: continue
    s=l.strip()
    if not s or s.startswith('#'): continue
    print(f"{i}: {l}")
