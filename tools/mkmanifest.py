#!/usr/bin/env python3
"""(re)write MANIFEST.json from the per-property SPEC tables"""
import json, os, sys, importlib
ROOT=os.path.dirname(os.path.dirname(os.path.abspath(__file__)))
sys.path.insert(0,ROOT)
os.environ['SMV_NOPATCH']='1'
props=[json.loads(l) for l in open(os.path.join(ROOT,'properties.jsonl'))]
checks=[]; na=[]
for p in props:
    pid=p['id']
    try:
        mod=importlib.import_module(f'smv.props.{pid.lower()}')
        spec=mod.SPEC
    except ImportError:
        na.append(dict(property_id=pid, reason='check not built yet in this round (the Lean-proof technique applies; see DESIGN.md §7)'))
        continue
    checks.append(dict(
        property_id=pid,
        quick_cmd=f'./check {pid} --tier quick',
        thorough_cmd=f'./check {pid} --tier thorough',
        evidence_file=f'/verif/evidence/{pid}.json',
        replay_cmd_template=f'./check {pid} --replay {{path}}',
        engine='smverif',
        level_claimed=dict(category='proof',
            text=spec.get('level_text','Lean 4 theorems about a model regenerated from the source on every run (symbolic execution of the real functions) or a hand model tied by an exhaustive/seeded correspondence; exact-arithmetic laws are proved for all inputs, float rounding and threshold bands are explored by monitors'),
            design_ref=f'DESIGN.md §7 {pid}'),
        level_note=spec.get('level_note','trusted: Lean kernel, Mathlib, axioms propext/Classical.choice/Quot.sound, the translator (validated each run), NumPy semantics on object arrays; not proved: IEEE rounding, interior of threshold bands, third-party numerics (LAPACK/SciPy). '+'; '.join(spec.get('partial',[]))),
        technique=spec.get('technique','Lean 4 proof over generated model + correspondence/monitors'),
    ))
m=dict(version=1,
  setup_cmd='./setup.sh',
  hooks=dict(guard='SPATIALMATH_VERIF', enable='none needed: the harness rebinds module globals (math/np) of the spatialmath modules in its own process; /repo carries no hooks',
             baseline_off_cmd='cd /repo && /venv/bin/python -m pytest -ra -q -p no:cacheprovider --timeout=900 --continue-on-collection-errors',
             source_commits=[], add_only=True),
  engines=[dict(name='smverif', path='/verif/lean', serves_properties=[c['property_id'] for c in checks],
                kind_free_text='Lean 4 + Mathlib package SmVerif (Gen regenerated from /repo by smv/gen.py; Spec/Bridge/Props hand-written), Python harness smv/')],
  checks=checks,
  notes='See DESIGN.md. `./check Cxx` regenerates lean/SmVerif/Gen from /repo, rebuilds the property theorems, audits axioms, validates the translator and runs the monitors against the real code.',
  not_applicable=na)
json.dump(m,open(os.path.join(ROOT,'MANIFEST.json'),'w'),indent=1)
print('checks',len(checks),'not_applicable',len(na))
