"""Validation of the translator (it is in the trusted base, so it is exercised on every run):

 (a) emitter:  IR evaluated exactly in Python (Fractions, pseudo-primitives)  ==  the emitted
     Lean definition evaluated by Lean at ℚ with the same pseudo-primitives (literal equality);
 (b) tracer:   IR evaluated in float64  ≈  the real, unpatched library function on the same
     float inputs (same outcome kind; values within 1e-9·scale unless a branch condition is
     within rounding distance of its threshold, which is counted separately).
"""
import os, sys, subprocess, pickle, math
from fractions import Fraction
import numpy as np
from . import inputs
from .ir import eval_func, make_env, PseudoPrims, FloatPrims, ERRMAP

ROOT = os.path.dirname(os.path.dirname(os.path.abspath(__file__)))
LEAN = os.path.join(ROOT, 'lean')
PY = sys.executable

def frac_str(fr):
    return str(fr.numerator) if fr.denominator == 1 else f"{fr.numerator}/{fr.denominator}"

def flat_exact(v):
    if v is None: return []
    if isinstance(v, bool): return ['T' if v else 'F']
    if isinstance(v, Fraction): return [frac_str(v)]
    if isinstance(v, int): return [str(v)]
    if isinstance(v, np.ndarray): return [x for e in v.flat for x in flat_exact(e)]
    if isinstance(v, tuple): return [x for e in v for x in flat_exact(e)]
    raise TypeError(type(v))

def small_rationals(g, p):
    """small exact rationals for a parameter (the values are irrelevant to the emitter check;
    small ones keep the arithmetic cheap and hit equality branches such as s == 0)"""
    def one():
        r = g.random()
        if r < 0.15: return Fraction(0)
        if r < 0.25: return Fraction(1)
        return Fraction(int(g.integers(-9, 10)), int(g.integers(1, 7)))
    n = p.size
    vals = [one() for _ in range(n)]
    if len(p.shape) == 0: return vals[0]
    a = np.empty(p.shape, dtype=object)
    for i, x in zip(np.ndindex(*p.shape), vals): a[i] = x
    return a

def lean_driver(lines, timeout=600):
    r = subprocess.run(['lake', 'env', 'lean', '--run', 'Driver/Main.lean'], cwd=LEAN,
                       input='\n'.join(lines) + '\n', capture_output=True, text=True, timeout=timeout)
    if r.returncode != 0:
        raise RuntimeError('lean driver failed: ' + r.stderr[-2000:] + r.stdout[-500:])
    return r.stdout.splitlines()

def check_emitter(funcs, seed, n_per_func=6):
    """(a) — returns dict(cases, mismatches=[...], paths_hit={name:set})"""
    g = inputs.rng(seed)
    lines = []; expect = []
    for f in funcs:
        if not f.ok: continue
        for k in range(n_per_func):
            vals = [small_rationals(g, p) for p in f.params]
            env = make_env(f, vals)
            try:
                kind, val, _ = eval_func(f, env, PseudoPrims)
            except ZeroDivisionError:
                continue
            if kind == 'exc': exp = 'raised ' + ERRMAP.get(val, 'Other')
            elif val is None: exp = 'none'
            else: exp = ('ok ' + ' '.join(flat_exact(val))).rstrip()
            flatargs = []
            for p, v in zip(f.params, vals):
                flatargs += [frac_str(v)] if len(p.shape) == 0 else [frac_str(x) for x in v.flat]
            lines.append(f"fn {f.name} " + ' '.join(flatargs)); expect.append((f.name, exp))
    got = lean_driver(lines) if lines else []
    mism = []
    if len(got) != len(lines):
        mism.append(dict(kind='driver-output-length', expected=len(lines), got=len(got)))
    for (name, exp), line, req in zip(expect, got, lines):
        if exp.strip() != line.strip():
            mism.append(dict(function=name, request=req, python_ir=exp, lean=line))
    return dict(cases=len(lines), mismatches=mism)

def run_real(requests):
    env = dict(os.environ); env['SMV_NOPATCH'] = '1'
    env['PYTHONPATH'] = ROOT + os.pathsep + env.get('PYTHONPATH', '')
    r = subprocess.run([PY, '-m', 'smv.realrun'], cwd=ROOT, input=pickle.dumps(requests),
                       capture_output=True, env=env, timeout=1200)
    if r.returncode != 0:
        raise RuntimeError('realrun failed: ' + r.stderr.decode()[-3000:])
    return pickle.loads(r.stdout)

def _flatten_float(v):
    if v is None: return []
    if isinstance(v, (bool, np.bool_)): return [bool(v)]
    if isinstance(v, (float, int, np.floating, np.integer)): return [float(v)]
    if isinstance(v, Fraction): return [float(v)]
    if isinstance(v, np.ndarray): return [y for x in v.flat for y in _flatten_float(x)]
    if isinstance(v, tuple): return [y for x in v for y in _flatten_float(x)]
    return [('?', repr(v))]

def compare_outcome(f, args, real, tol=1e-9, margin_eps=1e-9):
    """compare the float IR evaluation with the real outcome.  returns (status, detail)
    status ∈ ok | boundary | mismatch"""
    env = make_env(f, args)
    try:
        kind, val, margin = eval_func(f, env, FloatPrims, want_margin=True)
    except (ValueError, ZeroDivisionError, OverflowError) as e:
        # e.g. math domain error inside the IR evaluation: the real code must fail too
        kind, val, margin = 'exc', type(e).__name__, float('inf')
        if real[0] == 'exc': return 'ok', None
        rv = _flatten_float(real[1])
        if any(isinstance(x, float) and (x != x or abs(x) == float('inf')) for x in rv): return 'ok', None
        return 'boundary', None
    rk = real[0]
    if rk == 'exc':
        if kind == 'exc' and ERRMAP.get(val, 'Other') == ERRMAP.get(real[1], 'Other'): return 'ok', None
        if margin < margin_eps: return 'boundary', None
        return 'mismatch', dict(ir=(kind, str(val)[:200]), real=real)
    rv = real[1]
    if kind == 'exc':
        if margin < margin_eps: return 'boundary', None
        return 'mismatch', dict(ir=(kind, val), real=('ok', repr(rv)[:200]))
    a = _flatten_float(val); b = _flatten_float(rv)
    if (val is None) != (rv is None) and not (val is None and isinstance(rv, tuple) and any(x is None for x in rv)):
        if margin < margin_eps: return 'boundary', None
        return 'mismatch', dict(ir=repr(val)[:200], real=repr(rv)[:200])
    if val is None: return 'ok', None
    if len(a) != len(b):
        if margin < margin_eps: return 'boundary', None
        return 'mismatch', dict(ir=repr(val)[:200], real=repr(rv)[:200], why='shape')
    scale = max([1.0] + [abs(x) for x in a if isinstance(x, float) and x == x and abs(x) != float('inf')])
    for x, y in zip(a, b):
        if isinstance(x, bool) or isinstance(y, bool):
            if bool(x) != bool(y):
                if margin < margin_eps: return 'boundary', None
                return 'mismatch', dict(ir=repr(val)[:200], real=repr(rv)[:200])
            continue
        if isinstance(x, tuple) or isinstance(y, tuple):
            return 'mismatch', dict(ir=repr(val)[:200], real=repr(rv)[:200], why='non-numeric')
        if x != x and y != y: continue
        if not (abs(x - y) <= tol * scale):
            if margin < margin_eps: return 'boundary', None
            # ill-conditioned evaluation (e.g. division by a tiny quantity): accept if relative agreement
            if abs(x - y) <= 1e-6 * max(abs(x), abs(y)): continue
            return 'mismatch', dict(ir=repr(val)[:300], real=repr(rv)[:300], diff=abs(x - y))
    return 'ok', None

def check_tracer(funcs, seed, n_per_func=25):
    """(b)"""
    g = inputs.rng(seed + 1)
    req = {}
    for f in funcs:
        if not f.ok: continue
        req[f.name] = [[inputs.for_param(g, p) for p in f.params] for _ in range(n_per_func)]
    res = run_real(req)
    byname = {f.name: f for f in funcs}
    stats = dict(cases=0, ok=0, boundary=0, mismatches=[], leaf_kinds={})
    for name, arglists in req.items():
        f = byname[name]
        for args, real in zip(arglists, res[name]):
            stats['cases'] += 1
            st, det = compare_outcome(f, args, real)
            if st == 'ok': stats['ok'] += 1
            elif st == 'boundary': stats['boundary'] += 1
            else:
                det['function'] = name
                det['args'] = [np.asarray(a).tolist() for a in args]
                stats['mismatches'].append(det)
    return stats

if __name__ == '__main__':
    from . import gen
    gs, changed, report = gen.generate(write=True, verbose=True)
    funcs = [f for fs in gs.values() for f in fs]
    if changed:
        subprocess.run(['lake', 'build', 'SmVerif.Gen.Registry'], cwd=LEAN, check=True)
    a = check_emitter(funcs, 1)
    print('emitter:', a['cases'], 'cases', len(a['mismatches']), 'mismatches')
    for m in a['mismatches'][:10]: print('  ', m)
    b = check_tracer(funcs, 1)
    print('tracer:', {k: v for k, v in b.items() if k != 'mismatches'}, len(b['mismatches']), 'mismatches')
    seen = set()
    for m in b['mismatches']:
        if m['function'] in seen: continue
        seen.add(m['function']); print('  ', m)
