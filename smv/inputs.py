"""Seeded input generators shared by translation validation and the float monitors.
Only numpy/math — never the library under test — so a broken library cannot corrupt inputs."""
import math
import numpy as np

SPECIAL_ANGLES = [0.0, math.pi / 2, -math.pi / 2, math.pi, -math.pi, math.pi / 4, 3.0, -3.0, 1e-9, 2 * math.pi]

def rng(seed):
    return np.random.default_rng(seed)

def rx(t): c, s = math.cos(t), math.sin(t); return np.array([[1, 0, 0], [0, c, -s], [0, s, c]])
def ry(t): c, s = math.cos(t), math.sin(t); return np.array([[c, 0, s], [0, 1, 0], [-s, 0, c]])
def rz(t): c, s = math.cos(t), math.sin(t); return np.array([[c, -s, 0], [s, c, 0], [0, 0, 1]])
def r2(t): c, s = math.cos(t), math.sin(t); return np.array([[c, -s], [s, c]])

def angle(g, special=0.3):
    if g.random() < special:
        a = SPECIAL_ANGLES[g.integers(len(SPECIAL_ANGLES))]
        if g.random() < 0.5:
            a += float(g.choice([-1, 1])) * 10.0 ** g.uniform(-12, -1)
        return float(a)
    return float(g.uniform(-math.pi, math.pi))

def unit_axis(g):
    if g.random() < 0.3:
        v = np.zeros(3); v[g.integers(3)] = float(g.choice([-1, 1])); return v
    v = g.normal(size=3)
    return v / np.linalg.norm(v)

def rodrigues(axis, th):
    k = np.array([[0, -axis[2], axis[1]], [axis[2], 0, -axis[0]], [-axis[1], axis[0], 0]])
    return np.eye(3) + math.sin(th) * k + (1 - math.cos(th)) * (k @ k)

def so3(g, near_special=0.4):
    """rotation matrix: products of axis rotations or axis-angle, including angles at/near 0 and pi"""
    r = g.random()
    if r < 0.35:
        return rz(angle(g)) @ ry(angle(g)) @ rx(angle(g))
    ax = unit_axis(g)
    if r < 0.35 + near_special:
        base = float(g.choice([0.0, math.pi]))
        off = 10.0 ** g.uniform(-12, -1) if g.random() < 0.8 else 0.0
        th = base + (off if base == 0.0 else -off)
    else:
        th = float(g.uniform(0, math.pi))
    return rodrigues(ax, th)

def translation(g, lo=-6, hi=6):
    if g.random() < 0.1: return np.zeros(3)
    mag = 10.0 ** g.uniform(lo, hi)
    v = g.normal(size=3); v /= np.linalg.norm(v)
    return v * mag

def se3(g, tmax=6):
    T = np.eye(4); T[:3, :3] = so3(g); T[:3, 3] = translation(g, -6, tmax); return T

def so2(g): return r2(angle(g))
def se2(g, tmax=6):
    T = np.eye(3); T[:2, :2] = so2(g); T[:2, 2] = translation(g, -6, tmax)[:2]; return T

def unitq(g):
    q = g.normal(size=4)
    if g.random() < 0.2: q[0] = 0.0
    if g.random() < 0.1: q = np.array([1.0, 0, 0, 0]) + g.normal(size=4) * 10.0 ** g.uniform(-12, -3)
    return q / np.linalg.norm(q)

def generic(g, shape, lo=-3, hi=3):
    mag = 10.0 ** g.uniform(lo, hi)
    a = g.normal(size=shape) * mag
    if g.random() < 0.15:
        a = np.round(a)            # integers, zeros
    return a if shape else float(a)

def for_param(g, p):
    """value for a traced parameter: a mix of generic arrays and group members chosen by name/shape"""
    sh, nm = p.shape, p.name
    r = g.random()
    if sh == (3, 3) and nm in ('m', 'E'):
        if r < 0.6: return so3(g)
        if r < 0.7: return np.eye(3)
        if r < 0.8: return so3(g) + g.normal(size=(3, 3)) * 10.0 ** g.uniform(-14, -2)
    if sh == (4, 4):
        if r < 0.6: return se3(g, 3)
        if r < 0.7: return np.eye(4)
        if r < 0.8:
            T = se3(g, 3); T[:3, :3] += g.normal(size=(3, 3)) * 10.0 ** g.uniform(-14, -2); return T
    if sh == (3, 3) and nm == 'T':
        if r < 0.6: return se2(g, 3)
        if r < 0.7: return np.eye(3)
    if sh == (2, 2):
        if r < 0.6: return so2(g)
        if r < 0.7: return np.eye(2)
    if sh == (4,) and nm in ('q', 'p'):
        if r < 0.5: return unitq(g)
    if sh == () and nm in ('th', 'r', 'y', 'a', 'b'):
        if r < 0.7: return angle(g)
    if sh == () and nm == 's':
        if r < 0.6: return float(g.uniform(0, 1))
        if r < 0.75: return float(g.choice([0.0, 1.0]))
        return float(g.uniform(-0.5, 1.5))
    if sh == (3,) and nm == 'u':
        return g.uniform(0, 1, size=3)
    if sh == (6,) and r < 0.3:
        v = g.normal(size=6)
        if g.random() < 0.5: v[3:] = 0
        else: v[3:] /= np.linalg.norm(v[3:])
        return v
    if len(sh) == 1 and r < 0.1:
        return np.zeros(sh)
    if len(sh) == 1 and r < 0.3:
        v = g.normal(size=sh); return v / np.linalg.norm(v)
    return generic(g, sh, -2, 2)
