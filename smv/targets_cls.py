"""Class-level traced configurations: the real classes (SO2, SE2, SO3, SE3, UnitQuaternion,
Quaternion, Twist2, Twist3, Plucker, spatial vectors, dual quaternions) executed on symbolic
arrays.  Results that are library objects are observed through their stored arrays."""
import numpy as np
from .tracer import install, Sym
from .ir import Func, Param as P
from .targets import F, _with_random
install()
from spatialmath import SO2, SE2, SO3, SE3, Quaternion, UnitQuaternion
from spatialmath.smuserlist import SMUserList
import spatialmath.base as base

def out(x):
    """observable value of a result: arrays of a library object (tuple if multi-valued)"""
    if isinstance(x, SMUserList):
        if len(x.data) == 1: return x.data[0]
        return tuple(x.data)
    if isinstance(x, list) and x and isinstance(x[0], np.ndarray):
        return tuple(x)
    return x

_POSE = dict(SO2=(SO2, (2, 2)), SE2=(SE2, (3, 3)), SO3=(SO3, (3, 3)), SE3=(SE3, (4, 4)))

def poses():
    L = []
    for cname, (cls, sh) in _POSE.items():
        A, B, C = P('A', sh), P('B', sh), P('C', sh)
        N = 2 if cname in ('SO2', 'SE2') else 3
        mk = (lambda cls: lambda M: cls(M, check=False))(cls)
        def f(name, params, call, doc):
            L.append(F(f"{cname}_{name}", params, call, f"{cname}: {doc}"))
        f('mul', [A, B], (lambda mk: lambda a, b: out(mk(a) * mk(b)))(mk), 'X * Y (single values)')
        f('div', [A, B], (lambda mk: lambda a, b: out(mk(a) / mk(b)))(mk), 'X / Y (single values)')
        f('inv', [A], (lambda mk: lambda a: out(mk(a).inv()))(mk), 'X.inv()')
        for n in (-3, -2, -1, 0, 1, 2, 3):
            nm = f"pow_{'m' if n < 0 else ''}{abs(n)}"
            f(nm, [A], (lambda mk, n: lambda a: out(mk(a) ** n))(mk, n), f'X ** {n}')
        f('prod2', [A, B], (lambda cls: lambda a, b: out(cls([a, b], check=False).prod()))(cls), 'prod of a 2-valued object')
        f('prod3', [A, B, C], (lambda cls: lambda a, b, c: out(cls([a, b, c], check=False).prod()))(cls), 'prod of a 3-valued object')
        f('mul_vec', [A, P('p', (N,))], (lambda mk: lambda a, p: mk(a) * p)(mk), 'X * point (1-D array)')
        for k in (1, 2, 3, 4):
            f(f'mul_pts{k}', [A, P('p', (N, k))], (lambda mk: lambda a, p: mk(a) * p)(mk), f'X * (d x {k}) array of points')
        f('mul_multi_vec', [A, B, P('p', (N,))], (lambda cls: lambda a, b, p: cls([a, b], check=False) * p)(cls), '2-valued X * point')
        f('mul_1M', [A, B, C], (lambda cls, mk: lambda a, b, c: out(mk(a) * cls([b, c], check=False)))(cls, mk), '1-valued * 2-valued')
        f('mul_M1', [A, B, C], (lambda cls, mk: lambda a, b, c: out(cls([a, b], check=False) * mk(c)))(cls, mk), '2-valued * 1-valued')
        f('mul_MM', [A, B, C, P('D', sh)], (lambda cls: lambda a, b, c, d: out(cls([a, b], check=False) * cls([c, d], check=False)))(cls), '2-valued * 2-valued')
        f('identity', [], (lambda cls: lambda: out(cls()))(cls), 'default constructor')
        f('mul_scalar', [A, P('k')], (lambda mk: lambda a, k: out(mk(a) * k))(mk), 'X * scalar -> array')
        f('add', [A, B], (lambda mk: lambda a, b: out(mk(a) + mk(b)))(mk), 'X + Y -> array')
        f('sub', [A, B], (lambda mk: lambda a, b: out(mk(a) - mk(b)))(mk), 'X - Y -> array')
        f('det', [A], (lambda mk: lambda a: mk(a).det())(mk), 'X.det()')
        f('R', [A], (lambda mk: lambda a: mk(a).R)(mk), 'X.R')
        if cname in ('SE2', 'SE3'):
            f('t', [A], (lambda mk: lambda a: mk(a).t)(mk), 'X.t')
    A4, A3 = P('A', (4, 4)), P('A', (3, 3))
    th = P('th'); t3 = P('t', (3,)); v3 = P('v', (3,))
    L += [
        F('SE3_Ad', [A4], lambda a: SE3(a, check=False).Ad(), 'SE3.Ad()'),
        F('SE3_delta', [A4, P('B', (4, 4))], lambda a, b: SE3(a, check=False).delta(SE3(b, check=False)), 'SE3.delta(X2)'),
        F('SE3_from_SO3', [A3], lambda a: out(SE3.SO3(SO3(a, check=False))), 'SE3.SO3(SO3 object): embedding'),
        F('SO2_SE2', [P('A', (2, 2))], lambda a: out(SO2(a, check=False).SE2()), 'SO2.SE2(): embedding (check=True on the result)'),
        F('SE2_SE3', [A3], lambda a: out(SE2(a, check=False).SE3()), 'SE2.SE3(): embedding'),
        F('SE2_xyt', [A3], lambda a: SE2(a, check=False).xyt(), 'SE2.xyt()'),
        F('SO2_theta', [P('A', (2, 2))], lambda a: SO2(a, check=False).theta(), 'SO2.theta()'),
        F('SE2_ctor_xyt', [P('x'), P('y'), th], lambda x, y, th: out(SE2(x, y, th)), 'SE2(x, y, theta)'),
        F('SE2_ctor_vec', [v3], lambda v: out(SE2(v)), 'SE2([x, y, theta])'),
        F('SO2_ctor', [th], lambda th: out(SO2(th)), 'SO2(theta)'),
        F('SO2_ctor_deg', [th], lambda th: out(SO2(th, unit='deg')), 'SO2(theta, unit="deg")'),
        F('SE3_ctor_xyz', [P('x'), P('y'), P('z')], lambda x, y, z: out(SE3(x, y, z)), 'SE3(x, y, z)'),
        F('SE3_ctor_vec', [v3], lambda v: out(SE3(v)), 'SE3([x, y, z])'),
    ]
    for ax in 'xyz':
        for cname, cls in (('SO3', SO3), ('SE3', SE3), ('UQ', UnitQuaternion)):
            ctor = getattr(cls, 'R' + ax)
            L.append(F(f'{cname}_R{ax}', [th], (lambda c: lambda th: out(c(th)))(ctor), f'{cname}.R{ax}(theta)'))
            L.append(F(f'{cname}_R{ax}_deg', [th], (lambda c: lambda th: out(c(th, unit="deg")))(ctor), f'{cname}.R{ax}(theta, unit="deg")'))
    for cname, cls in (('SO3', SO3), ('SE3', SE3)):
        for order in ('zyx', 'xyz', 'yxz'):
            L.append(F(f'{cname}_RPY_{order}', [v3], (lambda c, o: lambda v: out(c.RPY(v, order=o)))(cls, order), f'{cname}.RPY(angles, order="{order}")'))
        L.append(F(f'{cname}_Eul', [v3], (lambda c: lambda v: out(c.Eul(v)))(cls), f'{cname}.Eul(angles)'))
        L.append(F(f'{cname}_AngVec', [th, v3], (lambda c: lambda th, v: out(c.AngVec(th, v)))(cls), f'{cname}.AngVec(theta, v)'))
        L.append(F(f'{cname}_OA', [P('o', (3,)), P('a', (3,))], (lambda c: lambda o, a: out(c.OA(o, a)))(cls), f'{cname}.OA(o, a)'))
        L.append(F(f'{cname}_EulerVec', [v3], (lambda c: lambda v: out(c.EulerVec(v)))(cls), f'{cname}.EulerVec(w)'))
    L += [
        F('SO3_Exp', [v3], lambda v: out(SO3.Exp(v)), 'SO3.Exp(3-vector)'),
        F('SE3_Exp', [P('S', (6,))], lambda S: out(SE3.Exp(S)), 'SE3.Exp(6-vector)'),
        F('SE3_Tx', [P('x')], lambda x: out(SE3.Tx(x)), 'SE3.Tx'),
        F('SE3_Delta', [P('d', (6,))], lambda d: out(SE3.Delta(d)), 'SE3.Delta(d) (check=True)'),
    ]
    return L

def quats():
    q, p, r = P('q', (4,)), P('p', (4,)), P('r', (4,))
    v3 = P('v', (3,)); th = P('th')
    UQ = lambda a: UnitQuaternion(a, norm=False, check=False) if False else _uq(a)
    L = [
        F('UQ_mul', [q, p], lambda a, b: out(_uq(a) * _uq(b)), 'UnitQuaternion * UnitQuaternion'),
        F('UQ_div', [q, p], lambda a, b: out(_uq(a) / _uq(b)), 'UnitQuaternion / UnitQuaternion'),
        F('UQ_inv', [q], lambda a: out(_uq(a).inv()), 'UnitQuaternion.inv()'),
        F('UQ_conj', [q], lambda a: out(_uq(a).conj()), 'UnitQuaternion.conj()'),
        F('UQ_mul_vec', [q, v3], lambda a, v: _uq(a) * v, 'UnitQuaternion * 3-vector'),
        F('UQ_R', [q], lambda a: _uq(a).R, 'UnitQuaternion.R'),
        F('UQ_SO3', [q], lambda a: out(_uq(a).SO3()), 'UnitQuaternion.SO3()'),
        F('UQ_SE3', [q], lambda a: out(_uq(a).SE3()), 'UnitQuaternion.SE3()'),
        F('UQ_ctor_norm', [q], lambda a: out(UnitQuaternion(a)), 'UnitQuaternion(4-vector): normalising constructor'),
        F('UQ_ctor_sv', [P('s'), v3], lambda s, v: out(UnitQuaternion(s, v)), 'UnitQuaternion(s, v): normalising constructor'),
        F('UQ_from_R', [P('m', (3, 3))], lambda m: out(UnitQuaternion(m)), 'UnitQuaternion(3x3) (check=True)'),
        F('UQ_AngVec', [th, v3], lambda th, v: out(UnitQuaternion.AngVec(th, v)), 'UnitQuaternion.AngVec(theta, v)'),
        F('UQ_EulerVec', [v3], lambda v: out(UnitQuaternion.EulerVec(v)), 'UnitQuaternion.EulerVec(w)'),
        F('UQ_eq', [q, p], lambda a, b: _uq(a) == _uq(b), 'UnitQuaternion == UnitQuaternion'),
        F('UQ_interp', [q, p, P('s')], lambda a, b, s: out(_uq(a).interp(s, _uq(b))), 'UnitQuaternion.interp(s, dest)'),
        F('UQ_interp_shortest', [q, p, P('s')], lambda a, b, s: out(_uq(a).interp(s, _uq(b), shortest=True)), 'UnitQuaternion.interp(s, dest, shortest=True)'),
        F('Q_mul', [q, p], lambda a, b: out(Quaternion(a) * Quaternion(b)), 'Quaternion * Quaternion'),
        F('Q_add', [q, p], lambda a, b: out(Quaternion(a) + Quaternion(b)), 'Quaternion + Quaternion'),
        F('Q_sub', [q, p], lambda a, b: out(Quaternion(a) - Quaternion(b)), 'Quaternion - Quaternion'),
        F('Q_conj', [q], lambda a: out(Quaternion(a).conj()), 'Quaternion.conj()'),
        F('Q_norm', [q], lambda a: Quaternion(a).norm(), 'Quaternion.norm()'),
        F('Q_unit', [q], lambda a: out(Quaternion(a).unit()), 'Quaternion.unit()'),
        F('Q_inner', [q, p], lambda a, b: Quaternion(a).inner(Quaternion(b)), 'Quaternion.inner()'),
        F('Q_matrix', [q], lambda a: Quaternion(a).matrix, 'Quaternion.matrix'),
        F('Q_mul_scalar', [q, P('k')], lambda a, k: out(Quaternion(a) * k), 'Quaternion * scalar'),
        F('Q_rmul_scalar', [q, P('k')], lambda a, k: out(k * Quaternion(a)), 'scalar * Quaternion'),
        F('Q_mul_UQ', [q, p], lambda a, b: out(Quaternion(a) * _uq(b)), 'Quaternion * UnitQuaternion'),
    ]
    for n in (-3, -2, -1, 0, 1, 2, 3):
        nm = f"{'m' if n < 0 else ''}{abs(n)}"
        L.append(F(f'Q_pow_{nm}', [q], (lambda n: lambda a: out(Quaternion(a) ** n))(n), f'Quaternion ** {n}'))
        L.append(F(f'UQ_pow_{nm}', [q], (lambda n: lambda a: out(_uq(a) ** n))(n), f'UnitQuaternion ** {n}'))
    return L

def _uq(a):
    x = UnitQuaternion()
    x.data = [a]
    return x

def twists():
    from spatialmath import Twist2, Twist3
    a, q, S6, S3, th, k = P('a', (3,)), P('q', (3,)), P('S', (6,)), P('S', (3,)), P('th'), P('k')
    def tw3(s):
        x = Twist3(); x.data = [s]; return x
    def tw2(s):
        x = Twist2(); x.data = [s]; return x
    L = [
        F('Twist3_Revolute', [a, q], lambda a, q: out(Twist3.Revolute(a, q)), 'Twist3.Revolute(a, q)'),
        F('Twist3_Prismatic', [a], lambda a: out(Twist3.Prismatic(a)), 'Twist3.Prismatic(a)'),
        F('Twist3_v', [S6], lambda S: tw3(S).v, 'Twist3.v'), F('Twist3_w', [S6], lambda S: tw3(S).w, 'Twist3.w'),
        F('Twist3_pitch', [S6], lambda S: tw3(S).pitch(), 'Twist3.pitch()'),
        F('Twist3_pole', [S6], lambda S: tw3(S).pole(), 'Twist3.pole()'),
        F('Twist3_theta', [S6], lambda S: tw3(S).theta(), 'Twist3.theta()'),
        F('Twist3_line', [S6], lambda S: out(tw3(S).line()), 'Twist3.line()'),
        F('Twist3_isprismatic', [S6], lambda S: tw3(S).isprismatic, 'Twist3.isprismatic'),
        F('Twist3_se3', [S6], lambda S: tw3(S).se3(), 'Twist3.se3()'),
        F('Twist3_inv', [S6], lambda S: out(tw3(S).inv()), 'Twist3.inv()'),
        F('Twist3_ad', [S6], lambda S: tw3(S).ad(), 'Twist3.ad()'),
        F('Twist3_exp', [S6], lambda S: out(tw3(S).exp()), 'Twist3.exp()'),
        F('Twist3_exp_theta', [S6, th], lambda S, th: out(tw3(S).exp(th)), 'Twist3.exp(theta)'),
        F('Twist3_mul_scalar', [S6, k], lambda S, k: out(tw3(S) * k), 'Twist3 * scalar'),
        F('Twist3_rmul_scalar', [S6, k], lambda S, k: out(k * tw3(S)), 'scalar * Twist3'),
        F('Twist3_unit', [S6], lambda S: out(tw3(S).unit), 'Twist3.unit'),
        F('Twist2_Revolute', [P('q', (2,))], lambda q: out(Twist2.Revolute(q)), 'Twist2.Revolute(q)'),
        F('Twist2_Prismatic', [P('a', (2,))], lambda a: out(Twist2.Prismatic(a)), 'Twist2.Prismatic(a)'),
        F('Twist2_exp_theta', [S3, th], lambda S, th: out(tw2(S).exp(th)), 'Twist2.exp(theta)'),
        F('Twist2_se2', [S3], lambda S: tw2(S).se2(), 'Twist2.se2()'),
        F('Twist2_inv', [S3], lambda S: out(tw2(S).inv()), 'Twist2.inv()'),
        F('Twist2_mul_scalar', [S3, k], lambda S, k: out(tw2(S) * k), 'Twist2 * scalar'),
        F('Twist2_isprismatic', [S3], lambda S: tw2(S).isprismatic, 'Twist2.isprismatic'),
    ]
    return L

def pluckers():
    from spatialmath.geom3d import Plucker, Plane
    from spatialmath import SE3
    p, q, x, d, L6, M6 = P('p', (3,)), P('q', (3,)), P('x', (3,)), P('d', (3,)), P('L', (6,)), P('M', (6,))
    def pl(v):
        o = Plucker(); o.data = [v]; return o
    def se3(T):
        return SE3(T, check=False)
    lam = P('lam')
    L = [
        F('Plucker_PQ', [p, q], lambda p, q: out(Plucker.PQ(p, q)), 'Plucker.PQ(P, Q)'),
        F('Plucker_PointDir', [p, d], lambda p, d: out(Plucker.PointDir(p, d)), 'Plucker.PointDir(point, dir)'),
        F('Plucker_Planes', [P('a', (4,)), P('b', (4,))], lambda a, b: out(Plucker.Planes(a, b)), 'Plucker.Planes(pi1, pi2)'),
        F('Plucker_pp', [L6], lambda L: pl(L).pp, 'Plucker.pp'),
        F('Plucker_ppd', [L6], lambda L: pl(L).ppd, 'Plucker.ppd'),
        F('Plucker_point', [L6, lam], lambda L, lam: pl(L).point(lam), 'Plucker.point(lambda)'),
        F('Plucker_closest', [L6, x], lambda L, x: tuple(pl(L).closest(x)), 'Plucker.closest(x) -> (p, d, lam)'),
        F('Plucker_commonperp', [L6, M6], lambda L, M: out(pl(L).commonperp(pl(M))), 'Plucker.commonperp'),
        F('Plucker_distance', [L6, M6], lambda L, M: pl(L).distance(pl(M)), 'Plucker.distance'),
        F('Plucker_mul', [L6, M6], lambda L, M: pl(L) * pl(M), 'Plucker * Plucker (reciprocal product)'),
        F('Plucker_intersect_plane', [L6, P('pi', (4,))], lambda L, pi: tuple(pl(L).intersect_plane(pi)), 'Plucker.intersect_plane -> (p, lam)'),
        F('SE3_mul_Plucker', [P('T', (4, 4)), L6], lambda T, L: out(se3(T) * pl(L)), 'SE3 * Plucker'),
        F('Plane_PN', [p, P('n', (3,))], lambda p, n: Plane.PN(p, n).plane, 'Plane.PN(p, n)'),
        F('Plane_P3', [P('m', (3, 3))], lambda m: Plane.P3(m).plane, 'Plane.P3(3 points as columns)'),
    ]
    return L

def spatial():
    from spatialmath import SE3
    from spatialmath.spatialvector import SpatialVelocity, SpatialAcceleration, SpatialForce, SpatialMomentum, SpatialInertia
    a, b_ = P('a', (6,)), P('b', (6,))
    L = []
    for cname, cls in (('SVel', SpatialVelocity), ('SAcc', SpatialAcceleration), ('SFor', SpatialForce), ('SMom', SpatialMomentum)):
        L.append(F(f'{cname}_add', [a, b_], (lambda c: lambda a, b: out(c(a) + c(b)))(cls), f'{cls.__name__} + same class'))
        L.append(F(f'{cname}_sub', [a, b_], (lambda c: lambda a, b: out(c(a) - c(b)))(cls), f'{cls.__name__} - same class'))
        L.append(F(f'{cname}_neg', [a], (lambda c: lambda a: out(-c(a)))(cls), f'-{cls.__name__}'))
        L.append(F(f'SE3_mul_{cname}', [P('T', (4, 4)), a], (lambda c: lambda T, a: out(SE3(T, check=False) * c(a)))(cls), f'SE3 * {cls.__name__}'))
    L += [
        F('SVel_cross_SVel', [a, b_], lambda a, b: out(SpatialVelocity(a).cross(SpatialVelocity(b))), 'velocity x motion (crm)'),
        F('SVel_cross_SFor', [a, b_], lambda a, b: out(SpatialVelocity(a).cross(SpatialForce(b))), 'velocity x* force (crf)'),
        F('SVel_matmul_SVel', [a, b_], lambda a, b: out(SpatialVelocity(a) @ SpatialVelocity(b)), 'SpatialVelocity @ SpatialVelocity'),
        F('SIne_ctor', [P('m'), P('c', (3,)), P('I', (3, 3))], lambda m, c, I: out(SpatialInertia(m, c, I)), 'SpatialInertia(m, c, I)'),
        F('SIne_add', [P('A', (6, 6)), P('B', (6, 6))], lambda A, B: out(SpatialInertia(A) + SpatialInertia(B)), 'SpatialInertia + SpatialInertia'),
        F('SIne_mul_SAcc', [P('A', (6, 6)), a], lambda A, a: out(SpatialInertia(A) * SpatialAcceleration(a)), 'inertia * acceleration'),
        F('SIne_mul_SVel', [P('A', (6, 6)), a], lambda A, a: out(SpatialInertia(A) * SpatialVelocity(a)), 'inertia * velocity'),
    ]
    return L

def dualq():
    from spatialmath import Quaternion, UnitQuaternion, SE3
    from spatialmath.DualQuaternion import DualQuaternion, UnitDualQuaternion
    r, d, r2, d2 = P('r', (4,)), P('d', (4,)), P('s', (4,)), P('e', (4,))
    def dq(r, d): return DualQuaternion(Quaternion(r), Quaternion(d))
    def dout(x): return np.r_[x.real.vec, x.dual.vec]
    return [
        F('DQ_mul', [r, d, r2, d2], lambda r, d, s, e: dout(dq(r, d) * dq(s, e)), 'DualQuaternion * DualQuaternion'),
        F('DQ_add', [r, d, r2, d2], lambda r, d, s, e: dout(dq(r, d) + dq(s, e)), 'DualQuaternion + DualQuaternion'),
        F('DQ_conj', [r, d], lambda r, d: dout(dq(r, d).conj()), 'DualQuaternion.conj()'),
        F('DQ_matrix', [r, d], lambda r, d: dq(r, d).matrix(), 'DualQuaternion.matrix()'),
        F('DQ_norm', [r, d], lambda r, d: tuple(dq(r, d).norm()), 'DualQuaternion.norm()'),
        F('UDQ_mul_point', [r, d, P('p', (3,))], lambda r, d, p: UnitDualQuaternion(_uq(r), Quaternion(d)) * p, 'UnitDualQuaternion * point'),
    ]

def multi():
    """per-value methods and operators on 2-valued objects (C09: result i is the method applied to value i)"""
    from spatialmath import Twist3, Twist2
    L = []
    for cname, (cls, sh) in _POSE.items():
        A, B, C = P('A', sh), P('B', sh), P('C', sh)
        two = (lambda cls: lambda a, b: cls([a, b], check=False))(cls)
        mk = (lambda cls: lambda M: cls(M, check=False))(cls)
        def f(name, params, call, doc):
            L.append(F(f"{cname}_{name}", params, call, f"{cname}: {doc}"))
        f('inv_M', [A, B], (lambda two: lambda a, b: out(two(a, b).inv()))(two), '2-valued X.inv()')
        f('div_M1', [A, B, C], (lambda two, mk: lambda a, b, c: out(two(a, b) / mk(c)))(two, mk), '2-valued / 1-valued')
        f('div_1M', [A, B, C], (lambda two, mk: lambda a, b, c: out(mk(a) / two(b, c)))(two, mk), '1-valued / 2-valued')
        f('pow2_M', [A, B], (lambda two: lambda a, b: out(two(a, b) ** 2))(two), '2-valued X ** 2')
        f('R_M', [A, B], (lambda two: lambda a, b: tuple(two(a, b).R))(two), '2-valued X.R')
        if cname != 'SE3': f('eq_M', [A, B, C], (lambda two, mk: lambda a, b, c: tuple(two(a, b) == mk(c)))(two, mk), '2-valued == 1-valued')
        if cname != 'SE3': f('ne_M', [A, B, C], (lambda two, mk: lambda a, b, c: tuple(two(a, b) != mk(c)))(two, mk), '2-valued != 1-valued')
        if cname in ('SE2', 'SE3'):
            f('t_M', [A, B], (lambda two: lambda a, b: two(a, b).t)(two), '2-valued X.t')
        if cname in ('SO2', 'SE2'):
            f('theta_M', [A, B], (lambda two: lambda a, b: tuple(two(a, b).theta()))(two), '2-valued theta()')
            f('theta_M_deg', [A, B], (lambda two: lambda a, b: tuple(two(a, b).theta(unit='deg')))(two), '2-valued theta(unit=deg)')
            f('theta_deg', [A], (lambda mk: lambda a: mk(a).theta(unit='deg'))(mk), 'theta(unit=deg)')
    S6, T6 = P('S', (6,)), P('T', (6,))
    def tw3(s, t):
        x = Twist3(); x.data = [s, t]; return x
    L += [F('Twist3_pitch_M', [S6, T6], lambda s, t: tuple(tw3(s, t).pitch()), '2-valued Twist3.pitch()'),
          F('Twist3_v_M', [S6, T6], lambda s, t: tw3(s, t).v, '2-valued Twist3.v'),
          F('Twist3_w_M', [S6, T6], lambda s, t: tw3(s, t).w, '2-valued Twist3.w'),
          F('Twist3_inv_M', [S6, T6], lambda s, t: out(tw3(s, t).inv()), '2-valued Twist3.inv()'),
          F('Twist3_mul_scalar_M', [S6, T6, P('k')], lambda s, t, k: out(tw3(s, t) * k), '2-valued Twist3 * scalar'),
          F('Twist3_se3_M', [S6, T6], lambda s, t: tuple(tw3(s, t).se3()), '2-valued Twist3.se3()'),
          F('Twist3_rmul_scalar_M', [S6, T6, P('k')], lambda s, t, k: out(k * tw3(s, t)), 'scalar * 2-valued Twist3')]
    S3, T3 = P('S', (3,)), P('T', (3,))
    def tw2(s, t):
        x = Twist2(); x.data = [s, t]; return x
    L += [F('Twist2_inv_M', [S3, T3], lambda s, t: out(tw2(s, t).inv()), '2-valued Twist2.inv()'),
          F('Twist2_mul_scalar_M', [S3, T3, P('k')], lambda s, t, k: out(tw2(s, t) * k), '2-valued Twist2 * scalar'),
          F('Twist2_se2_M', [S3, T3], lambda s, t: tuple(tw2(s, t).se2()), '2-valued Twist2.se2()')]
    q, p_ = P('q', (4,)), P('p', (4,))
    def uq2(a, b):
        x = UnitQuaternion(); x.data = [a, b]; return x
    def q2(a, b):
        x = Quaternion(); x.data = [a, b]; return x
    L += [F('UQ_inv_M', [q, p_], lambda a, b: out(uq2(a, b).inv()), '2-valued UnitQuaternion.inv()'),
          F('Q_conj_M', [q, p_], lambda a, b: out(q2(a, b).conj()), '2-valued Quaternion.conj()'),
          F('Q_norm_M', [q, p_], lambda a, b: tuple(q2(a, b).norm()), '2-valued Quaternion.norm()'),
          F('Q_add_M1', [q, p_, P('r', (4,))], lambda a, b, c: out(q2(a, b) + Quaternion(c)), '2-valued Quaternion + 1-valued'),
          F('Q_pow2_M', [q, p_], lambda a, b: out(q2(a, b) ** 2), '2-valued Quaternion ** 2'),
          F('Q_pow3_M', [q, p_], lambda a, b: out(q2(a, b) ** 3), '2-valued Quaternion ** 3'),
          F('Q_pow_m2_M', [q, p_], lambda a, b: out(q2(a, b) ** -2), '2-valued Quaternion ** -2'),
          F('UQ_pow2_M', [q, p_], lambda a, b: out(uq2(a, b) ** 2), '2-valued UnitQuaternion ** 2'),
          F('Q_mul_M1', [q, p_, P('r', (4,))], lambda a, b, c: out(q2(a, b) * Quaternion(c)), '2-valued Quaternion * 1-valued'),
          F('Q_mul_1M', [q, p_, P('r', (4,))], lambda a, b, c: out(Quaternion(a) * q2(b, c)), '1-valued Quaternion * 2-valued'),
          F('Q_mul_MM', [q, p_, P('r', (4,)), P('s', (4,))], lambda a, b, c, d: out(q2(a, b) * q2(c, d)), '2-valued Quaternion * 2-valued'),
          F('UQ_eq_1M', [q, p_, P('r', (4,))], lambda a, b, c: tuple(_uq(a) == uq2(b, c)), '1-valued UnitQuaternion == 2-valued'),
          F('UQ_ne_1M', [q, p_, P('r', (4,))], lambda a, b, c: tuple(_uq(a) != uq2(b, c)), '1-valued UnitQuaternion != 2-valued'),
          F('UQ_eq_M1', [q, p_, P('r', (4,))], lambda a, b, c: tuple(uq2(a, b) == _uq(c)), '2-valued UnitQuaternion == 1-valued'),
          F('UQ_ne_M1', [q, p_, P('r', (4,))], lambda a, b, c: tuple(uq2(a, b) != _uq(c)), '2-valued UnitQuaternion != 1-valued'),
          F('UQ_mul_vec_M', [q, p_, P('v', (3,))], lambda a, b, v: uq2(a, b) * v, '2-valued UnitQuaternion * 3-vector'),
          F('Q_inner_M', [q, p_, P('r', (4,))], lambda a, b, c: q2(a, b).inner(Quaternion(c)), '2-valued Quaternion.inner(1-valued)'),
          F('Q_inner_MM', [q, p_, P('r', (4,)), P('s', (4,))], lambda a, b, c, d: tuple(np.atleast_1d(q2(a, b).inner(q2(c, d)))), '2-valued Quaternion.inner(2-valued)'),
          ]
    return L

def groups():
    return {'Poses': poses(), 'Quats': quats(), 'Twists': twists(), 'Plucker': pluckers(), 'Spatial': spatial(), 'DualQuat': dualq(), 'Multi': multi()}
