"""./check Cxx --tier quick|thorough [--replay file]

One run = regenerate the model from /repo, re-check the property's theorems (lake build + axiom
and source audit), validate the translator against the code, run the property's monitors /
enumerations against the real implementation, filter through known_findings.json, write
evidence/Cxx.json, print VIOLATION / KNOWN-FINDING lines, exit 0/1 (2 = infrastructure failure).
"""
import os, sys, json, time, hashlib, argparse, importlib, traceback, subprocess

ROOT = os.path.dirname(os.path.dirname(os.path.abspath(__file__)))
sys.path.insert(0, ROOT)
from smv import lean as L

EVID = os.path.join(ROOT, 'evidence')
REPLAYS = os.path.join(ROOT, 'replays')
KNOWN = os.path.join(ROOT, 'known_findings.json')

TRUSTED = [
    "Lean 4.33 kernel (+ leanchecker re-check in the thorough tier); Mathlib as kernel-checked library",
    "axioms allowed per theorem: propext, Classical.choice, Quot.sound (audited by #print axioms on every run)",
    "translator smv/tracer.py + smv/ir.py (symbolic execution of the real Python functions, Lean emitter), validated on every run: emitted Lean == IR at Q (literal), IR ~ real float64 code",
    "CPython/NumPy semantics of the operations the tracer executes natively on object arrays; stand-ins with assumed contracts: np.linalg.det (Leibniz), inv (adjugate), norm (sqrt of sum of squares), np.mod (x - m*floor(x/m)), np.clip, np.allclose",
    "float64 rounding and the interior of threshold bands are explored by the monitors, not proved (DESIGN.md §6)",
]

# traced configurations the translator is known not to follow on the pinned tree (path explosion of the interpolation
# helpers / a float() escape in UnitQuaternion.interp): they have no generated model and are covered by the monitors only
EXPECTED_UNTRANSLATABLE = {'trinterp_T', 'trinterp_T_nostart', 'trinterp_R', 'UQ_interp', 'UQ_interp_shortest'}

def load_known():
    if not os.path.exists(KNOWN): return []
    return json.load(open(KNOWN)).get('findings', [])

def write_replay(pid, v):
    os.makedirs(REPLAYS, exist_ok=True)
    blob = json.dumps(v, sort_keys=True, default=str)
    h = hashlib.sha1(blob.encode()).hexdigest()[:12]
    path = os.path.join(REPLAYS, f"{pid}-{h}.json")
    with open(path, 'w') as f:
        json.dump(v, f, indent=1, default=str)
    return os.path.relpath(path, ROOT)

def main(argv=None):
    ap = argparse.ArgumentParser()
    ap.add_argument('pid')
    ap.add_argument('--tier', default=os.environ.get('VERIF_TIER', 'quick'), choices=['quick', 'thorough'])
    ap.add_argument('--replay')
    ap.add_argument('--no-lean', action='store_true', help='(development) skip lake build / audit')
    args = ap.parse_args(argv)
    pid = args.pid
    seed = int(os.environ.get('VERIF_SEED', '0') or 0)
    t0 = time.time()
    mod = importlib.import_module(f"smv.props.{pid.lower()}")
    spec = mod.SPEC

    if args.replay:
        rp = json.load(open(args.replay))
        res = mod.replay(rp)
        print(json.dumps(res, indent=1, default=str))
        if res.get('violates'):
            print(f"VIOLATION property={pid} replay={args.replay}")
            return 1
        return 0

    violations = []      # each: dict(kind, signature, what, ...)
    notes = []
    cov = dict(theorems=[], partial=list(spec.get('partial', [])), gen_drift=[], translator={},
               monitors={}, samples=[])
    obligations = 0; discharged = 0
    broken = []          # names of theorems / correspondences that no longer check

    # ---- 1. regenerate the model from the source -------------------------------------
    from smv import gen, transval
    funcs_by_group = {}
    try:
        with L.lock():
            gs, changed, report = gen.generate(write=True)
            funcs_by_group = gs
            cov['gen_drift'] = changed
            cov['translated_functions'] = sum(1 for r in report.values() if r['ok'])
            untrans = {k: v['error'] for k, v in report.items() if not v['ok']}
            cov['untranslatable'] = untrans
            unexpected = {k: v for k, v in untrans.items() if k not in EXPECTED_UNTRANSLATABLE and k not in spec.get('expected_untranslatable', ()) and (report[k]['group'] in spec.get('groups', ()) or (spec.get('flag_inconsistent') and str(v).startswith('inconsistent branching')))}
            if unexpected:
                broken.append(dict(kind='translator', what=f"translator cannot follow the code: {unexpected}"))
            for aux in spec.get('aux_translators', ()):
                ar = report.get(aux, {})
                if not ar.get('ok'):
                    broken.append(dict(kind='translator', what=f"auxiliary translator {aux} failed: {ar.get('error')}"))
                if ar.get('untranslated'):
                    broken.append(dict(kind='translator', what=f"symbolic path no longer translates: {ar['untranslated']}"))
                if ar.get('violations'):
                    cov['alias_checker_rejects'] = ar['violations'][:20]
                    for (fn, var, par) in ar['violations'][:6]:
                        broken.append(dict(kind='alias', function=fn, what=f"alias analysis: {fn} may write through `{var}` into the buffer of its parameter `{par}`"))
                cov[aux.strip('_') + '_functions'] = ar.get('paths')
            # ---- 2. lake build of the property's theorems ---------------------------------
            if not args.no_lean:
                targets = list(spec['lean_modules']) + ['SmVerif.Gen.Registry']
                ok, errs, raw, dt = L.lake_build(targets)
                cov['lake_build_s'] = round(dt, 1)
                names = []
                for m in spec['lean_modules']:
                    rel = m.replace('.', '/') + '.lean'
                    ns, _ = L.theorems_in(rel)
                    names += [(m, n) for n in ns]
                obligations = len(names)
                if not ok:
                    bad = {}
                    for e in errs:
                        th = L.theorem_at(e['file'], e['line']) if e['file'].endswith('.lean') and os.path.exists(os.path.join(L.LEAN, e['file'])) else None
                        bad.setdefault((e['file'], th), []).append(e['msg'])
                    for (f, th), msgs in bad.items():
                        broken.append(dict(kind='proof', file=f, theorem=th, what=f"{f}: {th}: {msgs[0][:200]}"))
                    discharged = 0
                else:
                    # ---- 3. audits ----------------------------------------------------
                    hits, files = L.source_audit([m.replace('.', '/') + '.lean' for m in spec['lean_modules']])
                    cov['source_audit_files'] = len(files)
                    for h in hits:
                        broken.append(dict(kind='audit', what=f"forbidden construct {h['text']!r} at {h['file']}:{h['line']}"))
                    for m in spec['lean_modules']:
                        ns = [n for (mm, n) in names if mm == m]
                        ax, missing, out = L.axiom_audit(m, ns)
                        for n in ns:
                            a = ax.get(n)
                            if a is None:
                                broken.append(dict(kind='audit', what=f"#print axioms gave nothing for {n}"))
                                continue
                            extra = [x for x in a if x not in L.ALLOWED_AXIOMS]
                            cov['theorems'].append(dict(name=n, axioms=a))
                            if extra:
                                broken.append(dict(kind='audit', what=f"{n} depends on disallowed axioms {extra}"))
                            else:
                                discharged += 1
                    if args.tier == 'thorough':
                        okc, outc = L.leanchecker(spec['lean_modules'])
                        cov['leanchecker'] = 'ok' if okc else outc[-400:]
                        if not okc:
                            broken.append(dict(kind='audit', what='leanchecker rejected the compiled modules'))
            # ---- 4. translator validation (needs the driver => inside the lock) ---------------
            fl = [f for g in spec.get('groups', ()) for f in gs.get(g, [])]
            if fl and not args.no_lean and not any(b['kind'] == 'proof' and 'Gen/' in b.get('file', '') for b in broken):
                try:
                    a = transval.check_emitter(fl, seed, n_per_func=4 if args.tier == 'quick' else 12)
                    cov['translator']['emitter_cases'] = a['cases']
                    cov['translator']['emitter_mismatches'] = len(a['mismatches'])
                    for mm in a['mismatches'][:3]:
                        broken.append(dict(kind='translator', what=f"emitted Lean differs from IR: {mm}"))
                except Exception as e:
                    broken.append(dict(kind='translator', what=f"driver failed: {str(e)[:300]}"))
            # ---- 4b. hand-model correspondence (tie T2): Lean model vs the real code on the same requests ----------
            if hasattr(mod, 'correspondence') and not args.no_lean:
                try:
                    c = mod.correspondence(args.tier, seed)
                    cov['model_correspondence'] = dict(cases=c['cases'], kinds=c['kinds'], mismatches=len(c['mismatches']))
                    for mm in c['mismatches'][:5]:
                        broken.append(dict(kind='correspondence', what=f"Lean model and implementation disagree: {json.dumps(mm, default=str)[:400]}"))
                except subprocess.TimeoutExpired:
                    raise
                except Exception as e:
                    broken.append(dict(kind='correspondence', what=f"correspondence run failed: {str(e)[-400:]}"))
        if fl:
            b = transval.check_tracer(fl, seed, n_per_func=15 if args.tier == 'quick' else 60)
            cov['translator'].update(tracer_cases=b['cases'], tracer_ok=b['ok'], tracer_boundary=b['boundary'],
                                     tracer_mismatches=len(b['mismatches']))
            for mm in b['mismatches'][:3]:
                broken.append(dict(kind='translator', what=f"IR and real code disagree: {json.dumps(mm, default=str)[:400]}"))
    except subprocess.TimeoutExpired:
        print('check infrastructure timeout', file=sys.stderr); return 2

    # ---- 5. monitors / enumerations against the real implementation --------------------------
    search = bool(broken)
    try:
        mres = mod.monitor(args.tier, seed, search=search)
    except Exception:
        traceback.print_exc()
        mres = dict(cases=0, distinct=0, violations=[], samples=[], stats={}, error=traceback.format_exc()[-800:])
        broken.append(dict(kind='monitor', what='monitor crashed: ' + mres['error'][-300:]))
    cov['monitors'] = {k: v for k, v in mres.items() if k not in ('violations', 'samples')}
    cov['samples'] = mres.get('samples', [])[:8]
    for v in mres.get('violations', []):
        v.setdefault('kind', 'impl-witness')
        violations.append(v)

    # ---- 6. verdict -------------------------------------------------------------------------
    known = [k for k in load_known() if k['property'] == pid]
    open_sigs = {k['signature']: k for k in known if k.get('status', 'open') == 'open'}
    reported = 0; known_hit = set()
    lines = []
    for v in violations:
        sig = v.get('signature')
        if sig in open_sigs:
            known_hit.add(sig); continue
        v['property'] = pid
        if broken: v['broken'] = broken
        path = write_replay(pid, v)
        lines.append(f"VIOLATION property={pid} replay={path}")
        reported += 1
        if reported >= 5: break
    if broken and reported == 0:
        v = dict(property=pid, kind='broken-proof-or-correspondence', broken=broken,
                 what='a theorem or correspondence no longer checks and the search found no failing input',
                 gen_drift=cov['gen_drift'])
        path = write_replay(pid, v)
        lines.append(f"VIOLATION property={pid} replay={path} no-failing-input-found")
        reported += 1
    for sig, k in open_sigs.items():
        state = '' if sig in known_hit else ' (not re-observed in this run)'
        print(f"KNOWN-FINDING: property={pid} {k['what']}{state}")
    for l in lines: print(l)

    ev = dict(property_id=pid, tier=args.tier, seed=seed, level='proof',
              coverage=dict(obligations=max(obligations, 1), discharged=discharged,
                            checker_cmd='lake build ' + ' '.join(spec['lean_modules']) + ' && lake env lean <#print axioms audit>',
                            trusted_base=TRUSTED, evaluations=int(mres.get('cases', 0)),
                            distinct_nontrivial=int(mres.get('distinct', 0)),
                            rule=mres.get('rule', ''), broken=broken, known_findings=sorted(known_hit), **cov),
              assumptions=spec.get('assumptions', []) + TRUSTED[3:],
              wall_s=round(time.time() - t0, 2), violations=reported)
    os.makedirs(EVID, exist_ok=True)
    with open(os.path.join(EVID, f"{pid}.json"), 'w') as f:
        json.dump(ev, f, indent=1, default=str)
    print(f"{pid} {args.tier}: obligations={obligations} discharged={discharged} broken={len(broken)} "
          f"monitor_cases={mres.get('cases', 0)} violations={reported} known={len(known_hit)} wall={ev['wall_s']}s")
    return 1 if reported else 0

if __name__ == '__main__':
    sys.exit(main())
