"""Registry of traced callables: which library functions are translated to Lean, and under
which configurations (dimension, container form, unit, order, flags).  Everything decided
by Python types / shapes / keyword options is a *configuration*; everything numeric is
symbolic.  `groups()` returns {lean module name: [Func]}.
"""
import numpy as np
from .tracer import install, Sym, NPP
from .ir import Func, Param as P

install()
import spatialmath.base as base
import spatialmath.base.quaternions as bq
import spatialmath.base.vectors as bv
import spatialmath.base.transformsNd as tN
import spatialmath.base.transforms2d as t2
import spatialmath.base.transforms3d as t3


class _Random:
    """np.random as seen by the library while tracing: `uniform` hands out the symbolic
    inputs queued by the trace configuration (the model of `rand` is a function of the
    uniform variates u ∈ [0,1))."""
    source = None
    def uniform(self, low=0, high=1, size=None):
        if _Random.source is None:
            return np.random.uniform(low=low, high=high, size=size)
        u = _Random.source
        return low + (high - low) * u
    def __getattr__(self, n): return getattr(np.random, n)
NPP.random = _Random()

def _with_random(u, f):
    import os
    if os.environ.get('SMV_NOPATCH'):
        # real-code run: make numpy hand out the given variates
        orig = np.random.uniform
        np.random.uniform = lambda low=0, high=1, size=None: low + (high - low) * np.asarray(u, dtype=float)
        try:
            return f()
        finally:
            np.random.uniform = orig
    _Random.source = u
    try:
        return f()
    finally:
        _Random.source = None


def F(name, params, call, doc=''):
    return Func(name, params, call, doc)

def quaternions():
    q, p, v, w = P('q', (4,)), P('p', (4,)), P('v', (3,)), P('w', (3,))
    L = [
        F('pure', [v], lambda v: bq.pure(v), 'base.pure'),
        F('qnorm', [q], lambda q: bq.qnorm(q), 'base.qnorm'),
        F('qunit', [q], lambda q: bq.unit(q), 'base.quaternions.unit'),
        F('qisunit', [q], lambda q: bq.isunit(q), 'base.quaternions.isunit'),
        F('qisequal', [q, p], lambda q, p: bq.isequal(q, p), 'base.isequal(unitq=False)'),
        F('qisequal_unitq', [q, p], lambda q, p: bq.isequal(q, p, unitq=True), 'base.isequal(unitq=True)'),
        F('q2v', [q], lambda q: bq.q2v(q), 'base.q2v'),
        F('v2q', [v], lambda v: bq.v2q(v), 'base.v2q'),
        F('qqmul', [q, p], lambda q, p: bq.qqmul(q, p), 'base.qqmul'),
        F('qinner', [q, p], lambda q, p: bq.inner(q, p), 'base.inner'),
        F('qvmul', [q, v], lambda q, v: bq.qvmul(q, v), 'base.qvmul'),
        F('vvmul', [v, w], lambda v, w: bq.vvmul(v, w), 'base.vvmul'),
        F('qconj', [q], lambda q: bq.conj(q), 'base.conj'),
        F('q2r', [q], lambda q: bq.q2r(q), 'base.q2r'),
        F('r2q', [P('m', (3, 3))], lambda m: bq.r2q(m), 'base.r2q(check=False)'),
        F('slerp', [q, p, P('s')], lambda q, p, s: bq.slerp(q, p, s), 'base.slerp(shortest=False)'),
        F('slerp_shortest', [q, p, P('s')], lambda q, p, s: bq.slerp(q, p, s, shortest=True), 'base.slerp(shortest=True)'),
        F('qrand', [P('u', (3,))], lambda u: _with_random(u, bq.rand), 'base.rand as a function of its three uniform variates'),
        F('qmatrix', [q], lambda q: bq.matrix(q), 'base.quaternions.matrix'),
        F('qdot', [q, w], lambda q, w: bq.dot(q, w), 'base.quaternions.dot'),
        F('qdotb', [q, w], lambda q, w: bq.dotb(q, w), 'base.quaternions.dotb'),
        F('qangle', [q, p], lambda q, p: bq.angle(q, p), 'base.quaternions.angle'),
    ]
    for n in range(-6, 7):
        nm = f"qpow_{'m' if n < 0 else ''}{abs(n)}"
        L.append(F(nm, [q], (lambda n: lambda q: bq.qpow(q, n))(n), f'base.qpow(q, {n})'))
    return L

def vectors():
    v3, u3, s6, s3 = P('v', (3,)), P('u', (3,)), P('S', (6,)), P('S', (3,))
    a, b = P('a'), P('b')
    return [
        F('colvec3', [v3], lambda v: bv.colvec(v), 'base.colvec'),
        F('unitvec3', [v3], lambda v: bv.unitvec(v), 'base.unitvec (3-vector)'),
        F('unitvec2', [P('v', (2,))], lambda v: bv.unitvec(v), 'base.unitvec (2-vector)'),
        F('unitvec_norm3', [v3], lambda v: bv.unitvec_norm(v), 'base.unitvec_norm'),
        F('norm3', [v3], lambda v: bv.norm(v), 'base.norm'),
        F('normsq3', [v3], lambda v: bv.normsq(v), 'base.normsq'),
        F('cross', [u3, v3], lambda u, v: bv.cross(u, v), 'base.cross'),
        F('isunitvec3', [v3], lambda v: bv.isunitvec(v), 'base.isunitvec'),
        F('iszerovec3', [v3], lambda v: bv.iszerovec(v), 'base.iszerovec'),
        F('iszero', [a], lambda a: bv.iszero(a), 'base.iszero'),
        F('isunittwist', [s6], lambda S: bv.isunittwist(S), 'base.isunittwist'),
        F('isunittwist2', [s3], lambda S: bv.isunittwist2(S), 'base.isunittwist2'),
        F('unittwist', [s6], lambda S: bv.unittwist(S), 'base.unittwist'),
        F('unittwist_norm', [s6], lambda S: bv.unittwist_norm(S), 'base.unittwist_norm'),
        F('unittwist2', [s3], lambda S: bv.unittwist2(S), 'base.unittwist2'),
        F('unittwist2_norm', [s3], lambda S: bv.unittwist2_norm(S), 'base.unittwist2_norm'),
        F('angdiff1', [a], lambda a: bv.angdiff(a), 'base.angdiff(a)'),
        F('angdiff2', [a, b], lambda a, b: bv.angdiff(a, b), 'base.angdiff(a, b)'),
        F('removesmall3', [v3], lambda v: bv.removesmall(v), 'base.removesmall'),
    ]

def transformsNd():
    R3, R2, T4, T3 = P('m', (3, 3)), P('m', (2, 2)), P('T', (4, 4)), P('T', (3, 3))
    t3_, t2_, th = P('t', (3,)), P('t', (2,)), P('th')
    L = [
        F('r2t_3', [R3], lambda m: tN.r2t(m), 'base.r2t 3x3'),
        F('r2t_2', [R2], lambda m: tN.r2t(m), 'base.r2t 2x2'),
        F('t2r_4', [T4], lambda T: tN.t2r(T), 'base.t2r 4x4'),
        F('t2r_3', [T3], lambda T: tN.t2r(T), 'base.t2r 3x3'),
        F('tr2rt_4', [T4], lambda T: tN.tr2rt(T), 'base.tr2rt 4x4'),
        F('tr2rt_3', [T3], lambda T: tN.tr2rt(T), 'base.tr2rt 3x3'),
        F('rt2tr_3', [R3, t3_], lambda m, t: tN.rt2tr(m, t), 'base.rt2tr 3-D'),
        F('rt2tr_2', [R2, t2_], lambda m, t: tN.rt2tr(m, t), 'base.rt2tr 2-D'),
        F('Ab2M_3', [R3, t3_], lambda m, t: tN.Ab2M(m, t), 'base.Ab2M 3-D'),
        F('Ab2M_2', [R2, t2_], lambda m, t: tN.Ab2M(m, t), 'base.Ab2M 2-D'),
        F('isR_3', [R3], lambda m: tN.isR(m), 'base.isR 3x3'),
        F('isR_2', [R2], lambda m: tN.isR(m), 'base.isR 2x2'),
        F('isskew_3', [R3], lambda m: tN.isskew(m), 'base.isskew 3x3'),
        F('isskew_2', [R2], lambda m: tN.isskew(m), 'base.isskew 2x2'),
        F('isskewa_4', [T4], lambda T: tN.isskewa(T), 'base.isskewa 4x4'),
        F('isskewa_3', [T3], lambda T: tN.isskewa(T), 'base.isskewa 3x3'),
        F('iseye_3', [R3], lambda m: tN.iseye(m), 'base.iseye 3x3'),
        F('iseye_2', [R2], lambda m: tN.iseye(m), 'base.iseye 2x2'),
        F('iseye_4', [T4], lambda T: tN.iseye(T), 'base.iseye 4x4'),
        F('skew_3', [P('v', (3,))], lambda v: tN.skew(v), 'base.skew 3-vector'),
        F('skew_1', [P('v')], lambda v: tN.skew(v), 'base.skew scalar'),
        F('vex_3', [R3], lambda m: tN.vex(m), 'base.vex 3x3'),
        F('vex_2', [R2], lambda m: tN.vex(m), 'base.vex 2x2'),
        F('skewa_6', [P('v', (6,))], lambda v: tN.skewa(v), 'base.skewa 6-vector'),
        F('skewa_3', [P('v', (3,))], lambda v: tN.skewa(v), 'base.skewa 3-vector'),
        F('vexa_4', [T4], lambda T: tN.vexa(T), 'base.vexa 4x4'),
        F('vexa_3', [T3], lambda T: tN.vexa(T), 'base.vexa 3x3'),
        F('rodrigues_3', [P('w', (3,))], lambda w: tN.rodrigues(w), 'base.rodrigues(w)'),
        F('rodrigues_3_theta', [P('w', (3,)), th], lambda w, th: tN.rodrigues(w, th), 'base.rodrigues(w, theta)'),
        F('rodrigues_1', [P('w')], lambda w: tN.rodrigues(w), 'base.rodrigues(scalar)'),
        F('rodrigues_1_theta', [P('w'), th], lambda w, th: tN.rodrigues(w, th), 'base.rodrigues(scalar, theta)'),
        F('h2e_4', [P('v', (4,))], lambda v: tN.h2e(v), 'base.h2e 4-vector'),
        F('e2h_3', [P('v', (3,))], lambda v: tN.e2h(v), 'base.e2h 3-vector'),
        F('homtrans_3', [T4, P('p', (3,))], lambda T, p: tN.homtrans(T, p), 'base.homtrans(T4, 3-vector)'),
        F('homtrans_2', [T3, P('p', (2,))], lambda T, p: tN.homtrans(T, p), 'base.homtrans(T3, 2-vector)'),
    ]
    for n in (1, 2, 3, 4):
        L.append(F(f'homtrans_3x{n}', [T4, P('p', (3, n))], lambda T, p: tN.homtrans(T, p), f'base.homtrans(T4, 3x{n})'))
    return L

_ORDERS = ['zyx', 'xyz', 'yxz', 'vehicle', 'arm', 'camera']

def transforms3d():
    th, v3, t3_, R3, T4 = P('th'), P('v', (3,)), P('t', (3,)), P('m', (3, 3)), P('T', (4, 4))
    L = []
    for ax in 'xyz':
        rot = getattr(t3, 'rot' + ax); trot = getattr(t3, 'trot' + ax)
        for unit in ('rad', 'deg'):
            L.append(F(f'rot{ax}_{unit}', [th], (lambda rot, unit: lambda th: rot(th, unit))(rot, unit), f'base.rot{ax}(theta, "{unit}")'))
            L.append(F(f'trot{ax}_{unit}', [th], (lambda trot, unit: lambda th: trot(th, unit))(trot, unit), f'base.trot{ax}(theta, "{unit}")'))
        L.append(F(f'trot{ax}_t', [th, t3_], (lambda trot: lambda th, t: trot(th, t=t))(trot), f'base.trot{ax}(theta, t=t)'))
    x, y, z = P('x'), P('y'), P('z')
    L += [
        F('transl_xyz', [x, y, z], lambda x, y, z: t3.transl(x, y, z), 'base.transl(x, y, z)'),
        F('transl_v', [v3], lambda v: t3.transl(v), 'base.transl(3-vector)'),
        F('transl_T', [T4], lambda T: t3.transl(T), 'base.transl(4x4) -> translation'),
        F('ishom', [T4], lambda T: t3.ishom(T), 'base.ishom(check=False)'),
        F('ishom_check', [T4], lambda T: t3.ishom(T, check=True), 'base.ishom(check=True)'),
        F('isrot', [R3], lambda m: t3.isrot(m), 'base.isrot(check=False)'),
        F('isrot_check', [R3], lambda m: t3.isrot(m, check=True), 'base.isrot(check=True)'),
    ]
    r, p, yw = P('r'), P('p'), P('y')
    for order in _ORDERS:
        for unit in ('rad', 'deg'):
            L.append(F(f'rpy2r_{order}_{unit}', [v3], (lambda o, u: lambda v: t3.rpy2r(v, order=o, unit=u))(order, unit), f'base.rpy2r(vector, order="{order}", unit="{unit}")'))
        L.append(F(f'rpy2r_{order}_scalars', [r, p, yw], (lambda o: lambda r, p, y: t3.rpy2r(r, p, y, order=o))(order), f'base.rpy2r(r, p, y, order="{order}")'))
        L.append(F(f'rpy2tr_{order}', [v3], (lambda o: lambda v: t3.rpy2tr(v, order=o))(order), f'base.rpy2tr(vector, order="{order}")'))
        L.append(F(f'tr2rpy_{order}', [R3], (lambda o: lambda m: t3.tr2rpy(m, order=o))(order), f'base.tr2rpy(R, order="{order}")'))
    L += [
        F('rpy2r_badorder', [v3], lambda v: t3.rpy2r(v, order='zxy'), 'base.rpy2r(order="zxy") — not a documented order'),
        F('tr2rpy_zyx_deg', [R3], lambda m: t3.tr2rpy(m, unit='deg'), 'base.tr2rpy(R, unit="deg")'),
        F('tr2rpy_zyx_T', [T4], lambda T: t3.tr2rpy(T), 'base.tr2rpy(4x4)'),
        F('tr2rpy_xyz_deg', [R3], lambda m: t3.tr2rpy(m, unit='deg', order='xyz'), 'base.tr2rpy(R, unit="deg", order="xyz")'),
        F('tr2rpy_yxz_deg', [R3], lambda m: t3.tr2rpy(m, unit='deg', order='yxz'), 'base.tr2rpy(R, unit="deg", order="yxz")'),
        F('tr2eul_T', [T4], lambda T: t3.tr2eul(T), 'base.tr2eul(4x4)'),
        F('tr2angvec_deg', [R3], lambda m: t3.tr2angvec(m, unit='deg'), 'base.tr2angvec(R, unit="deg")'),
        F('eul2r_rad', [v3], lambda v: t3.eul2r(v), 'base.eul2r(vector)'),
        F('eul2r_deg', [v3], lambda v: t3.eul2r(v, unit='deg'), 'base.eul2r(vector, unit="deg")'),
        F('eul2r_scalars', [r, p, yw], lambda a, b, c: t3.eul2r(a, b, c), 'base.eul2r(phi, theta, psi)'),
        F('eul2tr', [v3], lambda v: t3.eul2tr(v), 'base.eul2tr(vector)'),
        F('angvec2r', [th, v3], lambda th, v: t3.angvec2r(th, v), 'base.angvec2r'),
        F('angvec2r_deg', [th, v3], lambda th, v: t3.angvec2r(th, v, unit='deg'), 'base.angvec2r(unit="deg")'),
        F('angvec2tr', [th, v3], lambda th, v: t3.angvec2tr(th, v), 'base.angvec2tr'),
        F('oa2r', [P('o', (3,)), P('a', (3,))], lambda o, a: t3.oa2r(o, a), 'base.oa2r'),
        F('oa2tr', [P('o', (3,)), P('a', (3,))], lambda o, a: t3.oa2tr(o, a), 'base.oa2tr'),
        F('tr2angvec', [R3], lambda m: t3.tr2angvec(m), 'base.tr2angvec(R)'),
        F('tr2eul', [R3], lambda m: t3.tr2eul(m), 'base.tr2eul(R)'),
        F('tr2eul_flip', [R3], lambda m: t3.tr2eul(m, flip=True), 'base.tr2eul(R, flip=True)'),
        F('tr2eul_deg', [R3], lambda m: t3.tr2eul(m, unit='deg'), 'base.tr2eul(R, unit="deg")'),
        F('trlog_R', [R3], lambda m: t3.trlog(m, check=False), 'base.trlog(R, check=False)'),
        F('trlog_R_twist', [R3], lambda m: t3.trlog(m, check=False, twist=True), 'base.trlog(R, check=False, twist=True)'),
        F('trlog_T', [T4], lambda T: t3.trlog(T, check=False), 'base.trlog(T, check=False)'),
        F('trlog_T_twist', [T4], lambda T: t3.trlog(T, check=False, twist=True), 'base.trlog(T, check=False, twist=True)'),
        F('trexp_3', [v3], lambda v: t3.trexp(v), 'base.trexp(3-vector)'),
        F('trexp_3_theta', [v3, th], lambda v, th: t3.trexp(v, th), 'base.trexp(3-vector, theta)'),
        F('trexp_6', [P('S', (6,))], lambda S: t3.trexp(S), 'base.trexp(6-vector)'),
        F('trexp_6_theta', [P('S', (6,)), th], lambda S, th: t3.trexp(S, th), 'base.trexp(6-vector, theta)'),
        F('trexp_m3', [R3], lambda m: t3.trexp(m), 'base.trexp(3x3, check=True)'),
        F('trexp_m4', [T4], lambda T: t3.trexp(T), 'base.trexp(4x4, check=True)'),
        F('trnorm_R', [R3], lambda m: t3.trnorm(m), 'base.trnorm(R)'),
        F('trnorm_T', [T4], lambda T: t3.trnorm(T), 'base.trnorm(T)'),
        F('trinterp_T', [T4, P('E', (4, 4)), P('s')], lambda T, E, s: t3.trinterp(T, E, s), 'base.trinterp(T0, T1, s)'),
        F('trinterp_T_nostart', [P('E', (4, 4)), P('s')], lambda E, s: t3.trinterp(None, E, s), 'base.trinterp(None, T1, s)'),
        F('trinterp_R', [R3, P('E', (3, 3)), P('s')], lambda m, E, s: t3.trinterp(m, E, s), 'base.trinterp(R0, R1, s)'),
        F('delta2tr', [P('d', (6,))], lambda d: t3.delta2tr(d), 'base.delta2tr'),
        F('trinv', [T4], lambda T: t3.trinv(T), 'base.trinv'),
        F('tr2delta_1', [T4], lambda T: t3.tr2delta(T), 'base.tr2delta(T)'),
        F('tr2delta_2', [T4, P('E', (4, 4))], lambda T, E: t3.tr2delta(T, E), 'base.tr2delta(T0, T1)'),
        F('tr2jac', [T4], lambda T: t3.tr2jac(T), 'base.tr2jac(T)'),
        F('tr2jac_samebody', [T4], lambda T: t3.tr2jac(T, samebody=True), 'base.tr2jac(T, samebody=True)'),
        F('adjoint_4', [T4], lambda T: t3.adjoint(T), 'base.adjoint(4x4)'),
        F('adjoint_3', [R3], lambda m: t3.adjoint(m), 'base.adjoint(3x3)'),
    ]
    return L

def transforms2d():
    th, v3, t2_, R2, T3, s = P('th'), P('v', (3,)), P('t', (2,)), P('m', (2, 2)), P('T', (3, 3)), P('s')
    return [
        F('rot2_rad', [th], lambda th: t2.rot2(th), 'base.rot2'),
        F('rot2_deg', [th], lambda th: t2.rot2(th, 'deg'), 'base.rot2(unit="deg")'),
        F('trot2_rad', [th], lambda th: t2.trot2(th), 'base.trot2'),
        F('trot2_deg', [th], lambda th: t2.trot2(th, 'deg'), 'base.trot2(unit="deg")'),
        F('trot2_t', [th, t2_], lambda th, t: t2.trot2(th, t=t), 'base.trot2(t=t)'),
        F('xyt2tr', [v3], lambda v: t2.xyt2tr(v), 'base.xyt2tr'),
        F('xyt2tr_deg', [v3], lambda v: t2.xyt2tr(v, 'deg'), 'base.xyt2tr(unit="deg")'),
        F('tr2xyt', [T3], lambda T: t2.tr2xyt(T), 'base.tr2xyt'),
        F('tr2xyt_deg', [T3], lambda T: t2.tr2xyt(T, unit='deg'), 'base.tr2xyt(unit=deg)'),
        F('transl2_xy', [P('x'), P('y')], lambda x, y: t2.transl2(x, y), 'base.transl2(x, y)'),
        F('transl2_v', [t2_], lambda t: t2.transl2(t), 'base.transl2(2-vector)'),
        F('transl2_T', [T3], lambda T: t2.transl2(T), 'base.transl2(3x3) -> translation'),
        F('ishom2', [T3], lambda T: t2.ishom2(T), 'base.ishom2(check=False)'),
        F('ishom2_check', [T3], lambda T: t2.ishom2(T, check=True), 'base.ishom2(check=True)'),
        F('isrot2', [R2], lambda m: t2.isrot2(m), 'base.isrot2(check=False)'),
        F('isrot2_check', [R2], lambda m: t2.isrot2(m, check=True), 'base.isrot2(check=True)'),
        F('trinv2', [T3], lambda T: t2.trinv2(T), 'base.trinv2'),
        F('trexp2_1', [P('w')], lambda w: t2.trexp2(w), 'base.trexp2(scalar)'),
        F('trexp2_3', [v3], lambda v: t2.trexp2(v), 'base.trexp2(3-vector)'),
        F('trexp2_3_theta', [v3, th], lambda v, th: t2.trexp2(v, th), 'base.trexp2(3-vector, theta)'),
        F('trexp2_m2', [R2], lambda m: t2.trexp2(m), 'base.trexp2(2x2, check=True)'),
        F('trexp2_m3', [T3], lambda T: t2.trexp2(T), 'base.trexp2(3x3, check=True)'),
        F('trinterp2_T', [T3, P('E', (3, 3)), s], lambda T, E, s: t2.trinterp2(T, E, s), 'base.trinterp2(T0, T1, s)'),
        F('trinterp2_T_nostart', [P('E', (3, 3)), s], lambda E, s: t2.trinterp2(None, E, s), 'base.trinterp2(None, T1, s)'),
        F('trinterp2_R', [R2, P('E', (2, 2)), s], lambda m, E, s: t2.trinterp2(m, E, s), 'base.trinterp2(R0, R1, s)'),
        F('trinterp2_R_nostart', [P('E', (2, 2)), s], lambda E, s: t2.trinterp2(None, E, s), 'base.trinterp2(None, R1, s)'),
        F('trnorm2_R', [R2], lambda m: t2.trnorm2(m), 'base.trnorm2(R)'),
        F('trnorm2_T', [T3], lambda T: t2.trnorm2(T), 'base.trnorm2(T)'),
    ]

def groups():
    return {
        'Quaternions': quaternions(),
        'Vectors': vectors(),
        'TransformsNd': transformsNd(),
        'Transforms3d': transforms3d(),
        'Transforms2d': transforms2d(),
    }
