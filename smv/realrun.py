"""Run the *unpatched* library on concrete float inputs (subprocess side of translation validation).
stdin: pickle {name: [args,...]}   stdout: pickle {name: [outcome,...]}"""
import os, sys, pickle
os.environ['SMV_NOPATCH'] = '1'
import numpy as np
import warnings; warnings.filterwarnings('ignore')

def canon(v):
    if v is None: return None
    if isinstance(v, (bool, np.bool_)): return bool(v)
    if isinstance(v, (int, float, np.integer, np.floating)): return float(v)
    if isinstance(v, np.ndarray):
        if v.dtype == bool: return v.astype(bool)
        if v.dtype == object: return ('objarray', repr(v))
        if np.iscomplexobj(v): return ('complex', repr(v))
        return v.astype(float)
    if isinstance(v, (tuple, list)): return tuple(canon(x) for x in v)
    if isinstance(v, Exception): return ('exception-object', type(v).__name__)
    return ('other', type(v).__name__)

def main():
    from smv import gen
    req = pickle.load(sys.stdin.buffer)
    from smv import targets
    gs = targets.groups()
    try:
        from smv import targets_cls
        gs.update(targets_cls.groups())
    except ImportError:
        pass
    funcs = {f.name: f for fs in gs.values() for f in fs}
    out = {}
    for name, arglists in req.items():
        f = funcs[name]; res = []
        for args in arglists:
            try:
                with np.errstate(all='ignore'):
                    r = f.call(*[a.copy() if isinstance(a, np.ndarray) else a for a in args])
                res.append(('ok', canon(r)))
            except Exception as e:
                res.append(('exc', type(e).__name__))
        out[name] = res
    pickle.dump(out, sys.stdout.buffer)

if __name__ == '__main__':
    main()
