"""Python AST -> AliasIR translator (C17).

For every function / method of the library: a flow-insensitive program over variables
  assign x := rhs      rhs = (canFresh, aliasOf vars, params)       -- x may point to a new buffer, to what a var points to, or to a parameter
  write  x             -- the buffer x points to is modified in place
plus a certificate A : var -> set of origins {fresh, param i} (least fixpoint, computed here, *checked* in Lean).
Calls are expanded with per-function summaries (which parameters the result may alias; which parameters the callee
writes), computed by fixpoint over the whole library.  The Lean side (Logic/AliasIR.lean) proves: if the checker accepts
(program, A) then no execution writes a buffer that belonged to a parameter; Gen/AliasPrograms.lean is the table.
"""
import ast, os, sys

REPO = os.environ.get('SMV_REPO', '/repo')
MODULES = ['base/argcheck.py', 'base/quaternions.py', 'base/transforms2d.py', 'base/transforms3d.py', 'base/transformsNd.py',
           'base/vectors.py', 'base/symbolic.py', 'smuserlist.py', 'super_pose.py', 'pose2d.py', 'pose3d.py', 'quaternion.py',
           'twist.py', 'geom3d.py', 'spatialvector.py', 'DualQuaternion.py']

# methods documented to mutate their receiver (the only allowed writes to a parameter: parameter 0)
LIST_MUTATORS = {'append', 'extend', 'insert', 'pop', 'clear', 'reverse', 'sort', 'remove', '__setitem__', '__delitem__',
                 '__iadd__', '__imul__', '__init__', '__new__', 'arghandler'}
# receivers of these method names are written in place (Python list / ndarray / UserList API)
INPLACE_METHODS = {'append', 'extend', 'insert', 'pop', 'clear', 'reverse', 'sort', 'remove', 'fill', 'resize', 'itemset', 'put',
                   'setfield', 'setflags', 'partition', 'byteswap', 'update', 'setdefault', 'popitem', 'add', 'discard'}
# attribute / method accesses that return a view (alias) of the receiver
VIEW_ATTRS = {'T', 'A', '_A', 'data', 'real', 'imag', 'flat', 'R', 't', 'S', 'v', 'w', 's', 'vec', 'plane', 'n', 'o', 'a', 'dual'}
VIEW_METHODS = {'reshape', 'view', 'squeeze', 'ravel', 'transpose', 'swapaxes', 'diagonal', '__getitem__'}
FRESH_METHODS = {'copy', 'astype', 'flatten', 'tolist', 'tobytes', 'dot', 'sum', 'argmax', 'conj', 'conjugate'}
NP_VIEW_FUNCS = {'asarray', 'asanyarray', 'reshape', 'transpose', 'squeeze', 'ravel', 'atleast_1d', 'atleast_2d', 'broadcast_arrays', 'diagonal'}
NP_WRITERS = {'copyto': 0, 'put': 0, 'fill_diagonal': 0, 'place': 0, 'putmask': 0}   # index of the written argument

def _name_of(func):
    if isinstance(func, ast.Name): return func.id
    if isinstance(func, ast.Attribute): return func.attr
    return None

class FuncIR:
    def __init__(self, qualname, params, node, cls=None):
        self.qualname = qualname; self.params = params; self.node = node; self.cls = cls
        self.assigns = []      # (var, canFresh, [alias vars], [param idx])
        self.writes = []       # var
        self.calls = []        # (target var or None, callee key, [arg exprs as var lists])
        self.returns = []      # vars (or '<fresh>')
        self.summary = dict(fresh=True, aliases=set(), writes=set())
        self.listvars = set()
        for n in ast.walk(node):
            if isinstance(n, ast.Assign) and isinstance(n.value, (ast.List, ast.ListComp, ast.Dict, ast.DictComp)) or \
               isinstance(n, ast.Assign) and isinstance(n.value, ast.Call) and _name_of(n.value.func) in ('list', 'dict'):
                for t in n.targets:
                    if isinstance(t, ast.Name): self.listvars.add(t.id)

def star(v): return v if v.endswith('.*') else v + '.*'
def deep(vs):
    out = []
    for v in vs:
        if v not in out: out.append(v)
        if star(v) not in out: out.append(star(v))
    return out


class Builder(ast.NodeVisitor):
    """collects assignments / writes of one function body"""
    def __init__(self, fir, known):
        self.f = fir; self.known = known; self.tmp = 0

    def fresh_tmp(self):
        self.tmp += 1; return f'%t{self.tmp}'

    # ---- expressions: returns (canFresh, alias_vars) -------------------------------------------
    def expr(self, e):
        if e is None: return (True, [])
        if isinstance(e, ast.Name): return (False, [e.id])
        if isinstance(e, ast.Constant): return (True, [])
        if isinstance(e, ast.Starred):
            return self.expr(e.value)
        if isinstance(e, ast.Subscript):
            self.expr_effects(e.slice)
            b = self.expr(e.value)                         # a slice of x is a view of x; an element of a list x is in x.*
            return (b[0], deep(b[1]))
        if isinstance(e, ast.Attribute):
            b = self.expr(e.value)                         # any attribute of an object may expose its buffer or a component
            if e.attr == 'data': return b                  # the backing list of a UserList is the object itself
            return (b[0], deep(b[1]))
        if isinstance(e, (ast.BinOp, ast.UnaryOp, ast.Compare, ast.BoolOp, ast.JoinedStr, ast.FormattedValue)):
            if isinstance(e, ast.BoolOp):                  # `a or b` returns one of its operands
                fr, al = False, []
                for v in e.values:
                    f2, a2 = self.expr(v); fr = fr or f2; al += a2
                return (fr, al)
            for sub in ast.iter_child_nodes(e):
                if isinstance(sub, ast.expr): self.expr_effects(sub)
            return (True, [])                              # arithmetic allocates
        if isinstance(e, ast.IfExp):
            self.expr_effects(e.test)
            a = self.expr(e.body); b = self.expr(e.orelse)
            return (a[0] or b[0], a[1] + b[1])
        if isinstance(e, (ast.List, ast.Tuple, ast.Set)):
            al = []
            for el in e.elts: al += self.expr(el)[1]
            return self.container(al)                      # the container is new, its elements may alias
        if isinstance(e, ast.Dict):
            al = []
            for el in e.values: al += self.expr(el)[1]
            return self.container(al)
        if isinstance(e, (ast.ListComp, ast.GeneratorExp, ast.SetComp, ast.DictComp)):
            al = []
            for g in e.generators:
                it = self.expr(g.iter)
                self.bind_target(g.target, it)
                for c in g.ifs: self.expr_effects(c)
            elt = e.elt if not isinstance(e, ast.DictComp) else e.value
            al += self.expr(elt)[1]
            return self.container(al)
        if isinstance(e, ast.Lambda):
            return (True, [])
        if isinstance(e, ast.Call):
            return self.call(e)
        if isinstance(e, ast.NamedExpr):
            r = self.expr(e.value); self.bind_target(e.target, r); return r
        return (True, [])

    def container(self, al):
        """a new object whose contents may be the given variables"""
        if not al: return (True, [])
        t = self.fresh_tmp()
        self.f.assigns.append((t, True, [], []))
        self.f.assigns.append((star(t), False, deep(al), []))
        return (False, [t])

    def expr_effects(self, e):
        """evaluate for side effects only (calls inside conditions etc.)"""
        self.expr(e)

    def call(self, e):
        fn = _name_of(e.func)
        args = [self.expr(a) for a in e.args] + [self.expr(k.value) for k in e.keywords]
        recv = None
        if isinstance(e.func, ast.Attribute):
            recv = self.expr(e.func.value)
            base = e.func.value
            modbase = base.id if isinstance(base, ast.Name) else (base.attr if isinstance(base, ast.Attribute) else None)
            if modbase in ('np', 'numpy', 'math', 'scipy', 'linalg', 'sympy', 'sym', 'random', 'copy', 'plt', 'argcheck') and fn not in self.known:
                # external library call
                if fn in NP_WRITERS and len(e.args) > NP_WRITERS[fn]:
                    self.write_expr(e.args[NP_WRITERS[fn]])
                if fn in NP_VIEW_FUNCS:
                    al = []
                    for a in args: al += a[1]
                    return (True, al)
                if modbase == 'copy':
                    al = []
                    if fn == 'copy':                      # shallow copy: a new container, elements may alias
                        for a in args: al += [star(v) for v in a[1]]
                        return self.container(al)
                    return (True, [])
                return (True, [])
            if fn in INPLACE_METHODS and fn not in self.known_methods_only_library():
                self.write_expr(e.func.value)
            elif fn in INPLACE_METHODS:
                self.write_expr(e.func.value)
            if fn in FRESH_METHODS and fn not in self.known:
                return (True, [])
            if fn in VIEW_METHODS:
                return (False, recv[1]) if recv[1] else (True, [])
        if fn == 'super':
            return (False, ['self'] if 'self' in self.f.params else [])
        # library callee (function or method): record for summary expansion
        if fn in self.known:
            tgt = self.fresh_tmp()
            allargs = ([recv] if recv is not None else []) + args
            self.f.calls.append((tgt, fn, [a[1] for a in allargs], recv is not None))
            return (False, [tgt])
        if fn in ('list', 'tuple', 'dict', 'set', 'sorted', 'reversed', 'zip', 'map', 'filter', 'enumerate', 'iter'):
            al = []
            for a in args: al += [star(v) for v in a[1]]
            return self.container(al)                      # new container over the same elements
        if fn == 'next':
            al = []
            for a in args: al += [star(v) for v in a[1]]
            return (True, al)
        if fn in ('getattr',):
            return (args[0][0], args[0][1]) if args else (True, [])
        if fn in ('isinstance', 'len', 'abs', 'float', 'int', 'str', 'bool', 'range', 'type', 'print', 'all', 'any', 'sum', 'min', 'max',
                  'round', 'hasattr', 'callable', 'format', 'repr', 'id', 'ValueError', 'TypeError', 'NotImplementedError', 'namedtuple'):
            return (True, [])
        # unknown callee (class constructors of the library are in `known`; anything else: fresh result)
        if recv is not None and fn not in self.known:
            # unknown method on an object: result may expose the receiver
            return (True, recv[1])
        return (True, [])

    def known_methods_only_library(self):
        return set()

    # ---- targets ------------------------------------------------------------------------------
    def bind_target(self, t, rhs):
        if isinstance(t, ast.Name):
            self.assign_var(t.id, rhs)
        elif isinstance(t, (ast.Tuple, ast.List)):
            for el in t.elts: self.bind_target(el, rhs)
        elif isinstance(t, ast.Starred):
            self.bind_target(t.value, rhs)
        elif isinstance(t, (ast.Subscript, ast.Attribute)):
            self.write_expr(t.value)
            if isinstance(t, ast.Attribute) and t.attr == 'data':
                # binding the backing list of a UserList takes ownership of it: every later documented mutation of the object
                # (append, insert, x[i] = …) writes that list, so it must be freshly allocated — as bad as writing it here
                for v in rhs[1]:
                    if not v.endswith('.*'): self.f.writes.append(v)
            # storing a reference into an object attribute / list slot: the object's contents now include the stored
            # buffer.  Element stores into ndarrays copy values; a subscript store keeps a reference only when the target
            # is list-typed in this function (see DESIGN.md, C17 modelling assumptions).
            if isinstance(t, ast.Subscript) and not self.listy(t.value): return
            base = self.expr(t.value)
            for b in base[1]:
                self.f.assigns.append((star(b), False, deep(rhs[1]), []))

    def listy(self, e):
        if isinstance(e, ast.Attribute): return e.attr in ('data', '__dict__')
        if isinstance(e, ast.Name): return e.id in self.f.listvars
        return False

    def assign_var(self, x, rhs):
        self.f.assigns.append((x, rhs[0], list(rhs[1]), []))
        for v in rhs[1]:                                   # same object => same contents, both directions
            self.f.assigns.append((star(x), False, [star(v)], []))
            self.f.assigns.append((star(v), False, [star(x)], []))

    def write_expr(self, e):
        fr, al = self.expr(e)
        for v in al: self.f.writes.append(v)

    # ---- statements -----------------------------------------------------------------------------
    def visit_Assign(self, n):
        rhs = self.expr(n.value)
        for t in n.targets: self.bind_target(t, rhs)
    def visit_AnnAssign(self, n):
        if n.value is not None: self.bind_target(n.target, self.expr(n.value))
    def visit_AugAssign(self, n):
        self.expr_effects(n.value)
        if isinstance(n.target, ast.Name):
            # x op= y mutates x in place when x is an array / list
            self.f.writes.append(n.target.id)
        else:
            self.write_expr(n.target.value if isinstance(n.target, (ast.Subscript, ast.Attribute)) else n.target)
    def visit_Delete(self, n):
        for t in n.targets:
            if isinstance(t, (ast.Subscript, ast.Attribute)): self.write_expr(t.value)
    def visit_For(self, n):
        self.bind_target(n.target, self.expr(n.iter))
        for s in n.body + n.orelse: self.visit(s)
    def visit_With(self, n):
        for it in n.items:
            r = self.expr(it.context_expr)
            if it.optional_vars is not None: self.bind_target(it.optional_vars, r)
        for s in n.body: self.visit(s)
    def visit_Return(self, n):
        fr, al = self.expr(n.value)
        if fr: self.f.returns.append('<fresh>')
        self.f.returns += al
    def visit_Expr(self, n):
        self.expr_effects(n.value)
    def visit_If(self, n):
        self.expr_effects(n.test)
        for s in n.body + n.orelse: self.visit(s)
    def visit_While(self, n):
        self.expr_effects(n.test)
        for s in n.body + n.orelse: self.visit(s)
    def visit_Try(self, n):
        for s in n.body + n.orelse + n.finalbody: self.visit(s)
        for h in n.handlers:
            for s in h.body: self.visit(s)
    def visit_Raise(self, n):
        if n.exc is not None: self.expr_effects(n.exc)
    def visit_Assert(self, n):
        self.expr_effects(n.test)
    def visit_FunctionDef(self, n):
        pass        # nested helpers are analysed as part of their own scope only if called; ignored here
    visit_AsyncFunctionDef = visit_FunctionDef
    def visit_ClassDef(self, n):
        pass

def display(name):
    """display / plotting helpers are outside the property (they produce text or graphics, not values)"""
    n = name.lower()
    return any(k in n for k in ('plot', 'print', 'anim', 'string', 'format', 'repr', '__str__', 'color'))

def collect():
    """parse the library; returns {key: FuncIR} with key = function or method name (methods merged by name)"""
    funcs = []
    for m in MODULES:
        path = os.path.join(REPO, 'spatialmath', m)
        import warnings
        with warnings.catch_warnings():
            warnings.simplefilter('ignore')
            tree = ast.parse(open(path).read())
        mod = m[:-3].replace('/', '.')
        for node in tree.body:
            if isinstance(node, ast.FunctionDef):
                if display(node.name): continue
                funcs.append(FuncIR(f'{mod}.{node.name}', [a.arg for a in node.args.args + node.args.kwonlyargs], node))
            elif isinstance(node, ast.ClassDef):
                for sub in node.body:
                    if isinstance(sub, ast.FunctionDef):
                        if display(sub.name): continue
                        params = [a.arg for a in sub.args.args + sub.args.kwonlyargs]
                        is_static = any(isinstance(d, ast.Name) and d.id in ('staticmethod',) for d in sub.decorator_list)
                        is_cls = any(isinstance(d, ast.Name) and d.id == 'classmethod' for d in sub.decorator_list)
                        fir = FuncIR(f'{mod}.{node.name}.{sub.name}', params, sub, cls=node.name)
                        fir.is_cls = is_cls; fir.is_static = is_static
                        funcs.append(fir)
    return funcs

def short(f):
    return f.qualname.split('.')[-1]

def analyse():
    funcs = collect()
    names = {}
    for f in funcs: names.setdefault(short(f), []).append(f)
    known = set(names)
    # class constructors: calling a class name builds a new object from its arguments (may keep references)
    classes = {f.cls for f in funcs if f.cls}
    for f in funcs:
        b = Builder(f, known | classes)
        for s in f.node.body: b.visit(s)
    # ---- summaries by fixpoint --------------------------------------------------------------------
    def solve(f):
        """least fixpoint of A for function f with current summaries; returns A: var -> set(origins)"""
        A = {}
        for i, p in enumerate(f.params):
            first_fresh = (i == 0 and (short(f) in ('__init__', '__new__') or getattr(f, 'is_cls', False)))
            A[p] = {'fresh'} if first_fresh else {('param', i)}
            A[star(p)] = set() if first_fresh else {('param', i)}
        assigns = list(f.assigns)
        writes = list(f.writes)
        for (tgt, callee, argvars, has_recv) in f.calls:
            cands = names.get(callee, [])
            if callee in classes and not cands:
                cands = names.get('__init__', [])
            al = []; fresh = False
            if callee in classes:
                fresh = True                                 # a new object that may keep references to its arguments
                inner = []
                for av in argvars: inner += deep(av)
                assigns.append((star(tgt), False, inner, []))
            for c in (names.get(callee, []) if callee not in classes else []):
                sm = c.summary
                fresh = fresh or sm['fresh']
                offset = 0
                if c.cls and not has_recv and not getattr(c, 'is_static', False): offset = 1      # called as Class.method(...) / via self implicit
                for i in sm['aliases']:
                    j = i - offset
                    if 0 <= j < len(argvars): al += argvars[j]
                for i in sm['writes']:
                    j = i - offset
                    if 0 <= j < len(argvars): writes += argvars[j]
            if not names.get(callee) and callee not in classes: fresh = True
            assigns.append((tgt, fresh, al, []))
            for v in al:
                assigns.append((star(tgt), False, [star(v)], []))
                assigns.append((star(v), False, [star(tgt)], []))
        changed = True
        while changed:
            changed = False
            for (x, fr, al, ps) in assigns:
                cur = A.setdefault(x, set())
                new = set(cur)
                if fr: new.add('fresh')
                for y in al: new |= A.get(y, {'fresh'} if y not in A else set())
                for i in ps: new.add(('param', i))
                if new != cur:
                    A[x] = new; changed = True
        return A, assigns, writes
    for _ in range(12):
        changed = False
        for f in funcs:
            A, assigns, writes = solve(f)
            ret_al = set(); fresh = False
            for r in f.returns:
                if r == '<fresh>': fresh = True; continue
                for o in A.get(r, {'fresh'}) | A.get(star(r), set()):
                    if o == 'fresh': fresh = True
                    else: ret_al.add(o[1])
            if not f.returns: fresh = True
            wr = set()
            for w in writes:
                for o in A.get(w, set()):
                    if o != 'fresh': wr.add(o[1])
            new = dict(fresh=fresh, aliases=ret_al, writes=wr)
            if new != f.summary:
                f.summary = new; changed = True
        if not changed: break
    out = []
    for f in funcs:
        A, assigns, writes = solve(f)
        out.append(dict(func=f, A=A, assigns=assigns, writes=writes))
    return out

def allowed_param_writes(f):
    """the documented list-mutation methods may write their receiver (parameter 0)"""
    return {0} if short(f) in LIST_MUTATORS and f.cls else set()

def violations(an):
    v = []
    for r in an:
        f = r['func']; allow = allowed_param_writes(f)
        for w in r['writes']:
            for o in r['A'].get(w, set()):
                if o != 'fresh' and o[1] not in allow:
                    v.append((f.qualname, w, f.params[o[1]] if o[1] < len(f.params) else o[1]))
    return sorted(set(v))

# ------------------------------------------------------------------------------------------------
# Lean emission
# ------------------------------------------------------------------------------------------------

def emit(an):
    lines = ["/- GENERATED by smv/alias/astir.py from /repo — do not edit.  Alias/effect programs of every library function. -/",
             "import SmVerif.Logic.AliasIR", "", "namespace SmVerif.Gen", "open SmVerif.Logic.Alias", "",
             "set_option maxRecDepth 100000", "",
             "/-- a row: (name, allowed parameter writes, program, certificate) -/",
             "abbrev AliasRow := String × List Nat × Prog × List (Var × List Org)", ""]
    names = []
    for k, r in enumerate(an):
        f = r['func']
        vars_ = {}
        def vid(x):
            if x not in vars_: vars_[x] = len(vars_)
            return vars_[x]
        for p in f.params: vid(p)
        stm = []
        for (x, fr, al, ps) in r['assigns']:
            s_ = f".assign {vid(x)} ⟨{'true' if fr else 'false'}, [{', '.join(str(vid(y)) for y in sorted(set(al)))}], [{', '.join(map(str, ps))}]⟩"
            if s_ not in stm: stm.append(s_)
        for i, p in enumerate(f.params):
            first_fresh = (i == 0 and (short(f) in ('__init__', '__new__') or getattr(f, 'is_cls', False)))
            stm.append(f".assign {vid(p)} ⟨{'true' if first_fresh else 'false'}, [], [{'' if first_fresh else i}]⟩")
            if not first_fresh: stm.append(f".assign {vid(star(p))} ⟨false, [], [{i}]⟩")
        for w in sorted(set(r['writes'])):
            stm.append(f".write {vid(w)}")
        def org(o): return '.fresh' if o == 'fresh' else f'.param {o[1]}'
        cert = []
        for x, i in sorted(vars_.items(), key=lambda kv: kv[1]):
            os_ = sorted(r['A'].get(x, {'fresh'}), key=lambda o: (-1,) if o == 'fresh' else (o[1],))
            cert.append(f"({i}, [{', '.join(org(o) for o in os_)}])")
        allow = sorted(allowed_param_writes(f))
        lines.append(f'/-- `{f.qualname}({", ".join(f.params)})` -/')
        lines.append(f'def aliasRow{k} : AliasRow :=\n  ("{f.qualname}", [{", ".join(map(str, allow))}],\n   [{", ".join(stm)}],\n   [{", ".join(cert)}])')
        names.append(f'aliasRow{k}')
    chunks = [names[i:i + 40] for i in range(0, len(names), 40)]
    for c, ch in enumerate(chunks):
        lines.append(f"def aliasChunk{c} : List AliasRow := [{', '.join(ch)}]")
    lines.append("def aliasChunks : List (List AliasRow) := [" + ', '.join(f'aliasChunk{c}' for c in range(len(chunks))) + "]")
    lines.append("def aliasPrograms : List AliasRow := aliasChunks.flatten")
    lines += ["", "end SmVerif.Gen", ""]
    return '\n'.join(lines)

if __name__ == '__main__':
    an = analyse()
    print(len(an), 'functions;', sum(len(r['writes']) for r in an), 'write sites')
    for v in violations(an): print('VIOLATION', v)
