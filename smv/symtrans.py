"""Second translator (C16): run the REAL code on SymPy symbols — the library's symbolic path — and emit each returned
expression as a Lean term `GenSym.<name>` over the same primitives as the numeric-path model `Gen.<name>`.

Runs in a fresh, unpatched interpreter (`python -m smv.symtrans`, SMV_NOPATCH=1) and prints JSON; smv/gen.py writes
lean/SmVerif/Gen/Sym.lean from it.  The same `Func.call` closures as the numeric tracer are used, so both models are
models of the same call.
"""
import os, sys, json
from fractions import Fraction

# names of traced configurations (smv/targets*.py) whose underlying API entry is marked ':SymPy: supported'
SYM_ENTRIES = [
    'rotx_rad', 'roty_rad', 'rotz_rad', 'trotx_rad', 'troty_rad', 'trotz_rad', 'trotx_t',
    'transl_xyz', 'transl_v', 'trinv', 'trinv2', 'eul2r_rad', 'eul2r_scalars', 'eul2tr', 'delta2tr', 'tr2delta_1', 'tr2delta_2', 'tr2jac',
    'skew_3', 'skew_1', 'vex_3', 'vex_2', 'skewa_6', 'skewa_3', 'vexa_4', 'vexa_3', 'cross', 'norm3', 'normsq3',
    'qconj', 'qpow_2', 'qpow_3', 'qpow_m2', 'qpow_0',
    'SE3_Rx', 'SE3_Ry', 'SE3_Rz', 'SE3_Tx', 'SE3_inv', 'SE3_mul', 'SE3_mul_vec', 'SE3_Ad', 'SE3_Delta', 'SE3_RPY_zyx', 'SE3_Eul',
    'SE3_t', 'SO3_R', 'SE3_ctor_xyz', 'SO3_mul', 'SO3_inv', 'SE3_div',
]

def lean_of(e, names):
    """SymPy expression -> Lean term (R an ordered field, P : Prims R)"""
    import sympy as sp
    if isinstance(e, (int,)): return f"({e} : R)" if e >= 0 else f"(-({-e} : R))"
    if isinstance(e, float):
        fr = Fraction(e)
        return lean_of(sp.Rational(fr.numerator, fr.denominator), names)
    e = sp.sympify(e)
    if e.is_Symbol: return f"({names[e.name]})"
    if e is sp.pi: return "P.pi"
    if e.is_Integer:
        v = int(e); return f"({v} : R)" if v >= 0 else f"(-({-v} : R))"
    if e.is_Rational:
        return f"(({int(e.p)} : R) / ({int(e.q)} : R))" if e.p >= 0 else f"(-(({-int(e.p)} : R) / ({int(e.q)} : R)))"
    if e.is_Float:
        fr = Fraction(float(e))
        return lean_of(sp.Rational(fr.numerator, fr.denominator), names)
    if e.is_Add: return "(" + " + ".join(lean_of(a, names) for a in e.args) + ")"
    if e.is_Mul: return "(" + " * ".join(lean_of(a, names) for a in e.args) + ")"
    if e.is_Pow:
        b, x = e.args
        if x.is_Integer:
            k = int(x)
            if k >= 0: return f"({lean_of(b, names)} ^ {k})"
            return f"(({lean_of(b, names)} ^ {-k})⁻¹)"
        if x == sp.Rational(1, 2): return f"(P.sqrt {lean_of(b, names)})"
        if x == sp.Rational(-1, 2): return f"((P.sqrt {lean_of(b, names)})⁻¹)"
        raise ValueError(f'unsupported power {e}')
    if e.func is sp.sin: return f"(P.sin {lean_of(e.args[0], names)})"
    if e.func is sp.cos: return f"(P.cos {lean_of(e.args[0], names)})"
    if e.func is sp.tan: return f"(P.tan {lean_of(e.args[0], names)})"
    if e.func is sp.Abs: return f"(|{lean_of(e.args[0], names)}|)"
    raise ValueError(f'unsupported expression {e.func}')

def run():
    import warnings; warnings.filterwarnings('ignore')
    import numpy as np, sympy as sp
    sys.path.insert(0, os.environ.get('SMV_REPO', '/repo'))
    from . import targets, targets_cls
    gs = targets.groups(); gs.update(targets_cls.groups())
    by_name = {f.name: f for fs in gs.values() for f in fs}
    out = {}
    for name in SYM_ENTRIES:
        f = by_name.get(name)
        if f is None:
            out[name] = dict(ok=False, error='no such traced configuration'); continue
        names = {}; args = []
        for p in f.params:
            if len(p.shape) == 0:
                s = sp.Symbol(f'{p.name}', real=True); names[s.name] = p.name; args.append(s)
            elif len(p.shape) == 1:
                syms = [sp.Symbol(f'{p.name}_{i}', real=True) for i in range(p.shape[0])]
                for i, s in enumerate(syms): names[s.name] = f'{p.name} {i}'
                args.append(np.array(syms, dtype=object))
            else:
                syms = [[sp.Symbol(f'{p.name}_{i}_{j}', real=True) for j in range(p.shape[1])] for i in range(p.shape[0])]
                for i, r in enumerate(syms):
                    for j, s in enumerate(r): names[s.name] = f'{p.name} {i} {j}'
                args.append(np.array(syms, dtype=object))
        try:
            r = f.call(*args)
            if hasattr(r, 'data') and not isinstance(r, np.ndarray): r = r.data[0] if len(r.data) == 1 else None
            if r is None: raise ValueError('no single result')
            if isinstance(r, (tuple, list)): r = np.array(r, dtype=object)
            a = np.asarray(r, dtype=object) if not np.isscalar(r) and not isinstance(r, sp.Expr) else r
            if isinstance(a, np.ndarray):
                shape = list(a.shape)
                # structural constants must stay exact: an entry that is a Float equal to an integer is fine, anything else with
                # free symbols is translated as is
                flat = [lean_of(x, names) for x in a.flat]
            else:
                shape = []; flat = [lean_of(a, names)]
            out[name] = dict(ok=True, shape=shape, terms=flat, params=[(p.name, list(p.shape)) for p in f.params],
                             doc=(f.doc or name))
        except Exception as e:
            out[name] = dict(ok=False, error=f'{type(e).__name__}: {str(e)[:200]}')
    return out

def emit(res):
    L = ["/- GENERATED by smv/symtrans.py from /repo — do not edit.  The library's SymPy path, one definition per traced call:",
         "   the expressions the real code returned for symbolic arguments, as terms over the same primitives as SmVerif.Gen. -/",
         "import SmVerif.Basic", "", "namespace SmVerif.GenSym", "open SmVerif", "",
         "variable {R : Type} [Field R] [LinearOrder R] [IsStrictOrderedRing R]", ""]
    def ty(shape):
        if len(shape) == 0: return 'R'
        if len(shape) == 1: return f'Vec {shape[0]} R'
        return f'Mat {shape[0]} {shape[1]} R'
    def vcon(items):
        n = len(items)
        if n in (1, 2, 3, 4, 6): return f"(v{n} " + " ".join(items) + ")"
        return "![" + ", ".join(items) + "]"
    for name, r in res.items():
        if not r['ok']:
            L.append(f"-- {name}: symbolic path not translated: {r['error']}"); L.append(""); continue
        ps = ' '.join(f"({n} : {ty(s)})" for n, s in r['params'])
        sh = r['shape']; t = r['terms']
        if len(sh) == 0: body = t[0]
        elif len(sh) == 1: body = vcon(t)
        else:
            rows = [vcon(t[i * sh[1]:(i + 1) * sh[1]]) for i in range(sh[0])]
            body = vcon(rows)
        L.append(f"/-- symbolic path of {r['doc']} -/")
        L.append(f"def {name} (P : Prims R) {ps} : {ty(sh)} :=\n  {body}")
        L.append("")
    L += ["end SmVerif.GenSym", ""]
    return '\n'.join(L)

if __name__ == '__main__':
    print('@@RESULT@@' + json.dumps(run()))
