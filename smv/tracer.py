"""Symbolic executor for spatialmath-python (tie T1 of DESIGN.md).

The real library functions are *run* on symbolic scalars (`Sym`).  Every comparison of
symbolic values is a `Cond` whose truth value is taken from a branch schedule; a DFS over
schedules enumerates every data-dependent path.  One path = (list of (Cond, decision),
outcome) where outcome is ('ok', value) | ('exc', ExceptionTypeName) | ('ok', None).

No change to /repo is needed: the module globals `math` and `np` of the spatialmath
modules are rebound (in this process only) to proxies.
"""
import sys, os, math, numbers, warnings, types
from fractions import Fraction

REPO = os.environ.get('SMV_REPO', '/repo')
if REPO not in sys.path:
    sys.path.insert(0, REPO)
warnings.filterwarnings('ignore')
import numpy as np

# ------------------------------------------------------------------------------------
# expression nodes (hash-consed, constant-folded)
# ------------------------------------------------------------------------------------

class Untranslatable(Exception):
    """the code did something with a symbolic value that the tracer cannot follow"""

_TABLE = {}
_COUNTER = [0]

PRIMS1 = ('sqrt', 'sin', 'cos', 'tan', 'acos', 'asin', 'atan', 'floor')
PRIMS2 = ('atan2',)

class Sym:
    __slots__ = ('op', 'args', 'uid')

    def __new__(cls, op, *args):
        key = (op,) + tuple(a.uid if isinstance(a, Sym) else a for a in args)
        s = _TABLE.get(key)
        if s is None:
            s = object.__new__(cls)
            s.op = op; s.args = args
            _COUNTER[0] += 1; s.uid = _COUNTER[0]
            _TABLE[key] = s
        return s

    # -- lifting -----------------------------------------------------------------
    @staticmethod
    def c(o):
        if isinstance(o, Sym):
            return o
        if isinstance(o, (bool, np.bool_)):
            return Sym('const', Fraction(int(o)))
        if isinstance(o, (int, np.integer)):
            return Sym('const', Fraction(int(o)))
        if isinstance(o, Fraction):
            return Sym('const', o)
        if isinstance(o, (float, np.floating)):
            f = float(o)
            if f != f or f in (float('inf'), float('-inf')):
                raise Untranslatable('non-finite constant')
            return Sym('const', Fraction(f))
        raise TypeError(f"cannot lift {type(o)}")

    @property
    def isconst(self):
        return self.op == 'const'

    @property
    def val(self):
        return self.args[0]

    # -- arithmetic with folding -----------------------------------------------------
    def _bin(op, swap=False):
        def f(s, o):
            if isinstance(o, np.ndarray):
                return NotImplemented
            try:
                o = Sym.c(o)
            except TypeError:
                return NotImplemented
            a, b = (o, s) if swap else (s, o)
            return mk(op, a, b)
        return f
    __add__ = _bin('add'); __radd__ = _bin('add', True)
    __sub__ = _bin('sub'); __rsub__ = _bin('sub', True)
    __mul__ = _bin('mul'); __rmul__ = _bin('mul', True)
    __truediv__ = _bin('div'); __rtruediv__ = _bin('div', True)

    def __mod__(s, o):
        if isinstance(o, np.ndarray):
            return NotImplemented
        o = Sym.c(o)
        # python/numpy float modulo: x - m*floor(x/m)
        return s - o * mk('floor', s / o)

    def __neg__(s): return mk('neg', s)
    def __pos__(s): return s
    def __abs__(s): return mk('abs', s)
    def __pow__(s, n):
        if isinstance(n, Sym) and n.isconst and n.val.denominator == 1:
            n = int(n.val)
        if isinstance(n, (float, np.floating)) and float(n) == int(n):
            n = int(n)
        if isinstance(n, (float, np.floating)) and float(n) == 0.5:
            return mk('sqrt', s)
        if not isinstance(n, (int, np.integer)):
            raise Untranslatable('non-integer power')
        n = int(n)
        if n < 0:
            return mk('div', Sym.c(1), mk('pow', s, -n))
        return mk('pow', s, n)
    def sqrt(s): return mk('sqrt', s)
    def sin(s): return mk('sin', s)
    def cos(s): return mk('cos', s)
    def conjugate(s): return s
    @property
    def real(s): return s
    @property
    def imag(s): return Sym.c(0)
    def __float__(s):
        if s.isconst: return float(s.val)
        raise Untranslatable('escape to float')
    def __int__(s):
        if s.isconst and s.val.denominator == 1: return int(s.val)
        raise Untranslatable('escape to int')
    def __index__(s):
        if s.isconst and s.val.denominator == 1: return int(s.val)
        raise Untranslatable('symbolic value used as index')
    def __round__(s, n=None):
        raise Untranslatable('round')

    def _cmp(op):
        def f(s, o):
            if isinstance(o, np.ndarray):
                return NotImplemented
            if o is None:
                return op == 'ne'
            try:
                o = Sym.c(o)
            except TypeError:
                return NotImplemented
            return mkcond(op, s, o)
        return f
    __lt__ = _cmp('lt'); __le__ = _cmp('le'); __gt__ = _cmp('gt'); __ge__ = _cmp('ge')
    __eq__ = _cmp('eq'); __ne__ = _cmp('ne')
    def __hash__(s): return s.uid
    def __bool__(s):
        # `if x:` on a number means x != 0
        return bool(mkcond('ne', s, Sym.c(0)))

    def __repr__(s):
        if s.op == 'var': return s.args[0]
        if s.op == 'const':
            return str(s.val)
        if s.op == 'pi': return 'pi'
        return f"{s.op}({', '.join(map(repr, s.args))})"

numbers.Real.register(Sym)

ZERO = Sym('const', Fraction(0))
ONE = Sym('const', Fraction(1))
PI = Sym('pi')

def mk(op, *a):
    """smart constructor: constant folding and field identities that hold in every field"""
    if op in ('add', 'sub', 'mul', 'div'):
        x, y = a
        if x.isconst and y.isconst:
            if op == 'add': return Sym.c(x.val + y.val)
            if op == 'sub': return Sym.c(x.val - y.val)
            if op == 'mul': return Sym.c(x.val * y.val)
            if op == 'div':
                if y.val == 0:
                    raise ZeroDivisionError('division by zero')
                return Sym.c(x.val / y.val)
        if op == 'add':
            if x is ZERO: return y
            if y is ZERO: return x
        if op == 'sub':
            if y is ZERO: return x
            if x is ZERO: return mk('neg', y)
        if op == 'mul':
            if x is ZERO or y is ZERO: return ZERO
            if x is ONE: return y
            if y is ONE: return x
        if op == 'div':
            if y is ONE: return x
            if y.isconst and y.val == 0:
                raise ZeroDivisionError('division by zero')
        return Sym(op, x, y)
    if op == 'neg':
        (x,) = a
        if x.isconst: return Sym.c(-x.val)
        if x.op == 'neg': return x.args[0]
        return Sym('neg', x)
    if op == 'abs':
        (x,) = a
        if x.isconst: return Sym.c(abs(x.val))
        if x.op == 'abs': return x
        return Sym('abs', x)
    if op == 'pow':
        x, n = a
        if n == 0: return ONE
        if n == 1: return x
        if x.isconst: return Sym.c(x.val ** n)
        return Sym('pow', x, n)
    if op in PRIMS1:
        (x,) = a
        if x.isconst:
            v = x.val
            if op == 'sqrt':
                if v < 0: raise ValueError('math domain error')
                r = _exact_sqrt(v)
                if r is not None: return Sym.c(r)
            if op in ('sin', 'tan', 'asin', 'atan') and v == 0: return ZERO
            if op == 'cos' and v == 0: return ONE
            if op == 'acos' and v == 1: return ZERO
            if op == 'floor': return Sym.c(Fraction(math.floor(v)))
        return Sym(op, x)
    if op in PRIMS2:
        return Sym(op, *a)
    raise KeyError(op)

def _exact_sqrt(v):
    n, d = v.numerator, v.denominator
    rn, rd = math.isqrt(n), math.isqrt(d)
    if rn * rn == n and rd * rd == d:
        return Fraction(rn, rd)
    return None

# ------------------------------------------------------------------------------------
# branch conditions
# ------------------------------------------------------------------------------------

class Ctx:
    def __init__(self):
        self.sched = []; self.pos = 0; self.path = []
        self.maxdepth = 400
CTX = Ctx()

_NEG = dict(lt='ge', le='gt', gt='le', ge='lt', eq='ne', ne='eq')
_PYOP = dict(lt=lambda a, b: a < b, le=lambda a, b: a <= b, gt=lambda a, b: a > b,
             ge=lambda a, b: a >= b, eq=lambda a, b: a == b, ne=lambda a, b: a != b)

def mkcond(op, a, b):
    if a.isconst and b.isconst:
        return bool(_PYOP[op](a.val, b.val))
    if a is b:
        return op in ('le', 'ge', 'eq')
    return Cond(op, a, b)

class Cond:
    __slots__ = ('op', 'a', 'b')
    def __init__(s, op, a, b):
        s.op = op; s.a = a; s.b = b
    def key(s):
        return (s.op, s.a.uid, s.b.uid)
    def __bool__(s):
        # a condition already decided on this path is reused (also in negated form)
        k = s.key(); nk = (_NEG[s.op], s.a.uid, s.b.uid)
        for (c, d) in CTX.path:
            ck = c.key()
            if ck == k: return d
            if ck == nk: return not d
        if CTX.pos < len(CTX.sched):
            d = CTX.sched[CTX.pos]
        else:
            d = True; CTX.sched.append(d)
        CTX.pos += 1
        if CTX.pos > CTX.maxdepth:
            raise Untranslatable('path too deep')
        CTX.path.append((s, d))
        return d
    def __repr__(s): return f"{s.op}({s.a!r}, {s.b!r})"
    def __and__(s, o): return bool(s) and bool(o)
    def __rand__(s, o): return bool(o) and bool(s)
    def __or__(s, o): return bool(s) or bool(o)
    def __ror__(s, o): return bool(o) or bool(s)
    def __invert__(s): return not bool(s)
    def __eq__(s, o):
        if isinstance(o, (bool, np.bool_)): return bool(s) == bool(o)
        return NotImplemented
    __hash__ = object.__hash__

# ------------------------------------------------------------------------------------
# proxies for `math` and `numpy` as seen from the library modules
# ------------------------------------------------------------------------------------

def _anysym(a):
    if isinstance(a, Sym): return True
    if isinstance(a, np.ndarray): return a.dtype == object
    if isinstance(a, (list, tuple)): return any(_anysym(x) for x in a)
    return False

class MathProxy:
    pi = PI
    def __getattr__(self, n):
        f = getattr(math, n)
        if not callable(f):
            return f
        def w(*a):
            if any(isinstance(x, Sym) for x in a):
                if n in PRIMS1 or n in PRIMS2:
                    return mk(n, *[Sym.c(x) for x in a])
                if n == 'fabs': return abs(a[0])
                raise Untranslatable(f'math.{n} on a symbolic value')
            return f(*a)
        return w

def _objarr(a):
    o = np.empty(a.shape, dtype=object)
    for i, v in np.ndenumerate(a):
        o[i] = Sym.c(float(v))
    return o

def _leibniz_det(m):
    n = m.shape[0]
    if n == 1: return m[0, 0]
    if n == 2: return m[0, 0] * m[1, 1] - m[0, 1] * m[1, 0]
    if n == 3:
        return (m[0, 0] * (m[1, 1] * m[2, 2] - m[1, 2] * m[2, 1])
                - m[0, 1] * (m[1, 0] * m[2, 2] - m[1, 2] * m[2, 0])
                + m[0, 2] * (m[1, 0] * m[2, 1] - m[1, 1] * m[2, 0]))
    tot = Sym.c(0)
    for j in range(n):
        minor = np.delete(np.delete(m, 0, axis=0), j, axis=1)
        tot = tot + ((-1) ** j) * m[0, j] * _leibniz_det(minor)
    return tot

def _adj_inv(m):
    n = m.shape[0]
    d = _leibniz_det(m)
    out = np.empty((n, n), dtype=object)
    for i in range(n):
        for j in range(n):
            minor = np.delete(np.delete(m, j, axis=0), i, axis=1)
            out[i, j] = ((-1) ** (i + j)) * _leibniz_det(minor) / d
    return out

class LinalgProxy:
    def __getattr__(self, n): return getattr(np.linalg, n)
    def det(self, m):
        m = np.asarray(m)
        if m.dtype == object: return _leibniz_det(m)
        return np.linalg.det(m)
    def inv(self, m):
        m = np.asarray(m)
        if m.dtype == object: return _adj_inv(m)
        return np.linalg.inv(m)
    def matrix_power(self, m, n):
        m = np.asarray(m)
        if m.dtype != object: return np.linalg.matrix_power(m, n)
        k = m.shape[0]
        r = _objarr(np.eye(k))
        if n < 0:
            m = _adj_inv(m); n = -n
        for _ in range(n):
            r = r @ m
        return r
    def norm(self, x, *a, **k):
        x = np.asarray(x)
        if x.dtype == object and not a and not k:
            tot = Sym.c(0)
            for v in x.flat:
                tot = tot + v * v
            return mk('sqrt', Sym.c(tot))
        return np.linalg.norm(x, *a, **k)

class NpProxy:
    """numpy as seen by the library while tracing: allocation functions return object arrays
    so symbolic scalars can be stored where the real code stores floats."""
    def __init__(self):
        self.linalg = LinalgProxy()
        self.pi = PI
    def __getattr__(self, n): return getattr(np, n)
    def eye(self, *a, **k):
        k.pop('dtype', None); return _objarr(np.eye(*a, **k))
    def identity(self, *a, **k):
        k.pop('dtype', None); return _objarr(np.identity(*a, **k))
    def zeros(self, *a, **k):
        k.pop('dtype', None); return _objarr(np.zeros(*a, **k))
    def ones(self, *a, **k):
        k.pop('dtype', None); return _objarr(np.ones(*a, **k))
    def array(self, x, dtype=None, **k):
        if _anysym(x):
            return np.array(x, dtype=object, **k)
        return np.array(x, dtype=dtype, **k)
    def isscalar(self, x):
        return isinstance(x, Sym) or np.isscalar(x)
    def clip(self, x, lo, hi):
        if isinstance(x, Sym):
            if x < lo: return Sym.c(lo)
            if x > hi: return Sym.c(hi)
            return x
        return np.clip(x, lo, hi)
    def mod(self, x, m):
        if _anysym(x) or _anysym(m): return x % m
        return np.mod(x, m)
    def sqrt(self, x):
        if isinstance(x, Sym): return mk('sqrt', x)
        return np.sqrt(x)
    def abs(self, x):
        if isinstance(x, (list, tuple)) and _anysym(x):
            return np.array([abs(v) for v in x], dtype=object)
        return np.abs(x)
    def allclose(self, a, b, rtol=1e-5, atol=1e-8):
        a = np.asarray(a); b = np.asarray(b)
        if a.dtype != object and b.dtype != object:
            return np.allclose(a, b, rtol=rtol, atol=atol)
        a, b = np.broadcast_arrays(a, b)
        for x, y in zip(a.flat, b.flat):
            if not (abs(Sym.c(x) - Sym.c(y)) <= atol + rtol * abs(Sym.c(y))):
                return False
        return True
    def all(self, x, *a, **k):
        if isinstance(x, np.ndarray) and x.dtype == object and not a and not k:
            for v in x.flat:
                if not v: return False
            return True
        if isinstance(x, (bool, Cond)): return bool(x)
        return np.all(x, *a, **k)
    def any(self, x, *a, **k):
        if isinstance(x, np.ndarray) and x.dtype == object and not a and not k:
            for v in x.flat:
                if v: return True
            return False
        return np.any(x, *a, **k)
    def sum(self, x, *a, **k):
        if isinstance(x, np.ndarray) and x.dtype == object and not a and not k:
            tot = Sym.c(0)
            for v in x.flat: tot = tot + v
            return tot
        return np.sum(x, *a, **k)
    def argmax(self, x, *a, **k):
        x = np.asarray(x)
        if x.dtype == object and x.ndim == 1:
            best = 0
            for i in range(1, len(x)):
                if x[i] > x[best]: best = i       # numpy argmax: first maximal element
            return best
        return np.argmax(x, *a, **k)
    def where(self, c, *a):
        if isinstance(c, np.ndarray) and c.dtype == object and len(a) == 2:
            x, y = np.broadcast_arrays(np.asarray(a[0], dtype=object), np.asarray(a[1], dtype=object))
            x, y, c2 = np.broadcast_arrays(x, y, c)
            out = np.empty(c2.shape, dtype=object)
            for i, v in np.ndenumerate(c2):
                out[i] = x[i] if v else y[i]
            return out
        return np.where(c, *a)

def _objarr_argmax(self_arr):
    return NPP.argmax(self_arr)

MP = MathProxy()
NPP = NpProxy()

_PATCHED = []

def install():
    """rebind math/np inside the spatialmath modules (this process only)"""
    if _PATCHED or os.environ.get('SMV_NOPATCH'):
        return
    import spatialmath
    import spatialmath.base.argcheck as ac
    import spatialmath.base.symbolic as bs
    import spatialmath.base.vectors as bv
    import spatialmath.base.transformsNd as tN
    import spatialmath.base.transforms2d as t2
    import spatialmath.base.transforms3d as t3
    import spatialmath.base.quaternions as bq
    import spatialmath.smuserlist as sul
    import spatialmath.super_pose as sp
    import spatialmath.pose2d as p2
    import spatialmath.pose3d as p3
    import spatialmath.quaternion as qq
    import spatialmath.twist as tw
    import spatialmath.geom3d as g3
    import spatialmath.spatialvector as sv
    import spatialmath.DualQuaternion as dq
    ac._scalartypes = ac._scalartypes + (Sym,)
    sul._numtypes = sul._numtypes + (Sym,)
    for m in (ac, bs, bv, tN, t2, t3, bq, sul, sp, p2, p3, qq, tw, g3, sv, dq):
        if hasattr(m, 'math'):
            m.math = MP
        if hasattr(m, 'np'):
            m.np = NPP
        _PATCHED.append(m)

# ------------------------------------------------------------------------------------
# symbolic inputs
# ------------------------------------------------------------------------------------

def V(name):
    return Sym('var', name)

def vec(prefix, n):
    a = np.empty(n, dtype=object)
    for i in range(n):
        a[i] = V(f"{prefix} {i}")
    return a

def mat(prefix, n, m):
    a = np.empty((n, m), dtype=object)
    for i in range(n):
        for j in range(m):
            a[i, j] = V(f"{prefix} {i} {j}")
    return a

# ------------------------------------------------------------------------------------
# path exploration
# ------------------------------------------------------------------------------------

class Path:
    __slots__ = ('conds', 'kind', 'value')
    def __init__(self, conds, kind, value):
        self.conds = conds; self.kind = kind; self.value = value
    def __repr__(self):
        return f"Path({[(repr(c), d) for c, d in self.conds]} -> {self.kind} {self.value!r})"

def explore(f, maxpaths=400):
    """run f() under every branch schedule; returns list[Path] in DFS order"""
    results = []
    sched = []
    while True:
        CTX.sched = list(sched); CTX.pos = 0; CTX.path = []
        try:
            out = f()
            kind, val = 'ok', out
        except Untranslatable:
            raise
        except RecursionError:
            raise Untranslatable('recursion')
        except Exception as e:          # the library raised on this path: part of the model
            kind, val = 'exc', type(e).__name__
        results.append(Path(list(CTX.path), kind, val))
        sched = list(CTX.sched[:CTX.pos])
        while sched and sched[-1] is False:
            sched.pop()
        if not sched:
            break
        if len(results) >= maxpaths:
            raise Untranslatable(f'more than {maxpaths} paths')
        sched[-1] = False
    return results
