"""Untrusted hint generator: find polynomial multipliers c_i with  goal = Σ c_i·h_i  so that Lean's
`linear_combination` can check the identity in the kernel.  sympy is not trusted: a wrong
certificate simply fails to check.

  cert = find(goal_expr, {name: hyp_expr}, gens)   ->  "c1 * h1 + c2 * h2"   (Lean syntax) or None
where each hypothesis `name : lhs = rhs` is given as the expression lhs - rhs.
"""
import itertools, random
import sympy as sp

def lean_expr(e):
    """sympy polynomial expression -> Lean term"""
    s = sp.printing.str.StrPrinter(dict(order='none')).doprint(e)
    return s.replace('**', '^')

def try_reduced(goal, hyps, gens, order='grevlex'):
    names = list(hyps)
    G = [sp.expand(hyps[n]) for n in names]
    try:
        q, r = sp.reduced(sp.expand(goal), G, *gens, order=order)
    except Exception:
        return None
    if r != 0:
        return None
    terms = [(n, c) for n, c in zip(names, q) if c != 0]
    return terms

def find(goal, hyps, gens, tries=40, seed=0):
    goal = sp.expand(goal)
    if goal == 0:
        return ''
    names = list(hyps)
    rnd = random.Random(seed)
    orders = ['grevlex', 'lex', 'grlex']
    best = None
    for t in range(tries):
        ns = names[:] if t == 0 else rnd.sample(names, len(names))
        gs = list(gens) if t < 3 else rnd.sample(list(gens), len(gens))
        terms = try_reduced(goal, {n: hyps[n] for n in ns}, gs, orders[t % 3])
        if terms is not None:
            size = sum(len(sp.Add.make_args(c)) for _, c in terms)
            if best is None or size < best[0]:
                best = (size, terms)
            if size <= 12:
                break
    if best is None:
        return None
    return ' + '.join(f"({lean_expr(c)}) * {n}" for n, c in best[1])
