"""lake build / axiom audit / source audit, serialised by a file lock."""
import os, re, subprocess, fcntl, time, json, contextlib

ROOT = os.path.dirname(os.path.dirname(os.path.abspath(__file__)))
LEAN = os.path.join(ROOT, 'lean')
LOCKDIR = os.path.join(ROOT, '.locks')
ALLOWED_AXIOMS = {'propext', 'Classical.choice', 'Quot.sound'}

@contextlib.contextmanager
def lock(name='lean'):
    os.makedirs(LOCKDIR, exist_ok=True)
    f = open(os.path.join(LOCKDIR, name + '.lock'), 'w')
    fcntl.flock(f, fcntl.LOCK_EX)
    try:
        yield
    finally:
        fcntl.flock(f, fcntl.LOCK_UN); f.close()

def lake_build(targets, timeout=3000):
    """returns (ok, errors:[{file,line,msg}], raw)"""
    t0 = time.time()
    r = subprocess.run(['lake', 'build'] + list(targets), cwd=LEAN, capture_output=True, text=True, timeout=timeout)
    raw = r.stdout + r.stderr
    errs = []
    for m in re.finditer(r'^error: (\S+?\.lean):(\d+):(\d+): (.*)$', raw, re.M):
        errs.append(dict(file=m.group(1), line=int(m.group(2)), msg=m.group(4)[:300]))
    ok = (r.returncode == 0)
    if not ok and not errs:
        errs.append(dict(file='?', line=0, msg=raw[-600:]))
    return ok, errs, raw, time.time() - t0

def theorems_in(relpath):
    """(namespace-qualified) names of theorems declared in a Props file"""
    path = os.path.join(LEAN, relpath)
    src = open(path).read()
    ns = re.search(r'^namespace (\S+)', src, re.M).group(1)
    names = re.findall(r'^theorem (\S+)', src, re.M)
    return [(ns + '.' + n) for n in names], src

def theorem_at(relpath, line):
    """name of the theorem containing a source line (for reporting broken obligations)"""
    path = os.path.join(LEAN, relpath)
    name = None
    for i, l in enumerate(open(path), 1):
        m = re.match(r'^(?:theorem|lemma|example|def|instance)\s*(\S*)', l)
        if m: name = m.group(1) or 'example'
        if i >= line: break
    return name

_FORBIDDEN = re.compile(r'\bsorry\b|\badmit\b|^axiom\s|native_decide|bv_decide|implemented_by|\bunsafe\s|maxHeartbeats 0', re.M)

def strip_comments(src):
    src = re.sub(r'/-.*?-/', lambda m: '\n' * m.group(0).count('\n'), src, flags=re.S)
    src = re.sub(r'--.*$', '', src, flags=re.M)
    return src

def source_audit(relpaths):
    """forbidden constructs in non-comment text of the given files (and everything they import from SmVerif)"""
    hits = []
    seen = set(); todo = list(relpaths)
    while todo:
        rp = todo.pop()
        if rp in seen: continue
        seen.add(rp)
        p = os.path.join(LEAN, rp)
        if not os.path.exists(p): continue
        src = open(p).read()
        for m in re.finditer(r'^import (SmVerif\.\S+)', src, re.M):
            todo.append(m.group(1).replace('.', '/') + '.lean')
        body = strip_comments(src)
        for m in _FORBIDDEN.finditer(body):
            hits.append(dict(file=rp, line=body[:m.start()].count('\n') + 1, text=m.group(0).strip()))
    return hits, sorted(seen)

def axiom_audit(module, names):
    """#print axioms for each theorem; returns {name: [axioms]}"""
    os.makedirs(os.path.join(LEAN, '.lake', 'audit'), exist_ok=True)
    path = os.path.join(LEAN, '.lake', 'audit', module.replace('.', '_') + '.lean')
    with open(path, 'w') as f:
        f.write(f"import {module}\n")
        for n in names:
            f.write(f"#print axioms {n}\n")
    r = subprocess.run(['lake', 'env', 'lean', path], cwd=LEAN, capture_output=True, text=True, timeout=1200)
    out = r.stdout + r.stderr
    res = {}
    for m in re.finditer(r"'(\S+)' depends on axioms: \[([^\]]*)\]", out, re.S):
        res[m.group(1)] = [a.strip() for a in m.group(2).replace('\n', ' ').split(',') if a.strip()]
    for m in re.finditer(r"'(\S+)' does not depend on any axioms", out):
        res[m.group(1)] = []
    missing = [n for n in names if n not in res]
    return res, missing, out

def leanchecker(modules, timeout=3000):
    r = subprocess.run(['lake', 'env', 'leanchecker'] + list(modules), cwd=LEAN, capture_output=True, text=True, timeout=timeout)
    return r.returncode == 0, (r.stdout + r.stderr)[-2000:]
