"""C02 — group laws (float monitor)."""
import math
import numpy as np
from .common import Laws, run_subprocess, main_entry
from .. import inputs
from . import geom

SPEC = dict(
    technique='Lean 4 proof (group laws on the regenerated model) + float monitor incl. multi-valued objects and expression trees',
    lean_modules=['SmVerif.Props.C02', 'SmVerif.Props.PoseOps', 'SmVerif.Props.NegPow', 'SmVerif.Props.UQOps'],
    groups=['Poses', 'Quaternions', 'Quats', 'Transforms3d', 'Transforms2d'],
    expected_untranslatable=('trinterp_T', 'trinterp_T_nostart', 'UQ_interp', 'UQ_interp_shortest'),
    partial=['negative powers go through numpy matrix_power (LAPACK inverse): explored only; twist composition '
             'log(exp·exp) relies on C03 and is explored at 1e-7'],
    assumptions=['laws are compared at 1e-9·max(1, |t|) (1e-7 for twists) on generated inputs only'],
)

def monitor(tier, seed, search=False):
    return run_subprocess('smv.props.c02', tier, seed, search)

def replay(rp):
    r = run_subprocess('smv.props.c02', 'quick', 0, True)
    hit = [v for v in r['violations'] if v['signature'] == rp.get('signature')]
    return dict(violates=bool(hit), detail=hit[:1])

def _impl(tier, seed, search):
    import spatialmath.base as b
    from spatialmath import SO2, SE2, SO3, SE3, UnitQuaternion, Twist2, Twist3
    g = inputs.rng(seed)
    n = 120 if tier == 'quick' else 2500
    if search: n *= 3
    L = Laws('C02', rule='triples of group elements (rotation angle in [0, pi] incl. ends, translations 1e-6..1e6), exponents |n| <= 8, '
                         'random expression trees of depth <= 5; a case = one law instance on one operand tuple')
    def rot_full(g):
        ax = inputs.unit_axis(g); r = g.random()
        th = 0.0 if r < 0.1 else (math.pi if r < 0.2 else float(g.uniform(0, math.pi)))
        return inputs.rodrigues(ax, th)
    def tr(g, lo=-6, hi=6):
        v = g.normal(size=3); return v / np.linalg.norm(v) * 10.0 ** g.uniform(lo, hi)
    def mkSE3(g):
        T = np.eye(4); T[:3, :3] = rot_full(g); T[:3, 3] = tr(g); return T
    def mkSE2(g):
        T = np.eye(3); r = g.random(); th = 0.0 if r < 0.1 else (math.pi if r < 0.2 else float(g.uniform(-math.pi, math.pi)))
        T[:2, :2] = inputs.r2(th); T[:2, 2] = tr(g)[:2]; return T
    classes = [
        ('SO3', lambda: SO3(rot_full(g), check=False)), ('SE3', lambda: SE3(mkSE3(g), check=False)),
        ('SO2', lambda: SO2(mkSE2(g)[:2, :2], check=False)), ('SE2', lambda: SE2(mkSE2(g), check=False)),
    ]
    def mat(X): return np.asarray(X.A, dtype=float)
    def tscale(*Xs):
        m = 1.0
        for X in Xs:
            A = mat(X)
            if A.shape[0] == A.shape[1] and type(X).__name__ in ('SE3', 'SE2'):
                m = max(m, float(np.linalg.norm(A[:-1, -1])))
        return m
    def E_of(cname): return np.eye(dict(SO2=2, SE2=3, SO3=3, SE3=4)[cname])
    for i in range(n):
        for cname, mk in classes:
            X, Y, Z = mk(), mk(), mk()
            inp = dict(cls=cname, X=mat(X), Y=mat(Y), Z=mat(Z))
            sc3 = tscale(X, Y, Z, (X * Y) * Z)
            L.close(f'{cname}:assoc', mat((X * Y) * Z), mat(X * (Y * Z)), 1e-9, sc3, inp)
            E = type(X)()
            L.close(f'{cname}:identity', mat(E * X), mat(X), 1e-9, tscale(X), inp); L.close(f'{cname}:identity', mat(X * E), mat(X), 1e-9, tscale(X), inp)
            ok, Xi = L.noraise(f'{cname}:inv', lambda: X.inv(), inp, f'{cname}.inv()')
            if ok:
                L.close(f'{cname}:inverse', mat(X * Xi), mat(E), 1e-9, tscale(X, Xi), inp)
                L.close(f'{cname}:inverse', mat(Xi * X), mat(E), 1e-9, tscale(X, Xi), inp)
                if cname in ('SE3', 'SE2'):
                    L.close(f'{cname}:structured-inverse', mat(Xi), np.linalg.inv(mat(X)), 1e-9, tscale(X, Xi), inp)
                ok2, r2 = L.noraise(f'{cname}:inv-rev', lambda: (mat((X * Y).inv()), mat(Y.inv() * X.inv())), inp, '(X*Y).inv()')
                if ok2: L.close(f'{cname}:inv-rev', r2[0], r2[1], 1e-9, max(tscale(X, Y), float(np.max(np.abs(r2[1])))), inp)
                ok2, r2 = L.noraise(f'{cname}:div', lambda: (mat(X / Y), mat(X * Y.inv())), inp, 'X / Y')
                if ok2: L.close(f'{cname}:div', r2[0], r2[1], 1e-9, max(tscale(X, Y), float(np.max(np.abs(r2[1])))), inp)
            k = int(g.integers(-8, 9))
            def power():
                P_ = type(X)()
                for _ in range(abs(k)): P_ = P_ * X
                if k < 0: P_ = P_.inv()
                return mat(X ** k), mat(P_)
            ok, r = L.noraise(f'{cname}:pow', power, dict(inp, n=k), 'X ** n')
            if ok: L.close(f'{cname}:pow', r[0], r[1], 1e-9, max(1.0, float(np.max(np.abs(r[1])))), dict(inp, n=k))
        # multi-valued objects obey the same laws element by element (inverse, quotient, power, product)
        if i % 4 == 0:
            for cname, mk in classes:
                xs = [mk() for _ in range(3)]; ys = [mk() for _ in range(3)]
                cls = type(xs[0])
                Xs = cls([mat(x) for x in xs], check=False); Ys = cls([mat(y) for y in ys], check=False)
                inp = dict(cls=cname, X=[mat(x) for x in xs], Y=[mat(y) for y in ys])
                E = mat(cls())
                def each(law, got, want, what):
                    ok, r = L.noraise(f'{cname}:multi-{law}', got, inp, what)
                    if not ok: return
                    if not hasattr(r, 'data') or len(r.data) != len(want):
                        L.count(f'{cname}:multi-{law}'); L.fail(f'{cname}:multi-{law}:length', f'{what} on 3-valued objects has the wrong length / type', inp); return
                    for a_, w_ in zip(r.data, want):
                        L.close(f'{cname}:multi-{law}', np.asarray(a_, float), w_, 1e-9, max(1.0, float(np.max(np.abs(w_)))), inp,
                                what=f'{what} on a multi-valued object differs from the single-valued result', sig=f'{cname}:multi-{law}')
                each('inv', lambda: Xs.inv(), [np.linalg.inv(mat(x)) for x in xs], 'X.inv()')
                each('mul', lambda: Xs * Ys, [mat(x) @ mat(y) for x, y in zip(xs, ys)], 'X * Y')
                each('div', lambda: Xs / Ys, [mat(x) @ np.linalg.inv(mat(y)) for x, y in zip(xs, ys)], 'X / Y')
                each('div1', lambda: Xs / ys[0], [mat(x) @ np.linalg.inv(mat(ys[0])) for x in xs], 'X / y')
                each('rdiv1', lambda: xs[0] / Ys, [mat(xs[0]) @ np.linalg.inv(mat(y)) for y in ys], 'x / Y')
                kk = int(g.integers(-3, 4))
                each('pow', lambda: Xs ** kk, [np.linalg.matrix_power(mat(x) if kk >= 0 else np.linalg.inv(mat(x)), abs(kk)) for x in xs], f'X ** {kk}')
                ok, r = L.noraise(f'{cname}:multi-prod', lambda: mat(Xs.prod()), inp, 'X.prod()')
                if ok: L.close(f'{cname}:multi-prod', r, mat(xs[0]) @ mat(xs[1]) @ mat(xs[2]), 1e-9, max(1.0, float(np.max(np.abs(r)))), inp)
                L.close(f'{cname}:multi-inverse', [np.asarray(a_, float) @ mat(x) for a_, x in zip(Xs.inv().data, xs)] if True else None, [E] * 3, 1e-9, tscale(*xs) * 1.0, inp)
        # values produced by nested powers ((X**8)**8)**8 (drift 1e-14 .. 1e-12, far inside 1e-9) are still operands of every group operation
        if i % 10 == 0:
            for cname, mk in classes:
                X0_ = mk(); inpd = dict(cls=cname, X=mat(X0_))
                ok, P_ = L.noraise(f'{cname}:nested-power', lambda: ((X0_ ** 8) ** 8) ** 8, inpd, '((X**8)**8)**8')
                if not ok: continue
                Zd_ = mk()
                for law, f_, want_ in (('inv', lambda: mat(P_.inv()) @ mat(P_), E_of(cname)), ('P*P.inv()', lambda: mat(P_ * P_.inv()), E_of(cname)), ('Z/P', lambda: mat(Zd_ / P_) @ mat(P_), mat(Zd_)), ('(Z*P).inv()', lambda: mat((Zd_ * P_).inv()), mat(P_.inv() * Zd_.inv())),
                                       ('P**-1', lambda: mat(P_ ** -1) @ mat(P_), E_of(cname))):
                    ok, r = L.noraise(f'{cname}:drifted:{law}', f_, inpd, f'{law} on a value produced by nested powers', sig=f'{cname}:drifted:raises')
                    if ok: L.close(f'{cname}:drifted:{law}', r, want_, 1e-9, tscale(P_, Zd_) ** 2, inpd, sig=f'{cname}:drifted')
        # unit quaternions, up to sign
        a, c, d = (UnitQuaternion(inputs.unitq(g)) for _ in range(3))
        def qclose(law, x, y, inp):
            x = np.asarray(x.vec, float); y = np.asarray(y.vec, float)
            if np.dot(x, y) < 0: y = -y
            L.close(law, x, y, 1e-9, 1.0, inp)
        inp = dict(a=a.vec, b=c.vec, c=d.vec)
        qclose('UQ:assoc', (a * c) * d, a * (c * d), inp)
        qclose('UQ:identity', UnitQuaternion() * a, a, inp); qclose('UQ:identity', a * UnitQuaternion(), a, inp)
        qclose('UQ:inverse', a * a.inv(), UnitQuaternion(), inp); qclose('UQ:inverse', a.inv() * a, UnitQuaternion(), inp)
        qclose('UQ:inv-rev', (a * c).inv(), c.inv() * a.inv(), inp)
        qclose('UQ:div', a / c, a * c.inv(), inp)
        k = int(g.integers(-8, 9))
        def qpower():
            P_ = UnitQuaternion()
            for _ in range(abs(k)): P_ = P_ * a
            return a ** k, (P_.inv() if k < 0 else P_)
        ok, r = L.noraise('UQ:pow', qpower, dict(inp, n=k), 'UnitQuaternion ** n')
        if ok: qclose('UQ:pow', r[0], r[1], dict(inp, n=k))
        # class equality must see the laws too
        ok, r = L.noraise('UQ:eq', lambda: ((a * c) * d == a * (c * d)), inp, 'UnitQuaternion ==')
        if ok: L.check('UQ:eq', r is True or r == True, inp, 'associativity not recognised by ==', observed=r)
        # twists compared as the motions they generate (1e-7)
        if i % 2 == 0:
            def tw3():
                w = inputs.unit_axis(g) * float(g.uniform(0, math.pi - 1e-3)); v = tr(g, -6, 2)
                return Twist3(np.r_[v, w])
            s1, s2, s3 = tw3(), tw3(), tw3()
            inp = dict(S1=s1.S, S2=s2.S, S3=s3.S)
            def m(x): return np.asarray(x.exp().A, float)
            ok, r = L.noraise('Twist3:assoc', lambda: (m((s1 * s2) * s3), m(s1 * (s2 * s3))), inp, 'Twist3 composition')
            if ok: L.close('Twist3:assoc', r[0], r[1], 1e-7, max(1.0, geom.tmag(r[1])), inp)
            ok, r = L.noraise('Twist3:compose', lambda: (m(s1 * s2), m(s1) @ m(s2)), inp, 'Twist3 * Twist3')
            if ok: L.close('Twist3:compose', r[0], r[1], 1e-7, max(1.0, geom.tmag(r[1])), inp)
            ok, r = L.noraise('Twist3:inverse', lambda: (m(s1) @ m(s1.inv()), np.eye(4)), inp, 'Twist3.inv()')
            if ok: L.close('Twist3:inverse', r[0], r[1], 1e-7, max(1.0, geom.tmag(m(s1))), inp)
            # a translational part up to 1e6 beside a rotational part of 1e-5 .. 1e-4 (and one almost aligned with an axis): nothing is "round-off"
            for nm_, Sbig_ in (('huge v, small w', np.r_[np.array([8e5, -5e5, 3e5]) * float(g.uniform(0.1, 1.2)), np.array([4e-5, -3e-5, 3e-5]) * float(g.uniform(0.5, 2))]), ('w almost along x', np.r_[g.normal(size=3) * 1e3, 0.7, 1e-12, -3e-13])):
                sb_ = Twist3(Sbig_); inpb = dict(S=Sbig_, other=s2.S)
                ok, r = L.noraise(f'Twist3:identity({nm_})', lambda: ((sb_ * Twist3()).S, (Twist3() * sb_).S, m(sb_ * s2), m(sb_) @ m(s2), m((sb_ * s2).inv()), m(s2.inv() * sb_.inv())), inpb, 'Twist3 products with a very large translational part')
                if ok:
                    scb_ = max(1.0, float(np.linalg.norm(Sbig_[:3])))
                    L.close(f'Twist3:S*identity({nm_})', r[0], Sbig_, 1e-7, scb_, inpb, what='S * Twist3() is not S when the translational part is very large beside the rotational part', sig='Twist3:identity:scaled'); L.close(f'Twist3:identity*S({nm_})', r[1], Sbig_, 1e-7, scb_, inpb, sig='Twist3:identity:scaled')
                    L.close(f'Twist3:compose({nm_})', r[2], r[3], 1e-7, max(1.0, geom.tmag(r[3])), inpb, sig='Twist3:identity:scaled'); L.close(f'Twist3:(XY)^-1({nm_})', r[4], r[5], 1e-7, max(1.0, geom.tmag(r[5])), inpb, sig='Twist3:identity:scaled')
            ok, r = L.noraise('Twist3:identity', lambda: (m(Twist3() * s1), m(s1)), inp, 'Twist3() * S')
            if ok: L.close('Twist3:identity', r[0], r[1], 1e-7, max(1.0, geom.tmag(r[1])), inp)
            # compositions whose net rotation is tiny but not zero (1e-6 .. 1e-4 rad): nothing is dropped from the logarithm
            wt_ = inputs.unit_axis(g) * 10.0 ** g.uniform(-5.5, -4); st_ = Twist3(np.r_[inputs.unit_axis(g) * float(g.uniform(0.1, 3.0)), wt_])
            ok, r = L.noraise('Twist3:identity(tiny rotation)', lambda: ((st_ * Twist3()).S, (Twist3() * st_).S, m((st_ * s2).inv()), m(s2.inv() * st_.inv())), dict(S=st_.S), 'Twist3 products with a tiny net rotation')
            if ok:
                L.close('Twist3:S*identity(tiny rotation)', r[0], st_.S, 1e-7, max(1.0, float(np.linalg.norm(st_.S[:3]))), dict(S=st_.S), what='S * Twist3() loses a rotational part of 1e-6 .. 1e-4 rad', sig='Twist3:identity:tiny-rotation')
                L.close('Twist3:identity*S(tiny rotation)', r[1], st_.S, 1e-7, max(1.0, float(np.linalg.norm(st_.S[:3]))), dict(S=st_.S), sig='Twist3:identity:tiny-rotation')
                L.close('Twist3:(XY)^-1(tiny rotation)', r[2], r[3], 1e-7, max(1.0, geom.tmag(r[3])), dict(S=st_.S), sig='Twist3:identity:tiny-rotation')
            def tw2():
                return Twist2(np.r_[tr(g, -6, 2)[:2], float(g.uniform(-math.pi + 1e-3, math.pi - 1e-3))])
            u1, u2 = tw2(), tw2()
            inp = dict(S1=u1.S, S2=u2.S)
            def m2(x): return np.asarray(x.exp().A, float)
            ok, r = L.noraise('Twist2:compose', lambda: (m2(u1 * u2), m2(u1) @ m2(u2)), inp, 'Twist2 * Twist2')
            if ok: L.close('Twist2:compose', r[0], r[1], 1e-7, max(1.0, geom.tmag(r[1])), inp)
            # compositions whose net rotation is tiny, nearly cancels, or is a full / half turn; identity twist
            th_s = float(g.choice([10.0 ** g.uniform(-12, -3), 0.8, math.pi, math.pi / 2]))
            for ua, ub in ((Twist2(np.r_[tr(g, -3, 1)[:2], th_s]), Twist2(np.zeros(3))),
                           (Twist2(np.r_[tr(g, -3, 1)[:2], 0.8]), Twist2(np.r_[tr(g, -3, 1)[:2], -0.8 + 10.0 ** g.uniform(-9, -4)])),
                           (Twist2(np.r_[tr(g, -3, 1)[:2], math.pi]), Twist2(np.r_[tr(g, -3, 1)[:2], math.pi])),
                           (Twist2(np.r_[tr(g, -3, 1)[:2], 10.0 ** g.uniform(-10, -5)]), Twist2(np.r_[tr(g, -3, 1)[:2], 10.0 ** g.uniform(-10, -5)]))):
                inps = dict(S1=ua.S, S2=ub.S)
                ok, r = L.noraise('Twist2:compose(special)', lambda: (m2(ua * ub), m2(ua) @ m2(ub)), inps, 'Twist2 * Twist2 (small / cancelling / half-turn rotations)')
                if ok: L.close('Twist2:compose(special)', r[0], r[1], 1e-7, max(1.0, geom.tmag(r[1])), inps, what='exp(X*Y) differs from exp(X) exp(Y) for planar twists with a small or cancelling net rotation', sig='Twist2:compose:special')
            ok, r = L.noraise('Twist2:inverse', lambda: (m2(u1) @ m2(u1.inv()), np.eye(3)), inp, 'Twist2.inv()')
            if ok: L.close('Twist2:inverse', r[0], r[1], 1e-7, max(1.0, geom.tmag(m2(u1))), inp)
        # the laws on sequences: products (M x 1, 1 x M, M x M), powers and inverses of multi-valued objects are the single-valued ones, value by value
        if i % 4 == 1:
            def rep(X):
                # a representation in which values can be compared: matrix of the motion (twists: the motion they generate; quaternions: the rotation)
                nm = type(X).__name__
                if nm.startswith('Twist'): return np.asarray(X.exp().A, float)
                if nm == 'UnitQuaternion': return np.asarray(X.R, float)
                return np.asarray(X.A, float)
            mks = dict(classes)
            mks['UnitQuaternion'] = lambda: UnitQuaternion(inputs.unitq(g))
            mks['Twist3'] = lambda: Twist3(np.r_[tr(g, -3, 1), inputs.unit_axis(g) * float(g.uniform(0.1, 1.2))])
            mks['Twist2'] = lambda: Twist2(np.r_[tr(g, -3, 1)[:2], float(g.uniform(-1.2, 1.2))])
            for cname, mk in mks.items():
                M_ = int(g.integers(2, 5)); xs = [mk() for _ in range(M_)]; ys = [mk() for _ in range(M_)]; y1 = mk()
                cls_ = type(y1); Xm = cls_([x_ for x_ in xs]) if cname not in ('UnitQuaternion',) else UnitQuaternion([x_.vec for x_ in xs])
                Ym = cls_([y_ for y_ in ys]) if cname not in ('UnitQuaternion',) else UnitQuaternion([y_.vec for y_ in ys])
                tol_ = 1e-7 if cname.startswith('Twist') else 1e-9
                forms = [('M*1', lambda: Xm * y1, [x_ * y1 for x_ in xs]), ('1*M', lambda: y1 * Xm, [y1 * x_ for x_ in xs]), ('M*M', lambda: Xm * Ym, [x_ * y_ for x_, y_ in zip(xs, ys)]),
                         ('inv', lambda: Xm.inv(), [x_.inv() for x_ in xs])]
                if not cname.startswith('Twist'):
                    for n_ in (2, 3, -1, -2, 0): forms.append((f'**{n_}', (lambda n_: lambda: Xm ** n_)(n_), [x_ ** n_ for x_ in xs]))
                    forms.append(('M/1', lambda: Xm / y1, [x_ / y1 for x_ in xs])); forms.append(('1/M', lambda: y1 / Xm, [y1 / x_ for x_ in xs]))
                for fn_, call_, want_ in forms:
                    inp_ = dict(cls=cname, form=fn_, M=M_)
                    ok, r = L.noraise(f'{cname}[M]:{fn_}', call_, inp_, f'multi-valued {cname} {fn_}', sig=f'multi:{cname}:{fn_}:raises')
                    if not ok: continue
                    L.check(f'{cname}[M]:{fn_}:len', len(r) == M_, inp_, f'multi-valued {cname} {fn_} returned {len(r)} values for {M_}', sig=f'multi:{cname}:{fn_}')
                    if len(r) == M_:
                        for k_ in range(M_):
                            w_ = rep(want_[k_]); L.close(f'{cname}[M]:{fn_}', rep(r[k_]), w_, tol_, max(1.0, geom.tmag(w_) if w_.shape[0] > 2 and cname in ('SE2', 'SE3', 'Twist2', 'Twist3') else 1.0),
                                                         dict(inp_, k=k_), what=f'value {k_} of multi-valued {cname} {fn_} differs from the single-valued result', sig=f'multi:{cname}:{fn_}')
        # the base-package inverses are inverses (called directly, not through the classes)
        if i % 3 == 1:
            import spatialmath.base as b_
            T3_ = mkSE3(g); T2_ = mkSE2(g)
            for nm_, f_, T_ in (('trinv', b_.trinv, T3_), ('trinv2', b_.trinv2, T2_)):
                ok, r = L.noraise(nm_, lambda: np.asarray(f_(T_), float), dict(T=T_), f'base.{nm_}(T)')
                if ok:
                    sc_ = max(1.0, float(np.linalg.norm(T_[:-1, -1])))
                    L.close(f'{nm_}:left', r @ T_, np.eye(T_.shape[0]), 1e-9, sc_ ** 2 if sc_ < 1e3 else sc_ * 1e3, dict(T=T_), what=f'base.{nm_}(T) @ T is not the identity', sig=f'base.{nm_}')
                    L.close(f'{nm_}:value', r, np.linalg.inv(T_), 1e-9, sc_, dict(T=T_), sig=f'base.{nm_}')
        # twist compositions whose net rotation is exactly a half turn (the end of the logarithm's range), general axes
        if i % 10 == 3:
            axh = inputs.unit_axis(g) if g.random() < 0.3 else (lambda v_: v_ / np.linalg.norm(v_))(g.normal(size=3))
            th1 = float(g.uniform(0.2, math.pi - 0.2))
            for sa, sb in ((Twist3(np.r_[tr(g, -3, 1), axh * math.pi]), Twist3()), (Twist3(np.r_[tr(g, -3, 1), axh * th1]), Twist3(np.r_[tr(g, -3, 1), axh * (math.pi - th1)])),
                           (Twist3(), Twist3(np.r_[0, 0, 0, axh * math.pi]))):
                inph = dict(S1=sa.S, S2=sb.S)
                ok, r = L.noraise('Twist3:compose(half turn)', lambda: (np.asarray((sa * sb).exp().A, float), np.asarray(sa.exp().A, float) @ np.asarray(sb.exp().A, float)), inph, 'Twist3 * Twist3 with a net half turn')
                if ok: L.close('Twist3:compose(half turn)', r[0], r[1], 1e-7, max(1.0, geom.tmag(r[1])), inph, what='exp(X*Y) differs from exp(X) exp(Y) when the net rotation is a half turn', sig='Twist3:compose')
        # random expression trees evaluated by the class operators vs plain numpy
        if i % 3 == 0:
            for cname, mk in classes:
                def tree(d):
                    r = g.random()
                    if d == 0 or r < 0.2:
                        X = mk(); return X, mat(X)
                    if r < 0.5:
                        (a1, m1), (a2, m2_) = tree(d - 1), tree(d - 1); return a1 * a2, m1 @ m2_
                    if r < 0.7:
                        (a1, m1), (a2, m2_) = tree(d - 1), tree(d - 1); return a1 / a2, m1 @ np.linalg.inv(m2_)
                    if r < 0.85:
                        a1, m1 = tree(d - 1); return a1.inv(), np.linalg.inv(m1)
                    k = int(g.integers(-3, 4)); a1, m1 = tree(d - 1)
                    return a1 ** k, np.linalg.matrix_power(m1, k)
                depth = int(g.integers(1, 6))
                ok, r = L.noraise(f'{cname}:expr', lambda: tree(depth), dict(cls=cname, depth=depth), 'expression tree')
                if ok: L.close(f'{cname}:expr', mat(r[0]), r[1], 1e-9, max(1.0, float(np.max(np.abs(r[1])))), dict(cls=cname, depth=depth))
    return L.result()

if __name__ == '__main__':
    main_entry(_impl)
