"""C06 — applying a pose to points is p -> R p + t (float monitor)."""
import math
import numpy as np
from .common import Laws, run_subprocess, main_entry
from .. import inputs
from . import geom

SPEC = dict(
    technique='Lean 4 proof (pose·point = R p + t in every call form; regenerated model) + float monitor',
    lean_modules=['SmVerif.Props.C06', 'SmVerif.Props.Structure'],
    groups=['Poses', 'Quaternions', 'Quats', 'TransformsNd'],
    expected_untranslatable=('UQ_interp', 'UQ_interp_shortest'),
    partial=['traced N = 1..4 columns and 1-/2-valued poses are instances of one column-wise specification; other N and '
             'object lengths are explored'],
    assumptions=['results are compared at 1e-9 relative to the data magnitude on generated inputs only'],
)

def monitor(tier, seed, search=False):
    return run_subprocess('smv.props.c06', tier, seed, search)

def replay(rp):
    r = run_subprocess('smv.props.c06', 'quick', 0, True)
    hit = [v for v in r['violations'] if v['signature'] == rp.get('signature')]
    return dict(violates=bool(hit), detail=hit[:1])

def _impl(tier, seed, search):
    import spatialmath.base as b
    from spatialmath import SO2, SE2, SO3, SE3, UnitQuaternion
    from spatialmath.DualQuaternion import UnitDualQuaternion
    g = inputs.rng(seed)
    n = 150 if tier == 'quick' else 3000
    if search: n *= 3
    TOL = 1e-9
    L = Laws('C06', rule='poses over the whole group, points with coordinates 1e-6..1e6, point given as list/tuple/1-D/row/column/dxN (N=1..7 incl. N=d), '
                         'pose objects holding 1..5 values, 2-D and 3-D; a case = one returned point array compared with R p + t')
    def pts(d, N):
        return g.normal(size=(d, N)) * 10.0 ** g.uniform(-6, 6, size=(1, N))
    for i in range(n):
        for d, mkR, mkT in ((3, lambda: inputs.so3(g), lambda: inputs.se3(g)), (2, lambda: inputs.so2(g), lambda: inputs.se2(g))):
            SOc, SEc = (SO3, SE3) if d == 3 else (SO2, SE2)
            R = mkR(); T = mkT()
            # special poses: translations with exactly zero components, pure translations, pure rotations
            r_ = g.random()
            if r_ < 0.15: T[int(g.integers(0, d)), d] = 0.0
            elif r_ < 0.22: T[:d, d] = 0.0; T[int(g.integers(0, d)), d] = float(g.normal())
            elif r_ < 0.27: T[:d, :d] = np.eye(d)
            elif r_ < 0.32: T[:d, d] = 0.0
            Rt, tt = T[:d, :d], T[:d, d]
            p = pts(d, 1)[:, 0]
            scale = max(float(np.max(np.abs(p))), float(np.max(np.abs(tt))), 1e-300)
            forms = dict(list=list(p), tuple=tuple(p), array=p.copy(), row=p.reshape(1, d), col=p.reshape(d, 1))
            for fname, pv in forms.items():
                if fname == 'row' : 
                    # a (1,d) array: documented as a vector form for poses? isvector accepts (1,d)
                    pass
                inp = dict(dim=d, form=fname, p=p, T=T)
                ok, r = L.noraise(f'SE{d}*p[{fname}]', lambda: SEc(T, check=False) * pv, inp, f'SE{d} * point given as {fname}')
                if ok and r is not None: L.close(f'SE{d}*p', np.asarray(r, float).flatten(), Rt @ p + tt, TOL, scale, inp, sig=f'SE{d}*p[{fname}]')
                elif ok: L.check(f'SE{d}*p', False, inp, f'SE{d} * point ({fname}) returned None', sig=f'SE{d}*p[{fname}]:none')
                inp = dict(dim=d, form=fname, p=p, R=R)
                ok, r = L.noraise(f'SO{d}*p[{fname}]', lambda: SOc(R, check=False) * pv, inp, f'SO{d} * point given as {fname}')
                if ok and r is not None: L.close(f'SO{d}*p', np.asarray(r, float).flatten(), R @ p, TOL, float(np.max(np.abs(p))), inp, sig=f'SO{d}*p[{fname}]')
            # d x N arrays, N = 1..7
            N = int(g.integers(1, 8)); Pn = pts(d, N)
            if i % 5 == 0: Pn = g.integers(-9, 10, size=(d, N))          # integer-dtype point arrays are points too
            inp = dict(dim=d, N=N, P=Pn, T=T)
            scN = max(float(np.max(np.abs(Pn))), float(np.max(np.abs(tt))))
            ok, r = L.noraise(f'SE{d}*P[N={N}]', lambda: SEc(T, check=False) * Pn, inp, f'SE{d} * {d}x{N} array')
            if ok:
                cols = np.stack([(SEc(T, check=False) * Pn[:, k]).flatten() for k in range(N)], axis=1)
                L.close(f'SE{d}*dxN', r, Rt @ Pn + tt.reshape(d, 1), TOL, scN, inp, sig=f'SE{d}*dxN[N={"d" if N == d else "other"}]')
                L.close(f'SE{d}*dxN=columns', r, cols, TOL, scN, inp)
            ok, r = L.noraise(f'SO{d}*P[N={N}]', lambda: SOc(R, check=False) * Pn, dict(dim=d, N=N, P=Pn, R=R), f'SO{d} * {d}x{N} array')
            if ok: L.close(f'SO{d}*dxN', r, R @ Pn, TOL, float(np.max(np.abs(Pn))), dict(dim=d, N=N, P=Pn, R=R), sig=f'SO{d}*dxN[N={"d" if N == d else "other"}]')
            # laws
            T2 = mkT(); X, Y = SEc(T, check=False), SEc(T2, check=False)
            sc2 = max(scale, geom.tmag(T2), geom.tmag(T @ T2))
            L.close(f'SE{d}:(X*Y)*p', ((X * Y) * p).flatten(), (X * (Y * p).flatten()).flatten(), TOL, sc2, dict(X=T, Y=T2, p=p))
            L.close(f'SE{d}:inv(X)*(X*p)', (X.inv() * (X * p).flatten()).flatten(), p, TOL, scale, dict(X=T, p=p))
            q = pts(d, 1)[:, 0] * (np.linalg.norm(p) / max(np.linalg.norm(pts(d, 1)[:, 0]), 1e-300))
            q = p + g.normal(size=d) * max(float(np.max(np.abs(p))), 1e-300)
            L.close(f'SE{d}:distance', float(np.linalg.norm((X * p).flatten() - (X * q).flatten())), float(np.linalg.norm(p - q)), TOL, max(scale, float(np.max(np.abs(q)))), dict(X=T, p=p, q=q))
            # multi-valued pose * one point
            M = int(g.integers(2, 6)); Ts = [mkT() for _ in range(M)]
            ok, r = L.noraise(f'SE{d}[M]*p', lambda: SEc(Ts, check=False) * p, dict(dim=d, M=M, p=p), f'{M}-valued SE{d} * point')
            if ok:
                ref = np.stack([Tk[:d, :d] @ p + Tk[:d, d] for Tk in Ts], axis=1)
                L.close(f'SE{d}[M]*p', r, ref, TOL, max(scale, max(geom.tmag(Tk) for Tk in Ts)), dict(dim=d, M=M, p=p, Ts=Ts))
            Rs = [mkR() for _ in range(M)]
            ok, r = L.noraise(f'SO{d}[M]*p', lambda: SOc(Rs, check=False) * p, dict(dim=d, M=M, p=p), f'{M}-valued SO{d} * point')
            if ok: L.close(f'SO{d}[M]*p', r, np.stack([Rk @ p for Rk in Rs], axis=1), TOL, float(np.max(np.abs(p))), dict(dim=d, M=M, p=p, Rs=Rs))
        # translations of 1e-9 .. 1e-8 acting on micrometre-sized points: one point (every form) and the same point as a column of a d x N call
        tt6 = g.normal(size=3) * 10.0 ** g.uniform(-9, -8); pp6 = g.normal(size=3) * 10.0 ** g.uniform(-6.5, -5.5); R6 = inputs.so3(g); T6s = np.eye(4); T6s[:3, :3] = R6; T6s[:3, 3] = tt6
        want66 = R6 @ pp6 + tt6; X6s = SE3(T6s, check=False)
        for fm_, pf_ in (('list', list(pp6)), ('tuple', tuple(pp6)), ('array', pp6), ('column', pp6.reshape(3, 1)), ('3xN', np.stack([pp6, 2 * pp6], axis=1))):
            ok, r = L.noraise(f'SE3(small t)*p[{fm_}]', lambda: np.asarray(X6s * pf_, float), dict(T=T6s, p=pp6, form=fm_), 'SE3 with a tiny translation times a small point')
            if ok: L.close(f'SE3(small t)*p[{fm_}]', r.reshape(3, -1)[:, 0], want66, TOL, float(np.max(np.abs(pp6))), dict(T=T6s, p=pp6, form=fm_), what='a translation of order 1e-9 is lost when a single small point is transformed', sig='small-translation')
        T62 = np.eye(3); T62[:2, :2] = inputs.so2(g); T62[:2, 2] = tt6[:2]
        ok, r = L.noraise('SE2(small t)*p', lambda: np.asarray(SE2(T62, check=False) * list(pp6[:2]), float).flatten(), dict(T=T62, p=pp6[:2]), 'SE2 with a tiny translation times a small point')
        if ok: L.close('SE2(small t)*p', r, T62[:2, :2] @ pp6[:2] + tt6[:2], TOL, float(np.max(np.abs(pp6))), dict(T=T62, p=pp6[:2]), sig='small-translation')
        # small-scale data: micrometre-sized points under rotations by tiny angles (an image coordinate of order 1e-14 is still data, relative to 1e-6)
        sc6 = 10.0 ** g.uniform(-7, -5); ang6 = 10.0 ** g.uniform(-9, -7) * float(g.choice([-1, 1]))
        p6 = np.array([sc6, 0.0, sc6]); want6 = np.array([sc6 * math.cos(ang6), sc6 * math.sin(ang6), sc6])
        for nm_, f_, w_ in (('SO3.Rz*p(small)', lambda: SO3.Rz(ang6) * p6, want6), ('SE3.Rz*p(small)', lambda: SE3.Rz(ang6) * p6, want6),
                            ('SO2*p(small)', lambda: SO2(ang6) * p6[:2], want6[:2]), ('SE2*p(small)', lambda: SE2(0, 0, ang6) * p6[:2], want6[:2])):
            ok, r = L.noraise(nm_, f_, dict(p=p6, angle=ang6), nm_)
            if ok: L.close(nm_, np.asarray(r, float).flatten(), w_, TOL, sc6, dict(p=p6, angle=ang6), what='pose * point differs from R p relative to the magnitude of the (micrometre-scale) data', sig='small-scale-point')
        ok, r = L.noraise('SO3*p vs column(small)', lambda: (np.asarray(SO3.Rz(ang6) * p6, float).flatten(), np.asarray(SO3.Rz(ang6) * np.stack([p6, 2 * p6], axis=1), float)[:, 0]), dict(p=p6, angle=ang6), 'single point vs column of a 3xN call')
        if ok: L.close('SO3*p = column of SO3*[p ..](small)', r[0], r[1], TOL, sc6, dict(p=p6, angle=ang6), sig='small-scale-point')
        # inverse undoes the action value by value on sequences (three different values), every pose class
        if i % 3 == 1:
            for cn_, cls_, mk_, d_ in (('SO2', SO2, lambda: inputs.so2(g), 2), ('SE2', SE2, lambda: inputs.se2(g, 1), 2), ('SO3', SO3, lambda: inputs.so3(g), 3), ('SE3', SE3, lambda: inputs.se3(g, 1), 3)):
                Ms_ = [mk_() for _ in range(3)]; pm_ = g.normal(size=d_)
                def seq_inv():
                    Xs_ = cls_(Ms_, check=False); Xi_ = Xs_.inv()
                    return [np.asarray(Xi_[k_] * np.asarray(Xs_[k_] * pm_, float).flatten(), float).flatten() for k_ in range(3)], [np.asarray(a_, float) for a_ in Xi_.data]
                ok, r = L.noraise(f'{cn_}[M].inv', seq_inv, dict(cls=cn_), f'inverse of a 3-valued {cn_} applied to the images')
                if ok:
                    for k_ in range(3):
                        L.close(f'{cn_}[M]:inv(X)[k]*(X[k]*p)', r[0][k_], pm_, TOL, max(1.0, float(np.max(np.abs(pm_))), geom.tmag(Ms_[k_]) if cn_.startswith('SE') else 1.0), dict(cls=cn_, k=k_),
                                what='element k of the inverse of a sequence does not undo element k', sig='seq-inverse')
                        L.close(f'{cn_}[M]:inv value', r[1][k_], np.linalg.inv(Ms_[k_]), TOL, max(1.0, geom.tmag(Ms_[k_]) if cn_.startswith('SE') else 1.0), dict(cls=cn_, k=k_), sig='seq-inverse')
        # orientation (handedness) preserved in 3-D
        T = inputs.se3(g, 2); X = SE3(T, check=False)
        a, c, e, o = (g.normal(size=3) for _ in range(4))
        def img(v): return (X * v).flatten()
        vol0 = float(np.dot(np.cross(a - o, c - o), e - o)); vol1 = float(np.dot(np.cross(img(a) - img(o), img(c) - img(o)), img(e) - img(o)))
        L.close('SE3:handedness', vol1, vol0, 1e-9, max(1.0, abs(vol0)) * max(1.0, geom.tmag(T)) ** 1, dict(T=T))
        # routes agree: matrix, unit quaternion, unit dual quaternion, homtrans.  Every representation is
        # built independently from the same (axis, angle, translation) so no conversion error is charged here.
        ax = inputs.unit_axis(g); th = inputs.angle(g)
        R = inputs.rodrigues(ax, th); qv = np.r_[math.cos(th / 2), math.sin(th / 2) * ax]
        t = inputs.translation(g, -6, 3); p = pts(3, 1)[:, 0]
        scale = max(float(np.max(np.abs(p))), float(np.max(np.abs(t))), 1e-300)
        Tm = np.eye(4); Tm[:3, :3] = R; Tm[:3, 3] = t
        ref = R @ p
        from spatialmath import Quaternion
        # unit quaternions built from data given to 3 - 4 digits ([0.707, 0.707, 0, 0] ...): normalised exactly, so lengths are preserved to 1e-9
        if i < 6:
            qd_ = np.array([(0.707, 0.707, 0, 0), (0.924, 0, 0.383, 0), (0.5, 0.5, 0.5, 0.5003), (0.8, 0, 0, 0.6001), (0.99995, 0.01, 0, 0), (0.7071, 0, 0.7071, 0)][i], float); pd_ = np.array([3.0, -4.0, 12.0])
            ok, r = L.noraise('UQ(3-digit data)*p', lambda: (np.asarray(UnitQuaternion(qd_) * pd_, float).flatten(), np.asarray(UnitQuaternion(qd_).vec, float)), dict(q=qd_, p=pd_), 'UnitQuaternion(rounded data) * point')
            if ok:
                L.close('UQ(3-digit data):unit', float(np.linalg.norm(r[1])), 1.0, TOL, 1.0, dict(q=qd_), what='a UnitQuaternion built from rounded components is not of unit norm to 1e-9', sig='UQ:rounded-data'); L.close('UQ(3-digit data)*p:length', float(np.linalg.norm(r[0])), 13.0, TOL, 13.0, dict(q=qd_, p=pd_), what='rotating a point by a UnitQuaternion built from rounded components changes its length', sig='UQ:rounded-data')
                L.close('UQ(3-digit data)*p', r[0], b.q2r(qd_ / np.linalg.norm(qd_)) @ pd_, TOL, 13.0, dict(q=qd_, p=pd_), sig='UQ:rounded-data')
        # half turns about fixed general axes (trace + 1 rounds to either side of zero), built two ways, entering the quaternion routes
        if i < 40:
            ah_ = np.array([(1, 2, 3), (1, 1, 0), (2, -1, 2), (3, 4, 12), (1, -4, 8), (2, 3, 6), (-1, 2, 2), (1, 1, 1), (4, 3, 1), (1, 0, 1)][i % 10], float); ah_ = ah_ / np.linalg.norm(ah_)
            Rh_ = (2 * np.outer(ah_, ah_) - np.eye(3)) if i < 10 else b.angvec2r(math.pi * (1 if i < 20 else -1) + (0.0 if i < 30 else 1e-9), ah_)
            ph_ = np.array([1.0, -2.0, 0.5]); th_ = np.array([0.3, -0.2, 0.5]); Th_ = np.eye(4); Th_[:3, :3] = Rh_; Th_[:3, 3] = th_
            from spatialmath.DualQuaternion import UnitDualQuaternion as UDQ_
            for nm_, call_, want_ in (('UQ(R)*p', lambda: UnitQuaternion(Rh_) * ph_, Rh_ @ ph_), ('UQ(SO3)*p', lambda: UnitQuaternion(SO3(Rh_, check=False)) * ph_, Rh_ @ ph_), ('UDQ(SE3)*p', lambda: UDQ_(SE3(Th_, check=False)) * ph_, Rh_ @ ph_ + th_)):
                ok, r = L.noraise(f'{nm_}(half turn)', call_, dict(R=Rh_, axis=ah_, p=ph_), f'{nm_} for a half turn about a general axis', sig='half-turn:raises')
                if ok: L.close(f'{nm_}(half turn)', np.asarray(r, float).flatten(), want_, 1e-7, 3.0, dict(R=Rh_, axis=ah_, p=ph_), what=f'{nm_} for a half turn about a general axis differs from R p', sig='half-turn')
        ok, r = L.noraise('UQ*p', lambda: UnitQuaternion(qv) * p, dict(q=qv, p=p), 'UnitQuaternion * point')
        if ok: L.close('UQ*p', np.asarray(r, float).flatten(), ref, TOL, float(np.max(np.abs(p))), dict(q=qv, p=p))
        # inverse undoes the action — with the inverse taken first, then the object used again (single- and multi-valued)
        def uq_inv_then_act():
            Xq = UnitQuaternion(qv); Xi = Xq.inv(); y = np.asarray(Xq * p, float).flatten()
            Xm = UnitQuaternion([qv, inputs.unitq(g)]); Xmi = Xm.inv(); ym = np.asarray(Xm * p, float)
            return np.asarray(Xi * y, float).flatten(), y, np.asarray(Xmi[0] * ym[:, 0], float).flatten(), np.asarray(Xmi[1] * ym[:, 1], float).flatten()
        ok, r = L.noraise('UQ.inv', uq_inv_then_act, dict(q=qv, p=p), 'UnitQuaternion.inv() then the action of the same object')
        if ok:
            L.close('UQ:inv(X)*(X*p)', r[0], p, TOL, float(np.max(np.abs(p))), dict(q=qv, p=p), what='X.inv() * (X * p) differs from p when the inverse is taken before X is applied', sig='UQ:inv')
            L.close('UQ:X*p after inv', r[1], ref, TOL, float(np.max(np.abs(p))), dict(q=qv, p=p), what='X * p changed after X.inv() was called', sig='UQ:inv')
            L.close('UQ[M]:inv(X)*(X*p)', r[2], p, TOL, float(np.max(np.abs(p))), dict(q=qv, p=p), sig='UQ:inv'); L.close('UQ[M]:inv(X)*(X*p)', r[3], p, TOL, float(np.max(np.abs(p))), dict(q=qv, p=p), sig='UQ:inv')
        ok, r = L.noraise('qvmul', lambda: b.qvmul(qv, p), dict(q=qv, p=p), 'qvmul')
        if ok: L.close('qvmul', r, ref, TOL, float(np.max(np.abs(p))), dict(q=qv, p=p))
        def udq():
            real = UnitQuaternion(qv); dual = 0.5 * Quaternion.Pure(t) * real
            return UnitDualQuaternion(real, dual) * p
        ok, r = L.noraise('UDQ*p', udq, dict(q=qv, t=t, p=p), 'UnitDualQuaternion * point')
        if ok and r is not None: L.close('UDQ*p', np.asarray(r, float).flatten(), R @ p + t, TOL, scale, dict(q=qv, t=t, p=p),
                                         what='UnitDualQuaternion * point differs from R p + t')
        elif ok: L.check('UDQ*p', False, dict(q=qv, t=t, p=p), 'UnitDualQuaternion * point returned None', sig='UDQ*p:none')
        # the same rotation reached by conversion from the matrix (r2q) must act the same way
        #  (only for rotation angles 1e-4 .. pi-1e-4: the accuracy of the matrix -> quaternion conversion itself is C04's subject)
        conv_ok = 1e-4 < abs(th) % (2 * math.pi) < math.pi - 1e-4 or math.pi + 1e-4 < abs(th) % (2 * math.pi) < 2 * math.pi - 1e-4
        #  inside those bands (and at exact half turns about a general axis) a result is still required, compared at C04's 1e-6
        ctol = TOL if conv_ok else 1e-6
        ok, r = L.noraise('UQ(R)*p', lambda: UnitQuaternion(SO3(R, check=False)) * p, dict(R=R, p=p, theta=th), 'UnitQuaternion(SO3) * point')
        if ok: L.close('UQ(R)*p', np.asarray(r, float).flatten(), ref, ctol, float(np.max(np.abs(p))), dict(R=R, p=p), what='UnitQuaternion converted from a rotation matrix does not rotate like the matrix')
        # half-turn screws about the coordinate axes (the dual part of their dual quaternion has a zero vector part), alone and as the left
        # factor of a product; and the way back to SE3 acting on points
        if i < 12:
            axk_ = i % 3; dk_ = float((2.0, -1.5, 0.7, 3.0)[i % 4]); Rk_ = np.diag([1.0 if j_ == axk_ else -1.0 for j_ in range(3)]) if i < 6 else getattr(b, 'rot' + 'xyz'[axk_])(math.pi)
            Tk_ = np.eye(4); Tk_[:3, :3] = Rk_; Tk_[axk_, 3] = dk_; Yk_ = SE3(inputs.se3(g, 1), check=False); pk_ = np.array([0.4, -1.1, 2.3])
            ok, r = L.noraise('UDQ(half-turn screw)*p', lambda: (np.asarray(UnitDualQuaternion(SE3(Tk_, check=False)) * pk_, float).flatten(), np.asarray((UnitDualQuaternion(SE3(Tk_, check=False)) * UnitDualQuaternion(Yk_)) * pk_, float).flatten(),
                                                               np.asarray((UnitDualQuaternion(Yk_) * UnitDualQuaternion(SE3(Tk_, check=False))) * pk_, float).flatten()), dict(T=Tk_, p=pk_), 'unit dual quaternion of a half-turn screw about a coordinate axis')
            if ok:
                L.close('UDQ(half-turn screw)*p', r[0], Rk_ @ pk_ + Tk_[:3, 3], 1e-7, 5.0, dict(T=Tk_, p=pk_), what='the unit dual quaternion of a half-turn screw about a coordinate axis does not move a point like the screw', sig='UDQ:half-turn-screw')
                L.close('(UDQ(screw)*UDQ(Y))*p', r[1], (Tk_ @ Yk_.A)[:3, :3] @ pk_ + (Tk_ @ Yk_.A)[:3, 3], 1e-7, 10.0, dict(T=Tk_, Y=Yk_.A, p=pk_), sig='UDQ:half-turn-screw'); L.close('(UDQ(Y)*UDQ(screw))*p', r[2], (Yk_.A @ Tk_)[:3, :3] @ pk_ + (Yk_.A @ Tk_)[:3, 3], 1e-7, 10.0, dict(T=Tk_, Y=Yk_.A, p=pk_), sig='UDQ:half-turn-screw')
        ok, r = L.noraise('UDQ(T).SE3()*p', lambda: (np.asarray(UnitDualQuaternion(SE3(Tm, check=False)).SE3() * p, float).flatten(), np.asarray(b.homtrans(UnitDualQuaternion(SE3(Tm, check=False)).SE3().A, p), float).flatten()), dict(T=Tm, p=p), 'UnitDualQuaternion(SE3).SE3() * point')
        if ok:
            L.close('UDQ(T).SE3()*p', r[0], Tm[:3, :3] @ p + Tm[:3, 3], 1e-7, max(float(np.max(np.abs(p))), geom.tmag(Tm), 1.0), dict(T=Tm, p=p), what='a pose converted to a unit dual quaternion and back moves a point differently', sig='UDQ.SE3()*p'); L.close('homtrans(UDQ(T).SE3())', r[1], Tm[:3, :3] @ p + Tm[:3, 3], 1e-7, max(float(np.max(np.abs(p))), geom.tmag(Tm), 1.0), dict(T=Tm, p=p), sig='UDQ.SE3()*p')
        ok, r = L.noraise('UDQ(T)*p', lambda: UnitDualQuaternion(SE3(Tm, check=False)) * p, dict(T=Tm, p=p, theta=th), 'UnitDualQuaternion(SE3) * point')
        if ok and r is not None: L.close('UDQ(T)*p', np.asarray(r, float).flatten(), R @ p + t, ctol, scale, dict(T=Tm, p=p), what='UnitDualQuaternion converted from an SE3 does not act like the SE3')
        # multi-valued unit quaternion times one vector: column k is value k applied to the vector (any number of values)
        Mq = int(g.integers(2, 6)); qs_ = [inputs.unitq(g) for _ in range(Mq)]
        ok, r = L.noraise('UQ[M]*p', lambda: UnitQuaternion(qs_) * p, dict(M=Mq, p=p), 'multi-valued UnitQuaternion * point')
        if ok:
            r_ = np.asarray(r, float)
            L.check('UQ[M]*p:shape', r_.shape == (3, Mq), dict(M=Mq), f'multi-valued UnitQuaternion * point has shape {r_.shape}, expected (3, {Mq})', sig='UQ[M]*p')
            if r_.shape == (3, Mq):
                want_ = np.stack([b.q2r(q_) @ p for q_ in qs_], axis=1)
                L.close('UQ[M]*p', r_, want_, TOL, float(np.max(np.abs(p))), dict(M=Mq, p=p), sig='UQ[M]*p')
        ok, r = L.noraise('homtrans', lambda: b.homtrans(Tm, p), dict(T=Tm, p=p), 'homtrans(T, p)')
        if ok: L.close('homtrans', np.asarray(r, float).flatten(), R @ p + t, TOL, scale, dict(T=Tm, p=p))
        N = (i % 7) + 1; Pn = pts(3, N)          # every N = 1..7 in turn
        if i % 5 == 0: Pn = g.integers(-9, 10, size=(3, N))          # integer-dtype point arrays
        ok, r = L.noraise('homtrans-dxN', lambda: b.homtrans(Tm, Pn), dict(T=Tm, P=Pn), 'homtrans(T, 3xN)')
        if ok: L.close('homtrans-dxN', r, R @ Pn + t.reshape(3, 1), TOL, max(float(np.max(np.abs(Pn))), float(np.max(np.abs(t)))), dict(T=Tm, P=Pn))
        ok, r = L.noraise('UQ*3xN', lambda: UnitQuaternion(qv) * Pn, dict(q=qv, P=Pn), 'UnitQuaternion * 3xN')
        if ok and r is not None and not isinstance(r, np.ndarray):
            L.check('UQ*3xN', False, dict(q=qv, N=N), f'UnitQuaternion * 3x{N} array returned a {type(r).__name__}, not the array of rotated points', sig='UQ*3xN:type')
        elif ok and r is not None:
            r = np.asarray(r, float)
            if N == 1: r = r.reshape(3, 1)      # a 3x1 array is also the column form of a single vector
            L.close('UQ*3xN', r, R @ Pn, TOL, float(np.max(np.abs(Pn))), dict(q=qv, P=Pn), sig=f'UQ*3xN[N={"d" if N == 3 else "other"}]')
    return L.result()

if __name__ == '__main__':
    main_entry(_impl)
