"""C10 — list behaviour matches a Python list of the element values (small-scope exhaustive + seeded sequences)."""
import math, itertools
import numpy as np
from .common import Laws, run_subprocess, main_entry
from .. import inputs

SPEC = dict(
    lean_modules=['SmVerif.Props.C10'],
    groups=[],
    partial=['the refinement theorem is over the hand model Logic.UserList; its tie to smuserlist.py is this correspondence '
             '(every operation sequence up to the stated length, every slice in the stated range, seeded long sequences)'],
    assumptions=['reference behaviour: CPython list on the same operations'],
    technique='Lean 4 refinement proof (hand model of SMUserList -> Python list, all operation sequences) + exhaustive small-scope correspondence',
)

def monitor(tier, seed, search=False):
    return run_subprocess('smv.props.c10', tier, seed, search)

def replay(rp):
    r = run_subprocess('smv.props.c10', 'quick', 0, True)
    hit = [v for v in r['violations'] if v['signature'] == rp.get('signature')]
    return dict(violates=bool(hit), detail=hit[:1])

def _impl(tier, seed, search):
    from spatialmath import SO2, SE2, SO3, SE3, Quaternion, UnitQuaternion, Twist2, Twist3
    from spatialmath.geom3d import Plucker
    g = inputs.rng(seed)
    L = Laws('C10', rule='every operation sequence up to length 2 (quick) / 3 (thorough) over the 42-operation alphabet from start lengths 0..3/4, '
                         'all slices with start, stop in {None,-7..7}, step in {None,+-1,+-2,+-3}, all indices -7..7, seeded random sequences '
                         'up to length 60, every list-capable class; a case = one operation compared with a Python list')
    CL = dict(SO2=(SO2, lambda: inputs.so2(g)), SE2=(SE2, lambda: inputs.se2(g, 1)), SO3=(SO3, lambda: inputs.so3(g)), SE3=(SE3, lambda: inputs.se3(g, 1)),
              Quaternion=(Quaternion, lambda: g.normal(size=4)), UnitQuaternion=(UnitQuaternion, lambda: inputs.unitq(g)),
              Twist2=(Twist2, lambda: g.normal(size=3)), Twist3=(Twist3, lambda: g.normal(size=6)))
    def build(c, k):
        cls, one = CL[c]
        vals = [one() for _ in range(k)]
        if k == 0: X = cls.Empty()
        else: X = cls(vals[0]) if k == 1 else cls(vals)
        return X, [np.array(v, float) for v in vals]
    def same(X, ref):
        if len(X) != len(ref): return False
        return all(a is not None and np.shape(a) == np.shape(r) and np.allclose(np.asarray(a, float), r, atol=1e-13) for a, r in zip(X.data, ref))
    def other(c):
        return 'SO3' if c != 'SO3' else 'SE3'
    SUBCLASS = dict(SO3='SE3', SO2='SE2', Quaternion='UnitQuaternion')     # a subclass instance is still an object of a different class
    # ---- operations: each returns (label, apply_to_obj, apply_to_ref) -------------------------
    def ops_for(c, n):
        cls, one = CL[c]
        out = []
        for i in (0, 1, -1, n, -n - 1, 2):
            out.append((f'get[{i}]', 'get', i))
            out.append((f'pop({i})', 'pop', i))
            out.append((f'del[{i}]', 'del', i))
            out.append((f'set[{i}]', 'set', i))
            out.append((f'insert({i})', 'insert', i))
        out += [('append', 'append', None), ('extend2', 'extend', 2), ('extend1', 'extend', 1), ('extend0', 'extend', 0), ('reverse', 'reverse', None), ('clear', 'clear', None), ('pop()', 'pop', None),
                ('iter', 'iter', None), ('append-foreign', 'append-foreign', None), ('append-multi', 'append-multi', None), ('set-foreign', 'set-foreign', 0), ('insert-multi', 'insert-multi', 0),
                ('extend-foreign', 'extend-foreign', None), ('insert-foreign', 'insert-foreign', 0), ('append-subclass', 'append-subclass', None),
                ('set-subclass', 'set-subclass', 0), ('extend-subclass', 'extend-subclass', None), ('insert-subclass', 'insert-subclass', 0),
                # things that are not objects of the class at all: a bare array (valid value or not), a Python list of objects
                ('append-array', 'append-array', None), ('append-junk-array', 'append-junk-array', None), ('insert-array', 'insert-array', 0), ('set-array', 'set-array', 0), ('extend-array', 'extend-array', None),
                ('extend-list[ok,foreign]', 'extend-list-bad', 1), ('extend-list[ok,ok,multi]', 'extend-list-bad', 2), ('extend-list[ok,ok]', 'extend-list-ok', None)]
        return out
    def apply(c, X, ref, kind, arg):
        """performs the operation on both; returns None if they agree, else a description"""
        cls, one = CL[c]
        def elem():
            v = np.array(one(), float); return cls(v), v
        def outcome(f):
            try: return ('ok', f())
            except IndexError: return ('IndexError', None)
            except Exception as e: return ('exc:' + type(e).__name__, None)
        before = [r.copy() for r in ref]
        if kind == 'get':
            a = outcome(lambda: X[arg]); b = outcome(lambda: ref[arg])
            if a[0] != b[0]: return f'x[{arg}] on length {len(ref)}: object gave {a[0]}, list gave {b[0]}'
            if a[0] == 'ok':
                if type(a[1]) is not cls: return f'x[{arg}] returned {type(a[1]).__name__}, not {cls.__name__}'
                if len(a[1]) != 1 or not np.allclose(np.asarray(a[1].data[0], float), b[1]): return f'x[{arg}] returned the wrong element'
        elif kind == 'pop':
            a = outcome(lambda: X.pop() if arg is None else X.pop(arg)); b = outcome(lambda: ref.pop() if arg is None else ref.pop(arg))
            if a[0] != b[0]: return f'pop({arg}) on length {len(before)}: object gave {a[0]}, list gave {b[0]}'
            if a[0] == 'ok':
                if type(a[1]) is not cls: return f'pop returned {type(a[1]).__name__}'
                if len(a[1]) != 1 or not np.allclose(np.asarray(a[1].data[0], float), b[1]): return 'pop returned the wrong element'
        elif kind == 'del':
            def dx(): del X[arg]
            def dr(): del ref[arg]
            a = outcome(dx); b = outcome(dr)
            if a[0] != b[0]: return f'del x[{arg}] on length {len(before)}: object gave {a[0]}, list gave {b[0]}'
        elif kind == 'set':
            e, v = elem()
            def sx(): X[arg] = e
            def sr(): ref[arg] = v
            a = outcome(sx); b = outcome(sr)
            if a[0] != b[0]: return f'x[{arg}] = e on length {len(before)}: object gave {a[0]}, list gave {b[0]}'
        elif kind == 'insert':
            e, v = elem(); a = outcome(lambda: X.insert(arg, e)); b = outcome(lambda: ref.insert(arg, v))
            if a[0] != b[0]: return f'insert({arg}, e): object gave {a[0]}, list gave {b[0]}'
        elif kind == 'append':
            e, v = elem(); a = outcome(lambda: X.append(e)); ref.append(v)
            if a[0] != 'ok': return f'append(e) gave {a[0]}'
        elif kind == 'extend':
            Y, vals = build(c, arg); a = outcome(lambda: X.extend(Y)); ref.extend(vals)
            if a[0] != 'ok': return f'extend({arg}-valued) gave {a[0]}'
        elif kind == 'reverse':
            X.reverse(); ref.reverse()
        elif kind == 'clear':
            X.clear(); ref.clear()
        elif kind == 'iter':
            items = outcome(lambda: list(iter(X)))
            if items[0] != 'ok': return f'iteration gave {items[0]}'
            if len(items[1]) != len(ref): return f'iteration yielded {len(items[1])} items for length {len(ref)}'
            for it, r in zip(items[1], ref):
                if type(it) is not cls or len(it) != 1 or not np.allclose(np.asarray(it.data[0], float), r): return 'iteration yielded a wrong item / class'
        elif kind in ('append-foreign', 'set-foreign', 'extend-foreign', 'insert-foreign', 'append-subclass', 'set-subclass', 'extend-subclass', 'insert-subclass'):
            if kind.endswith('subclass'):
                if c not in SUBCLASS: return None
                oc, oone = CL[SUBCLASS[c]]; kind = kind.replace('subclass', 'foreign')
            else:
                oc, oone = CL[other(c)]
            F = oc(oone())
            if kind == 'append-foreign': a = outcome(lambda: X.append(F))
            elif kind == 'extend-foreign': a = outcome(lambda: X.extend(F))
            elif kind == 'insert-foreign': a = outcome(lambda: X.insert(arg, F))
            else:
                if len(ref) == 0: return None
                def sx(): X[arg] = F
                a = outcome(sx)
            if a[0] == 'ok': return f'{kind}: an object of class {type(F).__name__} was accepted by {c}'
            if not same(X, before): return f'{kind}: the object changed although the operation was rejected'
            return None
        elif kind in ('append-array', 'append-junk-array', 'insert-array', 'set-array', 'extend-array'):
            A_ = np.array(one(), float) if kind != 'append-junk-array' else np.array([1.0, 2.0, 3.0])
            if kind in ('append-array', 'append-junk-array'): a = outcome(lambda: X.append(A_))
            elif kind == 'insert-array': a = outcome(lambda: X.insert(arg, A_))
            elif kind == 'extend-array': a = outcome(lambda: X.extend(A_))
            else:
                if len(ref) == 0: return None
                def sx(): X[arg] = A_
                a = outcome(sx)
            if a[0] == 'ok': return f'{kind}: a bare ndarray of shape {A_.shape} was accepted by {c} where an object of the class is required'
            if not same(X, before): return f'{kind}: the object changed although the operation was rejected'
            return None
        elif kind in ('extend-list-bad', 'extend-list-ok'):
            e1, v1 = elem(); e2, v2 = elem()
            if kind == 'extend-list-ok':
                a = outcome(lambda: X.extend([e1, e2]))
                if a[0] == 'ok':
                    ref.extend([v1, v2])
                    if not same(X, ref): return 'extend([a, b]) was accepted but the object is not the list extended by a, b'
                elif not same(X, before): return 'extend([a, b]): the object changed although the operation was rejected'
                return None
            bad = CL[other(c)][0](CL[other(c)][1]()) if arg == 1 else build(c, 2)[0]
            a = outcome(lambda: X.extend([e1, bad] if arg == 1 else [e1, e2, bad]))
            if a[0] == 'ok': return f'extend(list ending in {"an object of another class" if arg == 1 else "a multi-valued object"}) was accepted by {c}'
            if not same(X, before): return f'extend(list with an inadmissible item): the object changed although the operation was rejected (length {len(before)} -> {len(X)})'
            return None
        elif kind in ('append-multi', 'insert-multi'):
            Y, _ = build(c, 2)
            a = outcome(lambda: X.append(Y)) if kind == 'append-multi' else outcome(lambda: X.insert(arg, Y))
            if a[0] == 'ok': return f'{kind}: a multi-valued object was accepted where a single value is required'
            if not same(X, before): return f'{kind}: the object changed although the operation was rejected'
            return None
        if not same(X, ref): return f'after {kind}({arg}) the object (len {len(X)}) differs from the reference list (len {len(ref)})'
        return None
    maxseq = 2 if tier == 'quick' else 3
    maxstart = 3 if tier == 'quick' else 4
    classes = list(CL) if tier != 'quick' else ['SE3', 'SO2', 'UnitQuaternion', 'Twist3']
    if search: classes = list(CL)
    # ---- exhaustive: all sequences up to maxseq for one class; length-1/2 sequences for the others
    for ci, c in enumerate(classes):
        depth = maxseq if ci == 0 else 2
        alphabet = ops_for(c, 2)
        for start in range(0, maxstart + 1):
            for d in range(1, depth + 1):
                for seq in itertools.product(range(len(alphabet)), repeat=d):
                    if d >= 3 and any(alphabet[i][1] in ('iter', 'append-multi', 'insert-multi') or alphabet[i][1].endswith(('foreign', 'subclass', 'array', 'list-bad', 'list-ok')) for i in seq[:-1]): continue
                    X, ref = build(c, start)
                    for si, oi in enumerate(seq):
                        label, kind, arg = alphabet[oi]
                        L.count('op', key=None)
                        msg = apply(c, X, ref, kind, arg)
                        if msg:
                            L.fail(f'list-op:{kind}:{arg if kind in ("get","pop","del","set","insert") and arg is not None else ""}',
                                   f'{c}: {msg}', dict(cls=c, start_len=start, ops=[alphabet[i][0] for i in seq[:si + 1]]))
                            break
        L.sample('sequence', dict(cls=c, start_len=2, ops=['append', 'pop(0)', 'get[-1]']))
    # ---- all slices / indices ----------------------------------------------------------------
    # elements far from the origin (translations of 1e2 .. 1e4 beside a general rotation): every list operation still works as on a list
    for cfar, mkfar in (('SE3', lambda: np.block([[inputs.so3(g), (g.normal(size=3) * 10.0 ** g.uniform(2, 4)).reshape(3, 1)], [np.zeros((1, 3)), np.ones((1, 1))]])),
                        ('SE2', lambda: np.block([[inputs.so2(g), (g.normal(size=2) * 10.0 ** g.uniform(2, 4)).reshape(2, 1)], [np.zeros((1, 2)), np.ones((1, 1))]]))):
        clsf = CL[cfar][0]
        for rep_ in range(6 if tier == 'quick' else 40):
            valsf = [mkfar() for _ in range(3)]
            for opn_, opf_, reff_ in (('pop()', lambda X_: np.asarray(X_.pop().A, float), lambda r_: r_.pop()), ('pop(0)', lambda X_: np.asarray(X_.pop(0).A, float), lambda r_: r_.pop(0)), ('x[1]', lambda X_: np.asarray(X_[1].A, float), lambda r_: r_[1]),
                                      ('x[::-1][0]', lambda X_: np.asarray(X_[::-1][0].A, float), lambda r_: r_[::-1][0]), ('list(iter)[2]', lambda X_: np.asarray(list(iter(X_))[2].A, float), lambda r_: r_[2]),
                                      ('insert(1, x[0])', lambda X_: (X_.insert(1, X_[0]), np.asarray(X_[1].A, float))[1], lambda r_: (r_.insert(1, r_[0]), r_[1])[1]), ('x[0] = x[2]', lambda X_: (X_.__setitem__(0, X_[2]), np.asarray(X_[0].A, float))[1], lambda r_: (r_.__setitem__(0, r_[2]), r_[0])[1])):
                Xf_ = clsf([v_.copy() for v_ in valsf], check=False); rf_ = [v_.copy() for v_ in valsf]
                L.count('far-elements', key=(cfar, opn_))
                try: got_ = opf_(Xf_)
                except Exception as e:
                    L.fail(f'list-op:far-elements:{opn_}', f'{cfar}: {opn_} on an object whose values have translations of 1e2 .. 1e4 raised {type(e).__name__}: {str(e)[:60]}', dict(cls=cfar, op=opn_)); continue
                want_ = reff_(rf_)
                if not np.allclose(got_, want_, rtol=0, atol=1e-9) or not same(Xf_, rf_):
                    L.fail(f'list-op:far-elements:{opn_}', f'{cfar}: {opn_} on an object whose values have large translations differs from the list', dict(cls=cfar, op=opn_))
    rng_idx = [None] + list(range(-7, 8)); steps = [None, 1, -1, 2, -2, 3, -3]
    for c in classes:
        cls, _ = CL[c]
        for n in range(0, 6):
            X, ref = build(c, n)
            for i in range(-7, 8):
                L.count('index')
                msg = apply(c, X, ref, 'get', i)
                if msg: L.fail(f'index:{("neg" if i < 0 else "pos")}', f'{c}: {msg}', dict(cls=c, length=n, index=i))
                # integer-like indices that are not Python ints (what np.arange, np.argmin ... produce) behave as on a list
                if n in (1, 3) and i in (-4, -3, -1, 0, 2, 3):
                    for ity_ in (np.int64, np.int32, np.intp, np.uint8 if i >= 0 else np.int16):
                        for kd_ in ('get', 'pop', 'del', 'set', 'insert'):
                            X2, ref2 = build(c, n); L.count('index(numpy integer)')
                            msg = apply(c, X2, ref2, kd_, ity_(i))
                            if msg: L.fail(f'index:numpy-integer:{kd_}', f'{c}: index of type {ity_.__name__}: {msg}', dict(cls=c, length=n, index=i, index_type=ity_.__name__, op=kd_))
            for a in rng_idx:
                for b_ in rng_idx:
                    for st in steps:
                        L.count('slice')
                        sl = slice(a, b_, st)
                        want = ref[sl]
                        try:
                            got = X[sl]
                        except Exception as e:
                            L.fail(f'slice-raises:{"step" + str(st) if st not in (None, 1) else ("negstop" if (b_ is not None and b_ < 0) else ("negstart" if (a is not None and a < 0) else "plain"))}',
                                   f'{c}: x[{a}:{b_}:{st}] on length {n} raised {type(e).__name__}; a list gives {len(want)} items', dict(cls=c, length=n, slice=[a, b_, st]))
                            continue
                        if got is X or (len(want) > 0 and got.data is X.data):
                            L.fail('slice-alias', f'{c}: x[{a}:{b_}:{st}] on length {n} returns the object itself (or shares its value list): a list slice is a new list', dict(cls=c, length=n, slice=[a, b_, st]))
                            continue
                        okc = type(got) is cls and len(got) == len(want) and all(np.allclose(np.asarray(x_, float), w) for x_, w in zip(got.data, want))
                        if not okc:
                            L.fail(f'slice-value:{"step" + str(st) if st not in (None, 1) else ("negstop" if (b_ is not None and b_ < 0) else ("negstart" if (a is not None and a < 0) else ("overlong" if (b_ is not None and b_ > n) or (a is not None and a > n) else "plain")))}',
                                   f'{c}: x[{a}:{b_}:{st}] on length {n} has {len(got) if hasattr(got, "__len__") else "?"} items of class {type(got).__name__}; a list gives {len(want)}', dict(cls=c, length=n, slice=[a, b_, st]))
    L.sample('slice', dict(cls='SE3', length=4, slice=[0, -1, None]))
    # ---- values as the library's own operators leave them after a long computation (drift ~1e-14): stored values are not validated again
    for c in ('SO2', 'SE2', 'SO3', 'SE3'):
        cls, one = CL[c]
        dr = []
        for _ in range(4):
            Z = cls(one())
            for k_ in (-3, 4, 5, -2): Z = Z ** k_
            dr.append(np.array(Z.A, float))
        X = cls.Empty(); X.data = [d_.copy() for d_ in dr]
        for sl in (slice(None), slice(1, 3), slice(None, None, -1), slice(0, 4, 2)):
            L.count('slice')
            try: got = X[sl]
            except Exception as e:
                L.fail('slice-raises:drifted', f'{c}: a slice of an object holding values with the rounding drift of a long product raised {type(e).__name__}', dict(cls=c, slice=[sl.start, sl.stop, sl.step])); continue
            if len(got) != len(dr[sl]) or not all(np.array_equal(np.asarray(a_, float), w_) for a_, w_ in zip(got.data, dr[sl])):
                L.fail('slice-value:drifted', f'{c}: slice of drifted values differs from the list slice', dict(cls=c, slice=[sl.start, sl.stop, sl.step]))
        for i_ in (0, -1, 2):
            L.count('index')
            try: gi = X[i_]
            except Exception as e:
                L.fail('index:drifted', f'{c}: x[{i_}] on an object holding drifted values raised {type(e).__name__}', dict(cls=c, index=i_)); continue
            if not np.array_equal(np.asarray(gi.data[0], float), dr[i_]): L.fail('index:drifted', f'{c}: x[{i_}] is not the stored value', dict(cls=c, index=i_))
        try:
            its = [np.asarray(e_.A, float) for e_ in X]
            if len(its) != 4 or not all(np.array_equal(a_, w_) for a_, w_ in zip(its, dr)): L.fail('iter:drifted', f'{c}: iteration over drifted values does not yield them in order', dict(cls=c))
        except Exception as e:
            L.fail('iter:drifted', f'{c}: iteration over drifted values raised {type(e).__name__}', dict(cls=c))
    # ---- the spatial-vector classes are list-capable too: slices, indices and construction from lists, lengths 0..8 (6 x 6 is a matrix form) ----
    from spatialmath.spatialvector import SpatialVelocity, SpatialAcceleration, SpatialForce, SpatialMomentum
    for scls in (SpatialVelocity, SpatialAcceleration, SpatialForce, SpatialMomentum):
        for n in range(1, 9):
            vals = [g.normal(size=6) for _ in range(n)]
            try: X = scls(vals[0]) if n == 1 else scls([v_.copy() for v_ in vals])
            except Exception as e:
                L.fail(f'spatial-ctor:{n}', f'{scls.__name__}(list of {n} 6-vectors) raised {type(e).__name__}', dict(cls=scls.__name__, length=n)); continue
            L.count('spatial-ctor')
            if len(X) != n or not all(np.allclose(np.asarray(x_, float).ravel(), w) for x_, w in zip(X.data, vals)):
                L.fail('spatial-ctor:value', f'{scls.__name__}(list of {n} 6-vectors) does not hold those vectors in order', dict(cls=scls.__name__, length=n)); continue
            for a in (None, 0, 1, 2, -1, -7):
                for b_ in (None, n, n - 1, 7, 6, -1):
                    for st in (None, 1, 2, -1):
                        sl = slice(a, b_, st); want = vals[sl]; L.count('slice')
                        try: got = X[sl]
                        except Exception as e:
                            L.fail('slice-raises:spatial', f'{scls.__name__}: x[{a}:{b_}:{st}] on length {n} raised {type(e).__name__}; a list gives {len(want)} items', dict(cls=scls.__name__, length=n, slice=[a, b_, st])); continue
                        okc = type(got) is scls and len(got) == len(want) and all(np.allclose(np.asarray(x_, float).ravel(), w) for x_, w in zip(got.data, want))
                        if not okc: L.fail('slice-value:spatial', f'{scls.__name__}: x[{a}:{b_}:{st}] on length {n} does not hold the {len(want)} values a list slice gives', dict(cls=scls.__name__, length=n, slice=[a, b_, st]))
            for i in range(-n, n):
                L.count('index')
                try: gi = X[i]
                except Exception as e:
                    L.fail('index:spatial', f'{scls.__name__}: x[{i}] on length {n} raised {type(e).__name__}', dict(cls=scls.__name__, length=n, index=i)); continue
                if type(gi) is not scls or len(gi) != 1 or not np.allclose(np.asarray(gi.data[0], float).ravel(), vals[i]):
                    L.fail('index:spatial', f'{scls.__name__}: x[{i}] on length {n} is not element {i}', dict(cls=scls.__name__, length=n, index=i))
    # ---- constructors: list of objects, Empty, Alloc -------------------------------------------
    for c in classes:
        cls, one = CL[c]
        vals = [np.array(one(), float) for _ in range(3)]
        L.count('ctor')
        try:
            X = cls([cls(v) for v in vals])
            if not same(X, vals): L.fail('ctor-list-of-objects', f'{c}([objects]) does not hold the element values', dict(cls=c))
        except Exception as e:
            L.fail('ctor-list-of-objects', f'{c}([objects]) raised {type(e).__name__}', dict(cls=c))
        # the copy constructor gives an independent object (any length): list operations on one do not show in the other
        for ln in (0, 1, 2, 3):
            L.count('clone')
            try:
                X0, ref0 = build(c, ln); Y0 = cls(X0)
                e_ = cls(np.array(one(), float))
                Y0.append(e_); Y0.reverse()
                if not same(X0, ref0): L.fail('clone-shares-list', f'{c}(x) shares its list with x (len {ln}): appending to the copy changed the original', dict(cls=c, length=ln))
                X1, ref1 = build(c, ln); Y1 = cls(X1); X1.clear()
                if len(Y1) != ln: L.fail('clone-shares-list', f'{c}(x) shares its list with x (len {ln}): clearing the original emptied the copy', dict(cls=c, length=ln))
            except Exception as e:
                if ln > 0: L.fail('clone-raises', f'{c}(x) for len(x) = {ln} raised {type(e).__name__}', dict(cls=c, length=ln))
        # a list of objects with one item of another class — also one whose values have the same shape — is rejected
        SAMESHAPE = dict(SO3=['SE2'], SE2=['SO3'], Quaternion=['UnitQuaternion'], UnitQuaternion=['Quaternion'], SO2=[], SE3=[], Twist2=[], Twist3=[])
        for oc_name in SAMESHAPE.get(c, []) + ([other(c)] if c != 'UnitQuaternion' else ['Twist3']):      # UnitQuaternion([SO3, …]) is a documented conversion
            oc, oone = CL[oc_name]
            for pos in (0, 1, 2):
                items = [cls(np.array(one(), float)) for _ in range(3)]; items[pos] = oc(np.array(oone(), float))
                L.count('ctor-foreign-item')
                try:
                    Z = cls(items)
                    L.fail(f'ctor-list-foreign-item:{c}', f'{c}([…]) accepted a list whose item {pos} is a {oc_name}', dict(cls=c, foreign=oc_name, position=pos))
                except Exception: pass
        try:
            E = cls.Empty()
            if len(E) != 0: L.fail('Empty', f'{c}.Empty() has length {len(E)}', dict(cls=c))
            for na in range(0, 5):
                L.count('alloc')
                An = cls.Alloc(na)
                if len(An) != na or type(An) is not cls: L.fail('Alloc', f'{c}.Alloc({na}) has length {len(An)}', dict(cls=c, n=na))
                if len(list(iter(An))) != na: L.fail('Alloc-iter', f'iterating {c}.Alloc({na}) yields {len(list(iter(An)))} items', dict(cls=c, n=na))
            A = cls.Alloc(3)
            for k_, v in enumerate(vals): A[k_] = cls(v)
            if not same(A, vals): L.fail('Alloc-assign', f'{c}.Alloc(3) then item assignment does not hold the assigned values', dict(cls=c))
        except Exception as e:
            L.fail('Empty/Alloc', f'{c}.Empty()/Alloc raised {type(e).__name__}: {str(e)[:80]}', dict(cls=c))
    # ---- seeded random sequences up to length 60 --------------------------------------------------
    nseq = 30 if tier == 'quick' else 400
    for k in range(nseq):
        c = list(CL)[k % len(CL)]
        X, ref = build(c, int(g.integers(0, 5)))
        alphabet = ops_for(c, 3)
        hist = []
        for step in range(int(g.integers(5, 61))):
            label, kind, arg = alphabet[int(g.integers(len(alphabet)))]
            if kind in ('get', 'pop', 'del', 'set', 'insert') and arg is not None:
                arg = int(g.integers(-7, 8))
            hist.append(f'{kind}({arg})')
            L.count('random-op')
            msg = apply(c, X, ref, kind, arg)
            if msg:
                L.fail(f'list-op:{kind}:{arg if kind in ("get","pop","del","set","insert") and arg is not None else ""}' if False else f'random:{kind}', f'{c}: {msg}', dict(cls=c, history=hist[-8:]))
                break
    return L.result()

def correspondence(tier, seed):
    from .common import model_correspondence
    return model_correspondence('smv.props.c10', tier, seed)

def _corr(tier, seed):
    """rows for the Lean models: `logic ul …` answered by the real classes, `logic pylist …` answered by a CPython list"""
    import numpy as np
    from spatialmath import SO2, SE2, SE3, UnitQuaternion, Twist3, SO3
    g = inputs.rng(seed + 77)
    MK = dict(SE3=(SE3, lambda k: SE3(float(k), 0, 0), lambda a: int(round(a[0, 3]))),
              SO2=(SO2, lambda k: SO2(0.005 * k), lambda a: int(round(math.atan2(a[1, 0], a[0, 0]) / 0.005))),
              Twist3=(Twist3, lambda k: Twist3([float(k), 0, 0, 0, 0, 0]), lambda a: int(round(a[0]))),
              UnitQuaternion=(UnitQuaternion, lambda k: UnitQuaternion.Rx(0.005 * k), lambda a: int(round(2 * math.atan2(a[1], a[0]) / 0.005))))
    def ids(cls_name, data):
        return '-' if len(data) == 0 else ','.join(str(MK[cls_name][2](np.asarray(a, float))) for a in data)
    def build(cname, idl):
        cls, mk, _ = MK[cname]
        if not idl: return cls.Empty()
        if len(idl) == 1: return mk(idl[0])
        return cls([mk(k) for k in idl])
    def real_ul(cname, start, ops):
        cls, mk, ident = MK[cname]
        X = build(cname, start); outs = []
        def arg(a):
            if a == 'f': return SE2() if cname == 'SO2' else SO3()      # for SO2 the foreign object is an instance of its subclass
            if a[0] == 's': return mk(int(a[1:]))
            if a[1:] in ('-', ''): return build(cname, [])
            return build(cname, [int(t) for t in a[1:].split(',')])
        for op in ops:
            t = op.split(':')
            try:
                if t[0] == 'get':
                    r = X[int(t[1])]
                    outs.append('e' + ids(cname, r.data) if type(r) is cls and len(r) == 1 else 'badtype')
                elif t[0] == 'slice':
                    a, b_, c = [None if x == '_' else int(x) for x in t[1:4]]
                    r = X[slice(a, b_, c)]
                    outs.append('l' + ids(cname, r.data) if type(r) is cls else 'badtype')
                elif t[0] == 'iter':
                    items = list(iter(X))
                    outs.append('l' + ('-' if not items else ','.join(ids(cname, it.data) for it in items))
                                if all(type(it) is cls and len(it) == 1 for it in items) else 'badtype')
                elif t[0] == 'append': X.append(arg(t[1])); outs.append('ok')
                elif t[0] == 'extend': X.extend(arg(t[1])); outs.append('ok')
                elif t[0] == 'insert': X.insert(int(t[1]), arg(t[2])); outs.append('ok')
                elif t[0] == 'pop':
                    r = X.pop() if t[1] == '_' else X.pop(int(t[1]))
                    outs.append('e' + ids(cname, r.data) if type(r) is cls and len(r) == 1 else 'badtype')
                elif t[0] == 'del': del X[int(t[1])]; outs.append('ok')
                elif t[0] == 'set': X[int(t[1])] = arg(t[2]); outs.append('ok')
                elif t[0] == 'reverse': X.reverse(); outs.append('ok')
                elif t[0] == 'clear': X.clear(); outs.append('ok')
            except (IndexError, ValueError, TypeError) as e:
                outs.append(type(e).__name__)
            except Exception as e:
                outs.append('exc:' + type(e).__name__)
        return ';'.join(outs) + '|' + ids(cname, X.data)
    def real_list(start, ops):
        X = list(start); outs = []
        sh = lambda l: '-' if not l else ','.join(map(str, l))
        for op in ops:
            t = op.split(':')
            try:
                if t[0] == 'get': outs.append(f'e{X[int(t[1])]}')
                elif t[0] == 'slice':
                    a, b_, c = [None if x == '_' else int(x) for x in t[1:4]]
                    outs.append('l' + sh(X[slice(a, b_, c)]))
                elif t[0] == 'iter': outs.append('l' + sh(list(iter(X))))
                elif t[0] == 'append': X.append(int(t[1][1:])); outs.append('ok')
                elif t[0] == 'extend': X.extend([] if t[1][1:] in ('-', '') else [int(v) for v in t[1][1:].split(',')]); outs.append('ok')
                elif t[0] == 'insert': X.insert(int(t[1]), int(t[2][1:])); outs.append('ok')
                elif t[0] == 'pop': outs.append(f'e{X.pop() if t[1] == "_" else X.pop(int(t[1]))}')
                elif t[0] == 'del': del X[int(t[1])]; outs.append('ok')
                elif t[0] == 'set': X[int(t[1])] = int(t[2][1:]); outs.append('ok')
                elif t[0] == 'reverse': X.reverse(); outs.append('ok')
                elif t[0] == 'clear': X.clear(); outs.append('ok')
            except (IndexError, ValueError, TypeError) as e:
                outs.append(type(e).__name__)
        return ';'.join(outs) + '|' + sh(X)
    counter = [100]
    def fresh():
        counter[0] += 1; return counter[0]
    def rand_op(listonly):
        k = int(g.integers(0, 14 if not listonly else 11))
        i = int(g.integers(-6, 7))
        o = lambda: '_' if g.random() < 0.3 else str(int(g.integers(-7, 8)))
        if k == 0: return f'get:{i}'
        if k == 1:
            st = '_' if g.random() < 0.3 else str(int(g.choice([1, -1, 2, -2, 3, -3, 0 if g.random() < 0.1 else 1])))
            return f'slice:{o()}:{o()}:{st}'
        if k == 2: return 'iter'
        if k == 3: return f'append:s{fresh()}'
        if k == 4:
            r_ = g.random()
            return f'extend:m{fresh()},{fresh()}' if r_ < 0.5 else ('extend:m-' if r_ < 0.65 else f'extend:s{fresh()}')
        if k == 5: return f'insert:{i}:s{fresh()}'
        if k == 6: return 'pop:_' if g.random() < 0.4 else f'pop:{i}'
        if k == 7: return f'del:{i}'
        if k == 8: return f'set:{i}:s{fresh()}'
        if k == 9: return 'reverse'
        if k == 10: return 'clear' if g.random() < 0.3 else f'get:{i}'
        if k == 11: return str(g.choice(['append:f', 'extend:f', f'insert:{i}:f', f'set:{i}:f']))
        if k == 12: return str(g.choice([f'append:m{fresh()},{fresh()}', f'insert:{i}:m{fresh()},{fresh()}', f'set:{i}:m{fresh()},{fresh()}']))
        return f'extend:m{fresh()},{fresh()},{fresh()}'
    rows = []
    n = 250 if tier == 'quick' else 2500
    cnames = list(MK)
    for k in range(n):
        cname = cnames[k % len(cnames)]
        counter[0] = 100
        start = [fresh() for _ in range(int(g.integers(0, 5)))]
        ops = [rand_op(False) for _ in range(int(g.integers(1, 25)))]
        d = '-' if not start else ','.join(map(str, start))
        rows.append(dict(req=f'logic ul {d} ' + ' '.join(ops), exp=real_ul(cname, start, ops), meta=dict(cls=cname)))
        ops = [o for o in (rand_op(True) for _ in range(int(g.integers(1, 25)))) if not (o.startswith('extend:s'))]
        if ops:
            rows.append(dict(req=f'logic pylist {d} ' + ' '.join(ops), exp=real_list(start, ops), meta=dict(cls='list')))
    # exhaustive single operations on lengths 0..4: every index -6..6, every slice with bounds None/-6..6 and steps
    for cname in (cnames if tier != 'quick' else cnames[:2]):
        for ln in range(0, 5):
            start = list(range(1, ln + 1)); d = '-' if not start else ','.join(map(str, start))
            single = [f'get:{i}' for i in range(-6, 7)] + [f'pop:{i}' for i in range(-6, 7)] + [f'del:{i}' for i in range(-6, 7)] + \
                     [f'insert:{i}:s50' for i in range(-6, 7)] + [f'set:{i}:s50' for i in range(-6, 7)]
            for op in single:
                rows.append(dict(req=f'logic ul {d} {op}', exp=real_ul(cname, start, [op]), meta=dict(cls=cname)))
            bounds = ['_'] + [str(i) for i in range(-6, 7)]
            ops = [f'slice:{a}:{b_}:{c}' for a in bounds for b_ in bounds for c in ('_', '1', '-1', '2', '-2', '3', '-3', '0')]
            for j in range(0, len(ops), 28):
                chunk = ops[j:j + 28]
                rows.append(dict(req=f'logic ul {d} ' + ' '.join(chunk), exp=real_ul(cname, start, chunk), meta=dict(cls=cname)))
                if cname == cnames[0]:
                    rows.append(dict(req=f'logic pylist {d} ' + ' '.join(chunk), exp=real_list(start, chunk), meta=dict(cls='list')))
    return rows

if __name__ == '__main__':
    main_entry(_impl, _corr)
