"""C03 — exponential and logarithm are correct and mutually inverse (float monitor)."""
import math
import numpy as np
from .common import Laws, run_subprocess, main_entry
from .. import inputs
from . import geom

SPEC = dict(
    technique='Lean 4 proof (exp = Rodrigues/screw closed form in 3-D, rotation / se(2) closed form in 2-D, exp(log R) = R on the acute and the obtuse branch of the SO(3) logarithm; regenerated model) + float monitor of the singular bands',
    lean_modules=['SmVerif.Props.C03', 'SmVerif.Props.Exp2', 'SmVerif.Props.Half', 'SmVerif.Props.SE3Log', 'SmVerif.Props.LogExp'],
    groups=['Transforms3d', 'Transforms2d', 'TransformsNd', 'Vectors'],
    expected_untranslatable=('trinterp_T', 'trinterp_T_nostart'),
    partial=['identification with the power-series matrix exponential is by the one-parameter-group characterisation; '
             'inside the identity / half-turn bands and for float rounding the monitor explores; trlog2 is scipy.linalg.logm (assumed contract)'],
    assumptions=['reference exponential: 60-digit mpmath Taylor/Rodrigues evaluation; agreement 1e-7·max(1,|t|) on generated inputs only'],
)

def monitor(tier, seed, search=False):
    return run_subprocess('smv.props.c03', tier, seed, search)

def replay(rp):
    r = run_subprocess('smv.props.c03', 'quick', 0, True)
    hit = [v for v in r['violations'] if v['signature'] == rp.get('signature')]
    return dict(violates=bool(hit), detail=hit[:1])

def ref_exp(S):
    """high-precision matrix exponential of a small matrix (mpmath, scaling and squaring + Taylor)"""
    import mpmath as mp
    mp.mp.dps = 60
    return np.array(mp.expm(mp.matrix(S.tolist()), method='taylor').tolist(), dtype=float)

def rot_magnitude(g):
    r = g.random()
    if r < 0.35: return 10.0 ** g.uniform(-17, math.log10(math.pi))
    if r < 0.6: return math.pi - 10.0 ** g.uniform(-12, -1)
    if r < 0.65: return math.pi
    return float(g.uniform(0, math.pi))

def axis(g):
    r = g.random()
    if r < 0.3:
        v = np.zeros(3); v[g.integers(3)] = float(g.choice([-1, 1])); return v
    if r < 0.45:
        v = np.zeros(3); v[g.integers(3)] = 1.0; v = v + g.normal(size=3) * 10.0 ** g.uniform(-12, -3); return v / np.linalg.norm(v)
    v = g.normal(size=3); return v / np.linalg.norm(v)

def skew(w): return np.array([[0, -w[2], w[1]], [w[2], 0, -w[0]], [-w[1], w[0], 0]])
def skewa(S):
    M = np.zeros((4, 4)); M[:3, :3] = skew(S[3:]); M[:3, 3] = S[:3]; return M

def _impl(tier, seed, search):
    import spatialmath.base as b
    from spatialmath import SO2, SE2, SO3, SE3, Twist2, Twist3
    g = inputs.rng(seed)
    n = 150 if tier == 'quick' else 3000
    if search: n *= 3
    L = Laws('C03', rule='rotation vectors with magnitude 0, log-uniform 1e-17..pi (fixed points around 10 and 100 eps) and pi-1e-12..pi, coordinate / near-degenerate / random axes, '
                         'translations 0..1e6, vector and matrix forms, twist on/off, 2-D and 3-D; a case = one law instance')
    TOL = 1e-7
    def finite_real(x):
        x = np.asarray(x)
        if x.dtype == object:
            try: x = x.astype(float)
            except (TypeError, ValueError): return False
        return (not np.iscomplexobj(x)) and bool(np.all(np.isfinite(x.astype(float))))
    TINY = (0.0, 1e-17, 1e-15, 2.5e-15, 5e-15, 1e-14, 2e-14, 3e-14, 1e-13, 1e-12)   # around the library's zero thresholds (10 and 100 eps)
    for i in range(n):
        th = rot_magnitude(g); ax = axis(g)
        if i < len(TINY): th = TINY[i]
        w = ax * th
        tmag = 0.0 if g.random() < 0.15 else 10.0 ** g.uniform(-6, 6)
        v = g.normal(size=3); v = v / np.linalg.norm(v) * tmag
        # ---- exp against the reference exponential -------------------------------------
        ok, R = L.noraise('exp-so3', lambda: b.trexp(w), dict(w=w), 'trexp(3-vector)')
        if ok: L.close('exp-so3', R, ref_exp(skew(w)), TOL, 1.0, dict(w=w))
        ok, R2 = L.noraise('exp-so3-matrix', lambda: b.trexp(skew(w)), dict(w=w), 'trexp(3x3)')
        if ok and R is not None: L.close('exp-so3-matrix', R2, R, 1e-12, 1.0, dict(w=w))
        vs = v if tmag <= 1e3 else v / tmag * 10.0 ** g.uniform(-6, 3)
        S = np.r_[vs, w]
        ok, T = L.noraise('exp-se3', lambda: b.trexp(S), dict(S=S), 'trexp(6-vector)')
        if ok:
            ref = ref_exp(skewa(S))
            L.close('exp-se3', T, ref, TOL, max(1.0, geom.tmag(ref)), dict(S=S))
        ok, T2 = L.noraise('exp-se3-matrix', lambda: b.trexp(skewa(S)), dict(S=S), 'trexp(4x4)')
        if ok and T is not None: L.close('exp-se3-matrix', T2, T, 1e-12, max(1.0, geom.tmag(T)), dict(S=S))
        # exp(S, theta) == exp(theta*S) for a unit twist
        if th > 1e-6:
            Su = np.r_[vs / th, ax]; 
            ok, r = L.noraise('exp-theta', lambda: (b.trexp(Su, th), b.trexp(Su * th)), dict(S=Su, theta=th), 'trexp(S, theta)')
            if ok: L.close('exp-theta', r[0], r[1], TOL, max(1.0, geom.tmag(r[1])), dict(S=Su, theta=th))
            ok, r = L.noraise('exp-theta-so3', lambda: (b.trexp(ax, th), b.trexp(ax * th)), dict(w=ax, theta=th), 'trexp(w, theta)')
            if ok: L.close('exp-theta-so3', r[0], r[1], TOL, 1.0, dict(w=ax, theta=th))
        # ---- log: finite, real, algebra form, magnitude <= pi, exp(log) = T ------------------
        Rm = inputs.rodrigues(ax, th)
        Tm = np.eye(4); Tm[:3, :3] = Rm; Tm[:3, 3] = v
        for twist in (False, True):
            tag = 'tw' if twist else 'mat'
            ok, Lg = L.noraise(f'log-so3-{tag}', lambda: b.trlog(Rm, check=False, twist=twist), dict(R=Rm, theta=th, axis=ax), 'trlog(R)')
            if ok:
                fr = finite_real(Lg)
                L.check(f'log-so3-{tag}:finite', fr, dict(R=Rm, theta=th, axis=ax), f'trlog(R, twist={twist}) is not finite/real at rotation magnitude {th:.3g}',
                        sig=f'log-so3:nonfinite', observed=repr(Lg)[:200])
                if fr:
                    wv = np.asarray(Lg, float) if twist else np.array([Lg[2, 1], Lg[0, 2], Lg[1, 0]], float)
                    if not twist:
                        L.check('log-so3:skew', float(np.max(np.abs(np.asarray(Lg, float) + np.asarray(Lg, float).T))) <= 1e-9, dict(R=Rm), 'log of a rotation is not skew-symmetric')
                    L.check('log-so3:magnitude', float(np.linalg.norm(wv)) <= math.pi + 1e-9, dict(R=Rm), 'rotation magnitude of log exceeds pi', observed=float(np.linalg.norm(wv)))
                    L.close(f'exp-log-so3-{tag}', ref_exp(skew(wv)), Rm, TOL, 1.0, dict(R=Rm, theta=th, axis=ax),
                            sig='exp-log-so3')
            ok, Lg = L.noraise(f'log-se3-{tag}', lambda: b.trlog(Tm, check=False, twist=twist), dict(T=Tm, theta=th), 'trlog(T)')
            if ok:
                fr = finite_real(Lg)
                L.check(f'log-se3-{tag}:finite', fr, dict(T=Tm, theta=th, axis=ax), f'trlog(T, twist={twist}) is not finite/real at rotation magnitude {th:.3g}',
                        sig='log-se3:nonfinite', observed=repr(Lg)[:200])
                if fr:
                    Sv = np.asarray(Lg, float) if twist else np.r_[Lg[:3, 3], Lg[2, 1], Lg[0, 2], Lg[1, 0]].astype(float)
                    if not twist:
                        Lf = np.asarray(Lg, float)
                        L.check('log-se3:form', float(np.max(np.abs(Lf[:3, :3] + Lf[:3, :3].T))) <= 1e-9 * max(1, tmag) and np.all(Lf[3, :] == 0), dict(T=Tm), 'log of a rigid motion is not of se(3) form')
                    L.check('log-se3:magnitude', float(np.linalg.norm(Sv[3:])) <= math.pi + 1e-9, dict(T=Tm), 'rotation magnitude of log exceeds pi')
                    L.close(f'exp-log-se3-{tag}', ref_exp(skewa(Sv)), Tm, TOL, max(1.0, tmag), dict(T=Tm, theta=th, axis=ax), sig='exp-log-se3')
        # ---- log(exp(S)) = S for rotation magnitude <= pi - 1e-6 -----------------------------
        if 1e-9 < th <= math.pi - 1e-6:
            ok, r = L.noraise('log-exp-so3', lambda: b.trlog(b.trexp(w), check=False, twist=True), dict(w=w), 'trlog(trexp(w))')
            if ok and finite_real(r): L.close('log-exp-so3', r, w, TOL, 1.0, dict(w=w))
            ok, r = L.noraise('log-exp-se3', lambda: b.trlog(b.trexp(S), check=False, twist=True), dict(S=S), 'trlog(trexp(S))')
            if ok and finite_real(r): L.close('log-exp-se3', r, S, TOL, max(1.0, float(np.linalg.norm(S[:3]))), dict(S=S))
        # ---- class wrappers ------------------------------------------------------------------
        if i % 3 == 0:
            ok, r = L.noraise('SO3.Exp', lambda: SO3.Exp(w).A, dict(w=w), 'SO3.Exp')
            if ok: L.close('SO3.Exp', r, ref_exp(skew(w)), TOL, 1.0, dict(w=w))
            ok, r = L.noraise('SE3.Exp', lambda: SE3.Exp(S).A, dict(S=S), 'SE3.Exp')
            if ok: L.close('SE3.Exp', r, ref_exp(skewa(S)), TOL, max(1.0, float(np.linalg.norm(S[:3]))), dict(S=S))
            ok, r = L.noraise('SE3.log', lambda: SE3(Tm, check=False).log(twist=True), dict(T=Tm), 'SE3.log')
            if ok and finite_real(r): L.close('SE3.log', ref_exp(skewa(np.asarray(r, float))), Tm, TOL, max(1.0, tmag), dict(T=Tm), sig='exp-log-se3')
            ok, r = L.noraise('SE3.Twist3', lambda: SE3(Tm, check=False).Twist3().SE3().A, dict(T=Tm), 'SE3 -> Twist3 -> SE3')
            if ok and finite_real(r): L.close('SE3.Twist3', r, Tm, TOL, max(1.0, tmag), dict(T=Tm), sig='exp-log-se3')
            # multi-valued twists: exp / SE3 / log(twist=True) act value by value, with and without a scalar theta
            S_b = np.r_[vs * 0.5, -w * 0.7]
            def multi_exp():
                Tw = Twist3([S, S_b])
                return ([np.asarray(a_, float) for a_ in Tw.exp().data], [np.asarray(a_, float) for a_ in Tw.exp(0.5).data], [np.asarray(a_, float) for a_ in Tw.SE3().data])
            ok, r = L.noraise('Twist3(multi).exp', multi_exp, dict(S1=S, S2=S_b), 'multi-valued Twist3.exp / SE3')
            if ok:
                wants = ([ref_exp(skewa(S)), ref_exp(skewa(S_b))], [Twist3(S).exp(0.5).A, Twist3(S_b).exp(0.5).A], [ref_exp(skewa(S)), ref_exp(skewa(S_b))])
                for got_, want_, nm_ in zip(r, wants, ('exp()', 'exp(0.5)', 'SE3()')):
                    L.check(f'Twist3(multi).{nm_}:len', len(got_) == 2, dict(S1=S, S2=S_b), f'multi-valued Twist3.{nm_} does not return one pose per twist', sig='Twist3(multi).exp:len')
                    if len(got_) == 2:
                        for g_, w_ in zip(got_, want_): L.close(f'Twist3(multi).{nm_}', g_, w_, TOL, max(1.0, geom.tmag(w_)), dict(S1=S, S2=S_b), sig='Twist3(multi).exp')
            for Xp, nm_ in ((SE3(Tm, check=False), 'SE3'), (SO3(Rm, check=False), 'SO3')):
                ok, r = L.noraise(f'{nm_}.log(twist)', lambda: (np.asarray(Xp.log(twist=True), float), np.asarray(b.trlog(Xp.A, check=False, twist=True), float), np.asarray(Xp.log(), float), np.asarray(b.trlog(Xp.A, check=False), float)),
                                  dict(T=Xp.A), f'{nm_}.log(twist=True)')
                if ok and all(np.all(np.isfinite(x_)) for x_ in r):
                    L.check(f'{nm_}.log(twist):shape', r[0].shape == r[1].shape and r[2].shape == r[3].shape, dict(T=Xp.A), f'{nm_}.log(twist=True) does not return the vector form', sig='class.log:form')
                    if r[0].shape == r[1].shape: L.close(f'{nm_}.log(twist)', r[0], r[1], 1e-12, max(1.0, tmag), dict(T=Xp.A), sig='class.log:value')
            ok, r = L.noraise('Twist3.exp', lambda: Twist3(S).exp().A, dict(S=S), 'Twist3.exp')
            if ok: L.close('Twist3.exp', r, ref_exp(skewa(S)), TOL, max(1.0, float(np.linalg.norm(S[:3]))), dict(S=S))
        # ---- Exp of N twists / rotation vectors (every N, N x 6 array and list of N vectors): element k is exp of row k
        if i % 6 == 1 and i < 300:      # (a fixed number of sweeps: each costs ~100 reference exponentials)
            for N_ in (1, 2, 3, 4, 5, 6, 7):
                SN = [np.r_[g.normal(size=3), axis(g) * float(g.uniform(0.1, 3.0))] for _ in range(N_)]
                for form_, arg_ in (('array', np.array(SN)), ('list', [list(x_) for x_ in SN])):
                    ok, r = L.noraise('SE3.Exp(N)', lambda: [np.asarray(x_, float) for x_ in SE3.Exp(arg_).data], dict(N=N_, form=form_), f'SE3.Exp of {N_} twists ({form_})', sig='SE3.Exp(N):raises')
                    if ok:
                        L.check('SE3.Exp(N):len', len(r) == N_, dict(N=N_, form=form_), f'SE3.Exp of {N_} twists returned {len(r)} poses', sig='SE3.Exp(N)')
                        if len(r) == N_:
                            for k_ in range(N_): L.close('SE3.Exp(N)', r[k_], ref_exp(skewa(SN[k_])), TOL, max(1.0, float(np.linalg.norm(SN[k_][:3]))), dict(N=N_, form=form_, k=k_), sig='SE3.Exp(N)')
                if True:
                    WN = np.array([x_[3:] for x_ in SN])      # so3=False: the documented way to say "rows are rotation vectors"
                    ok, r = L.noraise('SO3.Exp(N)', lambda: [np.asarray(x_, float) for x_ in SO3.Exp(WN, so3=False).data], dict(N=N_), f'SO3.Exp of {N_} rotation vectors (so3=False)', sig='SO3.Exp(N):raises')
                    if ok:
                        L.check('SO3.Exp(N):len', len(r) == N_, dict(N=N_), f'SO3.Exp of {N_} rotation vectors returned {len(r)} rotations', sig='SO3.Exp(N)')
                        if len(r) == N_:
                            for k_ in range(N_): L.close('SO3.Exp(N)', r[k_], ref_exp(skew(WN[k_])), TOL, 1.0, dict(N=N_, k=k_), sig='SO3.Exp(N)')
        # ---- 2-D ----------------------------------------------------------------------------
        th2 = th * float(g.choice([-1, 1])); t2 = v[:2] if tmag <= 1e3 else v[:2] / tmag
        S2 = np.r_[t2, th2]
        # several planar twists in one object: SE2() / exp() value by value (rotational and translational ones mixed)
        if i % 3 == 1:
            Sm2 = [S2, np.r_[t2, 0.0], np.r_[t2[::-1], -th2 / 2]]
            def multi2():
                X2 = Twist2([x_.copy() for x_ in Sm2])
                return [np.asarray(a_, float) for a_ in X2.SE2().data], [np.asarray(a_, float) for a_ in X2.exp().data]
            ok, r = L.noraise('Twist2(multi).SE2', multi2, dict(S=Sm2), 'multi-valued Twist2.SE2() / exp()', sig='Twist2(multi):raises')
            if ok:
                for nm_, got_ in (('SE2', r[0]), ('exp', r[1])):
                    L.check(f'Twist2(multi).{nm_}:len', len(got_) == 3, dict(S=Sm2), f'multi-valued Twist2.{nm_} does not give one pose per twist', sig='Twist2(multi)')
                    if len(got_) == 3:
                        for k_ in range(3):
                            Mk = np.array([[0, -Sm2[k_][2], Sm2[k_][0]], [Sm2[k_][2], 0, Sm2[k_][1]], [0, 0, 0]]); refk = ref_exp(Mk)
                            L.close(f'Twist2(multi).{nm_}', got_[k_], refk, TOL, max(1.0, geom.tmag(refk)), dict(S=Sm2, k=k_), what=f'value {k_} of multi-valued Twist2.{nm_}() is not the exponential of twist {k_}', sig='Twist2(multi)')
        # planar twist objects, also for twist vectors scaled to unit Euclidean length (|S| = 1 with a fractional rotational part)
        if i % 3 == 2:
            for Sx in (S2, S2 / max(np.linalg.norm(S2), 1e-300), np.r_[0.6, 0.0, 0.8] * float(g.choice([-1, 1]))):
                if not np.all(np.isfinite(Sx)) or np.linalg.norm(Sx) == 0: continue
                Mx = np.array([[0, -Sx[2], Sx[0]], [Sx[2], 0, Sx[1]], [0, 0, 0]])
                ok, r = L.noraise('Twist2.exp', lambda: (Twist2(Sx).exp().A, Twist2(Sx).SE2().A), dict(S=Sx), 'Twist2.exp() / SE2()', sig='Twist2.exp:raises')
                if ok:
                    refx = ref_exp(Mx)
                    L.close('Twist2.exp', r[0], refx, TOL, max(1.0, geom.tmag(refx)), dict(S=Sx), sig='Twist2.exp'); L.close('Twist2.SE2', r[1], refx, TOL, max(1.0, geom.tmag(refx)), dict(S=Sx), sig='Twist2.exp')
        M2 = np.array([[0, -th2, t2[0]], [th2, 0, t2[1]], [0, 0, 0]])
        ok, r = L.noraise('exp-se2', lambda: b.trexp2(S2), dict(S=S2), 'trexp2(3-vector)')
        if ok:
            ref = ref_exp(M2); L.close('exp-se2', r, ref, TOL, max(1.0, geom.tmag(ref)), dict(S=S2))
        ok, r = L.noraise('exp-so2', lambda: b.trexp2(th2), dict(w=th2), 'trexp2(scalar)')
        if ok: L.close('exp-so2', r, inputs.r2(th2), TOL, 1.0, dict(w=th2))
        T2 = np.eye(3); T2[:2, :2] = inputs.r2(th2); T2[:2, 2] = v[:2]
        for twist in (False, True):
            ok, Lg = L.noraise('log-se2', lambda: b.trlog2(T2, check=False, twist=twist), dict(T=T2, theta=th2), 'trlog2(T)')
            if ok:
                fr = finite_real(Lg)
                L.check('log-se2:finite', fr, dict(T=T2, theta=th2), f'trlog2(T) is not finite/real at rotation angle {th2:.6g}', sig='log-se2:nonfinite', observed=repr(Lg)[:200])
                if fr:
                    Sv = np.asarray(Lg, float) if twist else np.r_[Lg[0, 2], Lg[1, 2], Lg[1, 0]].astype(float)
                    L.check('log-se2:magnitude', abs(Sv[2]) <= math.pi + 1e-9, dict(T=T2), 'rotation magnitude of 2-D log exceeds pi')
                    Mv = np.array([[0, -Sv[2], Sv[0]], [Sv[2], 0, Sv[1]], [0, 0, 0]])
                    L.close('exp-log-se2', ref_exp(Mv), T2, TOL, max(1.0, tmag), dict(T=T2, theta=th2))
        R2m = inputs.r2(th2)
        ok, Lg = L.noraise('log-so2', lambda: b.trlog2(R2m, check=False, twist=True), dict(R=R2m, theta=th2), 'trlog2(R)')
        if ok:
            fr = finite_real(Lg)
            L.check('log-so2:finite', fr, dict(R=R2m, theta=th2), f'trlog2(R) is not finite/real at rotation angle {th2:.6g}', sig='log-so2:nonfinite', observed=repr(Lg)[:200])
            if fr: L.close('exp-log-so2', inputs.r2(float(np.asarray(Lg).ravel()[0])), R2m, TOL, 1.0, dict(R=R2m))
    # ---- exact half turns: R = 2aa' - I is exactly symmetric (zero skew part), the axis must come from the symmetric part ----
    half = [np.diag([1.0, -1, -1]), np.diag([-1.0, 1, -1]), np.diag([-1.0, -1, 1]),
            np.array([[0.0, 1, 0], [1, 0, 0], [0, 0, -1]]), np.array([[0.0, 0, 1], [0, -1, 0], [1, 0, 0]]), np.array([[-1.0, 0, 0], [0, 0, 1], [0, 1, 0]])]
    for a_ in ([1, 1, 0], [1, 0, 1], [0, 1, 1], [1, 1, 1], [3, 4, 0], [1, 2, 2], [2, 3, 6], [-1, 2, 2], [1, -4, 8]):
        a_ = np.array(a_, float); a_ = a_ / np.linalg.norm(a_)
        half.append(2 * np.outer(a_, a_) - np.eye(3))
    for k_ in range(6 if tier == 'quick' else 60):
        a_ = axis(g); H = 2 * np.outer(a_, a_) - np.eye(3); half.append((H + H.T) / 2)
    for H in half:
        inp = dict(R=H)
        for twist in (False, True):
            ok, Lg = L.noraise('log-halfturn', lambda: b.trlog(H, check=False, twist=twist), inp, 'trlog of an exactly symmetric half turn')
            if ok and finite_real(Lg):
                wv = np.asarray(Lg, float) if twist else np.array([Lg[2, 1], Lg[0, 2], Lg[1, 0]], float)
                L.close('exp-log-halfturn', ref_exp(skew(wv)), H, TOL, 1.0, inp, what='exp(log R) differs from R for an exactly symmetric half turn', sig='exp-log-so3:halfturn')
        Th = np.eye(4); Th[:3, :3] = H; Th[:3, 3] = [0.3, -1.2, 2.0]
        ok, Lg = L.noraise('log-halfturn-se3', lambda: b.trlog(Th, check=False, twist=True), dict(T=Th), 'trlog(T) with an exactly symmetric half turn')
        if ok and finite_real(Lg): L.close('exp-log-halfturn-se3', ref_exp(skewa(np.asarray(Lg, float))), Th, TOL, 3.0, dict(T=Th), sig='exp-log-se3:halfturn')
    # ---- planar half turns written exactly (rotation block -I, sine entries exactly 0) with a translation; multi-valued pose -> twist ----
    for k_ in range(6 if tier == 'quick' else 40):
        tx_, ty_ = (g.normal(size=2) * 10.0 ** g.uniform(-2, 3)); Th2 = np.array([[-1.0, 0.0, tx_], [0.0, -1.0, ty_], [0.0, 0.0, 1.0]])
        for nm_, Tq2 in (('float', Th2), ('negative zero', Th2 * np.array([[1, -1, 1], [-1, 1, 1], [1, 1, 1.0]])), ('from cos/sin(pi)', np.array([[math.cos(math.pi), -math.sin(math.pi), tx_], [math.sin(math.pi), math.cos(math.pi), ty_], [0, 0, 1.0]]))):
            inp = dict(T=Tq2, kind=nm_)
            ok, r = L.noraise('log-se2(half turn)', lambda: (b.trlog2(Tq2, check=False, twist=True), SE2(Tq2, check=False).log(twist=True), SE2(Tq2, check=False).Twist2().S), inp, 'trlog2 / SE2.log / SE2.Twist2 of an exact planar half turn')
            if ok:
                for nn_, Sv in zip(('trlog2', 'SE2.log', 'SE2.Twist2'), r):
                    Sv = np.asarray(Sv, float).flatten()
                    if finite_real(Sv):
                        Mv = np.array([[0, -Sv[2], Sv[0]], [Sv[2], 0, Sv[1]], [0, 0, 0]])
                        L.close(f'exp-log-se2(half turn):{nn_}', ref_exp(Mv), Tq2, TOL, max(1.0, float(np.hypot(tx_, ty_))), inp, what=f'exp({nn_}(T)) differs from T for a planar half turn with translation', sig='exp-log-se2:halfturn')
                    else: L.check(f'log-se2(half turn):{nn_}:finite', False, inp, f'{nn_} of a planar half turn is not finite', sig='log-se2:nonfinite')
    for k_ in range(4 if tier == 'quick' else 30):
        Tm_ = [np.block([[inputs.rodrigues(axis(g), float(g.uniform(0.1, 3.0))), (g.normal(size=3) * 10.0 ** g.uniform(-1, 2)).reshape(3, 1)], [np.zeros((1, 3)), np.ones((1, 1))]]) for _ in range(3)]
        Tm2_ = [np.array([[math.cos(a_), -math.sin(a_), x_], [math.sin(a_), math.cos(a_), y_], [0, 0, 1.0]]) for a_, x_, y_ in (g.normal(size=3), g.normal(size=3), g.normal(size=3))]
        for nm_, call_, singles_ in (('SE3.Twist3()', lambda: [np.asarray(x_, float) for x_ in SE3(Tm_, check=False).Twist3().data], lambda: [np.asarray(SE3(x_, check=False).Twist3().S, float) for x_ in Tm_]),
                                     ('SE3.log(twist)', lambda: [np.asarray(x_, float) for x_ in SE3(Tm_, check=False).log(twist=True)], lambda: [np.asarray(SE3(x_, check=False).log(twist=True), float) for x_ in Tm_]),
                                     ('SE2.Twist2()', lambda: [np.asarray(x_, float) for x_ in SE2(Tm2_, check=False).Twist2().data], lambda: [np.asarray(SE2(x_, check=False).Twist2().S, float) for x_ in Tm2_]),
                                     ('Twist3(SE3 multi)', lambda: [np.asarray(x_, float) for x_ in Twist3(SE3(Tm_, check=False)).data], lambda: [np.asarray(SE3(x_, check=False).Twist3().S, float) for x_ in Tm_])):
            ok, r = L.noraise(f'{nm_}(multi)', lambda: (call_(), singles_()), dict(N=3), f'{nm_} on a 3-valued pose', sig=f'pose->twist(multi):raises')
            if ok:
                L.check(f'{nm_}(multi):len', len(r[0]) == 3, dict(N=3), f'{nm_} on 3 poses gives {len(r[0])} values', sig='pose->twist(multi)')
                if len(r[0]) == 3:
                    for j_ in range(3): L.close(f'{nm_}(multi)', np.asarray(r[0][j_], float).flatten(), np.asarray(r[1][j_], float).flatten(), 1e-12, max(1.0, float(np.max(np.abs(r[1][j_])))), dict(N=3, k=j_), what=f'value k of {nm_} on a multi-valued pose is not the single-valued result', sig='pose->twist(multi)')
    # ---- obtuse rotations about near-degenerate axes: one or two leading components tiny (1e-7 .. 1e-4) but not zero -------------------
    for lead_ in (1e-7, 1e-6, 1e-5, 1e-4):
        for ax_, th_ in (((lead_, 0.6, 0.8), 2.0), ((0.0, 2 * lead_, 1.0), 3.0), ((lead_, lead_ * 3, 1.0), 2.5), ((0.6, lead_, -0.8), 1.8), ((lead_, -1.0, lead_ * 2), 2.9), ((-lead_, 0.8, 0.6), 1.7)):
            a_ = np.array(ax_, float); a_ = a_ / np.linalg.norm(a_); K_ = skew(a_)
            Rn = np.eye(3) + math.sin(th_) * K_ + (1 - math.cos(th_)) * K_ @ K_; Tn = np.eye(4); Tn[:3, :3] = Rn; Tn[:3, 3] = [0.3, -0.2, 0.5]
            inp = dict(R=Rn, axis=a_, theta=th_)
            ok, Lg = L.noraise('log-near-degenerate-axis', lambda: (b.trlog(Rn, check=False, twist=True), b.trlog(Tn, check=False, twist=True), b.trlog(Rn, check=False)), inp, 'trlog of an obtuse rotation about a near-degenerate axis', sig='log-so3:near-degenerate:raises')
            if ok and finite_real(Lg[0]) and finite_real(Lg[1]) and finite_real(Lg[2]):
                L.close('exp-log-near-degenerate-axis', ref_exp(skew(np.asarray(Lg[0], float))), Rn, TOL, 1.0, inp, what='exp(log R) differs from R for an obtuse rotation about an axis with a tiny leading component', sig='exp-log-so3')
                L.close('exp-log-near-degenerate-axis-se3', ref_exp(skewa(np.asarray(Lg[1], float))), Tn, TOL, 1.0, inp, sig='exp-log-se3'); L.close('exp-log-near-degenerate-axis-mat', ref_exp(np.asarray(Lg[2], float)), Rn, TOL, 1.0, inp, sig='exp-log-so3')
                L.close('log-near-degenerate-axis:value', np.asarray(Lg[0], float), a_ * th_, TOL, 1.0, inp, sig='exp-log-so3')
    # ---- the motion parameter at exactly zero (identity), negative, and as an array: S.exp(theta) = exp(theta S) for both twist classes ----
    for k_ in range(6 if tier == 'quick' else 40):
        S3z = Twist3(np.r_[g.normal(size=3), axis(g)]); S2z = Twist2(np.r_[g.normal(size=2), float(g.choice([-1.0, 1.0]))]); thz = float(g.uniform(0.2, 2.0))
        for nm_, Sz_, ref_ in (('Twist3', S3z, lambda t_: ref_exp(skewa(S3z.S * t_))), ('Twist2', S2z, lambda t_: ref_exp(np.array([[0, -S2z.S[2], S2z.S[0]], [S2z.S[2], 0, S2z.S[1]], [0, 0, 0]]) * t_))):
            for tv_ in (0, 0.0, -0.0, -thz, thz):
                ok, r = L.noraise(f'{nm_}.exp({tv_!r})', lambda: Sz_.exp(tv_).A, dict(S=Sz_.S, theta=tv_), f'{nm_}.exp(theta)')
                if ok: L.close(f'{nm_}.exp(theta)', r, ref_(float(tv_)), TOL, max(1.0, geom.tmag(ref_(float(tv_)))), dict(S=Sz_.S, theta=tv_), what=f'{nm_}.exp(theta) is not exp(theta S)' + (' at theta = 0 (the identity)' if tv_ == 0 else ''), sig=f'{nm_}.exp(theta)')
            for fm_, mk_ in (('array', np.array), ('list', list)):
                ok, r = L.noraise(f'{nm_}.exp({fm_})', lambda: [np.asarray(x_, float) for x_ in Sz_.exp(mk_([0.0, thz, -thz])).data], dict(S=Sz_.S), f'{nm_}.exp({fm_} of three angles, one of them 0)')
                if ok and len(r) == 3:
                    for j_, t_ in enumerate((0.0, thz, -thz)): L.close(f'{nm_}.exp({fm_})', r[j_], ref_(t_), TOL, max(1.0, geom.tmag(ref_(t_))), dict(S=Sz_.S, k=j_), sig=f'{nm_}.exp(theta)')
                elif ok: L.check(f'{nm_}.exp({fm_}):len', False, dict(S=Sz_.S), f'{nm_}.exp of three angles gives {len(r)} motions', sig=f'{nm_}.exp(theta)')
        for un_ in ('deg', 'rad'):
            ok, r = L.noraise(f'Twist.exp(units={un_}) without theta', lambda: (S3z.exp(units=un_).A, S2z.exp(units=un_).A if abs(S2z.S[2]) > 0 else None), dict(S=S3z.S, units=un_), 'S.exp(units=...) with theta omitted')
            if ok:
                L.close(f'Twist3.exp(units={un_})', r[0], ref_exp(skewa(S3z.S)), TOL, max(1.0, geom.tmag(r[0])), dict(S=S3z.S, units=un_), what='S.exp(units=...) with theta omitted is not exp(S): the implicit parameter 1 is not an angle to convert', sig='Twist3.exp(theta)')
                if r[1] is not None: L.close(f'Twist2.exp(units={un_})', r[1], ref_exp(np.array([[0, -S2z.S[2], S2z.S[0]], [S2z.S[2], 0, S2z.S[1]], [0, 0, 0]])), TOL, max(1.0, geom.tmag(r[1])), dict(S=S2z.S, units=un_), sig='Twist2.exp(theta)')
        ok, r = L.noraise('trexp(S, negative theta)', lambda: (b.trexp(S3z.S, -thz), b.trexp(skewa(S3z.S), -thz), b.trexp2(S2z.S, -thz)), dict(S=S3z.S, theta=-thz), 'trexp(S, theta) with negative theta')
        if ok:
            L.close('trexp(S,-theta)', r[0], ref_exp(skewa(S3z.S * -thz)), TOL, max(1.0, geom.tmag(r[0])), dict(S=S3z.S, theta=-thz), what='trexp(S, theta) with a negative theta is not exp(theta S)', sig='exp(S,theta)')
            L.close('trexp([S],-theta)', r[1], ref_exp(skewa(S3z.S * -thz)), TOL, max(1.0, geom.tmag(r[0])), dict(S=S3z.S, theta=-thz), sig='exp(S,theta)')
    # ---- quarter turns about generic axes (the sine of the angle is 1 to within rounding, on either side) ----------------------
    qaxes = [np.array([x_, y_, z_], float) for x_ in range(-4, 5) for y_ in range(-4, 5) for z_ in range(-4, 5) if (x_, y_, z_) != (0, 0, 0)]
    for k_, a_ in enumerate(qaxes if tier != 'quick' else qaxes[(seed % 3)::3]):
        a_ = a_ / np.linalg.norm(a_); K_ = skew(a_)
        for thq in (math.pi / 2, -math.pi / 2):
            # three ways of arriving at the same rotation, each with its own rounding: Rodrigues' formula, a change of frame, the matrix exponential
            e3_ = np.eye(3)[int(np.argmin(np.abs(a_)))]; x_ = np.cross(e3_, a_); x_ = x_ / np.linalg.norm(x_); Q_ = np.column_stack([x_, np.cross(a_, x_), a_])
            cz_, sz_ = math.cos(thq), math.sin(thq)
            for fm_, Rq in (('rodrigues', np.eye(3) + math.sin(thq) * K_ + (1 - math.cos(thq)) * K_ @ K_), ('Q Rz Q^T', Q_ @ np.array([[cz_, -sz_, 0], [sz_, cz_, 0], [0, 0, 1]]) @ Q_.T), ('expm', ref_exp(K_ * thq))):
                Tq = np.eye(4); Tq[:3, :3] = Rq; Tq[:3, 3] = [0.3, -0.2, 0.5]
                inp = dict(R=Rq, axis=a_, theta=thq, built=fm_)
                ok, Lg = L.noraise('log-quarter-turn', lambda: (b.trlog(Rq, check=False, twist=True), b.trlog(Tq, check=False, twist=True)), inp, 'trlog of a quarter turn about a generic axis', sig='log-so3:quarter-turn:raises')
                if ok and finite_real(Lg[0]) and finite_real(Lg[1]):
                    L.close('exp-log-quarter-turn', ref_exp(skew(np.asarray(Lg[0], float))), Rq, TOL, 1.0, inp, sig='exp-log-so3'); L.close('exp-log-quarter-turn-se3', ref_exp(skewa(np.asarray(Lg[1], float))), Tq, TOL, 1.0, inp, sig='exp-log-se3')
    # ---- exp(S, theta) = exp(theta S) for unit twists and any theta (many turns included): prismatic, zero-pitch and screw twists ----
    for k_ in range(30 if tier == 'quick' else 400):
        ax_ = axis(g); kind_ = ('prismatic', 'revolute', 'screw')[k_ % 3]
        Su = np.r_[ax_, 0, 0, 0] if kind_ == 'prismatic' else np.r_[np.cross(g.normal(size=3), ax_) + (0.0 if kind_ == 'revolute' else float(g.uniform(-2, 2))) * ax_, ax_]
        for thx in (math.pi, -math.pi, float(g.uniform(math.pi, 4 * math.pi)) * float(g.choice([-1, 1])), float(10.0 ** g.uniform(0, 6)) if kind_ == 'prismatic' else float(g.uniform(-1, 1))):
            inp = dict(S=Su, theta=thx, kind=kind_); refx = ref_exp(skewa(Su * thx)) if abs(thx) < 50 else np.block([[np.eye(3), (Su[:3] * thx).reshape(3, 1)], [np.zeros((1, 3)), np.ones((1, 1))]])
            ok, r = L.noraise('exp(S,theta)', lambda: (b.trexp(Su, thx), Twist3(Su).exp(thx).A, Twist3(Su).exp([thx, thx / 2])[0].A), inp, 'trexp(S, theta) / Twist3.exp(theta) for a unit twist')
            if ok:
                for nm_, got_ in zip(('trexp(S,theta)', 'Twist3.exp(theta)', 'Twist3.exp([theta, ..])[0]'), r):
                    L.close(f'{nm_}=exp(theta S)', got_, refx, TOL, max(1.0, geom.tmag(refx)), inp, what=f'{nm_} differs from the exponential of theta * S for a unit {kind_} twist', sig='exp(S,theta)')
    # ---- trexp2(S, theta) == trexp2(theta * S) for planar unit twists of either sense, vector and matrix form ---------------
    for k_ in range(40 if tier == 'quick' else 600):
        wsign = float(g.choice([-1.0, 1.0])); vv = g.normal(size=2) * 10.0 ** g.uniform(-3, 2)
        S2u = np.r_[vv, wsign]; th_ = float(g.uniform(-math.pi, math.pi))
        inp = dict(S=S2u, theta=th_)
        ok, r = L.noraise('exp2-theta', lambda: (b.trexp2(S2u, th_), b.trexp2(S2u * th_)), inp, 'trexp2(S, theta)')
        if ok: L.close('exp2-theta', r[0], r[1], TOL, max(1.0, geom.tmag(r[1])), inp, what='trexp2(S, theta) differs from trexp2(theta*S)', sig='exp2-theta')
        M2u = np.array([[0, -wsign, vv[0]], [wsign, 0, vv[1]], [0, 0, 0]])
        ok, r = L.noraise('exp2-theta-matrix', lambda: (b.trexp2(M2u, th_), ref_exp(M2u * th_)), inp, 'trexp2(se2 matrix, theta)')
        if ok: L.close('exp2-theta-matrix', r[0], r[1], TOL, max(1.0, geom.tmag(r[1])), inp, sig='exp2-theta')
        ok, r = L.noraise('exp2-theta-so2', lambda: (b.trexp2(wsign, th_), inputs.r2(wsign * th_)), dict(w=wsign, theta=th_), 'trexp2(w, theta)')
        if ok: L.close('exp2-theta-so2', r[0], r[1], TOL, 1.0, dict(w=wsign, theta=th_), sig='exp2-theta')
    return L.result()

if __name__ == '__main__':
    main_entry(_impl)
