"""C09 — sequence broadcasting: element-wise results and strict length rules (exhaustive over the stated grid)."""
import math, operator
import numpy as np
from .common import Laws, run_subprocess, main_entry
from .. import inputs

SPEC = dict(
    lean_modules=['SmVerif.Props.C09', 'SmVerif.Props.Multi'],
    groups=['Multi'],
    partial=['the broadcasting model (Logic.Broadcast) is hand-written; its tie to smuserlist.binop/_op2/unop is the exhaustive '
             'enumeration over lengths 1..5 with pairwise distinct elements'],
    assumptions=['element values are pairwise distinct so that a result taken from the wrong index or operand is visible'],
    technique='Lean 4 proof over a hand model of binop/_op2/unop (all lengths) + exhaustive correspondence on lengths 1..5',
)

def monitor(tier, seed, search=False):
    return run_subprocess('smv.props.c09', tier, seed, search)

def replay(rp):
    r = run_subprocess('smv.props.c09', 'quick', 0, True)
    hit = [v for v in r['violations'] if v['signature'] == rp.get('signature')]
    return dict(violates=bool(hit), detail=hit[:1])

def _impl(tier, seed, search):
    import spatialmath.base as b
    from spatialmath import SO2, SE2, SO3, SE3, Quaternion, UnitQuaternion, Twist2, Twist3
    from spatialmath.smuserlist import SMUserList
    def isobj(x): return isinstance(x, SMUserList)
    g = inputs.rng(seed)
    L = Laws('C09', rule='all list-capable classes x operators {*, /, +, -, ==, !=, **, pose*point} x all length pairs (m, n) in 1..5, '
                         'pairwise distinct elements; all per-value accessors on objects holding 1..5 values; exhaustive over this grid')
    CL = dict(SO2=(SO2, lambda: inputs.so2(g)), SE2=(SE2, lambda: inputs.se2(g, 1)), SO3=(SO3, lambda: inputs.so3(g)), SE3=(SE3, lambda: inputs.se3(g, 1)),
              Quaternion=(Quaternion, lambda: g.normal(size=4)), UnitQuaternion=(UnitQuaternion, lambda: inputs.unitq(g)),
              Twist2=(Twist2, lambda: np.r_[g.normal(size=2), g.uniform(-2, 2)]), Twist3=(Twist3, lambda: np.r_[g.normal(size=3), inputs.unit_axis(g) * g.uniform(0.1, 2.5)]))
    def int_member(c):
        """a value of the class with integer entries and integer dtype (what SE3(1, 2, 3) or an integer array gives)"""
        if c in ('SO2', 'SE2', 'SO3', 'SE3'):
            n_ = 2 if c in ('SO2', 'SE2') else 3
            M_ = np.eye(n_ + (1 if c in ('SE2', 'SE3') else 0), dtype=int)
            if c in ('SE2', 'SE3'): M_[:n_, n_] = g.integers(-4, 5, size=n_)
            return M_
        if c in ('Quaternion',): return np.array(g.integers(-4, 5, size=4), dtype=int) + np.array([5, 0, 0, 0])
        if c == 'UnitQuaternion': return np.array([1, 0, 0, 0], dtype=int)
        if c == 'Twist2': return np.array([int(g.integers(-3, 4)), int(g.integers(-3, 4)), 1], dtype=int)
        return np.array([int(g.integers(-3, 4)), int(g.integers(-3, 4)), int(g.integers(-3, 4)), 0, 0, 1], dtype=int)
    def mkobj(c, m, int_first=False):
        cls, one = CL[c]
        vals = [one() for _ in range(m)]
        if int_first == 'drift' and c in ('SO2', 'SE2', 'SO3', 'SE3'):
            # values as the library's own operators produce them after a long computation: valid to ~1e-14, not to the constructor's 100 eps
            drifted = [(((cls(v) ** -3) ** 4) ** 5) for v in vals]
            X = cls(); X.data = [np.array(d_.A, float) for d_ in drifted]
            return X, drifted
        if int_first == 'mixed' and c in ('SO2', 'SE2', 'SO3', 'SE3'):
            # proper and drifted values side by side in one object
            def drift_(v, eps):
                A_ = np.array(v, float); n_ = 2 if c in ('SO2', 'SE2') else 3
                A_[:n_, :n_] = A_[:n_, :n_] @ (np.eye(n_) + eps * (np.arange(n_ * n_).reshape(n_, n_) / (n_ * n_) - 0.3)); return cls(A_, check=False)
            objs = [drift_(v, 10.0 ** -(4 + k_)) if k_ % 2 else cls(v) for k_, v in enumerate(vals)]
            X = cls(); X.data = [np.array(d_.A, float) for d_ in objs]
            return X, objs
        if int_first is True: vals[0] = int_member(c)
        X = cls(vals[0]) if m == 1 else cls(vals)
        return X, [cls(v) for v in vals]
    def val(x):
        """comparable value of a single-valued result"""
        if isobj(x): return np.asarray(x.data[0], float)
        return np.asarray(x, float) if not isinstance(x, (bool, np.bool_)) else bool(x)
    def elems(res, n):
        """split a multi-valued result into n comparable items"""
        if isobj(res): return [np.asarray(a, float) for a in res.data]
        if isinstance(res, list): return [(bool(a) if isinstance(a, (bool, np.bool_)) else np.asarray(a, float)) for a in res]
        return None
    OPS = {'*': operator.mul, '/': operator.truediv, '+': operator.add, '-': operator.sub, '==': operator.eq, '!=': operator.ne}
    supports = dict(SO2='*/+-==!=', SE2='*/+-==!=', SO3='*/+-==!=', SE3='*/+-==!=', Quaternion='*+-==!=', UnitQuaternion='*/+-==!=', Twist2='*==!=', Twist3='*==!=')
    maxlen = 5
    for c in CL:
        for m in range(1, maxlen + 1):
            for n_ in range(1, maxlen + 1):
                for opn, f in OPS.items():
                    if opn[0] not in supports[c] and opn not in supports[c]: continue
                    if opn in ('==', '!=') and '==' not in supports[c]: continue
                    X, xs = mkobj(c, m); Y, ys = mkobj(c, n_)
                    inp = dict(cls=c, op=opn, m=m, n=n_)
                    L.count('binop', key=(c, opn, m, n_)); L.sample(f'binop:{c}', inp)
                    if m > 1 and n_ > 1 and m != n_:
                        try:
                            r = f(X, Y)
                            L.fail(f'length-mismatch-no-error:{c}:{opn}', f'{c} {opn} {c} with lengths {m} and {n_} must raise ValueError but returned a value', inp, observed=repr(r)[:100])
                        except ValueError:
                            pass
                        except Exception as e:
                            L.fail(f'length-mismatch-wrong-error:{c}:{opn}', f'{c} {opn} {c} with lengths {m} and {n_} raised {type(e).__name__}, not ValueError', inp, observed=type(e).__name__)
                        continue
                    try:
                        res = f(X, Y)
                    except Exception as e:
                        L.fail(f'binop-raises:{c}:{opn}:{"1" if m == 1 else "M"}x{"1" if n_ == 1 else "M"}', f'{c} {opn} {c} with lengths {m}, {n_} raised {type(e).__name__}: {str(e)[:80]}', inp, observed=type(e).__name__)
                        continue
                    k = max(m, n_)
                    try:
                        want = [f(xs[i if m > 1 else 0], ys[i if n_ > 1 else 0]) for i in range(k)]
                    except Exception as e:
                        continue      # the single-valued operation itself fails: not a broadcasting matter
                    if k == 1:
                        got = [val(res)] if not isinstance(res, list) else elems(res, 1)
                    else:
                        got = elems(res, k)
                    if got is None or len(got) != k:
                        L.fail(f'binop-length:{c}:{opn}', f'{c} {opn} {c} with lengths {m}, {n_} gave {("a result of length " + str(len(got))) if got is not None else "an unsplittable result"}; expected {k}', inp, observed=repr(res)[:120])
                        continue
                    for i in range(k):
                        w = val(want[i]) if not isinstance(want[i], list) else want[i][0]
                        gi = got[i]
                        same = (gi == w) if isinstance(w, bool) or isinstance(gi, bool) else (np.shape(gi) == np.shape(w) and np.allclose(gi, w, rtol=1e-12, atol=1e-12))
                        if not same:
                            L.fail(f'binop-element:{c}:{opn}:{"1" if m == 1 else "M"}x{"1" if n_ == 1 else "M"}', f'{c} {opn} {c} lengths {m}, {n_}: element {i} is not the single-valued result on the corresponding elements', inp, observed=repr(gi)[:120], required=repr(w)[:120])
                            break
            # binary methods (not operators) broadcast the same way: Quaternion.inner
            if c in ('Quaternion', 'UnitQuaternion'):
                for n_ in range(1, maxlen + 1):
                    X, xs = mkobj(c, m); Y, ys = mkobj(c, n_); inp = dict(cls=c, method='inner', m=m, n=n_)
                    L.count('binary-method', key=(c, 'inner', m, n_)); L.sample(f'binop:{c}', inp)
                    if m > 1 and n_ > 1 and m != n_:
                        try:
                            r = X.inner(Y)
                            L.fail(f'length-mismatch-no-error:{c}:inner', f'{c}.inner with lengths {m} and {n_} must raise ValueError but returned a value', inp, observed=repr(r)[:100])
                        except ValueError: pass
                        except Exception as e: L.fail(f'length-mismatch-wrong-error:{c}:inner', f'{c}.inner with lengths {m} and {n_} raised {type(e).__name__}, not ValueError', inp, observed=type(e).__name__)
                        continue
                    try: res = X.inner(Y); want = [float(xs[i if m > 1 else 0].inner(ys[i if n_ > 1 else 0])) for i in range(max(m, n_))]
                    except Exception as e:
                        L.fail(f'binop-raises:{c}:inner', f'{c}.inner with lengths {m}, {n_} raised {type(e).__name__}', inp, observed=type(e).__name__); continue
                    got = np.atleast_1d(np.asarray(res, float))
                    if got.shape != (max(m, n_),) or not np.allclose(got, want, rtol=1e-12, atol=1e-12):
                        L.fail(f'binop-element:{c}:inner', f'{c}.inner with lengths {m}, {n_} is not the element-wise inner product (shape {got.shape})', inp, observed=got.tolist() if got.size < 30 else list(got.shape))
            # the same object on both sides: still one result per value
            if m > 1:
                for opn, f in list(OPS.items()):
                    if opn[0] not in supports[c] and opn not in supports[c]: continue
                    X, xs = mkobj(c, m); inp = dict(cls=c, op=opn, m=m, same_object=True)
                    L.count('binop-same-object', key=(c, opn, m)); L.sample(f'binop:{c}', inp)
                    try: res = f(X, X); want = [f(x_, x_) for x_ in xs]
                    except Exception: continue
                    got = elems(res, m)
                    if got is None or len(got) != m:
                        L.fail(f'binop-length:{c}:{opn}', f'X {opn} X for one {c} object holding {m} values gave {repr(res)[:60]}; expected {m} results', inp, observed=repr(res)[:100]); continue
                    for i in range(m):
                        w = val(want[i]) if not isinstance(want[i], list) else want[i][0]
                        gi = got[i]
                        same = (gi == w) if isinstance(w, bool) or isinstance(gi, bool) else (np.shape(gi) == np.shape(w) and np.allclose(gi, w, rtol=1e-12, atol=1e-12))
                        if not same: L.fail(f'binop-element:{c}:{opn}:MxM', f'X {opn} X for one {c} object holding {m} values: element {i} is not the single-valued result', inp); break
            for int_first in (False, True, 'drift', 'mixed'):
                if int_first is True and m == 1: continue
                if int_first in ('drift', 'mixed') and (c not in ('SO2', 'SE2', 'SO3', 'SE3') or m not in ((1, 3) if int_first == 'drift' else (2, 3))): continue
                # power and unary / per-value methods on an m-valued object (second pass: the first value has integer entries / dtype)
                X, xs = mkobj(c, m, int_first)
                inp = dict(cls=c, m=m, first_value_integer=int_first)
                methods = {}
                if c in ('SO2', 'SE2', 'SO3', 'SE3'):
                    methods = {'inv': lambda Z: Z.inv(), 'R': lambda Z: Z.R, 'det': lambda Z: Z.det(), '**2': lambda Z: Z ** 2, '**-1': lambda Z: Z ** -1, '**0': lambda Z: Z ** 0, '**1': lambda Z: Z ** 1, '**3': lambda Z: Z ** 3, '**-2': lambda Z: Z ** -2,
                               'log': lambda Z: Z.log(), 'norm': lambda Z: Z.norm(),
                               'interp(0.3)': lambda Z: Z.interp(0.3), 'interp(0)': lambda Z: Z.interp(0), 'interp(1)': lambda Z: Z.interp(1), 'interp(0.0)': lambda Z: Z.interp(0.0)}
                    if c in ('SE2', 'SE3'): methods['t'] = lambda Z: Z.t
                    if c in ('SO3', 'SE3'): methods.update({'eul': lambda Z: Z.eul(), 'rpy': lambda Z: Z.rpy(), 'angvec': lambda Z: Z.angvec(),
                                                            'rpy(xyz)': lambda Z: Z.rpy(order='xyz'), 'rpy(yxz)': lambda Z: Z.rpy(order='yxz'), 'rpy(deg)': lambda Z: Z.rpy(unit='deg'),
                                                            'eul(deg)': lambda Z: Z.eul(unit='deg'), 'eul(flip)': lambda Z: Z.eul(flip=True), 'eul(flip,deg)': lambda Z: Z.eul(unit='deg', flip=True), 'angvec(deg)': lambda Z: Z.angvec(unit='deg')})
                    if c in ('SO2', 'SE2'): methods.update({'theta': lambda Z: Z.theta(), 'theta(deg)': lambda Z: Z.theta(unit='deg')})
                    if c == 'SE2': methods['xyt'] = lambda Z: Z.xyt(); methods['SE3()'] = lambda Z: Z.SE3()
                    if c == 'SO2': methods['SE2()'] = lambda Z: Z.SE2()
                    p = g.normal(size=2 if c in ('SO2', 'SE2') else 3)
                    methods['*point'] = lambda Z: Z * p
                elif c in ('Quaternion', 'UnitQuaternion'):
                    methods = {'conj': lambda Z: Z.conj(), 'norm': lambda Z: Z.norm(), 's': lambda Z: Z.s, 'v': lambda Z: Z.v, 'vec': lambda Z: Z.vec, '**2': lambda Z: Z ** 2, '**-1': lambda Z: Z ** -1, '**0': lambda Z: Z ** 0, '**3': lambda Z: Z ** 3}
                    if c == 'UnitQuaternion':
                        methods.update({'inv': lambda Z: Z.inv(), 'R': lambda Z: Z.R, 'rpy': lambda Z: Z.rpy(), 'eul': lambda Z: Z.eul(),
                                        'rpy(xyz)': lambda Z: Z.rpy(order='xyz'), 'rpy(deg)': lambda Z: Z.rpy(unit='deg'), 'eul(deg)': lambda Z: Z.eul(unit='deg'), '*point': (lambda p_: lambda Z: Z * p_)(g.normal(size=3))})
                else:
                    methods = {'inv': lambda Z: Z.inv(), 'exp': lambda Z: Z.exp(), 'S': lambda Z: Z.S}
                    if c == 'Twist3': methods.update({'v': lambda Z: Z.v, 'w': lambda Z: Z.w, 'pitch': lambda Z: Z.pitch(), 'theta': lambda Z: Z.theta(), 'se3': lambda Z: Z.se3()})
                    else: methods.update({'v': lambda Z: Z.v, 'w': lambda Z: Z.w, 'se2': lambda Z: Z.se2()})
                # … and again after the object has been edited in place without changing its length (reversed; one value overwritten):
                # nothing remembered from the first pass may survive the edit
                for phase in ('', 'reversed', 'setitem'):
                    if phase and (m == 1 or int_first is not False): continue
                    try:
                        if phase == 'reversed': X.reverse(); xs = xs[::-1]
                        elif phase == 'setitem': X[0] = xs[-1]; xs = [xs[-1]] + xs[1:]
                    except Exception: break
                    for mn, f in methods.items():
                        L.count('per-value', key=(c, mn, m, phase)); L.sample(f'per-value:{c}', dict(inp, method=mn))
                        try:
                            want = [f(x) for x in xs]
                        except Exception:
                            continue       # single-valued method itself fails (other properties)
                        try:
                            res = f(X)
                        except Exception as e:
                            L.fail(f'per-value-raises:{c}.{mn}:{"1" if m == 1 else "M"}', f'{c}.{mn} on an object holding {m} values raised {type(e).__name__}: {str(e)[:80]}', dict(inp, method=mn), observed=type(e).__name__)
                            continue
                        if m == 1:
                            continue
                        def flat(v):
                            if isobj(v): return np.asarray(v.data[0], float).ravel()
                            if isinstance(v, tuple): return np.concatenate([np.ravel(np.asarray(t_, float)) for t_ in v])
                            return np.ravel(np.asarray(v, float))
                        W = [flat(w) for w in want]
                        if isobj(res): G = [np.asarray(a, float).ravel() for a in res.data]
                        elif isinstance(res, (list, tuple)) and len(res) == m: G = [flat(a) for a in res]
                        else:
                            A = np.asarray(res, float)
                            G = None
                            if mn == '*point' and A.ndim == 2 and A.shape[1] == m: G = [A[:, i].ravel() for i in range(m)]       # documented layout: one column per value
                            elif A.ndim >= 1 and A.shape[0] == m: G = [A[i].ravel() for i in range(m)]
                            if (G is None or any(gi.shape != wi.shape or not np.allclose(gi, wi, atol=1e-12, equal_nan=True) for gi, wi in zip(G, W))) and A.ndim >= 2 and A.shape[-1] == m:
                                G2 = [A[..., i].ravel() for i in range(m)]
                                if all(gi.shape == wi.shape and np.allclose(gi, wi, atol=1e-12, equal_nan=True) for gi, wi in zip(G2, W)): G = G2
                        if G is None or len(G) != m:
                            L.fail(f'per-value-count:{c}.{mn}', f'{c}.{mn} on {m} values does not return {m} results', dict(inp, method=mn), observed=repr(res)[:120]); continue
                        for i in range(m):
                            if G[i].shape != W[i].shape or not np.allclose(G[i], W[i], rtol=1e-12, atol=1e-12, equal_nan=True):
                                L.fail(f'per-value-element:{c}.{mn}', f'{c}.{mn} on {m} values{(" after an in-place edit (" + phase + ")") if phase else ""}: result {i} differs from the method applied to element {i}', dict(inp, method=mn, after=phase), observed=repr(G[i])[:100], required=repr(W[i])[:100])
                                break
    # special values inside a sequence: attitudes at and next to pitch = +-90 deg, poses exactly half a turn from the start of an interpolation,
    # quaternions stored in narrow dtypes — element i of the multi-valued result is still the single-valued result
    from spatialmath import UnitQuaternion as _UQ, Quaternion as _Q, SO3 as _SO3, SE3 as _SE3
    from spatialmath import base as _b
    def per_value_(tag, X_, f_, tol=1e-9):
        L.count('per-value(special)', key=tag)
        try: singles_ = [f_(x_) for x_ in X_]
        except Exception: return
        try: multi_ = f_(X_)
        except Exception as e:
            L.fail(f'per-value-raises:{tag}', f'{tag} on a sequence raised {type(e).__name__}', dict(case=tag)); return
        rows_ = [np.asarray(a_.A if hasattr(a_, 'A') and not isinstance(a_, np.ndarray) else a_, float) for a_ in (multi_.data if hasattr(multi_, 'data') else multi_)] if not isinstance(multi_, np.ndarray) else [np.asarray(multi_[k_], float) for k_ in range(len(X_))]
        if len(rows_) != len(X_): L.fail(f'per-value-count:{tag}', f'{tag} on {len(X_)} values returns {len(rows_)} results', dict(case=tag)); return
        for k_, (got_, one_) in enumerate(zip(rows_, singles_)):
            one_ = np.asarray(one_.A if hasattr(one_, 'A') and not isinstance(one_, np.ndarray) else one_, float)
            got_, one_ = np.ravel(got_), np.ravel(one_)
            if got_.shape != one_.shape or not np.allclose(got_, one_, rtol=tol, atol=tol):
                L.fail(f'per-value-element:{tag}', f'{tag}: result {k_} on a sequence differs from the method applied to element {k_}', dict(case=tag, k=k_), observed=got_.tolist(), required=one_.tolist()); return
    for rep_ in range(2 if tier == 'quick' else 12):
        qs_ = [_UQ.RPY([float(g.uniform(-1, 1)), p_, float(g.uniform(-1, 1))]) for p_ in (math.pi / 2, -math.pi / 2, math.pi / 2 - 10.0 ** g.uniform(-9, -7.5), 0.3, -math.pi / 2 + 10.0 ** g.uniform(-9, -7.5))]
        Xq_ = _UQ([q_.vec for q_ in qs_])
        for o_ in ('zyx', 'xyz', 'yxz'):
            per_value_(f'UnitQuaternion.rpy({o_})(singular values)', Xq_, lambda Z_: _b.rpy2r(Z_.rpy(order=o_), order=o_) if len(Z_) == 1 else np.array([_b.rpy2r(r_, order=o_) for r_ in Z_.rpy(order=o_)]), 1e-6)
            per_value_(f'SO3.rpy({o_})(singular values)', _SO3([q_.R for q_ in qs_]), lambda Z_: _b.rpy2r(Z_.rpy(order=o_), order=o_) if len(Z_) == 1 else np.array([_b.rpy2r(r_, order=o_) for r_ in (lambda A_: A_.T if A_.shape == (3, len(Z_)) else A_)(np.asarray(Z_.rpy(order=o_)))]), 1e-6)
        per_value_('UnitQuaternion.rpy(values, near singular)', _UQ([q_.vec for q_ in qs_[2:]]), lambda Z_: Z_.rpy() if len(Z_) == 1 else np.asarray(Z_.rpy()), 1e-9)
        S0_ = _SE3(inputs.se3(g, 1), check=False)
        Xh_ = _SE3([(S0_ * _SE3.Rx(math.pi)).A, (S0_ * _SE3(1, 2, 3) * _SE3.AngVec(math.pi, [1, 2, 2])).A, (S0_ * _SE3.Rz(0.3)).A], check=False)
        for s_ in (0.3, 0.75):
            per_value_(f'SE3.interp(s={s_}, start)(half turn from the start)', Xh_, lambda Z_: Z_.interp(s_, start=S0_), 1e-9)
            per_value_(f'SO3.interp(s={s_}, start)(half turn from the start)', _SO3([x_.R for x_ in Xh_]), lambda Z_: Z_.interp(s_, start=_SO3(S0_.R)), 1e-9)
        for dt_, vals_ in ((np.int16, [[12000, -9000, 7000, 3000], [16384, 0, 0, 0], [-20000, 15000, 1000, 2]]), (np.int32, [[2 ** 30, -2 ** 29, 12345, 7], [100000, 200000, -300000, 400000]]), (np.float32, [[0.1, 0.2, 0.3, 0.4], [1e-3, 5.0, -2.0, 7.5]]),
                           (np.int64, [[3 * 10 ** 9, 1, 2, 3], [1, 2, 3, 4]])):
            arrs_ = [np.array(v_, dtype=dt_) for v_ in vals_]
            try: Xn_ = _Q(arrs_)
            except Exception: continue
            per_value_(f'Quaternion.norm({dt_.__name__})', Xn_, lambda Z_: np.asarray(Z_.norm(), float).reshape(-1) if len(Z_) > 1 else np.asarray([float(Z_.norm())]), 1e-12)
    # one twist with several angles (1 x M): motion k is exp(theta_k S), for prismatic, revolute, screw and general twists, in both units
    from spatialmath import Twist3 as _T3, Twist2 as _T2
    for rep_ in range(3 if tier == 'quick' else 30):
        ax_ = inputs.unit_axis(g); tws_ = {'prismatic': _T3(np.r_[ax_ * float(g.uniform(0.5, 2)), 0, 0, 0]), 'revolute': _T3.Revolute(ax_, g.normal(size=3)), 'screw': _T3(np.r_[g.normal(size=3), ax_]), 'general': _T3(g.normal(size=6)),
                                          'prismatic2': _T2(np.r_[g.normal(size=2), 0]), 'revolute2': _T2.Revolute(g.normal(size=2)), 'general2': _T2(g.normal(size=3))}
        for kn_, S_ in tws_.items():
            for M_ in (2, 3):
                ths_ = [float(g.uniform(-2, 2)) for _ in range(M_)]
                for un_ in ('rad', 'deg'):
                    arg_ = ths_ if un_ == 'rad' else [math.degrees(t_) for t_ in ths_]
                    if un_ == 'deg' and kn_.startswith('prismatic'): continue
                    inp = dict(twist=kn_, thetas=ths_, units=un_)
                    L.count('twist-exp-1xM', key=(kn_, M_, un_)); L.sample('twist-exp-1xM', inp)
                    try: want_ = [np.asarray(S_.exp(t_).A, float) for t_ in ths_]
                    except Exception: continue
                    for fm_, mk_ in (('list', list), ('array', np.array), ('tuple', tuple)):
                        try: got_ = S_.exp(mk_(arg_), units=un_) if un_ == 'deg' else S_.exp(mk_(arg_))
                        except Exception as e:
                            L.fail(f'per-value-raises:{type(S_).__name__}.exp(1xM)', f'{type(S_).__name__}.exp({fm_} of {M_} angles) on a {kn_} twist raised {type(e).__name__}', dict(inp, form=fm_)); continue
                        if len(got_) != M_: L.fail(f'per-value-count:{type(S_).__name__}.exp(1xM)', f'{type(S_).__name__}.exp of {M_} angles gives {len(got_)} motions', dict(inp, form=fm_)); continue
                        for k_ in range(M_):
                            if not np.allclose(np.asarray(got_.data[k_], float), want_[k_], rtol=0, atol=1e-12 * max(1.0, float(np.max(np.abs(want_[k_]))))):
                                L.fail(f'per-value-element:{type(S_).__name__}.exp(1xM)', f'{type(S_).__name__}.exp({fm_} of angles) on a {kn_} twist: motion {k_} is not exp(theta_{k_} S)', dict(inp, form=fm_, k=k_)); break
    # == and != on sequences decide each pair exactly as the single-valued operator does — also for nearly equal values
    for c in CL:
        cls, one = CL[c]
        base_vals = [np.array(one(), float) for _ in range(4)]
        def nudge(v, eps):
            if c in ('SO2', 'SE2', 'SO3', 'SE3'):
                d_ = 2 if c in ('SO2', 'SE2') else 3
                w = v.copy(); Rn = (inputs.r2(eps) if d_ == 2 else inputs.rodrigues(np.array([0.0, 0.0, 1.0]), eps)); w[:d_, :d_] = w[:d_, :d_] @ Rn; return w
            if c == 'UnitQuaternion':
                dq = np.r_[math.cos(eps / 2), math.sin(eps / 2), 0, 0]; return b.qqmul(v, dq)
            w = v.copy(); w[0] += eps; return w
        others = [base_vals[0].copy(), nudge(base_vals[1], 1e-8), nudge(base_vals[2], 1e-5), (-base_vals[3] if c == 'UnitQuaternion' else nudge(base_vals[3], 1e-11))]
        X = cls([v for v in base_vals]); Y = cls([v for v in others])
        xs = [cls(v) for v in base_vals]; ys = [cls(v) for v in others]
        for opn, f in (('==', operator.eq), ('!=', operator.ne)):
            for (A, As, B, Bs, tag) in ((X, xs, Y, ys, 'MxM'), (xs[1], [xs[1]] * 4, Y, ys, '1xM'), (X, xs, ys[1], [ys[1]] * 4, 'Mx1')):
                L.count('eq-sensitive', key=(c, opn, tag))
                try:
                    got = list(f(A, B)); want = [bool(f(a_, b_)) for a_, b_ in zip(As, Bs)]
                except Exception as e:
                    L.fail(f'eq-sequence-raises:{c}:{opn}', f'{c} {opn} on sequences raised {type(e).__name__}', dict(cls=c, op=opn, shape=tag)); continue
                if [bool(g_) for g_ in got] != want:
                    L.fail(f'eq-sequence:{c}:{opn}', f'{c} {opn} {c} on sequences ({tag}) decides nearly equal values differently from the single-valued operator', dict(cls=c, op=opn, shape=tag), observed=[bool(g_) for g_ in got], required=want)
    # interpolation over a vector of s
    for c in ('SO2', 'SE2', 'SO3', 'SE3'):
        X, xs = mkobj(c, 1); svec = [0.0, 0.25, 0.7, 1.0]
        L.count('interp-vector', key=c)
        try: want = [val(X.interp(s)) for s in svec]
        except Exception: continue
        try:
            res = X.interp(svec)
            G = [np.asarray(a, float) for a in res.data]
            if len(G) != 4 or any(not np.allclose(gg, ww, atol=1e-12) for gg, ww in zip(G, want)):
                L.fail(f'interp-vector:{c}', f'{c}.interp(vector of s) is not the sequence of single interpolations', dict(cls=c, s=svec))
        except Exception as e:
            L.fail(f'interp-vector-raises:{c}', f'{c}.interp(vector of s) raised {type(e).__name__}', dict(cls=c, s=svec))
    # round 11: isunit of a multi-valued twist is the single-valued answer for each value, also for values a hair off unit norm
    for nm_, cls_, vals_ in (('Twist3', _T3, [np.array([0.0, 0, 0, 0, 0, 1.0]) * (1 + 1e-6), np.array([0.6, 0, 0, 0, 0.8, 0.0]), np.array([0.6, 0, 0, 0, 0.8, 0.0]) * (1 - 3e-7), np.array([1.0, 2, 3, 0, 0, 1])]),
                             ('Twist2', _T2, [np.array([0.0, 0.0, 1.0]) * (1 + 1e-6), np.array([0.6, 0.0, 0.8]), np.array([0.6, 0.0, 0.8]).astype(np.float32).astype(float), np.array([3.0, 1.0, 1.0])])):
        inp_ = dict(cls=nm_, values=[list(v_) for v_ in vals_])
        ok, r = L.noraise(f'{nm_}.isunit(multi)', lambda: ([bool(x_) for x_ in cls_(vals_).isunit], [bool(cls_(v_).isunit) for v_ in vals_]), inp_, f'{nm_}.isunit on a sequence', sig=f'isunit-multi:{nm_}:raises')
        if ok: L.check(f'{nm_}.isunit(multi)', r[0] == r[1], inp_, f'{nm_}.isunit on a sequence differs from isunit of each value', observed=r[0])
    # round 11: the twist predicates and exp with a unit on an object holding several twists: one answer per value, equal to the single-valued answer
    for nm_, cls_, vals_ in (('Twist3', _T3, [np.array([0.0, 0, 0, 0, 0, 1.0]), np.array([1.0, 2, 3, 0, 0, 0]), np.array([1.0, -2, 0.5, 0.2, 0.3, -0.4])]),
                             ('Twist2', _T2, [np.array([0.0, 0.0, 1.0]), np.array([1.0, 2.0, 0.0]), np.array([3.0, 1.0, -0.5])])):
        inp_ = dict(cls=nm_, values=[list(v_) for v_ in vals_])
        for pr_ in ('isprismatic', 'isrevolute'):
            ok, r = L.noraise(f'{nm_}.{pr_}(multi)', lambda: ([bool(x_) for x_ in getattr(cls_(vals_), pr_)], [bool(getattr(cls_(v_), pr_)) for v_ in vals_]), inp_, f'{nm_}.{pr_} on a sequence',
                              sig=f'per-value-raises:{nm_}.{pr_}:M')
            if ok: L.check(f'{nm_}.{pr_}(multi)', r[0] == r[1], inp_, f'{nm_}.{pr_} on a sequence differs from the answer for each value', observed=r[0])
        rev_ = [vals_[0], vals_[2]]
        ok, r = L.noraise(f'{nm_}.exp(theta, deg)(multi)', lambda: ([np.asarray(x_.A, float) for x_ in cls_(rev_).exp(40.0, units='deg')], [np.asarray(cls_(v_).exp(40.0, units='deg').A, float) for v_ in rev_]),
                          dict(cls=nm_, values=[list(v_) for v_ in rev_], theta_deg=40.0), f'{nm_}.exp(theta, units="deg") on a sequence', sig=f'per-value-raises:{nm_}.exp(deg):M')
        if ok:
            L.check(f'{nm_}.exp(theta, deg)(multi):len', len(r[0]) == len(r[1]), inp_, 'one pose per twist expected')
            for A_, B_ in zip(*r): L.close(f'{nm_}.exp(theta, deg)(multi)', A_, B_, 1e-15, max(1.0, float(np.max(np.abs(B_)))), inp_, what='exp on a sequence of twists differs from exp of each twist', sig=f'{nm_}.exp(deg):M')
    res = L.result(); res['exhaustive'] = True
    return res

def correspondence(tier, seed):
    from .common import model_correspondence
    return model_correspondence('smv.props.c09', tier, seed)

def _corr(tier, seed):
    """which element pairs `binop` / `_op2` combine for operands of n and m values (n, m in 1..7), on the real classes,
    vs Logic.Broadcast.binop on index lists"""
    from spatialmath import SE3, SO2, Twist3, UnitQuaternion, Quaternion
    rows = []
    mx = 6 if tier == 'quick' else 9
    def tagged(cname, n, off):
        if cname == 'SE3': X = SE3([SE3(float(off + i), 0, 0) for i in range(n)]) if n > 1 else SE3(float(off), 0, 0)
        elif cname == 'SO2': X = SO2([SO2(0.01 * (off + i)) for i in range(n)]) if n > 1 else SO2(0.01 * off)
        elif cname == 'Twist3': X = Twist3([Twist3([float(off + i), 0, 0, 0, 0, 0]) for i in range(n)]) if n > 1 else Twist3([float(off), 0, 0, 0, 0, 0])
        elif cname == 'Quaternion': X = Quaternion([Quaternion([float(off + i), 0, 0, 0]) for i in range(n)]) if n > 1 else Quaternion([float(off), 0, 0, 0])
        return X
    ident = dict(SE3=lambda a: int(round(a[0, 3])), SO2=lambda a: int(round(math.atan2(a[1, 0], a[0, 0]) / 0.01)),
                 Twist3=lambda a: int(round(a[0])), Quaternion=lambda a: int(round(a[0])))
    for cname in ('SE3', 'SO2', 'Twist3', 'Quaternion'):
        idf = ident[cname]
        for n in range(1, mx + 1):
            for m in range(1, mx + 1):
                for meth in (('binop', '_op2') if cname in ('SE3', 'SO2') else ('binop',)):
                    X = tagged(cname, n, 0); Y = tagged(cname, m, 100)
                    op = lambda x, y: f'{idf(np.asarray(x, float))}-{idf(np.asarray(y, float)) - 100}'
                    try:
                        r = getattr(X, meth)(Y, op)
                        if isinstance(r, str): r = [r]
                        exp = ','.join(r) if len(r) else '-'
                    except ValueError:
                        exp = 'ValueError'
                    except Exception as e:
                        exp = 'exc:' + type(e).__name__
                    rows.append(dict(req=f'logic bcast {n} {m}', exp=exp, meta=dict(cls=cname, method=meth)))
    return rows

if __name__ == '__main__':
    main_entry(_impl, _corr)
