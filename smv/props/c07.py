"""C07 — invalid values are rejected: objects never hold non-members (enumeration + float monitor)."""
import math
import numpy as np
from .common import Laws, run_subprocess, main_entry
from .. import inputs
from . import geom

SPEC = dict(
    technique='Lean 4 proof (validity predicates, argument-handler model) + model/implementation correspondence + perturbation monitor',
    lean_modules=['SmVerif.Props.C07', 'SmVerif.Props.VecPreds'],
    groups=['TransformsNd', 'Transforms3d', 'Transforms2d', 'Vectors', 'Quaternions'],
    expected_untranslatable=('trinterp_T', 'trinterp_T_nostart'),
    partial=['"residual small => distance to the group small" (polar decomposition) is not proved: the 1e-6 band around each '
             'threshold is explored; constructor argument handling is a hand model (Logic.ArgHandler) tied by exhaustive enumeration'],
    assumptions=['perturbation magnitudes 1e-12..1 in any entry; all container forms each constructor accepts'],
)

def monitor(tier, seed, search=False):
    return run_subprocess('smv.props.c07', tier, seed, search)

def replay(rp):
    r = run_subprocess('smv.props.c07', 'quick', 0, True)
    hit = [v for v in r['violations'] if v['signature'] == rp.get('signature')]
    return dict(violates=bool(hit), detail=hit[:1])

def _impl(tier, seed, search):
    import spatialmath.base as b
    from spatialmath import SO2, SE2, SO3, SE3, UnitQuaternion, Twist2, Twist3
    g = inputs.rng(seed)
    n = 40 if tier == 'quick' else 600
    if search: n *= 3
    L = Laws('C07', rule='(class x container form x defect kind x position) enumerated for every class; members perturbed by 1e-12..1 in any entry, '
                         'reflections, last-row corruptions; predicates with check on; a case = one constructor call or predicate evaluation')
    special = [None]
    def good(cname):
        M = dict(SO2=lambda: inputs.so2(g), SE2=lambda: inputs.se2(g, 2), SO3=lambda: inputs.so3(g), SE3=lambda: inputs.se3(g, 2))[cname]()
        n_ = 2 if cname in ('SO2', 'SE2') else 3
        # special members on which predicates may take short cuts: identity rotation block (pure translation), the identity, a half turn
        if special[0] == 'puretrans': M[:n_, :n_] = np.eye(n_)
        elif special[0] == 'identity': M = np.eye(M.shape[0])
        elif special[0] == 'halfturn': M[:n_, :n_] = np.diag([-1.0, -1.0] + [1.0] * (n_ - 2))
        return M
    def defects(cname, M):
        """(kind, matrix) — every one is farther than 1e-6 from the group"""
        n_ = 2 if cname in ('SO2', 'SE2') else 3
        out = []
        A = M.copy(); A[:n_, :n_] = A[:n_, :n_] @ np.diag([1.0] * (n_ - 1) + [-1.0]); out.append(('reflection', A))
        A = M.copy(); A[:n_, :n_] = A[:n_, :n_] * (1 + 10.0 ** g.uniform(-5.9, 0)); out.append(('scaled', A))
        A = M.copy(); i, j = int(g.integers(n_)), int(g.integers(n_)); A[i, j] += float(g.choice([-1, 1])) * 10.0 ** g.uniform(-5.9, 0); out.append(('entry-noise', A))
        A = M.copy(); A[:n_, :n_] = np.ones((n_, n_)); out.append(('ones', A))
        if cname in ('SE2', 'SE3'):
            A = M.copy(); A[n_, int(g.integers(n_))] = 10.0 ** g.uniform(-5.9, 0); out.append(('last-row', A))
            A = M.copy(); A[n_, n_] = 1 + 10.0 ** g.uniform(-5.9, 0); out.append(('last-row-corner', A))
            # several corrupted entries, including ones that cancel in a sum or carry opposite signs
            e_ = 10.0 ** g.uniform(-5.9, 0); A = M.copy(); A[n_, 0] = e_; A[n_, 1] = -e_; out.append(('last-row-pair', A))
            A = M.copy(); A[n_, :n_] = (np.array([2.0, -1.0, -1.0])[:n_] if n_ == 3 else np.array([1.0, -1.0])) * 10.0 ** g.uniform(-5.9, 0); out.append(('last-row-all', A))
            A = M.copy(); A[n_, n_] = -1.0; out.append(('last-row-corner-negative', A))
        return out
    CLS = dict(SO2=SO2, SE2=SE2, SO3=SO3, SE3=SE3)
    def holds_only_members(X, cname):
        for A in X.data:
            if A is None: return False, 'None element'
            r = geom.so_residual(A) if cname in ('SO2', 'SO3') else geom.se_residual(A)
            if not r <= 1e-6: return False, f'element at distance {r:.3g} from the group'
        return True, ''
    for it in range(n):
        special[0] = {1: 'puretrans', 2: 'identity', 3: 'halfturn', 5: 'puretrans'}.get(it % 8)
        for cname, cls in CLS.items():
            G1, G2 = good(cname), good(cname)
            for kind, Bad in defects(cname, G1):
                forms = {
                    'bare': lambda: cls(Bad),
                    'list[bad]': lambda: cls([Bad]),
                    'list[good,bad]': lambda: cls([G2, Bad]),
                    'list[bad,good]': lambda: cls([Bad, G2]),
                    'list[good,bad,good]': lambda: cls([G2, Bad, G1]),
                    'tuple(good,bad)': lambda: cls((G2, Bad)),
                    # one ndarray holding a stack of matrices (rejected as a whole today; if ever accepted, every slice must be a member)
                    'stack[good,bad]': lambda: cls(np.stack([G2, Bad])),
                    'stack[bad]': lambda: cls(np.stack([Bad])),
                }
                for fname, ctor in forms.items():
                    inp = dict(cls=cname, defect=kind, form=fname, value=Bad)
                    L.count('ctor-rejects'); L.sample('ctor-rejects', inp)
                    try:
                        X = ctor()
                    except Exception:
                        continue
                    if fname == 'bare':
                        # one square array of the class's own matrix size has no other reading: it is a member or it is refused
                        L.fail(f'ctor-reinterprets:{cname}:{kind}', f'{cname}(array) with a {kind} matrix did not raise: it returned an object of {len(X)} value(s)', inp); continue
                    ok, why = holds_only_members(X, cname)
                    if not ok:
                        L.fail(f'ctor-accepts:{cname}:{kind}:{"bare" if fname == "bare" else "list"}',
                               f'{cname}({fname}) with a {kind} matrix returned an object holding a non-member ({why})', inp, observed=[None if a is None else np.asarray(a).tolist() for a in X.data])
                # … and the predicates with check on say no to each of them
                for pn_, pf_ in ((('isrot2', b.isrot2), ) if cname == 'SO2' else (('ishom2', b.ishom2), ) if cname == 'SE2' else (('isrot', b.isrot), ) if cname == 'SO3' else (('ishom', b.ishom), )) + (('isvalid', cls.isvalid), ):
                    L.count('predicate-rejects', key=(cname, kind, pn_))
                    try: acc_ = bool(pf_(Bad, True)) if pn_ != 'isvalid' else bool(pf_(Bad))
                    except Exception: continue
                    if acc_: L.fail(f'predicate-accepts:{pn_}:{cname}:{kind}', f'{pn_}(check on) accepts a {kind} matrix for {cname}', dict(cls=cname, defect=kind, predicate=pn_, value=Bad))
            # the same defects as single-precision arrays (a dtype-dependent tolerance must not let them in), bare and in a list
            for kind, Bad in defects(cname, G1):
                B32 = Bad.astype(np.float32)
                r32 = geom.so_residual(B32.astype(float)) if cname in ('SO2', 'SO3') else geom.se_residual(B32.astype(float))
                if not r32 > 2e-6: continue
                for fname, ctor in {'bare': lambda: cls(B32), 'list[good,bad]': lambda: cls([G2.astype(np.float32), B32])}.items():
                    inp = dict(cls=cname, defect=kind, form=fname, dtype='float32', value=B32)
                    L.count('ctor-rejects(float32)'); L.sample('ctor-rejects(float32)', inp)
                    try: X = ctor()
                    except Exception: continue
                    ok, why = holds_only_members(X, cname)
                    if not ok: L.fail(f'ctor-accepts:{cname}:{kind}:float32', f'{cname}({fname}) with a float32 {kind} matrix returned an object holding a non-member ({why})', inp)
            # the same defects as object-dtype arrays of ordinary numbers (what np.array(list_with_mixed_types, dtype=object) gives): never let in
            for kind, Bad in defects(cname, G1):
                Bo = Bad.astype(object)
                for fname, ctor in {'bare': lambda: cls(Bo), 'list[good,bad]': lambda: cls([G2, Bo])}.items():
                    inp = dict(cls=cname, defect=kind, form=fname, dtype='object', value=Bad)
                    L.count('ctor-rejects(object)'); L.sample('ctor-rejects(object)', inp)
                    try: X = ctor()
                    except Exception: continue
                    try: ok, why = holds_only_members(X, cname)
                    except Exception: ok, why = False, 'element is not a numeric matrix'
                    if not ok: L.fail(f'ctor-accepts:{cname}:{kind}:object', f'{cname}({fname}) with an object-dtype {kind} matrix returned an object holding a non-member ({why})', inp)
            # a square array of the rotation-block size given to the rigid-motion class (and the other way round) that is not in the group
            n_ = 2 if cname in ('SO2', 'SE2') else 3
            if cname in ('SE2', 'SE3'):
                for kind, Bad in defects('SO2' if n_ == 2 else 'SO3', G1[:n_, :n_].copy()):
                    inp = dict(cls=cname, defect=kind, form=f'bare {n_}x{n_}', value=Bad)
                    L.count('ctor-rejects(block)'); L.sample('ctor-rejects(block)', inp)
                    try: X = cls(Bad)
                    except Exception: continue
                    ok, why = holds_only_members(X, cname)
                    if not ok: L.fail(f'ctor-accepts:{cname}:{kind}:block', f'{cname}({n_}x{n_} array) with a {kind} matrix returned an object holding a non-member ({why})', inp)
            # valid values in every form are accepted and stored unchanged
            for fname, ctor in {'bare': lambda: cls(G1), 'list': lambda: cls([G1, G2]), 'tuple': lambda: cls((G1, G2)), 'copy': lambda: cls(cls(G1)),
                                'list-of-objects': lambda: cls([cls(G1), cls(G2)])}.items():
                ok, X = L.noraise('ctor-accepts-valid', ctor, dict(cls=cname, form=fname, value=G1), f'{cname}({fname}) with valid members must be accepted')
                if ok:
                    L.check('ctor-accepts-valid', all(a is not None for a in X.data) and np.allclose(X.data[0], G1), dict(cls=cname, form=fname), 'valid value not stored')
        # a pose object supplied to the constructor of ANOTHER pose class (bare, in a list, mixed with valid objects): either rejected
        # or converted — the result never holds a value of the wrong shape / outside the group
        if it % 4 == 0:
            for cname, cls in CLS.items():
                for oname, ocls in CLS.items():
                    if oname == cname: continue
                    O = ocls(good(oname), check=False); Gd = cls(good(cname), check=False)
                    for fname, ctor in {'bare': lambda: cls(O), 'list[obj]': lambda: cls([O]), 'list[good,obj]': lambda: cls([Gd, O]), 'tuple(obj,good)': lambda: cls((O, Gd))}.items():
                        inp = dict(cls=cname, supplied=oname, form=fname)
                        L.count('ctor-foreign-object', key=(cname, oname, fname)); L.sample('ctor-foreign-object', inp)
                        try: X = ctor()
                        except Exception: continue
                        n_ = 2 if cname in ('SO2', 'SE2') else 3
                        want = (n_, n_) if cname in ('SO2', 'SO3') else (n_ + 1, n_ + 1)
                        bad = [a for a in X.data if a is None or np.asarray(a).shape != want]
                        if bad:
                            L.fail(f'ctor-foreign-object:{cname}({oname}):{fname}', f'{cname}({fname} of {oname}) holds a value that is not a {want[0]}x{want[1]} member of its group', inp,
                                   observed=[None if a is None else list(np.asarray(a).shape) for a in X.data]); continue
                        ok, why = holds_only_members(X, cname)
                        if not ok: L.fail(f'ctor-foreign-object:{cname}({oname}):{fname}', f'{cname}({fname} of {oname}) holds a non-member: {why}', inp)
        # unit quaternion objects: whatever is supplied, the stored value has norm 1
        qb = g.normal(size=4) * 10.0 ** g.uniform(-3, 3)
        for fname, ctor in {'list': lambda: UnitQuaternion(list(qb)), 'array': lambda: UnitQuaternion(qb), 's,v': lambda: UnitQuaternion(qb[0], qb[1:]),
                            'list-of-arrays': lambda: UnitQuaternion([qb, qb])}.items():
            inp = dict(form=fname, q=qb)
            L.count('uq-ctor'); L.sample('uq-ctor', inp)
            try: X = ctor()
            except Exception: continue
            bad = [a for a in X.data if a is None or np.asarray(a).shape != (4,) or abs(np.linalg.norm(a) - 1) > 1e-6]
            if bad: L.fail(f'uq-ctor-nonunit:{fname}', f'UnitQuaternion({fname}) holds a value that is not a unit quaternion', inp, observed=[None if a is None else np.asarray(a).tolist() for a in X.data])
        # twists given as matrices must be of algebra form
        S = g.normal(size=6); M4 = np.zeros((4, 4)); M4[:3, :3] = np.array([[0, -S[5], S[4]], [S[5], 0, -S[3]], [-S[4], S[3], 0]]); M4[:3, 3] = S[:3]
        def only(i_, j_):
            E = np.zeros((4, 4)); E[i_, j_] = 10.0 ** g.uniform(-5.9, 0); return M4 + E
        for kind, Bad in (('non-skew', M4 + np.pad(np.triu(np.ones((3, 3)), 1) * 10.0 ** g.uniform(-5.9, 0), ((0, 1), (0, 1)))),
                          ('non-skew(0,2)', only(0, 2)), ('non-skew(1,2)', only(1, 2)), ('non-skew(2,0)', only(2, 0)), ('non-skew(0,1)', only(0, 1)), ('diagonal(2,2)', only(2, 2)),
                          ('diagonal', M4 + np.diag([10.0 ** g.uniform(-5.9, 0), 0, 0, 0])), ('bottom-row', M4 + np.pad(np.zeros((3, 4)), ((0, 1), (0, 0)), constant_values=10.0 ** g.uniform(-5.9, 0)))):
            for fname, ctor in {'bare': lambda: Twist3(Bad), 'list': lambda: Twist3([M4, Bad])}.items():
                inp = dict(cls='Twist3', defect=kind, form=fname, value=Bad)
                L.count('twist-rejects'); L.sample('twist-rejects', inp)
                try: X = ctor()
                except Exception: continue
                L.fail(f'twist-accepts:Twist3:{kind}', f'Twist3({fname}) accepted a 4x4 matrix that is not of se(3) form ({kind})', inp, observed=[np.asarray(a).tolist() for a in X.data])
        ok, X = L.noraise('twist-accepts-valid', lambda: Twist3(M4), dict(M=M4), 'Twist3(se(3) matrix)')
        if ok: L.close('twist-accepts-valid', X.S, S, 1e-12, max(1.0, float(np.max(np.abs(S)))), dict(M=M4))
        M3 = np.array([[0, -S[2], S[0]], [S[2], 0, S[1]], [0, 0, 0]])
        for kind, Bad in (('non-skew', M3 + np.array([[0, 10.0 ** g.uniform(-5.9, 0), 0], [0, 0, 0], [0, 0, 0]])), ('diagonal', M3 + np.diag([10.0 ** g.uniform(-5.9, 0), 0, 0])),
                          ('bottom-row', M3 + np.array([[0, 0, 0], [0, 0, 0], [10.0 ** g.uniform(-5.9, 0), 0, 0]]))):
            inp = dict(cls='Twist2', defect=kind, value=Bad)
            L.count('twist-rejects'); L.sample('twist-rejects', inp)
            try: X = Twist2(Bad)
            except Exception: continue
            L.fail(f'twist-accepts:Twist2:{kind}', f'Twist2 accepted a 3x3 matrix that is not of se(2) form ({kind})', inp, observed=[np.asarray(a).tolist() for a in X.data])
        # ---- predicates ------------------------------------------------------------------------
        # the exponential map and the two-vector frame over a grid of arguments (angles 1e-4 .. 3, generic non-unit non-perpendicular vectors):
        # what the primitive constructors return is accepted by the predicates and by the class constructors
        if it < 40:
            ang_ = 10.0 ** (-4 + 4.5 * it / 39.0); axc_ = inputs.unit_axis(g); twc_ = np.r_[g.normal(size=3), axc_ * ang_]
            oc_ = g.normal(size=3) * 10.0 ** g.uniform(-1, 1); ac_ = g.normal(size=3) * 10.0 ** g.uniform(-1, 1)
            prods_ = [('trexp(w)', lambda: b.trexp(axc_ * ang_), 'SO3'), ('angvec2r', lambda: b.angvec2r(ang_, axc_ * 2.5), 'SO3'), ('rodrigues', lambda: b.rodrigues(axc_ * ang_), 'SO3'), ('trexp(S)', lambda: b.trexp(twc_), 'SE3'),
                      ('trexp(unit S, theta)', lambda: b.trexp(np.r_[twc_[:3], axc_], ang_), 'SE3'), ('trexp2(theta)', lambda: b.trexp2(ang_), 'SO2'), ('trexp2(S)', lambda: b.trexp2(np.r_[twc_[:2], ang_]), 'SE2')]
            if np.linalg.norm(np.cross(oc_, ac_)) > 0.2 * np.linalg.norm(oc_) * np.linalg.norm(ac_): prods_ += [('oa2r', lambda: b.oa2r(oc_, ac_), 'SO3'), ('oa2tr', lambda: b.oa2tr(oc_, ac_), 'SE3')]
            for nm_, mk_, grp_ in prods_:
                try: Mc_ = np.asarray(mk_(), float)
                except Exception: continue
                pr_ = dict(SO3=(b.isrot, SO3), SE3=(b.ishom, SE3), SO2=(b.isrot2, SO2), SE2=(b.ishom2, SE2))[grp_]
                cinp = dict(constructor=nm_, angle=ang_, M=Mc_)
                L.check(f'pred-accepts:{grp_}(grid)', bool(pr_[0](Mc_, True)) and bool(pr_[1].isvalid(Mc_)), cinp, f'the membership predicate for {grp_} rejects the matrix {nm_} returned (angle {ang_:.3g})', sig=f'pred-accepts:{grp_}')
                L.noraise(f'ctor-accepts-valid(grid):{grp_}', lambda: pr_[1](Mc_), cinp, f'{grp_}(M) with the matrix {nm_} returned must be accepted', sig='ctor-accepts-valid(grid)')
            for nm_, mk_ in (('Twist3(S).SE3()', lambda: Twist3(twc_).SE3()), ('Twist3(S).exp()', lambda: Twist3(twc_).exp()), ('SE3.Exp(S)', lambda: SE3.Exp(twc_)), ('SO3.Exp(w)', lambda: SO3.Exp(axc_ * ang_)), ('SO3.OA', lambda: SO3.OA(oc_, ac_))):
                if nm_ == 'SO3.OA' and not np.linalg.norm(np.cross(oc_, ac_)) > 0.2 * np.linalg.norm(oc_) * np.linalg.norm(ac_): continue
                ok_, X_ = L.noraise(f'class-constructor(grid):{nm_}', mk_, dict(constructor=nm_, angle=ang_), f'{nm_} for a valid argument', sig='class-constructor(grid):raises')
                if ok_:
                    okm_, why_ = holds_only_members(X_, type(X_).__name__)
                    L.check(f'class-constructor(grid):{nm_}:member', okm_, dict(constructor=nm_, angle=ang_), f'{nm_} holds a non-member ({why_})', sig='class-constructor(grid)')
        # rotations next to a half turn (pi - 1e-5 .. pi - 3e-8, any axis) converted to a unit quaternion: the object holds a unit quaternion
        if it < 12:
            axh_ = [np.array([1.0, 0, 0]), np.array([0, 1.0, 0]), np.array([1.0, 2.0, -2.0]) / 3.0, inputs.unit_axis(g)][it % 4]; dh_ = (1e-5, 1e-6, 3e-8)[it // 4]; Rh_ = inputs.rodrigues(axh_, math.pi - dh_); Th_ = b.r2t(Rh_)
            for nm_, mk_ in (('UnitQuaternion(R)', lambda: UnitQuaternion(Rh_)), ('UnitQuaternion(SO3(R))', lambda: UnitQuaternion(SO3(Rh_, check=False))), ('UnitQuaternion(T)', lambda: UnitQuaternion(Th_)), ('UnitQuaternion(SE3)', lambda: UnitQuaternion(SE3(Th_, check=False)))):
                ok_, Xq_ = L.noraise(f'{nm_}(near half turn)', mk_, dict(axis=axh_, pi_minus=dh_), f'{nm_} for a rotation next to a half turn', sig='UQ(near half turn):raises')
                if ok_:
                    nrm_ = float(np.linalg.norm(np.asarray(Xq_.data[0], float)))
                    L.check(f'{nm_}(near half turn):unit', abs(nrm_ - 1.0) <= 1e-6 and bool(b.isunit(np.asarray(Xq_.data[0], float), tol=1e10)), dict(axis=axh_, pi_minus=dh_), f'{nm_} for a rotation {dh_:g} rad from a half turn holds a quaternion of norm {nrm_:.9f}', sig='UQ(near half turn):unit')
        # list operations with an object of a subclass (a rigid motion offered to a rotation object): refused, or at least never stored as it is
        if it % 8 == 0:
            for cn_, Rcls_, Tcls_, mkr_, mkt_ in (('SO3', SO3, SE3, lambda: inputs.so3(g), lambda: inputs.se3(g, 1)), ('SO2', SO2, SE2, lambda: inputs.so2(g), lambda: inputs.se2(g, 1))):
                for opn_, op_ in (('insert', lambda X_, Y_: X_.insert(0, Y_)), ('append', lambda X_, Y_: X_.append(Y_)), ('extend', lambda X_, Y_: X_.extend(Y_)), ('setitem', lambda X_, Y_: X_.__setitem__(0, Y_))):
                    Xr_ = Rcls_([mkr_(), mkr_()]); Yt_ = Tcls_(mkt_())
                    L.count('list-op(subclass)', key=(cn_, opn_))
                    try: op_(Xr_, Yt_)
                    except Exception: continue
                    okm_, why_ = holds_only_members(Xr_, cn_) if all(np.shape(a_) == np.shape(Xr_.data[-1]) and np.shape(a_)[0] == (3 if cn_ == 'SO3' else 2) for a_ in Xr_.data) else (False, 'an element of the wrong shape')
                    if not okm_: L.fail(f'list-op-accepts:{cn_}:{opn_}', f'{cn_}.{opn_} with a {Tcls_.__name__} object stored a value that is not a member of {cn_} ({why_})', dict(cls=cn_, op=opn_))
        # a bare 3x3 array that is not a rotation matrix is not turned into a unit quaternion either
        if it % 4 == 0:
            for kind, Bad in defects('SO3', good('SO3')):
                L.count('ctor-rejects(UnitQuaternion)', key=kind)
                try: Xq_ = UnitQuaternion(Bad)
                except Exception: continue
                L.fail(f'ctor-accepts:UnitQuaternion:{kind}', f'UnitQuaternion(3x3 array) with a {kind} matrix did not raise', dict(cls='UnitQuaternion', defect=kind, value=Bad), observed=[np.asarray(a).tolist() for a in Xq_.data])
        # a fixed corpus of quaternion-to-matrix results whose rounding residue ||R R' - I|| is the largest an offline scan of 2e5 random
        # unit quaternions found (11 .. 13 eps): values produced by a primitive constructor, accepted by predicates and constructors
        if it == 0:
            for qc_ in ([-0.17656849169551772, -0.7294059702508839, 0.6590780636730922, -0.04905715327720726], [0.14592484653721088, 0.3818711755164088, 0.527385229946081, 0.7448121667289858],
                        [-0.002842162971137752, 0.886966047582152, -0.3384771573210029, 0.31419160796882173], [0.07903734452465754, 0.7723371914444151, -0.3770517480279928, 0.5050547892964465],
                        [0.15852419355954878, 0.14187574260232697, 0.6832798959659013, 0.6984768696858619], [0.14838155731176916, 0.8109199536546378, -0.5389726085653451, -0.1729169437353125],
                        [0.2557543132051523, -0.9449726131860411, 0.011968240215014038, 0.20364982895023728]):
                Rc_ = b.q2r(qc_); Tc_ = b.r2t(Rc_); cinp = dict(q=qc_, residual_eps=float(np.linalg.norm(Rc_ @ Rc_.T - np.eye(3)) / 2.220446049250313e-16))
                L.check('pred-accepts:SO3(corpus)', bool(b.isrot(Rc_, check=True)) and bool(b.ishom(Tc_, check=True)) and bool(SO3.isvalid(Rc_)) and bool(SE3.isvalid(Tc_)), cinp, 'isrot / ishom / isvalid rejects the rotation matrix q2r returned for a unit quaternion', sig='pred-accepts:SO3')
                for fn_, ct_ in (('SO3(R)', lambda: SO3(Rc_)), ('SO3([R, R])', lambda: SO3([Rc_, Rc_])), ('SE3(T)', lambda: SE3(Tc_)), ('UnitQuaternion(R)', lambda: UnitQuaternion(Rc_))):
                    L.noraise(f'ctor-accepts-valid(corpus):{fn_}', ct_, cinp, f'{fn_} with the rotation matrix q2r returned for a unit quaternion must be accepted', sig='ctor-accepts-valid(corpus)')
        for cname, pred, mk in (('SO3', lambda M: b.isrot(M, check=True), lambda: inputs.so3(g)), ('SE3', lambda M: b.ishom(M, check=True), lambda: inputs.se3(g, 3)),
                                ('SO2', lambda M: b.isrot2(M, check=True), lambda: inputs.so2(g)), ('SE2', lambda M: b.ishom2(M, check=True), lambda: inputs.se2(g, 3))):
            M = mk()
            L.check(f'pred-accepts:{cname}', bool(pred(M)), dict(cls=cname, M=M), f'membership predicate for {cname} rejects a value produced by the primitive constructors')
            for kind, Bad in defects(cname, M):
                L.check(f'pred-rejects:{cname}', not bool(pred(Bad)), dict(cls=cname, defect=kind, M=Bad), f'membership predicate for {cname} accepts a {kind} matrix',
                        sig=f'pred-accepts-invalid:{cname}:{kind}')
                try: acc_o = bool(pred(Bad.astype(object)))
                except Exception: acc_o = False
                L.check(f'pred-rejects(object):{cname}', not acc_o, dict(cls=cname, defect=kind, dtype='object', M=Bad), f'membership predicate for {cname} accepts an object-dtype {kind} matrix', sig=f'pred-accepts-invalid:{cname}:{kind}:object')
                B32 = Bad.astype(np.float32)
                r32 = geom.so_residual(B32.astype(float)) if cname in ('SO2', 'SO3') else geom.se_residual(B32.astype(float))
                if r32 > 2e-6:
                    L.check(f'pred-rejects(float32):{cname}', not bool(pred(B32)), dict(cls=cname, defect=kind, dtype='float32', M=B32), f'membership predicate for {cname} accepts a float32 {kind} matrix',
                            sig=f'pred-accepts-invalid:{cname}:{kind}:float32')
        R = inputs.so3(g)
        L.check('isR-accepts', bool(b.isR(R)), dict(R=R), 'isR rejects a rotation matrix')
        refl = R @ np.diag([1.0, 1.0, -1.0])
        L.check('isR-rejects-reflection', not bool(b.isR(refl)), dict(R=refl), 'isR accepts an improper orthogonal matrix (determinant -1)', sig='isR:reflection')
        # unit / zero / skew predicates outside a 1e-6 band
        v = inputs.unit_axis(g); d = 10.0 ** g.uniform(-5.9, 0) * float(g.choice([-1, 1]))
        L.check('isunitvec-true', bool(b.isunitvec(v)), dict(v=v), 'isunitvec rejects a unit vector')
        L.check('isunitvec-false', not bool(b.isunitvec(v * (1 + d))), dict(v=v * (1 + d)), 'isunitvec accepts a non-unit vector')
        q = inputs.unitq(g)
        L.check('quaternions.isunit-true', bool(b.quaternions.isunit(q)), dict(q=q), 'base.quaternions.isunit rejects a unit quaternion', sig='q.isunit:rejects-unit')
        L.check('quaternions.isunit-false', not bool(b.quaternions.isunit(q * (1 + abs(d)))), dict(q=q * (1 + abs(d))), 'base.quaternions.isunit accepts a non-unit quaternion')
        L.check('quaternions.isunit-zero', not bool(b.quaternions.isunit(np.zeros(4))), dict(q=[0, 0, 0, 0]), 'base.quaternions.isunit accepts the zero quaternion', sig='q.isunit:accepts-zero')
        L.check('iszerovec-true', bool(b.iszerovec(np.zeros(3))), {}, 'iszerovec rejects zero'); L.check('iszerovec-false', not bool(b.iszerovec(v * abs(d))), dict(v=v * abs(d)), 'iszerovec accepts a non-zero vector')
        L.check('iszero', bool(b.iszero(0.0)) and not bool(b.iszero(d)), dict(d=d), 'iszero disagrees with its definition')
        w = g.normal(size=3); Sk = np.array([[0, -w[2], w[1]], [w[2], 0, -w[0]], [-w[1], w[0], 0]])
        L.check('isskew-true', bool(b.isskew(Sk)), dict(S=Sk), 'isskew rejects a skew-symmetric matrix')
        Sb = Sk.copy(); Sb[int(g.integers(3)), int(g.integers(3))] += abs(d)
        L.check('isskew-false', not bool(b.isskew(Sb)), dict(S=Sb), 'isskew accepts a non-skew matrix')
        L.check('isskewa-true', bool(b.isskewa(M4)), dict(S=M4), 'isskewa rejects an se(3) matrix')
        Mb = M4.copy(); Mb[3, int(g.integers(4))] = abs(d)
        L.check('isskewa-false', not bool(b.isskewa(Mb)), dict(S=Mb), 'isskewa accepts a matrix with non-zero last row')
        # exponents given as matrices that are not of algebra form — among them ones whose vee is zero (nothing but the rejected part is
        # non-zero) — are refused by the exponential however they are supplied
        if it % 6 == 0:
            okS3 = b.skewa(np.r_[g.normal(size=3), g.normal(size=3) * 0.3]); okS2 = b.skewa(np.r_[g.normal(size=2), 0.3]); okw3 = b.skew(g.normal(size=3) * 0.3); okw2 = b.skew(0.2)
            Z4 = np.zeros((4, 4)); bad4 = []
            for (r_, c_, v_) in ((3, 3, 1.0), (3, 0, 10.0 ** g.uniform(-5, 0)), (1, 1, 0.5), (3, 2, -0.2)):
                A_ = Z4.copy(); A_[r_, c_] = v_; bad4.append(A_)
            A_ = Z4.copy(); A_[0, 1] = A_[1, 0] = 0.3; bad4.append(A_); bad4.append(np.eye(4)); A_ = okS3.copy(); A_[2, 2] = 10.0 ** g.uniform(-5, 0); bad4.append(A_); A_ = okS3.copy(); A_[3, 1] = 10.0 ** g.uniform(-5, 0); bad4.append(A_)
            bad3 = [np.array([[0, 0.3, 0.1], [0.1, 0, 0.2], [0.3, 0.1, 0.0]]), np.eye(3) * 0.5, okw3 + np.diag([0, 10.0 ** g.uniform(-5, 0), 0]), np.array([[0, 0.3, 0], [0.3, 0, 0], [0, 0, 0.0]])]
            bad23 = [np.array([[0, 0.3, 0.1], [0.1, 0, 0.2], [0, 0, 0.0]]), np.array([[0, 0, 0], [0, 0, 0], [0, 0, 1.0]]), okS2 + np.diag([0, 0, 10.0 ** g.uniform(-5, 0)]), np.array([[0, 0, 0], [0, 0, 0], [0.2, 0, 0.0]])]
            bad2 = [np.array([[0.0, 0.3], [0.1, 0.0]]), np.array([[0.0, 0.3], [0.3, 0.0]]), np.eye(2) * 0.1, okw2 + np.diag([10.0 ** g.uniform(-5, 0), 0])]
            groups_ = (('se(3)', bad4, okS3, (('trexp', lambda S_: b.trexp(S_)), ('SE3.Exp([S])', lambda S_: SE3.Exp([S_])), ('SE3.Exp([ok,S])', lambda S_: SE3.Exp([okS3, S_])), ('SE3.Exp((S,ok))', lambda S_: SE3.Exp((S_, okS3))), ('Twist3(S)', lambda S_: Twist3(S_)))),
                       ('so(3)', bad3, okw3, (('trexp', lambda S_: b.trexp(S_)), ('SO3.Exp(S)', lambda S_: SO3.Exp(S_)), ('SO3.Exp([ok,S])', lambda S_: SO3.Exp([okw3, S_])), ('SO3.Exp([S])', lambda S_: SO3.Exp([S_])))),
                       ('se(2)', bad23, okS2, (('trexp2', lambda S_: b.trexp2(S_)), ('SE2.Exp(S)', lambda S_: SE2.Exp(S_)), ('SE2.Exp([ok,S])', lambda S_: SE2.Exp([okS2, S_])), ('SE2.Exp([S])', lambda S_: SE2.Exp([S_])), ('Twist2(S)', lambda S_: Twist2(S_)))),
                       ('so(2)', bad2, okw2, (('trexp2', lambda S_: b.trexp2(S_)), ('SO2.Exp(S)', lambda S_: SO2.Exp(S_)), ('SO2.Exp([ok,S])', lambda S_: SO2.Exp([okw2, S_])), ('SO2.Exp([S])', lambda S_: SO2.Exp([S_])), ('SO2.Exp((S,ok))', lambda S_: SO2.Exp((S_, okw2))))))
            for alg_, bads_, ok_, calls_ in groups_:
                for kb_, Sb_ in enumerate(bads_):
                    for nm_, call_ in calls_:
                        L.count('exp-rejects', key=(alg_, kb_, nm_)); L.sample('exp-rejects', dict(algebra=alg_, S=Sb_, call=nm_))
                        try: got_ = call_(Sb_)
                        except Exception: continue
                        L.fail(f'exp-accepts:{alg_}:{nm_.split("(")[0]}', f'{nm_} accepted a matrix that is not of {alg_} form', dict(algebra=alg_, S=Sb_, call=nm_), observed=repr(got_)[:120])
        L.check('iseye', bool(b.iseye(np.eye(3))) and not bool(b.iseye(np.eye(3) + np.eye(3)[::-1] * abs(d))), dict(d=d), 'iseye disagrees with its definition')
        S6 = np.r_[g.normal(size=3), v]
        L.check('isunittwist-true', bool(b.isunittwist(S6)), dict(S=S6), 'isunittwist rejects a unit twist')
        L.check('isunittwist-false', not bool(b.isunittwist(np.r_[S6[:3], v * (1 + abs(d))])), dict(S=S6), 'isunittwist accepts a non-unit twist')
        # unit translational part does not make a twist unit unless the rotational part vanishes
        uv_ = inputs.unit_axis(g); wmag = float(g.choice([0.5, 2.0, 1e-3, 1 + abs(d), 1 - min(abs(d), 0.5)]))
        Sbad = np.r_[uv_, inputs.unit_axis(g) * wmag]
        L.check('isunittwist-false(unit v)', not bool(b.isunittwist(Sbad)), dict(S=Sbad), 'isunittwist accepts a twist with unit translational part whose rotational part is neither zero nor unit', sig='isunittwist:unit-v')
        # the sign of the rotational part is immaterial: |w| = 1 turning either way, in the plane too
        for sg_ in (1.0, -1.0):
            L.check('isunittwist2-true(signed)', bool(b.isunittwist2(np.r_[uv_[:2] * 3.0, sg_])), dict(S=np.r_[uv_[:2] * 3.0, sg_]), f'isunittwist2 rejects a unit planar twist with w = {sg_:+.0f}', sig='isunittwist2:sign')
            L.check('isunittwist-true(signed)', bool(b.isunittwist(np.r_[uv_ * 2.0, sg_ * S6[3:] / np.linalg.norm(S6[3:])])), dict(w=sg_), 'isunittwist rejects a unit twist', sig='isunittwist:sign')
            ok_, r_ = L.noraise('trexp2(unit twist, theta)', lambda: b.trexp2(np.r_[uv_[:2], sg_], 0.3), dict(S=np.r_[uv_[:2], sg_]), 'trexp2(S, theta) with a unit planar twist', sig='isunittwist2:sign')
        L.check('isunittwist-true(prismatic)', bool(b.isunittwist(np.r_[uv_, 0, 0, 0])), dict(S=np.r_[uv_, 0, 0, 0]), 'isunittwist rejects a unit prismatic twist')
        L.check('isunittwist2-false(unit v)', not bool(b.isunittwist2(np.r_[uv_[:2] / np.linalg.norm(uv_[:2]), wmag if abs(wmag - 1) > 1e-6 else 0.5])), dict(w=wmag), 'isunittwist2 accepts a planar twist with unit v and non-unit non-zero w', sig='isunittwist2:unit-v')
    return L.result()

def correspondence(tier, seed):
    from .common import model_correspondence
    return model_correspondence('smv.props.c07', tier, seed)

def _corr(tier, seed):
    """constructor argument handling of the pose classes vs Logic.ArgCheck.arghandler: items are naturals, odd = a member of the
    group, even = a non-member (rotation part scaled by 2), 1 = the identity"""
    import itertools
    from spatialmath import SO2, SE2, SO3, SE3
    import spatialmath.base as b
    def item(cname, k):
        th = 0.01 * k
        if cname == 'SO2': M = b.rot2(th)
        elif cname == 'SE2': M = b.trot2(th)
        elif cname == 'SO3': M = b.rotz(th)
        else: M = b.trotz(th)
        if k == 1: M = np.eye(M.shape[0])
        n = 2 if cname in ('SO2', 'SE2') else 3
        if k % 2 == 0: M[:n, :n] *= 2.0
        return M
    def ident(a):
        a = np.asarray(a, float)
        if np.array_equal(a, np.eye(a.shape[0])): return 1
        return int(round(math.atan2(a[1, 0], a[0, 0]) / 0.01))
    CL = dict(SO2=SO2, SE2=SE2, SO3=SO3, SE3=SE3)
    rows = []
    maxlen = 3 if tier == 'quick' else 4
    for cname, cls in CL.items():
        cargs = ['nothing', 'unknown'] + [f'array:{k}' for k in (3, 4, 5, 6)]
        for ln in range(0, maxlen + 1):
            for combo in itertools.product((3, 4, 5, 6), repeat=ln):
                cargs.append('arrays:' + (','.join(map(str, combo)) if combo else '-'))
            for combo in itertools.product((3, 5, 7), repeat=ln):
                if ln >= 1: cargs.append('objects:' + ','.join(map(str, combo)))
                if ln >= 1: cargs.append('same:' + ','.join(map(str, combo)))
        for check in (1, 0):
            for ca in cargs:
                t = ca.split(':')
                ks = [int(x) for x in t[1].split(',')] if len(t) > 1 and t[1] not in ('-', '') else []
                try:
                    if t[0] == 'nothing': X = cls()
                    elif t[0] == 'unknown': X = cls('abc', check=bool(check))
                    elif t[0] == 'array': X = cls(item(cname, ks[0]), check=bool(check))
                    elif t[0] == 'arrays': X = cls([item(cname, k) for k in ks], check=bool(check))
                    elif t[0] == 'objects': X = cls([cls(item(cname, k)) for k in ks], check=bool(check))
                    else: X = cls(cls([item(cname, k) for k in ks]) if len(ks) > 1 else cls(item(cname, ks[0])), check=bool(check))
                    exp = '-' if len(X.data) == 0 else ','.join(str(ident(a)) for a in X.data)
                except (ValueError, TypeError):
                    exp = 'false'
                except Exception as e:
                    exp = 'exc:' + type(e).__name__
                rows.append(dict(req=f'logic arghandler {check} {ca}', exp=exp, meta=dict(cls=cname)))
    return rows

if __name__ == '__main__':
    main_entry(_impl, _corr)
