"""C16 — symbolic results agree with numeric results (enumeration over the entries marked 'SymPy: supported')."""
import math, re, ast, os
import numpy as np
from .common import Laws, run_subprocess, main_entry, REPO
from .. import inputs

SPEC = dict(
    technique='Lean 4 proof that the numeric-path model equals the SymPy-path model (both regenerated from the source) + substitution monitor',
    aux_translators=['__sym__'],
    lean_modules=['SmVerif.Props.C16'],
    groups=['Transforms3d', 'TransformsNd', 'Vectors', 'Quaternions', 'Poses'],
    expected_untranslatable=('trinterp_T', 'trinterp_T_nostart'),
    partial=['the sympy path is executed for real and compared with the numeric path by substitution; the Lean side proves that the '
             'numeric-path model (Gen) of each supported function is the closed form the symbolic path is compared against'],
    assumptions=['sympy expression-tree evaluation semantics; substitution points are seeded random + special angles; tolerance 1e-12'],
)

def monitor(tier, seed, search=False):
    return run_subprocess('smv.props.c16', tier, seed, search)

def replay(rp):
    r = run_subprocess('smv.props.c16', 'quick', 0, True)
    hit = [v for v in r['violations'] if v['signature'] == rp.get('signature')]
    return dict(violates=bool(hit), detail=hit[:1])

def supported_entries():
    out = []
    for fn in ['super_pose.py', 'pose3d.py', 'pose2d.py', 'twist.py', 'quaternion.py', 'base/transforms3d.py', 'base/transforms2d.py', 'base/transformsNd.py', 'base/vectors.py', 'base/quaternions.py']:
        src = open(os.path.join(REPO, 'spatialmath', fn)).read()
        import warnings
        with warnings.catch_warnings():
            warnings.simplefilter('ignore'); tree = ast.parse(src)
        for cls in [n for n in ast.walk(tree) if isinstance(n, ast.ClassDef)] + [tree]:
            for node in (cls.body if hasattr(cls, 'body') else []):
                if isinstance(node, ast.FunctionDef):
                    d = ast.get_docstring(node) or ''
                    m = re.search(r':SymPy: (.*)', d)
                    if m and m.group(1).startswith('supported'):
                        out.append((fn, getattr(cls, 'name', ''), node.name))
    return sorted(set(out))

def _impl(tier, seed, search):
    import sympy as sp
    import spatialmath.base as b
    from spatialmath import SO3, SE3, SE2, Twist3
    g = inputs.rng(seed)
    npts = 6 if tier == 'quick' else 40
    L = Laws('C16', rule="every API entry marked 'SymPy: supported' called with all-symbolic and mixed symbolic/numeric arguments, lambdified and compared with the "
                         'numeric call at seeded random points and special angles; structural 0/1 entries must stay exact; a case = one (entry, argument pattern, point)')
    th, x, y, z, a1, a2, a3 = sp.symbols('theta x y z a1 a2 a3', real=True)
    vs = sp.symbols('v0:6', real=True); ms = sp.symbols('m0:16', real=True)
    def pts(k):
        out = [list(g.uniform(-3, 3, size=k)) for _ in range(npts)]
        spec = [0.0, math.pi / 2, -math.pi / 2, math.pi, math.pi / 4]
        out += [[float(g.choice(spec)) for _ in range(k)] for _ in range(3)]
        # just off the special angles (1e-13 .. 1e-8 away, either side), where a numeric path that snaps small values would show
        out += [[float(g.choice(spec)) + float(g.choice([-1, 1])) * 10.0 ** g.uniform(-13, -8) for _ in range(k)] for _ in range(4)]
        return out
    def compare(name, symcall, numcall, syms, pattern='all-symbolic'):
        """symcall(): library called with symbols; numcall(values): same call with numbers"""
        inp = dict(entry=name, pattern=pattern)
        L.count('sym-call', key=(name, pattern)); L.sample('sym-call', inp)
        try:
            S = symcall()
        except Exception as e:
            L.fail(f'sym-raises:{name}', f'{name} is marked SymPy-supported but raises {type(e).__name__} on symbolic arguments ({pattern}): {str(e)[:80]}', inp, observed=type(e).__name__)
            return
        if hasattr(S, 'A') and not isinstance(S, np.ndarray): S = S.A
        Sa = np.array(S, dtype=object)
        try:
            f = sp.lambdify(syms, [sp.sympify(e_) for e_ in (Sa.flat if Sa.ndim else [S])], 'math')
        except Exception as e:
            L.fail(f'sym-lambdify:{name}', f'{name}: symbolic result cannot be evaluated ({type(e).__name__})', inp); return
        for p in pts(len(syms)):
            L.count('sym-point', key=None)
            try:
                N = numcall(*p)
                if hasattr(N, 'A') and not isinstance(N, np.ndarray): N = N.A
                Na = np.asarray(N, dtype=float)
                Sv = np.array(f(*p), dtype=float).reshape(Na.shape)
            except Exception as e:
                L.fail(f'sym-eval:{name}', f'{name}: evaluating symbolic vs numeric raised {type(e).__name__}: {str(e)[:80]}', dict(inp, point=p)); break
            if Sv.shape != Na.shape or not np.allclose(Sv, Na, rtol=0, atol=1e-12 * max(1.0, float(np.max(np.abs(Na))) if Na.size else 1.0)):
                L.fail(f'sym-value:{name}', f'{name}: substituted symbolic result differs from the numeric result', dict(inp, point=p), observed=Sv, required=Na); break
            # structural constants stay exact
            for sv_, nv in zip(Sa.flat, Na.flat):
                pass
        # structural constants: entries that are exactly 0 or 1 for *every* numeric argument must be the literal 0 / 1
        try:
            samples = [np.asarray((lambda r: r.A if hasattr(r, 'A') and not isinstance(r, np.ndarray) else r)(numcall(*p)), dtype=float) for p in pts(len(syms))[:4]]
            for idx in np.ndindex(samples[0].shape):
                vals = {float(s_[idx]) for s_ in samples}
                if vals in ({0.0}, {1.0}):
                    e = sp.sympify(Sa[idx])
                    if not (e.is_number and not e.free_symbols and float(e) == list(vals)[0]):
                        L.fail(f'sym-constant:{name}', f'{name}: a structural {int(list(vals)[0])} entry is not exact in the symbolic result ({e})', dict(inp, index=list(idx))); break
        except Exception:
            pass
    R = inputs.so3(g); Tn = inputs.se3(g, 1)
    Tsym = sp.Matrix(4, 4, ms); 
    def Tmat(*p): return np.array(p, dtype=float).reshape(4, 4)
    Tobj = np.array(Tsym.tolist(), dtype=object)
    plain = sp.Symbol('q')        # no assumptions: SymPy cannot decide whether it is real
    ENT = {
        'rotx': (lambda: b.rotx(th), lambda t: b.rotx(t), [th]), 'roty': (lambda: b.roty(th), lambda t: b.roty(t), [th]), 'rotz': (lambda: b.rotz(th), lambda t: b.rotz(t), [th]),
        'trotx': (lambda: b.trotx(th), lambda t: b.trotx(t), [th]), 'troty': (lambda: b.troty(th), lambda t: b.troty(t), [th]), 'trotz': (lambda: b.trotz(th), lambda t: b.trotz(t), [th]),
        'trotx(t=)': (lambda: b.trotx(th, t=[x, y, z]), lambda t, x_, y_, z_: b.trotx(t, t=[x_, y_, z_]), [th, x, y, z]),
        'rotx(deg)': (lambda: b.rotx(th, 'deg'), lambda t: b.rotx(t, 'deg'), [th]),
        'transl(x,y,z)': (lambda: b.transl(x, y, z), lambda x_, y_, z_: b.transl(x_, y_, z_), [x, y, z]), 'transl([x,y,z])': (lambda: b.transl([x, y, z]), lambda x_, y_, z_: b.transl([x_, y_, z_]), [x, y, z]),
        'transl(mixed)': (lambda: b.transl(x, 2.0, z), lambda x_, z_: b.transl(x_, 2.0, z_), [x, z]),
        'eul2r': (lambda: b.eul2r(a1, a2, a3), lambda p, q, r: b.eul2r(p, q, r), [a1, a2, a3]), 'eul2r([..])': (lambda: b.eul2r([a1, a2, a3]), lambda p, q, r: b.eul2r([p, q, r]), [a1, a2, a3]),
        'eul2r(mixed)': (lambda: b.eul2r(a1, 0.3, a3), lambda p, r: b.eul2r(p, 0.3, r), [a1, a3]),
        'eul2tr': (lambda: b.eul2tr(a1, a2, a3), lambda p, q, r: b.eul2tr(p, q, r), [a1, a2, a3]),
        'delta2tr': (lambda: b.delta2tr(list(vs)), lambda *p: b.delta2tr(list(p)), list(vs)),
        'trinv': (lambda: b.trinv(Tobj), lambda *p: b.trinv(Tmat(*p)), list(ms)),
        'tr2delta': (lambda: b.tr2delta(Tobj), lambda *p: b.tr2delta(Tmat(*p)), list(ms)),
        'tr2jac': (lambda: b.tr2jac(Tobj), lambda *p: b.tr2jac(Tmat(*p)), list(ms)),
        'trinv2': (lambda: b.trinv2(np.array(sp.Matrix(3, 3, ms[:9]).tolist(), dtype=object)), lambda *p: b.trinv2(np.array(p, float).reshape(3, 3)), list(ms[:9])),
        'skew(3)': (lambda: b.skew([x, y, z]), lambda x_, y_, z_: b.skew([x_, y_, z_]), [x, y, z]), 'skew(1)': (lambda: b.skew(x), lambda x_: b.skew(x_), [x]),
        'vex(3x3)': (lambda: b.vex(np.array(sp.Matrix(3, 3, ms[:9]).tolist(), dtype=object)), lambda *p: b.vex(np.array(p, float).reshape(3, 3)), list(ms[:9])),
        'skewa(6)': (lambda: b.skewa(list(vs)), lambda *p: b.skewa(list(p)), list(vs)), 'skewa(3)': (lambda: b.skewa([x, y, z]), lambda x_, y_, z_: b.skewa([x_, y_, z_]), [x, y, z]),
        'vexa(4x4)': (lambda: b.vexa(Tobj), lambda *p: b.vexa(Tmat(*p)), list(ms)),
        'det': (lambda: b.det(np.array(sp.Matrix(3, 3, ms[:9]).tolist(), dtype=object)), lambda *p: b.det(np.array(p, float).reshape(3, 3)), list(ms[:9])),
        'norm': (lambda: b.norm([x, y, z]), lambda x_, y_, z_: b.norm([x_, y_, z_]), [x, y, z]), 'normsq': (lambda: b.normsq([x, y, z]), lambda x_, y_, z_: b.normsq([x_, y_, z_]), [x, y, z]),
        'cross': (lambda: b.cross([x, y, z], [a1, a2, a3]), lambda *p: b.cross(list(p[:3]), list(p[3:])), [x, y, z, a1, a2, a3]),
        'qpow': (lambda: b.qpow(list(vs[:4]), 2), lambda *p: b.qpow(list(p), 2), list(vs[:4])), 'conj': (lambda: b.conj(list(vs[:4])), lambda *p: b.conj(list(p)), list(vs[:4])),
        'SO3.Rx': (lambda: SO3.Rx(th), lambda t: SO3.Rx(t), [th]), 'SE3.Rx': (lambda: SE3.Rx(th), lambda t: SE3.Rx(t), [th]), 'SE3.Ry': (lambda: SE3.Ry(th), lambda t: SE3.Ry(t), [th]), 'SE3.Rz': (lambda: SE3.Rz(th), lambda t: SE3.Rz(t), [th]),
        'SE3.Rx(t=)': (lambda: SE3.Rx(th, t=[x, y, z]), lambda t, x_, y_, z_: SE3.Rx(t, t=[x_, y_, z_]), [th, x, y, z]),
        'SE3.Eul': (lambda: SE3.Eul([a1, a2, a3]), lambda p, q, r: SE3.Eul([p, q, r]), [a1, a2, a3]), 'SE3.RPY': (lambda: SE3.RPY([a1, a2, a3]), lambda p, q, r: SE3.RPY([p, q, r]), [a1, a2, a3]),
        'SE3(x,y,z)': (lambda: SE3(x, y, z), lambda x_, y_, z_: SE3(x_, y_, z_), [x, y, z]), 'SE3.Tx': (lambda: SE3.Tx(x), lambda x_: SE3.Tx(x_), [x]), 'SE3.Ty': (lambda: SE3.Ty(x), lambda x_: SE3.Ty(x_), [x]), 'SE3.Tz': (lambda: SE3.Tz(x), lambda x_: SE3.Tz(x_), [x]),
        'SE3.Delta': (lambda: SE3.Delta(list(vs)), lambda *p: b.delta2tr(list(p)), list(vs)),
        'SE3.R': (lambda: SE3.Rx(th).R, lambda t: SE3.Rx(t).R, [th]), 'SE3.t': (lambda: SE3(x, y, z).t, lambda x_, y_, z_: SE3(x_, y_, z_).t, [x, y, z]),
        'SE3.inv': (lambda: (SE3.Rx(th) * SE3(x, y, z)).inv(), lambda t, x_, y_, z_: (SE3.Rx(t) * SE3(x_, y_, z_)).inv(), [th, x, y, z]),
        'SE3.Ad': (lambda: (SE3.Rx(th) * SE3(x, y, z)).Ad(), lambda t, x_, y_, z_: (SE3.Rx(t) * SE3(x_, y_, z_)).Ad(), [th, x, y, z]),
        'SE3.jacob': (lambda: SE3.Rx(th).jacob(), lambda t: SE3.Rx(t).jacob(), [th]),
        'SE3*SE3': (lambda: SE3.Rx(th) * SE3.Ry(a1), lambda t, u: SE3.Rx(t) * SE3.Ry(u), [th, a1]),
        'SE3*point': (lambda: SE3.Rx(th) * np.array([x, y, z], dtype=object), lambda t, x_, y_, z_: SE3.Rx(t) * np.array([x_, y_, z_]), [th, x, y, z]),
        'SO3*SO3': (lambda: SO3.Rx(th) * SO3.Rz(a1), lambda t, u: SO3.Rx(t) * SO3.Rz(u), [th, a1]), 'SO3.inv': (lambda: SO3.Rx(th).inv(), lambda t: SO3.Rx(t).inv(), [th]),
        'SO3.R': (lambda: SO3.Rx(th).R, lambda t: SO3.Rx(t).R, [th]),
        'SE3.Rx([a,b]).inv()[1]': (lambda: SE3.Rx([th, a1]).inv().data[1], lambda t, u: SE3.Rx(u).inv(), [th, a1]),
        'SE3.Rx([a,b]).inv().inv()[0]': (lambda: SE3.Rx([th, a1]).inv().inv().data[0], lambda t, u: SE3.Rx(t), [th, a1]),
        '(SE3.Rx([a,b])*SE3(x,y,z))[1]': (lambda: (SE3.Rx([th, a1]) * SE3(x, y, z)).data[1], lambda t, u, x_, y_, z_: SE3.Rx(u) * SE3(x_, y_, z_), [th, a1, x, y, z]),
        '(SE3(x,y,z)/SE3.Rx([a,b]))[0]': (lambda: (SE3(x, y, z) / SE3.Rx([th, a1])).data[0], lambda t, u, x_, y_, z_: SE3(x_, y_, z_) / SE3.Rx(t), [th, a1, x, y, z]),
        'SO3.Rx([a,b]).inv()[1]': (lambda: SO3.Rx([th, a1]).inv().data[1], lambda t, u: SO3.Rx(u).inv(), [th, a1]),
        '(SE3.Rx([a,b])*[x,y,z])[:,1]': (lambda: np.asarray(SE3.Rx([th, a1]) * np.array([x, y, z], dtype=object), dtype=object)[:, 1], lambda t, u, x_, y_, z_: (SE3.Rx(u) * np.array([x_, y_, z_])).flatten(), [th, a1, x, y, z]),
        'simplify': (lambda: (SE3.Rx(th) * SE3.Rx(-th)).simplify(), lambda t: SE3.Rx(t) * SE3.Rx(-t), [th]),
        'simplify(SE3 with t)': (lambda: (SE3.Rx(th) * SE3(x, y, z) * SE3.Ry(a1)).simplify(), lambda t, x_, y_, z_, u: SE3.Rx(t) * SE3(x_, y_, z_) * SE3.Ry(u), [th, x, y, z, a1]),
        'simplify(SE3(x,y,z))': (lambda: SE3(x, y, z).simplify(), lambda x_, y_, z_: SE3(x_, y_, z_), [x, y, z]),
        'simplify(SO3)': (lambda: (SO3.Rx(th) * SO3.Ry(a1)).simplify(), lambda t, u: SO3.Rx(t) * SO3.Ry(u), [th, a1]),
        # mixed lists: numbers first, symbols later (the symbol test must look at every element)
        'transl([0,y,z])': (lambda: b.transl([0, y, z]), lambda y_, z_: b.transl([0, y_, z_]), [y, z]),
        'transl([1.5,y,2])': (lambda: b.transl([1.5, y, 2]), lambda y_: b.transl([1.5, y_, 2]), [y]),
        'trotx(t=[0,0,z])': (lambda: b.trotx(th, t=[0, 0, z]), lambda t, z_: b.trotx(t, t=[0, 0, z_]), [th, z]),
        'eul2r([0,b,0])': (lambda: b.eul2r([0, a2, 0]), lambda q: b.eul2r([0, q, 0]), [a2]),
        'SE3.Eul([0,b,0])': (lambda: SE3.Eul([0, a2, 0]), lambda q: SE3.Eul([0, q, 0]), [a2]),
        'SE3.RPY([0,b,c])': (lambda: SE3.RPY([0, a2, a3]), lambda q, r: SE3.RPY([0, q, r]), [a2, a3]),
        'delta2tr([0,0,z,a,0,0])': (lambda: b.delta2tr([0, 0, z, a1, 0, 0]), lambda z_, a_: b.delta2tr([0, 0, z_, a_, 0, 0]), [z, a1]),
        'norm([1,y,2])': (lambda: b.norm([1, y, 2]), lambda y_: b.norm([1, y_, 2]), [y]), 'cross([1,0,z],[0,y,0])': (lambda: b.cross([1, 0, z], [0, y, 0]), lambda z_, y_: b.cross([1, 0, z_], [0, y_, 0]), [z, y]),
        'conj([1,x,0,0])': (lambda: b.conj([1, x, 0, 0]), lambda x_: b.conj([1, x_, 0, 0]), [x]),
        'qpow([1,x,0,0],2)': (lambda: b.qpow([1, x, 0, 0], 2), lambda x_: b.qpow([1, x_, 0, 0], 2), [x]),
        'skew([0,y,z])': (lambda: b.skew([0, y, z]), lambda y_, z_: b.skew([0, y_, z_]), [y, z]),
        'SE3*point([1,y,2])': (lambda: SE3.Rx(th) * [1, y, 2], lambda t, y_: SE3.Rx(t) * [1, y_, 2], [th, y]),
        'transl((0,y,z)) tuple': (lambda: b.transl((0, y, z)), lambda y_, z_: b.transl((0, y_, z_)), [y, z]),
        # quaternion powers, every small exponent incl. 0 (the identity), symbolic and mixed
        'qpow(q,0)': (lambda: b.qpow(list(vs[:4]), 0), lambda *p: b.qpow(list(p), 0), list(vs[:4])), 'qpow(q,1)': (lambda: b.qpow(list(vs[:4]), 1), lambda *p: b.qpow(list(p), 1), list(vs[:4])),
        'qpow(q,3)': (lambda: b.qpow(list(vs[:4]), 3), lambda *p: b.qpow(list(p), 3), list(vs[:4])), 'qpow([1,x,0,2],0)': (lambda: b.qpow([1, x, 0, 2], 0), lambda x_: b.qpow([1, x_, 0, 2], 0), [x]),
        'qpow(q,-1)': (lambda: b.qpow(list(vs[:4]), -1), lambda *p: b.qpow(list(p), -1), list(vs[:4])),
        # differential motion between a numeric and a symbolic pose, either way round
        'tr2delta(numeric,symbolic)': (lambda: b.tr2delta(b.trotx(0.3), b.trotx(th) @ b.transl(x, y, z)), lambda t, x_, y_, z_: b.tr2delta(b.trotx(0.3), b.trotx(t) @ b.transl(x_, y_, z_)), [th, x, y, z]),
        'tr2delta(symbolic,numeric)': (lambda: b.tr2delta(b.trotx(th) @ b.transl(x, y, z), b.trotx(0.3)), lambda t, x_, y_, z_: b.tr2delta(b.trotx(t) @ b.transl(x_, y_, z_), b.trotx(0.3)), [th, x, y, z]),
        'SE3.delta(numeric,symbolic)': (lambda: SE3.Rx(0.3).delta(SE3.Rx(th)), lambda t: SE3.Rx(0.3).delta(SE3.Rx(t)), [th]),
        # mixed symbol / number vectors for the augmented-skew family (numeric rotational part, symbolic translational part and the reverse)
        'skewa([x,y,0.3])': (lambda: b.skewa([x, y, 0.3]), lambda x_, y_: b.skewa([x_, y_, 0.3]), [x, y]),
        'skewa([x,y,z,0,0,0])': (lambda: b.skewa([x, y, z, 0, 0, 0]), lambda x_, y_, z_: b.skewa([x_, y_, z_, 0, 0, 0]), [x, y, z]),
        'skewa([1,2,3,a,0,0])': (lambda: b.skewa([1, 2, 3, a1, 0, 0]), lambda a_: b.skewa([1, 2, 3, a_, 0, 0]), [a1]),
        'delta2tr([x,y,z,0,0,0])': (lambda: b.delta2tr([x, y, z, 0, 0, 0]), lambda x_, y_, z_: b.delta2tr([x_, y_, z_, 0, 0, 0]), [x, y, z]),
        'SE3.Delta([x,y,z,0,0,0.1])': (lambda: SE3.Delta([x, y, z, 0, 0, 0.1]), lambda x_, y_, z_: SE3.Delta([x_, y_, z_, 0, 0, 0.1]), [x, y, z]),
        # N x 3 arrays of angle triples (multi-valued constructors), symbolic and mixed
        'SE3.Eul(Nx3)': (lambda: np.array([np.asarray(A_) for A_ in SE3.Eul(np.array([[a1, a2, a3], [a3, 0.2, a1]], dtype=object)).data]),
                         lambda p, q, r: np.array([np.asarray(A_) for A_ in SE3.Eul(np.array([[p, q, r], [r, 0.2, p]])).data]), [a1, a2, a3]),
        'SE3.RPY(Nx3)': (lambda: np.array([np.asarray(A_) for A_ in SE3.RPY(np.array([[a1, a2, a3], [a3, 0.2, a1]], dtype=object)).data]),
                         lambda p, q, r: np.array([np.asarray(A_) for A_ in SE3.RPY(np.array([[p, q, r], [r, 0.2, p]])).data]), [a1, a2, a3]),
        'SO3.Eul(Nx3)': (lambda: np.array([np.asarray(A_) for A_ in SO3.Eul(np.array([[a1, a2, a3], [a3, 0.2, a1]], dtype=object)).data]),
                         lambda p, q, r: np.array([np.asarray(A_) for A_ in SO3.Eul(np.array([[p, q, r], [r, 0.2, p]])).data]), [a1, a2, a3]),
        # vectors whose sum of squares is a single term (|x|, not x), numeric x symbolic operand order, non-round float coefficients under simplify()
        'norm([x,0,0])': (lambda: b.norm([x, 0, 0]), lambda x_: b.norm([x_, 0, 0]), [x]), 'norm([x,x,0])': (lambda: b.norm([x, x, 0]), lambda x_: b.norm([x_, x_, 0]), [x]),
        'norm([x*y,0])': (lambda: b.norm([x * y, 0]), lambda x_, y_: b.norm([x_ * y_, 0]), [x, y]), 'norm([0,y])': (lambda: b.norm([0, y]), lambda y_: b.norm([0, y_]), [y]),
        'cross(numeric,symbolic)': (lambda: b.cross([1, 2, 3], [x, y, z]), lambda x_, y_, z_: b.cross([1, 2, 3], [x_, y_, z_]), [x, y, z]),
        'cross(float array,symbolic)': (lambda: b.cross(np.r_[0.5, 0.0, 0.0], [0, 0, z]), lambda z_: b.cross(np.r_[0.5, 0.0, 0.0], [0, 0, z_]), [z]),
        'cross(symbolic,numeric)': (lambda: b.cross([x, y, z], [1, 2, 3]), lambda x_, y_, z_: b.cross([x_, y_, z_], [1, 2, 3]), [x, y, z]),
        'simplify(float coefficients)': (lambda: (SE3.Rx(th) * SE3.Ry(0.3) * SE3(x, 1.2345678912345, z)).simplify(), lambda t, x_, z_: SE3.Rx(t) * SE3.Ry(0.3) * SE3(x_, 1.2345678912345, z_), [th, x, z]),
        'simplify(SO3 float)': (lambda: (SO3.Rx(th) * SO3.Rz(1.1)).simplify(), lambda t: SO3.Rx(t) * SO3.Rz(1.1), [th]),
        # both modes of the velocity Jacobian, on a generic matrix and on a pose with rotation and translation
        'tr2jac(samebody)': (lambda: b.tr2jac(Tobj, True), lambda *p: b.tr2jac(Tmat(*p), True), list(ms)),
        'tr2jac(trotx(t=), samebody)': (lambda: b.tr2jac(b.trotx(th, t=[x, y, z]), True), lambda t, x_, y_, z_: b.tr2jac(b.trotx(t, t=[x_, y_, z_]), True), [th, x, y, z]),
        'tr2jac(trotx(t=))': (lambda: b.tr2jac(b.trotx(th, t=[x, y, z])), lambda t, x_, y_, z_: b.tr2jac(b.trotx(t, t=[x_, y_, z_])), [th, x, y, z]),
        # a pose built from a list / tuple of pose objects, from a copy, and grown by append / extend
        'SE3([X1,X2])[1]': (lambda: SE3([SE3.Rx(th), SE3(x, y, z)]).data[1], lambda t, x_, y_, z_: SE3([SE3.Rx(t), SE3(x_, y_, z_)]).data[1], [th, x, y, z]),
        'SE3([X1,X2])[0]': (lambda: SE3([SE3.Rx(th), SE3(1, 2, 3)]).data[0], lambda t: SE3([SE3.Rx(t), SE3(1, 2, 3)]).data[0], [th]),
        'SO3([X1,X2])[0]': (lambda: SO3([SO3.Rx(th), SO3.Ry(a1)]).data[0], lambda t, u: SO3([SO3.Rx(t), SO3.Ry(u)]).data[0], [th, a1]),
        'SE3(X)': (lambda: SE3(SE3.Rx(th) * SE3(x, y, z)), lambda t, x_, y_, z_: SE3(SE3.Rx(t) * SE3(x_, y_, z_)), [th, x, y, z]),
        'SE3.append': (lambda: (lambda X_: (X_.append(SE3(x, y, z)), X_.data[1])[1])(SE3.Rx(th)), lambda t, x_, y_, z_: (lambda X_: (X_.append(SE3(x_, y_, z_)), X_.data[1])[1])(SE3.Rx(t)), [th, x, y, z]),
        # symbols whose realness SymPy leaves undecided (plain sympy.symbols('q')), and expressions of them
        'rotx(plain symbol)': (lambda: b.rotx(plain), lambda t: b.rotx(t), [plain]), 'trotz(2*plain)': (lambda: b.trotz(2 * plain), lambda t: b.trotz(2 * t), [plain]),
        'SE3.Rx(plain symbol)': (lambda: SE3.Rx(plain), lambda t: SE3.Rx(t), [plain]), 'eul2r(plain, a, plain/2)': (lambda: b.eul2r(plain, a2, plain / 2), lambda t, q: b.eul2r(t, q, t / 2), [plain, a2]),
        'SO3.Ry(plain+a)': (lambda: SO3.Ry(plain + a1), lambda t, u: SO3.Ry(t + u), [plain, a1]), 'transl(plain,y,z)': (lambda: b.transl(plain, y, z), lambda t, y_, z_: b.transl(t, y_, z_), [plain, y, z]),
        # several symbolic poses in one object acting on a numeric vector, a numeric matrix of points, a tuple
        '(SE3.Rx([a,b],t)*[1,2,3])[:,1]': (lambda: np.asarray(SE3.Rx([th, a1], t=[x, y, z]) * [1, 2, 3], dtype=object)[:, 1], lambda t, u, x_, y_, z_: (SE3.Rx(u, t=[x_, y_, z_]) * np.array([1.0, 2, 3])).flatten(), [th, a1, x, y, z]),
        '(SO3.Rz([a,b])*array)[:,0]': (lambda: np.asarray(SO3.Rz([th, a1]) * np.array([1.0, 2.0, 3.0]), dtype=object)[:, 0], lambda t, u: (SO3.Rz(t) * np.array([1.0, 2, 3])).flatten(), [th, a1]),
        '(SE3.Ry([0.3,a])*(1,2,3))[:,1]': (lambda: np.asarray(SE3.Ry([0.3, th]) * (1, 2, 3), dtype=object)[:, 1], lambda t: (SE3.Ry(t) * np.array([1.0, 2, 3])).flatten(), [th]),
        'trinv2(trot2(a,t=[x,y]))': (lambda: b.trinv2(b.trot2(th, t=[x, y])), lambda t, x_, y_: b.trinv2(b.trot2(t, t=[x_, y_])), [th, x, y]),
        # integer powers of symbolic poses, angles in degrees given as separate scalars
        'SE3**3': (lambda: SE3.Rx(th, t=[x, y, z]) ** 3, lambda t, x_, y_, z_: SE3.Rx(t, t=[x_, y_, z_]) ** 3, [th, x, y, z]), 'SO3**2': (lambda: SO3.Ry(a1) ** 2, lambda u: SO3.Ry(u) ** 2, [a1]),
        '(SE3.Rz([a,b])**2)[1]': (lambda: (SE3.Rz([th, a1]) ** 2).data[1], lambda t, u: SE3.Rz(u) ** 2, [th, a1]), '(SE3.Rx*SE3.Tx)**2': (lambda: (SE3.Rx(th) * SE3.Tx(x)) ** 2, lambda t, x_: (SE3.Rx(t) * SE3.Tx(x_)) ** 2, [th, x]),
        'SE3**1': (lambda: SE3.Rx(th) ** 1, lambda t: SE3.Rx(t) ** 1, [th]),
        'eul2r(a,b,c,deg)': (lambda: b.eul2r(a1, a2, a3, unit='deg'), lambda p, q, r: b.eul2r(p, q, r, unit='deg'), [a1, a2, a3]), 'eul2tr(25,b,110,deg)': (lambda: b.eul2tr(25, a2, 110, unit='deg'), lambda q: b.eul2tr(25, q, 110, unit='deg'), [a2]),
        'rpy2r(a,b,c,deg,xyz)': (lambda: b.rpy2r(a1, a2, a3, unit='deg', order='xyz'), lambda p, q, r: b.rpy2r(p, q, r, unit='deg', order='xyz'), [a1, a2, a3]), 'rpy2tr(a,b,c,deg)': (lambda: b.rpy2tr(a1, a2, a3, unit='deg'), lambda p, q, r: b.rpy2tr(p, q, r, unit='deg'), [a1, a2, a3]),
        'Twist3.Rx': (lambda: Twist3.Rx([th]).S, lambda t: Twist3.Rx([t]).S, [th]), 'Twist3.Ry': (lambda: Twist3.Ry([th]).S, lambda t: Twist3.Ry([t]).S, [th]), 'Twist3.Rz': (lambda: Twist3.Rz([th]).S, lambda t: Twist3.Rz([t]).S, [th]),
    }
    for name, (symcall, numcall, syms) in ENT.items():
        compare(name, symcall, numcall, syms)
    # tiny numeric values (a translation of a few 1e-9): the numeric path still evaluates the symbolic expression, nothing is treated as zero
    for name, symf, numf, syms_ in (('SE3.Rx(a,t=).Ad() tiny t', lambda: SE3.Rx(th, t=[x, y, z]).Ad(), lambda t_, x_, y_, z_: SE3.Rx(t_, t=[x_, y_, z_]).Ad(), [th, x, y, z]),
                                    ('adjoint(trotx(a,t=)) tiny t', lambda: b.adjoint(b.trotx(th, t=[x, y, z])), lambda t_, x_, y_, z_: b.adjoint(b.trotx(t_, t=[x_, y_, z_])), [th, x, y, z]),
                                    ('tr2jac(trotx(a,t=),samebody) tiny t', lambda: b.tr2jac(b.trotx(th, t=[x, y, z]), True), lambda t_, x_, y_, z_: b.tr2jac(b.trotx(t_, t=[x_, y_, z_]), True), [th, x, y, z]),
                                    ('SE3.inv tiny t', lambda: SE3.Rx(th, t=[x, y, z]).inv(), lambda t_, x_, y_, z_: SE3.Rx(t_, t=[x_, y_, z_]).inv(), [th, x, y, z])):
        try:
            S_ = symf(); S_ = S_.A if hasattr(S_, 'A') and not isinstance(S_, np.ndarray) else S_
            Sa = np.array(S_, dtype=object); ft = sp.lambdify(syms_, [sp.sympify(e_) for e_ in Sa.flat], 'math')
        except Exception: continue
        for pt_ in ((0.7, 4e-9, -7e-9, 2e-9), (-1.2, 1e-9, 0.0, -3e-9), (0.3, 5e-9, 5e-9, 5e-9)):
            L.count('sym-point(tiny)', key=(name, pt_))
            try:
                N_ = numf(*pt_); N_ = N_.A if hasattr(N_, 'A') and not isinstance(N_, np.ndarray) else N_
                Na = np.asarray(N_, float); Sv = np.array(ft(*pt_), float).reshape(Na.shape)
            except Exception as e:
                L.fail(f'sym-eval:{name}', f'{name}: evaluation raised {type(e).__name__}', dict(entry=name, point=pt_)); break
            if not np.allclose(Sv, Na, rtol=0, atol=1e-15):
                L.fail(f'sym-value:{name}', f'{name}: with translations of a few 1e-9 the numeric result differs from the symbolic result at the same numbers', dict(entry=name, point=pt_), observed=Sv, required=Na); break
    # numeric arguments held in a narrower NumPy type (np.float32 scalars): the numeric path is still the double-precision value of the
    # symbolic expression at that number
    for name, symf, numf in (('rotx(float32)', lambda: b.rotx(th), b.rotx), ('roty(float32)', lambda: b.roty(th), b.roty), ('rotz(float32)', lambda: b.rotz(th), b.rotz), ('trotx(float32)', lambda: b.trotx(th), b.trotx),
                             ('rot2(float32)', lambda: b.rot2(th), b.rot2), ('trot2(float32)', lambda: b.trot2(th), b.trot2), ('eul2r(float32 scalars)', lambda: b.eul2r(th, th, th), lambda t_: b.eul2r(t_, t_, t_)),
                             ('rpy2r(float32 scalars)', lambda: b.rpy2r(th, th, th), lambda t_: b.rpy2r(t_, t_, t_))):
        try:
            Sa = np.array(symf(), dtype=object); f32 = sp.lambdify([th], [sp.sympify(e_) for e_ in Sa.flat], 'math')
        except Exception: continue
        for tv_ in (np.float32(0.3), np.float32(-2.1), np.float32(1.5707963), np.float32(3.0)):
            L.count('sym-point(float32)', key=(name, float(tv_)))
            try: Na = np.asarray(numf(tv_), float); Sv = np.array(f32(float(tv_)), float).reshape(Na.shape)
            except Exception as e:
                L.fail(f'sym-eval:{name}', f'{name}: evaluating with a float32 angle raised {type(e).__name__}', dict(entry=name, angle=float(tv_))); break
            if not np.allclose(Sv, Na, rtol=0, atol=1e-12):
                L.fail(f'sym-value:{name}', f'{name}: with an np.float32 angle the numeric result differs from the symbolic result substituted at that number', dict(entry=name, angle=float(tv_)), observed=Sv, required=Na); break
    ents = supported_entries()
    L.stats['entries_marked_supported'] = len(ents)
    covered = {n.split('(')[0].split('.')[-1].split('*')[0] for n in ENT}
    L.stats['marked_entries_without_a_case'] = [f'{c}.{n}' if c else n for (_, c, n) in ents if n not in covered and n != '__init__']
    res = L.result(); res['exhaustive'] = False
    return res

if __name__ == '__main__':
    main_entry(_impl)
