"""C13 — Lie-algebra maps, adjoint and differential motion are consistent (float monitor)."""
import math
import numpy as np
from .common import Laws, run_subprocess, main_entry
from .. import inputs
from . import geom

SPEC = dict(
    technique='Lean 4 proof (skew/vex, adjoint homomorphism, Jacobians, delta maps; regenerated model) + float monitor',
    lean_modules=['SmVerif.Props.C13', 'SmVerif.Props.Structure', 'SmVerif.Props.VecPreds'],
    groups=['TransformsNd', 'Transforms3d', 'Transforms2d', 'Vectors', 'Poses'],
    expected_untranslatable=('trinterp_T', 'trinterp_T_nostart'),
    partial=['exp(ad S) = Ad(exp S) and first-order agreement of tr2delta with the logarithm are explored numerically'],
    assumptions=['identities compared at 1e-9·max(1,|t|) (1e-7 where exp of a general twist is involved) on generated inputs only'],
)

def monitor(tier, seed, search=False):
    return run_subprocess('smv.props.c13', tier, seed, search)

def replay(rp):
    r = run_subprocess('smv.props.c13', 'quick', 0, True)
    hit = [v for v in r['violations'] if v['signature'] == rp.get('signature')]
    return dict(violates=bool(hit), detail=hit[:1])

def sk(w): return np.array([[0, -w[2], w[1]], [w[2], 0, -w[0]], [-w[1], w[0], 0]])

def _impl(tier, seed, search):
    import spatialmath.base as b
    from spatialmath import SE3, Twist3
    import scipy.linalg
    g = inputs.rng(seed)
    n = 150 if tier == 'quick' else 3000
    if search: n *= 3
    L = Laws('C13', rule='real vectors of length 1, 3, 6 with magnitudes 1e-6..1e6, rigid motions over the whole group with translations to 1e3, '
                         'all twists, differential motions of magnitude 1e-9..1e-2; a case = one identity instance')
    T9 = 1e-9
    for i in range(n):
        mag = 10.0 ** g.uniform(-6, 6)
        a, c = g.normal(size=3) * mag, g.normal(size=3) * 10.0 ** g.uniform(-6, 6)
        sa, sc = float(np.max(np.abs(a))), float(np.max(np.abs(c)))
        # maps and their inverses, linearity, cross product
        L.close('vex(skew(v))', b.vex(b.skew(a)), a, 1e-12, sa, dict(v=a))
        L.close('skew(vex(S))', b.skew(b.vex(sk(a))), sk(a), 1e-12, sa, dict(v=a))
        L.close('skew(a)b=axb', b.skew(a) @ c, np.cross(a, c), T9, sa * sc, dict(a=a, b=c))
        L.close('skew-linear', b.skew(a + 2 * c), b.skew(a) + 2 * b.skew(c), T9, max(sa, sc), dict(a=a, b=c))
        L.close('skew-is-skew', b.skew(a) + b.skew(a).T, np.zeros((3, 3)), 1e-12, sa, dict(v=a))
        x = float(g.normal() * mag)
        L.close('vex(skew(x)) so(2)', b.vex(b.skew(x)), [x], 1e-12, abs(x), dict(x=x)); L.close('skew(x)', b.skew(x), [[0, -x], [x, 0]], 1e-12, abs(x), dict(x=x))
        S6 = np.r_[a, c]
        L.close('vexa(skewa(S)) se(3)', b.vexa(b.skewa(S6)), S6, 1e-12, max(sa, sc), dict(S=S6))
        # lists mixing Python ints and floats (the integer part must not decide the type of the result)
        for nm_, lst_, want_ in (('skewa([f,f,0,0,0,1])', [0.5, -0.25, 0, 0, 0, 1], None), ('skewa([f,f,f,0,0,0])', [0.3, -1.7, 2.25, 0, 0, 0], None), ('skewa([f,f,1])', [0.5, -0.25, 1], None), ('skewa([1,2,f])', [1, 2, 0.5], None),
                                 ('skewa((f,f,0,0,0,1))', (0.5, -0.25, 0, 0, 0, 1), None), ('skew([0,0,f])', [0, 0, 0.5], None), ('skew([1,f,0])', [1, 0.25, 0], None), ('delta2tr([f,f,0,0,0,0])', [0.001, 0.002, 0, 0, 0, 0], None)):
            fn_ = getattr(b, nm_.split('(')[0]); ref_ = fn_(np.array(lst_, dtype=float))
            ok, r = L.noraise(nm_, lambda: np.asarray(fn_(lst_), float), dict(arg=repr(lst_)), nm_, sig='mixed-int-float:raises')
            if ok: L.close(nm_, r, np.asarray(ref_, float), 1e-15, 1.0, dict(arg=repr(lst_)), what=f'{nm_.split("(")[0]} of a list mixing ints and floats differs from the same values as a float array', sig='mixed-int-float')
        # the unit-twist predicates against their definition: |w| = 1, or w = 0 and |v| = 1 — nothing else
        uv_ = a / max(np.linalg.norm(a), 1e-300)
        for nm_, S_, want_ in (('|v|=1, |w|=2', np.r_[uv_, 2 * c / max(np.linalg.norm(c), 1e-300)], False), ('|v|=1, |w|=0.5', np.r_[uv_, 0.5 * c / max(np.linalg.norm(c), 1e-300)], False), ('|v|=1, w=0', np.r_[uv_, 0, 0, 0], True),
                               ('|w|=1', np.r_[a, c / max(np.linalg.norm(c), 1e-300)], True), ('|v|=2, w=0', np.r_[2 * uv_, 0, 0, 0], False)):
            L.check(f'isunittwist[{nm_}]', bool(b.isunittwist(S_)) == want_, dict(S=S_), f'isunittwist is {not want_} for a twist with {nm_}', sig='isunittwist:definition')
        for nm_, S_, want_ in (('|v|=1, w=2', np.r_[uv_[:2] / max(np.linalg.norm(uv_[:2]), 1e-300), 2.0], False), ('|v|=1, w=0', np.r_[uv_[:2] / max(np.linalg.norm(uv_[:2]), 1e-300), 0.0], True), ('w=-1', np.r_[a[:2], -1.0], True), ('|v|=1, w=0.5', np.r_[uv_[:2] / max(np.linalg.norm(uv_[:2]), 1e-300), 0.5], False)):
            L.check(f'isunittwist2[{nm_}]', bool(b.isunittwist2(S_)) == want_, dict(S=S_), f'isunittwist2 is {not want_} for a planar twist with {nm_}', sig='isunittwist:definition')
        if i % 8 == 0:
            for nm_, call_ in (('trexp([0,0,1,0,0,2], 0.3)', lambda: b.trexp([0, 0, 1, 0, 0, 2], 0.3)), ('trexp2([0.6,0.8,2], 0.3)', lambda: b.trexp2([0.6, 0.8, 2], 0.3))):
                L.raises('non-unit twist with theta', call_, dict(call=nm_), f'{nm_}: a twist that is not a unit twist must be refused when an angle is given', sig='isunittwist:definition')
        M4 = b.skewa(S6); L.check('skewa-form se(3)', bool(np.all(M4[3, :] == 0) and np.allclose(M4[:3, :3], sk(c)) and np.allclose(M4[:3, 3], a)), dict(S=S6), 'skewa(6-vector) is not [skew(w) v; 0 0]')
        S3 = np.r_[a[:2], x]
        L.close('vexa(skewa(S)) se(2)', b.vexa(b.skewa(S3)), S3, 1e-12, max(sa, abs(x)), dict(S=S3))
        M3 = b.skewa(S3); L.check('skewa-form se(2)', bool(np.all(M3[2, :] == 0) and np.allclose(M3[:2, :2], [[0, -x], [x, 0]]) and np.allclose(M3[:2, 2], a[:2])), dict(S=S3), 'skewa(3-vector) is not [skew(w) v; 0 0]')
        L.close('cross', b.cross(a, c), np.cross(a, c), T9, sa * sc, dict(a=a, b=c))
        L.close('norm', b.norm(a), float(np.linalg.norm(a)), T9, sa, dict(v=a)); L.close('normsq', b.normsq(a), float(np.dot(a, a)), T9, sa * sa, dict(v=a))
        for ln_ in (1, 2, 4, 6):
            vl = g.normal(size=ln_) * 10.0 ** g.uniform(-3, 3)
            L.close(f'norm[len={ln_}]', b.norm(vl), float(np.linalg.norm(vl)), T9, float(np.max(np.abs(vl))), dict(v=vl), sig=f'norm:len{ln_}')
            L.close(f'normsq[len={ln_}]', b.normsq(vl), float(np.dot(vl, vl)), T9, float(np.max(np.abs(vl))) ** 2, dict(v=vl), sig=f'normsq:len{ln_}')
            L.close(f'norm(list)[len={ln_}]', b.norm(list(vl)), float(np.linalg.norm(vl)), T9, float(np.max(np.abs(vl))), dict(v=vl), sig=f'norm:len{ln_}')
        L.check('colvec', b.colvec(a).shape == (3, 1) and np.array_equal(b.colvec(a).flatten(), a), dict(v=a), 'colvec is not the column form')
        for fn_, fv_ in (('list', list(a)), ('tuple', tuple(a)), ('row', a.reshape(1, 3)), ('column', a.reshape(3, 1)), ('column6', np.r_[a, c].reshape(6, 1))):
            ok, r = L.noraise(f'colvec({fn_})', lambda: np.asarray(b.colvec(fv_)), dict(v=a, form=fn_), f'colvec({fn_})', sig='colvec:raises')
            if ok:
                n_ = np.asarray(fv_).size
                L.check(f'colvec({fn_})', r.shape == (n_, 1) and np.array_equal(r.flatten(), np.asarray(fv_, float).flatten()), dict(v=a, form=fn_), f'colvec of a {fn_} is not the ({n_},1) column', sig='colvec:form', observed=list(r.shape))
        ok, r = L.noraise('skew@colvec', lambda: (b.skew(a) @ b.colvec(c.reshape(3, 1))).flatten(), dict(a=a, b=c), 'skew(a) @ colvec(column b)', sig='colvec:raises')
        if ok: L.close('skew(a)@colvec(b)=axb', r, np.cross(a, c), T9, sa * sc, dict(a=a, b=c), sig='colvec:form')
        # unitvec / unitvec_norm are v/|v| (and |v|) for every non-zero vector — small ones too (differential motions go down to 1e-9 and below)
        for ln_ in (1, 3, 6):
            vu = g.normal(size=ln_) * 10.0 ** g.uniform(-12, 6); nu = float(np.linalg.norm(vu))
            if nu < 1e-13: continue
            ok, r = L.noraise(f'unitvec[len={ln_}]', lambda: (b.unitvec(vu), b.unitvec_norm(vu)), dict(v=vu), 'unitvec / unitvec_norm', sig='unitvec:raises')
            if ok:
                if r[0] is None or r[1] is None: L.check('unitvec', False, dict(v=vu), f'unitvec / unitvec_norm returned None for a vector of norm {nu:.3g}', sig='unitvec:none')
                else:
                    L.close('unitvec', r[0], vu / nu, 1e-12, 1.0, dict(v=vu)); L.close('unitvec_norm:vector', r[1][0], vu / nu, 1e-12, 1.0, dict(v=vu), sig='unitvec_norm')
                    L.close('unitvec_norm:norm', float(r[1][1]), nu, 1e-12, nu, dict(v=vu), sig='unitvec_norm')
        # adjoint
        T1 = inputs.se3(g, 3); T2 = inputs.se3(g, 3); S = np.r_[g.normal(size=3), g.normal(size=3)]
        tsc = max(1.0, geom.tmag(T1), geom.tmag(T2), geom.tmag(T1 @ T2))
        A1, A2 = b.adjoint(T1), b.adjoint(T2)
        L.close('Ad(T1 T2)=Ad(T1)Ad(T2)', b.adjoint(T1 @ T2), A1 @ A2, T9, tsc * max(1.0, geom.tmag(T1)), dict(T1=T1, T2=T2))
        L.close('Ad(T^-1)=Ad(T)^-1', b.adjoint(b.trinv(T1)) @ A1, np.eye(6), T9, max(1.0, geom.tmag(T1)) ** 2, dict(T=T1))
        L.close('Ad(T)S=vee(T[S]T^-1)', A1 @ S, b.vexa(T1 @ b.skewa(S) @ b.trinv(T1)), T9, max(1.0, geom.tmag(T1)) ** 2 * float(np.max(np.abs(S))), dict(T=T1, S=S))
        # … for twists of every size (a 3000 rpm spindle has |w| = 314): vee is linear, defined on every computed algebra element
        Sl = S * 10.0 ** g.uniform(0.5, 3.0)
        ok, r = L.noraise('Ad(T)S=vee(T[S]T^-1):large', lambda: b.vexa(T1 @ b.skewa(Sl) @ b.trinv(T1)), dict(T=T1, S=Sl), 'vee of the conjugated algebra element T [S] T^-1 for a large twist', sig='vee(T[S]T^-1):raises')
        if ok: L.close('Ad(T)S=vee(T[S]T^-1):large', A1 @ Sl, r, T9, max(1.0, geom.tmag(T1)) ** 2 * float(np.max(np.abs(Sl))), dict(T=T1, S=Sl), sig='Ad(T)S=vee(T[S]T^-1)')
        # … and on the twist class: the product of two twists is the composition of the motions, so Ad(S1*S2) = Ad(S1) Ad(S2) — prismatic, revolute and general operands
        if i % 3 == 0:
            gen_ = np.r_[g.normal(size=3), inputs.unit_axis(g) * float(g.uniform(0.2, 1.2))]; pri_ = np.r_[g.normal(size=3), 0, 0, 0]; gen2_ = np.r_[g.normal(size=3), inputs.unit_axis(g) * float(g.uniform(0.2, 1.2))]
            for nm_, (sa_, sb_) in (('prismatic*general', (pri_, gen_)), ('general*prismatic', (gen_, pri_)), ('general*general', (gen_, gen2_)), ('prismatic*prismatic', (pri_, np.r_[gen_[:3], 0, 0, 0]))):
                ok, r = L.noraise(f'Twist3*Twist3({nm_})', lambda: ((Twist3(sa_) * Twist3(sb_)).Ad(), Twist3(sa_).Ad() @ Twist3(sb_).Ad(), (Twist3(sa_) * Twist3(sb_)).SE3().A, b.trexp(sa_) @ b.trexp(sb_)), dict(S1=sa_, S2=sb_), 'Twist3 * Twist3')
                if ok:
                    L.close(f'Ad(S1*S2)=Ad(S1)Ad(S2) [{nm_}]', r[0], r[1], 1e-7, max(1.0, float(np.max(np.abs(r[1])))), dict(S1=sa_, S2=sb_), what=f'Ad of the product of two twists ({nm_}) is not the product of their adjoints', sig='Ad(S1*S2)')
                    L.close(f'exp(S1*S2)=exp(S1)exp(S2) [{nm_}]', r[2], r[3], 1e-7, max(1.0, geom.tmag(r[3])), dict(S1=sa_, S2=sb_), sig='Ad(S1*S2)')
        ok, r = L.noraise('SE3.Ad', lambda: SE3(T1, check=False).Ad(), dict(T=T1), 'SE3.Ad()')
        if ok: L.close('SE3.Ad', r, A1, 1e-12, max(1.0, geom.tmag(T1)), dict(T=T1))
        ok, r = L.noraise('adjoint(3x3)', lambda: b.adjoint(T1[:3, :3]), dict(R=T1[:3, :3]), 'base.adjoint on an SO(3) matrix', sig='adjoint(3x3):raises')
        if ok: L.close('adjoint(3x3)', r, np.block([[T1[:3, :3], np.zeros((3, 3))], [np.zeros((3, 3)), T1[:3, :3]]]), 1e-12, 1.0, dict(R=T1[:3, :3]))
        # exp(ad S) = Ad(exp S)    (1e-7)
        Ssm = np.r_[g.normal(size=3), inputs.unit_axis(g) * float(g.uniform(0, math.pi))]
        ok, r = L.noraise('Twist3.ad', lambda: (Twist3(Ssm).ad(), Twist3(Ssm).Ad()), dict(S=Ssm), 'Twist3.ad / Ad')
        if ok:
            v_, w_ = Ssm[:3], Ssm[3:]
            L.close('Twist3.ad-form', r[0], np.block([[sk(w_), sk(v_)], [np.zeros((3, 3)), sk(w_)]]), 1e-12, float(np.max(np.abs(Ssm))), dict(S=Ssm))
            E = scipy.linalg.expm(r[0])
            L.close('exp(ad S)=Ad(exp S)', E, r[1], 1e-7, max(1.0, float(np.max(np.abs(r[1])))), dict(S=Ssm))
        # … and for screws with a small rotational part (1e-4 .. 3e-2 rad) and a moment perpendicular to it
        wsm = inputs.unit_axis(g) * 10.0 ** g.uniform(-4, -1.5); vsm = np.cross(wsm / np.linalg.norm(wsm), g.normal(size=3)) * 10.0 ** g.uniform(-1, 1)
        Ssc = np.r_[vsm, wsm]
        ok, r = L.noraise('Twist3.Ad(small w)', lambda: (Twist3(Ssc).ad(), b.adjoint(b.trexp(Ssc)), Twist3(Ssc).Ad(), SE3.Exp(Ssc).Ad()), dict(S=Ssc), 'ad / Ad of a screw with a small rotational part')
        if ok:
            Esm = scipy.linalg.expm(r[0]); scs = max(1.0, float(np.max(np.abs(Esm))))
            for nm_, A_ in (('adjoint(trexp(S))', r[1]), ('Twist3.Ad', r[2]), ('SE3.Exp(S).Ad', r[3])):
                L.close(f'exp(ad S)={nm_}', Esm, A_, 1e-7, scs, dict(S=Ssc), what=f'exp(ad S) differs from {nm_} for a screw with a small rotational part', sig='exp(ad S)=Ad(exp S):small-w')
        # … and for screws whose rotational part exceeds a half turn (pi .. 3 pi), with non-zero pitch
        wbig = inputs.unit_axis(g) * float(g.uniform(math.pi, 3 * math.pi)); Sbig = np.r_[g.normal(size=3), wbig]
        ok, r = L.noraise('trexp(|w|>pi)', lambda: (b.trexp(Sbig), Twist3(Sbig).ad(), b.adjoint(b.trexp(Sbig))), dict(S=Sbig), 'trexp / adjoint of a screw with |w| > pi')
        if ok:
            Eb = scipy.linalg.expm(b.skewa(Sbig)); L.close('trexp(|w|>pi)=expm', r[0], Eb, 1e-7, max(1.0, geom.tmag(Eb)), dict(S=Sbig), what='trexp differs from the matrix exponential for a screw turning more than half a turn', sig='trexp:long')
            Ea = scipy.linalg.expm(r[1]); L.close('exp(ad S)=Ad(exp S) (|w|>pi)', Ea, r[2], 1e-7, max(1.0, float(np.max(np.abs(Ea)))), dict(S=Sbig), sig='trexp:long')
        # the same identities for degenerate twists: pure translation (w = 0) and rotation through the origin (v = 0)
        for Sd in (np.r_[g.normal(size=3) * 10.0 ** g.uniform(-2, 2), 0, 0, 0], np.r_[0, 0, 0, inputs.unit_axis(g) * float(g.uniform(0.1, 3.0))]):
            ok, r = L.noraise('Twist3.Ad(degenerate)', lambda: (Twist3(Sd).ad(), Twist3(Sd).Ad(), Twist3(Sd).SE3().Ad()), dict(S=Sd), 'Twist3.ad / Ad on a degenerate twist')
            if ok:
                L.close('exp(ad S)=Ad(exp S)', scipy.linalg.expm(r[0]), r[1], 1e-7, max(1.0, float(np.max(np.abs(r[1]))), float(np.max(np.abs(Sd)))), dict(S=Sd), sig='exp(ad S)=Ad(exp S):degenerate')
                L.close('Twist3.Ad=SE3.Ad', r[1], r[2], 1e-12, max(1.0, float(np.max(np.abs(r[2])))), dict(S=Sd), sig='exp(ad S)=Ad(exp S):degenerate')
        # along the one-parameter subgroup at theta = 0 and theta = -theta: S.exp(0) is the identity, Ad(S.exp(a)) Ad(S.exp(-a)) = I
        if i % 6 == 0:
            Su_ = np.r_[g.normal(size=3), inputs.unit_axis(g)]; au_ = float(g.uniform(0.2, 2.0))
            ok, r = L.noraise('Twist3.exp(0).Ad', lambda: (Twist3(Su_).exp(0).Ad(), Twist3(Su_).exp(0.0).A, Twist3(Su_).exp(au_).Ad() @ Twist3(Su_).exp(-au_).Ad(), scipy.linalg.expm(0 * Twist3(Su_).ad())), dict(S=Su_), 'Twist3.exp(0) / exp(a) exp(-a)')
            if ok:
                L.close('Ad(S.exp(0))=I', r[0], np.eye(6), 1e-9, 1.0, dict(S=Su_), what='Ad(S.exp(0)) is not the identity (= exp(0 * ad S))', sig='exp(ad S)=Ad(exp S):theta=0'); L.close('S.exp(0)=I', r[1], np.eye(4), 1e-9, 1.0, dict(S=Su_), sig='exp(ad S)=Ad(exp S):theta=0')
                L.close('Ad(S.exp(a))Ad(S.exp(-a))=I', r[2], np.eye(6), 1e-7, max(1.0, float(np.max(np.abs(Su_[:3])))) ** 2, dict(S=Su_, a=au_), sig='exp(ad S)=Ad(exp S):theta=0')
            # the inverse of each value of a multi-valued pose has the inverse adjoint
            Tm1_, Tm2_ = inputs.se3(g, 2), inputs.se3(g, 2)
            ok, r = L.noraise('Ad(inv) on a sequence', lambda: [np.asarray(x_, float) for x_ in SE3([Tm1_, Tm2_], check=False).inv().data], dict(T1=Tm1_, T2=Tm2_), 'SE3([T1, T2]).inv()')
            if ok and len(r) == 2:
                for k_, Tk_ in enumerate((Tm1_, Tm2_)):
                    L.close('Ad(T^-1)Ad(T)=I (sequence)', b.adjoint(r[k_]) @ b.adjoint(Tk_), np.eye(6), T9, max(1.0, geom.tmag(Tk_)) ** 2, dict(T=Tk_, k=k_), what='the adjoint of element k of SE3([...]).inv() is not the inverse of the adjoint of element k', sig='Ad(T^-1):sequence')
        # a twist times a pose is the composition exp(S) T (in that order): value and adjoint
        if i % 6 == 3:
            St_ = np.r_[g.normal(size=3), inputs.unit_axis(g) * float(g.uniform(0.3, 1.5))]; Tt_ = inputs.se3(g, 1)
            ok, r = L.noraise('Twist3*SE3', lambda: ((Twist3(St_) * SE3(Tt_, check=False)).A, (Twist3(St_) * SE3(Tt_, check=False)).Ad(), Twist3(St_).Ad() @ SE3(Tt_, check=False).Ad()), dict(S=St_, T=Tt_), 'Twist3 * SE3')
            if ok:
                L.close('Twist3*SE3 = exp(S) T', r[0], scipy.linalg.expm(b.skewa(St_)) @ Tt_, 1e-7, max(1.0, geom.tmag(r[0])), dict(S=St_, T=Tt_), what='Twist3 * SE3 is not exp(S) T', sig='Twist3*SE3')
                L.close('Ad(S*T) = Ad(S) Ad(T)', r[1], r[2], 1e-7, max(1.0, float(np.max(np.abs(r[2])))), dict(S=St_, T=Tt_), sig='Twist3*SE3')
        # velocity Jacobian
        R1 = T1[:3, :3]; Z = np.zeros((3, 3))
        L.close('tr2jac', b.tr2jac(T1), np.block([[R1.T, Z], [Z, R1.T]]), 1e-12, 1.0, dict(T=T1))
        L.close('tr2jac(samebody)=Ad(T^-1)', b.tr2jac(T1, samebody=True), b.adjoint(b.trinv(T1)), T9, max(1.0, geom.tmag(T1)), dict(T=T1))
        ok, r = L.noraise('SE3.jacob', lambda: SE3(T1, check=False).jacob(), dict(T=T1), 'SE3.jacob()', sig='SE3.jacob:raises')
        if ok: L.close('SE3.jacob', r, np.block([[R1.T, Z], [Z, R1.T]]), 1e-12, 1.0, dict(T=T1))
        # differential motion
        d = np.r_[g.normal(size=3), g.normal(size=3)]; d = d / np.linalg.norm(d) * 10.0 ** g.uniform(-9, -2)
        L.close('tr2delta(delta2tr(d))=d', b.tr2delta(b.delta2tr(d)), d, T9, float(np.max(np.abs(d))), dict(d=d))
        L.close('tr2delta(T0,T1)=tr2delta(T0^-1 T1)', b.tr2delta(T1, T2), b.tr2delta(b.trinv(T1) @ T2), T9, max(1.0, geom.tmag(b.trinv(T1) @ T2)), dict(T0=T1, T1=T2))
        Td = T1 @ b.trexp(d)
        lg = b.tr2delta(T1, Td)
        L.close('tr2delta~log (first order)', lg, d, 1.0, 10 * float(np.linalg.norm(d)) ** 2 + 1e-9 * max(1.0, geom.tmag(T1)) * 1e-7 + 1e-15 * max(1.0, geom.tmag(T1)), dict(T=T1, d=d),
                what='tr2delta does not match the logarithm to first order')
        # … against the library's own logarithm (base function and class), rotational and translational parts alike, down to |d| = 1e-9
        Tdd = b.trexp(d); Tdt = b.transl(*(g.normal(size=3) * 10.0 ** g.uniform(-8, 0))) @ b.trexp(np.r_[0, 0, 0, d[3:]])
        for nm_, Tx_ in (('exp(d)', Tdd), ('transl*rot(d)', Tdt)):
            ok, r = L.noraise(f'trlog({nm_})', lambda: (b.trlog(Tx_, twist=True), b.tr2delta(Tx_), SE3(Tx_, check=False).log(twist=True), b.vexa(b.trlog(Tx_))), dict(d=d, T=Tx_), 'trlog / tr2delta of a differential motion')
            if ok:
                tol_ = 10 * (float(np.linalg.norm(r[1])) + float(np.linalg.norm(d))) ** 2 + 1e-15
                for k_, nn_ in ((0, 'trlog'), (2, 'SE3.log'), (3, 'vee(trlog)')):
                    L.close(f'tr2delta~{nn_} (first order) [{nm_}]', r[1], r[k_], 1.0, tol_, dict(T=Tx_, d=d), what=f'tr2delta and {nn_} of a differential motion differ at first order', sig='tr2delta~trlog')
        ok, r = L.noraise('SE3.delta', lambda: SE3(T1, check=False).delta(SE3(Td, check=False)), dict(T=T1, d=d), 'SE3.delta')
        if ok: L.close('SE3.delta', r, lg, 1e-12, max(1e-300, float(np.max(np.abs(lg)))), dict(T=T1, d=d))
        ok, r = L.noraise('SE3.Delta', lambda: SE3.Delta(d).A, dict(d=d), 'SE3.Delta(d)', sig='SE3.Delta:raises')
        if ok and r is not None: L.close('SE3.Delta', r, b.delta2tr(d), 1e-12, 1.0, dict(d=d))
        elif ok: L.check('SE3.Delta', False, dict(d=d), 'SE3.Delta(d) holds None', sig='SE3.Delta:none')
    # round 11: exponential of se(3) twists whose rotation is next to (not at) a half turn — closed form written out here (Rodrigues and
    # the translational matrix with 1 - cos θ as it stands) — through trexp, SE3.Exp, Twist3.exp; Twist3.exp with a vector of angles in degrees
    def sk_(w): return np.array([[0, -w[2], w[1]], [w[2], 0, -w[0]], [-w[1], w[0], 0]])
    def exp6_(S):
        v_, w_ = np.asarray(S[:3], float), np.asarray(S[3:], float); th_ = float(np.linalg.norm(w_)); K_ = sk_(w_ / th_)
        R_ = np.eye(3) + math.sin(th_) * K_ + (1 - math.cos(th_)) * (K_ @ K_)
        V_ = np.eye(3) * th_ + (1 - math.cos(th_)) * K_ + (th_ - math.sin(th_)) * (K_ @ K_)
        T_ = np.eye(4); T_[:3, :3] = R_; T_[:3, 3] = V_ @ (v_ / th_); return T_
    ax_ = np.array([2.0, -1.0, 2.0]) / 3.0
    for d_ in (1e-3, 2e-5, 3e-6, 2e-7, -3e-6, -2e-5):
        for mult_ in (1, 3):
            S_ = np.r_[np.array([1.5, -2.0, 0.5]), ax_ * (mult_ * math.pi - d_)]
            ref_ = exp6_(S_); inp_ = dict(S=S_, offset_from_half_turn=d_); sc_ = max(1.0, float(np.max(np.abs(ref_))))
            for nm_, f_ in (('trexp', lambda: b.trexp(S_)), ('SE3.Exp', lambda: SE3.Exp(S_).A), ('Twist3.exp', lambda: Twist3(S_).exp().A), ('Twist3.SE3', lambda: Twist3(S_).SE3().A)):
                ok, r = L.noraise(f'{nm_}(near half turn)', f_, inp_, f'{nm_} of a twist next to a half turn', sig=f'near-half-turn:{nm_}:raises')
                if ok: L.close(f'{nm_}(near half turn)', np.asarray(r, float), ref_, 1e-9, sc_, inp_, what=f'{nm_}(S) is not the screw closed form next to a half turn', sig=f'near-half-turn:{nm_}')
    Sd_ = np.array([0.4, -0.3, 0.2, 0.1, 0.5, -0.2])
    for ths_ in ([30.0, 90.0, -45.0], np.array([10.0, 200.0]), (15.0,)):
        inp_ = dict(S=Sd_, theta_deg=list(ths_))
        ok, r = L.noraise('Twist3.exp(vector, deg)', lambda: Twist3(Sd_).exp(ths_, units='deg'), inp_, 'Twist3.exp(sequence of angles, units="deg")', sig='Twist3.exp(vector,deg):raises')
        if ok:
            L.check('Twist3.exp(vector, deg):len', len(r) == len(ths_), inp_, 'one pose per angle expected')
            if len(r) == len(ths_):
                for k_, th_ in enumerate(ths_):
                    L.close('Twist3.exp(vector, deg)', np.asarray(r[k_].A, float), exp6_(Sd_ * (th_ * math.pi / 180)), 1e-9, 1.0, dict(inp_, k=k_), what='exp(θ S) with θ in degrees is not exp(θ·π/180·S)', sig='Twist3.exp(vector,deg)')
    return L.result()

if __name__ == '__main__':
    main_entry(_impl)
