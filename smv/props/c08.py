"""C08 — operators are type-safe: only documented operand pairs produce a result (exhaustive enumeration)."""
import math, operator, copy
import numpy as np
from .common import Laws, run_subprocess, main_entry
from .. import inputs
from . import geom

SPEC = dict(
    lean_modules=['SmVerif.Props.C08'],
    groups=[],
    partial=['the dispatch model (Logic.Dispatch) is hand-written and tied to the classes by the exhaustive enumeration below'],
    assumptions=['the specification table is three-valued: documented class / must raise / unspecified (DESIGN.md §5)'],
    technique='Lean 4 proof over a hand model of operator dispatch + exhaustive correspondence over all class pairs',
)

def monitor(tier, seed, search=False):
    return run_subprocess('smv.props.c08', tier, seed, search)

def replay(rp):
    r = run_subprocess('smv.props.c08', 'quick', 0, True)
    hit = [v for v in r['violations'] if v['signature'] == rp.get('signature')]
    return dict(violates=bool(hit), detail=hit[:1])

POSE = ['SO2', 'SE2', 'SO3', 'SE3']
QUAT = ['Quaternion', 'UnitQuaternion']
SPAT = ['SpatialVelocity', 'SpatialAcceleration', 'SpatialForce', 'SpatialMomentum']
DQ = ['DualQuaternion', 'UnitDualQuaternion']
ALL = POSE + QUAT + ['Twist2', 'Twist3', 'Plucker'] + SPAT + ['SpatialInertia'] + DQ
LISTY = POSE + QUAT + ['Twist2', 'Twist3']
ARITH = ['*', '/', '+', '-', '**', '@']

def family(c):
    if c in ('SO2', 'SE2'): return 'pose2'
    if c in ('SO3', 'SE3'): return 'pose3'
    if c in QUAT: return 'quat'
    if c in SPAT or c == 'SpatialInertia': return 'spatial'
    if c in DQ: return 'dq'
    return c

def documented(l, r, op):
    """'raise' | ('cls', name) | ('kind', 'ndarray'|'scalar'|'bool') | None (unspecified)"""
    if l in POSE and r in POSE:
        if l == r:
            if op in ('*', '/'): return ('cls', l)
            if op in ('+', '-'): return ('kind', 'ndarray')
            return 'raise' if op in ('**', '@') else None
        return 'raise'
    if l in QUAT and r in QUAT:
        if op == '*': return ('cls', 'UnitQuaternion' if l == r == 'UnitQuaternion' else 'Quaternion')
        if op in ('+', '-'): return ('cls', 'Quaternion')
        if op == '/': return ('cls', 'UnitQuaternion') if l == r == 'UnitQuaternion' else None
        return 'raise' if op in ('**', '@') else None
    if l == r and l in ('Twist2', 'Twist3'):
        if op == '*': return ('cls', l)
        return None
    if (l, r, op) in (('Twist3', 'SE3', '*'), ('Twist2', 'SE2', '*')): return ('cls', r)
    if l == r == 'Plucker':
        if op == '*': return ('kind', 'scalar')
        return None
    if (l, r, op) == ('SE3', 'Plucker', '*'): return ('cls', 'Plucker')
    if l == 'SE3' and r in SPAT and op == '*': return ('cls', r)
    if l == 'Twist3' and r in SPAT and op == '*': return None
    if l in SPAT and r in SPAT:
        if l == r and op in ('+', '-'): return ('cls', l)
        if op == '@':
            if l == 'SpatialVelocity' and r == 'SpatialVelocity': return ('cls', 'SpatialAcceleration')
            if l == 'SpatialVelocity' and r == 'SpatialForce': return ('cls', 'SpatialForce')
            return None if l == 'SpatialVelocity' else 'raise'      # only a velocity has a cross product
        if l != r: return 'raise'
        return None if op == '@' else 'raise'
    if l == 'SpatialInertia':
        if r == 'SpatialInertia': return ('cls', 'SpatialInertia') if op == '+' else None
        if op == '*' and r == 'SpatialAcceleration': return ('cls', 'SpatialForce')
        if op == '*' and r == 'SpatialVelocity': return ('cls', 'SpatialMomentum')
        return 'raise'
    if r == 'SpatialInertia' and l in SPAT:
        return None if op == '*' else 'raise'      # __rmul__ of the inertia is documented loosely
    if l in DQ and r in DQ:
        if op == '*': return ('cls', l) if l == r else None
        if op in ('+', '-'): return ('cls', 'DualQuaternion')      # a sum or difference (also of unit dual quaternions) is a general dual quaternion
        return None
    # everything else: two different families
    if family(l) != family(r): return 'raise'
    return None

def _impl(tier, seed, search):
    import spatialmath as sm
    from spatialmath import SO2, SE2, SO3, SE3, Quaternion, UnitQuaternion, Twist2, Twist3
    from spatialmath.geom3d import Plucker
    from spatialmath.spatialvector import SpatialVelocity, SpatialAcceleration, SpatialForce, SpatialMomentum, SpatialInertia
    from spatialmath.DualQuaternion import DualQuaternion, UnitDualQuaternion
    from spatialmath.smuserlist import SMUserList
    g = inputs.rng(seed)
    L = Laws('C08', rule='every ordered pair of the 16 public classes x {*, /, +, -, **, @} with single- and multi-valued operands, '
                         'plus scalar operands and ==, != within a class; a case = one operator application; exhaustive')
    def mk(c, m=1):
        def one():
            if c == 'SO2': return inputs.so2(g)
            if c == 'SE2': return inputs.se2(g, 1)
            if c == 'SO3': return inputs.so3(g)
            if c == 'SE3': return inputs.se3(g, 1)
            if c == 'Quaternion': return g.normal(size=4)
            if c == 'UnitQuaternion': return inputs.unitq(g)
            if c == 'Twist2': return g.normal(size=3)
            if c == 'Twist3': return g.normal(size=6)
        cls = dict(SO2=SO2, SE2=SE2, SO3=SO3, SE3=SE3, Quaternion=Quaternion, UnitQuaternion=UnitQuaternion, Twist2=Twist2, Twist3=Twist3).get(c)
        if cls is not None:
            return cls(one()) if m == 1 else cls([one() for _ in range(m)])
        if c == 'Plucker': return Plucker.PQ(g.normal(size=3), g.normal(size=3))
        if c in SPAT: return dict(SpatialVelocity=SpatialVelocity, SpatialAcceleration=SpatialAcceleration, SpatialForce=SpatialForce, SpatialMomentum=SpatialMomentum)[c](g.normal(size=6))
        if c == 'SpatialInertia': return SpatialInertia(2.0, g.normal(size=3), np.eye(3))
        if c == 'DualQuaternion': return DualQuaternion(Quaternion(g.normal(size=4)), Quaternion(g.normal(size=4)))
        if c == 'UnitDualQuaternion': return UnitDualQuaternion(SE3(inputs.se3(g, 1)))
    OPS = {'*': operator.mul, '/': operator.truediv, '+': operator.add, '-': operator.sub, '**': operator.pow, '@': operator.matmul}
    def classify(x):
        if x is None: return ('none',)
        if x is NotImplemented: return ('notimplemented',)
        if isinstance(x, np.ndarray): return ('kind', 'ndarray')
        if isinstance(x, (bool, np.bool_)): return ('kind', 'bool')
        if isinstance(x, (int, float, np.floating, np.integer)): return ('kind', 'scalar')
        if isinstance(x, list): return ('kind', 'list')
        return ('cls', type(x).__name__)
    def elements_ok(x):
        """a returned library object must hold only elements of its own shape (no None / foreign arrays); a returned pose object
        must hold members of its own group (a 3x3 rotation matrix inside an SE2 is a foreign element)"""
        if isinstance(x, SMUserList):
            sh = x.shape if not callable(x.shape) else x.shape()
            for a in x.data:
                if a is None or not isinstance(a, np.ndarray) or a.shape != tuple(sh): return False
                if type(x).__name__ in ('SE2', 'SE3') and not geom.se_residual(np.asarray(a, float)) <= 1e-6: return False
                if type(x).__name__ in ('SO2', 'SO3') and not geom.so_residual(np.asarray(a, float)) <= 1e-6: return False
                if type(x).__name__ == 'UnitQuaternion' and not abs(float(np.linalg.norm(np.asarray(a, float))) - 1.0) <= 1e-6: return False
        return True
    reps = 1 if tier == 'quick' else 3
    for _ in range(reps):
        for l in ALL:
            for r in ALL:
                for op, f in OPS.items():
                    for (ml, mr) in ((1, 1), (2, 2), (1, 2), (2, 1)):
                        if (ml > 1 or mr > 1) and not (l in LISTY and r in LISTY): continue
                        want = documented(l, r, op)
                        inp = dict(left=l, right=r, op=op, len_left=ml, len_right=mr)
                        if want is None:
                            # the documentation leaves the cell open; whatever comes back must still be a well-formed object of its class
                            L.count('dispatch(unspecified)', key=(l, r, op, ml, mr))
                            try: xu = f(mk(l, ml), mk(r, mr))
                            except Exception: continue
                            if {l, r} == {'Quaternion', 'UnitQuaternion'} and classify(xu) != ('cls', 'Quaternion'):
                                # "Quaternion with UnitQuaternion gives Quaternion": if the mixed pair yields anything under an operator, it is a Quaternion
                                L.fail(f'documented:{l}{op}{r}', f'{l} {op} {r} returned {classify(xu)[-1]}; a Quaternion combined with a UnitQuaternion gives a Quaternion (or raises)', inp, observed=classify(xu), required=('cls', 'Quaternion'))
                            if xu is None or xu is NotImplemented or not elements_ok(xu):
                                L.fail(f'foreign-elements:{l}{op}{r}', f'{l} {op} {r} returned {"None" if xu is None else "an object holding elements that do not belong to its class (" + type(xu).__name__ + ")"}', inp)
                            continue
                        L.count('dispatch', key=(l, r, op, ml, mr)); L.sample(f'dispatch:{op}', inp)
                        try:
                            x = f(mk(l, ml), mk(r, mr)); got = classify(x)
                        except Exception as e:
                            got = ('raised', type(e).__name__)
                        if want == 'raise':
                            if got[0] != 'raised':
                                L.fail(f'must-raise:{l}{op}{r}', f'{l} {op} {r} must raise but returned {got[1] if len(got) > 1 else got[0]}', inp, observed=got, required='exception')
                        else:
                            if got[0] == 'raised':
                                L.fail(f'documented:{l}{op}{r}', f'{l} {op} {r} is documented to return {want[1]} but raised {got[1]}', inp, observed=got, required=want)
                            elif got != want and not (want == ('kind', 'ndarray') and max(ml, mr) > 1 and got == ('kind', 'list')):
                                L.fail(f'documented:{l}{op}{r}', f'{l} {op} {r} is documented to return {want[1]} but returned {got[1] if len(got) > 1 else got[0]}', inp, observed=got, required=want)
                            elif not elements_ok(x):
                                L.fail(f'foreign-elements:{l}{op}{r}', f'{l} {op} {r} returned an object holding foreign or None elements', inp)
        # scalars
        for c in POSE + QUAT + ['Twist2', 'Twist3']:
            for m in (1, 2):
                cases = []
                if c in POSE:
                    cases = [('*', lambda X: X * 2.0, ('kind', 'ndarray') if m == 1 else ('kind', 'list')), ('r*', lambda X: 2.0 * X, ('kind', 'ndarray') if m == 1 else ('kind', 'list')),
                             ('/', lambda X: X / 2.0, ('kind', 'ndarray') if m == 1 else ('kind', 'list')), ('+', lambda X: X + 2.0, ('kind', 'ndarray') if m == 1 else ('kind', 'list')),
                             ('-', lambda X: X - 2.0, ('kind', 'ndarray') if m == 1 else ('kind', 'list')), ('**', lambda X: X ** 2, ('cls', c))]
                elif c in QUAT:
                    cases = [('*', lambda X: X * 2.0, ('cls', 'Quaternion')), ('r*', lambda X: 2.0 * X, ('cls', 'Quaternion')), ('**', lambda X: X ** 2, ('cls', c))]
                    if c == 'UnitQuaternion': cases.append(('/', lambda X: X / 2.0, ('cls', 'Quaternion')))
                else:
                    cases = [('*', lambda X: X * 2.0, ('cls', c)), ('r*', lambda X: 2.0 * X, ('cls', c))]
                for opn, f, want in cases:
                    inp = dict(cls=c, op=opn, scalar=2.0, len=m)
                    L.count('scalar', key=(c, opn, m)); L.sample('scalar', inp)
                    try: got = classify(f(mk(c, m)))
                    except Exception as e: got = ('raised', type(e).__name__)
                    if got != want:
                        L.fail(f'scalar:{c}:{opn}', f'{c} {opn} scalar is documented to return {want[1]} but gave {got}', inp, observed=got, required=want)
        # augmented assignment (X op= Y) gives what the binary operator gives: same class or same exception, for objects and scalars
        IOPS = {'*': operator.imul, '/': operator.itruediv, '+': operator.iadd, '-': operator.isub}
        for l in ALL:
            for r in ALL + ['scalar']:
                for op, fi in IOPS.items():
                    for ml in (1, 2):
                        if ml > 1 and l not in LISTY: continue
                        if r == 'scalar':
                            if l not in POSE + QUAT + ['Twist2', 'Twist3']: continue
                        elif documented(l, r, op) is None: continue
                        inp = dict(left=l, right=r, op=op + '=', len_left=ml)
                        L.count('augmented', key=(l, r, op, ml)); L.sample('augmented', inp)
                        try: X_, Z_ = mk(l, ml), (2.0 if r == 'scalar' else mk(r, 1))
                        except Exception: continue
                        # only where the library defines the augmented operator itself (UserList's += / *= are list extension / repetition)
                        iname_ = {'*': '__imul__', '/': '__itruediv__', '+': '__iadd__', '-': '__isub__'}[op]
                        owner_ = next((k_ for k_ in type(X_).__mro__ if iname_ in k_.__dict__), None)
                        if owner_ is None or not owner_.__module__.startswith('spatialmath') or owner_.__name__ == 'SMUserList': continue
                        try: want_ = classify(OPS[op](copy.deepcopy(X_), copy.deepcopy(Z_)))
                        except Exception as e: want_ = ('raised',)
                        try:
                            y_ = fi(X_, Z_); got_ = classify(y_)
                        except Exception as e: got_ = ('raised',); y_ = None
                        if got_ != want_ and not (l in ('Twist2', 'Twist3', 'Plucker') and op == '+'):       # (+= on the list-like classes is list extension)
                            L.fail(f'augmented:{l}{op}={r}', f'{l} {op}= {r} gives {got_[-1]} where {l} {op} {r} gives {want_[-1]}', inp, observed=got_, required=want_)
                        elif y_ is not None and type(y_).__name__ in ('UnitQuaternion',) and any(abs(float(np.linalg.norm(np.asarray(a_, float))) - 1) > 1e-6 for a_ in y_.data):
                            L.fail(f'augmented:{l}{op}={r}:not-unit', f'{l} {op}= {r} returned a UnitQuaternion holding a quaternion that is not of unit norm', inp)
        # scalars that are not real numbers are not operands of + and - on poses (complex, Fraction, NumPy complex)
        import fractions
        for c in POSE:
            for m in (1, 2):
                for sc_ in (1 + 2j, np.complex128(0.5 - 1j), fractions.Fraction(1, 3), np.complex64(2j)):
                    for side, fop in (('X + s', lambda X_: X_ + sc_), ('X - s', lambda X_: X_ - sc_), ('s + X', lambda X_: sc_ + X_), ('s - X', lambda X_: sc_ - X_)):
                        inp = dict(cls=c, op=side, scalar=repr(sc_), len=m)
                        L.count('pose+-nonreal', key=(c, side, repr(sc_), m)); L.sample('pose+-nonreal', inp)
                        try: got = classify(fop(mk(c, m)))
                        except Exception: continue
                        L.fail(f'must-raise:{c}+-nonreal-scalar', f'{side} with {type(sc_).__name__} {sc_!r} and a {c} must raise but returned {got}', inp, observed=got, required='exception')
        # multi-valued operands of different lengths (2 against 3) never combine: every operator raises, == and != included
        for l in LISTY:
            for r in LISTY:
                for op, f in list(OPS.items()) + [('==', operator.eq), ('!=', operator.ne)]:
                    if op in ('**', '@'): continue
                    if op in ('==', '!=') and l != r: continue
                    if op == '+' and l == r and l in ('Twist2', 'Twist3'): continue       # (+ on the twist classes is list concatenation)
                    for (ml, mr) in ((2, 3), (3, 2)):
                        inp = dict(left=l, right=r, op=op, len_left=ml, len_right=mr)
                        L.count('unequal-lengths', key=(l, r, op, ml, mr)); L.sample('unequal-lengths', inp)
                        try: xl_, xr_ = mk(l, ml), mk(r, mr)
                        except Exception: continue
                        try: got = classify(f(xl_, xr_))
                        except Exception: continue
                        L.fail(f'must-raise:unequal-lengths:{l}{op}{r}', f'{l}[{ml}] {op} {r}[{mr}] must raise (lengths differ) but returned {got[-1]}', inp, observed=got, required='exception')
        # the documented results of | and ^ on two lines through one point: booleans, | False and ^ True unless the directions coincide — also
        # when the directions differ by only 1e-9 .. 1e-6 rad
        for d_ in (1e-3, 1e-6, 3e-8, 1e-8, 1e-9):
            for P_, w1_, w2_ in ((np.zeros(3), [1.0, 0.0, 0.0], [1.0, d_, 0.0]), (np.array([1.0, 2.0, 3.0]), [0.0, 3.0, 4.0], [0.0, 3.0, 4.0 + 5 * d_])):
                inp = dict(point=P_, w1=w1_, w2=w2_)
                L.count('plucker-predicates', key=(d_, tuple(P_)))
                try: l1_, l2_ = Plucker.PointDir(P_, w1_), Plucker.PointDir(P_, w2_); par_, hit_ = l1_ | l2_, l1_ ^ l2_
                except Exception as e:
                    L.fail('documented:Plucker|^Plucker', f'Plucker | / ^ Plucker raised {type(e).__name__}', inp); continue
                if not isinstance(par_, (bool, np.bool_)) or not isinstance(hit_, (bool, np.bool_)): L.fail('documented:Plucker|^Plucker', f'Plucker | Plucker / Plucker ^ Plucker returned {type(par_).__name__} / {type(hit_).__name__}, not booleans', inp)
                elif bool(par_) or (np.allclose(P_, 0) and not bool(hit_)): L.fail('documented:Plucker|^Plucker:value', f'two lines through one point whose directions differ by about {d_:g} rad: | gives {bool(par_)} (documented: False), ^ gives {bool(hit_)} (documented: True)', inp, observed=[bool(par_), bool(hit_)])
        # == and != on the same line built from different point pairs far along it (and from a rescaled direction): True / False
        for P0_, dd_ in ((np.array([1.0, -2.0, 0.5]), np.array([1.0, 2.0, 2.0]) / 3.0), (np.array([30.0, 10.0, -20.0]), np.array([2.0, -1.0, 2.0]) / 3.0), (np.array([0.3, 0.7, -1.1]), np.array([0.36, 0.48, 0.8])),
                         (np.array([0.3, -0.2, 0.5]), np.array([1.0, 2.0, 3.0]) / math.sqrt(14.0)), (np.array([-4.1, 2.2, 0.9]), np.array([0.1, -0.7, 0.3]) / math.sqrt(0.59))):
            for (s1_, s2_, s3_, s4_) in ((10.0, 11.0, -7.0, 3.0), (100.0, 101.5, -50.0, 0.0), (0.0, 1.0, 2.0, 5.0), (10.0, 11.0, -7.0, 3.3), (17.3, 18.1, -7.7, 3.9)):
                inp = dict(P0=P0_, dir=dd_, params=[s1_, s2_, s3_, s4_])
                L.count('plucker-eq', key=(tuple(P0_), s1_))
                try: la_, lb_ = Plucker.PQ(P0_ + s1_ * dd_, P0_ + s2_ * dd_), Plucker.PQ(P0_ + s3_ * dd_, P0_ + s4_ * dd_); eq_, ne_ = la_ == lb_, la_ != lb_
                except Exception as e:
                    L.fail('documented:Plucker==Plucker', f'Plucker == Plucker raised {type(e).__name__}', inp); continue
                if not (isinstance(eq_, (bool, np.bool_)) and bool(eq_) and not bool(ne_)): L.fail('documented:Plucker==Plucker:value', f'the same line built from two other points on it: == gives {eq_!r}, != gives {ne_!r}', inp, observed=[repr(eq_), repr(ne_)])
        # a plain list or tuple on the left of * is not an operand either (scalar * pose is the only reflected product)
        for c in POSE:
            n_ = dict(SO2=2, SE2=2, SO3=3, SE3=3)[c]
            for m in (1, 2):
                for seq_ in ([1.0] * n_, tuple([2.0] * n_), [1.0] * (n_ + 1), [[1.0] * n_]):
                    inp = dict(cls=c, op='list * X', operand=repr(seq_)[:30], len=m)
                    L.count('list*pose', key=(c, repr(seq_)[:12], m)); L.sample('list*pose', inp)
                    try: got = classify(seq_ * mk(c, m))
                    except Exception: continue
                    L.fail(f'must-raise:list*{c}', f'{type(seq_).__name__} * {c} must raise but returned {got}', inp, observed=got, required='exception')
        # a line times anything that is not a line (arrays of six numbers included) has no meaning
        for rv_ in ([1.0, 2, 3, 4, 5, 6], (1.0, 2, 3, 4, 5, 6), np.arange(6.0), np.arange(6.0).reshape(6, 1), np.arange(6.0).reshape(1, 6), 2.0, np.arange(3.0)):
            for opn_, fo_ in (('*', operator.mul), ('+', operator.add), ('-', operator.sub), ('/', operator.truediv)):
                if opn_ != '*' and not isinstance(rv_, (list, tuple)) and np.ndim(rv_) == 0: continue
                inp = dict(cls='Plucker', op=opn_, right=type(rv_).__name__ + str(np.shape(rv_)))
                L.count('plucker-array', key=(opn_, inp['right'])); L.sample('plucker-array', inp)
                try: got = classify(fo_(mk('Plucker'), rv_))
                except Exception: continue
                L.fail(f'must-raise:Plucker{opn_}array', f'Plucker {opn_} {inp["right"]} must raise but returned {got}', inp, observed=got, required='exception')
        # operands that are not library objects: integer powers only; a point may only be transformed by a *unit* dual quaternion
        for c in POSE + QUAT:
            for m in (1, 2):
                for ex in (0.5, -0.5, 2.5, '2', np.array(2.7), 1.0):
                    inp = dict(cls=c, op='**', exponent=repr(ex), len=m)
                    L.count('pow-nonint', key=(c, repr(ex), m)); L.sample('pow-nonint', inp)
                    try: got = classify(mk(c, m) ** ex)
                    except Exception: continue
                    L.fail(f'must-raise:{c}**non-integer', f'{c} ** {ex!r} must raise (only integer exponents are documented) but returned {got}', inp, observed=got, required='exception')
        for vec in ([1.0, 2.0, 3.0], (1.0, 2.0, 3.0), np.array([1.0, 2.0, 3.0]), np.array([[1.0], [2.0], [3.0]])):
            inp = dict(cls='DualQuaternion', op='*', right=type(vec).__name__ + str(np.shape(vec)))
            L.count('dq-point', key=inp['right']); L.sample('dq-point', inp)
            try:
                got = classify(mk('DualQuaternion') * vec)
                L.fail('must-raise:DualQuaternion*vector', f'DualQuaternion * 3-vector must raise (only a unit dual quaternion transforms a point) but returned {got}', inp, observed=got, required='exception')
            except Exception: pass
            try:
                got = classify(mk('UnitDualQuaternion') * vec)
                if got != ('kind', 'ndarray'): L.fail('documented:UnitDualQuaternion*vector', f'UnitDualQuaternion * 3-vector is documented to return a point but returned {got}', inp, observed=got)
            except Exception as e:
                L.fail('documented:UnitDualQuaternion*vector', f'UnitDualQuaternion * 3-vector raised {type(e).__name__}', inp, observed=type(e).__name__)
        # pose * something that is not a point / points array / pose / scalar: must raise, for lists and tuples as for arrays
        for c in POSE:
            d_ = 2 if c in ('SO2', 'SE2') else 3
            bads = [[1.0] * (d_ + 1), tuple([1.0] * (d_ + 2)), [], [[1.0, 2.0], [3.0]], np.ones(d_ + 1), 'abc', {'a': 1}, None]
            for m in (1, 2):
                for bad in bads:
                    inp = dict(cls=c, op='*', right=repr(bad)[:40], len=m)
                    L.count('pose*junk', key=(c, repr(bad)[:20], m)); L.sample('pose*junk', inp)
                    try: got = classify(mk(c, m) * bad)
                    except Exception: continue
                    L.fail(f'must-raise:{c}*non-conforming', f'{c} * {bad!r} must raise but returned {got}', inp, observed=got, required='exception')
        # scalar + object (the reflected operator, e.g. the implicit start value of sum()) is not defined for these classes: 0, 0.0, False, 2 all raise
        for c in QUAT + ['Twist2', 'Twist3', 'Plucker'] + list(SPAT) + ['SpatialInertia']:
            for m in (1, 2):
                if m > 1 and c in ('Plucker', 'SpatialInertia'): continue
                for sc_, tag in ((0, '0'), (0.0, '0.0'), (False, 'False'), (2, '2'), (np.float64(0.0), 'np.float64(0)')):
                    for side in (('scalar + X', 'scalar - X') if c in QUAT else ('scalar + X', 'X + scalar', 'scalar - X')):      # Quaternion + scalar is defined (element-wise)
                        inp = dict(cls=c, op=side, scalar=tag, len=m)
                        L.count('scalar+object', key=(c, tag, side, m)); L.sample('scalar+object', inp)
                        try:
                            X_ = mk(c, m)
                            got = classify(sc_ + X_ if side == 'scalar + X' else (X_ + sc_ if side == 'X + scalar' else sc_ - X_))
                        except Exception: continue
                        L.fail(f'must-raise:scalar+{c}', f'{side} with scalar {tag} and a {c} must raise but returned {got}', inp, observed=got, required='exception')
        # a plain list or tuple is not an operand of + and - (either side), whatever its length (NumPy would broadcast some of them)
        for c in POSE:
            n_ = dict(SO2=2, SE2=3, SO3=3, SE3=4)[c]
            for m in (1, 2):
                for seq_ in ([1.0] * n_, tuple([2.0] * n_), [[1.0] * n_] * n_, [1.0], [1.0] * (n_ + 1)):
                    for side, fop in (('list - X', lambda X_: seq_ - X_), ('list + X', lambda X_: seq_ + X_), ('X - list', lambda X_: X_ - seq_), ('X + list', lambda X_: X_ + seq_)):
                        inp = dict(cls=c, op=side, operand=repr(seq_)[:30], len=m)
                        L.count('pose+-list', key=(c, side, repr(seq_)[:12], m)); L.sample('pose+-list', inp)
                        try: got = classify(fop(mk(c, m)))
                        except Exception: continue
                        L.fail(f'must-raise:{c}+-list', f'{side} with a {type(seq_).__name__} and a {c} must raise but returned {got}', inp, observed=got, required='exception')
        # pose / array: only pose / pose and pose / scalar are defined — an array of the pose's own matrix shape (or any other array / list) must raise
        for c in POSE:
            n_ = dict(SO2=2, SE2=3, SO3=3, SE3=4)[c]
            for m in (1, 2):
                for bad, tag in ((np.eye(n_), 'identity array of its own shape'), (np.full((n_, n_), 2.0), 'array of its own shape'), (np.eye(n_).tolist(), 'nested list'), (np.ones(n_), 'vector'), (np.eye(n_ + 1), 'larger array')):
                    inp = dict(cls=c, op='/', right=tag, len=m)
                    L.count('pose/array', key=(c, tag, m)); L.sample('pose/array', inp)
                    try: got = classify(mk(c, m) / bad)
                    except Exception: continue
                    L.fail(f'must-raise:{c}/array', f'{c} / {tag} must raise but returned {got}', inp, observed=got, required='exception')
        # == and != within one class: booleans (a list for sequences), never raising
        for c in POSE + QUAT + ['Twist2', 'Twist3', 'Plucker']:
            for m in (1, 2):
                if m > 1 and c == 'Plucker': continue
                for opn, f in (('==', operator.eq), ('!=', operator.ne)):
                    inp = dict(cls=c, op=opn, len=m)
                    L.count('eq', key=(c, opn, m)); L.sample('eq', inp)
                    try:
                        X = mk(c, m); x = f(X, X)      # the same object on both sides: still one boolean per value
                    except Exception as e:
                        L.fail(f'eq-raises:{c}:{opn}:{"single" if m == 1 else "multi"}', f'{c} {opn} {c} (len {m}) raised {type(e).__name__}', inp, observed=type(e).__name__); continue
                    good = isinstance(x, (bool, np.bool_)) if m == 1 else (isinstance(x, list) and len(x) == m and all(isinstance(b_, (bool, np.bool_)) for b_ in x))
                    if not good: L.fail(f'eq-type:{c}:{opn}:{"single" if m == 1 else "multi"}', f'{c} {opn} {c} (len {m}) returned {x!r}', inp, observed=repr(x))
                    elif m == 1 and bool(x) != (opn == '=='): L.fail(f'eq-value:{c}:{opn}', f'X {opn} X gave {x}', inp)
        # … and between two different objects of every length pair (1x1, 1xM, Mx1, MxM): one boolean per value of the longer operand
        for c in POSE + QUAT + ['Twist2', 'Twist3']:
            for ml, mr in ((1, 1), (1, 2), (2, 1), (2, 2), (1, 3), (3, 1)):
                for opn, f in (('==', operator.eq), ('!=', operator.ne)):
                    inp = dict(cls=c, op=opn, len_left=ml, len_right=mr)
                    L.count('eq-pairs', key=(c, opn, ml, mr)); L.sample('eq-pairs', inp)
                    try: x = f(mk(c, ml), mk(c, mr))
                    except Exception as e:
                        L.fail(f'eq-raises:{c}:{opn}:{ml}x{mr}', f'{c} {opn} {c} (lengths {ml}, {mr}) raised {type(e).__name__}', inp, observed=type(e).__name__); continue
                    mm = max(ml, mr)
                    good = isinstance(x, (bool, np.bool_)) if mm == 1 else (isinstance(x, list) and len(x) == mm and all(isinstance(b_, (bool, np.bool_)) for b_ in x))
                    if not good: L.fail(f'eq-type:{c}:{opn}:{ml}x{mr}', f'{c} {opn} {c} (lengths {ml}, {mr}) returned {x!r} instead of {"a boolean" if mm == 1 else f"a list of {mm} booleans"}', inp, observed=repr(x))
    res = L.result(); res['exhaustive'] = True
    return res

SHORT = dict(SO2='SO2', SE2='SE2', SO3='SO3', SE3='SE3', Quaternion='Q', UnitQuaternion='UQ', Twist2='Tw2', Twist3='Tw3', Plucker='Pl',
             SpatialVelocity='SVel', SpatialAcceleration='SAcc', SpatialForce='SFor', SpatialMomentum='SMom', SpatialInertia='SIne',
             DualQuaternion='DQ', UnitDualQuaternion='UDQ')
OPN = {'*': 'mul', '/': 'div', '+': 'add', '-': 'sub', '**': 'pow', '@': 'matmul'}

def correspondence(tier, seed):
    from .common import model_correspondence
    return model_correspondence('smv.props.c08', tier, seed)

def _corr(tier, seed):
    """every ordered class pair x operator, single-valued operands: what the real classes do vs Logic.Dispatch.binopCls;
    and the documented table used by the monitor vs Logic.Dispatch.documented"""
    import operator
    from spatialmath import SO2, SE2, SO3, SE3, Quaternion, UnitQuaternion, Twist2, Twist3
    from spatialmath.geom3d import Plucker
    from spatialmath.spatialvector import SpatialVelocity, SpatialAcceleration, SpatialForce, SpatialMomentum, SpatialInertia
    from spatialmath.DualQuaternion import DualQuaternion, UnitDualQuaternion
    g = inputs.rng(seed + 5)
    def mk(c):
        if c == 'SO2': return SO2(inputs.so2(g))
        if c == 'SE2': return SE2(inputs.se2(g, 1))
        if c == 'SO3': return SO3(inputs.so3(g))
        if c == 'SE3': return SE3(inputs.se3(g, 1))
        if c == 'Quaternion': return Quaternion(g.normal(size=4))
        if c == 'UnitQuaternion': return UnitQuaternion(inputs.unitq(g))
        if c == 'Twist2': return Twist2(g.normal(size=3))
        if c == 'Twist3': return Twist3(g.normal(size=6))
        if c == 'Plucker': return Plucker.PQ(g.normal(size=3), g.normal(size=3))
        if c in SPAT: return dict(SpatialVelocity=SpatialVelocity, SpatialAcceleration=SpatialAcceleration, SpatialForce=SpatialForce, SpatialMomentum=SpatialMomentum)[c](g.normal(size=6))
        if c == 'SpatialInertia': return SpatialInertia(2.0, g.normal(size=3), np.eye(3))
        if c == 'DualQuaternion': return DualQuaternion(Quaternion(g.normal(size=4)), Quaternion(g.normal(size=4)))
        if c == 'UnitDualQuaternion': return UnitDualQuaternion(SE3(inputs.se3(g, 1)))
    OPS = {'*': operator.mul, '/': operator.truediv, '+': operator.add, '-': operator.sub, '**': operator.pow, '@': operator.matmul}
    rows = []
    for l in ALL:
        for r in ALL:
            for op, f in OPS.items():
                try:
                    x = f(mk(l), mk(r))
                    if x is None: got = 'none'
                    elif isinstance(x, np.ndarray): got = 'arr'
                    elif isinstance(x, (int, float, np.floating, np.integer)) and not isinstance(x, (bool, np.bool_)): got = 'scalar'
                    else: got = SHORT.get(type(x).__name__, 'other:' + type(x).__name__)
                except Exception:
                    got = 'raises'
                rows.append(dict(req=f'logic disp {SHORT[l]} {OPN[op]} {SHORT[r]}', exp=got, meta=dict(left=l, right=r, op=op)))
                d = documented(l, r, op)
                if d is None: want = 'unspecified'
                elif d == 'raise': want = 'raises'
                elif d[0] == 'cls': want = SHORT[d[1]]
                else: want = dict(ndarray='arr', scalar='scalar')[d[1]]
                rows.append(dict(req=f'logic doc {SHORT[l]} {OPN[op]} {SHORT[r]}', exp=want, meta=dict(left=l, right=r, op=op, table='documented')))
    return rows

if __name__ == '__main__':
    main_entry(_impl, _corr)
