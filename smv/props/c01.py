"""C01 — closure: every constructed or composed value is a valid group member (float monitor)."""
import math
import numpy as np
from .common import Laws, run_subprocess, main_entry
from .. import inputs
from . import geom

SPEC = dict(
    technique='Lean 4 proof (closure of every constructor / product / inverse / power, model regenerated from the source by symbolic execution) + float residual monitor',
    lean_modules=['SmVerif.Props.C01', 'SmVerif.Props.Delegation', 'SmVerif.Props.Structure', 'SmVerif.Props.OA'],
    groups=['Transforms3d', 'Transforms2d', 'TransformsNd', 'Quaternions', 'Poses'],
    expected_untranslatable=('trinterp_T', 'trinterp_T_nostart'),
    partial=['oa2r / trnorm / trexp / slerp / rand membership are proved under C14, C03, C11; negative matrix powers '
             '(numpy matrix_power through LAPACK inv) are explored only'],
    assumptions=['validity residuals are compared with 1e-9 on generated inputs only'],
)

TOL = 1e-9

def monitor(tier, seed, search=False):
    return run_subprocess('smv.props.c01', tier, seed, search)

def replay(rp):
    r = run_subprocess('smv.props.c01', 'quick', 0, True)
    hit = [v for v in r['violations'] if v['signature'] == rp.get('signature')]
    return dict(violates=bool(hit), detail=hit[:1])

def _impl(tier, seed, search):
    import spatialmath.base as b
    from spatialmath import SO2, SE2, SO3, SE3, UnitQuaternion
    g = inputs.rng(seed)
    n = 150 if tier == 'quick' else 3000
    if search: n *= 3
    L = Laws('C01', rule='angles incl. 0, ±pi/2, ±pi ± {0, 1e-12..1e-1} and many turns; axes with length 1e-3..1e6; translations '
                         'to 1e6; all unit/order options; expression trees of depth <= 5 over {*, /, inv, **n, prod}; '
                         'a case = one returned value checked for validity')
    def so(law, M, inp):
        ok, M = L.noraise(law, M, inp, f'{law} must return a value') if callable(M) else (True, M)
        if not ok: return None
        if M is None:
            L.check(law, False, inp, f'{law} returned None', sig=f'{law}:none'); return None
        r = geom.so_residual(M); L.count(law); L.sample(law, inp)
        L.maxres[law] = max(L.maxres.get(law, 0), r)
        if not r <= TOL: L.fail(law, f'{law}: result is not a rotation matrix (residual {r:.3g})', inp, M)
        return M
    def se(law, M, inp):
        ok, M = L.noraise(law, M, inp, f'{law} must return a value') if callable(M) else (True, M)
        if not ok: return None
        if M is None:
            L.check(law, False, inp, f'{law} returned None', sig=f'{law}:none'); return None
        r = geom.se_residual(M); L.count(law); L.sample(law, inp)
        L.maxres[law] = max(L.maxres.get(law, 0), r)
        if not r <= TOL: L.fail(law, f'{law}: result is not a rigid-motion matrix (residual {r:.3g})', inp, M)
        return M
    def uq(law, q, inp):
        ok, q = L.noraise(law, q, inp, f'{law} must return a value') if callable(q) else (True, q)
        if not ok: return None
        r = geom.q_residual(q); L.count(law); L.sample(law, inp)
        L.maxres[law] = max(L.maxres.get(law, 0), r)
        if not r <= TOL: L.fail(law, f'{law}: result is not a unit quaternion (residual {r:.3g})', inp, q)
        return q
    def valid_obj(law, X, inp):
        """every element of a (possibly multi-valued) pose / unit-quaternion object"""
        ok, X = L.noraise(law, X, inp, f'{law} must return an object') if callable(X) else (True, X)
        if not ok or X is None: return None
        for A in X.data:
            A = np.asarray(A)
            if A.shape == (4,): uq(law, A, inp)
            elif type(X).__name__ in ('SO2', 'SO3'): so(law, A, inp)
            else: se(law, A, inp)
        return X
    ORD = ['zyx', 'xyz', 'yxz', 'vehicle', 'arm', 'camera']
    for i in range(n):
        th = geom.big_angle(g); unit = 'rad' if g.random() < 0.6 else 'deg'
        thu = th if unit == 'rad' else math.degrees(th)
        t3 = inputs.translation(g); t2 = t3[:2]
        inp = dict(theta=thu, unit=unit)
        for ax in 'xyz':
            so(f'rot{ax}', lambda: getattr(b, 'rot' + ax)(thu, unit), inp)
            se(f'trot{ax}', lambda: getattr(b, 'trot' + ax)(thu, unit, t=t3), dict(inp, t=t3))
        so('rot2', lambda: b.rot2(thu, unit), inp); se('trot2', lambda: b.trot2(thu, unit, t=t2), dict(inp, t=t2))
        # the same with the scalar angle held in a narrower NumPy type (the result is still a double-precision member)
        if i % 4 == 0:
            for tn_, ty_ in (('float32', np.float32), ('int64', np.int64)):
                try: thn = ty_(thu if tn_ != 'int64' else round(thu) % 7)
                except Exception: continue
                if not np.isfinite(float(thn)): continue
                inpn = dict(theta=float(thn), unit=unit, dtype=tn_)
                for ax in 'xyz':
                    so(f'rot{ax}({tn_})', lambda: getattr(b, 'rot' + ax)(thn, unit), inpn); se(f'trot{ax}({tn_})', lambda: getattr(b, 'trot' + ax)(thn, unit, t=t3), inpn)
                so(f'rot2({tn_})', lambda: b.rot2(thn, unit), inpn); se(f'trot2({tn_})', lambda: b.trot2(thn, unit, t=t2), inpn)
                so(f'rpy2r(scalars,{tn_})', lambda: b.rpy2r(thn, thn, thn, unit=unit), inpn); so(f'eul2r(scalars,{tn_})', lambda: b.eul2r(thn, thn, thn, unit=unit), inpn)
                valid_obj(f'SO2({tn_})', lambda: SO2(thn, unit=unit), inpn); valid_obj(f'SE2({tn_})', lambda: SE2(1.0, 2.0, thn, unit=unit), inpn)
                valid_obj(f'SO3.Rx({tn_})', lambda: SO3.Rx(thn, unit) * SO3.Ry(thn, unit), inpn); valid_obj(f'SE3.Rz({tn_})', lambda: SE3.Rz(thn, unit), inpn); valid_obj(f'UQ.Rx({tn_})', lambda: UnitQuaternion.Rx(thn, unit), inpn)
        # the product of a sequence whose first value is stored with integer dtype (SE3(1, 2, 3), SE2(1, 2, 0), an integer matrix)
        if i % 10 == 0:
            for nm_, mk_, want_ in (('SE3([SE3(1,2,3), Rx, Ry]).prod()', lambda: SE3([SE3(1, 2, 3), SE3.Rx(0.3), SE3.Ry(-0.7)]).prod(), b.transl(1, 2, 3) @ b.trotx(0.3) @ b.troty(-0.7)),
                                    ('SE2([SE2(1,2,0), SE2(0,0,0.4)]).prod()', lambda: SE2([SE2(1, 2, 0), SE2(0, 0, 0.4)]).prod(), b.transl2(1, 2) @ b.trot2(0.4)),
                                    ('SO3([I(int), Rz]).prod()', lambda: SO3([np.eye(3, dtype=int), b.rotz(0.5)]).prod(), b.rotz(0.5)), ('SE3([int T, Rx]).prod()', lambda: SE3([np.array(b.transl(2, 0, -1), dtype=int), b.trotx(1.1)]).prod(), b.transl(2, 0, -1) @ b.trotx(1.1))):
                X_ = valid_obj(nm_, mk_, dict(case=nm_))
                if X_ is not None and len(X_) == 1 and not np.allclose(np.asarray(X_.A, float), want_, atol=1e-9): L.fail('prod(int first value)', f'{nm_} is not the product of the values', dict(case=nm_), np.asarray(X_.A, float))
        # vector arguments held in single precision (axis, rotation vector, o/a pair, twist, quaternion components): a double-precision member
        if i % 4 == 2:
            ax32 = inputs.unit_axis(g).astype(np.float32) * np.float32(10.0 ** g.uniform(-1, 1)); w32 = (inputs.unit_axis(g) * float(g.uniform(0.1, 3.0))).astype(np.float32); tw32 = np.r_[g.normal(size=3), inputs.unit_axis(g) * float(g.uniform(0.1, 3.0))].astype(np.float32)
            o32 = inputs.unit_axis(g).astype(np.float32); a32 = np.cross(o32.astype(float), inputs.unit_axis(g)).astype(np.float32); q32 = inputs.unitq(g).astype(np.float32); i32 = dict(dtype='float32')
            so('angvec2r(float32 axis)', lambda: b.angvec2r(0.7, ax32), i32); so('trexp(float32 w)', lambda: b.trexp(w32), i32); se('trexp(float32 twist)', lambda: b.trexp(tw32), i32); so('rodrigues(float32 w)', lambda: b.rodrigues(w32), i32)
            if np.linalg.norm(a32) > 0.1: so('oa2r(float32)', lambda: b.oa2r(o32, a32), i32); valid_obj('SO3.OA(float32)', lambda: SO3.OA(o32, a32), i32); valid_obj('UQ.OA(float32)', lambda: UnitQuaternion.OA(o32, a32), i32)
            valid_obj('SO3.AngVec(float32 axis)', lambda: SO3.AngVec(0.7, ax32), i32); valid_obj('SO3.EulerVec(float32)', lambda: SO3.EulerVec(w32), i32); valid_obj('SE3.Exp(float32)', lambda: SE3.Exp(tw32), i32); valid_obj('SO3.Exp(float32)', lambda: SO3.Exp(w32), i32)
            valid_obj('UQ(float32 4-vector)', lambda: UnitQuaternion(q32), i32); valid_obj('UQ(s, float32 v)', lambda: UnitQuaternion(float(q32[0]), q32[1:]), i32); valid_obj('UQ.AngVec(float32 axis)', lambda: UnitQuaternion.AngVec(0.7, ax32), i32)
            valid_obj('UQ.EulerVec(float32)', lambda: UnitQuaternion.EulerVec(w32), i32); uq('base.unit(float32)', lambda: b.unit(q32), i32)
        ang = np.array([geom.big_angle(g) for _ in range(3)]); angu = ang if unit == 'rad' else np.degrees(ang)
        o = ORD[i % 6]
        so('rpy2r', lambda: b.rpy2r(angu, order=o, unit=unit), dict(angles=angu, order=o, unit=unit))
        se('rpy2tr', lambda: b.rpy2tr(list(angu), order=o, unit=unit), dict(angles=angu, order=o, unit=unit))
        so('eul2r', lambda: b.eul2r(angu, unit=unit), dict(angles=angu, unit=unit))
        se('eul2tr', lambda: b.eul2tr(*angu, unit=unit), dict(angles=angu, unit=unit))
        v = geom.axis_scaled(g)
        so('angvec2r', lambda: b.angvec2r(thu, v, unit=unit), dict(theta=thu, v=v, unit=unit))
        se('angvec2tr', lambda: b.angvec2tr(thu, v, unit=unit), dict(theta=thu, v=v, unit=unit))
        # two-vector frame: non-parallel pair (angle between them down to 1e-3 rad)
        a_ = geom.axis_scaled(g); perp = np.cross(a_, inputs.unit_axis(g)); 
        if np.linalg.norm(perp) > 1e-3 * np.linalg.norm(a_):
            perp = perp / np.linalg.norm(perp)
            sep = 10.0 ** g.uniform(-3, 0) if g.random() < 0.5 else float(g.uniform(0.1, math.pi - 0.1))
            o_ = (math.cos(sep) * a_ / np.linalg.norm(a_) + math.sin(sep) * perp) * 10.0 ** g.uniform(-3, 6)
            so('oa2r', lambda: b.oa2r(o_, a_), dict(o=o_, a=a_)); se('oa2tr', lambda: b.oa2tr(o_, a_), dict(o=o_, a=a_))
            valid_obj('SO3.OA', lambda: SO3.OA(o_, a_), dict(o=o_, a=a_))
        # two short vectors (lengths 1e-4 .. 1e-2) that are perpendicular only up to 1e-8 .. 1e-6: the result is still orthonormal
        perp2 = np.cross(a_, inputs.unit_axis(g))
        if np.linalg.norm(perp2) > 1e-3 * np.linalg.norm(a_):
            ah_ = a_ / np.linalg.norm(a_); perp2 = perp2 / np.linalg.norm(perp2); tilt = 10.0 ** g.uniform(-8, -6)
            os_ = (perp2 + tilt * ah_) * 10.0 ** g.uniform(-4, -2); as_ = ah_ * 10.0 ** g.uniform(-4, -2)
            so('oa2r(short)', lambda: b.oa2r(os_, as_), dict(o=os_, a=as_)); valid_obj('SO3.OA(short)', lambda: SO3.OA(os_, as_), dict(o=os_, a=as_)); valid_obj('SE3.OA(short)', lambda: SE3.OA(os_, as_), dict(o=os_, a=as_))
        # sequences: the inverse and quotients of a multi-valued rigid motion, and constructors given N x 3 angle arrays, hold members only
        if i % 4 == 1:
            Ts_ = [inputs.se3(g) for _ in range(3)]; A3_ = g.uniform(-3, 3, size=(3, 3))
            valid_obj('SE3[M].inv', lambda: SE3(Ts_, check=False).inv(), dict(M=3)); valid_obj('SE3/SE3[M]', lambda: SE3(Ts_[0], check=False) / SE3(Ts_, check=False), dict(M=3))
            valid_obj('SE2[M].inv', lambda: SE2([inputs.se2(g) for _ in range(3)], check=False).inv(), dict(M=3))
            for nm_, f_ in (('SE3.RPY(Nx3)', lambda: SE3.RPY(A3_)), ('SO3.RPY(Nx3)', lambda: SO3.RPY(A3_)), ('SE3.Eul(Nx3)', lambda: SE3.Eul(A3_)), ('SO3.Eul(Nx3)', lambda: SO3.Eul(A3_)),
                            ('SE3.RPY(Nx3, deg, xyz)', lambda: SE3.RPY(A3_ * 50, unit='deg', order='xyz')), ('SE3.RPY(list of triples)', lambda: SE3.RPY([list(r_) for r_ in A3_]))):
                Xn = valid_obj(nm_, f_, dict(angles=A3_))
                if Xn is not None:
                    want_sh = (4, 4) if nm_.startswith('SE3') else (3, 3)
                    L.check(f'{nm_}:shape', len(Xn) == 3 and all(np.shape(a_m) == want_sh for a_m in Xn.data), dict(angles=A3_), f'{nm_} does not hold three {want_sh[0]}x{want_sh[1]} matrices', sig='ctor(Nx3):shape')
        # exponential coordinates
        w = inputs.unit_axis(g) * (float(g.uniform(0, 2 * math.pi)) if g.random() < 0.7 else 10.0 ** g.uniform(-12, 0))
        so('trexp-so3', lambda: b.trexp(w), dict(w=w))
        S = np.r_[inputs.translation(g, -3, 3), w]
        se('trexp-se3', lambda: b.trexp(S), dict(S=S))
        se('trexp-se3-matrix', lambda: b.trexp(b.skewa(S)), dict(S=S))
        # trexp(axis, theta): an axis that is not (exactly enough) unit may be rejected, but whatever is returned is a member
        wu = inputs.unit_axis(g) * (1.0 + float(g.choice([-1.0, 1.0])) * 10.0 ** g.uniform(-16, -3)); th_e = float(g.uniform(-math.pi, math.pi))
        for nm_, f_ in (('trexp(w,theta)', lambda: b.trexp(wu, th_e)), ('trexp(skew w,theta)', lambda: b.trexp(b.skew(wu), th_e)),
                        ('trexp(float32 w,theta)', lambda: b.trexp(np.asarray(inputs.unit_axis(g), np.float32).astype(float), th_e))):
            try: Me = f_()
            except Exception: Me = None
            if Me is not None: so(nm_, Me, dict(w=wu, theta=th_e))
        Su = np.r_[inputs.translation(g, -3, 1), wu]
        try: Te = b.trexp(Su, th_e)
        except Exception: Te = None
        if Te is not None: se('trexp(S,theta)', Te, dict(S=Su, theta=th_e))
        # … a twist with unit translational part and a non-zero, non-unit rotational part (vector and matrix form, 3-D and 2-D): rejected, or a member
        wfrac = inputs.unit_axis(g) * 10.0 ** g.uniform(-3, -0.1); vunit = inputs.unit_axis(g)
        for nm_, f_ in (('trexp(S[v unit, w fraction],theta)', lambda: b.trexp(np.r_[vunit, wfrac], th_e)), ('trexp(skewa S[v unit, w fraction],theta)', lambda: b.trexp(b.skewa(np.r_[vunit, wfrac]), th_e))):
            try: Te = f_()
            except Exception: Te = None
            if Te is not None: se(nm_, Te, dict(S=np.r_[vunit, wfrac], theta=th_e))
        wf2 = float(g.choice([-1, 1])) * 10.0 ** g.uniform(-3, -0.1); vu2 = vunit[:2] / np.linalg.norm(vunit[:2]) if np.linalg.norm(vunit[:2]) > 0 else np.r_[1.0, 0.0]
        try: Te = b.trexp2(np.r_[vu2, wf2], th_e)
        except Exception: Te = None
        if Te is not None: se('trexp2(S[v unit, w fraction],theta)', Te, dict(S=np.r_[vu2, wf2], theta=th_e))
        so('trexp2-so2', lambda: b.trexp2(th), dict(w=th)); se('trexp2-se2', lambda: b.trexp2(np.r_[t2, th]), dict(S=np.r_[t2, th]))
        # re-normalising a slightly invalid planar matrix through the classes gives a member (element-wise noise, not only scale drift)
        for cls2_, M2_ in ((SO2, inputs.so2(g)), (SE2, inputs.se2(g))):
            Mn_ = M2_.copy(); Mn_[:2, :2] = Mn_[:2, :2] + g.normal(size=(2, 2)) * 10.0 ** g.uniform(-12, -6.5)
            valid_obj(f'{cls2_.__name__}.norm()', lambda: cls2_(Mn_, check=False).norm(), dict(M=Mn_))
        R3n_ = inputs.so3(g) + g.normal(size=(3, 3)) * 10.0 ** g.uniform(-12, -6.5)
        valid_obj('SO3.norm()', lambda: SO3(R3n_, check=False).norm(), dict(M=R3n_))
        # quaternion constructors
        q = inputs.unitq(g)
        so('q2r', lambda: b.q2r(q), dict(q=q))
        qq = g.normal(size=4) * 10.0 ** g.uniform(-6, 6)
        uq('unit', lambda: b.unit(qq), dict(q=qq)); uq('rand', lambda: b.rand(), {})
        uq('UnitQuaternion(v)', lambda: UnitQuaternion(qq).vec, dict(q=qq))
        # multi-valued construction from an N x 4 array / list of 4-vectors: every stored value is a unit quaternion, its matrix a rotation
        if i % 4 == 0:
            Q4 = g.normal(size=(int(g.integers(2, 5)), 4)) * 10.0 ** g.uniform(-3, 3, size=(1, 1))
            for nm_, f_ in (('UnitQuaternion(Nx4)', lambda: UnitQuaternion(Q4)), ('UnitQuaternion(list of 4-vectors)', lambda: UnitQuaternion([r_ for r_ in Q4]))):
                try: Xq0 = f_()          # a list of non-unit 4-vectors may be rejected; what is accepted must be valid
                except Exception: Xq0 = None
                Xq = valid_obj(nm_, Xq0, dict(Q=Q4)) if Xq0 is not None else None
                if Xq is not None:
                    ok_, Rq = L.noraise(nm_ + '.R', lambda: np.asarray(Xq.R, float), dict(Q=Q4), 'R of a multi-valued unit quaternion')
                    if ok_:
                        for Rk in (Rq if Rq.ndim == 3 else [Rq]): so(nm_ + '.R', Rk, dict(Q=Q4))
        uq('slerp', lambda: b.slerp(q, inputs.unitq(g), float(g.uniform(0, 1))), dict(q=q))
        # normalisation, interpolation
        R = inputs.so3(g); T = inputs.se3(g)
        Rn = R + g.normal(size=(3, 3)) * 10.0 ** g.uniform(-15, -4)
        so('trnorm', lambda: b.trnorm(Rn), dict(R=Rn))
        T2 = inputs.se3(g); s = float(g.choice([0.0, 1.0])) if g.random() < 0.2 else float(g.uniform(0, 1))
        se('trinterp', lambda: b.trinterp(T, T2, s), dict(T0=T, T1=T2, s=s))
        se('trinterp2', lambda: b.trinterp2(inputs.se2(g), inputs.se2(g), s), dict(s=s))
        # interpolation between two nearby orientations (1e-7 .. 1e-2 rad apart, both away from the identity), strictly inside (0, 1), every entry point
        Rg = inputs.rodrigues(inputs.unit_axis(g), float(g.uniform(0.5, 2.5))); dth = 10.0 ** g.uniform(-7, -2); Rnear = Rg @ inputs.rodrigues(inputs.unit_axis(g), dth)
        si = float(g.uniform(0.2, 0.8)); Tg = np.eye(4); Tg[:3, :3] = Rg; Tg[:3, 3] = g.normal(size=3); Tnear = np.eye(4); Tnear[:3, :3] = Rnear; Tnear[:3, 3] = g.normal(size=3)
        ninp = dict(R0=Rg, angle_between=dth, s=si)
        so('trinterp(near, 3x3)', lambda: b.trinterp(Rg, Rnear, si), ninp); se('trinterp(near, 4x4)', lambda: b.trinterp(Tg, Tnear, si), ninp)
        valid_obj('SO3.interp(near)', lambda: SO3(Rnear, check=False).interp(si, start=SO3(Rg, check=False)), ninp); valid_obj('SE3.interp(near)', lambda: SE3(Tnear, check=False).interp(si, start=SE3(Tg, check=False)), ninp)
        qg, qn = b.r2q(Rg), b.r2q(Rnear)
        uq('slerp(near)', lambda: b.slerp(qg, qn, si), ninp); uq('slerp(near, shortest)', lambda: b.slerp(qg, qn, si, shortest=True), ninp)
        uq('UQ.interp(near)', lambda: UnitQuaternion(qg).interp(si, UnitQuaternion(qn)).vec, ninp)
        # … and between almost antipodal quaternions (a full turn minus 1e-8 .. 1e-4 rad apart; the longer arc unless the shorter is requested)
        dfull = 10.0 ** g.uniform(-8, -4); axf = inputs.unit_axis(g); qfar = b.qqmul(qg, np.r_[math.cos(math.pi - dfull / 2), math.sin(math.pi - dfull / 2) * axf])
        finp = dict(q0=qg, q1=qfar, s=si, full_turn_minus=dfull)
        for sh_ in (False, True):
            uq(f'UQ.interp(almost antipodal, shortest={sh_})', lambda: UnitQuaternion(qg).interp(si, UnitQuaternion(qfar), shortest=sh_).vec, finp)
            uq(f'slerp(almost antipodal, shortest={sh_})', lambda: b.slerp(qg, qfar, si, shortest=sh_), finp)
        uq('UQ.Rz(2pi - d).interp(s)', lambda: UnitQuaternion.Rz(2 * math.pi - dfull).interp(si).vec, finp)
        so('UQ.interp(almost antipodal).R', lambda: UnitQuaternion(qg).interp(si, UnitQuaternion(qfar)).R, finp)
        # class constructors
        valid_obj('SO3.Rx/Ry/Rz', lambda: getattr(SO3, 'R' + 'xyz'[i % 3])(thu, unit), inp)
        valid_obj('SE3.Rx/Ry/Rz', lambda: getattr(SE3, 'R' + 'xyz'[i % 3])([thu, -thu], unit), inp)
        valid_obj('UQ.Rx/Ry/Rz', lambda: getattr(UnitQuaternion, 'R' + 'xyz'[i % 3])(thu, unit), inp)
        valid_obj('SO3.RPY', lambda: SO3.RPY(angu, order=o, unit=unit), dict(angles=angu, order=o, unit=unit))
        valid_obj('SE3.RPY', lambda: SE3.RPY(angu, order=o, unit=unit), dict(angles=angu, order=o, unit=unit))
        valid_obj('UQ.RPY', lambda: UnitQuaternion.RPY(angu, order=o, unit=unit), dict(angles=angu, order=o, unit=unit))
        valid_obj('SO3.Eul', lambda: SO3.Eul(angu, unit=unit), dict(angles=angu, unit=unit))
        valid_obj('UQ.Eul', lambda: UnitQuaternion.Eul(angu, unit=unit), dict(angles=angu, unit=unit))
        valid_obj('SO3.AngVec', lambda: SO3.AngVec(thu, v, unit=unit), dict(theta=thu, v=v, unit=unit))
        valid_obj('SE3.AngVec', lambda: SE3.AngVec(thu, v, unit=unit), dict(theta=thu, v=v, unit=unit))
        valid_obj('UQ.AngVec', lambda: UnitQuaternion.AngVec(thu, v, unit=unit), dict(theta=thu, v=v, unit=unit))
        valid_obj('SO3.EulerVec', lambda: SO3.EulerVec(w), dict(w=w)); valid_obj('UQ.EulerVec', lambda: UnitQuaternion.EulerVec(w), dict(w=w))
        valid_obj('SO3.Exp', lambda: SO3.Exp(w), dict(w=w)); valid_obj('SE3.Exp', lambda: SE3.Exp(S), dict(S=S))
        valid_obj('SO2(theta)', lambda: SO2(thu, unit=unit), inp); valid_obj('SE2(x,y,theta)', lambda: SE2(t2[0], t2[1], thu, unit=unit), dict(inp, t=t2))
        valid_obj('Rand', lambda: [SO3.Rand(), SE3.Rand(), UnitQuaternion.Rand(), SO2.Rand(), SE2.Rand()][i % 5], {})
        valid_obj('UQ(SO3)', lambda: UnitQuaternion(SO3(R, check=False)), dict(R=R))
        valid_obj('UQ(R)', lambda: UnitQuaternion(R), dict(R=R))
        # members given with integer entries (integer arrays, Python ints): in-place and ordinary operators must still give members
        if i % 5 == 2:
            def iperm(n_):
                while True:
                    P_ = np.zeros((n_, n_), dtype=int); perm = g.permutation(n_)
                    for r_, c_ in enumerate(perm): P_[r_, c_] = int(g.choice([-1, 1]))
                    if round(float(np.linalg.det(P_))) == 1: return P_
            ti = [int(x_) for x_ in g.integers(-5, 6, size=3)]
            def iSE(n_):
                T_ = np.eye(n_ + 1, dtype=int); T_[:n_, :n_] = iperm(n_); T_[:n_, n_] = ti[:n_]; return T_
            mkint = {'SO2': lambda: SO2(iperm(2)), 'SO3': lambda: SO3(iperm(3)), 'SE2': lambda: SE2(iSE(2)), 'SE3': lambda: SE3(iSE(3)),
                     'SE3(x,y,z)': lambda: SE3(ti[0], ti[1], ti[2]), 'SE2(x,y)': lambda: SE2(ti[0], ti[1])}
            mkflt = {'SO2': lambda: SO2(inputs.so2(g), check=False), 'SO3': lambda: SO3(inputs.so3(g), check=False), 'SE2': lambda: SE2(inputs.se2(g), check=False), 'SE3': lambda: SE3(inputs.se3(g), check=False)}
            for iname, mki in mkint.items():
                base_ = iname.split('(')[0]
                def ops():
                    out_ = {}
                    Y = mkflt[base_]()
                    X = mki(); out_['X*Y'] = (X * Y, np.asarray(X.A, float) @ np.asarray(Y.A, float))
                    X = mki(); A0 = np.asarray(X.A, float).copy(); X *= Y; out_['X*=Y'] = (X, A0 @ np.asarray(Y.A, float))
                    X = mki(); out_['X/Y'] = (X / Y, np.asarray(X.A, float) @ np.linalg.inv(np.asarray(Y.A, float)))
                    X = mki(); A0 = np.asarray(X.A, float).copy(); X /= Y; out_['X/=Y'] = (X, A0 @ np.linalg.inv(np.asarray(Y.A, float)))
                    X = mki(); out_['Y*X'] = (Y * X, np.asarray(Y.A, float) @ np.asarray(X.A, float))
                    X = mki(); out_['X**2'] = (X ** 2, np.linalg.matrix_power(np.asarray(X.A, float), 2)); out_['X.inv()'] = (X.inv(), np.linalg.inv(np.asarray(X.A, float)))
                    return out_
                ok, r = L.noraise(f'int-members:{iname}', ops, dict(cls=iname, t=ti), f'operators on a {base_} built from integers')
                if ok:
                    for opn, (Z, want) in r.items():
                        valid_obj(f'int-members:{iname}:{opn}', Z, dict(cls=iname, op=opn, t=ti))
                        L.close(f'int-members:{iname}:{opn}', np.asarray(Z.A, float), want, 1e-9, max(1.0, float(np.max(np.abs(want)))), dict(cls=iname, op=opn, t=ti),
                                what=f'{opn} with an integer-valued {base_} differs from the matrix result', sig=f'int-members:{opn}')
        # expression trees over each class
        if i % 3 == 0:
            for cname, mk in (('SO3', lambda: SO3(inputs.so3(g), check=False)), ('SE3', lambda: SE3(inputs.se3(g), check=False)),
                              ('SO2', lambda: SO2(inputs.so2(g), check=False)), ('SE2', lambda: SE2(inputs.se2(g), check=False)),
                              ('UQ', lambda: UnitQuaternion(inputs.unitq(g)))):
                desc = []
                def tree(d):
                    r = g.random()
                    if d == 0 or r < 0.2:
                        desc.append('leaf'); return mk()
                    if r < 0.45: desc.append('*'); return tree(d - 1) * tree(d - 1)
                    if r < 0.6: desc.append('/'); return tree(d - 1) / tree(d - 1)
                    if r < 0.75: desc.append('inv'); return tree(d - 1).inv()
                    if r < 0.9:
                        k = int(g.integers(-8, 9)); desc.append(f'**{k}'); return tree(d - 1) ** k
                    desc.append('prod')
                    x = mk()
                    for _ in range(int(g.integers(1, 4))): x.append(mk())
                    return x.prod() if hasattr(x, 'prod') else x[0]
                depth = int(g.integers(1, 6))
                valid_obj(f'expr-{cname}', lambda: tree(depth), dict(cls=cname, depth=depth, shape=desc))
    # round 11: SE2.SE3(z) — the lifted motion is a member of SE(3) (planar rotation about z, translation (x, y, z)), single values and sequences
    for x_, y_, th_, z_ in ((1.0, 2.0, 0.3, 0.0), (-4.0, 1000.0, -2.5, 7.0), (0.0, 0.0, 1.0, -3.0), (1e-3, -2e5, 3.0, 0.5)):
        inp_ = dict(x=x_, y=y_, theta=th_, z=z_)
        for nm_, mk_ in (('SE2.SE3', lambda: SE2(x_, y_, th_).SE3(z_) if z_ else SE2(x_, y_, th_).SE3()), ('SE2[2].SE3', lambda: SE2([SE2(x_, y_, th_), SE2(y_, x_, -th_)]).SE3(z_))):
            X_ = valid_obj(nm_, mk_, inp_)
            if X_ is not None:
                ref_ = np.eye(4); ref_[:2, :2] = [[math.cos(th_), -math.sin(th_)], [math.sin(th_), math.cos(th_)]]; ref_[:3, 3] = [x_, y_, z_]
                L.close(f'{nm_}:value', np.asarray(X_.data[0], float), ref_, 1e-12, max(1.0, abs(x_), abs(y_)), inp_, what='SE2.SE3() is not the planar motion lifted to 3-D', sig='SE2.SE3:value')
    return L.result()

if __name__ == '__main__':
    main_entry(_impl)
