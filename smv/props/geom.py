"""numeric helpers for the monitors (numpy only)"""
import math
import numpy as np
from .. import inputs

def so_residual(R):
    R = np.asarray(R, dtype=float)
    n = R.shape[0]
    if R.shape != (n, n) or not np.all(np.isfinite(R)): return float('inf')
    return max(float(np.max(np.abs(R @ R.T - np.eye(n)))), abs(float(np.linalg.det(R)) - 1.0))

def se_residual(T):
    T = np.asarray(T, dtype=float)
    n = T.shape[0] - 1
    if T.shape != (n + 1, n + 1) or not np.all(np.isfinite(T)): return float('inf')
    last = np.zeros(n + 1); last[-1] = 1
    return max(so_residual(T[:n, :n]), float(np.max(np.abs(T[n, :] - last))))

def q_residual(q):
    q = np.asarray(q, dtype=float)
    if q.shape != (4,) or not np.all(np.isfinite(q)): return float('inf')
    return abs(float(np.linalg.norm(q)) - 1.0)

def member_residual(x):
    """validity residual of an array by its shape"""
    x = np.asarray(x, dtype=float)
    if x.shape in ((2, 2),): return so_residual(x)
    if x.shape == (4,): return q_residual(x)
    raise ValueError(x.shape)

def axis_scaled(g):
    """axis with length log-uniform in [1e-3, 1e6]"""
    return inputs.unit_axis(g) * 10.0 ** g.uniform(-3, 6)

def big_angle(g):
    r = g.random()
    if r < 0.15: return inputs.angle(g) + 2 * math.pi * float(g.integers(-1000, 1001))
    return inputs.angle(g)

def tmag(T):
    T = np.asarray(T, dtype=float)
    n = T.shape[0] - 1
    return float(np.linalg.norm(T[:n, n]))
