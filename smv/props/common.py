"""Shared plumbing for the per-property monitors.

Monitors run the *real, unpatched* library, so they execute in a fresh interpreter
(`python -m smv.props.cXX --monitor …`) — the parent process has the tracer's proxies installed.
"""
import os, sys, json, subprocess, math, time, traceback, warnings
import numpy as np

ROOT = os.path.dirname(os.path.dirname(os.path.dirname(os.path.abspath(__file__))))
REPO = os.environ.get('SMV_REPO', '/repo')

def _run_one(modname, tier, seed, search, extra, timeout):
    env = dict(os.environ); env['SMV_NOPATCH'] = '1'
    env['PYTHONPATH'] = ROOT + os.pathsep + REPO + os.pathsep + env.get('PYTHONPATH', '')
    env['MPLBACKEND'] = 'Agg'
    env.setdefault('OMP_NUM_THREADS', '1'); env.setdefault('OPENBLAS_NUM_THREADS', '1')
    cmd = [sys.executable, '-m', modname, '--monitor', tier, str(seed), '1' if search else '0']
    if extra: cmd += list(extra)
    r = subprocess.run(cmd, cwd=ROOT, capture_output=True, text=True, env=env, timeout=timeout)
    marker = '@@RESULT@@'
    if marker not in r.stdout:
        raise RuntimeError(f"monitor {modname} failed (exit {r.returncode}):\n{r.stderr[-3000:]}\n{r.stdout[-500:]}")
    return json.loads(r.stdout.split(marker, 1)[1])

THOROUGH_SEEDS = 8      # the thorough tier runs the monitor with this many derived seeds in parallel and merges the results

def run_subprocess(modname, tier, seed, search, extra=None, timeout=3000):
    if tier != 'thorough' or extra:
        return _run_one(modname, tier, seed, search, extra, timeout)
    from concurrent.futures import ThreadPoolExecutor
    seeds = [seed + 7919 * k for k in range(THOROUGH_SEEDS)]
    with ThreadPoolExecutor(max_workers=THOROUGH_SEEDS) as ex:
        parts = list(ex.map(lambda sd: _run_one(modname, tier, sd, search, None, timeout), seeds))
    out = dict(parts[0]); out['seeds'] = seeds
    viol = {}
    for p_ in parts:
        for v in p_.get('violations', []):
            if v['signature'] in viol: viol[v['signature']]['count'] = viol[v['signature']].get('count', 1) + v.get('count', 1)
            else: viol[v['signature']] = v
    out['violations'] = list(viol.values())
    out['cases'] = sum(p_.get('cases', 0) for p_ in parts)
    out['distinct'] = sum(p_.get('distinct', 0) for p_ in parts) if not parts[0].get('exhaustive') else parts[0].get('distinct', 0)
    st = {}
    for p_ in parts:
        for k, v in (p_.get('stats') or {}).items():
            if isinstance(v, (int, float)): st[k] = st.get(k, 0) + v
            else: st.setdefault(k, v)
    out['stats'] = st
    mr = {}
    for p_ in parts:
        for k, v in (p_.get('max_relative_residual') or {}).items(): mr[k] = max(mr.get(k, 0.0), v)
    out['max_relative_residual'] = mr
    return out

def jsonable(x):
    if isinstance(x, np.ndarray): return x.tolist()
    if isinstance(x, (np.floating, np.integer)): return x.item()
    if isinstance(x, (np.bool_,)): return bool(x)
    if isinstance(x, (list, tuple)): return [jsonable(y) for y in x]
    if isinstance(x, dict): return {str(k): jsonable(v) for k, v in x.items()}
    if isinstance(x, (int, float, str, bool)) or x is None: return x
    return repr(x)

class Laws:
    """collects cases, violations (deduplicated by signature) and samples"""
    def __init__(self, pid, rule=''):
        self.pid = pid; self.cases = 0; self.viol = {}; self.samples = []; self.stats = {}
        self.seen = set(); self.rule = rule; self.maxres = {}
        Laws.current = self

    def count(self, law, key=None):
        self.cases += 1
        self.stats[law] = self.stats.get(law, 0) + 1
        if key is not None: self.seen.add((law, key))
        else: self.seen.add((law, self.stats[law]))

    def sample(self, law, inp):
        if len([s for s in self.samples if s['law'] == law]) < 1 and len(self.samples) < 40:
            self.samples.append(dict(law=law, input=jsonable(inp)))

    def fail(self, signature, what, inp, observed=None, required=None):
        if signature not in self.viol:
            self.viol[signature] = dict(signature=signature, what=what, input=jsonable(inp),
                                        observed=jsonable(observed), required=jsonable(required), count=1)
        else:
            self.viol[signature]['count'] += 1

    def close(self, law, a, b, tol, scale, inp, what=None, sig=None):
        """|a-b| <= tol*scale elementwise; records a violation otherwise.  returns residual/scale"""
        self.count(law)
        self.sample(law, inp)
        try:
            a = np.asarray(a, dtype=float); b = np.asarray(b, dtype=float)
            if a.shape != b.shape:
                self.fail(sig or f"{law}:shape", what or f"{law}: result shapes differ {a.shape} vs {b.shape}", inp, a.shape, b.shape)
                return float('inf')
            if a.size == 0: return 0.0
            d = np.abs(a - b)
            res = float(np.max(d)) if np.all(np.isfinite(d)) else float('inf')
        except Exception as e:
            self.fail(sig or f"{law}:type", what or f"{law}: results not comparable ({e})", inp, repr(a)[:200], repr(b)[:200])
            return float('inf')
        rel = res / max(scale, 1e-300)
        self.maxres[law] = max(self.maxres.get(law, 0.0), rel)
        if not (rel <= tol):
            self.fail(sig or law, what or f"{law}: residual {rel:.3g} exceeds {tol:g} (relative to {scale:.3g})", inp, a, b)
        return rel

    def check(self, law, cond, inp, what, sig=None, observed=None, required=None):
        self.count(law)
        self.sample(law, inp)
        if not cond:
            self.fail(sig or law, what, inp, observed, required)

    def raises(self, law, fn, inp, what, sig=None, exc=Exception):
        """fn() must raise"""
        self.count(law); self.sample(law, inp)
        try:
            r = fn()
        except exc:
            return True
        except Exception as e:
            self.fail(sig or law, what + f" (raised {type(e).__name__} instead)", inp, type(e).__name__)
            return False
        self.fail(sig or law, what, inp, observed=repr(r)[:200], required='an exception')
        return False

    def noraise(self, law, fn, inp, what, sig=None):
        """fn() must not raise; returns (ok, value)"""
        try:
            with warnings.catch_warnings():
                warnings.simplefilter('ignore')
                with np.errstate(all='ignore'):
                    return True, fn()
        except Exception as e:
            self.count(law); self.sample(law, inp)
            self.fail(sig or f"{law}:raises:{type(e).__name__}", what + f": raised {type(e).__name__}: {str(e)[:120]}", inp, type(e).__name__)
            return False, None

    def result(self):
        return dict(cases=self.cases, distinct=len(self.seen), violations=list(self.viol.values()),
                    samples=self.samples, stats=self.stats, rule=self.rule,
                    max_relative_residual={k: float(f"{v:.3g}") for k, v in self.maxres.items()})

def emit(result):
    print('@@RESULT@@' + json.dumps(result, default=str))

def model_correspondence(modname, tier, seed, timeout=1800):
    """tie T2: the property module's `_corr(tier, seed)` runs the REAL code (fresh interpreter, unpatched) and returns rows
    dict(req=<driver request line>, exp=<canonical real outcome>, meta=...); the same requests are answered by the Lean
    model through the driver and the two streams are compared literally."""
    from .. import transval
    env = dict(os.environ); env['SMV_NOPATCH'] = '1'
    env['PYTHONPATH'] = ROOT + os.pathsep + REPO + os.pathsep + env.get('PYTHONPATH', '')
    env['MPLBACKEND'] = 'Agg'
    r = subprocess.run([sys.executable, '-m', modname, '--corr', tier, str(seed)], cwd=ROOT, capture_output=True, text=True,
                       env=env, timeout=timeout)
    marker = '@@RESULT@@'
    if marker not in r.stdout:
        raise RuntimeError(f"correspondence generator {modname} failed (exit {r.returncode}):\n{r.stderr[-3000:]}")
    rows = json.loads(r.stdout.split(marker, 1)[1])
    answers = transval.lean_driver([x['req'] for x in rows])
    if len(answers) != len(rows):
        raise RuntimeError(f"driver answered {len(answers)} lines for {len(rows)} requests")
    mism = []; kinds = {}
    for x, a in zip(rows, answers):
        k = x['req'].split()[1] if len(x['req'].split()) > 1 else '?'
        kinds[k] = kinds.get(k, 0) + 1
        if a.strip() != x['exp']:
            mism.append(dict(request=x['req'], real=x['exp'], model=a.strip(), meta=x.get('meta')))
    return dict(cases=len(rows), kinds=kinds, mismatches=mism)

def main_entry(impl, corr=None):
    """call from `if __name__ == '__main__'` of a property module"""
    if len(sys.argv) >= 4 and sys.argv[1] == '--corr' and corr is not None:
        warnings.filterwarnings('ignore')
        sys.path.insert(0, REPO)
        emit(corr(sys.argv[2], int(sys.argv[3])))
        return
    if len(sys.argv) >= 5 and sys.argv[1] == '--monitor':
        tier, seed, search = sys.argv[2], int(sys.argv[3]), sys.argv[4] == '1'
        warnings.filterwarnings('ignore')
        sys.path.insert(0, REPO)
        try:
            res = impl(tier, seed, search)
        except Exception as e:
            # an exception escaping from the library where the monitor expects none (every call that may legitimately raise is
            # wrapped): report it as a witness, with the innermost library frame, and keep what was collected so far
            L = getattr(Laws, 'current', None)
            if L is None: raise
            tb = traceback.extract_tb(e.__traceback__)
            lib = [f for f in tb if '/spatialmath/' in f.filename]
            where = f"{os.path.basename(lib[-1].filename)}:{lib[-1].name}" if lib else 'monitor'
            caller = [f for f in tb if '/smv/props/' in f.filename]
            L.count('unexpected-exception')
            L.fail(f"unexpected-exception:{type(e).__name__}:{where}",
                   f"the library raised {type(e).__name__} ({str(e)[:120]}) in {where} on an input where the property requires a result",
                   dict(traceback=traceback.format_exc()[-1500:], monitor_line=(caller[-1].lineno if caller else None)), observed=type(e).__name__)
            res = L.result()
        emit(res)
