"""C18 — unit twists encode screw geometry (float monitor)."""
import math
import numpy as np
from .common import Laws, run_subprocess, main_entry
from .. import inputs
from . import geom

SPEC = dict(
    technique='Lean 4 proof (unit twists = screw motions; regenerated model) + float monitor',
    lean_modules=['SmVerif.Props.C18', 'SmVerif.Props.VecPreds', 'SmVerif.Props.TwistOps', 'SmVerif.Props.Multi'],
    groups=['Transforms3d', 'Transforms2d', 'TransformsNd', 'Vectors', 'Twists', 'Multi'],
    expected_untranslatable=('trinterp_T', 'trinterp_T_nostart'),
    partial=['accessor semantics (pitch, pole, line, isprismatic/isrevolute) and the traced constructors are proved; float agreement is explored'],
    assumptions=['agreement 1e-9·scale on generated inputs only'],
)

def monitor(tier, seed, search=False):
    return run_subprocess('smv.props.c18', tier, seed, search)

def replay(rp):
    r = run_subprocess('smv.props.c18', 'quick', 0, True)
    hit = [v for v in r['violations'] if v['signature'] == rp.get('signature')]
    return dict(violates=bool(hit), detail=hit[:1])

def _impl(tier, seed, search):
    import spatialmath.base as b
    from spatialmath import SE2, SE3, Twist2, Twist3
    g = inputs.rng(seed)
    n = 150 if tier == 'quick' else 3000
    if search: n *= 3
    L = Laws('C18', rule='axis directions with length 1e-3..1e6, axis points with coordinates up to 1e3, theta in [-2pi, 2pi] incl. 0 and multiples of pi/2, '
                         'scalar and vector theta, both units, 3-D and 2-D; a case = one geometric check')
    TOL = 1e-9
    def theta(g):
        r = g.random()
        if r < 0.3: return float(g.integers(-4, 5)) * math.pi / 2
        if r < 0.42: return float(g.choice([-1, 1])) * 10.0 ** g.uniform(-8, -1)      # small non-zero angles
        return float(g.uniform(-2 * math.pi, 2 * math.pi))
    for i in range(n):
        a = geom.axis_scaled(g); ahat = a / np.linalg.norm(a)
        if i % 8 == 3: a = ahat * (1 + float(g.choice([-1, 1])) * 10.0 ** g.uniform(-9, -5.1))     # direction that is unit only to 5..9 digits
        q = g.normal(size=3) * 10.0 ** g.uniform(-3, 3); q = np.clip(q, -1e3, 1e3)
        th = theta(g); qs = max(1.0, float(np.max(np.abs(q))))
        if i % 6 == 1: th = float(g.choice([1, -1, 3])) * math.pi + float(g.choice([-1, 1])) * 10.0 ** g.uniform(-8, -4)      # next to a half turn (not on it)
        inp = dict(a=a, q=q, theta=th)
        ok, S = L.noraise('Revolute', lambda: Twist3.Revolute(a, q), inp, 'Twist3.Revolute(a, q)')
        if ok:
            L.close('Revolute:w', S.w, ahat, TOL, 1.0, inp); L.close('Revolute:v', S.v, -np.cross(ahat, q), TOL, qs, inp)
            ok2, T = L.noraise('Revolute.exp', lambda: S.exp(th).A, inp, 'S.exp(theta)')
            if ok2:
                for lam in (0.0, float(g.normal() * 10)):
                    p = q + lam * ahat
                    L.close('Revolute:axis-fixed', T[:3, :3] @ p + T[:3, 3], p, TOL, max(qs, abs(lam)), inp, what='exp(theta S) moves a point of the screw axis')
                L.close('Revolute:rotation', T[:3, :3], inputs.rodrigues(ahat, th), TOL, 1.0, inp, what='exp(theta S) does not rotate by theta about the normalised direction')
                off = q + np.cross(ahat, g.normal(size=3))
                want = inputs.rodrigues(ahat, th) @ (off - q) + q
                L.close('Revolute:off-axis-point', T[:3, :3] @ off + T[:3, 3], want, TOL, qs, inp)
            ok2, r = L.noraise('Revolute.pitch', lambda: S.pitch(), inp, 'S.pitch()')
            if ok2: L.close('Revolute:pitch=0', float(r), 0.0, TOL, qs, inp)
            ok2, r = L.noraise('Revolute.pole', lambda: S.pole(), inp, 'S.pole()')
            if ok2: L.close('Revolute:pole-on-axis', np.cross(np.asarray(r, float) - q, ahat), np.zeros(3), TOL, qs, inp, what='pole is not on the screw axis')
            ok2, r = L.noraise('Revolute.theta', lambda: S.theta(), inp, 'S.theta()')
            if ok2: L.close('Revolute:theta=|w|', float(r), 1.0, TOL, 1.0, inp)
            ok2, ln = L.noraise('Revolute.line', lambda: S.line(), inp, 'S.line()')
            if ok2:
                ok3, c = L.noraise('Revolute.line.contains', lambda: (ln.pp, ln.uw), inp, 'line pp / uw')
                if ok3:
                    L.close('Revolute:line-on-axis', np.cross(np.asarray(c[0], float) - q, ahat), np.zeros(3), TOL, qs, inp, what='line of action does not pass through the axis')
                    L.close('Revolute:line-direction', np.cross(np.asarray(c[1], float), ahat), np.zeros(3), TOL, 1.0, inp)
            ok2, r = L.noraise('Revolute.isprismatic', lambda: (S.isprismatic, S.isrevolute, S.isunit), inp, 'predicates')
            if ok2:
                L.check('Revolute:not-prismatic', not bool(r[0]), inp, 'a revolute twist is reported prismatic')
            ok2, r = L.noraise('Revolute.se3', lambda: S.se3(), inp, 'S.se3()')
            if ok2: L.close('Revolute:se3', r, np.block([[geom_sk(S.w), S.v.reshape(3, 1)], [np.zeros((1, 4))]]), TOL, qs, inp)
            ok2, r = L.noraise('Revolute.inv', lambda: (S.inv().exp(th).A, np.linalg.inv(S.exp(th).A)), inp, 'S.inv()')
            if ok2: L.close('Revolute:inv', r[0], r[1], TOL, max(1.0, geom.tmag(r[1])), inp)
            k = float(g.uniform(-2, 2))
            ok2, r = L.noraise('Revolute.S*k', lambda: ((S * k).exp().A, S.exp(k).A), dict(inp, k=k), 'exp(S*k) vs S.exp(k)')
            if ok2: L.close('exp(S*k)=S.exp(k)', r[0], r[1], TOL, max(1.0, geom.tmag(r[1])), dict(inp, k=k))
            # multi-valued twists: scalar multiples and exp act value by value
            def multi_scalar():
                Sm = Twist3([S.S, (S * 0.5).S]) if hasattr(S, 'S') else None
                out_ = []
                for kk in (2, -1, 0.5, 3.0):
                    Pm = Sm * kk
                    out_.append(([np.asarray(x_, float) for x_ in Pm.data], [np.asarray((S * kk).S, float), np.asarray(((S * 0.5) * kk).S, float)]))
                return out_
            ok2, r = L.noraise('Twist3(multi)*k', multi_scalar, inp, 'multi-valued Twist3 * scalar')
            if ok2:
                for got_, want_ in r:
                    L.check('Twist3(multi)*k:len', len(got_) == 2, inp, 'multi-valued Twist3 * scalar does not keep the number of values', sig='Twist3(multi)*k')
                    if len(got_) == 2:
                        for g_, w_ in zip(got_, want_): L.close('Twist3(multi)*k', g_, w_, TOL, max(1.0, float(np.max(np.abs(w_)))), inp, sig='Twist3(multi)*k')
            # several twists in one object: exp(scalar theta) / SE3() give one motion per twist, inv() negates value by value (order kept)
            if i % 5 == 1:
                def multi_exp_inv():
                    Ss_ = [Twist3.Revolute(geom.axis_scaled(g), g.normal(size=3)).S, Twist3.Prismatic(geom.axis_scaled(g)).S, S.S]
                    Sm = Twist3([x_.copy() for x_ in Ss_])
                    return ([np.asarray(x_, float) for x_ in Sm.exp(th).data], [np.asarray(x_, float) for x_ in Sm.SE3().data], [np.asarray(x_, float) for x_ in Sm.inv().data],
                            [Twist3(x_).exp(th).A for x_ in Ss_], [Twist3(x_).SE3().A for x_ in Ss_], [-x_ for x_ in Ss_])
                ok2, r = L.noraise('Twist3(multi).exp(scalar)', multi_exp_inv, inp, 'exp(scalar theta) / SE3() / inv() of a 3-valued Twist3', sig='Twist3(multi):exp-inv:raises')
                if ok2:
                    for nm_, got_, want_ in (('exp(theta)', r[0], r[3]), ('SE3()', r[1], r[4]), ('inv()', r[2], r[5])):
                        L.check(f'Twist3(multi).{nm_}:len', len(got_) == 3, inp, f'{nm_} of a 3-valued Twist3 gives {len(got_)} values', sig=f'Twist3(multi).{nm_}')
                        if len(got_) == 3:
                            for k_ in range(3): L.close(f'Twist3(multi).{nm_}', got_[k_], np.asarray(want_[k_], float), TOL, max(1.0, float(np.max(np.abs(want_[k_])))), dict(inp, k=k_),
                                                        what=f'value {k_} of {nm_} on a 3-valued Twist3 is not {nm_} of twist {k_}', sig=f'Twist3(multi).{nm_}')
            # several twists and the scalar angle 0 (in any spelling): one identity per twist
            if i % 5 == 3:
                for z_ in (0, 0.0, -0.0):
                    ok2, r = L.noraise('Twist3(multi).exp(0)', lambda: [np.asarray(x_, float) for x_ in Twist3([S.S, Twist3.Prismatic(geom.axis_scaled(g)).S, S.S * 0.5]).exp(z_).data], dict(inp, theta=z_), 'exp(0) of a 3-valued Twist3', sig='Twist3(multi):exp-inv:raises')
                    if ok2:
                        L.check('Twist3(multi).exp(0):len', len(r) == 3, dict(inp, theta=z_), f'exp(0) of a 3-valued Twist3 gives {len(r)} values', sig='Twist3(multi).exp(theta)')
                        for x_ in r: L.close('Twist3(multi).exp(0)', x_, np.eye(4), TOL, 1.0, dict(inp, theta=z_), sig='Twist3(multi).exp(theta)')
            # several unit twists with one angle each (vector theta of the same length): motion k is exp(theta_k S_k)
            if i % 5 == 2:
                def multi_exp_vec():
                    Ss_ = [Twist3.Revolute(geom.axis_scaled(g), g.normal(size=3)).S, Twist3.Prismatic(geom.axis_scaled(g)).S, S.S]
                    ths_ = [th, -0.5 * th + 0.3, 0.0]
                    return ([np.asarray(x_, float) for x_ in Twist3([x_.copy() for x_ in Ss_]).exp(ths_).data], [np.asarray(x_, float) for x_ in Twist3([x_.copy() for x_ in Ss_[:2]]).exp(np.array(ths_[:2])).data],
                            [Twist3(x_).exp(t_).A for x_, t_ in zip(Ss_, ths_)])
                ok2, r = L.noraise('Twist3(multi).exp(vector)', multi_exp_vec, inp, 'exp(vector theta) of a multi-valued Twist3 (one angle per twist)', sig='Twist3(multi):exp-vector:raises')
                if ok2:
                    for nn_, got_ in ((3, r[0]), (2, r[1])):
                        L.check('Twist3(multi).exp(vector):len', len(got_) == nn_, inp, f'{nn_} twists with {nn_} angles give {len(got_)} motions', sig='Twist3(multi).exp(vector)')
                        if len(got_) == nn_:
                            for k_ in range(nn_): L.close('Twist3(multi).exp(vector)', got_[k_], r[2][k_], TOL, max(1.0, geom.tmag(r[2][k_])), dict(inp, k=k_), what=f'motion {k_} of a multi-valued twist exponentiated with one angle per twist is not exp(theta_k S_k)', sig='Twist3(multi).exp(vector)')
            # several unit twists held by one object: pitch, theta and the parts are reported value by value
            if i % 5 == 0:
                def multi_q():
                    axs_ = [geom.axis_scaled(g) for _ in range(3)]; qs_ = [np.clip(g.normal(size=3) * 10.0 ** g.uniform(-1, 2), -1e3, 1e3) for _ in range(3)]
                    singles = [Twist3.Revolute(a_, q_) for a_, q_ in zip(axs_, qs_)]
                    Sm = Twist3([x_.S for x_ in singles])
                    return (np.asarray(Sm.pitch(), float), np.asarray(Sm.theta(), float), np.asarray(Sm.v, float), np.asarray(Sm.w, float),
                            np.array([float(x_.pitch()) for x_ in singles]), np.array([x_.v for x_ in singles]), np.array([x_.w for x_ in singles]), max(1.0, float(np.max(np.abs(qs_)))))
                ok2, r = L.noraise('Twist3(multi).pitch', multi_q, inp, 'pitch / theta / v / w of a multi-valued unit twist', sig='Twist3(multi):accessors:raises')
                if ok2:
                    L.check('Twist3(multi).pitch:len', np.shape(r[0]) == (3,), inp, f'pitch() of 3 twists has shape {np.shape(r[0])}', sig='Twist3(multi).pitch')
                    if np.shape(r[0]) == (3,):
                        L.close('Twist3(multi).pitch', r[0], np.zeros(3), TOL, r[7], inp, what='pitch of revolute unit twists held by one object is not 0 for each', sig='Twist3(multi).pitch')
                        L.close('Twist3(multi).pitch=single', r[0], r[4], TOL, r[7], inp, sig='Twist3(multi).pitch')
                    L.check('Twist3(multi).theta:len', np.shape(r[1]) == (3,), inp, f'theta() of 3 twists has shape {np.shape(r[1])}', sig='Twist3(multi).theta', observed=np.asarray(r[1]).tolist())
                    if np.shape(r[1]) == (3,): L.close('Twist3(multi).theta', r[1], np.ones(3), TOL, 1.0, inp, sig='Twist3(multi).theta')
                    if np.shape(r[2]) == (3, 3): L.close('Twist3(multi).v', r[2], r[5], TOL, r[7], inp, sig='Twist3(multi).v'); L.close('Twist3(multi).w', r[3], r[6], TOL, 1.0, inp, sig='Twist3(multi).w')
            ok2, r = L.noraise('Revolute.exp(deg)', lambda: (S.exp(math.degrees(th), units='deg').A, S.exp(th).A), inp, 'S.exp(theta, units=deg)')
            if ok2: L.close('exp(deg)', r[0], r[1], TOL, max(1.0, geom.tmag(r[1])), inp)
            ths = [th, 0.0, -th / 2]
            ok2, r = L.noraise('Revolute.exp(vector,deg)', lambda: S.exp([math.degrees(a_) for a_ in ths], units='deg'), inp, 'S.exp(vector theta, deg)')
            if ok2 and hasattr(r, '__len__') and len(r) == 3:
                for k_ in range(3): L.close('exp(vector,deg)', r[k_].A, S.exp(ths[k_]).A, TOL, max(1.0, geom.tmag(r[k_].A)), inp, sig='exp(vector,deg)')
            ok2, r = L.noraise('Revolute.exp(vector)', lambda: S.exp(ths), inp, 'S.exp(vector theta)')
            if ok2:
                L.check('exp(vector):len', len(r) == 3, inp, 'vector theta does not give one pose per theta')
                if len(r) == 3: L.close('exp(vector)', r[2].A, S.exp(ths[2]).A, TOL, max(1.0, geom.tmag(r[2].A)), inp)
        # prismatic
        ok, Pz = L.noraise('Prismatic', lambda: Twist3.Prismatic(a), dict(a=a), 'Twist3.Prismatic(a)')
        if ok:
            ok2, T = L.noraise('Prismatic.exp', lambda: Pz.exp(th).A, dict(a=a, theta=th), 'Prismatic.exp(theta)')
            if ok2:
                L.close('Prismatic:no-rotation', T[:3, :3], np.eye(3), TOL, 1.0, dict(a=a, theta=th)); L.close('Prismatic:translation', T[:3, 3], th * ahat, TOL, max(1.0, abs(th)), dict(a=a, theta=th))
            ok2, r = L.noraise('Prismatic.theta', lambda: (Pz.theta(), (Pz * 2.5).theta(), Pz.inv().theta()), dict(a=a), 'Prismatic.theta()')
            if ok2:
                for r_ in r: L.close('Prismatic:theta=0', float(r_), 0.0, TOL, 1.0, dict(a=a), what='theta() of a prismatic twist (rotation magnitude) is not 0', sig='Prismatic:theta')
            ok2, r = L.noraise('Prismatic.predicates', lambda: (Pz.isprismatic, Pz.isrevolute), dict(a=a), 'predicates')
            if ok2:
                L.check('Prismatic:isprismatic', bool(r[0]), dict(a=a), 'a prismatic twist is not reported prismatic'); L.check('Prismatic:not-revolute', not bool(r[1]), dict(a=a), 'a prismatic twist is reported revolute')
        # planar
        q2 = q[:2]
        ok, S2 = L.noraise('Twist2.Revolute', lambda: Twist2.Revolute(q2), dict(q=q2), 'Twist2.Revolute(q)')
        if ok:
            # small angles about a far centre (|q| ~ 1e3, 1e-4 .. 1e-2 rad): the centre stays put to 1e-9 of its distance
            if i % 6 == 2:
                qf_ = g.normal(size=2); qf_ = qf_ / np.linalg.norm(qf_) * float(g.uniform(500, 1000)); Sf_ = Twist2.Revolute(qf_)
                for thf_ in (0.009, -0.005, 0.003, 1e-3, 3e-4):
                    ok2, Tf = L.noraise('Twist2.exp(small angle, far centre)', lambda: (Sf_.exp(thf_).A, Sf_.exp([thf_, 2 * thf_])[1].A, (Sf_ * thf_).exp().A), dict(q=qf_, theta=thf_), 'planar exp about a far centre')
                    if ok2:
                        for nm_, Tm_, tt_ in (('exp(theta)', Tf[0], thf_), ('exp([.., theta])', Tf[1], 2 * thf_), ('(S*theta).exp()', Tf[2], thf_)):
                            L.close(f'Twist2:point-fixed(far, small angle) {nm_}', Tm_[:2, :2] @ qf_ + Tm_[:2, 2], qf_, TOL, float(np.linalg.norm(qf_)), dict(q=qf_, theta=tt_), what='planar exp(theta S) moves a far centre of rotation for a small angle', sig='Twist2:point-fixed')
                            L.close(f'Twist2:angle(far, small angle) {nm_}', Tm_[:2, :2], inputs.r2(tt_), TOL, 1.0, dict(q=qf_, theta=tt_), sig='Twist2:point-fixed')
                # a scalar on the left of a twist holding several values scales each of them (as S * k does)
                Sm2_ = Twist2([Twist2.Revolute(q2).S, Twist2.Prismatic(g.normal(size=2)).S])
                for kk_ in (2.5, 3, -1.5):
                    ok2, rk = L.noraise('k * Twist2(multi)', lambda: ([np.asarray(x_, float) for x_ in (kk_ * Sm2_).data], [np.asarray(x_, float) for x_ in (Sm2_ * kk_).data]), dict(k=kk_), 'scalar * multi-valued Twist2', sig='k*Twist2(multi):raises')
                    if ok2:
                        L.check('k*Twist2(multi):len', len(rk[0]) == 2, dict(k=kk_), f'{kk_} * (Twist2 holding 2 values) holds {len(rk[0])} values', sig='k*Twist2(multi)')
                        if len(rk[0]) == 2:
                            for j_ in range(2): L.close('k*Twist2(multi)', rk[0][j_], np.asarray(Sm2_.data[j_], float) * kk_, TOL, 5.0, dict(k=kk_, j=j_), sig='k*Twist2(multi)'); L.close('Twist2(multi)*k', rk[1][j_], np.asarray(Sm2_.data[j_], float) * kk_, TOL, 5.0, dict(k=kk_, j=j_), sig='k*Twist2(multi)')
            ok2, T = L.noraise('Twist2.exp', lambda: S2.exp(th).A, dict(q=q2, theta=th), 'Twist2.exp(theta)')
            if ok2:
                L.close('Twist2:point-fixed', T[:2, :2] @ q2 + T[:2, 2], q2, TOL, qs, dict(q=q2, theta=th), what='planar exp(theta S) moves the centre of rotation')
                L.close('Twist2:rotation', T[:2, :2], inputs.r2(th), TOL, 1.0, dict(q=q2, theta=th))
            ok2, r = L.noraise('Twist2.predicates', lambda: (S2.isprismatic, S2.se2()), dict(q=q2), 'Twist2 predicates / se2')
            if ok2:
                L.check('Twist2:not-prismatic', not bool(r[0]), dict(q=q2), 'a planar revolute twist is reported prismatic')
                L.close('Twist2:se2', r[1], np.array([[0, -S2.w, S2.v[0]], [S2.w, 0, S2.v[1]], [0, 0, 0]]), TOL, qs, dict(q=q2))
            k = float(g.uniform(-2, 2))
            ok2, r = L.noraise('Twist2.S*k', lambda: ((S2 * k).exp().A, S2.exp(k).A), dict(q=q2, k=k), 'Twist2: exp(S*k) vs S.exp(k)')
            if ok2: L.close('Twist2:exp(S*k)=S.exp(k)', r[0], r[1], TOL, max(1.0, geom.tmag(r[1])), dict(q=q2, k=k))
            ths2 = [th, -th / 2, 0.3]
            for un, conv in (('rad', lambda a_: a_), ('deg', math.degrees)):
                ok2, r = L.noraise(f'Twist2.exp(vector,{un})', lambda: S2.exp([conv(a_) for a_ in ths2], units=un), dict(q=q2, theta=ths2, units=un), 'Twist2.exp(vector theta)')
                if ok2:
                    L.check('Twist2:exp(vector):len', hasattr(r, '__len__') and len(r) == 3, dict(q=q2, units=un), 'vector theta does not give one pose per theta')
                    if hasattr(r, '__len__') and len(r) == 3:
                        for k_ in range(3):
                            L.close(f'Twist2:exp(vector,{un})', r[k_].A, S2.exp(ths2[k_]).A, TOL, max(1.0, geom.tmag(r[k_].A)), dict(q=q2, theta=ths2, units=un),
                                    what='Twist2.exp of a vector of angles differs from exp of each angle', sig=f'Twist2:exp(vector,{un})')
                ok2, r = L.noraise(f'Twist2.exp(scalar,{un})', lambda: (S2.exp(conv(th), units=un).A, S2.exp(th).A), dict(q=q2, theta=th, units=un), 'Twist2.exp(theta, units)')
                if ok2: L.close(f'Twist2:exp(scalar,{un})', r[0], r[1], TOL, max(1.0, geom.tmag(r[1])), dict(q=q2, theta=th, units=un))
            ok2, r = L.noraise('Twist2.inv', lambda: (S2.inv().exp(th).A, np.linalg.inv(S2.exp(th).A)), dict(q=q2, theta=th), 'Twist2.inv()')
            if ok2: L.close('Twist2:inv', r[0], r[1], TOL, max(1.0, geom.tmag(r[1])), dict(q=q2, theta=th))
        a2 = a[:2] if np.linalg.norm(a[:2]) > 0 else np.array([1.0, 0.0])
        ok, P2 = L.noraise('Twist2.Prismatic', lambda: Twist2.Prismatic(a2), dict(a=a2), 'Twist2.Prismatic(a)')
        if ok:
            ok2, T = L.noraise('Twist2.Prismatic.exp', lambda: P2.exp(th).A, dict(a=a2, theta=th), 'planar prismatic exp')
            if ok2:
                L.close('Twist2.Prismatic:translation', T[:2, 2], th * a2 / np.linalg.norm(a2), TOL, max(1.0, abs(th)), dict(a=a2, theta=th)); L.close('Twist2.Prismatic:no-rotation', T[:2, :2], np.eye(2), TOL, 1.0, dict(a=a2))
            ok2, r = L.noraise('Twist2.Prismatic.isprismatic', lambda: P2.isprismatic, dict(a=a2), 'isprismatic')
            if ok2: L.check('Twist2.Prismatic:isprismatic', bool(r), dict(a=a2), 'a planar prismatic twist is not reported prismatic')
    # round 11: a caller's array of joint angles is read, not converted in place: the same array gives the same poses on every call
    # (Twist3.exp / Twist2.exp, degrees and radians), and is unchanged afterwards
    for nm_, mk_ in (('Twist3', lambda: Twist3.Revolute([0, 0, 1], [1, 2, 0])), ('Twist2', lambda: Twist2.Revolute([1, 2]))):
        for un_ in ('deg', 'rad'):
            ang_ = np.array([30.0, 90.0, -45.0]) if un_ == 'deg' else np.array([0.5, 1.5, -0.75]); keep_ = ang_.copy()
            inp_ = dict(twist=nm_, theta=keep_, units=un_)
            ok, r = L.noraise(f'{nm_}.exp(array) twice', lambda: ([x_.A.copy() for x_ in mk_().exp(ang_, units=un_)], [x_.A.copy() for x_ in mk_().exp(ang_, units=un_)]), inp_,
                              f'{nm_}.exp(array, units={un_}) called twice', sig=f'exp-array-twice:{nm_}:raises')
            if ok:
                L.check(f'{nm_}.exp(array):argument unchanged', np.array_equal(ang_, keep_), inp_, f'{nm_}.exp overwrote the array of angles it was given')
                for A_, B_ in zip(*r):
                    L.close(f'{nm_}.exp(array) twice', B_, A_, 1e-15, 1.0, inp_, what='the second call with the same array of angles gives a different pose', sig=f'exp-array-twice:{nm_}')
    return L.result()

def geom_sk(w):
    return np.array([[0, -w[2], w[1]], [w[2], 0, -w[0]], [-w[1], w[0], 0]])

if __name__ == '__main__':
    main_entry(_impl)
